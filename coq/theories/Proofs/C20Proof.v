(* C20: the HTML rendering is well-formed (every tag closed in order) and shows every piece of
   schema-supplied text only in escaped form. *)
From Coq Require Import ZArith NArith List Bool String Ascii Lia.
From Valida Require Import Html.
Import ListNotations.
Local Open Scope string_scope.
Local Open Scope list_scope.

(* ================================================================== *)
(* 0. induction principle for the nested tree                          *)

Definition kids_all (P : tnode -> Prop) (children : option (list tnode)) : Prop :=
  match children with Some cs => Forall P cs | None => True end.

Section TInd.
  Variable P : tnode -> Prop.
  Hypothesis HNode : forall path pr tip tf kf vf lf cond req doc children,
      kids_all P children ->
      P (TNode path pr tip tf kf vf lf cond req doc children).
  Fixpoint tnode_ind' (n : tnode) : P n :=
    match n with
    | TNode path pr tip tf kf vf lf cond req doc children =>
        HNode path pr tip tf kf vf lf cond req doc children
          (match children as ch return kids_all P ch with
           | Some cs => (fix go (l : list tnode) : Forall P l :=
                           match l return Forall P l with
                           | [] => Forall_nil _
                           | x :: r => Forall_cons _ (tnode_ind' x) (go r)
                           end) cs
           | None => I
           end)
    end.
End TInd.

(* ================================================================== *)
(* 1. an unfolding of node_toks into named pieces                       *)

Definition sec_id (anchor : option string) (path : list pelem) : string :=
  String.append "vld-" (String.concat "-" (with_anchor anchor (map pe_id path))).

Definition heading_toks (anchor : option string) (start : nat) (show : bool) (depth : nat)
           (path : list pelem) : list tok :=
  let titles := with_anchor anchor (map pe_title path) in
  let last_heading : option (list tok) :=
    match rev path with
    | e :: _ => Some (pe_heading e)
    | [] => match anchor with Some a => if String.eqb a "" then None else Some [TText a] | None => None end
    end in
  match last_heading with
  | Some h =>
      if (Nat.ltb 0 depth) || show then
        let lev := String.append "h" (nat_to_str (start + depth)) in
        divc "valida-tree path-name"
          ([TOpen lev (String.append " title=""" (String.append (String.concat arrow titles) """"))] ++ h
           ++ [TOpen "a" (String.append " class=""headerlink"" href=""#" (String.append (sec_id anchor path) """"));
               TText "#"; TClose "a"; TClose lev])
      else []
  | None => []
  end.

Definition meta_toks (top : bool) (tf kf vf lf cond : string) (required : bool) : list tok :=
  join_toks ", " (type_line tf kf vf lf
                  ++ (if top then [] else [span "valida-tree required-name" [TText (if required then "required" else "optional")]]))
  ++ divc "valida-tree condition" [TText "Condition: "; TOpen "code" ""; TText (html_escape cond); TClose "code"].

Definition wrap_nonempty (n a : string) (l : list tok) : list tok :=
  match l with [] => [] | _ => [TOpen n a] ++ l ++ [TClose n] end.

Definition kids_toks (anchor : option string) (start depth : nat) (path : list pelem) (path_repr : string)
           (children : option (list tnode)) : list tok :=
  match children with
  | Some cs =>
      wrap_nonempty "div"
        (String.append " class=""valida-tree node"" data-node-path="""
           (String.append (html_escape (match path with [] => "" | _ => path_repr end)) """"))
        (flat_map (node_toks anchor start false true (S depth)) cs)
  | None => []
  end.

Lemma node_toks_eq : forall anchor start top show depth path pr tip tf kf vf lf cond req doc children,
  node_toks anchor start top show depth (TNode path pr tip tf kf vf lf cond req doc children) =
  if tip && negb (match children with Some (_ :: _) => true | _ => false end) then []
  else
    [TOpen "div" " class=""valida-tree node-child""";
     TOpen "section" (String.append " class=""valida-tree-section"" id=""" (String.append (sec_id anchor path) """"))]
    ++ heading_toks anchor start show depth path
    ++ [TOpen "div" " class=""valida-tree node-info"""]
    ++ divc "valida-tree node-metadata" (meta_toks top tf kf vf lf cond req)
    ++ doc_toks doc
    ++ [TClose "div"]
    ++ kids_toks anchor start depth path pr children
    ++ [TClose "section"; TClose "div"].
Proof. reflexivity. Qed.

Lemma tree_toks_eq : forall anchor start show nodes,
  tree_toks anchor start show nodes =
  wrap_nonempty "div" " class=""valida-tree node top-level-node"" data-node-path="""""
    (flat_map (node_toks anchor start true show 0) nodes).
Proof. reflexivity. Qed.

(* ================================================================== *)
(* 2. well-formedness                                                   *)

Definition seg_balanced (l : list tok) : Prop :=
  forall st rest, balanced_aux st (l ++ rest) = balanced_aux st rest.

Lemma sb_nil : seg_balanced [].
Proof. intros st rest. reflexivity. Qed.

Lemma sb_app : forall l1 l2, seg_balanced l1 -> seg_balanced l2 -> seg_balanced (l1 ++ l2).
Proof. intros l1 l2 H1 H2 st rest. rewrite <- app_assoc, H1, H2. reflexivity. Qed.

Lemma sb_text : forall s, seg_balanced [TText s].
Proof. intros s st rest. reflexivity. Qed.

Lemma sb_text_cons : forall s l, seg_balanced l -> seg_balanced (TText s :: l).
Proof. intros s l H st rest. cbn [app balanced_aux]. apply H. Qed.

Lemma sb_wrap : forall n a l, seg_balanced l -> seg_balanced ([TOpen n a] ++ l ++ [TClose n]).
Proof.
  intros n a l H st rest. cbn [app balanced_aux]. rewrite <- app_assoc, H.
  cbn [app balanced_aux]. rewrite String.eqb_refl. reflexivity.
Qed.

Lemma sb_wrap2 : forall n a l1 l2, seg_balanced l1 -> seg_balanced l2 ->
  seg_balanced ([TOpen n a] ++ l1 ++ l2 ++ [TClose n]).
Proof.
  intros n a l1 l2 H1 H2. rewrite (app_assoc l1 l2). apply sb_wrap, sb_app; assumption.
Qed.

Lemma sb_code_cons : forall n a s r, seg_balanced r -> seg_balanced (TOpen n a :: TText s :: TClose n :: r).
Proof.
  intros n a s r H st rest. cbn [app balanced_aux]. rewrite String.eqb_refl. cbn [andb]. apply H.
Qed.

Lemma sb_wrap_nonempty : forall n a l, seg_balanced l -> seg_balanced (wrap_nonempty n a l).
Proof. intros n a l H. unfold wrap_nonempty. destruct l; [apply sb_nil | apply sb_wrap; exact H]. Qed.

Lemma sb_span : forall cls l, seg_balanced l -> seg_balanced (span cls l).
Proof. intros cls l H. unfold span. apply sb_wrap, H. Qed.

Lemma sb_divc : forall cls l, seg_balanced l -> seg_balanced (divc cls l).
Proof. intros cls l H. unfold divc. apply sb_wrap, H. Qed.

Lemma sb_flat_map : forall (A : Type) (f : A -> list tok) l,
  Forall (fun x => seg_balanced (f x)) l -> seg_balanced (flat_map f l).
Proof.
  intros A f l H. induction H as [|x r Hx Hr IH]; cbn [flat_map]; [apply sb_nil | apply sb_app; assumption].
Qed.

Lemma sb_join_toks : forall sep l, Forall seg_balanced l -> seg_balanced (join_toks sep l).
Proof.
  intros sep l H. induction H as [|x r Hx Hr IH]; [apply sb_nil|].
  destruct r as [|y r']; [exact Hx|].
  change (seg_balanced (x ++ [TText sep] ++ join_toks sep (y :: r'))).
  apply sb_app; [exact Hx|]. apply sb_text_cons, IH.
Qed.

Ltac sb :=
  repeat match goal with
  | |- seg_balanced [] => apply sb_nil
  | |- seg_balanced (TText _ :: _) => apply sb_text_cons
  | |- seg_balanced (TOpen ?n _ :: TText _ :: TClose ?n :: _) => apply sb_code_cons
  | |- seg_balanced ([TOpen ?n _] ++ _ ++ [TClose ?n]) => apply sb_wrap
  | |- seg_balanced (span _ _) => apply sb_span
  | |- seg_balanced (divc _ _) => apply sb_divc
  | |- seg_balanced (_ ++ _) => apply sb_app
  | |- seg_balanced (if ?b then _ else _) => destruct b
  end.

Lemma sb_cur : forall cur, seg_balanced (match cur with EmptyString => [] | _ => [TText cur] end).
Proof. intros [|c r]; sb. Qed.

Lemma sb_code_toks_aux : forall fuel s cur, seg_balanced (code_toks_aux fuel s cur).
Proof.
  induction fuel as [|f IH]; intros s cur; cbn [code_toks_aux]; [apply sb_text|].
  destruct s as [|c r]; [apply sb_cur|].
  destruct (Ascii.eqb c backtick); [|apply IH].
  destruct (until_tick r) as [[inner rest]|]; [|apply IH].
  apply sb_app; [apply sb_cur|]. apply sb_app; [|apply IH]. sb.
Qed.

Lemma sb_code_toks : forall s, seg_balanced (code_toks s).
Proof. intros s. apply sb_code_toks_aux. Qed.

Lemma sb_pe_heading : forall e, seg_balanced (pe_heading e).
Proof. intros [| |s]; cbn [pe_heading]; sb. Qed.

Lemma sb_heading_inner : forall lev x y h, seg_balanced h ->
  seg_balanced ([TOpen lev x] ++ h ++ [TOpen "a" y; TText "#"; TClose "a"; TClose lev]).
Proof.
  intros lev x y h H st rest. cbn [app balanced_aux]. rewrite <- app_assoc, H.
  cbn [app balanced_aux]. rewrite !String.eqb_refl. reflexivity.
Qed.

Lemma sb_heading_toks : forall anchor start show depth path,
  seg_balanced (heading_toks anchor start show depth path).
Proof.
  intros anchor start show depth path. unfold heading_toks. cbv zeta.
  destruct (rev path) as [|e r].
  - destruct anchor as [a|]; [|apply sb_nil].
    destruct (String.eqb a ""); [apply sb_nil|].
    destruct (Nat.ltb 0 depth || show); [|apply sb_nil].
    apply sb_divc, sb_heading_inner. sb.
  - destruct (Nat.ltb 0 depth || show); [|apply sb_nil].
    apply sb_divc, sb_heading_inner, sb_pe_heading.
Qed.

Lemma sb_type_line : forall tf kf vf lf, Forall seg_balanced (type_line tf kf vf lf).
Proof.
  intros tf kf vf lf. unfold type_line.
  destruct (String.eqb tf ""); [constructor|].
  constructor; [|constructor]. sb.
Qed.

Lemma sb_meta_toks : forall top tf kf vf lf cond req, seg_balanced (meta_toks top tf kf vf lf cond req).
Proof.
  intros top tf kf vf lf cond req. unfold meta_toks.
  apply sb_app; [|sb].
  apply sb_join_toks. apply Forall_app. split; [apply sb_type_line|].
  destruct top; constructor; [|constructor]. sb.
Qed.

Lemma sb_doc_toks : forall doc, seg_balanced (doc_toks doc).
Proof.
  intros [[descr examples]|]; cbn [doc_toks]; [|apply sb_nil].
  apply sb_app; apply sb_flat_map; apply Forall_forall; intros x _.
  - apply sb_wrap, sb_code_toks.
  - apply sb_wrap2; [sb | apply sb_code_toks].
Qed.

Lemma node_shape_balanced : forall a1 a2 a3 heading meta doc kids,
  seg_balanced heading -> seg_balanced meta -> seg_balanced doc -> seg_balanced kids ->
  seg_balanced ([TOpen "div" a1; TOpen "section" a2] ++ heading ++ [TOpen "div" a3] ++ meta ++ doc
                ++ [TClose "div"] ++ kids ++ [TClose "section"; TClose "div"]).
Proof.
  intros a1 a2 a3 heading meta doc kids Hh Hm Hd Hk st rest.
  cbn [app balanced_aux]. rewrite <- app_assoc, Hh.
  cbn [app balanced_aux]. rewrite <- app_assoc, Hm, <- app_assoc, Hd.
  cbn [app balanced_aux]. rewrite <- app_assoc, Hk. cbn. reflexivity.
Qed.

Lemma node_balanced : forall anchor start n top show depth,
  seg_balanced (node_toks anchor start top show depth n).
Proof.
  intros anchor start n.
  induction n as [path pr tip tf kf vf lf cond req doc children IH] using tnode_ind'.
  intros top show depth. rewrite node_toks_eq.
  destruct (tip && negb (match children with Some (_ :: _) => true | _ => false end)); [apply sb_nil|].
  apply node_shape_balanced.
  - apply sb_heading_toks.
  - apply sb_divc, sb_meta_toks.
  - apply sb_doc_toks.
  - unfold kids_toks. destruct children as [cs|]; [|apply sb_nil].
    apply sb_wrap_nonempty, sb_flat_map.
    apply Forall_impl with (2 := IH). intros c Hc. apply Hc.
Qed.

Lemma tree_seg_balanced : forall anchor start show nodes, seg_balanced (tree_toks anchor start show nodes).
Proof.
  intros anchor start show nodes. rewrite tree_toks_eq.
  apply sb_wrap_nonempty, sb_flat_map, Forall_forall. intros n _. apply node_balanced.
Qed.

Theorem C20_balanced : forall anchor start show nodes, balanced (tree_toks anchor start show nodes) = true.
Proof.
  intros anchor start show nodes. unfold balanced.
  rewrite <- (app_nil_r (tree_toks anchor start show nodes)).
  rewrite tree_seg_balanced. reflexivity.
Qed.

(* ================================================================== *)
(* 3. escaping                                                          *)

Lemma no_raw_meta_app : forall a b,
  no_raw_meta (String.append a b) = no_raw_meta a && no_raw_meta b.
Proof.
  induction a as [|c r IH]; intros b; [reflexivity|].
  cbn [String.append no_raw_meta]. rewrite IH, !andb_assoc. reflexivity.
Qed.

Theorem html_escape_clean : forall s, no_raw_meta (html_escape s) = true.
Proof.
  induction s as [|c r IH]; [reflexivity|].
  cbn [html_escape].
  destruct (Ascii.eqb c "&") eqn:E1; [cbn; exact IH|].
  destruct (Ascii.eqb c "<") eqn:E2; [cbn; exact IH|].
  destruct (Ascii.eqb c ">") eqn:E3; [cbn; exact IH|].
  destruct (Ascii.eqb c """") eqn:E4; [cbn; exact IH|].
  destruct (Ascii.eqb c "'") eqn:E5; [cbn; exact IH|].
  cbn [no_raw_meta]. rewrite E2, E3, E4. exact IH.
Qed.

(* every & of the output starts one of the five entities *)
Fixpoint str_prefix (p s : string) : bool :=
  match p with
  | EmptyString => true
  | String a p' => match s with String b s' => Ascii.eqb a b && str_prefix p' s' | EmptyString => false end
  end.

Fixpoint amp_ok (s : string) : bool :=
  match s with
  | EmptyString => true
  | String c r =>
      (if Ascii.eqb c "&"
       then str_prefix "amp;" r || str_prefix "lt;" r || str_prefix "gt;" r || str_prefix "quot;" r
            || str_prefix "#x27;" r
       else true) && amp_ok r
  end.

Theorem html_escape_no_amp_raw : forall s, amp_ok (html_escape s) = true.
Proof.
  induction s as [|c r IH]; [reflexivity|].
  cbn [html_escape].
  destruct (Ascii.eqb c "&") eqn:E1; [cbn; exact IH|].
  destruct (Ascii.eqb c "<") eqn:E2; [cbn; exact IH|].
  destruct (Ascii.eqb c ">") eqn:E3; [cbn; exact IH|].
  destruct (Ascii.eqb c """") eqn:E4; [cbn; exact IH|].
  destruct (Ascii.eqb c "'") eqn:E5; [cbn; exact IH|].
  cbn [amp_ok]. rewrite E1. exact IH.
Qed.

Fixpoint no_angle (s : string) : bool :=
  match s with
  | EmptyString => true
  | String c r => negb (Ascii.eqb c "<") && negb (Ascii.eqb c ">") && no_angle r
  end.

Definition tok_clean (t : tok) : Prop :=
  match t with
  | TText x => no_raw_meta x = true
  | TOpen _ a => no_angle a = true
  | TClose _ => True
  end.

Definition text_clean (t : tok) : Prop :=
  match t with TText x => no_raw_meta x = true | _ => True end.

Lemma no_angle_app : forall a b, no_angle (String.append a b) = no_angle a && no_angle b.
Proof.
  induction a as [|c r IH]; intros b; [reflexivity|].
  cbn [String.append no_angle]. rewrite IH, !andb_assoc. reflexivity.
Qed.

Lemma no_raw_meta_no_angle : forall s, no_raw_meta s = true -> no_angle s = true.
Proof.
  induction s as [|c r IH]; [reflexivity|].
  cbn [no_raw_meta no_angle]. rewrite !andb_true_iff.
  intros [[[H1 H2] _] H4]. auto.
Qed.

Lemma no_angle_wrap : forall pre mid post,
  no_angle pre = true -> no_angle mid = true -> no_angle post = true ->
  no_angle (String.append pre (String.append mid post)) = true.
Proof. intros pre mid post H1 H2 H3. rewrite !no_angle_app, H1, H2, H3. reflexivity. Qed.

Lemma no_angle_concat : forall sep l,
  no_angle sep = true -> Forall (fun x => no_angle x = true) l -> no_angle (String.concat sep l) = true.
Proof.
  intros sep l Hs H. induction H as [|x r Hx Hr IH]; [reflexivity|].
  destruct r as [|y r']; [exact Hx|].
  change (no_angle (String.append x (String.append sep (String.concat sep (y :: r')))) = true).
  apply no_angle_wrap; assumption.
Qed.

Lemma until_tick_clean : forall s a b,
  until_tick s = Some (a, b) -> no_raw_meta s = true -> no_raw_meta a = true /\ no_raw_meta b = true.
Proof.
  induction s as [|c r IH]; intros a b Hu Hs; [discriminate|].
  cbn [until_tick] in Hu. cbn [no_raw_meta] in Hs. apply andb_true_iff in Hs. destruct Hs as [Hc Hr].
  destruct (Ascii.eqb c backtick).
  - inversion Hu; subst. split; [reflexivity | exact Hr].
  - destruct (Ascii.eqb c newline); [discriminate|].
    destruct (until_tick r) as [[a' b']|] eqn:E; [|discriminate].
    inversion Hu; subst. destruct (IH a' b eq_refl Hr) as [Ha Hb].
    split; [|exact Hb]. cbn [no_raw_meta]. rewrite Hc, Ha. reflexivity.
Qed.

Lemma Forall_app_intro : forall (A : Type) (P : A -> Prop) l1 l2,
  Forall P l1 -> Forall P l2 -> Forall P (l1 ++ l2).
Proof. intros A P l1 l2 H1 H2. apply Forall_app. split; assumption. Qed.

Lemma Forall_flat_map_intro : forall (A B : Type) (P : B -> Prop) (f : A -> list B) l,
  Forall (fun x => Forall P (f x)) l -> Forall P (flat_map f l).
Proof.
  intros A B P f l H. induction H as [|x r Hx Hr IH]; cbn [flat_map]; [constructor|].
  apply Forall_app_intro; assumption.
Qed.

Lemma span_clean : forall cls l, no_angle cls = true -> Forall tok_clean l -> Forall tok_clean (span cls l).
Proof.
  intros cls l Hc Hl. unfold span. apply Forall_app_intro; [|apply Forall_app_intro].
  - constructor; [|constructor]. unfold tok_clean. apply no_angle_wrap; [reflexivity | exact Hc | reflexivity].
  - exact Hl.
  - constructor; [exact I | constructor].
Qed.

Lemma divc_clean : forall cls l, no_angle cls = true -> Forall tok_clean l -> Forall tok_clean (divc cls l).
Proof.
  intros cls l Hc Hl. unfold divc. apply Forall_app_intro; [|apply Forall_app_intro].
  - constructor; [|constructor]. unfold tok_clean. apply no_angle_wrap; [reflexivity | exact Hc | reflexivity].
  - exact Hl.
  - constructor; [exact I | constructor].
Qed.

Lemma wrap_nonempty_clean : forall n a l,
  no_angle a = true -> Forall tok_clean l -> Forall tok_clean (wrap_nonempty n a l).
Proof.
  intros n a l Ha Hl. unfold wrap_nonempty. destruct l as [|t l']; [constructor|].
  apply Forall_app_intro; [constructor; [exact Ha | constructor]|].
  apply Forall_app_intro; [exact Hl|]. constructor; [exact I | constructor].
Qed.

Ltac fc :=
  repeat match goal with
  | |- Forall _ [] => apply Forall_nil
  | |- Forall _ (_ :: _) => apply Forall_cons
  | |- Forall _ (_ ++ _) => apply Forall_app_intro
  | |- Forall _ (span _ _) => apply span_clean; [reflexivity|]
  | |- Forall _ (divc _ _) => apply divc_clean; [reflexivity|]
  | |- Forall _ (if ?b then _ else _) => destruct b
  | |- tok_clean (TClose _) => exact I
  end.

Lemma cur_clean : forall cur, no_raw_meta cur = true ->
  Forall tok_clean (match cur with EmptyString => [] | _ => [TText cur] end).
Proof. intros [|c r] H; fc. exact H. Qed.

Lemma code_toks_aux_clean : forall fuel s cur,
  no_raw_meta s = true -> no_raw_meta cur = true -> Forall tok_clean (code_toks_aux fuel s cur).
Proof.
  induction fuel as [|f IH]; intros s cur Hs Hc; cbn [code_toks_aux].
  - fc. unfold tok_clean. rewrite no_raw_meta_app, Hs, Hc. reflexivity.
  - destruct s as [|c r]; [apply cur_clean, Hc|].
    pose proof Hs as Hs'. cbn [no_raw_meta] in Hs'. apply andb_true_iff in Hs'. destruct Hs' as [Hch Hr].
    assert (Hcc : no_raw_meta (String.append cur (String c EmptyString)) = true).
    { rewrite no_raw_meta_app, Hc. cbn [no_raw_meta andb]. rewrite Hch. reflexivity. }
    destruct (Ascii.eqb c backtick); [|apply IH; assumption].
    destruct (until_tick r) as [[inner rest]|] eqn:E; [|apply IH; assumption].
    destruct (until_tick_clean r inner rest E Hr) as [Hi Hrest].
    apply Forall_app_intro; [apply cur_clean, Hc|].
    apply Forall_app_intro; [|apply IH; [exact Hrest | reflexivity]].
    fc; [reflexivity | exact Hi].
Qed.

Lemma code_toks_tok_clean : forall s, no_raw_meta s = true -> Forall tok_clean (code_toks s).
Proof. intros s H. apply code_toks_aux_clean; [exact H | reflexivity]. Qed.

Theorem code_toks_clean : forall s, no_raw_meta s = true ->
  Forall (fun t => match t with TText x => no_raw_meta x = true | _ => True end) (code_toks s).
Proof.
  intros s H. apply Forall_impl with (2 := code_toks_tok_clean s H).
  intros [n a| n | x] Ht; [exact I | exact I | exact Ht].
Qed.

Definition anchor_ok (anchor : option string) : Prop :=
  match anchor with Some a => no_raw_meta a = true | None => True end.

Lemma with_anchor_angle : forall anchor l, anchor_ok anchor ->
  Forall (fun x => no_angle x = true) l -> Forall (fun x => no_angle x = true) (with_anchor anchor l).
Proof.
  intros anchor l Ha Hl. unfold with_anchor. destruct anchor as [a|]; [|exact Hl].
  destruct (String.eqb a ""); [exact Hl|]. constructor; [|exact Hl].
  apply no_raw_meta_no_angle, Ha.
Qed.

Lemma pe_id_angle : forall e, no_angle (pe_id e) = true.
Proof. intros [| |s]; [reflexivity | reflexivity |]. apply no_raw_meta_no_angle, html_escape_clean. Qed.

Lemma pe_title_angle : forall e, no_angle (pe_title e) = true.
Proof. intros [| |s]; [reflexivity | reflexivity |]. apply no_raw_meta_no_angle, html_escape_clean. Qed.

Lemma Forall_map_intro : forall (A B : Type) (P : B -> Prop) (f : A -> B) l,
  (forall x, P (f x)) -> Forall P (map f l).
Proof. intros A B P f l H. induction l; cbn [map]; constructor; auto. Qed.

Lemma sec_id_angle : forall anchor path, anchor_ok anchor -> no_angle (sec_id anchor path) = true.
Proof.
  intros anchor path Ha. unfold sec_id. rewrite no_angle_app.
  rewrite no_angle_concat; [reflexivity | reflexivity |].
  apply with_anchor_angle; [exact Ha|]. apply Forall_map_intro, pe_id_angle.
Qed.

Lemma pe_heading_clean : forall e, Forall tok_clean (pe_heading e).
Proof. intros [| |s]; cbn [pe_heading]; fc; try reflexivity. apply html_escape_clean. Qed.

Lemma heading_inner_clean : forall anchor path lev h,
  anchor_ok anchor -> Forall tok_clean h ->
  Forall tok_clean
    ([TOpen lev (String.append " title=""" (String.append (String.concat arrow (with_anchor anchor (map pe_title path))) """"))] ++ h
     ++ [TOpen "a" (String.append " class=""headerlink"" href=""#" (String.append (sec_id anchor path) """"));
         TText "#"; TClose "a"; TClose lev]).
Proof.
  intros anchor path lev h Ha Hh. fc.
  - unfold tok_clean. apply no_angle_wrap; [reflexivity | | reflexivity].
    apply no_angle_concat; [reflexivity|].
    apply with_anchor_angle; [exact Ha|]. apply Forall_map_intro, pe_title_angle.
  - exact Hh.
  - unfold tok_clean. apply no_angle_wrap; [reflexivity | apply sec_id_angle, Ha | reflexivity].
  - reflexivity.
Qed.

Lemma heading_toks_clean : forall anchor start show depth path,
  anchor_ok anchor -> Forall tok_clean (heading_toks anchor start show depth path).
Proof.
  intros anchor start show depth path Ha. unfold heading_toks. cbv zeta.
  destruct (rev path) as [|e r].
  - destruct anchor as [a|]; [|constructor].
    destruct (String.eqb a ""); [constructor|].
    destruct (Nat.ltb 0 depth || show); [|constructor].
    apply divc_clean; [reflexivity|]. apply heading_inner_clean; [exact Ha|].
    constructor; [exact Ha | constructor].
  - destruct (Nat.ltb 0 depth || show); [|constructor].
    apply divc_clean; [reflexivity|]. apply heading_inner_clean; [exact Ha | apply pe_heading_clean].
Qed.

Lemma join_toks_clean : forall sep l,
  no_raw_meta sep = true -> Forall (Forall tok_clean) l -> Forall tok_clean (join_toks sep l).
Proof.
  intros sep l Hs H. induction H as [|x r Hx Hr IH]; [constructor|].
  destruct r as [|y r']; [exact Hx|].
  change (Forall tok_clean (x ++ [TText sep] ++ join_toks sep (y :: r'))).
  apply Forall_app_intro; [exact Hx|]. constructor; [exact Hs | exact IH].
Qed.

Lemma labelled_clean : forall pre s post,
  no_raw_meta pre = true -> no_raw_meta post = true ->
  no_raw_meta (String.append pre (String.append (html_escape s) post)) = true.
Proof.
  intros pre s post H1 H2. rewrite !no_raw_meta_app, H1, H2, html_escape_clean. reflexivity.
Qed.

Lemma type_line_clean : forall tf kf vf lf, Forall (Forall tok_clean) (type_line tf kf vf lf).
Proof.
  intros tf kf vf lf. unfold type_line.
  destruct (String.eqb tf ""); [constructor|].
  constructor; [|constructor].
  fc; unfold tok_clean; try reflexivity;
    try (apply labelled_clean; reflexivity).
  rewrite no_raw_meta_app, html_escape_clean. reflexivity.
Qed.

Lemma meta_toks_clean : forall top tf kf vf lf cond req, Forall tok_clean (meta_toks top tf kf vf lf cond req).
Proof.
  intros top tf kf vf lf cond req. unfold meta_toks.
  apply Forall_app_intro.
  - apply join_toks_clean; [reflexivity|].
    apply Forall_app_intro; [apply type_line_clean|].
    destruct top; constructor; [|constructor].
    fc. destruct req; reflexivity.
  - fc; try reflexivity. apply html_escape_clean.
Qed.

Lemma doc_toks_clean : forall doc, Forall tok_clean (doc_toks doc).
Proof.
  intros [[descr examples]|]; cbn [doc_toks]; [|constructor].
  apply Forall_app_intro; apply Forall_flat_map_intro; apply Forall_forall; intros x _.
  - fc; [reflexivity | apply code_toks_tok_clean, html_escape_clean].
  - fc; [reflexivity | reflexivity | apply code_toks_tok_clean, html_escape_clean].
Qed.

Lemma node_clean : forall anchor start, anchor_ok anchor ->
  forall n top show depth, Forall tok_clean (node_toks anchor start top show depth n).
Proof.
  intros anchor start Ha n.
  induction n as [path pr tip tf kf vf lf cond req doc children IH] using tnode_ind'.
  intros top show depth. rewrite node_toks_eq.
  destruct (tip && negb (match children with Some (_ :: _) => true | _ => false end)); [constructor|].
  apply Forall_app_intro.
  { constructor; [reflexivity|]. constructor; [|constructor].
    unfold tok_clean. apply no_angle_wrap; [reflexivity | apply sec_id_angle, Ha | reflexivity]. }
  apply Forall_app_intro; [apply heading_toks_clean, Ha|].
  apply Forall_app_intro; [constructor; [reflexivity | constructor]|].
  apply Forall_app_intro; [apply divc_clean; [reflexivity | apply meta_toks_clean]|].
  apply Forall_app_intro; [apply doc_toks_clean|].
  apply Forall_app_intro; [constructor; [exact I | constructor]|].
  apply Forall_app_intro; [|constructor; [exact I|]; constructor; [exact I | constructor]].
  unfold kids_toks. destruct children as [cs|]; [|constructor].
  apply wrap_nonempty_clean.
  - apply no_angle_wrap; [reflexivity | | reflexivity].
    apply no_raw_meta_no_angle, html_escape_clean.
  - apply Forall_flat_map_intro. apply Forall_impl with (2 := IH). intros c Hc. apply Hc.
Qed.

Theorem C20_escaped : forall anchor start show nodes,
  (match anchor with Some a => no_raw_meta a = true | None => True end) ->
  Forall tok_clean (tree_toks anchor start show nodes).
Proof.
  intros anchor start show nodes Ha. rewrite tree_toks_eq.
  apply wrap_nonempty_clean; [reflexivity|].
  apply Forall_flat_map_intro, Forall_forall. intros n _. apply node_clean. exact Ha.
Qed.

(* ================================================================== *)
(* 4. non-vacuity                                                       *)

Fixpoint str_contains (p s : string) : bool :=
  str_prefix p s || match s with EmptyString => false | String _ r => str_contains p r end.

Definition ex_leaf : tnode :=
  TNode [PEStr "k<1>"] "('k<1>',)" false "str" "" "" "" "None" true
        (Some (["x `a<b` y"], ["<script>"])) None.
Definition ex_leaf2 : tnode :=
  TNode [PEStr "k<1>"; PEMap] "('k<1>', MapValue())" false "list" "" "" "int" "a > ""b""" false
        (Some ([], [])) (Some []).
Definition ex_root : tnode :=
  TNode [] "()" false "map" "str" "any" "" "None" true
        (Some (["root & ""doc"""], [])) (Some [ex_leaf; ex_leaf2]).

Example C20_ex_balanced : balanced (tree_toks (Some "root") 2 true [ex_root]) = true.
Proof. vm_compute. reflexivity. Qed.

Example C20_ex_nonempty : Nat.ltb 40 (List.length (tree_toks (Some "root") 2 true [ex_root])) = true.
Proof. vm_compute. reflexivity. Qed.

Example C20_ex_no_script : str_contains "<script>" (write_tree_html (Some "root") 2 true [ex_root]) = false.
Proof. vm_compute. reflexivity. Qed.

Example C20_ex_script_escaped :
  str_contains "&lt;script&gt;" (write_tree_html (Some "root") 2 true [ex_root]) = true.
Proof. vm_compute. reflexivity. Qed.

Example C20_ex_code :
  str_contains "x <code>a&lt;b</code> y" (write_tree_html (Some "root") 2 true [ex_root]) = true.
Proof. vm_compute. reflexivity. Qed.

Example C20_ex_key :
  str_contains ">k&lt;1&gt;<a class=""headerlink""" (write_tree_html (Some "root") 2 true [ex_root]) = true
  /\ str_contains "k<1>" (write_tree_html (Some "root") 2 true [ex_root]) = false.
Proof. vm_compute. split; reflexivity. Qed.

(* the checker does reject ill-formed streams *)
Example C20_ex_unbalanced : balanced [TOpen "p" ""; TOpen "b" ""; TClose "p"; TClose "b"] = false.
Proof. vm_compute. reflexivity. Qed.

(* The hypothesis on the anchor in C20_escaped is necessary: anchor_root is written without escaping. *)
Example C20_anchor_raw :
  str_contains "<script>" (write_tree_html (Some "<script>") 1 true
     [TNode [] "()" false "map" "" "" "" "None" true None None]) = true.
Proof. vm_compute. reflexivity. Qed.

Print Assumptions C20_balanced.
Print Assumptions html_escape_clean.
Print Assumptions html_escape_no_amp_raw.
Print Assumptions code_toks_clean.
Print Assumptions C20_escaped.
Print Assumptions C20_ex_balanced.
Print Assumptions C20_ex_no_script.
Print Assumptions C20_anchor_raw.
