(* C19: a malformed spec is rejected with one of the library's Malformed* errors, TypeError,
   ValueError (or a KeyError naming the missing rule field); the spec parsers never fail with an
   internal error (AttributeError, IndexError, StopIteration, RuntimeError, OtherExc ...).

   The model's parsers are fuelled; [Err RecursionError] is what the model returns when the fuel
   runs out.  Every theorem comes in two forms:
     - for ALL specs: the error is a spec error or RecursionError;
     - for specs whose nesting depth [vdepth] is below the fuel ([spec_fuel] = 40): the error is a
       spec error (so RecursionError only arises from fuel exhaustion).

   Main theorems (end of file; all for arbitrary [pyval]s, no well-formedness assumed, no extra
   hypotheses, nothing left unproved):
     C19_cond_no_internal / C19_cond_no_recursion              cond1_from_spec
     C19_path_no_internal / C19_path_no_recursion              path_from_spec
     C19_part_no_internal / C19_part_no_recursion              part_spec_parse
     C19_part_entry_no_internal / C19_part_entry_no_recursion  dict_of_val ; part_spec_parse
     C19_part_specs_no_internal / C19_part_specs_no_recursion  from_part_specs
     C19_rule_no_internal / C19_rule_no_recursion / C19_rule_keyerror   rule_from_spec

   The generic development (sections) is over arbitrary tables with five boolean table facts
   ([tables_ok], three [has_ctor], [forallb mod_okb]); they are discharged for the generated tables
   by computation ([T_tables_ok] ... [X_suffixes_ok]).  The internal-error branches of the model
   shown unreachable from the parsers: [Err OtherExc] in [apply_ctor], [Err AttributeError] in
   [build_leaf] and [apply_mod], [Err KeyError] inside [norm_doc]. *)
From Coq Require Import ZArith NArith List Bool String Ascii Lia.
From Valida Require Import Py Lang Defs Cond Dsl Path Cast Str SpecDefs RuleDefs Spec SpecIO Inst RunSpec.
From Valida.Proofs Require Import PyFacts.
Import ListNotations.
Local Open Scope string_scope.
Local Open Scope list_scope.

Definition spec_error (e : exc) : Prop :=
  e = MalformedCond \/ e = MalformedPath \/ e = MalformedRule \/ e = TypeError \/ e = ValueError.
Definition rule_error (e : exc) : Prop := spec_error e \/ e = KeyError.

(* ------------------------------------------------------------------ *)
(* generic inversion of [... = Err e] / [... = Ok x] hypotheses         *)

Lemma bind_ok {A B} (r : res A) (f : A -> res B) b :
  bind r f = Ok b -> exists a, r = Ok a /\ f a = Ok b.
Proof. destruct r; cbn; intros H; [eauto | discriminate]. Qed.

(* one step: split a [bind], or destruct the scrutinee of a let-pair *)
Ltac bind_step H :=
  match type of H with
  | bind ?r ?f = Err _ =>
      let a := fresh "a" in let Ha := fresh "Ha" in
      apply bind_err in H; destruct H as [H | [a [Ha H]]]
  | bind ?r ?f = Ok _ =>
      let a := fresh "a" in let Ha := fresh "Ha" in
      apply bind_ok in H; destruct H as [a [Ha H]]
  | (let '(_, _) := ?p in _) = _ => destruct p
  end.

Ltac bs H a Ha :=
  match type of H with
  | bind _ _ = Err _ => apply bind_err in H; destruct H as [H | [a [Ha H]]]
  | bind _ _ = Ok _ => apply bind_ok in H; destruct H as [a [Ha H]]
  end.

(* ------------------------------------------------------------------ *)
(* a. DSL constructors: binding errors are TypeErrors                  *)

Section CtorFacts.
  Variable A : Type.
  Variable lit : pyval -> A.

  Definition covered (ps : list string) (e : list (string * A)) (missing : list (string * option pyval)) : Prop :=
    forall p, In p ps -> aget A p e <> None \/ In p (map fst missing).

  Lemma aget_cons_keep q p v e : aget A q e <> None -> aget A q ((p, v) :: e) <> None.
  Proof. cbn. destruct (String.eqb q p); congruence. Qed.

  Lemma aget_cons_same p v e : aget A p ((p, v) :: e) <> None.
  Proof. cbn. rewrite String.eqb_refl. congruence. Qed.

  Lemma cbind_pos_covered : forall params pos e rest extra,
    cbind_pos A params pos = (e, rest, extra) -> covered (map fst params) e rest.
  Proof.
    induction params as [|[p d] ps IH]; intros pos e rest extra H.
    - intros q [].
    - cbn in H. destruct pos as [|v vs].
      + injection H as <- <- <-. intros q Hq. right. exact Hq.
      + destruct (cbind_pos A ps vs) as [[e' rest'] extra'] eqn:E.
        injection H as <- <- <-. specialize (IH _ _ _ _ E).
        intros q [<-|Hq].
        * left. apply aget_cons_same.
        * destruct (IH q Hq) as [Hq'|Hq']; [left; apply aget_cons_keep; exact Hq' | right; exact Hq'].
  Qed.

  Lemma cbind_kw_covered ps : forall kw params missing hk e extra e' m' x',
    cbind_kw A params missing hk kw e extra = Ok (e', m', x') ->
    covered ps e missing -> covered ps e' m'.
  Proof.
    induction kw as [|[k v] r IH]; intros params missing hk e extra e' m' x' H Hc.
    - cbn in H. injection H as <- <- <-. exact Hc.
    - cbn in H. destruct (existsb _ missing) eqn:E1.
      + eapply IH; [exact H|]. intros q Hq. destruct (Hc q Hq) as [Hq'|Hq'].
        * left. apply aget_cons_keep. exact Hq'.
        * destruct (String.eqb k q) eqn:Ekq.
          -- apply String.eqb_eq in Ekq. subst q. left. apply aget_cons_same.
          -- right. apply in_map_iff in Hq' as [[q' d'] [Hfst Hin]]. cbn in Hfst. subst q'.
             apply in_map_iff. exists (q, d'). split; [reflexivity|].
             apply filter_In. split; [exact Hin|]. cbn. rewrite Ekq. reflexivity.
      + destruct (existsb (String.eqb k) params); [discriminate|].
        destruct hk; [|discriminate]. eapply IH; eauto.
  Qed.

  Lemma cbind_kw_err : forall kw params missing hk e extra x,
    cbind_kw A params missing hk kw e extra = Err x -> x = TypeError.
  Proof.
    induction kw as [|[k v] r IH]; intros params missing hk e extra x H; cbn in H; [discriminate|].
    destruct (existsb _ missing); [eauto|].
    destruct (existsb (String.eqb k) params); [congruence|].
    destruct hk; [eauto|congruence].
  Qed.

  Lemma fill_defaults_covered ps : forall missing e e2,
    fill_defaults A lit missing e = Ok e2 -> covered ps e missing ->
    forall p, In p ps -> aget A p e2 <> None.
  Proof.
    induction missing as [|[q [d|]] r IH]; intros e e2 H Hc; cbn in H.
    - injection H as <-. intros p Hp. destruct (Hc p Hp) as [Hp'|[]]. exact Hp'.
    - eapply IH; [exact H|]. intros p Hp. destruct (Hc p Hp) as [Hp'|[Hp'|Hp']].
      + left. apply aget_cons_keep. exact Hp'.
      + cbn in Hp'. subst q. left. apply aget_cons_same.
      + right. exact Hp'.
    - discriminate.
  Qed.

  Lemma fill_defaults_err : forall missing e x, fill_defaults A lit missing e = Err x -> x = TypeError.
  Proof.
    induction missing as [|[q [d|]] r IH]; intros e x H; cbn in H; [discriminate|eauto|congruence].
  Qed.

  (* every parameter a constructor stores is one of its own parameters *)
  Definition store_ok (ps : list string) (s : store) : bool :=
    match s with
    | StPos p | StKw _ p => existsb (String.eqb p) ps
    | _ => true
    end.
  Definition ctor_ok (c : ctor) : bool := forallb (store_ok (map fst (c_params c))) (c_store c).

  Lemma existsb_eqb_in p ps : existsb (String.eqb p) ps = true -> In p ps.
  Proof. intros H. apply existsb_exists in H as [q [Hq E]]. apply String.eqb_eq in E. subst; exact Hq. Qed.

  Lemma store_loop_ok ps e2 extra_pos extra_kw :
    (forall p, In p ps -> aget A p e2 <> None) ->
    forall st args kws x, forallb (store_ok ps) st = true ->
    (fix go (st : list store) (args : list A) (kws : list (string * A)) : res (list A * list (string * A)) :=
       match st with
       | [] => Ok (args, kws)
       | StPos p :: r => match aget A p e2 with Some v => go r (args ++ [v]) kws | None => Err OtherExc end
       | StKw k p :: r => match aget A p e2 with Some v => go r args (kws ++ [(k, v)]) | None => Err OtherExc end
       | StStar _ :: r => go r (args ++ extra_pos) kws
       | StDStar _ :: r => go r args (kws ++ extra_kw)
       end) st args kws = Err x -> False.
  Proof.
    intros Hall. induction st as [|s r IH]; intros args kws x Hok H; [discriminate|].
    cbn in Hok. apply andb_true_iff in Hok as [Hs Hr].
    destruct s as [p|k p|p|p]; cbn in Hs.
    - apply existsb_eqb_in in Hs. apply Hall in Hs. destruct (aget A p e2); [eauto|congruence].
    - apply existsb_eqb_in in Hs. apply Hall in Hs. destruct (aget A p e2); [eauto|congruence].
    - eauto.
    - eauto.
  Qed.

  Lemma apply_ctor_err c pos kw x :
    ctor_ok c = true -> apply_ctor lit c pos kw = Err x -> x = TypeError.
  Proof.
    intros Hok H. unfold apply_ctor in H.
    destruct (cbind_pos A (c_params c) pos) as [[e0 missing] extra_pos] eqn:E0.
    apply cbind_pos_covered in E0.
    bind_step H.
    { destruct (c_vararg c); [discriminate|]. destruct extra_pos; [discriminate|congruence]. }
    bind_step H; [eapply cbind_kw_err; eauto|].
    destruct a0 as [[e1 missing'] extra_kw].
    bind_step H; [eapply fill_defaults_err; eauto|].
    exfalso. eapply store_loop_ok; [| exact Hok | exact H].
    eapply fill_defaults_covered; [exact Ha1|]. eapply cbind_kw_covered; eauto.
  Qed.
End CtorFacts.

Section LeafFacts.
  Variable T : tables.
  Definition tables_ok : bool := forallb ctor_ok (t_general T ++ t_map T).
  Hypothesis HT : tables_ok = true.

  Lemma find_ctor_in_In : forall l name c, find_ctor_in l name = Some c -> In c l.
  Proof.
    induction l as [|c0 r IH]; intros name c H; cbn in H; [discriminate|].
    destruct (String.eqb (c_name c0) name); [injection H as <-; left; reflexivity | right; eauto].
  Qed.

  Lemma find_ctor_ok k name c : find_ctor T k name = Some c -> ctor_ok c = true.
  Proof.
    intros H. unfold tables_ok in HT. rewrite forallb_forall in HT. apply HT. apply in_or_app.
    unfold find_ctor in H.
    destruct (if k_general k then find_ctor_in (t_general T) (alias_of (t_aliases T) name) else None) as [c'|] eqn:E.
    - injection H as <-. left. destruct (k_general k); [eapply find_ctor_in_In; eauto|discriminate].
    - destruct (k_map k); [right; eapply find_ctor_in_In; eauto|discriminate].
  Qed.

  Lemma find_class_name_eq : forall l name k, find_class l name = Some k -> k_name k = name.
  Proof.
    induction l as [|k0 r IH]; intros name k H; cbn in H; [discriminate|].
    destruct (String.eqb (k_name k0) name) eqn:E; [injection H as <-; apply String.eqb_eq; exact E | eauto].
  Qed.

  Lemma find_class_name l name k : find_class l name = Some k -> find_class l (k_name k) = Some k.
  Proof. intros H. rewrite (find_class_name_eq _ _ _ H). exact H. Qed.

  (* cls.method(...) for a class and a constructor that exist *)
  Lemma build_leaf_err {A} (lit : pyval -> A) cls m pos kw x :
    build_leaf T lit cls m pos kw = Err x ->
    x = TypeError \/
    (x = AttributeError /\
     (find_class (t_classes T) cls = None \/
      exists k, find_class (t_classes T) cls = Some k /\ find_ctor T k m = None)).
  Proof.
    unfold build_leaf. destruct (find_class (t_classes T) cls) as [k|] eqn:Ek.
    - destruct (find_ctor T k m) as [c|] eqn:Ec.
      + intros H. bind_step H; [|destruct a; discriminate].
        left. eapply apply_ctor_err; [|exact H]. eapply find_ctor_ok; eauto.
      + intros H. right. split; [congruence|]. right. eauto.
    - intros H. right. split; [congruence|]. left. reflexivity.
  Qed.

  Lemma build_leaf_err_found {A} (lit : pyval -> A) name k m c pos kw x :
    find_class (t_classes T) name = Some k -> find_ctor T k m = Some c ->
    build_leaf T lit (k_name k) m pos kw = Err x -> x = TypeError.
  Proof.
    intros Hk Hc H. apply find_class_name in Hk.
    apply build_leaf_err in H as [H|[_ [H|[k' [H1 H2]]]]]; [exact H | congruence | congruence].
  Qed.

  Definition has_ctor (cls m : string) : bool :=
    match find_class (t_classes T) cls with
    | Some k => match find_ctor T k m with Some _ => true | None => false end
    | None => false
    end.

  Lemma build_leaf_err_has {A} (lit : pyval -> A) cls m pos kw x :
    has_ctor cls m = true -> build_leaf T lit cls m pos kw = Err x -> x = TypeError.
  Proof.
    unfold has_ctor. intros Hh H.
    apply build_leaf_err in H as [H|[_ [H|[k' [H1 H2]]]]]; [exact H | rewrite H in Hh; discriminate |].
    rewrite H1, H2 in Hh. discriminate.
  Qed.

  Lemma mk_bin_err {A} o (a b : cond A) x : mk_bin o a b = Err x -> x = TypeError.
  Proof.
    unfold mk_bin. destruct (is_null b); [discriminate|]. destruct (is_null a); [discriminate|].
    destruct (_ && _); congruence.
  Qed.
End LeafFacts.

(* ------------------------------------------------------------------ *)
(* b. parts and paths built from terms whose conditions are known to build *)

Section PathFacts.
  Variable T : tables.
  Hypothesis HT : tables_ok T = true.
  Hypothesis HKey : has_ctor T "Key" "equal_to" = true.
  Hypothesis HIndex : has_ctor T "Index" "equal_to" = true.
  Hypothesis HValue : has_ctor T "Value" "equal_to" = true.
  Variable A : Type.
  Variable lit : pyval -> A.

  Definition carg_ok (a : option (carg A)) : Prop :=
    match a with Some (KCond t) => exists c, build T lit t = Ok c | _ => True end.

  Definition pterm_ok (t : pterm A) : Prop :=
    match t with
    | PtPrim _ => True
    | PtMap k v c _ => carg_ok k /\ carg_ok v /\ carg_ok c
    | PtList i v c _ => carg_ok i /\ carg_ok v /\ carg_ok c
    | PtMol k i v lc mc c _ => carg_ok k /\ carg_ok i /\ carg_ok v /\ carg_ok lc /\ carg_ok mc /\ carg_ok c
    end.

  Lemma norm_arg_ok a : carg_ok a -> carg_ok (norm_arg A a).
  Proof. destruct a as [[[]|]|]; cbn; auto. Qed.

  Lemma datum_build_err cls d x :
    has_ctor T cls "equal_to" = true -> carg_ok (Some d) ->
    match d with
    | KCond t => build T lit t
    | KLit v => build T lit (DLeaf cls "equal_to" [lit v] [])
    end = Err x -> x = TypeError.
  Proof.
    intros Hc Hok H. destruct d as [v|t].
    - cbn [build] in H. bind_step H; [|discriminate]. eapply build_leaf_err_has; eauto.
    - destruct Hok as [c Hc']. congruence.
  Qed.

  Lemma gcvc_err condition datum cls kind x :
    carg_ok condition -> carg_ok datum -> has_ctor T cls "equal_to" = true ->
    gcvc T lit condition datum cls kind = Err x -> x = TypeError.
  Proof.
    intros Hc Hd Hcls H. unfold gcvc in H.
    apply norm_arg_ok in Hc. apply norm_arg_ok in Hd.
    destruct (norm_arg A condition) as [[v|t]|]; cbn [bind] in H.
    - congruence.
    - destruct Hc as [c Hc]. rewrite Hc in H. cbn [bind] in H.
      destruct (norm_arg A datum) as [d|]; [|discriminate].
      bind_step H; [eapply datum_build_err; eauto|].
      destruct (is_null a); [eapply mk_bin_err; eauto|].
      destruct (is_like kind a); [eapply mk_bin_err; eauto|congruence].
    - destruct (norm_arg A datum) as [d|]; [|discriminate].
      bind_step H; [eapply datum_build_err; eauto|].
      destruct (is_null a); [eapply mk_bin_err; eauto|].
      destruct (is_like kind a); [eapply mk_bin_err; eauto|congruence].
  Qed.

  Lemma pre_build_err a x : carg_ok a -> pre_build T A lit a = Err x -> False.
  Proof.
    intros Hok H. destruct a as [[v|t]|]; cbn in H; try discriminate.
    destruct Hok as [c Hc]. rewrite Hc in H. discriminate.
  Qed.

  Lemma value_and_err (value : option (carg A)) (c1 : cond A) x :
    carg_ok value ->
    match norm_arg A value with
    | None => Ok c1
    | Some d =>
        let* dc := match d with KCond t => build T lit t | KLit v => build T lit (DLeaf "Value" "equal_to" [lit v] []) end in
        if is_null dc then mk_bin BoAnd c1 dc
        else if is_like DValue dc then mk_bin BoAnd c1 dc else Err TypeError
    end = Err x -> x = TypeError.
  Proof.
    intros Hv H. apply norm_arg_ok in Hv. destruct (norm_arg A value) as [d|]; [|discriminate].
    bind_step H; [eapply datum_build_err; eauto|].
    destruct (is_null a); [eapply mk_bin_err; eauto|].
    destruct (is_like DValue a); [eapply mk_bin_err; eauto|congruence].
  Qed.

  Ltac gc H := eapply gcvc_err; [ | | | exact H]; cbn; auto.

  Lemma mk_part_err t x : pterm_ok t -> mk_part T lit t = Err x -> x = TypeError.
  Proof.
    intros Hok H. destruct t as [v|key value cnd label|index value cnd label|key index value lcnd mcnd cnd label];
      cbn [mk_part] in H.
    - destruct v; try congruence.
      + bind_step H; [gc H|].
        bind_step H; [gc H|discriminate].
      + bind_step H; [gc H|].
        bind_step H; [gc H|discriminate].
      + bind_step H; [gc H|discriminate].
      + bind_step H; [gc H|discriminate].
    - destruct Hok as (Hk & Hv & Hc).
      bind_step H; [exfalso; eapply pre_build_err; [|exact H]; assumption|].
      bind_step H; [exfalso; eapply pre_build_err; [|exact H]; assumption|].
      bind_step H; [exfalso; eapply pre_build_err; [|exact H]; assumption|].
      bind_step H; [gc H|].
      bind_step H; [eapply value_and_err; [|exact H]; assumption|discriminate].
    - destruct Hok as (Hk & Hv & Hc).
      bind_step H; [exfalso; eapply pre_build_err; [|exact H]; assumption|].
      bind_step H; [exfalso; eapply pre_build_err; [|exact H]; assumption|].
      bind_step H; [exfalso; eapply pre_build_err; [|exact H]; assumption|].
      bind_step H; [gc H|].
      bind_step H; [eapply value_and_err; [|exact H]; assumption|discriminate].
    - destruct Hok as (Hk & Hi & Hv & Hlc & Hmc & Hc).
      do 6 (bind_step H; [exfalso; eapply pre_build_err; [|exact H]; assumption|]).
      bind_step H; [gc H|].
      bind_step H; [gc H|].
      bind_step H; [gc H|discriminate].
  Qed.

  Lemma mk_parts_err : forall ts x, Forall pterm_ok ts -> mk_parts T lit ts = Err x -> x = TypeError.
  Proof.
    induction ts as [|t r IH]; intros x Hok H; cbn [mk_parts] in H; [discriminate|].
    inversion Hok; subst.
    bind_step H; [eapply mk_part_err; eauto|]. destruct a as [p explicit].
    bind_step H; [eauto|]. destruct a as [ps conc]. discriminate.
  Qed.

  Definition mod_okb (m : string) : bool :=
    match dt_of_name m, mt_of_name m with None, None => false | _, _ => true end.

  Lemma apply_mod_err (p : dpath A) m x : mod_okb m = true -> apply_mod p m = Err x -> x = ValueError.
  Proof.
    unfold mod_okb, apply_mod. destruct (dt_of_name m).
    - intros _. destruct (p_dt p); congruence.
    - destruct (mt_of_name m); [|discriminate]. intros _.
      destruct (p_mt p); try congruence. destruct (p_concrete p); congruence.
  Qed.

  Lemma apply_mods_err : forall ms (p : dpath A) x,
    forallb mod_okb ms = true -> apply_mods p ms = Err x -> x = ValueError.
  Proof.
    induction ms as [|m r IH]; intros p x Hok H; cbn [apply_mods] in H; [discriminate|].
    cbn in Hok. apply andb_true_iff in Hok as [Hm Hr].
    bind_step H; [eapply apply_mod_err; eauto | eauto].
  Qed.

  Lemma mk_path_err t x :
    Forall pterm_ok (pt_parts t) -> forallb mod_okb (pt_mods t) = true ->
    mk_path T lit t = Err x -> x = TypeError \/ x = ValueError.
  Proof.
    intros Hp Hm H. unfold mk_path in H.
    bind_step H; [left; eapply mk_parts_err; eauto|]. destruct a as [ps conc].
    right. eapply apply_mods_err; eauto.
  Qed.
End PathFacts.

(* ------------------------------------------------------------------ *)
(* nesting depth of a value (keys included)                            *)

Definition lmax (l : list nat) : nat := fold_right Nat.max 0 l.

Fixpoint vdepth (v : pyval) : nat :=
  match v with
  | VList l | VTuple l => S (lmax (map vdepth l))
  | VDict d => S (lmax (map (fun kv => match kv with (k, x) => Nat.max (vdepth k) (vdepth x) end) d))
  | _ => 0
  end.

Definition ldepth (l : list pyval) : nat := lmax (map vdepth l).
Definition ddepth (d : list (pyval * pyval)) : nat :=
  lmax (map (fun kv => match kv with (k, x) => Nat.max (vdepth k) (vdepth x) end) d).

Lemma vdepth_list l : vdepth (VList l) = S (ldepth l). Proof. reflexivity. Qed.
Lemma vdepth_tuple l : vdepth (VTuple l) = S (ldepth l). Proof. reflexivity. Qed.
Lemma vdepth_dict d : vdepth (VDict d) = S (ddepth d). Proof. reflexivity. Qed.

Lemma ldepth_cons x l : ldepth (x :: l) = Nat.max (vdepth x) (ldepth l). Proof. reflexivity. Qed.
Lemma ddepth_cons k x d : ddepth ((k, x) :: d) = Nat.max (Nat.max (vdepth k) (vdepth x)) (ddepth d).
Proof. reflexivity. Qed.

Lemma ldepth_in x l : In x l -> vdepth x <= ldepth l.
Proof. induction l as [|y l IH]; intros []; rewrite ldepth_cons; [subst; lia | specialize (IH H); lia]. Qed.
Lemma ddepth_in k x d : In (k, x) d -> vdepth k <= ddepth d /\ vdepth x <= ddepth d.
Proof.
  induction d as [|[k' x'] d IH]; intros []; rewrite ddepth_cons.
  - injection H as -> ->. lia.
  - specialize (IH H). lia.
Qed.
Lemma ddepth_app d1 d2 : ddepth (d1 ++ d2) = Nat.max (ddepth d1) (ddepth d2).
Proof. induction d1 as [|[k x] d1 IH]; [reflexivity|]. cbn [app]. rewrite !ddepth_cons, IH. lia. Qed.

Lemma mapM_err {A B} (P : exc -> Prop) (f : A -> res B) : forall l e,
  (forall x e, In x l -> f x = Err e -> P e) -> mapM f l = Err e -> P e.
Proof.
  induction l as [|x l IH]; intros e Hf H; cbn [mapM] in H; [discriminate|].
  bind_step H; [eapply Hf; [left; reflexivity|exact H]|].
  bind_step H; [|discriminate]. eapply IH; [|exact H]. intros y e' Hy. apply Hf. right. exact Hy.
Qed.

(* ------------------------------------------------------------------ *)
(* c. the condition parser                                              *)

Section SpecFacts.
  Variable T : tables.
  Variable X : spec_tables.
  Hypothesis HT : tables_ok T = true.

  Lemma to_type_err v e : to_type X v = Err e -> e = MalformedCond \/ e = TypeError.
  Proof.
    unfold to_type. intros H.
    destruct v; repeat match type of H with context [match ?x with _ => _ end] => destruct x end;
      try discriminate; injection H as <-; auto.
  Qed.

  Lemma to_type_depth v v' : to_type X v = Ok v' -> vdepth v' = 0.
  Proof.
    unfold to_type. intros H.
    destruct v; repeat match type of H with context [match ?x with _ => _ end] => destruct x end;
      try discriminate; injection H as <-; reflexivity.
  Qed.

  Lemma mapM_to_type_depth : forall l l', mapM (to_type X) l = Ok l' -> ldepth l' = 0.
  Proof.
    induction l as [|x l IH]; intros l' H; cbn [mapM] in H.
    - injection H as <-. reflexivity.
    - bind_step H. bind_step H. injection H as <-.
      rewrite ldepth_cons, (to_type_depth _ _ Ha), (IH _ Ha0). reflexivity.
  Qed.

  Lemma convert_types_err v e : convert_types X v = Err e -> e = MalformedCond \/ e = TypeError.
  Proof.
    unfold convert_types. intros H. destruct v; try (eapply to_type_err; exact H).
    bind_step H; [|discriminate].
    eapply (mapM_err (fun e => e = MalformedCond \/ e = TypeError)); [|exact H].
    intros y e' _. apply to_type_err.
  Qed.

  Lemma convert_types_depth v v' : convert_types X v = Ok v' -> vdepth v' <= vdepth v.
  Proof.
    unfold convert_types. intros H.
    destruct v; try (rewrite (to_type_depth _ _ H); lia).
    bind_step H. injection H as <-. rewrite !vdepth_list, (mapM_to_type_depth _ _ Ha). lia.
  Qed.

  Lemma class_pre_err k pre e : class_pre T k pre = Err e -> e = MalformedCond.
  Proof.
    unfold class_pre. intros H.
    repeat match type of H with context [match ?x with _ => _ end] => destruct x end; congruence.
  Qed.

  Lemma class_pre_ok k pre k' : class_pre T k pre = Ok k' -> exists name, find_class (t_classes T) name = Some k'.
  Proof.
    unfold class_pre. intros H.
    destruct (if String.eqb pre "length" then k_length k else if String.eqb pre "dtype" then k_dtype k else None) as [name|];
      [|discriminate].
    destruct (find_class (t_classes T) name) eqn:E; [|discriminate]. injection H as <-. eauto.
  Qed.

  Section CondFacts.
    Variable A : Type.
    Variable lit : pyval -> A.
    Variable mkpath : pathterm pyval -> A.
    Variable inert : pathterm pyval -> pyval.
    Variable path_from_spec : pyval -> res (pathterm pyval + pyval).
    Variable P : exc -> Prop.
    Hypothesis P_type : P TypeError.
    Hypothesis P_cond : P MalformedCond.

    Lemma try_path_err v e : try_path path_from_spec v = Err e -> path_from_spec v = Err e.
    Proof.
      unfold try_path. destruct (path_from_spec v) as [[p|d]|e']; try discriminate.
      destruct e'; congruence.
    Qed.

    Lemma coerce_items_err : forall l e,
      (forall u e, In u l -> path_from_spec u = Err e -> P e) ->
      coerce_items path_from_spec l = Err e -> P e.
    Proof.
      induction l as [|v r IH]; intros e Hp H; cbn [coerce_items] in H; [discriminate|].
      bind_step H; [apply try_path_err in H; eapply Hp; [left; reflexivity|exact H]|].
      bind_step H; [|discriminate]. eapply IH; [|exact H]. intros u e' Hu. apply Hp. right. exact Hu.
    Qed.

    Lemma coerce_tuple_err : forall l e,
      (forall u e, In u l -> path_from_spec u = Err e -> P e) ->
      coerce_tuple path_from_spec l = Err e -> P e.
    Proof.
      induction l as [|v r IH]; intros e Hp H; cbn [coerce_tuple] in H; [discriminate|].
      destruct (path_from_spec v) as [x|e'] eqn:E.
      - injection H as <-. exact P_type.
      - assert (He : P e') by (eapply Hp; [left; reflexivity|exact E]).
        destruct e'; try (injection H as <-; exact He).
        eapply IH; [|exact H]. intros u e'' Hu. apply Hp. right. exact Hu.
    Qed.

    Lemma coerce_kvs_err : forall d e,
      (forall k u e, In (k, u) d -> path_from_spec u = Err e -> P e) ->
      coerce_kvs path_from_spec d = Err e -> P e.
    Proof.
      induction d as [|[k v] r IH]; intros e Hp H; cbn [coerce_kvs] in H; [discriminate|].
      bind_step H; [apply try_path_err in H; eapply Hp; [left; reflexivity|exact H]|].
      bind_step H; [|discriminate]. eapply IH; [|exact H]. intros k' u e' Hu. apply (Hp k'). right. exact Hu.
    Qed.

    Lemma coerce_err v e :
      (forall u e, vdepth u <= vdepth v -> path_from_spec u = Err e -> P e) ->
      coerce path_from_spec v = Err e -> P e.
    Proof.
      intros Hp H. destruct v; cbn [coerce] in H; try discriminate.
      - bind_step H; [|discriminate]. eapply coerce_items_err; [|exact H].
        intros u e' Hu. apply Hp. rewrite vdepth_list. apply ldepth_in in Hu. lia.
      - bind_step H; [|discriminate]. eapply coerce_tuple_err; [|exact H].
        intros u e' Hu. apply Hp. rewrite vdepth_tuple. apply ldepth_in in Hu. lia.
      - destruct (path_from_spec (VDict d)) as [[p|d']|e'] eqn:E.
        + discriminate.
        + destruct d'; discriminate.
        + assert (He : P e') by (eapply Hp; [|exact E]; lia).
          destruct e'; try (injection H as <-; exact He).
          bind_step H; [|discriminate]. eapply coerce_kvs_err; [|exact H].
          intros k u e' Hu. apply Hp. rewrite vdepth_dict. apply ddepth_in in Hu. lia.
    Qed.

    Lemma kw_of_err : forall items e, kw_of A lit mkpath items = Err e -> e = TypeError.
    Proof.
      induction items as [|[k x] r IH]; intros e H; cbn [kw_of] in H; [discriminate|].
      destruct k; try congruence. bind_step H; [eauto|discriminate].
    Qed.

    Lemma dispatch_err c v b e : dispatch A lit mkpath inert c v b = Err e -> e = MalformedCond \/ e = TypeError.
    Proof.
      unfold dispatch. intros H.
      repeat match type of H with
             | (if ?c then _ else _) = _ => destruct c
             end; try discriminate.
      all: destruct v; try (injection H as <-; auto; fail); try discriminate.
      all: try (bind_step H; [right; eapply kw_of_err; exact H|discriminate]).
      all: destruct is_tuple; try discriminate; injection H as <-; auto.
    Qed.

    Lemma pre_sel_err (b : bool) k0 pre spec_val e :
      (if b then
         let* v' := (if String.eqb pre "dtype" then convert_types X spec_val else Ok spec_val) in
         let* k' := class_pre T k0 pre in Ok (k', v')
       else Ok (k0, spec_val)) = Err e -> e = MalformedCond \/ e = TypeError.
    Proof.
      destruct b; [|discriminate]. intros H.
      bind_step H; [destruct (String.eqb pre "dtype"); [eapply convert_types_err; exact H|discriminate]|].
      bind_step H; [left; eapply class_pre_err; exact H|discriminate].
    Qed.

    Lemma pre_sel_ok (b : bool) name0 k0 pre spec_val k v1 :
      find_class (t_classes T) name0 = Some k0 ->
      (if b then
         let* v' := (if String.eqb pre "dtype" then convert_types X spec_val else Ok spec_val) in
         let* k' := class_pre T k0 pre in Ok (k', v')
       else Ok (k0, spec_val)) = Ok (k, v1) ->
      (exists name, find_class (t_classes T) name = Some k) /\ vdepth v1 <= vdepth spec_val.
    Proof.
      intros Hk0 H. destruct b.
      - bind_step H. bind_step H. injection H as <- <-. split; [eapply class_pre_ok; exact Ha0|].
        destruct (String.eqb pre "dtype"); [eapply convert_types_depth; exact Ha|injection Ha as <-; lia].
      - injection H as <- <-. split; [eauto|lia].
    Qed.

    Lemma parse_leaf_err key spec_val e :
      (forall u e, vdepth u <= vdepth spec_val -> path_from_spec u = Err e -> P e) ->
      parse_leaf T X A lit mkpath inert path_from_spec key spec_val = Err e -> P e.
    Proof.
      intros Hp H. unfold parse_leaf in H. cbv zeta in H.
      destruct (assoc_str _ (sx_datum_types X)) as [cls_name|]; [|injection H as <-; exact P_cond].
      match type of H with (if ?c then _ else _) = _ => destruct c end; [injection H as <-; exact P_cond|].
      destruct (find_class (t_classes T) cls_name) as [k0|] eqn:Ek0; [|injection H as <-; exact P_cond].
      bind_step H; [apply pre_sel_err in H as [->| ->]; assumption|].
      destruct a as [k v1]. eapply pre_sel_ok in Ha as [[name Hk] Hd1]; [|exact Ek0].
      bind_step H.
      { match type of H with (if ?c then _ else _) = _ => destruct c end; [|discriminate].
        apply convert_types_err in H as [->| ->]; assumption. }
      assert (Hd2 : vdepth a <= vdepth v1).
      { match type of Ha with (if ?c then _ else _) = _ => destruct c end;
          [eapply convert_types_depth; exact Ha | injection Ha as <-; lia]. }
      clear Ha.
      match type of H with match find_ctor T k ?call with _ => _ end = _ => destruct (find_ctor T k call) as [c|] eqn:Ec end;
        [|injection H as <-; exact P_cond].
      bind_step H; [eapply coerce_err; [|exact H]; intros u e' Hu; apply Hp; lia|].
      bind_step H; [apply dispatch_err in H as [->| ->]; assumption|].
      destruct a1 as [pos kw].
      bind_step H; [|discriminate].
      eapply build_leaf_err_found in H; [subst; exact P_type | exact HT | exact Hk | exact Ec].
    Qed.

    Definition wfres (p : dslc A * cond A) : Prop := build T lit (fst p) = Ok (snd p).

    Lemma parse_leaf_wf key spec_val p :
      parse_leaf T X A lit mkpath inert path_from_spec key spec_val = Ok p -> wfres p.
    Proof.
      intros H. unfold parse_leaf in H. cbv zeta in H.
      destruct (assoc_str _ (sx_datum_types X)) as [cls_name|]; [|discriminate].
      match type of H with (if ?c then _ else _) = _ => destruct c end; [discriminate|].
      destruct (find_class (t_classes T) cls_name) as [k0|] eqn:Ek0; [|discriminate].
      bind_step H. destruct a as [k v1]. bind_step H.
      match type of H with match find_ctor T k ?call with _ => _ end = _ => destruct (find_ctor T k call) as [c|] eqn:Ec end;
        [|discriminate].
      bind_step H. bind_step H. destruct a1 as [pos kw]. bind_step H. injection H as <-.
      unfold wfres. cbn [fst snd build]. rewrite Ha3. reflexivity.
    Qed.

    Section StepFacts.
      Variable self : pyval -> res (dslc A * cond A).

      Lemma fold_err o : forall items acc e,
        (forall i e, In i items -> self i = Err e -> P e) ->
        (fix fold (items : list pyval) (acc : dslc A * cond A) : res (dslc A * cond A) :=
           match items with
           | [] => Ok acc
           | i :: r =>
               let* (ti, ci) := self i in
               let* c := mk_bin o (snd acc) ci in
               fold r (DBin o (fst acc) ti, c)
           end) items acc = Err e -> P e.
      Proof.
        induction items as [|i r IH]; intros acc e Hs H; [discriminate|].
        bind_step H; [eapply Hs; [left; reflexivity|exact H]|]. destruct a as [ti ci].
        bind_step H; [apply mk_bin_err in H; subst; exact P_type|].
        eapply IH; [|exact H]. intros j e' Hj. apply Hs. right. exact Hj.
      Qed.

      Lemma fold_wf o : (forall s p, self s = Ok p -> wfres p) -> forall items acc p,
        wfres acc ->
        (fix fold (items : list pyval) (acc : dslc A * cond A) : res (dslc A * cond A) :=
           match items with
           | [] => Ok acc
           | i :: r =>
               let* (ti, ci) := self i in
               let* c := mk_bin o (snd acc) ci in
               fold r (DBin o (fst acc) ti, c)
           end) items acc = Ok p -> wfres p.
      Proof.
        intros Hs. induction items as [|i r IH]; intros acc p Hacc H; [injection H as <-; exact Hacc|].
        bind_step H. destruct a as [ti ci]. bind_step H.
        eapply IH; [|exact H]. apply Hs in Ha. unfold wfres in *. cbn [fst snd] in *.
        cbn [build]. rewrite Hacc, Ha. cbn [bind]. exact Ha0.
      Qed.

      Lemma step_err spec e :
        (forall u e, vdepth u < vdepth spec -> path_from_spec u = Err e -> P e) ->
        (forall s e, vdepth s < vdepth spec -> self s = Err e -> P e) ->
        cond_from_spec_step T X A lit mkpath inert path_from_spec self spec = Err e -> P e.
      Proof.
        intros Hp Hs H. unfold cond_from_spec_step in H.
        destruct (negb (py_truthy spec)); [discriminate|].
        destruct spec; try (injection H as <-; exact P_type).
        destruct d as [|[k v] r]; [injection H as <-; exact P_cond|].
        destruct k; destruct r; try (injection H as <-; exact P_cond).
        change (vdepth (VDict [(VStr s, v)])) with (S (Nat.max (Nat.max 0 (vdepth v)) 0)) in Hp, Hs.
        destruct (assoc_str s (sx_binops X)) as [o|].
        - destruct v; try (injection H as <-; exact P_cond).
          + eapply fold_err; [|exact H]. intros i e' Hi. apply Hs.
            apply ldepth_in in Hi. rewrite vdepth_list. lia.
          + eapply fold_err; [|exact H]. intros i e' Hi. apply Hs.
            apply ldepth_in in Hi. rewrite vdepth_tuple. lia.
        - eapply parse_leaf_err; [|exact H]. intros u e' Hu. apply Hp. lia.
      Qed.

      Lemma step_wf spec p :
        (forall s p, self s = Ok p -> wfres p) ->
        cond_from_spec_step T X A lit mkpath inert path_from_spec self spec = Ok p -> wfres p.
      Proof.
        intros Hs H. unfold cond_from_spec_step in H.
        destruct (negb (py_truthy spec)); [injection H as <-; reflexivity|].
        destruct spec; try discriminate.
        destruct d as [|[k v] r]; [discriminate|].
        destruct k; destruct r; try discriminate.
        destruct (assoc_str s (sx_binops X)) as [o|].
        - destruct v; try discriminate.
          + eapply fold_wf; [exact Hs| |exact H]. reflexivity.
          + eapply fold_wf; [exact Hs| |exact H]. reflexivity.
        - eapply parse_leaf_wf; exact H.
      Qed.
    End StepFacts.

    Lemma cond_from_spec_wf : forall fuel spec p,
      cond_from_spec T X A lit mkpath inert path_from_spec fuel spec = Ok p -> wfres p.
    Proof.
      induction fuel as [|f IH]; intros spec p H; cbn [cond_from_spec] in H; [discriminate|].
      eapply step_wf; [|exact H]. exact IH.
    Qed.

    (* all specs: the fuel may run out *)
    Lemma cond_from_spec_err_all :
      P RecursionError -> (forall u e, path_from_spec u = Err e -> P e) ->
      forall fuel spec e, cond_from_spec T X A lit mkpath inert path_from_spec fuel spec = Err e -> P e.
    Proof.
      intros P_rec Hp. induction fuel as [|f IH]; intros spec e H; cbn [cond_from_spec] in H.
      - injection H as <-. exact P_rec.
      - eapply step_err; [| |exact H]; intros; eauto.
    Qed.

    (* specs shallower than the fuel *)
    Lemma cond_from_spec_err_depth n :
      (forall u e, vdepth u < n -> path_from_spec u = Err e -> P e) ->
      forall fuel spec e, vdepth spec < fuel -> vdepth spec <= n ->
      cond_from_spec T X A lit mkpath inert path_from_spec fuel spec = Err e -> P e.
    Proof.
      intros Hp. induction fuel as [|f IH]; intros spec e Hf Hn H; cbn [cond_from_spec] in H; [lia|].
      eapply step_err; [| |exact H].
      - intros u e' Hu. apply Hp. lia.
      - intros s e' Hs. apply IH; lia.
    Qed.
  End CondFacts.

  (* ---------------------------------------------------------------- *)
  (* parts and paths                                                    *)

  Hypothesis HKey : has_ctor T "Key" "equal_to" = true.
  Hypothesis HIndex : has_ctor T "Index" "equal_to" = true.
  Hypothesis HValue : has_ctor T "Value" "equal_to" = true.
  Hypothesis HSuf : forallb mod_okb (sx_allowed_suffixes X) = true.

  Notation wf0 := (wfres pyval id0).

  Lemma dict_pop_depth k : forall d x d',
    dict_pop k d = (x, d') -> ddepth d' <= ddepth d /\ (forall v, x = Some v -> vdepth v <= ddepth d).
  Proof.
    induction d as [|[k2 v] r IH]; intros x d' H; cbn [dict_pop] in H.
    - injection H as <- <-. split; [lia|discriminate].
    - rewrite ddepth_cons. destruct (py_eq (VStr k) k2).
      + injection H as <- <-. split; [lia|]. intros v' Hv. injection Hv as <-. lia.
      + destruct (dict_pop k r) as [x0 r'] eqn:E. injection H as <- <-.
        destruct (IH _ _ eq_refl) as [H1 H2]. rewrite ddepth_cons. split; [lia|].
        intros v' Hv. specialize (H2 _ Hv). lia.
  Qed.

  Lemma split_short_ok pre : forall d s o,
    split_short pre d = Ok (s, o) -> ddepth s <= ddepth d /\ ddepth o <= ddepth d.
  Proof.
    induction d as [|[k v] r IH]; intros s o H; cbn [split_short] in H.
    - injection H as <- <-. split; lia.
    - rewrite ddepth_cons.
      destruct k as [| | | |sk| | | | |]; bind_step H; destruct a as [ss oo]; destruct (IH _ _ Ha) as [H1 H2];
        try (injection H as <- <-; rewrite ddepth_cons; split; lia).
      destruct (String.prefix pre sk); injection H as <- <-; rewrite ddepth_cons; split; lia.
  Qed.

  Lemma split_short_err pre : forall d e, split_short pre d = Err e -> False.
  Proof.
    induction d as [|[k v] r IH]; intros e H; cbn [split_short] in H; [discriminate|].
    destruct k as [| | | |sk| | | | |]; (bind_step H; [eauto|]); destruct a as [ss oo]; try discriminate.
    destruct (String.prefix pre sk); discriminate.
  Qed.

  Section PartFacts.
    Variable cond0 : pyval -> res (dslc pyval * cond pyval).
    Variable P : exc -> Prop.
    Hypothesis P_type : P TypeError.
    Hypothesis P_value : P ValueError.
    Hypothesis P_path : P MalformedPath.
    Hypothesis Hwf : forall s p, cond0 s = Ok p -> wf0 p.

    Lemma wf0_null : wf0 (DNull, CNull).
    Proof. reflexivity. Qed.

    Lemma and_on_err acc sub e : and_on acc sub = Err e -> e = TypeError.
    Proof. unfold and_on. intros H. bind_step H; [eapply mk_bin_err; exact H|discriminate]. Qed.

    Lemma and_on_wf acc sub r : wf0 acc -> wf0 sub -> and_on acc sub = Ok r -> wf0 r.
    Proof.
      unfold and_on, wfres. intros Ha Hs H. bind_step H. injection H as <-. cbn [fst snd build].
      rewrite Ha, Hs. exact Ha0.
    Qed.

    Lemma pop_cond_ok k d c d' : pop_cond cond0 k d = Ok (c, d') -> wf0 c /\ ddepth d' <= ddepth d.
    Proof.
      unfold pop_cond. destruct (dict_pop k d) as [x d1] eqn:E. apply dict_pop_depth in E as [E1 _].
      intros H. destruct x as [v|]; [destruct v|]; try (injection H as <- <-; split; [reflexivity|exact E1]).
      all: bind_step H; injection H as <- <-; split; [eapply Hwf; exact Ha|exact E1].
    Qed.

    Lemma pop_kind_ok k kind acc d c d' :
      wf0 acc -> pop_kind cond0 k kind acc d = Ok (c, d') -> wf0 c /\ ddepth d' <= ddepth d.
    Proof.
      unfold pop_kind. intros Hacc. destruct (dict_pop k d) as [x d1] eqn:E. apply dict_pop_depth in E as [E1 _].
      intros H. destruct x as [v|]; [destruct v|]; try (injection H as <- <-; split; [exact Hacc|exact E1]).
      all: bind_step H; destruct (is_like_strict kind (snd a)); [|discriminate];
        bind_step H; injection H as <- <-; split; [|exact E1];
        eapply and_on_wf; [exact Hacc| |exact Ha0]; eapply Hwf; exact Ha.
    Qed.

    Lemma fold_short_wf : forall shorts acc r, wf0 acc -> fold_short cond0 shorts acc = Ok r -> wf0 r.
    Proof.
      induction shorts as [|[k v] s IH]; intros acc r Hacc H; cbn [fold_short] in H.
      - injection H as <-. exact Hacc.
      - bind_step H. bind_step H. eapply IH; [|exact H].
        eapply and_on_wf; [exact Hacc| |exact Ha0]. eapply Hwf; exact Ha.
    Qed.

    Lemma shorthands_ok pre acc d c d' :
      wf0 acc -> shorthands cond0 pre acc d = Ok (c, d') -> wf0 c /\ ddepth d' <= ddepth d.
    Proof.
      unfold shorthands. intros Hacc H. bind_step H. destruct a as [s o].
      apply split_short_ok in Ha as [_ Ho]. bind_step H. injection H as <- <-.
      split; [eapply fold_short_wf; eauto|exact Ho].
    Qed.

    Section Bounded.
      Variable m : nat.
      Hypothesis Hc : forall s e, vdepth s <= m -> cond0 s = Err e -> P e.

      Lemma pop_cond_err k d e : ddepth d < m -> pop_cond cond0 k d = Err e -> P e.
      Proof.
        unfold pop_cond. intros Hd. destruct (dict_pop k d) as [x d1] eqn:E. apply dict_pop_depth in E as [_ E2].
        intros H. destruct x as [v|]; [|discriminate]. specialize (E2 _ eq_refl).
        destruct v; try discriminate.
        all: bind_step H; [|discriminate]; eapply Hc; [|exact H]; lia.
      Qed.

      Lemma pop_kind_err k kind acc d e : ddepth d < m -> pop_kind cond0 k kind acc d = Err e -> P e.
      Proof.
        unfold pop_kind. intros Hd. destruct (dict_pop k d) as [x d1] eqn:E. apply dict_pop_depth in E as [_ E2].
        intros H. destruct x as [v|]; [|discriminate]. specialize (E2 _ eq_refl).
        destruct v; try discriminate.
        all: (bind_step H; [eapply Hc; [|exact H]; lia|]);
          destruct (is_like_strict kind (snd a)); [|injection H as <-; exact P_value];
          (bind_step H; [|discriminate]); apply and_on_err in H; subst; exact P_type.
      Qed.

      Lemma fold_short_err : forall shorts acc e,
        ddepth shorts < m -> fold_short cond0 shorts acc = Err e -> P e.
      Proof.
        induction shorts as [|[k v] s IH]; intros acc e Hd H; cbn [fold_short] in H; [discriminate|].
        rewrite ddepth_cons in Hd.
        bind_step H.
        { eapply Hc; [|exact H]. change (vdepth (VDict [(k, v)])) with (S (Nat.max (Nat.max (vdepth k) (vdepth v)) 0)). lia. }
        bind_step H; [apply and_on_err in H; subst; exact P_type|].
        eapply IH; [|exact H]. lia.
      Qed.

      Lemma shorthands_err pre acc d e : ddepth d < m -> shorthands cond0 pre acc d = Err e -> P e.
      Proof.
        unfold shorthands. intros Hd H. bind_step H; [exfalso; eapply split_short_err; exact H|].
        destruct a as [s o]. apply split_short_ok in Ha as [Hs _].
        bind_step H; [|discriminate]. eapply fold_short_err; [|exact H]. lia.
      Qed.

      Lemma to_carg_ok c : wf0 c -> carg_ok T pyval id0 (to_carg c).
      Proof. intros H. cbn. eexists. exact H. Qed.

      Lemma part_from_spec_err d0 e : ddepth d0 < m -> part_from_spec T X cond0 d0 = Err e -> P e.
      Proof.
        intros Hd H. unfold part_from_spec in H.
        destruct (dict_pop "type" d0) as [ty d1] eqn:E1. apply dict_pop_depth in E1 as [E1 _].
        bs H cls Hcls.
        { destruct ty as [v|]; [destruct v|];
            repeat match type of H with context [match ?x with _ => _ end] => destruct x end;
            try discriminate; injection H as <-; exact P_type. }
        clear Hcls.
        bs H r Hr; [eapply pop_cond_err; [|exact H]; lia|]. destruct r as [cnd d2]. apply pop_cond_ok in Hr as [W1 D2].
        bs H r Hr; [eapply pop_cond_err; [|exact H]; lia|]. destruct r as [lcnd d3]. apply pop_cond_ok in Hr as [W2 D3].
        bs H r Hr; [eapply pop_cond_err; [|exact H]; lia|]. destruct r as [mcnd d4]. apply pop_cond_ok in Hr as [W3 D4].
        bs H r Hr; [eapply pop_kind_err; [|exact H]; lia|]. destruct r as [cnd1 d5].
        apply pop_kind_ok in Hr as [W4 D5]; [|exact W1].
        bs H r Hr; [eapply shorthands_err; [|exact H]; lia|]. destruct r as [cnd2 d6].
        apply shorthands_ok in Hr as [W5 D6]; [|exact W4].
        destruct (String.eqb cls "MapValue"); [|destruct (String.eqb cls "ListValue")].
        - bs H r Hr; [eapply shorthands_err; [|exact H]; lia|]. destruct r as [c3 d7].
          apply shorthands_ok in Hr as [W6 D7]; [|exact W5].
          bs H r Hr; [eapply pop_kind_err; [|exact H]; lia|]. destruct r as [c4 d8].
          apply pop_kind_ok in Hr as [W7 D8]; [|exact W6].
          destruct (dict_pop "label" d8) as [label d9]. destruct d9; [|injection H as <-; exact P_value].
          bs H r Hr; [|discriminate].
          eapply mk_part_err in H; eauto; [subst; exact P_type|].
          cbn [pterm_ok]. repeat split; try exact I. apply to_carg_ok. exact W7.
        - bs H r Hr; [eapply shorthands_err; [|exact H]; lia|]. destruct r as [c3 d7].
          apply shorthands_ok in Hr as [W6 D7]; [|exact W5].
          bs H r Hr; [eapply pop_kind_err; [|exact H]; lia|]. destruct r as [c4 d8].
          apply pop_kind_ok in Hr as [W7 D8]; [|exact W6].
          destruct (dict_pop "label" d8) as [label d9]. destruct d9; [|injection H as <-; exact P_value].
          bs H r Hr; [|discriminate].
          eapply mk_part_err in H; eauto; [subst; exact P_type|].
          cbn [pterm_ok]. repeat split; try exact I. apply to_carg_ok. exact W7.
        - bs H r Hr; [eapply shorthands_err; [|exact H]; lia|]. destruct r as [l1 d7].
          apply shorthands_ok in Hr as [W6 D7]; [|exact W2].
          bs H r Hr; [eapply shorthands_err; [|exact H]; lia|]. destruct r as [m1 d8].
          apply shorthands_ok in Hr as [W7 D8]; [|exact W3].
          bs H r Hr; [eapply pop_kind_err; [|exact H]; lia|]. destruct r as [l2 d9].
          apply pop_kind_ok in Hr as [W8 D9]; [|exact W6].
          bs H r Hr; [eapply pop_kind_err; [|exact H]; lia|]. destruct r as [m2 d10].
          apply pop_kind_ok in Hr as [W9 D10]; [|exact W7].
          destruct (dict_pop "label" d10) as [label d11]. destruct d11; [|injection H as <-; exact P_value].
          cbv zeta in H. bs H r Hr; [|discriminate].
          eapply mk_part_err in H; eauto; [subst; exact P_type|].
          cbn [pterm_ok]. repeat split; try exact I; apply to_carg_ok; assumption.
      Qed.

      Lemma part_from_spec_ok d0 t : part_from_spec T X cond0 d0 = Ok t -> pterm_ok T pyval id0 t.
      Proof.
        intros H. unfold part_from_spec in H.
        destruct (dict_pop "type" d0) as [ty d1].
        bs H cls Hcls. clear Hcls.
        bs H r Hr. destruct r as [cnd d2]. apply pop_cond_ok in Hr as [W1 _].
        bs H r Hr. destruct r as [lcnd d3]. apply pop_cond_ok in Hr as [W2 _].
        bs H r Hr. destruct r as [mcnd d4]. apply pop_cond_ok in Hr as [W3 _].
        bs H r Hr. destruct r as [cnd1 d5]. apply pop_kind_ok in Hr as [W4 _]; [|exact W1].
        bs H r Hr. destruct r as [cnd2 d6]. apply shorthands_ok in Hr as [W5 _]; [|exact W4].
        destruct (String.eqb cls "MapValue"); [|destruct (String.eqb cls "ListValue")].
        - bs H r Hr. destruct r as [c3 d7]. apply shorthands_ok in Hr as [W6 _]; [|exact W5].
          bs H r Hr. destruct r as [c4 d8]. apply pop_kind_ok in Hr as [W7 _]; [|exact W6].
          destruct (dict_pop "label" d8) as [label d9]. destruct d9; [|discriminate].
          bs H r Hr. injection H as <-.
          cbn [pterm_ok]. repeat split; try exact I. apply to_carg_ok. exact W7.
        - bs H r Hr. destruct r as [c3 d7]. apply shorthands_ok in Hr as [W6 _]; [|exact W5].
          bs H r Hr. destruct r as [c4 d8]. apply pop_kind_ok in Hr as [W7 _]; [|exact W6].
          destruct (dict_pop "label" d8) as [label d9]. destruct d9; [|discriminate].
          bs H r Hr. injection H as <-.
          cbn [pterm_ok]. repeat split; try exact I. apply to_carg_ok. exact W7.
        - bs H r Hr. destruct r as [l1 d7]. apply shorthands_ok in Hr as [W6 _]; [|exact W2].
          bs H r Hr. destruct r as [m1 d8]. apply shorthands_ok in Hr as [W7 _]; [|exact W3].
          bs H r Hr. destruct r as [l2 d9]. apply pop_kind_ok in Hr as [W8 _]; [|exact W6].
          bs H r Hr. destruct r as [m2 d10]. apply pop_kind_ok in Hr as [W9 _]; [|exact W7].
          destruct (dict_pop "label" d10) as [label d11]. destruct d11; [|discriminate].
          cbv zeta in H. bs H r Hr. injection H as <-.
          cbn [pterm_ok]. repeat split; try exact I; apply to_carg_ok; assumption.
      Qed.

      Lemma parts_from_specs_ok : forall l ps,
        parts_from_specs T X cond0 l = Ok ps -> Forall (pterm_ok T pyval id0) ps.
      Proof.
        induction l as [|v r IH]; intros ps H; cbn [parts_from_specs] in H.
        - injection H as <-. constructor.
        - destruct v; try (bs H ps' Hps; injection H as <-; constructor; [exact I|eauto]).
          bs H p0 Hp0. bs H ps' Hps. injection H as <-. constructor; [eapply part_from_spec_ok; eauto|eauto].
      Qed.

      Lemma parts_from_specs_err : forall l e,
        ldepth l <= m -> parts_from_specs T X cond0 l = Err e -> P e.
      Proof.
        induction l as [|v r IH]; intros e Hd H; cbn [parts_from_specs] in H; [discriminate|].
        rewrite ldepth_cons in Hd.
        destruct v; try (bs H ps' Hps; [eapply IH; [|exact H]; lia|discriminate]).
        rewrite vdepth_dict in Hd.
        bs H p0 Hp0; [eapply part_from_spec_err; [|exact H]; lia|].
        bs H ps' Hps; [eapply IH; [|exact H]; lia|discriminate].
      Qed.

      Lemma path_from_part_specs_err l e :
        ldepth l <= m -> path_from_part_specs T X cond0 l = Err e -> P e.
      Proof.
        intros Hd H. unfold path_from_part_specs in H.
        bs H ps Hps; [eapply parts_from_specs_err; eauto|].
        cbv zeta in H. bs H r Hr; [|discriminate].
        apply parts_from_specs_ok in Hps.
        eapply mk_path_err in H; eauto; [destruct H as [->| ->]; assumption].
      Qed.
    End Bounded.

    Lemma path_from_part_specs_ok l t :
      path_from_part_specs T X cond0 l = Ok t -> Forall (pterm_ok T pyval id0) (pt_parts t).
    Proof.
      intros H. unfold path_from_part_specs in H.
      bs H ps Hps. cbv zeta in H. bs H r Hr. injection H as <-. cbn [pt_parts].
      eapply parts_from_specs_ok; exact Hps.
    Qed.

    Lemma unescape_keys_err : forall d keep moved found e, unescape_keys d keep moved found = Err e -> False.
    Proof.
      induction d as [|[k v] r IH]; intros keep moved found e H; cbn [unescape_keys] in H; [discriminate|].
      destruct k as [| | | |sk| | | | |]; eauto.
      destruct (str_contains esc_code sk); eauto.
    Qed.

    Lemma py_iter_depth v l : py_iter v = Ok l -> ldepth l <= vdepth v.
    Proof.
      destruct v; cbn [py_iter]; intros H; try discriminate; injection H as <-.
      - unfold ldepth. induction (str_chars s) as [|c r IH]; cbn; [lia|exact IH].
      - rewrite vdepth_list. lia.
      - rewrite vdepth_tuple. lia.
      - rewrite vdepth_dict. induction d as [|[k x] d IH]; [cbn; lia|].
        cbn [map fst]. rewrite ldepth_cons, ddepth_cons. lia.
    Qed.

    Lemma mod_loop_err (t : pathterm pyval) :
      Forall (pterm_ok T pyval id0) (pt_parts t) ->
      forall ms done e, forallb mod_okb done = true ->
      (fix go (ms done : list string) : res (pathterm pyval + pyval) :=
         match ms with
         | [] => Ok (inl {| pt_parts := pt_parts t; pt_mods := done; pt_src := None |})
         | m :: r =>
             if negb (existsb (String.eqb m) (sx_allowed_suffixes X)) then Err MalformedPath
             else
               let t' := {| pt_parts := pt_parts t; pt_mods := done ++ [m]; pt_src := None |} in
               let* _ := mk_path T id0 t' in go r (done ++ [m])
         end) ms done = Err e -> P e.
    Proof.
      intros Hparts. induction ms as [|m0 r IH]; intros done e Hdone H; [discriminate|].
      destruct (existsb (String.eqb m0) (sx_allowed_suffixes X)) eqn:Em; cbn [negb] in H;
        [|injection H as <-; exact P_path].
      assert (Hd' : forallb mod_okb (done ++ [m0]) = true).
      { rewrite forallb_app, Hdone. cbn. rewrite andb_true_r.
        apply existsb_eqb_in in Em. rewrite forallb_forall in HSuf. apply HSuf. exact Em. }
      cbv zeta in H. bs H r0 Hr0.
      - eapply mk_path_err in H; eauto; [destruct H as [->| ->]; assumption].
      - eapply IH; [|exact H]. exact Hd'.
    Qed.

    Lemma path_from_spec0_err spec e :
      (forall s e, vdepth s < vdepth spec -> cond0 s = Err e -> P e) ->
      path_from_spec0 T X cond0 spec = Err e -> P e.
    Proof.
      intros Hc H. unfold path_from_spec0 in H.
      destruct spec; try (injection H as <-; exact P_path).
      destruct d as [|[k0 v0] rest]; [injection H as <-; exact P_path|].
      cbv zeta in H. bs H r Hr; [exfalso; eapply unescape_keys_err; exact H|].
      destruct r as [d' escaped]. destruct escaped; [discriminate|].
      destruct rest; [|injection H as <-; exact P_path].
      destruct k0; try (injection H as <-; exact P_path).
      match type of H with (if ?c then _ else _) = _ => destruct c end; [injection H as <-; exact P_path|].
      bs H parts Hparts; [apply py_iter_err in H; subst; exact P_type|].
      apply py_iter_depth in Hparts.
      change (vdepth (VDict [(VStr s, v0)])) with (S (Nat.max (Nat.max 0 (vdepth v0)) 0)) in Hc.
      bs H t Ht.
      - refine (path_from_part_specs_err (ldepth parts) _ parts e _ H); [|lia].
        intros s0 e0 Hs0. apply Hc. lia.
      - apply path_from_part_specs_ok in Ht. eapply mod_loop_err; [exact Ht| |exact H]. reflexivity.
    Qed.
  End PartFacts.

  (* ---------------------------------------------------------------- *)
  (* tying the knot                                                     *)

  Definition serr (e : exc) : Prop := spec_error e \/ e = RecursionError.

  Lemma se_type : spec_error TypeError. Proof. unfold spec_error; auto. Qed.
  Lemma se_value : spec_error ValueError. Proof. unfold spec_error; auto. Qed.
  Lemma se_cond : spec_error MalformedCond. Proof. unfold spec_error; auto. Qed.
  Lemma se_path : spec_error MalformedPath. Proof. unfold spec_error; auto. Qed.
  Lemma se_rule : spec_error MalformedRule. Proof. unfold spec_error; auto. Qed.

  Lemma cond0_from_spec_wf : forall f s p, cond0_from_spec T X f s = Ok p -> wf0 p.
  Proof.
    induction f as [|f IH]; intros s p H; cbn [cond0_from_spec] in H; [discriminate|].
    eapply step_wf; [|exact H]. exact IH.
  Qed.

  Lemma cond0_from_spec_err_all : forall f s e, cond0_from_spec T X f s = Err e -> serr e.
  Proof.
    induction f as [|f IH]; intros s e H; cbn [cond0_from_spec] in H.
    - injection H as <-. right. reflexivity.
    - eapply (step_err pyval id0 inert0 inert0 _ serr) in H; [exact H| left; exact se_type | left; exact se_cond | |].
      + intros u e' _ Hu.
        eapply (path_from_spec0_err _ serr) in Hu;
          [exact Hu | left; exact se_type | left; exact se_value | left; exact se_path | apply cond0_from_spec_wf |].
        intros s0 e0 _. apply IH.
      + intros s0 e0 _. apply IH.
  Qed.

  Lemma cond0_from_spec_err_depth : forall f s e,
    vdepth s < f -> cond0_from_spec T X f s = Err e -> spec_error e.
  Proof.
    induction f as [|f IH]; intros s e Hf H; cbn [cond0_from_spec] in H; [lia|].
    eapply (step_err pyval id0 inert0 inert0 _ spec_error) in H; [exact H| exact se_type | exact se_cond | |].
    - intros u e' Hd Hu.
      eapply (path_from_spec0_err _ spec_error) in Hu;
        [exact Hu | exact se_type | exact se_value | exact se_path | apply cond0_from_spec_wf |].
      intros s0 e0 Hs0. apply IH. lia.
    - intros s0 e0 Hs0. apply IH. lia.
  Qed.

  (* --- DataPath.from_spec --- *)
  Lemma path_from_spec_err_all spec e : path_from_spec T X spec = Err e -> serr e.
  Proof.
    unfold path_from_spec. intros H.
    eapply (path_from_spec0_err _ serr) in H;
      [exact H | left; exact se_type | left; exact se_value | left; exact se_path | apply cond0_from_spec_wf |].
    intros s0 e0 _. apply cond0_from_spec_err_all.
  Qed.

  Lemma path_from_spec_err_depth spec e :
    vdepth spec <= spec_fuel -> path_from_spec T X spec = Err e -> spec_error e.
  Proof.
    unfold path_from_spec. intros Hd H.
    eapply (path_from_spec0_err _ spec_error) in H;
      [exact H | exact se_type | exact se_value | exact se_path | apply cond0_from_spec_wf |].
    intros s0 e0 Hs0. apply cond0_from_spec_err_depth. lia.
  Qed.

  (* --- ContainerValue.from_spec --- *)
  Lemma part_spec_parse_err_all d e : part_spec_parse T X d = Err e -> serr e.
  Proof.
    unfold part_spec_parse. intros H.
    eapply (part_from_spec_err _ serr) with (m := S (ddepth d)) in H;
      [exact H | left; exact se_type | left; exact se_value | apply cond0_from_spec_wf | | lia].
    intros s0 e0 _. apply cond0_from_spec_err_all.
  Qed.

  Lemma part_spec_parse_err_depth d e :
    vdepth (VDict d) < spec_fuel -> part_spec_parse T X d = Err e -> spec_error e.
  Proof.
    unfold part_spec_parse. rewrite vdepth_dict. intros Hd H.
    eapply (part_from_spec_err _ spec_error) with (m := S (ddepth d)) in H;
      [exact H | exact se_type | exact se_value | apply cond0_from_spec_wf | | lia].
    intros s0 e0 Hs0. apply cond0_from_spec_err_depth. lia.
  Qed.

  (* --- DataPath.from_part_specs --- *)
  Lemma from_part_specs_err_all l e : from_part_specs T X l = Err e -> serr e.
  Proof.
    unfold from_part_specs. intros H.
    eapply (path_from_part_specs_err _ serr) with (m := ldepth l) in H;
      [exact H | left; exact se_type | left; exact se_value | apply cond0_from_spec_wf | | lia].
    intros s0 e0 _. apply cond0_from_spec_err_all.
  Qed.

  Lemma from_part_specs_err_depth l e :
    ldepth l < spec_fuel -> from_part_specs T X l = Err e -> spec_error e.
  Proof.
    unfold from_part_specs. intros Hd H.
    eapply (path_from_part_specs_err _ spec_error) with (m := ldepth l) in H;
      [exact H | exact se_type | exact se_value | apply cond0_from_spec_wf | | lia].
    intros s0 e0 Hs0. apply cond0_from_spec_err_depth. lia.
  Qed.

  (* --- ConditionLike.from_spec --- *)
  Lemma cond1_from_spec_err_all spec e : cond1_from_spec T X spec = Err e -> serr e.
  Proof.
    unfold cond1_from_spec. intros H.
    eapply (cond_from_spec_err_all arg1 ALit (APath 0%N) inert0 _ serr) in H;
      [exact H | left; exact se_type | left; exact se_cond | right; reflexivity |].
    intros u e'. apply path_from_spec_err_all.
  Qed.

  Lemma cond1_from_spec_err_depth spec e :
    vdepth spec < spec_fuel -> cond1_from_spec T X spec = Err e -> spec_error e.
  Proof.
    unfold cond1_from_spec. intros Hd H.
    eapply (cond_from_spec_err_depth arg1 ALit (APath 0%N) inert0 _ spec_error se_type se_cond spec_fuel) in H;
      [exact H | | exact Hd | lia].
    intros u e' Hu. apply path_from_spec_err_depth. lia.
  Qed.

  (* --- dict(spec) in front of ContainerValue.from_spec (the harness entry point) --- *)
  Lemma pair_of_err v e : pair_of v = Err e -> e = TypeError \/ e = ValueError.
  Proof.
    unfold pair_of. intros H.
    destruct v; repeat match type of H with context [match ?x with _ => _ end] => destruct x end;
      try discriminate; injection H as <-; auto.
  Qed.

  Lemma pair_of_depth v k x : pair_of v = Ok (k, x) -> Nat.max (vdepth k) (vdepth x) <= vdepth v.
  Proof.
    unfold pair_of. intros H.
    destruct v; repeat match type of H with context [match ?x with _ => _ end] => destruct x end;
      try discriminate; injection H as <- <-;
      rewrite ?vdepth_list, ?vdepth_tuple, ?vdepth_dict, ?ldepth_cons, ?ddepth_cons; cbn [vdepth]; lia.
  Qed.

  Lemma dict_put_depth k v : forall d, ddepth (dict_put k v d) <= Nat.max (Nat.max (vdepth k) (vdepth v)) (ddepth d).
  Proof.
    induction d as [|[k2 v2] r IH]; cbn [dict_put].
    - rewrite ddepth_cons. lia.
    - destruct (py_eq k k2); rewrite !ddepth_cons; lia.
  Qed.

  Lemma fold_put_depth n : forall ps d,
    (forall k x, In (k, x) ps -> Nat.max (vdepth k) (vdepth x) <= n) -> ddepth d <= n ->
    ddepth (fold_left (fun d kv => dict_put (fst kv) (snd kv) d) ps d) <= n.
  Proof.
    induction ps as [|[k x] ps IH]; intros d Hps Hd; cbn [fold_left]; [exact Hd|].
    apply IH; [intros k' x' Hin; apply Hps; right; exact Hin|].
    cbn [fst snd]. pose proof (dict_put_depth k x d). specialize (Hps k x (or_introl eq_refl)). lia.
  Qed.

  Lemma mapM_pair_of_depth n : forall l ps,
    (forall v, In v l -> vdepth v <= n) -> mapM pair_of l = Ok ps ->
    forall k x, In (k, x) ps -> Nat.max (vdepth k) (vdepth x) <= n.
  Proof.
    induction l as [|v l IH]; intros ps Hl H; cbn [mapM] in H.
    - injection H as <-. intros k x [].
    - bs H p Hp. bs H ps' Hps. injection H as <-. intros k x [Hin|Hin].
      + subst p. apply pair_of_depth in Hp. specialize (Hl v (or_introl eq_refl)). lia.
      + eapply IH; [|exact Hps|exact Hin]. intros v' Hv'. apply Hl. right. exact Hv'.
  Qed.

  Lemma dict_of_val_err v e : dict_of_val v = Err e -> e = TypeError \/ e = ValueError.
  Proof.
    unfold dict_of_val. intros H.
    destruct v; try (injection H as <-; auto; fail); try discriminate.
    all: bs H ps Hps; [|discriminate];
      eapply (mapM_err (fun e => e = TypeError \/ e = ValueError)); [|exact H];
      intros y e' _; apply pair_of_err.
  Qed.

  Lemma dict_of_val_depth v d : dict_of_val v = Ok d -> vdepth (VDict d) <= S (vdepth v).
  Proof.
    unfold dict_of_val. intros H. rewrite vdepth_dict. apply le_n_S.
    destruct v; try discriminate.
    - bs H ps Hps. injection H as <-. apply fold_put_depth; [|cbn; lia].
      eapply mapM_pair_of_depth; [|exact Hps]. intros v Hv. apply in_map_iff in Hv as [c [<- _]]. cbn. lia.
    - bs H ps Hps. injection H as <-. apply fold_put_depth; [|cbn; lia].
      eapply mapM_pair_of_depth; [|exact Hps]. intros v Hv. apply ldepth_in in Hv. rewrite vdepth_list. lia.
    - bs H ps Hps. injection H as <-. apply fold_put_depth; [|cbn; lia].
      eapply mapM_pair_of_depth; [|exact Hps]. intros v Hv. apply ldepth_in in Hv. rewrite vdepth_tuple. lia.
    - injection H as <-. rewrite vdepth_dict. lia.
  Qed.

  Lemma part_entry_err_all spec e :
    (let* d := dict_of_val spec in part_spec_parse T X d) = Err e -> serr e.
  Proof.
    intros H. bs H d Hd.
    - left. apply dict_of_val_err in H as [->| ->]; [exact se_type|exact se_value].
    - apply part_spec_parse_err_all in H. exact H.
  Qed.

  Lemma part_entry_err_depth spec e :
    S (vdepth spec) < spec_fuel ->
    (let* d := dict_of_val spec in part_spec_parse T X d) = Err e -> spec_error e.
  Proof.
    intros Hs H. bs H d Hd.
    - apply dict_of_val_err in H as [->| ->]; [exact se_type|exact se_value].
    - apply dict_of_val_depth in Hd. eapply part_spec_parse_err_depth; [|exact H]. lia.
  Qed.

  (* ---------------------------------------------------------------- *)
  (* d. Rule.from_spec                                                  *)

  Lemma get_item_err spec k e :
    get_item spec k = Err e ->
    e = TypeError \/ (e = KeyError /\ exists d, spec = VDict d /\ dict_look (VStr k) d = None).
  Proof.
    unfold get_item. intros H. destruct spec; try (injection H as <-; auto; fail).
    destruct (dict_look (VStr k) d) eqn:E; [discriminate|]. injection H as <-. right. eauto.
  Qed.

  Lemma dict_look_depth k : forall d v, dict_look k d = Some v -> vdepth v <= ddepth d.
  Proof.
    induction d as [|[k2 v2] r IH]; intros v H; cbn in H; [discriminate|]. rewrite ddepth_cons.
    destruct (py_eq k k2); [injection H as <-; lia|]. specialize (IH _ H). lia.
  Qed.

  Lemma get_item_depth spec k v : get_item spec k = Ok v -> vdepth v < vdepth spec.
  Proof.
    unfold get_item. intros H. destruct spec; try discriminate.
    destruct (dict_look (VStr k) d) eqn:E; [|discriminate]. injection H as <-.
    apply dict_look_depth in E. rewrite vdepth_dict. lia.
  Qed.

  Definition doc_err (e : exc) : Prop := e = TypeError \/ e = MalformedRule.

  Lemma strip_all_err l e : strip_all l = Err e -> doc_err e.
  Proof.
    unfold strip_all, doc_err. intros H. destruct l; try (injection H as <-; auto; fail).
    all: bs H r Hr; [|discriminate];
      eapply (mapM_err doc_err); [|exact H]; intros y e' _ Hy; destruct y; try discriminate;
      injection Hy as <-; unfold doc_err; auto.
  Qed.

  Lemma dict_look_app_some k : forall l l' v, dict_look k l = Some v -> dict_look k (l ++ l') = Some v.
  Proof.
    induction l as [|[k2 v2] r IH]; intros l' v H; cbn in H; [discriminate|]. cbn.
    destruct (py_eq k k2); [exact H|]. apply IH. exact H.
  Qed.

  Lemma dict_look_app_self k dflt : py_eq k k = true -> forall l, dict_look k (l ++ [(k, dflt)]) <> None.
  Proof.
    intros Hk. induction l as [|[k2 v2] r IH]; cbn.
    - rewrite Hk. discriminate.
    - destruct (py_eq k k2); [discriminate|exact IH].
  Qed.

  Lemma look_default k dflt items : py_eq k k = true ->
    dict_look k (match dict_look k items with Some _ => items | None => items ++ [(k, dflt)] end) <> None.
  Proof.
    intros Hk. destruct (dict_look k items) eqn:E; [congruence|]. apply dict_look_app_self. exact Hk.
  Qed.

  Lemma look_default_keep k k' dflt items : dict_look k items <> None ->
    dict_look k (match dict_look k' items with Some _ => items | None => items ++ [(k', dflt)] end) <> None.
  Proof.
    intros Hk. destruct (dict_look k' items); [exact Hk|].
    destruct (dict_look k items) eqn:E; [|congruence]. erewrite dict_look_app_some; [discriminate|exact E].
  Qed.

  (* the KeyError branches of norm_doc are unreachable: both keys have just been given defaults *)
  Lemma norm_doc_err doc e : norm_doc doc = Err e -> doc_err e.
  Proof.
    unfold norm_doc. intros H. destruct doc as [d|]; [|discriminate].
    destruct (negb (py_truthy d)); [discriminate|].
    bs H d1 Hd1.
    { destruct d; repeat match type of H with context [match ?x with _ => _ end] => destruct x end; discriminate. }
    clear Hd1. destruct d1; try (injection H as <-; left; reflexivity).
    cbv zeta in H.
    set (items1 := match dict_look (VStr "description") d0 with Some _ => d0 | None => _ end) in H.
    set (items2 := match dict_look (VStr "examples") items1 with Some _ => items1 | None => _ end) in H.
    assert (H1 : dict_look (VStr "description") items2 <> None).
    { apply look_default_keep. apply look_default. reflexivity. }
    assert (H2 : dict_look (VStr "examples") items2 <> None).
    { apply look_default. reflexivity. }
    bs H desc Hdesc.
    { destruct (dict_look (VStr "description") items2); [eapply strip_all_err; exact H|congruence]. }
    bs H exs Hexs; [|discriminate].
    destruct (dict_look (VStr "examples") items2); [eapply strip_all_err; exact H|congruence].
  Qed.

  Lemma parse_casts_err cast e : parse_casts X cast = Err e -> doc_err e.
  Proof.
    unfold parse_casts, doc_err. intros H.
    destruct cast as [v|]; [|discriminate].
    destruct v; try discriminate; try (injection H as <-; auto; fail).
    bs H l Hl; [|discriminate].
    eapply (mapM_err doc_err); [|exact H]. intros kv e' _ Hkv. unfold doc_err. cbv beta in Hkv.
    bs Hkv from_t Hfrom.
    { repeat match type of Hkv with context [match ?x with _ => _ end] => destruct x end;
        try discriminate; injection Hkv as <-; auto. }
    bs Hkv to_t Hto.
    { repeat match type of Hkv with context [match ?x with _ => _ end] => destruct x end;
        try discriminate; injection Hkv as <-; auto. }
    repeat match type of Hkv with context [match ?x with _ => _ end] => destruct x end;
      try discriminate; injection Hkv as <-; auto.
  Qed.

  Definition missing_field (spec : pyval) : Prop :=
    exists d, spec = VDict d /\
      (dict_look (VStr "path") d = None \/ dict_look (VStr "condition") d = None).

  Lemma rule_from_spec_err_gen (P : exc -> Prop) spec e :
    P TypeError -> P MalformedRule ->
    (forall l e, ldepth l < vdepth spec -> from_part_specs T X l = Err e -> P e) ->
    (forall c e, vdepth c < vdepth spec -> cond1_from_spec T X c = Err e -> P e) ->
    rule_from_spec T X spec = Err e -> P e \/ (e = KeyError /\ missing_field spec).
  Proof.
    intros P_type P_rule Hparts Hcond H. unfold rule_from_spec in H.
    bs H pv Hpv.
    { apply get_item_err in H as [->|[-> [d [-> Hd]]]]; [left; exact P_type|].
      right. split; [reflexivity|]. exists d. auto. }
    apply get_item_depth in Hpv.
    bs H parts Hp; [apply py_iter_err in H; subst; left; exact P_type|].
    apply py_iter_depth in Hp.
    bs H pt Hpt; [left; eapply Hparts; [|exact H]; lia|].
    bs H cv Hcv.
    { apply get_item_err in H as [->|[-> [d [-> Hd]]]]; [left; exact P_type|].
      right. split; [reflexivity|]. exists d. auto. }
    apply get_item_depth in Hcv.
    bs H ct Hct; [left; eapply Hcond; [|exact H]; lia|]. destruct ct as [ct c].
    bs H doc Hdoc; [left; apply norm_doc_err in H as [->| ->]; assumption|].
    bs H cs Hcs; [left; apply parse_casts_err in H as [->| ->]; assumption|].
    destruct cs; discriminate.
  Qed.

  Lemma rule_from_spec_err_all spec e :
    rule_from_spec T X spec = Err e -> serr e \/ (e = KeyError /\ missing_field spec).
  Proof.
    apply rule_from_spec_err_gen.
    - left; exact se_type.
    - left; exact se_rule.
    - intros l e' _. apply from_part_specs_err_all.
    - intros c e' _. apply cond1_from_spec_err_all.
  Qed.

  Lemma rule_from_spec_err_depth spec e :
    vdepth spec <= spec_fuel ->
    rule_from_spec T X spec = Err e -> spec_error e \/ (e = KeyError /\ missing_field spec).
  Proof.
    intros Hd. apply rule_from_spec_err_gen.
    - exact se_type.
    - exact se_rule.
    - intros l e' Hl. apply from_part_specs_err_depth. lia.
    - intros c e' Hc. apply cond1_from_spec_err_depth. lia.
  Qed.
End SpecFacts.

(* ------------------------------------------------------------------ *)
(* facts about the generated tables (by computation)                   *)

(* every parameter a DSL constructor stores is one of its own parameters *)
Lemma T_tables_ok : tables_ok T = true.
Proof. vm_compute. reflexivity. Qed.
(* primitives in a path become Key.equal_to / Index.equal_to, values Value.equal_to: they exist *)
Lemma T_key_eq : has_ctor T "Key" "equal_to" = true. Proof. vm_compute. reflexivity. Qed.
Lemma T_index_eq : has_ctor T "Index" "equal_to" = true. Proof. vm_compute. reflexivity. Qed.
Lemma T_value_eq : has_ctor T "Value" "equal_to" = true. Proof. vm_compute. reflexivity. Qed.
(* every allowed path suffix names a DataPath modifier *)
Lemma X_suffixes_ok : forallb mod_okb (sx_allowed_suffixes X) = true.
Proof. vm_compute. reflexivity. Qed.

(* ------------------------------------------------------------------ *)
(* C19                                                                  *)

(* 1. ConditionLike.from_spec *)
Theorem C19_cond_no_internal : forall spec e,
  cond1_from_spec T X spec = Err e -> spec_error e \/ e = RecursionError.
Proof.
  intros spec e H.
  exact (cond1_from_spec_err_all T X T_tables_ok T_key_eq T_index_eq T_value_eq X_suffixes_ok spec e H).
Qed.

Theorem C19_cond_no_recursion : forall spec e,
  vdepth spec < spec_fuel -> cond1_from_spec T X spec = Err e -> spec_error e.
Proof.
  intros spec e Hd H.
  exact (cond1_from_spec_err_depth T X T_tables_ok T_key_eq T_index_eq T_value_eq X_suffixes_ok spec e Hd H).
Qed.

(* 2. DataPath.from_spec *)
Theorem C19_path_no_internal : forall spec e,
  path_from_spec T X spec = Err e -> spec_error e \/ e = RecursionError.
Proof.
  intros spec e H.
  exact (path_from_spec_err_all T X T_tables_ok T_key_eq T_index_eq T_value_eq X_suffixes_ok spec e H).
Qed.

Theorem C19_path_no_recursion : forall spec e,
  vdepth spec <= spec_fuel -> path_from_spec T X spec = Err e -> spec_error e.
Proof.
  intros spec e Hd H.
  exact (path_from_spec_err_depth T X T_tables_ok T_key_eq T_index_eq T_value_eq X_suffixes_ok spec e Hd H).
Qed.

(* 3. ContainerValue.from_spec *)
Theorem C19_part_no_internal : forall d e,
  part_spec_parse T X d = Err e -> spec_error e \/ e = RecursionError.
Proof.
  intros d e H.
  exact (part_spec_parse_err_all T X T_tables_ok T_key_eq T_index_eq T_value_eq X_suffixes_ok d e H).
Qed.

Theorem C19_part_no_recursion : forall d e,
  vdepth (VDict d) < spec_fuel -> part_spec_parse T X d = Err e -> spec_error e.
Proof.
  intros d e Hd H.
  exact (part_spec_parse_err_depth T X T_tables_ok T_key_eq T_index_eq T_value_eq X_suffixes_ok d e Hd H).
Qed.

(* ... behind dict(spec), as the harness calls it *)
Theorem C19_part_entry_no_internal : forall spec e,
  (let* d := dict_of_val spec in part_spec_parse T X d) = Err e -> spec_error e \/ e = RecursionError.
Proof.
  intros spec e H.
  exact (part_entry_err_all T X T_tables_ok T_key_eq T_index_eq T_value_eq X_suffixes_ok spec e H).
Qed.

Theorem C19_part_entry_no_recursion : forall spec e,
  S (vdepth spec) < spec_fuel ->
  (let* d := dict_of_val spec in part_spec_parse T X d) = Err e -> spec_error e.
Proof.
  intros spec e Hd H.
  exact (part_entry_err_depth T X T_tables_ok T_key_eq T_index_eq T_value_eq X_suffixes_ok spec e Hd H).
Qed.

(* 4. DataPath.from_part_specs *)
Theorem C19_part_specs_no_internal : forall l e,
  from_part_specs T X l = Err e -> spec_error e \/ e = RecursionError.
Proof.
  intros l e H.
  exact (from_part_specs_err_all T X T_tables_ok T_key_eq T_index_eq T_value_eq X_suffixes_ok l e H).
Qed.

Theorem C19_part_specs_no_recursion : forall l e,
  vdepth (VList l) <= spec_fuel -> from_part_specs T X l = Err e -> spec_error e.
Proof.
  intros l e Hd H. rewrite vdepth_list in Hd.
  exact (from_part_specs_err_depth T X T_tables_ok T_key_eq T_index_eq T_value_eq X_suffixes_ok l e Hd H).
Qed.

(* 5. Rule.from_spec *)
Theorem C19_rule_no_internal : forall spec e,
  rule_from_spec T X spec = Err e -> rule_error e \/ e = RecursionError.
Proof.
  intros spec e H.
  destruct (rule_from_spec_err_all T X T_tables_ok T_key_eq T_index_eq T_value_eq X_suffixes_ok spec e H)
    as [[Hs|Hr]|[Hk _]].
  - left. left. exact Hs.
  - right. exact Hr.
  - left. right. exact Hk.
Qed.

Theorem C19_rule_no_recursion : forall spec e,
  vdepth spec <= spec_fuel -> rule_from_spec T X spec = Err e -> rule_error e.
Proof.
  intros spec e Hd H.
  destruct (rule_from_spec_err_depth T X T_tables_ok T_key_eq T_index_eq T_value_eq X_suffixes_ok spec e Hd H)
    as [Hs|[Hk _]].
  - left. exact Hs.
  - right. exact Hk.
Qed.

(* a KeyError names a missing rule field: the spec is a mapping without "path" or without "condition" *)
Theorem C19_rule_keyerror : forall spec,
  rule_from_spec T X spec = Err KeyError ->
  exists d, spec = VDict d /\
    (dict_look (VStr "path") d = None \/ dict_look (VStr "condition") d = None).
Proof.
  intros spec H.
  destruct (rule_from_spec_err_all T X T_tables_ok T_key_eq T_index_eq T_value_eq X_suffixes_ok spec _ H)
    as [[Hs|Hr]|[_ Hm]].
  - unfold spec_error in Hs. repeat destruct Hs as [Hs|Hs]; discriminate.
  - discriminate.
  - exact Hm.
Qed.

(* the fuel artefact is real in the model: forty nested "and"s around a leaf exhaust it *)
Fixpoint nest_and (n : nat) (s : pyval) : pyval :=
  match n with O => s | S k => VDict [(VStr "and", VList [nest_and k s])] end.
Example C19_fuel_exhausted :
  cond1_from_spec T X (nest_and 40 (VDict [(VStr "value.equal_to", VInt 1)])) = Err RecursionError
  /\ (exists r, cond1_from_spec T X (nest_and 39 (VDict [(VStr "value.equal_to", VInt 1)])) = Ok r).
Proof. split; [vm_compute; reflexivity | vm_compute; eexists; reflexivity]. Qed.

Example C19_keyerror_reachable : exists r, rule_from_spec T X (VDict []) = Err KeyError /\ r = tt.
Proof. exists tt. split; [vm_compute; reflexivity|reflexivity]. Qed.

Print Assumptions C19_cond_no_internal.
Print Assumptions C19_cond_no_recursion.
Print Assumptions C19_path_no_internal.
Print Assumptions C19_path_no_recursion.
Print Assumptions C19_part_no_internal.
Print Assumptions C19_part_no_recursion.
Print Assumptions C19_part_entry_no_internal.
Print Assumptions C19_part_entry_no_recursion.
Print Assumptions C19_part_specs_no_internal.
Print Assumptions C19_part_specs_no_recursion.
Print Assumptions C19_rule_no_internal.
Print Assumptions C19_rule_no_recursion.
Print Assumptions C19_rule_keyerror.
