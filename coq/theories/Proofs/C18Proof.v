(* C18: Schema.add_schema(T, root).
   PART A (heap model, SchemaHeap.v): under the copying protocol T and every other object but the
   receiving schema are untouched; S gets its old rules plus T's rules re-rooted, shortest first.
   PART B (specification of path resolution, PathSpec.v / RuleSpec.v): a re-rooted rule judges what
   lies at the root exactly as T's rule judges it. *)
From Coq Require Import ZArith NArith List Bool String Lia Arith.
From Coq Require Import Sorting.Permutation Sorting.Sorted.
From Valida Require Import Py Lang Defs DocSem PathSpec Cast RuleDefs RuleSpec SchemaHeap.
From Valida.Proofs Require Import C04Proof.
Import ListNotations.
Local Open Scope list_scope.

(* ================================================================== *)
(* PART A — object identity                                             *)
(* ================================================================== *)

(* ------------------------------------------------------------------ *)
(* A0. list facts                                                       *)

Lemma set_nth_length {X} (x : X) : forall l i, List.length (set_nth l i x) = List.length l.
Proof.
  induction l as [ | y r IH ]; intros [ | j ]; cbn; try reflexivity.
  rewrite IH. reflexivity.
Qed.

Lemma nth_error_set_nth_neq {X} (x : X) : forall l i j, i <> j ->
  nth_error (set_nth l i x) j = nth_error l j.
Proof.
  induction l as [ | y r IH ]; intros [ | i ] [ | j ] Hne; cbn; try reflexivity.
  - congruence.
  - apply IH. congruence.
Qed.

Lemma nth_error_set_nth_eq {X} (x : X) : forall l i, (i < List.length l)%nat ->
  nth_error (set_nth l i x) i = Some x.
Proof.
  induction l as [ | y r IH ]; intros [ | i ] Hlt; cbn in *; try lia; try reflexivity.
  apply IH. lia.
Qed.

Lemma nth_error_lt_some {X} (l : list X) i x : nth_error l i = Some x -> (i < List.length l)%nat.
Proof. intros H. apply nth_error_Some. congruence. Qed.

Lemma map_nth_error_seq {X} (h f : list X) :
  map (nth_error (h ++ f)) (seq (List.length h) (List.length f)) = map Some f.
Proof.
  revert h. induction f as [ | x f IH ]; intros h; [ reflexivity | ].
  cbn [List.length seq map]. f_equal.
  - rewrite nth_error_app2 by lia. rewrite Nat.sub_diag. reflexivity.
  - specialize (IH (h ++ [x])). rewrite <- app_assoc in IH. cbn [app] in IH.
    rewrite app_length in IH. cbn [List.length] in IH. rewrite Nat.add_1_r in IH. exact IH.
Qed.

(* ------------------------------------------------------------------ *)
(* A0'. reading a rule through the heap                                 *)

Definition obj_pb (o : option sobj) : list nat * nat :=
  match o with Some (ORule p b) => (p, b) | _ => ([], 0%nat) end.
Definition look (h : sheap) (r : nat) : list nat * nat := obj_pb (nth_error h r).
Definition klen (h : sheap) (r : nat) : nat := List.length (fst (look h r)).
Definition reroot_pb (root : list nat) (pb : list nat * nat) : list nat * nat :=
  let '(p, b) := pb in (root ++ p, b).

Lemma schema_rules_look h s :
  schema_rules h s = match nth_error h s with
                     | Some (OSchema rs) => Some (map (look h) rs)
                     | _ => None
                     end.
Proof. reflexivity. Qed.

Lemma klen_spec h x :
  match nth_error h x with Some (ORule p _) => List.length p | _ => 0%nat end = klen h x.
Proof. unfold klen, look, obj_pb. destruct (nth_error h x) as [ [ p b | rs ] | ]; reflexivity. Qed.

Lemma insert_len_cons h r x xs :
  insert_len h r (x :: xs) = if Nat.ltb (klen h x) (klen h r) then x :: insert_len h r xs else r :: x :: xs.
Proof. cbn [insert_len]. rewrite !klen_spec. reflexivity. Qed.

(* ------------------------------------------------------------------ *)
(* A0''. sort_locs is a stable insertion sort on the path length         *)

Definition lle (h : sheap) (a b : nat) : Prop := (klen h a <= klen h b)%nat.

Lemma sort_locs_cons h x l : sort_locs h (x :: l) = insert_len h x (sort_locs h l).
Proof. reflexivity. Qed.

Lemma insert_len_perm h r l : Permutation (insert_len h r l) (r :: l).
Proof.
  induction l as [ | y ys IH ]; [ reflexivity | ]. rewrite insert_len_cons.
  destruct (Nat.ltb _ _).
  - transitivity (y :: r :: ys); [ apply perm_skip; exact IH | apply perm_swap ].
  - reflexivity.
Qed.

Lemma sort_locs_perm h l : Permutation (sort_locs h l) l.
Proof.
  induction l as [ | x l IH ]; [ constructor | ].
  rewrite sort_locs_cons.
  transitivity (x :: sort_locs h l); [ apply insert_len_perm | apply perm_skip; exact IH ].
Qed.

Lemma insert_len_sorted h x l : StronglySorted (lle h) l -> StronglySorted (lle h) (insert_len h x l).
Proof.
  induction l as [ | y ys IH ]; intros Hs.
  - cbn. constructor; constructor.
  - rewrite insert_len_cons. inversion Hs as [ | ? ? Hys Hall ]; subst.
    destruct (Nat.ltb_spec (klen h y) (klen h x)) as [Hlt | Hge].
    + constructor; [ apply IH; exact Hys | ].
      apply Forall_forall. intros z Hz.
      apply (Permutation_in _ (insert_len_perm h x ys)) in Hz.
      destruct Hz as [ <- | Hz ]; [ unfold lle; lia | ].
      rewrite Forall_forall in Hall. apply Hall. exact Hz.
    + constructor; [ exact Hs | ].
      constructor; [ unfold lle; lia | ].
      eapply Forall_impl; [ | exact Hall ]. intros z Hz. unfold lle in *. lia.
Qed.

Lemma sort_locs_strongly_sorted h l : StronglySorted (lle h) (sort_locs h l).
Proof.
  induction l as [ | x l IH ]; [ constructor | ].
  rewrite sort_locs_cons. apply insert_len_sorted. exact IH.
Qed.

Lemma insert_len_filter h n x l :
  filter (fun y => Nat.eqb (klen h y) n) (insert_len h x l) = filter (fun y => Nat.eqb (klen h y) n) (x :: l).
Proof.
  induction l as [ | y ys IH ]; [ reflexivity | ]. rewrite insert_len_cons.
  destruct (Nat.ltb_spec (klen h y) (klen h x)) as [Hlt | Hge]; [ | reflexivity ].
  cbn [filter] in *. rewrite IH.
  destruct (Nat.eqb_spec (klen h y) n) as [Ey | Ey];
    destruct (Nat.eqb_spec (klen h x) n) as [Ex | Ex]; try reflexivity.
  lia.
Qed.

Lemma sort_locs_stable h n l :
  filter (fun y => Nat.eqb (klen h y) n) (sort_locs h l) = filter (fun y => Nat.eqb (klen h y) n) l.
Proof.
  induction l as [ | x l IH ]; [ reflexivity | ].
  rewrite sort_locs_cons, insert_len_filter. cbn [filter]. rewrite IH. reflexivity.
Qed.

Lemma StronglySorted_map {A B} (RA : A -> A -> Prop) (RB : B -> B -> Prop) (f : A -> B) :
  (forall a b, RA a b -> RB (f a) (f b)) ->
  forall l, StronglySorted RA l -> StronglySorted RB (map f l).
Proof.
  intros Hf. induction 1 as [ | a l _ IH Hall ]; cbn; constructor; [ exact IH | ].
  apply Forall_map. eapply Forall_impl; [ | exact Hall ]. intros b. apply Hf.
Qed.

Lemma filter_map_comm {A B} (f : A -> B) (p : B -> bool) : forall l,
  filter p (map f l) = map f (filter (fun x => p (f x)) l).
Proof.
  induction l as [ | x l IH ]; cbn; [ reflexivity | ].
  destruct (p (f x)); cbn; rewrite IH; reflexivity.
Qed.

(* ------------------------------------------------------------------ *)
(* well-formed heaps: every rule location listed in a schema object holds a rule object
   (hence lies inside the heap and is not a schema object)                *)

Definition wf_heap (h : sheap) : Prop :=
  forall s rs, nth_error h s = Some (OSchema rs) ->
  forall r, In r rs -> exists p b, nth_error h r = Some (ORule p b).

(* the weaker condition on one schema that A2 needs *)
Definition rules_inside (h : sheap) (t : nat) : Prop :=
  forall rs, nth_error h t = Some (OSchema rs) -> forall r, In r rs -> (r < List.length h)%nat.

Lemma wf_rules_inside h t : wf_heap h -> rules_inside h t.
Proof.
  intros Hwf rs Ht r Hr. destruct (Hwf t rs Ht r Hr) as [p [b E]]. eapply nth_error_lt_some; exact E.
Qed.

(* ------------------------------------------------------------------ *)
(* the shape of the result under the copying protocol                    *)

Definition fresh_objs (root : list nat) (h : sheap) (trs : list nat) : list sobj :=
  map (fun r => match nth_error h r with Some o => reroot_obj root o | None => ORule root 0 end) trs.

Lemma add_schema_copy_inv P s t root h h' :
  as_copies P = true -> add_schema_h P s t root h = Some h' ->
  exists srs trs,
    nth_error h s = Some (OSchema srs) /\ nth_error h t = Some (OSchema trs) /\
    h' = set_nth (h ++ fresh_objs root h trs) s
           (OSchema (sort_locs (h ++ fresh_objs root h trs)
                               (srs ++ seq (List.length h) (List.length trs)))).
Proof.
  intros HP Hadd. unfold add_schema_h in Hadd.
  destruct (nth_error h s) as [ [ ? ? | srs ] | ] eqn:Es; try discriminate Hadd.
  destruct (nth_error h t) as [ [ ? ? | trs ] | ] eqn:Et; try discriminate Hadd.
  rewrite HP in Hadd. injection Hadd as <-.
  exists srs, trs. repeat split; reflexivity.
Qed.

Lemma fresh_objs_length root h trs : List.length (fresh_objs root h trs) = List.length trs.
Proof. apply map_length. Qed.

(* ------------------------------------------------------------------ *)
(* A1. frame                                                            *)

Theorem add_schema_frame : forall P s t root h h',
  as_copies P = true -> add_schema_h P s t root h = Some h' ->
  forall l, (l < List.length h)%nat -> l <> s -> nth_error h' l = nth_error h l.
Proof.
  intros P s t root h h' HP Hadd l Hl Hne.
  destruct (add_schema_copy_inv _ _ _ _ _ _ HP Hadd) as [srs [trs [Es [Et ->]]]].
  rewrite nth_error_set_nth_neq by congruence.
  apply nth_error_app1. exact Hl.
Qed.

Theorem add_schema_length : forall P s t root h h',
  as_copies P = true -> add_schema_h P s t root h = Some h' ->
  exists trs, nth_error h t = Some (OSchema trs) /\ List.length h' = (List.length h + List.length trs)%nat.
Proof.
  intros P s t root h h' HP Hadd.
  destruct (add_schema_copy_inv _ _ _ _ _ _ HP Hadd) as [srs [trs [Es [Et ->]]]].
  exists trs. split; [ exact Et | ].
  rewrite set_nth_length, app_length, fresh_objs_length. reflexivity.
Qed.

(* the receiving location still holds a schema object *)
Lemma add_schema_s_schema P s t root h h' :
  as_copies P = true -> add_schema_h P s t root h = Some h' ->
  (exists rs, nth_error h s = Some (OSchema rs)) /\ (exists rs', nth_error h' s = Some (OSchema rs')).
Proof.
  intros HP Hadd.
  destruct (add_schema_copy_inv _ _ _ _ _ _ HP Hadd) as [srs [trs [Es [Et ->]]]].
  split; [ eexists; exact Es | ].
  eexists. apply nth_error_set_nth_eq. rewrite app_length.
  apply nth_error_lt_some in Es. lia.
Qed.

(* what a rule location reads is unchanged: everywhere inside the old heap, including at s *)
Lemma add_schema_look P s t root h h' :
  as_copies P = true -> add_schema_h P s t root h = Some h' ->
  forall r, (r < List.length h)%nat -> look h' r = look h r.
Proof.
  intros HP Hadd r Hr. unfold look.
  destruct (Nat.eq_dec r s) as [ -> | Hne ].
  - destruct (add_schema_s_schema _ _ _ _ _ _ HP Hadd) as [[rs E] [rs' E']].
    rewrite E, E'. reflexivity.
  - rewrite (add_schema_frame _ _ _ _ _ _ HP Hadd r Hr Hne). reflexivity.
Qed.

(* ------------------------------------------------------------------ *)
(* A2. T is unchanged                                                   *)

(* any schema u other than the receiving one reads as before (T is the case u = t) *)
Lemma add_schema_schema_unchanged : forall P s t root h h' u,
  as_copies P = true -> add_schema_h P s t root h = Some h' ->
  s <> u -> (u < List.length h)%nat -> rules_inside h u ->
  schema_rules h' u = schema_rules h u.
Proof.
  intros P s t root h h' u HP Hadd Hne Hu Hin.
  rewrite !schema_rules_look.
  rewrite (add_schema_frame _ _ _ _ _ _ HP Hadd u Hu (not_eq_sym Hne)).
  destruct (nth_error h u) as [ [ ? ? | urs ] | ] eqn:Eu; try reflexivity.
  f_equal. apply map_ext_in. intros r Hr.
  apply (add_schema_look _ _ _ _ _ _ HP Hadd). exact (Hin urs Eu r Hr).
Qed.

Theorem add_schema_T_unchanged : forall P s t root h h',
  as_copies P = true -> add_schema_h P s t root h = Some h' ->
  s <> t -> (t < List.length h)%nat -> rules_inside h t ->
  schema_rules h' t = schema_rules h t.
Proof. intros P s t root h h'. apply add_schema_schema_unchanged. Qed.

(* under the heap invariant: any location u other than s, inside the heap or not *)
Theorem add_schema_other_unchanged : forall P s t root h h' u,
  as_copies P = true -> add_schema_h P s t root h = Some h' ->
  wf_heap h -> s <> u -> schema_rules h' u = schema_rules h u.
Proof.
  intros P s t root h h' u HP Hadd Hwf Hne.
  destruct (Nat.lt_ge_cases u (List.length h)) as [Hu | Hu].
  - apply (add_schema_schema_unchanged _ _ _ _ _ _ _ HP Hadd Hne Hu). apply wf_rules_inside. exact Hwf.
  - (* u lies outside the old heap: it is nothing before, and nothing or a fresh rule object after *)
    rewrite !schema_rules_look.
    destruct (add_schema_copy_inv _ _ _ _ _ _ HP Hadd) as [srs [trs [Es [Et ->]]]].
    rewrite nth_error_set_nth_neq by exact Hne.
    rewrite (proj2 (nth_error_None h u) Hu).
    rewrite nth_error_app2 by exact Hu.
    destruct (nth_error (fresh_objs root h trs) (u - List.length h)) as [ o | ] eqn:Eo; [ | reflexivity ].
    apply nth_error_In in Eo. unfold fresh_objs in Eo. apply in_map_iff in Eo.
    destruct Eo as [r [Er Hr]]. destruct (Hwf _ _ Et r Hr) as [p [b E]]. rewrite E in Er. subst o.
    reflexivity.
Qed.

(* ------------------------------------------------------------------ *)
(* A3. S = old rules + T's rules re-rooted, shortest path first           *)

Definition ple (a b : list nat * nat) : Prop := (List.length (fst a) <= List.length (fst b))%nat.

Lemma look_app1 h f r : (r < List.length h)%nat -> look (h ++ f) r = look h r.
Proof. intros Hr. unfold look. rewrite nth_error_app1 by exact Hr. reflexivity. Qed.

Lemma look_fresh root h trs :
  (forall r, In r trs -> exists p b, nth_error h r = Some (ORule p b)) ->
  map (look (h ++ fresh_objs root h trs)) (seq (List.length h) (List.length trs))
  = map (reroot_pb root) (map (look h) trs).
Proof.
  intros Hrules. unfold look at 1.
  rewrite <- (map_map (nth_error (h ++ fresh_objs root h trs)) obj_pb).
  rewrite <- (fresh_objs_length root h trs), map_nth_error_seq, !map_map.
  unfold fresh_objs. rewrite map_map. apply map_ext_in. intros r Hr.
  destruct (Hrules r Hr) as [p [b E]]. unfold look. rewrite E. reflexivity.
Qed.

Theorem add_schema_S_rules : forall P s t root h h',
  as_copies P = true -> add_schema_h P s t root h = Some h' -> wf_heap h ->
  exists old trules new,
    schema_rules h s = Some old /\ schema_rules h t = Some trules /\ schema_rules h' s = Some new /\
    Permutation new (old ++ map (fun '(p, b) => (root ++ p, b)) trules) /\
    StronglySorted ple new /\ Sorted ple new /\
    (* stability: rules of equal path length keep their order, old ones before added ones *)
    (forall n, filter (fun pb => Nat.eqb (List.length (fst pb)) n) new
               = filter (fun pb => Nat.eqb (List.length (fst pb)) n)
                        (old ++ map (fun '(p, b) => (root ++ p, b)) trules)).
Proof.
  intros P s t root h h' HP Hadd Hwf.
  destruct (add_schema_copy_inv _ _ _ _ _ _ HP Hadd) as [srs [trs [Es [Et Eh']]]].
  set (h1 := h ++ fresh_objs root h trs) in *.
  set (locs := seq (List.length h) (List.length trs)) in *.
  assert (Hs : (s < List.length h)%nat) by (eapply nth_error_lt_some; exact Es).
  assert (Hs1 : (s < List.length h1)%nat) by (unfold h1; rewrite app_length; lia).
  (* no location of the new rule list is s *)
  assert (Hnos : forall r, In r (srs ++ locs) -> r <> s).
  { intros r Hr ->. apply in_app_or in Hr. destruct Hr as [Hr | Hr].
    - destruct (Hwf _ _ Es s Hr) as [p [b E]]. congruence.
    - unfold locs in Hr. apply in_seq in Hr. lia. }
  (* what the unsorted list reads, through h1 *)
  assert (Hread : map (look h1) (srs ++ locs)
                  = map (look h) srs ++ map (reroot_pb root) (map (look h) trs)).
  { rewrite map_app. f_equal.
    - apply map_ext_in. intros r Hr. unfold h1. apply look_app1.
      destruct (Hwf _ _ Es r Hr) as [p [b E]]. eapply nth_error_lt_some; exact E.
    - unfold h1, locs. apply look_fresh. intros r Hr. exact (Hwf _ _ Et r Hr). }
  exists (map (look h) srs), (map (look h) trs), (map (look h1) (sort_locs h1 (srs ++ locs))).
  assert (Hnew : schema_rules h' s = Some (map (look h1) (sort_locs h1 (srs ++ locs)))).
  { rewrite schema_rules_look, Eh', (nth_error_set_nth_eq _ _ _ Hs1). f_equal.
    apply map_ext_in. intros r Hr. unfold look.
    rewrite nth_error_set_nth_neq; [ reflexivity | ].
    apply not_eq_sym. apply Hnos. apply (Permutation_in _ (sort_locs_perm h1 _)). exact Hr. }
  fold (reroot_pb root).
  split; [ rewrite schema_rules_look, Es; reflexivity | ].
  split; [ rewrite schema_rules_look, Et; reflexivity | ].
  split; [ exact Hnew | ].
  split; [ rewrite <- Hread; apply Permutation_map; apply sort_locs_perm | ].
  assert (Hss : StronglySorted ple (map (look h1) (sort_locs h1 (srs ++ locs)))).
  { apply (StronglySorted_map (lle h1) ple); [ | apply sort_locs_strongly_sorted ].
    intros a b Hab. exact Hab. }
  split; [ exact Hss | ].
  split; [ apply StronglySorted_Sorted; exact Hss | ].
  intros n. rewrite <- Hread, !filter_map_comm. f_equal.
  exact (sort_locs_stable h1 n (srs ++ locs)).
Qed.

(* ------------------------------------------------------------------ *)
(* A4. the invariant is preserved; T survives any history that does not add *to* T *)

Lemma fresh_objs_rule root h trs o :
  (forall r, In r trs -> exists p b, nth_error h r = Some (ORule p b)) ->
  In o (fresh_objs root h trs) -> exists p b, o = ORule p b.
Proof.
  intros Hrules Ho. unfold fresh_objs in Ho. apply in_map_iff in Ho.
  destruct Ho as [r [Er Hr]]. destruct (Hrules r Hr) as [p [b E]]. rewrite E in Er. subst o.
  cbn. eauto.
Qed.

Theorem add_schema_wf : forall P s t root h h',
  as_copies P = true -> add_schema_h P s t root h = Some h' -> wf_heap h -> wf_heap h'.
Proof.
  intros P s t root h h' HP Hadd Hwf.
  destruct (add_schema_copy_inv _ _ _ _ _ _ HP Hadd) as [srs [trs [Es [Et Eh']]]].
  set (fresh := fresh_objs root h trs) in *.
  assert (Hs : (s < List.length h)%nat) by (eapply nth_error_lt_some; exact Es).
  assert (Hs1 : (s < List.length (h ++ fresh))%nat) by (rewrite app_length; lia).
  assert (Hfresh : forall o, In o fresh -> exists p b, o = ORule p b).
  { intros o. apply fresh_objs_rule. intros r Hr. exact (Hwf _ _ Et r Hr). }
  (* an old rule object is still there *)
  assert (Hkeep : forall r p b, nth_error h r = Some (ORule p b) -> nth_error h' r = Some (ORule p b)).
  { intros r p b E. rewrite <- E. apply (add_schema_frame _ _ _ _ _ _ HP Hadd).
    - eapply nth_error_lt_some; exact E.
    - intros ->. congruence. }
  intros s' rs Es' r Hr.
  destruct (Nat.eq_dec s' s) as [ -> | Hne ].
  - rewrite Eh', (nth_error_set_nth_eq _ _ _ Hs1) in Es'. injection Es' as <-.
    apply (Permutation_in _ (sort_locs_perm _ _)) in Hr. apply in_app_or in Hr.
    destruct Hr as [Hr | Hr].
    + destruct (Hwf _ _ Es r Hr) as [p [b E]]. exists p, b. apply Hkeep. exact E.
    + apply in_seq in Hr.
      assert (Hrs : r <> s) by lia.
      rewrite Eh', nth_error_set_nth_neq by congruence.
      rewrite nth_error_app2 by lia.
      destruct (nth_error fresh (r - List.length h)) as [ o | ] eqn:Eo.
      * destruct (Hfresh o (nth_error_In _ _ Eo)) as [p [b ->]]. eauto.
      * apply nth_error_None in Eo. unfold fresh in Eo. rewrite fresh_objs_length in Eo. lia.
  - destruct (Nat.lt_ge_cases s' (List.length h)) as [Hlt | Hge].
    + rewrite (add_schema_frame _ _ _ _ _ _ HP Hadd s' Hlt Hne) in Es'.
      destruct (Hwf _ _ Es' r Hr) as [p [b E]]. exists p, b. apply Hkeep. exact E.
    + rewrite Eh', nth_error_set_nth_neq in Es' by congruence.
      rewrite nth_error_app2 in Es' by exact Hge.
      destruct (Hfresh _ (nth_error_In _ _ Es')) as [p [b E]]. discriminate E.
Qed.

Theorem run_adds_wf : forall P ops h, as_copies P = true -> wf_heap h -> wf_heap (run_adds P ops h).
Proof.
  intros P ops. induction ops as [ | [[s t] root] ops IH ]; intros h HP Hwf; [ exact Hwf | ].
  cbn [run_adds]. destruct (add_schema_h P s t root h) as [ h' | ] eqn:Hadd.
  - apply IH; [ exact HP | ]. exact (add_schema_wf _ _ _ _ _ _ HP Hadd Hwf).
  - apply IH; assumption.
Qed.

Theorem add_history_T_unchanged : forall P ops h t,
  as_copies P = true -> wf_heap h ->
  (forall op, In op ops -> fst (fst op) <> t) ->
  schema_rules (run_adds P ops h) t = schema_rules h t.
Proof.
  intros P ops. induction ops as [ | [[s t'] root] ops IH ]; intros h t HP Hwf Hops; [ reflexivity | ].
  cbn [run_adds].
  assert (Hne : s <> t) by (exact (Hops (s, t', root) (or_introl eq_refl))).
  assert (Hops' : forall op, In op ops -> fst (fst op) <> t).
  { intros op Hop. apply Hops. right. exact Hop. }
  destruct (add_schema_h P s t' root h) as [ h' | ] eqn:Hadd.
  - rewrite (IH h' t HP (add_schema_wf _ _ _ _ _ _ HP Hadd Hwf) Hops').
    exact (add_schema_other_unchanged _ _ _ _ _ _ _ HP Hadd Hwf Hne).
  - exact (IH h t HP Hwf Hops').
Qed.

(* every rule object of the original heap survives any history *)
Theorem add_history_rules_frame : forall P ops h r p b,
  as_copies P = true -> nth_error h r = Some (ORule p b) ->
  nth_error (run_adds P ops h) r = Some (ORule p b).
Proof.
  intros P ops. induction ops as [ | [[s t'] root] ops IH ]; intros h r p b HP E; [ exact E | ].
  cbn [run_adds]. destruct (add_schema_h P s t' root h) as [ h' | ] eqn:Hadd.
  - apply IH; [ exact HP | ]. rewrite <- E. apply (add_schema_frame _ _ _ _ _ _ HP Hadd).
    + eapply nth_error_lt_some; exact E.
    + intros ->. destruct (add_schema_s_schema _ _ _ _ _ _ HP Hadd) as [[rs E'] _]. congruence.
  - apply IH; assumption.
Qed.

(* ------------------------------------------------------------------ *)
(* A5. the rebinding protocol changes T                                  *)

Definition ex_heap : sheap := [OSchema []; OSchema [2%nat]; ORule [7%nat] 1%nat].

Theorem add_schema_rebinding_refuted : exists h s t root h',
  add_schema_h rebinding s t root h = Some h' /\ s <> t /\ schema_rules h' t <> schema_rules h t.
Proof.
  exists ex_heap, 0%nat, 1%nat, [5%nat], [OSchema [2%nat]; OSchema [2%nat]; ORule [5%nat; 7%nat] 1%nat].
  split; [ vm_compute; reflexivity | ].
  split; [ discriminate | ].
  vm_compute. discriminate.
Qed.

(* with the rebinding protocol even the frame property fails: T's rule object is mutated *)
Theorem add_schema_rebinding_frame_refuted : exists h s t root h' l,
  add_schema_h rebinding s t root h = Some h' /\ (l < List.length h)%nat /\ l <> s /\
  nth_error h' l <> nth_error h l.
Proof.
  exists ex_heap, 0%nat, 1%nat, [5%nat], [OSchema [2%nat]; OSchema [2%nat]; ORule [5%nat; 7%nat] 1%nat], 2%nat.
  split; [ vm_compute; reflexivity | ].
  split; [ cbn; lia | ].
  split; [ discriminate | ].
  vm_compute. discriminate.
Qed.

(* and adding the same T under two roots compounds the roots (the second addition sees the first) *)
Example rebinding_two_roots :
  schema_rules (run_adds rebinding [(0, 1, [5]); (0, 1, [6])]%nat ex_heap) 0%nat
  = Some [([6; 5; 7], 1); ([6; 5; 7], 1)]%nat.
Proof. vm_compute. reflexivity. Qed.

(* ---- the hypotheses of A1–A4 are inhabited by that heap with the copying protocol ---- *)

Example ex_heap_wf : wf_heap ex_heap.
Proof.
  intros s rs Es r Hr.
  destruct s as [ | [ | [ | s ] ] ]; cbn in Es.
  - injection Es as <-. destruct Hr.
  - injection Es as <-. destruct Hr as [ <- | [] ]. cbn. eauto.
  - discriminate Es.
  - destruct s; discriminate Es.
Qed.

Example ex_copying_add :
  add_schema_h copying 0 1 [5%nat] ex_heap
  = Some [OSchema [3%nat]; OSchema [2%nat]; ORule [7%nat] 1%nat; ORule [5%nat; 7%nat] 1%nat].
Proof. vm_compute. reflexivity. Qed.

Example ex_copying_T_unchanged :
  forall h', add_schema_h copying 0 1 [5%nat] ex_heap = Some h' ->
  schema_rules h' 1 = schema_rules ex_heap 1 /\ schema_rules h' 1 = Some [([7%nat], 1%nat)].
Proof.
  intros h' Hadd. split.
  - apply (add_schema_T_unchanged copying 0 1 [5%nat] ex_heap h' eq_refl Hadd).
    + discriminate.
    + cbn. lia.
    + apply wf_rules_inside. exact ex_heap_wf.
  - rewrite ex_copying_add in Hadd. injection Hadd as <-. vm_compute. reflexivity.
Qed.

Example ex_copying_S_rules :
  forall h', add_schema_h copying 0 1 [5%nat] ex_heap = Some h' ->
  schema_rules h' 0 = Some [([5; 7], 1)]%nat.
Proof. intros h' Hadd. rewrite ex_copying_add in Hadd. injection Hadd as <-. vm_compute. reflexivity. Qed.

(* the same T under two roots, and into a second schema: independent additions, T as before *)
Definition ex_heap2 : sheap := [OSchema []; OSchema [2%nat]; ORule [7%nat] 1%nat; OSchema []].

Example ex_heap2_wf : wf_heap ex_heap2.
Proof.
  intros s rs Es r Hr.
  destruct s as [ | [ | [ | [ | s ] ] ] ]; cbn in Es.
  - injection Es as <-. destruct Hr.
  - injection Es as <-. destruct Hr as [ <- | [] ]. cbn. eauto.
  - discriminate Es.
  - injection Es as <-. destruct Hr.
  - destruct s; discriminate Es.
Qed.

Definition ex_ops : list (nat * nat * list nat) := [(0, 1, [5]); (0, 1, [6]); (3, 1, [8; 9])]%nat.

Example ex_history_T_unchanged :
  schema_rules (run_adds copying ex_ops ex_heap2) 1 = schema_rules ex_heap2 1.
Proof.
  apply add_history_T_unchanged; [ reflexivity | exact ex_heap2_wf | ].
  intros op Hop. cbn in Hop.
  destruct Hop as [ <- | [ <- | [ <- | [] ] ] ]; discriminate.
Qed.

Example ex_history_values :
  schema_rules (run_adds copying ex_ops ex_heap2) 0 = Some [([5; 7], 1); ([6; 7], 1)]%nat /\
  schema_rules (run_adds copying ex_ops ex_heap2) 3 = Some [([8; 9; 7], 1)]%nat /\
  schema_rules (run_adds copying ex_ops ex_heap2) 1 = Some [([7], 1)]%nat.
Proof. vm_compute. repeat split. Qed.

(* ================================================================== *)
(* PART B — re-rooting on the specification of path resolution          *)
(* ================================================================== *)

Local Open Scope Z_scope.

Lemma flat_map_flat_map {A B C} (f : B -> list C) (g : A -> list B) : forall l,
  flat_map f (flat_map g l) = flat_map (fun x => flat_map f (g x)) l.
Proof.
  induction l as [ | x l IH ]; cbn; [ reflexivity | ].
  rewrite flat_map_app, IH. reflexivity.
Qed.

(* B1. resolving root ++ path = resolving path from every node the root selects *)
Theorem C18_walk_app : forall R P pre d,
  walk (R ++ P) pre d = flat_map (fun cn => walk P (fst cn) (snd cn)) (walk R pre d).
Proof.
  induction R as [ | p r IH ]; intros P pre d.
  - cbn. rewrite app_nil_r. reflexivity.
  - cbn [app walk]. rewrite flat_map_flat_map. apply flat_map_ext. intros kv. apply IH.
Qed.

(* B2. ... and the reported concrete paths are the root's path followed by the path inside *)
Corollary C18_selection : forall R P d,
  walk (R ++ P) [] d
  = flat_map (fun cn => map (fun pv => (fst cn ++ fst pv, snd pv)) (walk P [] (snd cn))) (walk R [] d).
Proof.
  intros R P d. rewrite C18_walk_app. apply flat_map_ext. intros cn.
  rewrite walk_prefix. reflexivity.
Qed.

(* ---- B3. verdicts ---- *)

Lemma q_is_null_eq' n : q_is_null n = true -> n = QNull.
Proof. destruct n; cbn; try discriminate; reflexivity. Qed.

Lemma qleaves_qnorm' t : qleaves (qnorm t) = qleaves t.
Proof.
  induction t as [c q| |o a IHa b IHb]; cbn [qnorm]; try reflexivity.
  cbn [qleaves]. rewrite <- IHa, <- IHb.
  destruct (q_is_null (qnorm b)) eqn:Eb.
  - apply q_is_null_eq' in Eb. rewrite Eb. cbn [qleaves]. rewrite app_nil_r. reflexivity.
  - destruct (q_is_null (qnorm a)) eqn:Ea.
    + apply q_is_null_eq' in Ea. rewrite Ea. reflexivity.
    + reflexivity.
Qed.

Lemma value_only_qnorm t : value_only (qnorm t) = value_only t.
Proof. unfold value_only. rewrite qleaves_qnorm'. reflexivity. Qed.

(* a value-kind tree does not look at the key / index of an item *)
Lemma sat_tree_value_only : forall n i j v,
  value_only n = true -> sat_tree n (i, v) = sat_tree n (j, v).
Proof.
  induction n as [c q| |o a IHa b IHb]; intros i j v Hvo; cbn [sat_tree].
  - unfold value_only in Hvo. cbn [qleaves forallb fst] in Hvo. rewrite andb_true_r in Hvo.
    unfold sat_item. destruct (scls_kind c); try discriminate Hvo. reflexivity.
  - reflexivity.
  - unfold value_only in Hvo. cbn [qleaves] in Hvo. rewrite forallb_app in Hvo.
    apply andb_true_iff in Hvo. destruct Hvo as [Ha Hb].
    rewrite (IHa i j v Ha), (IHb i j v Hb). reflexivity.
Qed.

(* is the selected node fine for the (normalised) condition tree? *)
Definition node_ok (t : qtree) (pv : list pyval * pyval) : bool := sat_tree (qnorm t) (VNone, snd pv).

Lemma results_value_only t : value_only t = true -> forall sel i,
  map (sat_tree (qnorm t)) (combine (zidx i (List.length sel)) (map snd sel)) = map (node_ok t) sel.
Proof.
  intros Hvo. induction sel as [ | [cp v] sel IH ]; intros i; [ reflexivity | ].
  cbn [List.length zidx map combine snd]. rewrite IH. f_equal.
  unfold node_ok. cbn [snd]. apply sat_tree_value_only. rewrite value_only_qnorm. exact Hvo.
Qed.

(* the failure list of spec_verdict *)
Definition fails_go :=
  fix go (i : Z) (sel : list (list pyval * pyval)) (r : list bool) : list pyval :=
    match sel, r with
    | (cp, v) :: s', b :: r' =>
        if b then go (i + 1) s' r'
        else VTuple [VInt i; v; VTuple cp; VBool true] :: go (i + 1) s' r'
    | _, _ => []
    end.

Lemma spec_verdict_cons x sel t :
  spec_verdict (x :: sel) t =
  let result := map (sat_tree (qnorm t))
                    (combine (zidx 0 (List.length (x :: sel))) (map snd (x :: sel))) in
  let fails := fails_go 0 (x :: sel) result in
  VTuple [VBool (forallb (fun b => b) result); VBool true; VInt (Z.of_nat (List.length fails)); VList fails].
Proof. reflexivity. Qed.

Lemma fails_go_length (f : list pyval * pyval -> bool) : forall sel i,
  List.length (fails_go i sel (map f sel)) = List.length (filter (fun pv => negb (f pv)) sel).
Proof.
  induction sel as [ | [cp v] sel IH ]; intros i; [ reflexivity | ].
  cbn [map fails_go filter]. destruct (f (cp, v)); cbn [negb List.length]; rewrite IH; reflexivity.
Qed.

Lemma forallb_id_map {A} (f : A -> bool) l : forallb (fun b => b) (map f l) = forallb f l.
Proof. induction l as [ | x l IH ]; cbn; [ reflexivity | rewrite IH; reflexivity ]. Qed.

(* a rule with a value-kind condition is valid iff every selected node is fine *)
Lemma verdict_valid_spec t sel : value_only t = true ->
  verdict_valid (spec_verdict sel t) = forallb (node_ok t) sel.
Proof.
  intros Hvo. destruct sel as [ | x sel ]; [ reflexivity | ].
  rewrite spec_verdict_cons. cbv zeta. unfold verdict_valid.
  rewrite (results_value_only t Hvo), forallb_id_map. reflexivity.
Qed.

(* ... and its number of failures is the number of selected nodes that are not *)
Lemma verdict_nfail_spec t sel : value_only t = true ->
  verdict_nfail (spec_verdict sel t) = Z.of_nat (List.length (filter (fun pv => negb (node_ok t pv)) sel)).
Proof.
  intros Hvo. destruct sel as [ | x sel ]; [ reflexivity | ].
  rewrite spec_verdict_cons. cbv zeta. unfold verdict_nfail.
  rewrite (results_value_only t Hvo), fails_go_length. reflexivity.
Qed.

Lemma forallb_flat_map {A B} (p : B -> bool) (f : A -> list B) : forall l,
  forallb p (flat_map f l) = forallb (fun x => forallb p (f x)) l.
Proof.
  induction l as [ | x l IH ]; cbn; [ reflexivity | ]. rewrite forallb_app, IH. reflexivity.
Qed.

Lemma filter_flat_map {A B} (p : B -> bool) (f : A -> list B) : forall l,
  filter p (flat_map f l) = flat_map (fun x => filter p (f x)) l.
Proof.
  induction l as [ | x l IH ]; cbn; [ reflexivity | ]. rewrite filter_app, IH. reflexivity.
Qed.

Lemma forallb_ext' {A} (f g : A -> bool) : (forall x, f x = g x) -> forall l, forallb f l = forallb g l.
Proof. intros H. induction l as [ | x l IH ]; cbn; [ reflexivity | rewrite H, IH; reflexivity ]. Qed.

Lemma forallb_map' {A B} (f : A -> B) (p : B -> bool) : forall l,
  forallb p (map f l) = forallb (fun x => p (f x)) l.
Proof. induction l as [ | x l IH ]; cbn; [ reflexivity | rewrite IH; reflexivity ]. Qed.

Lemma node_ok_pref t pre pv : node_ok t (pref pre pv) = node_ok t pv.
Proof. reflexivity. Qed.

(* the re-rooted rule is valid on d iff T's rule is valid on every node that R selects *)
Theorem C18_valid_iff : forall R P d t, value_only t = true ->
  verdict_valid (spec_verdict (walk (R ++ P) [] d) t)
  = forallb (fun cn => verdict_valid (spec_verdict (walk P [] (snd cn)) t)) (walk R [] d).
Proof.
  intros R P d t Hvo.
  rewrite (verdict_valid_spec _ _ Hvo), C18_walk_app, forallb_flat_map.
  apply forallb_ext'. intros cn.
  rewrite (verdict_valid_spec _ _ Hvo), walk_prefix, forallb_map'. reflexivity.
Qed.

(* ... and its failures are those of T's rule, summed over the nodes that R selects *)
Theorem C18_nfail_sum : forall R P d t, value_only t = true ->
  verdict_nfail (spec_verdict (walk (R ++ P) [] d) t)
  = fold_right (fun cn n => verdict_nfail (spec_verdict (walk P [] (snd cn)) t) + n) 0 (walk R [] d).
Proof.
  intros R P d t Hvo.
  rewrite (verdict_nfail_spec _ _ Hvo), C18_walk_app, filter_flat_map.
  induction (walk R [] d) as [ | cn l IH ]; [ reflexivity | ].
  cbn [flat_map fold_right]. rewrite app_length, Nat2Z.inj_add, IH. f_equal.
  rewrite (verdict_nfail_spec _ _ Hvo), walk_prefix.
  rewrite filter_map_comm, map_length. reflexivity.
Qed.

(* the re-rooted rule counts as tested iff T's rule is tested on some node that R selects *)
Theorem C18_tested : forall R P d t,
  verdict_tested (spec_verdict (walk (R ++ P) [] d) t)
  = existsb (fun cn => verdict_tested (spec_verdict (walk P [] (snd cn)) t)) (walk R [] d).
Proof.
  intros R P d t. rewrite C18_walk_app.
  induction (walk R [] d) as [ | cn l IH ]; [ reflexivity | ].
  cbn [flat_map existsb]. rewrite <- IH. rewrite (walk_prefix P (fst cn)).
  destruct (walk P [] (snd cn)) as [ | x xs ]; [ reflexivity | ].
  cbn [map app]. rewrite !spec_verdict_cons. reflexivity.
Qed.

Print Assumptions add_schema_frame.
Print Assumptions add_schema_length.
Print Assumptions add_schema_T_unchanged.
Print Assumptions add_schema_other_unchanged.
Print Assumptions add_schema_S_rules.
Print Assumptions add_schema_wf.
Print Assumptions run_adds_wf.
Print Assumptions add_history_T_unchanged.
Print Assumptions add_history_rules_frame.
Print Assumptions add_schema_rebinding_refuted.
Print Assumptions add_schema_rebinding_frame_refuted.
Print Assumptions C18_walk_app.
Print Assumptions C18_selection.
Print Assumptions sat_tree_value_only.
Print Assumptions C18_valid_iff.
Print Assumptions C18_nfail_sum.
Print Assumptions C18_tested.
