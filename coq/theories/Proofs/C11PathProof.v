(* C11 extended to conditions with DATA-PATH arguments.
   C11Proof / C11EscProof prove the JSON-like round trip of conditions whose arguments are literals.  Here the arguments
   may also be data paths (RuleDefs.arg1: APath), e.g. Value.equal_to(DataPath("a", 0)), written by the serialiser
   (SpecIO.arg1_to_json) as the path's spec {"path[.multi][.dtype]": [part specs]} and rebuilt by from_spec through
   DataPath.from_spec (Spec.path_from_spec).  The round trip of the paths themselves is C12's (C12Proof.C12_spec_form);
   it enters through the hypothesis [path_good], discharged for the C12 fragment by [c12_path_good].

   Representation: a typed tree (DocSem.qtree) in which an argument position holding the placeholder object [VObj n]
   stands for the n-th path of a list; [sub pts] turns the placeholders into APath arguments, so the condition is
   cond_map (sub pts) (cond_of (qnorm t)) -- and that IS the condition the API builds (C11P_cond_is_built).
   The condition read back holds the path TERMS read back from the specs ([backs pts]); they build the same path objects,
   so it is == to the original, and it serialises to exactly the same data.

   Main theorems: C11P_roundtrip (fragment tree_in_c11p), C11P_roundtrip_eq (data spelled out), C11P_roundtrip_modular
   (any paths satisfying path_good), C11P_leaf_roundtrip, C11P_includes_c11e, C11P_cond_is_built.
   Counterexample (a defect of the library, replayed on the Python source): C11P_counterexample_dtype_path. *)
From Coq Require Import ZArith NArith List Bool String Ascii Lia.
From Valida Require Import Py Lang Defs Cond Dsl Check DocSem Path PathSpec Cast Str SpecDefs RuleDefs RuleTerms
  Spec SpecIO SpecSpell Eq Inst RunSpec Rule.
From Valida.Proofs Require Import PyFacts Tie C01Proof C02Proof RuleProof C09Proof C11Proof C11EscProof C12Proof.
From Valida Require Import Rule SpecSpell.
Import ListNotations.
Local Open Scope string_scope.
Local Open Scope list_scope.

(* ================================================================== *)
(* 1. building a leaf depends on the literal embedding only through the defaults *)

Definition default_plain (pd : string * option pyval) : bool :=
  match snd pd with Some (VObj _) => false | _ => true end.

Section LitExt.
  Variable A : Type.
  Variables lit lit' : pyval -> A.
  Hypothesis Hlit : forall d, (match d with VObj _ => false | _ => true end) = true -> lit d = lit' d.

  Lemma fill_defaults_ext : forall missing e,
    forallb default_plain missing = true -> fill_defaults A lit missing e = fill_defaults A lit' missing e.
  Proof.
    induction missing as [|[p [d|]] r IH]; intros e H; cbn [fill_defaults]; try reflexivity.
    cbn [forallb] in H. apply andb_true_iff in H as [Hd Hr]. unfold default_plain in Hd. cbn [snd] in Hd.
    rewrite (Hlit d) by (destruct d; try reflexivity; discriminate Hd). exact (IH _ Hr).
  Qed.

  Lemma cbind_pos_rest_plain : forall params pos,
    forallb default_plain params = true ->
    forallb default_plain (snd (fst (cbind_pos A params pos))) = true.
  Proof.
    induction params as [|[p d] ps IH]; intros pos H; cbn [cbind_pos]; [reflexivity|].
    destruct pos as [|v vs]; [exact H|].
    cbn [forallb] in H. apply andb_true_iff in H as [_ Hr]. specialize (IH vs Hr).
    destruct (cbind_pos A ps vs) as [[e rest] extra]. exact IH.
  Qed.

  Lemma forallb_filter {Y} (p g : Y -> bool) l : forallb p l = true -> forallb p (filter g l) = true.
  Proof.
    induction l as [|x l IH]; cbn [forallb filter]; [reflexivity|].
    intros H. apply andb_true_iff in H as [Hx Hl]. destruct (g x); cbn [forallb]; [rewrite Hx|]; exact (IH Hl).
  Qed.

  Lemma cbind_kw_missing_plain params hk : forall kw missing e extra r,
    forallb default_plain missing = true ->
    cbind_kw A params missing hk kw e extra = Ok r -> forallb default_plain (snd (fst r)) = true.
  Proof.
    induction kw as [|[k v] kw IH]; intros missing e extra r Hm; cbn [cbind_kw].
    - intros [= <-]. exact Hm.
    - destruct (existsb (fun m => String.eqb k (fst m)) missing).
      + apply IH. apply forallb_filter. exact Hm.
      + destruct (existsb (String.eqb k) params); [discriminate|].
        destruct hk; [|discriminate]. apply IH. exact Hm.
  Qed.

  Lemma apply_ctor_ext c pos kw :
    forallb default_plain (c_params c) = true -> apply_ctor lit c pos kw = apply_ctor lit' c pos kw.
  Proof.
    intros Hc. rewrite !apply_ctor_unfold.
    pose proof (cbind_pos_rest_plain (c_params c) pos Hc) as Hrest.
    destruct (cbind_pos A (c_params c) pos) as [[e0 missing] xp]. cbn [fst snd] in Hrest.
    destruct (match c_vararg c with Some _ => Ok tt | None => match xp with [] => Ok tt | _ :: _ => Err TypeError end end);
      cbn [bind]; [|reflexivity].
    destruct (cbind_kw A (map fst (c_params c)) missing _ kw e0 []) as [[[e1 missing'] xk]|err] eqn:Ek; cbn [bind]; [|reflexivity].
    pose proof (cbind_kw_missing_plain _ _ _ _ _ _ _ Hrest Ek) as Hm'. cbn [fst snd] in Hm'.
    rewrite (fill_defaults_ext missing' e1 Hm'). reflexivity.
  Qed.
End LitExt.

Lemma find_ctor_in_In l name c : find_ctor_in l name = Some c -> In c l.
Proof.
  induction l as [|x l IH]; cbn [find_ctor_in]; [discriminate|].
  destruct (String.eqb (c_name x) name); [intros [= <-]; left; reflexivity|intros H; right; exact (IH H)].
Qed.

Lemma find_ctor_In k name c : find_ctor T k name = Some c -> In c (t_general T ++ t_map T).
Proof.
  unfold find_ctor. intros H. apply in_or_app.
  destruct (if k_general k then find_ctor_in (t_general T) (alias_of (t_aliases T) name) else None) as [c'|] eqn:E.
  - injection H as <-. left. destruct (k_general k); [|discriminate E]. exact (find_ctor_in_In _ _ _ E).
  - right. destruct (k_map k); [|discriminate H]. exact (find_ctor_in_In _ _ _ H).
Qed.

(* closed fact about the tables: no constructor has an object as a default *)
Lemma ctor_defaults_plain : forallb (fun c => forallb default_plain (c_params c)) (t_general T ++ t_map T) = true.
Proof. vm_compute. reflexivity. Qed.

Lemma build_leaf_ext A (lit lit' : pyval -> A) cls m pos kw :
  (forall d, (match d with VObj _ => false | _ => true end) = true -> lit d = lit' d) ->
  build_leaf T lit cls m pos kw = build_leaf T lit' cls m pos kw.
Proof.
  intros Hlit. unfold build_leaf.
  destruct (find_class (t_classes T) cls) as [k|]; [|reflexivity].
  destruct (find_ctor T k m) as [c|] eqn:Ec; [|reflexivity].
  rewrite (apply_ctor_ext A lit lit' Hlit c pos kw); [reflexivity|].
  pose proof ctor_defaults_plain as H. rewrite forallb_forall in H. exact (H c (find_ctor_In k m c Ec)).
Qed.

(* ================================================================== *)
(* 2. path arguments: placeholders, what is written for them, what is read back *)

(* An argument position holding the placeholder object [VObj n] stands for the n-th data path of a list. *)
Definition is_ph (v : pyval) : bool := match v with VObj _ => true | _ => false end.

Definition sub (pts : list (pathterm pyval)) (v : pyval) : arg1 :=
  match v with
  | VObj n => match nth_error pts (N.to_nat n) with Some t => APath 0%N t | None => ALit v end
  | _ => ALit v
  end.

Notation lmapS pts := (leaf_map pyval arg1 (sub pts)).
Notation cmapS pts := (cond_map pyval arg1 (sub pts)).
Notation kmapS pts := (kmap pyval arg1 (sub pts)).

Lemma sub_lit pts v : is_ph v = false -> sub pts v = ALit v.
Proof. destruct v; try reflexivity. discriminate. Qed.

Lemma map_sub_lit pts l : existsb is_ph l = false -> map (sub pts) l = map ALit l.
Proof.
  induction l as [|v l IH]; cbn [existsb map]; [reflexivity|].
  intros H. apply orb_false_iff in H as [Hv Hl]. rewrite (sub_lit pts v Hv), (IH Hl). reflexivity.
Qed.

Lemma kmap_sub_lit pts (kw : list (string * pyval)) : existsb is_ph (map snd kw) = false -> kmapS pts kw = kmapL kw.
Proof.
  unfold kmap. induction kw as [|[k v] kw IH]; cbn [existsb map snd]; [reflexivity|].
  intros H. apply orb_false_iff in H as [Hv Hl]. rewrite (sub_lit pts v Hv), (IH Hl). reflexivity.
Qed.

Lemma lmap_sub_lit pts (l : leaf pyval) : existsb is_ph (leaf_vals l) = false -> lmapS pts l = lmapL l.
Proof.
  unfold leaf_vals. rewrite existsb_app. intros H. apply orb_false_iff in H as [Ha Hk].
  unfold leaf_map. rewrite (map_sub_lit pts _ Ha), (kmap_sub_lit pts _ Hk). reflexivity.
Qed.

(* the spec a path is written as, and the path term read back from it *)
Definition path_json (t : pathterm pyval) : pyval :=
  match (let* p := mk_path T idlit t in path_to_spec T X p) with Ok j => j | Err _ => VNone end.
Definition path_back (t : pathterm pyval) : pathterm pyval :=
  match pfs (path_json t) with Ok (inl t') => t' | _ => t end.

(* the hypothesis on a data path under which the condition round trip is proved (C12 provides it, see
   c12_path_good below): to_spec writes JSON data that from_spec reads back as a term building the SAME
   path object, and the path is == to itself *)
Definition path_good (t : pathterm pyval) : Prop :=
  exists p d, mk_path T idlit t = Ok p /\ path_to_spec T X p = Ok (VDict d) /\ path_json t = VDict d /\
    json_pure (VDict d) = true /\ pfs (VDict d) = Ok (inl (path_back t)) /\
    mk_path T idlit (path_back t) = Ok p /\ path_eqb p p = true.

Lemma path_to_spec_dict p j : path_to_spec T X p = Ok j -> exists d, j = VDict d.
Proof.
  unfold path_to_spec. destruct (path_part_specs_inner T X p) as [parts|e]; cbn [bind]; [|discriminate].
  intros [= <-]. eexists. reflexivity.
Qed.

(* the computable test put in the fragment *)
Definition path_self_eq (t : pathterm pyval) : bool :=
  match mk_path T idlit t with Ok p => path_eqb p p | Err _ => false end.

Lemma c12_path_good st :
  path_in_c12 st = true -> st_src st = None -> path_self_eq (spathterm_term st) = true ->
  path_good (spathterm_term st).
Proof.
  intros Hin Hs He. unfold path_self_eq in He.
  destruct (mk_path T idlit (spathterm_term st)) as [p|e] eqn:Hp; [|discriminate He].
  destruct (C12_spec_form st p Hin Hs Hp) as [specs [Hj [Hpure [t' [Hf Hm]]]]].
  assert (Hpj : path_json (spathterm_term st) = VDict [(VStr (spec_key (p_dt p) (p_mt p)), VList specs)]).
  { unfold path_json. rewrite Hp. cbn [bind]. rewrite Hj. reflexivity. }
  assert (Hb : path_back (spathterm_term st) = t').
  { unfold path_back. rewrite Hpj, Hf. reflexivity. }
  exists p, [(VStr (spec_key (p_dt p) (p_mt p)), VList specs)].
  rewrite Hb. repeat split; assumption.
Qed.

Lemma a2j_path cast t : path_good t -> a2j cast (APath 0%N t) = Ok (path_json t).
Proof.
  intros [p [d [Hp [Hj [Hpj _]]]]]. cbn [arg1_to_json]. change Spec.id0 with idlit.
  rewrite Hp. cbn [bind]. rewrite Hj, Hpj. reflexivity.
Qed.

Lemma a2j_path_back cast t : path_good t -> a2j cast (APath 0%N (path_back t)) = Ok (path_json t).
Proof.
  intros [p [d [Hp [Hj [Hpj [_ [_ [Hb _]]]]]]]]. cbn [arg1_to_json]. change Spec.id0 with idlit.
  rewrite Hb. cbn [bind]. rewrite Hj, Hpj. reflexivity.
Qed.

Lemma a2i_path cast t : a2i cast (APath 0%N t) = a2j cast (APath 0%N t).
Proof. reflexivity. Qed.

Lemma arg1_eqb_back t : path_good t -> arg1_eqb T (APath 0%N (path_back t)) (APath 0%N t) = true.
Proof.
  intros [p [d [Hp [_ [_ [_ [_ [Hb He]]]]]]]]. cbn [arg1_eqb].
  change (mk_path T (fun v => v) (path_back t)) with (mk_path T idlit (path_back t)).
  change (mk_path T (fun v => v) t) with (mk_path T idlit t). rewrite Hb, Hp. exact He.
Qed.

Lemma pfs_path t : path_good t -> pfs (path_json t) = Ok (inl (path_back t)).
Proof. intros [p [d [_ [_ [Hpj [_ [Hf _]]]]]]]. rewrite Hpj. exact Hf. Qed.

Lemma path_json_pure t : path_good t -> json_pure (path_json t) = true.
Proof. intros [p [d [_ [_ [Hpj [H _]]]]]]. rewrite Hpj. exact H. Qed.

Lemma coerce_path t : path_good t -> coerce pfs (path_json t) = Ok (CPath (path_back t)).
Proof.
  intros H. pose proof (pfs_path t H) as Hf. destruct H as [p [d [_ [_ [Hpj _]]]]].
  rewrite Hpj in *. unfold coerce. rewrite Hf. reflexivity.
Qed.

Lemma try_path_path t : path_good t -> try_path pfs (path_json t) = Ok (inl (path_back t)).
Proof. intros H. unfold try_path. rewrite (pfs_path t H). reflexivity. Qed.

(* ================================================================== *)
(* 3. the serialiser on leaves with path arguments                      *)

(* what is written for an argument, at argument level and at item level alike *)
Definition wj (pts : list (pathterm pyval)) (v : pyval) : pyval :=
  match v with
  | VObj n => match nth_error pts (N.to_nat n) with Some t => path_json t | None => v end
  | _ => wr_item v          (* a literal mapping is escaped if a key contains "path": C11EscProof *)
  end.

(* an argument of a leaf with path arguments: a placeholder of one of the [n] paths, or -- next to a path, i.e. as one of
   several arguments, written at item level -- a well-formed JSON literal; if it is a mapping, one that is escaped (some
   key contains "path") or that from_spec takes literally (C11Proof.okkeys); lists are unrestricted (C11EscProof.item3) *)
Definition parg_ok (n : nat) (v : pyval) : bool :=
  match v with
  | VObj k => (N.to_nat k <? n)%nat
  | _ => json_pure v && item3 v && wf_val v
  end.

Definition backs (pts : list (pathterm pyval)) : list (pathterm pyval) := map path_back pts.

Lemma parg_cases pts v : Forall path_good pts -> parg_ok (List.length pts) v = true ->
  (is_ph v = false /\ sub pts v = ALit v /\ sub (backs pts) v = ALit v /\ wj pts v = wr_item v /\
   json_pure v = true /\ item3 v = true /\ wf_val v = true) \/
  (exists t, path_good t /\ sub pts v = APath 0%N t /\ wj pts v = path_json t /\
             sub (backs pts) v = APath 0%N (path_back t)).
Proof.
  intros Hg H. destruct v as [| | | | | | | | |k];
    try (left; cbn [parg_ok] in H; apply andb_true_iff in H as [H H3]; apply andb_true_iff in H as [H1 H2];
         repeat split; (reflexivity || assumption)).
  right. cbn [parg_ok] in H. apply Nat.ltb_lt in H.
  destruct (nth_error pts (N.to_nat k)) as [t|] eqn:E; [|apply nth_error_None in E; lia].
  exists t. split; [|split; [|split]].
  - rewrite Forall_forall in Hg. exact (Hg t (nth_error_In _ _ E)).
  - cbn [sub]. rewrite E. reflexivity.
  - cbn [wj]. rewrite E. reflexivity.
  - cbn [sub]. unfold backs. rewrite (map_nth_error path_back _ _ E). reflexivity.
Qed.

Lemma a2j_sub pts v : Forall path_good pts -> is_ph v = true -> parg_ok (List.length pts) v = true ->
  a2j false (sub pts v) = Ok (wj pts v) /\ a2j false (sub (backs pts) v) = Ok (wj pts v).
Proof.
  intros Hg Hph H. destruct (parg_cases pts v Hg H) as [[Hn _]|[t [Ht [-> [-> ->]]]]].
  - rewrite Hph in Hn. discriminate Hn.
  - split; [exact (a2j_path false t Ht)|exact (a2j_path_back false t Ht)].
Qed.

Lemma a2i_sub pts v : Forall path_good pts -> parg_ok (List.length pts) v = true ->
  a2i false (sub pts v) = Ok (wj pts v) /\ a2i false (sub (backs pts) v) = Ok (wj pts v).
Proof.
  intros Hg H. destruct (parg_cases pts v Hg H) as [[_ [-> [-> [-> [Hj _]]]]]|[t [Ht [-> [-> ->]]]]].
  - rewrite a2i_lit, (item_to_json_wr v Hj). split; reflexivity.
  - rewrite !a2i_path. split; [exact (a2j_path false t Ht)|exact (a2j_path_back false t Ht)].
Qed.

Lemma json_pure_wj pts v : Forall path_good pts -> parg_ok (List.length pts) v = true -> json_pure (wj pts v) = true.
Proof.
  intros Hg H. destruct (parg_cases pts v Hg H) as [[_ [_ [_ [-> [Hj _]]]]]|[t [Ht [_ [-> _]]]]];
    [exact (json_pure_wr_item v Hj)|exact (path_json_pure t Ht)].
Qed.

(* the two substitutions used below: the paths as given, and the paths as read back *)
Definition is_sub (pts : list (pathterm pyval)) (s : pyval -> arg1) : Prop := s = sub pts \/ s = sub (backs pts).

Lemma a2j_s pts s v : is_sub pts s -> Forall path_good pts -> is_ph v && parg_ok (List.length pts) v = true ->
  a2j false (s v) = Ok (wj pts v).
Proof. intros Hs Hg H. apply andb_true_iff in H as [Hph H]. destruct Hs as [->| ->]; apply (a2j_sub pts v Hg Hph H). Qed.
Lemma a2i_s pts s v : is_sub pts s -> Forall path_good pts -> parg_ok (List.length pts) v = true ->
  a2i false (s v) = Ok (wj pts v).
Proof. intros [->| ->] Hg H; apply (a2i_sub pts v Hg H). Qed.

Lemma mapM_a2i_s pts s l : is_sub pts s -> Forall path_good pts -> forallb (parg_ok (List.length pts)) l = true ->
  mapM (a2i false) (map s l) = Ok (map (wj pts) l).
Proof.
  intros Hs Hg. induction l as [|v l IH]; cbn [forallb mapM map]; [reflexivity|].
  intros H. apply andb_true_iff in H as [Hv Hl]. rewrite (a2i_s pts s v Hs Hg Hv). cbn [bind].
  rewrite (IH Hl). reflexivity.
Qed.

Lemma kws_item_s pts s items : is_sub pts s -> Forall path_good pts ->
  forallb (parg_ok (List.length pts)) (map snd items) = true ->
  kws_item false (kmap pyval arg1 s items) = Ok (map skv (kw_map (wj pts) items)).
Proof.
  intros Hs Hg. induction items as [|[k v] r IH]; cbn [map snd forallb]; intros H; [reflexivity|].
  apply andb_true_iff in H as [Hv Hr].
  unfold kmap, kw_map. cbn [map fst snd kws_item]. fold (kws_item false). fold (kmap pyval arg1 s r). fold (kw_map (wj pts) r).
  rewrite (a2i_s pts s v Hs Hg Hv). cbn [bind]. rewrite (IH Hr). reflexivity.
Qed.

Lemma kws_have_path_map (f : pyval -> arg1) items :
  kws_have_path (kmap pyval arg1 f items) = existsb (fun kv => str_contains "path" (fst kv)) items.
Proof.
  unfold kws_have_path, kmap. induction items as [|[k v] r IH]; cbn [map existsb fst]; [reflexivity|].
  rewrite IH. reflexivity.
Qed.

Section ArgsJson.
  Variable pts : list (pathterm pyval).
  Variable s : pyval -> arg1.
  Hypothesis Hs : is_sub pts s.
  Hypothesis Hg : Forall path_good pts.
  Notation n := (List.length pts).

  Lemma args_json_one_p l v rest :
    l_args l ++ map snd (l_kwargs l) = s v :: rest -> is_ph v && parg_ok n v = true ->
    args_json (1, false, false)%nat false l = Ok (wj pts v).
  Proof.
    intros Hl Hv. unfold args_json. cbn [Nat.eqb negb andb]. rewrite Hl. exact (a2j_s pts s v Hs Hg Hv).
  Qed.

  Lemma args_json_kw_p sh l items :
    (sh = (2, false, false) \/ (sh = (0, false, true) /\ items_nopath items = true))%nat ->
    l_kwargs l = kmap pyval arg1 s items ->
    forallb (parg_ok n) (map snd items) = true ->
    args_json sh false l = Ok (kwd (kw_map (wj pts) items)).
  Proof.
    intros Hsh Hl Hv. unfold kwd. change (fun kv : string * pyval => (VStr (fst kv), snd kv)) with skv.
    destruct Hsh as [-> | [-> Hn]]; unfold args_json; cbn [Nat.eqb Nat.ltb Nat.leb negb andb orb]; rewrite Hl.
    - rewrite (kws_item_s pts s items Hs Hg Hv). reflexivity.
    - unfold items_nopath in Hn. apply negb_true_iff in Hn.
      rewrite kws_have_path_map, Hn, (kws_item_s pts s items Hs Hg Hv). reflexivity.
  Qed.

  Lemma args_json_star_p l vs :
    l_args l = map s vs -> forallb (parg_ok n) vs = true ->
    args_json (0, true, false)%nat false l = Ok (VList (map (wj pts) vs)).
  Proof.
    intros Hl Hv. unfold args_json. cbn [Nat.eqb Nat.ltb Nat.leb negb andb orb].
    rewrite Hl, (mapM_a2i_s pts s vs Hs Hg Hv). reflexivity.
  Qed.

  Definition form_ok_p (f : form) : bool :=
    match f with
    | FZero => true
    | FOne v => is_ph v && parg_ok n v       (* the only argument: the path *)
    | FKw items => forallb (parg_ok n) (map snd items)
    | FStar l => forallb (parg_ok n) l
    end.

  Definition form_json_p (f : form) : pyval :=
    match f with
    | FZero => VNone
    | FOne v => wj pts v
    | FKw items => kwd (kw_map (wj pts) items)
    | FStar l => VList (map (wj pts) l)
    end.

  Lemma args_json_form_p c q : q_items_nopath q = true ->
    form_ok_p (q_form q) = true ->
    args_json (q_shape q) false (leaf_map pyval arg1 s (expected_leaf c q)) = Ok (form_json_p (q_form q)).
  Proof.
    intros Hn H.
    destruct q; cbn [q_form form_ok_p form_json_p q_shape] in *;
      first [ apply args_json_zero
            | eapply args_json_one_p; [reflexivity|]; exact H
            | apply args_json_kw_p;
                [first [left; reflexivity|right; split; [reflexivity|exact Hn]]|reflexivity|exact H]
            | apply args_json_star_p; [reflexivity|exact H] ].
  Qed.

  Lemma leaf_to_json_f (f : pyval -> arg1) c q :
    l2j (leaf_map pyval arg1 f (expected_leaf c q)) =
    let* v := args_json (q_shape q) (casts c q) (leaf_map pyval arg1 f (expected_leaf c q)) in
    Ok (VDict [(VStr (leaf_key c q), v)]).
  Proof.
    rewrite (leaf_to_json_eq _ (scls_class c) (q_def q)).
    - cbv zeta. cbn [leaf_map l_call]. rewrite expected_call, scls_class_label, q_def_shape.
      fold (leaf_key c q). rewrite key_casts_leaf. reflexivity.
    - unfold is_null_leaf. cbn [leaf_map l_cls]. rewrite expected_cls. destruct c; reflexivity.
    - cbn [leaf_map l_cls]. rewrite expected_cls. apply find_scls_class.
    - cbn [leaf_map l_call]. rewrite expected_call. apply find_q_def.
  Qed.

  Definition leaf_json_p (c : scls) (q : dsl) : pyval := VDict [(VStr (leaf_key c q), form_json_p (q_form q))].

  Lemma leaf_to_json_p c q : casts c q = false -> q_items_nopath q = true -> form_ok_p (q_form q) = true ->
    l2j (leaf_map pyval arg1 s (expected_leaf c q)) = Ok (leaf_json_p c q).
  Proof.
    intros Hc Hn H. rewrite leaf_to_json_f, Hc, (args_json_form_p c q Hn H). reflexivity.
  Qed.

  Lemma json_pure_map_wj l : forallb (parg_ok n) l = true -> forallb json_pure (map (wj pts) l) = true.
  Proof.
    induction l as [|v l IH]; cbn [forallb map]; [reflexivity|].
    intros H. apply andb_true_iff in H as [Hv Hl]. rewrite (json_pure_wj pts v Hg Hv). exact (IH Hl).
  Qed.

  Lemma leaf_json_p_pure c q : form_ok_p (q_form q) = true -> json_pure (leaf_json_p c q) = true.
  Proof.
    intros H. unfold leaf_json_p. rewrite json_pure_single.
    destruct (q_form q) as [|v|items|l]; cbn [form_ok_p form_json_p] in *.
    - reflexivity.
    - apply andb_true_iff in H as [_ H]. exact (json_pure_wj pts v Hg H).
    - rewrite json_pure_kwd. unfold kw_map. rewrite map_map. cbn [snd]. rewrite <- (map_map snd (wj pts)).
      exact (json_pure_map_wj _ H).
    - rewrite json_pure_list. exact (json_pure_map_wj _ H).
  Qed.
End ArgsJson.

(* ================================================================== *)
(* 4. the parser on what was written                                    *)

(* how from_spec reads a written item: a path spec as the path read back, anything else literally *)
Definition xitem (pts : list (pathterm pyval)) (v : pyval) : pathterm pyval + pyval :=
  match v with
  | VObj k => match nth_error pts (N.to_nat k) with Some t => inl (path_back t) | None => inr v end
  | _ => inr v
  end.

Lemma item_arg_x pts v : item_arg arg1 ALit (APath 0%N) (xitem pts v) = sub (backs pts) v.
Proof.
  destruct v as [| | | | | | | | |k]; try reflexivity. cbn [xitem sub]. unfold backs.
  destruct (nth_error pts (N.to_nat k)) as [t0|] eqn:E.
  - rewrite (map_nth_error path_back _ _ E). reflexivity.
  - assert (E' : nth_error (map path_back pts) (N.to_nat k) = None).
    { apply nth_error_None. rewrite map_length. apply nth_error_None. exact E. }
    rewrite E'. reflexivity.
Qed.

Lemma sub_plain_default pts d : (match d with VObj _ => false | _ => true end) = true -> ALit d = sub pts d.
Proof. destruct d; try reflexivity. discriminate. Qed.

Lemma tail_ok_p pts' c q v2 cv pos0 kw0 :
  class_ok c q = true ->
  coerce pfs v2 = Ok cv ->
  dispatch_by (q_shape q) cv = Ok (map (sub pts') pos0, kmapS pts' kw0) ->
  build_leaf T idlit (scls_name c) (q_method q) pos0 kw0 = Ok (expected_leaf c q) ->
  leaf_tail (scls_class c) (q_method q) (q_ctor c q) v2 =
  Ok (DLeaf (scls_name c) (q_method q) (map (sub pts') pos0) (kmapS pts' kw0), CLeaf (lmapS pts' (expected_leaf c q))).
Proof.
  intros Hcls Hc Hd Hb. unfold leaf_tail. rewrite Hc. cbn [bind].
  rewrite dispatch_shape, (q_ctor_shape c q Hcls), Hd. cbn [bind].
  rewrite scls_class_name.
  rewrite (build_leaf_ext arg1 ALit (sub pts') _ _ _ _ (sub_plain_default pts')).
  rewrite (build_leaf_map pyval arg1 (sub pts') idlit (sub pts') (fun v => eq_refl) T (scls_name c) (q_method q) pos0 kw0).
  rewrite Hb. reflexivity.
Qed.

Section Parse.
  Variable pts : list (pathterm pyval).
  Hypothesis Hg : Forall path_good pts.
  Notation n := (List.length pts).
  Notation s' := (sub (backs pts)).

  Lemma try_path_wj v : parg_ok n v = true -> try_path pfs (wj pts v) = Ok (xitem pts v).
  Proof.
    intros H. destruct (parg_cases pts v Hg H) as [[Hph [_ [_ [-> [_ [Hi Hw]]]]]]|[t [Ht [Hsub [-> _]]]]].
    - rewrite (try_path_wr_item v Hi Hw). destruct v; try reflexivity. discriminate Hph.
    - rewrite (try_path_path t Ht). destruct v as [| | | | | | | | |k]; try discriminate Hsub. cbn [sub xitem] in *.
      destruct (nth_error pts (N.to_nat k)); [|discriminate Hsub]. injection Hsub as ->. reflexivity.
  Qed.

  Lemma coerce_items_wj l : forallb (parg_ok n) l = true -> coerce_items pfs (map (wj pts) l) = Ok (map (xitem pts) l).
  Proof.
    induction l as [|v l IH]; cbn [forallb coerce_items map]; [reflexivity|].
    intros H. apply andb_true_iff in H as [Hv Hl]. rewrite (try_path_wj v Hv). cbn [bind]. rewrite (IH Hl). reflexivity.
  Qed.

  Definition xkv (kv : string * pyval) : pyval * (pathterm pyval + pyval) := (VStr (fst kv), xitem pts (snd kv)).

  Lemma coerce_kvs_wj items : forallb (parg_ok n) (map snd items) = true ->
    coerce_kvs pfs (map skv (kw_map (wj pts) items)) = Ok (map xkv items).
  Proof.
    unfold kw_map. induction items as [|[k v] r IH]; cbn [map snd forallb]; intros H; [reflexivity|].
    apply andb_true_iff in H as [Hv Hr].
    cbn [skv fst snd coerce_kvs]. rewrite (try_path_wj v Hv). cbn [bind]. rewrite (IH Hr). reflexivity.
  Qed.

  Lemma kw_of_x items : kw_of arg1 ALit (APath 0%N) (map xkv items) = Ok (kmap pyval arg1 s' items).
  Proof.
    induction items as [|[k v] r IH]; cbn [map kw_of xkv fst snd]; [reflexivity|].
    fold xkv. rewrite IH. cbn [bind]. rewrite item_arg_x. reflexivity.
  Qed.

  Lemma coerce_kwd_wj items : items_ok items = true -> forallb (parg_ok n) (map snd items) = true ->
    coerce pfs (kwd (kw_map (wj pts) items)) = Ok (CDict (map xkv items)).
  Proof.
    intros Hok Hv. unfold kwd. change (fun kv : string * pyval => (VStr (fst kv), snd kv)) with skv.
    unfold coerce. rewrite pfs_kwd by (rewrite items_ok_kw_map; exact Hok).
    rewrite (coerce_kvs_wj items Hv). reflexivity.
  Qed.

  Lemma coerce_list_wj l : forallb (parg_ok n) l = true -> coerce pfs (VList (map (wj pts) l)) = Ok (CSeq false (map (xitem pts) l)).
  Proof. intros H. cbn [coerce]. rewrite (coerce_items_wj l H). reflexivity. Qed.

  Lemma coerce_one_wj v : is_ph v && parg_ok n v = true -> exists cv, coerce pfs (wj pts v) = Ok cv /\ cval cv = s' v.
  Proof.
    intros H. apply andb_true_iff in H as [Hph H].
    destruct (parg_cases pts v Hg H) as [[Hn _]|[t [Ht [_ [-> ->]]]]].
    - rewrite Hph in Hn. discriminate Hn.
    - exists (CPath (path_back t)). split; [exact (coerce_path t Ht)|reflexivity].
  Qed.

  (* ---- the value-dependent part of parse_leaf ---- *)

  Notation result c q := (CLeaf (leaf_map pyval arg1 s' (expected_leaf c q))).

  Lemma tail_one_p c q v :
    class_ok c q = true -> q_shape q = (1, false, false)%nat -> q_call q = (q_method q, [v], []) ->
    is_ph v && parg_ok n v = true ->
    exists t, leaf_tail (scls_class c) (q_method q) (q_ctor c q) (wj pts v) = Ok (t, result c q).
  Proof.
    intros Hcls Hs Hq Hpl. destruct (coerce_one_wj v Hpl) as [cv [Hc Hv]]. eexists.
    apply (tail_ok_p (backs pts) c q (wj pts v) cv [v] [] Hcls Hc).
    - rewrite Hs. cbn [dispatch_by Nat.eqb negb andb]. rewrite Hv. reflexivity.
    - pose proof (tie_build c q Hcls) as Hb. unfold built in Hb. rewrite Hq in Hb. exact Hb.
  Qed.

  Lemma tail_zero_p c q :
    class_ok c q = true -> q_shape q = (0, false, false)%nat -> q_call q = (q_method q, [], []) ->
    exists t, leaf_tail (scls_class c) (q_method q) (q_ctor c q) VNone = Ok (t, result c q).
  Proof.
    intros Hcls Hs Hq. eexists.
    apply (tail_ok_p (backs pts) c q VNone (CVal VNone) [] [] Hcls eq_refl).
    - rewrite Hs. reflexivity.
    - pose proof (tie_build c q Hcls) as Hb. unfold built in Hb. rewrite Hq in Hb. exact Hb.
  Qed.

  Lemma tail_star_p c q l :
    class_ok c q = true -> q_shape q = (0, true, false)%nat -> q_call q = (q_method q, l, []) ->
    forallb (parg_ok n) l = true ->
    exists t, leaf_tail (scls_class c) (q_method q) (q_ctor c q) (VList (map (wj pts) l)) = Ok (t, result c q).
  Proof.
    intros Hcls Hs Hq Hpl. eexists.
    apply (tail_ok_p (backs pts) c q _ _ l [] Hcls (coerce_list_wj l Hpl)).
    - rewrite Hs. cbn [dispatch_by Nat.eqb negb andb]. rewrite map_map.
      rewrite (map_ext _ _ (item_arg_x pts)). reflexivity.
    - pose proof (tie_build c q Hcls) as Hb. unfold built in Hb. rewrite Hq in Hb. exact Hb.
  Qed.

  Lemma tail_kw_p c q items :
    class_ok c q = true -> (q_shape q = (2, false, false) \/ q_shape q = (0, false, true))%nat ->
    build_leaf T idlit (scls_name c) (q_method q) [] items = Ok (expected_leaf c q) ->
    items_ok items = true -> forallb (parg_ok n) (map snd items) = true ->
    exists t, leaf_tail (scls_class c) (q_method q) (q_ctor c q) (kwd (kw_map (wj pts) items)) = Ok (t, result c q).
  Proof.
    intros Hcls Hs Hb Hok Hpl. eexists.
    apply (tail_ok_p (backs pts) c q _ _ [] items Hcls (coerce_kwd_wj items Hok Hpl)); [|exact Hb].
    destruct Hs as [Hs|Hs]; rewrite Hs; cbn [dispatch_by Nat.eqb Nat.ltb Nat.leb negb andb];
      rewrite kw_of_x; reflexivity.
  Qed.

  Lemma leaf_tail_p c q :
    class_ok c q = true -> form_ok_p pts (q_form q) = true -> q_items_ok q = true ->
    exists t, leaf_tail (scls_class c) (q_method q) (q_ctor c q) (form_json_p pts (q_form q)) = Ok (t, result c q).
  Proof.
    intros Hcls Hpl Hit.
    assert (Hkw : forall r, built_kw c q = Some r -> r = Ok (expected_leaf c q))
      by (intros r; apply tie_build_kw; exact Hcls).
    destruct q; cbn [q_form form_ok_p form_json_p] in *.
    (* one named parameter *)
    1-8,12-13,18,25-26: apply tail_one_p; [exact Hcls|reflexivity|reflexivity|exact Hpl].
    (* two named parameters: the spec is a keyword mapping *)
    1-3,10-12: (apply tail_kw_p; [exact Hcls|left; reflexivity|exact (Hkw _ eq_refl)|reflexivity|exact Hpl]).
    (* no parameter *)
    1-3: apply tail_zero_p; [exact Hcls|reflexivity|reflexivity].
    (* *args *)
    1-6,8-10: apply tail_star_p; [exact Hcls|reflexivity|reflexivity|exact Hpl].
    (* **items *)
    apply tail_kw_p; [exact Hcls|right; reflexivity| |exact Hit|exact Hpl].
    pose proof (tie_build c (Q_items_contain items) Hcls) as Hb. exact Hb.
  Qed.
End Parse.

(* ================================================================== *)
(* 5. leaves: parse, equality, the fragment                             *)

Lemma leaf_json_p_parse pts c q f : Forall path_good pts ->
  class_ok c q = true -> casts c q = false -> form_ok_p pts (q_form q) = true -> q_items_ok q = true ->
  exists t, self1 (S f) (leaf_json_p pts c q) = Ok (t, CLeaf (lmapS (backs pts) (expected_leaf c q))).
Proof.
  intros Hg Hcls Hc Hf Hit. destruct (casts_false c q Hc) as [Ht Hi].
  unfold leaf_json_p.
  rewrite self1_S, (step1_leaf _ _ _ (leaf_key_not_binop c q)), parse_leaf_head, (head_leaf c q Hcls).
  cbn [run_head]. rewrite Ht, Hi. cbn [conv bind].
  exact (leaf_tail_p pts Hg c q Hcls Hf Hit).
Qed.

(* ---- `==` between the leaf read back and the leaf written ---- *)

Section EqMap.
  Variables (A B : Type) (aeq : B -> B -> bool) (f g : A -> B).

  Lemma list_eqb_map2 (l : list A) :
    (forall x, In x l -> aeq (f x) (g x) = true) -> list_eqb aeq (map f l) (map g l) = true.
  Proof.
    induction l as [|x l IH]; intros H; [reflexivity|].
    cbn [map list_eqb]. rewrite (H x (or_introl eq_refl)). cbn [andb]. apply IH. intros y Hy. apply H. right. exact Hy.
  Qed.

  Lemma kw_look_kmap (l : list (string * A)) k v :
    NoDup (map fst l) -> In (k, v) l -> kw_look B k (kmap A B g l) = Some (g v).
  Proof.
    induction l as [|[k2 v2] l IH]; intros Hnd Hin; [destruct Hin|].
    cbn [kmap map fst snd kw_look]. fold (kmap A B g l).
    cbn [map fst] in Hnd. apply NoDup_cons_iff in Hnd as [Hni Hnd].
    destruct Hin as [[= -> ->]|Hin].
    - rewrite String.eqb_refl. reflexivity.
    - destruct (String.eqb k k2) eqn:E.
      + apply String.eqb_eq in E. subst k2. contradiction Hni. apply in_map_iff. exists (k, v). split; [reflexivity|exact Hin].
      + exact (IH Hnd Hin).
  Qed.

  Lemma kw_eqb_map2 (l : list (string * A)) :
    NoDup (map fst l) -> (forall kv, In kv l -> aeq (f (snd kv)) (g (snd kv)) = true) ->
    kw_eqb B aeq (kmap A B f l) (kmap A B g l) = true.
  Proof.
    intros Hnd H. unfold kw_eqb. unfold kmap at 1 2. rewrite !map_length, Nat.eqb_refl. cbn [andb].
    apply forallb_forall. intros kv Hin. unfold kmap in Hin. apply in_map_iff in Hin as [[k v] [<- Hin]]. cbn [fst snd].
    rewrite (kw_look_kmap l k v Hnd Hin). exact (H (k, v) Hin).
  Qed.
End EqMap.

Lemma arg1_eqb_sub pts v : Forall path_good pts -> parg_ok (List.length pts) v = true ->
  arg1_eqb T (sub (backs pts) v) (sub pts v) = true.
Proof.
  intros Hg H. destruct (parg_cases pts v Hg H) as [[_ [-> [-> [_ [_ [_ Hw]]]]]]|[t [Ht [-> [_ ->]]]]].
  - cbn [arg1_eqb]. exact (py_eq_refl_wf v Hw).
  - exact (arg1_eqb_back t Ht).
Qed.

Lemma form_ok_p_args pts f : form_ok_p pts f = true -> forallb (parg_ok (List.length pts)) (form_args f) = true.
Proof.
  destruct f; cbn [form_ok_p form_args forallb]; intros H; try exact H.
  apply andb_true_iff in H as [_ H]. rewrite H. reflexivity.
Qed.

Lemma leaf_eqb_sub pts c q : Forall path_good pts ->
  q_nodup q = true -> form_ok_p pts (q_form q) = true ->
  leaf_eqb arg1 (arg1_eqb T) (lmapS (backs pts) (expected_leaf c q)) (lmapS pts (expected_leaf c q)) = true.
Proof.
  intros Hg Hnd Hf.
  pose proof (form_ok_p_args pts _ Hf) as Hv. rewrite <- q_args_form, <- (expected_vals c q) in Hv.
  unfold leaf_vals in Hv. rewrite forallb_app in Hv. apply andb_true_iff in Hv as [Ha Hk].
  rewrite forallb_forall in Ha, Hk.
  unfold leaf_eqb. cbn [leaf_map l_cls l_call l_args l_kwargs]. rewrite !String.eqb_refl. cbn [andb].
  rewrite list_eqb_map2, kw_eqb_map2; [reflexivity| | |].
  - apply str_nodup_NoDup. exact (expected_nodup c q Hnd).
  - intros kv Hin. apply arg1_eqb_sub; [exact Hg|]. apply Hk. apply in_map. exact Hin.
  - intros x Hin. apply arg1_eqb_sub; [exact Hg|]. exact (Ha x Hin).
Qed.

(* ---- the fragment, on leaves ---- *)

(* A leaf WITH path arguments: any of the 7 classes x 32 constructors where NO type conversion applies (not under a
   `dtype` class, not (keys_)is_instance: there from_spec forces the written path spec through the type table and
   raises, see C11P_counterexample_dtype_path).  The single argument of a one-parameter callable: the path.  Each of
   several arguments (two named parameters, var-positional, items of items_contain): a path, or a well-formed JSON literal
   (parg_ok: mappings escaped or taken literally by from_spec, lists unrestricted).  Item names of items_contain as in
   C11: pairwise distinct, none contains "path" (with such a name the keyword mapping is written raw and a path value is
   REFUSED by the serialiser, C11P_refused_items_path_name), no name contains the escape code. *)
Definition leaf_path_ok (pts : list (pathterm pyval)) (c : scls) (q : dsl) : bool :=
  class_ok c q && negb (casts c q) && q_wf q && q_items_ok q && q_items_nopath q && q_nodup q
  && form_ok_p pts (q_form q).

(* a leaf without path arguments: the literal fragment of C11EscProof *)
Definition has_ph (q : dsl) : bool := existsb is_ph (q_args q).
Definition leaf_in_c11p (pts : list (pathterm pyval)) (c : scls) (q : dsl) : bool :=
  if has_ph q then leaf_path_ok pts c q else leaf_in_c11e c q.
Definition leaf_js (pts : list (pathterm pyval)) (c : scls) (q : dsl) : pyval :=
  if has_ph q then leaf_json_p pts c q else leaf_json_e c q.

Lemma leaf_path_ok_inv pts c q : leaf_path_ok pts c q = true ->
  class_ok c q = true /\ casts c q = false /\ q_items_ok q = true /\ q_items_nopath q = true /\ q_nodup q = true
  /\ form_ok_p pts (q_form q) = true.
Proof.
  unfold leaf_path_ok. intros H.
  apply andb_true_iff in H as [H H7]. apply andb_true_iff in H as [H H6]. apply andb_true_iff in H as [H H5].
  apply andb_true_iff in H as [H H4]. apply andb_true_iff in H as [H _]. apply andb_true_iff in H as [H1 H2].
  apply negb_true_iff in H2. repeat split; assumption.
Qed.

(* what the tree-level proofs need of a leaf *)
Definition leaf_rt (pts : list (pathterm pyval)) (c : scls) (q : dsl) : Prop :=
  let el := expected_leaf c q in
  l2j (lmapS pts el) = Ok (leaf_js pts c q) /\ json_pure (leaf_js pts c q) = true /\
  (forall f, exists tm, self1 (S f) (leaf_js pts c q) = Ok (tm, CLeaf (lmapS (backs pts) el))) /\
  l2j (lmapS (backs pts) el) = Ok (leaf_js pts c q) /\
  leaf_eqb arg1 (arg1_eqb T) (lmapS (backs pts) el) (lmapS pts el) = true.

Lemma is_sub_l pts : is_sub pts (sub pts). Proof. left. reflexivity. Qed.
Lemma is_sub_r pts : is_sub pts (sub (backs pts)). Proof. right. reflexivity. Qed.

Lemma leaf_in_c11p_rt pts c q : Forall path_good pts -> leaf_in_c11p pts c q = true -> leaf_rt pts c q.
Proof.
  intros Hg. unfold leaf_in_c11p, leaf_rt, leaf_js. destruct (has_ph q) eqn:Eph; intros H; cbv zeta.
  - destruct (leaf_path_ok_inv pts c q H) as [Hcls [Hc [Hit [Hnp [Hnd Hf]]]]].
    split; [exact (leaf_to_json_p pts (sub pts) (is_sub_l pts) Hg c q Hc Hnp Hf)|].
    split; [exact (leaf_json_p_pure pts Hg c q Hf)|].
    split; [intros f; exact (leaf_json_p_parse pts c q f Hg Hcls Hc Hf Hit)|].
    split; [exact (leaf_to_json_p pts (sub (backs pts)) (is_sub_r pts) Hg c q Hc Hnp Hf)|].
    exact (leaf_eqb_sub pts c q Hg Hnd Hf).
  - assert (Hl : forall ps, lmapS ps (expected_leaf c q) = lmapL (expected_leaf c q)).
    { intros ps. apply lmap_sub_lit. rewrite expected_vals. exact Eph. }
    rewrite !Hl.
    split; [exact (leaf_e_to_json c q H)|]. split; [exact (leaf_e_pure c q H)|].
    split; [intros f; exact (leaf_e_parse c q f H)|]. split; [exact (leaf_e_to_json c q H)|].
    pose proof (leaf_e_refl_ok c q H) as Hr. unfold leaf_refl_ok in Hr. cbn [snd] in Hr.
    apply andb_true_iff in Hr as [H1 H2]. apply leaf_eqb_refl.
    + exact (expected_nodup c q H1).
    + rewrite expected_vals. exact H2.
Qed.

(* ================================================================== *)
(* 6. and / or / xor trees                                              *)

Fixpoint tree_js (pts : list (pathterm pyval)) (t : qtree) : pyval :=
  match t with
  | QLeaf c q => leaf_js pts c q
  | QNull => VDict []
  | QBin o a b => VDict [(VStr (bop_name o), VList [tree_js pts a; tree_js pts b])]
  end.

Definition leaves_c11p (pts : list (pathterm pyval)) (t : qtree) : bool :=
  forallb (fun cq => leaf_in_c11p pts (fst cq) (snd cq)) (qleaves t).

Lemma leaves_c11p_bin pts o a b : leaves_c11p pts (QBin o a b) = true -> leaves_c11p pts a = true /\ leaves_c11p pts b = true.
Proof. unfold leaves_c11p. cbn [qleaves]. rewrite forallb_app. apply andb_true_iff. Qed.

Lemma leaves_c11p_leaf pts c q : leaves_c11p pts (QLeaf c q) = true -> leaf_in_c11p pts c q = true.
Proof. unfold leaves_c11p. cbn [qleaves forallb fst snd]. rewrite andb_true_r. exact (fun H => H). Qed.

Lemma leaves_c11p_qnorm pts t : leaves_c11p pts (qnorm t) = leaves_c11p pts t.
Proof. unfold leaves_c11p. rewrite qleaves_qnorm. reflexivity. Qed.

Section Trees.
  Variable pts : list (pathterm pyval).
  Hypothesis Hg : Forall path_good pts.

  (* serialising the condition as given, and the condition read back: the same data *)
  Lemma cond_to_json_tree_p n : leaves_c11p pts n = true ->
    cond1_to_json T X (cmapS pts (cond_of n)) = Ok (tree_js pts n) /\
    cond1_to_json T X (cmapS (backs pts) (cond_of n)) = Ok (tree_js pts n).
  Proof.
    unfold cond1_to_json. induction n as [c q| |o a IHa b IHb]; intros H.
    - cbn [cond_of cond_map cond_to_json tree_js].
      destruct (leaf_in_c11p_rt pts c q Hg (leaves_c11p_leaf pts c q H)) as [H1 [_ [_ [H4 _]]]]. split; assumption.
    - split; reflexivity.
    - apply leaves_c11p_bin in H as [Ha Hb]. destruct (IHa Ha) as [A1 A2]. destruct (IHb Hb) as [B1 B2].
      cbn [cond_of cond_map cond_to_json tree_js]. rewrite A1, A2, B1, B2. cbn [bind].
      rewrite bop_symbol_name. split; reflexivity.
  Qed.

  Lemma tree_js_pure n : leaves_c11p pts n = true -> json_pure (tree_js pts n) = true.
  Proof.
    induction n as [c q| |o a IHa b IHb]; intros H.
    - destruct (leaf_in_c11p_rt pts c q Hg (leaves_c11p_leaf pts c q H)) as [_ [H2 _]]. exact H2.
    - reflexivity.
    - apply leaves_c11p_bin in H as [Ha Hb]. cbn [tree_js]. rewrite json_pure_single, json_pure_list.
      cbn [forallb]. rewrite (IHa Ha), (IHb Hb). reflexivity.
  Qed.

  Lemma mk_bin_null_l_p o ps n : mk_bin o (@CNull arg1) (cmapS ps (cond_of n)) = Ok (cmapS ps (cond_of n)).
  Proof.
    change (@CNull arg1) with (cmapS ps (cond_of QNull)).
    rewrite mk_bin_map, mk_bin_cond_of. cbn [q_is_null].
    destruct (q_is_null n) eqn:E; [|reflexivity].
    apply q_is_null_eq in E. subst n. reflexivity.
  Qed.

  (* parsing what was written: the condition with the paths read back *)
  Lemma tree_js_parse t : forall f,
    tree_depth t <= f -> leaves_c11p pts t = true ->
    if qmixed (qnorm t) then self1 f (tree_js pts t) = Err TypeError
    else exists tm, self1 f (tree_js pts t) = Ok (tm, cmapS (backs pts) (cond_of (qnorm t))).
  Proof.
    induction t as [c q| |o a IHa b IHb]; intros f Hd Hin.
    - cbn [tree_depth] in Hd. destruct f as [|f]; [lia|].
      cbn [qnorm tree_js]. rewrite qmixed_leaf.
      destruct (leaf_in_c11p_rt pts c q Hg (leaves_c11p_leaf pts c q Hin)) as [_ [_ [H3 _]]]. exact (H3 f).
    - cbn [tree_depth] in Hd. destruct f as [|f]; [lia|].
      cbn [qnorm tree_js]. rewrite qmixed_null, self1_S, step1_null. eexists. reflexivity.
    - cbn [tree_depth] in Hd. destruct f as [|f]; [lia|].
      apply leaves_c11p_bin in Hin as [Hina Hinb].
      assert (Hda : tree_depth a <= f) by lia. assert (Hdb : tree_depth b <= f) by lia.
      specialize (IHa f Hda Hina). specialize (IHb f Hdb Hinb).
      cbn [tree_js]. rewrite self1_S, step1_bin.
      destruct (qmixed (qnorm a)) eqn:Ma.
      { rewrite (qmixed_qnorm_bin_l o a b Ma), IHa. reflexivity. }
      destruct IHa as [ta Ea]. rewrite Ea. cbn [bind]. rewrite mk_bin_null_l_p. cbn [bind].
      destruct (qmixed (qnorm b)) eqn:Mb.
      { rewrite (qmixed_qnorm_bin_r o a b Mb), IHb. reflexivity. }
      destruct IHb as [tb Eb]. rewrite Eb. cbn [bind]. rewrite mk_bin_map, mk_bin_cond_of.
      cbn [qnorm].
      destruct (q_is_null (qnorm b)); [rewrite Ma; eexists; reflexivity|].
      destruct (q_is_null (qnorm a)); [rewrite Mb; eexists; reflexivity|].
      destruct (qmixed (QBin o (qnorm a) (qnorm b))); [reflexivity|eexists; reflexivity].
  Qed.

  (* the condition read back is == to the condition written *)
  Lemma cond_eqb_tree_p n : leaves_c11p pts n = true ->
    cond1_eqb T (cmapS (backs pts) (cond_of n)) (cmapS pts (cond_of n)) = true.
  Proof.
    unfold cond1_eqb. induction n as [c q| |o a IHa b IHb]; intros H.
    - cbn [cond_of cond_map cond_eqb].
      destruct (leaf_in_c11p_rt pts c q Hg (leaves_c11p_leaf pts c q H)) as [_ [_ [_ [_ H5]]]]. exact H5.
    - reflexivity.
    - apply leaves_c11p_bin in H as [Ha Hb].
      cbn [cond_of cond_map cond_eqb]. rewrite bop_eqb_refl, (IHa Ha), (IHb Hb). reflexivity.
  Qed.

  (* the round trip under the hypothesis that the paths round-trip *)
  Theorem C11P_roundtrip_modular : forall t,
    leaves_c11p pts t = true -> tree_depth t <= 40 -> qmixed (qnorm t) = false ->
    let c := cmapS pts (cond_of (qnorm t)) in
    let c2 := cmapS (backs pts) (cond_of (qnorm t)) in
    let j := tree_js pts (qnorm t) in
    cond1_to_json T X c = Ok j /\ json_pure j = true /\
    (exists tm, cond1_from_spec T X j = Ok (tm, c2)) /\
    cond1_eqb T c2 c = true /\ cond1_to_json T X c2 = Ok j.
  Proof.
    intros t Hl Hd Hm. cbv zeta.
    assert (Hln : leaves_c11p pts (qnorm t) = true) by (rewrite leaves_c11p_qnorm; exact Hl).
    destruct (cond_to_json_tree_p _ Hln) as [J1 J2].
    split; [exact J1|]. split; [exact (tree_js_pure _ Hln)|].
    split; [|split; [exact (cond_eqb_tree_p _ Hln)|exact J2]].
    rewrite cond1_unfold.
    assert (Hdn : tree_depth (qnorm t) <= 40) by (pose proof (depth_qnorm t); lia).
    pose proof (tree_js_parse (qnorm t) 40 Hdn Hln) as H. rewrite qnorm_idem, Hm in H. exact H.
  Qed.
End Trees.

(* ================================================================== *)
(* 7. C11 with data-path arguments                                      *)

(* the data paths: typed path terms of the C12 fragment (PathSpec.spathterm: primitive parts, MapValue / ListValue /
   MapOrListValue parts with conditions of the C11 fragment, labels; ANY modifiers .length() / .dtype() / .first() ...),
   without source data (to_spec refuses a path with source data: C12Proof.C12_spec_src_refused), that build, and are ==
   to themselves (a computable test: it fails e.g. for a NaN label) *)
Definition path_arg_ok (st : spathterm) : bool :=
  path_in_c12 st && (match st_src st with None => true | Some _ => false end) && path_self_eq (spathterm_term st).

Definition pterms (sts : list spathterm) : list (pathterm pyval) := map spathterm_term sts.

(* THE FRAGMENT.  [sts]: the data paths; [t]: an and/or/xor tree of typed DSL leaves in which an argument [VObj n] stands
   for the n-th path.  Leaves without path arguments: the literal fragment of C11 (with escaped mappings, C11EscProof).
   Leaves with path arguments: see leaf_path_ok.  Depth within the fuel of from_spec; no Key/Index mix. *)
Definition tree_in_c11p (sts : list spathterm) (t : qtree) : bool :=
  forallb path_arg_ok sts && leaves_c11p (pterms sts) t && (tree_depth t <=? 40)%nat && negb (qmixed (qnorm t)).

Lemma path_args_good sts : forallb path_arg_ok sts = true -> Forall path_good (pterms sts).
Proof.
  unfold pterms. induction sts as [|st sts IH]; cbn [forallb map]; intros H; [constructor|].
  apply andb_true_iff in H as [Hst Hr]. constructor; [|exact (IH Hr)].
  unfold path_arg_ok in Hst. apply andb_true_iff in Hst as [Hst H3]. apply andb_true_iff in Hst as [H1 H2].
  apply c12_path_good; [exact H1| |exact H3]. destruct (st_src st); [discriminate H2|reflexivity].
Qed.

(* the condition a tree with path arguments denotes *)
Definition cond_p (sts : list spathterm) (t : qtree) : cond arg1 := cmapS (pterms sts) (cond_of (qnorm t)).

Theorem C11P_roundtrip_eq : forall sts t,
  tree_in_c11p sts t = true ->
  let c := cond_p sts t in
  let c2 := cmapS (backs (pterms sts)) (cond_of (qnorm t)) in
  let j := tree_js (pterms sts) (qnorm t) in
  cond1_to_json T X c = Ok j /\ json_pure j = true /\
  (exists tm, cond1_from_spec T X j = Ok (tm, c2)) /\
  cond1_eqb T c2 c = true /\ cond1_to_json T X c2 = Ok j.
Proof.
  intros sts t H. unfold tree_in_c11p in H.
  apply andb_true_iff in H as [H H4]. apply andb_true_iff in H as [H H3]. apply andb_true_iff in H as [H1 H2].
  apply Nat.leb_le in H3. apply negb_true_iff in H4.
  exact (C11P_roundtrip_modular (pterms sts) (path_args_good sts H1) t H2 H3 H4).
Qed.

Theorem C11P_roundtrip : forall sts t,
  tree_in_c11p sts t = true ->
  exists j tm c2,
    cond1_to_json T X (cond_p sts t) = Ok j /\ json_pure j = true /\
    cond1_from_spec T X j = Ok (tm, c2) /\ cond1_eqb T c2 (cond_p sts t) = true /\
    cond1_to_json T X c2 = Ok j.
Proof.
  intros sts t H. destruct (C11P_roundtrip_eq sts t H) as [H1 [H2 [[tm H3] [H4 H5]]]].
  exists (tree_js (pterms sts) (qnorm t)), tm, (cmapS (backs (pterms sts)) (cond_of (qnorm t))).
  repeat split; assumption.
Qed.

(* one leaf, data spelled out *)
Theorem C11P_leaf_roundtrip : forall sts c q,
  forallb path_arg_ok sts = true -> leaf_in_c11p (pterms sts) c q = true ->
  let c1 := CLeaf (lmapS (pterms sts) (expected_leaf c q)) in
  let c2 := CLeaf (lmapS (backs (pterms sts)) (expected_leaf c q)) in
  let j := leaf_js (pterms sts) c q in
  cond1_to_json T X c1 = Ok j /\ json_pure j = true /\
  (exists tm, cond1_from_spec T X j = Ok (tm, c2)) /\
  cond1_eqb T c2 c1 = true /\ cond1_to_json T X c2 = Ok j.
Proof.
  intros sts c q Hp Hl.
  assert (Hin : tree_in_c11p sts (QLeaf c q) = true).
  { unfold tree_in_c11p, leaves_c11p. cbn [qleaves forallb fst snd tree_depth qnorm]. rewrite Hp, Hl, qmixed_leaf. reflexivity. }
  exact (C11P_roundtrip_eq sts (QLeaf c q) Hin).
Qed.

(* the literal fragment of C11 is the special case without paths, with the same written data *)
Lemma no_ph_pure l : forallb json_pure l = true -> existsb is_ph l = false.
Proof.
  induction l as [|v l IH]; cbn [forallb existsb]; [reflexivity|].
  intros H. apply andb_true_iff in H as [Hv Hl]. rewrite (IH Hl). destruct v; try reflexivity. discriminate Hv.
Qed.
Lemma no_ph_types l : forallb types_only l = true -> existsb is_ph l = false.
Proof.
  induction l as [|v l IH]; cbn [forallb existsb]; [reflexivity|].
  intros H. apply andb_true_iff in H as [Hv Hl]. rewrite (IH Hl). destruct v; try reflexivity. discriminate Hv.
Qed.

Lemma leaf_c11e_no_ph c q : leaf_in_c11e c q = true -> has_ph q = false.
Proof.
  unfold leaf_in_c11e, has_ph. destruct (casts c q) eqn:Ec; intros H.
  - destruct (leaf_in_c11_inv c q H) as [_ [_ [Hty _]]]. exact (no_ph_types _ (cast_args_types c q Hty Ec)).
  - destruct (leaf_esc_inv c q H) as [_ [_ [_ [Hj _]]]]. exact (no_ph_pure _ Hj).
Qed.

Theorem C11P_includes_c11e : forall t, tree_in_c11e t = true ->
  tree_in_c11p [] t = true /\ tree_js [] t = tree_json_e t /\ cond_p [] t = cmapL (cond_of (qnorm t)).
Proof.
  intros t H. destruct (tree_in_c11e_inv t H) as [Hl [Hd Hm]].
  assert (Hleaf : forall c q, leaf_in_c11e c q = true -> leaf_in_c11p [] c q = true /\ leaf_js [] c q = leaf_json_e c q).
  { intros c q Hq. unfold leaf_in_c11p, leaf_js. rewrite (leaf_c11e_no_ph c q Hq). split; [exact Hq|reflexivity]. }
  split; [|split].
  - unfold tree_in_c11p. cbn [forallb pterms map andb]. apply Nat.leb_le in Hd. rewrite Hd, Hm. cbn [negb andb]. rewrite !andb_true_r.
    unfold leaves_c11p. unfold leaves_c11e in Hl. revert Hl. apply forallb_impl. intros [c q] Hq. cbn [fst snd] in *.
    exact (proj1 (Hleaf c q Hq)).
  - clear Hd Hm H. induction t as [c q| |o a IHa b IHb]; cbn [tree_js tree_json_e].
    + exact (proj2 (Hleaf c q (leaves_c11e_leaf c q Hl))).
    + reflexivity.
    + apply leaves_c11e_bin in Hl as [Ha Hb]. rewrite (IHa Ha), (IHb Hb). reflexivity.
  - unfold cond_p. cbn [pterms map].
    assert (Hln : leaves_c11e (qnorm t) = true) by (rewrite leaves_c11e_qnorm; exact Hl).
    clear Hd Hm H Hl. induction (qnorm t) as [c q| |o a IHa b IHb]; cbn [cond_of cond_map].
    + f_equal. apply lmap_sub_lit. rewrite expected_vals. exact (leaf_c11e_no_ph c q (leaves_c11e_leaf c q Hln)).
    + reflexivity.
    + apply leaves_c11e_bin in Hln as [Ha Hb]. rewrite (IHa Ha), (IHb Hb). reflexivity.
Qed.

(* ================================================================== *)
(* 8. the condition of the theorem IS the one the API builds            *)

Lemma check_arg_sub pts v : Forall path_good pts -> check_arg T (sub pts v) = Ok tt.
Proof.
  intros Hg. destruct v as [| | | | | | | | |k]; try reflexivity. cbn [sub].
  destruct (nth_error pts (N.to_nat k)) as [t|] eqn:E; [|reflexivity].
  rewrite Forall_forall in Hg. destruct (Hg t (nth_error_In _ _ E)) as [p [d [Hp _]]].
  cbn [check_arg]. change Rule.id0 with idlit. rewrite Hp. reflexivity.
Qed.

Lemma check_args_sub pts l : Forall path_good pts -> check_args T (map (sub pts) l) = Ok tt.
Proof. intros Hg. induction l as [|x l IH]; cbn [map check_args]; [reflexivity|]. rewrite (check_arg_sub pts x Hg). exact IH. Qed.

Lemma check_kw_sub pts l : Forall path_good pts -> check_kw T (kmapS pts l) = Ok tt.
Proof.
  intros Hg. induction l as [|[k x] l IH]; cbn [kmap map check_kw fst snd]; [reflexivity|].
  rewrite (check_arg_sub pts x Hg). exact IH.
Qed.

(* building a DSL expression whose arguments are literals and (already built) data paths *)
Lemma build1_sub pts (u : dslc pyval) : Forall path_good pts ->
  build1 T (dslc_map (sub pts) u) = rmap (cmapS pts) (build T idlit u).
Proof.
  intros Hg. induction u as [cls m pos kw| |o a IHa b IHb]; cbn [dslc_map build1 build].
  - rewrite (check_args_sub pts pos Hg). cbn [bind].
    change (map (fun ka : string * pyval => (fst ka, sub pts (snd ka))) kw) with (kmapS pts kw).
    rewrite (check_kw_sub pts kw Hg). cbn [bind].
    rewrite (build_leaf_ext arg1 lit1 (sub pts) _ _ _ _ (sub_plain_default pts)).
    rewrite (build_leaf_map pyval arg1 (sub pts) idlit (sub pts) (fun v => eq_refl) T cls m pos kw).
    destruct (build_leaf T idlit cls m pos kw); reflexivity.
  - reflexivity.
  - rewrite IHa, IHb.
    destruct (build T idlit a) as [x|e]; cbn [rmap bind]; [|reflexivity].
    destruct (build T idlit b) as [y|e]; cbn [rmap bind]; [|reflexivity].
    apply mk_bin_map.
Qed.

Lemma leaf_in_c11p_qok pts c q : leaf_in_c11p pts c q = true -> class_ok c q = true /\ q_wf q = true.
Proof.
  unfold leaf_in_c11p. destruct (has_ph q).
  - unfold leaf_path_ok. intros H.
    apply andb_true_iff in H as [H _]. apply andb_true_iff in H as [H _]. apply andb_true_iff in H as [H _].
    apply andb_true_iff in H as [H _]. apply andb_true_iff in H as [H H3]. apply andb_true_iff in H as [H1 _].
    split; assumption.
  - unfold leaf_in_c11e. destruct (casts c q); intros H.
    + destruct (leaf_in_c11_inv c q H) as [H1 [_ [_ [H4 _]]]]. split; assumption.
    + unfold leaf_esc in H.
      apply andb_true_iff in H as [H _]. apply andb_true_iff in H as [H _]. apply andb_true_iff in H as [H _].
      apply andb_true_iff in H as [H H4]. apply andb_true_iff in H as [H _]. apply andb_true_iff in H as [H1 _].
      split; assumption.
Qed.

(* Value.equal_to(DataPath(...)) & ... written with the API builds exactly the condition C11P_roundtrip is about *)
Theorem C11P_cond_is_built : forall sts t,
  tree_in_c11p sts t = true ->
  build1 T (dslc_map (sub (pterms sts)) (qterm t)) = Ok (cond_p sts t).
Proof.
  intros sts t H. unfold tree_in_c11p in H.
  apply andb_true_iff in H as [H H4]. apply andb_true_iff in H as [H _]. apply andb_true_iff in H as [H1 H2].
  apply negb_true_iff in H4.
  rewrite (build1_sub _ _ (path_args_good sts H1)).
  assert (Hok : qtree_ok t = true).
  { unfold qtree_ok. unfold leaves_c11p in H2. revert H2. apply forallb_impl. intros [c q] Hq. cbn [fst snd] in *.
    destruct (leaf_in_c11p_qok _ c q Hq) as [Hc Hw]. unfold class_ok in Hc. unfold q_wf in Hw. rewrite Hc. exact Hw. }
  rewrite (build_qterm t Hok). unfold build_expect. rewrite H4. reflexivity.
Qed.

(* ================================================================== *)
(* 9. non-vacuity                                                       *)

(* DataPath("a", 0);  DataPath("a").length();  the six-part path of C12Proof with .length().first() *)
Definition st_a0 : spathterm := {| st_parts := [SPrim (VStr "a"); SPrim (VInt 0)]; st_mods := []; st_src := None |}.
Definition st_len : spathterm := {| st_parts := [SPrim (VStr "a")]; st_mods := ["length"]; st_src := None |}.
Definition st_big : spathterm := {| st_parts := st_parts ex12_st; st_mods := ["length"; "first"]; st_src := None |}.
Definition ex_sts : list spathterm := [st_a0; st_len; st_big].

Example ex_paths_ok : forallb path_arg_ok ex_sts = true.
Proof. vm_compute. reflexivity. Qed.

(* what the property says, evaluated: (data, pure, rebuilt == original, same data again) *)
Definition rt11p (sts : list spathterm) (t : qtree) : res (pyval * bool * bool * bool) :=
  let c := cond_p sts t in
  let* j := cond1_to_json T X c in
  let* (tm, c2) := cond1_from_spec T X j in
  let* j2 := cond1_to_json T X c2 in
  Ok (j, json_pure j, cond1_eqb T c2 c, py_eq j2 j).

(* Value.equal_to(DataPath("a", 0)) *)
Definition ex_leaf : qtree := QLeaf SValue (Q_equal_to (VObj 0)).
Example ex_leaf_in : tree_in_c11p ex_sts ex_leaf = true.
Proof. vm_compute. reflexivity. Qed.
Example ex_leaf_cond :
  cond_p ex_sts ex_leaf =
  CLeaf {| l_cls := "Value"; l_kind := DValue; l_pre := PNone; l_call := "equal_to"; l_args := [];
           l_kwargs := [("value", APath 0%N {| pt_parts := [PtPrim (VStr "a"); PtPrim (VInt 0)]; pt_mods := []; pt_src := None |})] |}.
Proof. vm_compute. reflexivity. Qed.
Example ex_leaf_rt :
  rt11p ex_sts ex_leaf = Ok (VDict [(VStr "value.equal_to", VDict [(VStr "path", VList [VStr "a"; VInt 0])])], true, true, true).
Proof. vm_compute. reflexivity. Qed.

(* ValueLength: Value.length.less_than(DataPath("a").length()) *)
Definition ex_mod : qtree := QLeaf SValueLength (Q_less_than (VObj 1)).
Example ex_mod_in : tree_in_c11p ex_sts ex_mod = true.
Proof. vm_compute. reflexivity. Qed.
Example ex_mod_rt :
  rt11p ex_sts ex_mod = Ok (VDict [(VStr "value.length.less_than", VDict [(VStr "path.length", VList [VStr "a"])])], true, true, true).
Proof. vm_compute. reflexivity. Qed.

(* (Value.equal_to(DataPath("a", 0)) | Value.in_([1, {"mypath": 2}])) & (null ^ Value.in_range(lower=DataPath("a").length(), upper=3)):
   a path leaf next to a literal leaf with an escaped mapping, a null operand, a keyword argument *)
Definition ex_tree : qtree :=
  QBin BoAnd (QBin BoOr (QLeaf SValue (Q_equal_to (VObj 0)))
                        (QLeaf SValue (Q_in (VList [VInt 1; VDict [(VStr "mypath", VInt 2)]]))))
             (QBin BoXor QNull (QLeaf SValue (Q_in_range (VObj 1) (VInt 3)))).
Example ex_tree_in : tree_in_c11p ex_sts ex_tree = true.
Proof. vm_compute. reflexivity. Qed.
Example ex_tree_rt :
  rt11p ex_sts ex_tree =
  Ok (VDict [(VStr "and", VList [
        VDict [(VStr "or", VList [
          VDict [(VStr "value.equal_to", VDict [(VStr "path", VList [VStr "a"; VInt 0])])];
          VDict [(VStr "value.in_", VList [VInt 1; VDict [(VStr "my\path", VInt 2)]])]])];
        VDict [(VStr "value.in_range", VDict [(VStr "lower", VDict [(VStr "path.length", VList [VStr "a"])]);
                                              (VStr "upper", VInt 3)])]])], true, true, true).
Proof. vm_compute. reflexivity. Qed.

(* several path arguments; var-positional arguments; values of items_contain, one of them a literal mapping with a "path" key
   (escaped at its own level only) next to the big path with two modifiers *)
Definition ex_more : qtree :=
  QBin BoOr (QLeaf SValue (Q_equal_to_approx (VObj 0) (VObj 1)))
    (QBin BoAnd (QLeaf SKey (Q_keys_contain_any_of [VStr "k"; VObj 0]))
                (QLeaf SValue (Q_items_contain [("a", VObj 2); ("b", VDict [(VStr "path", VList [VDict [(VStr "path", VInt 1)]])])]))).
Example ex_more_in : tree_in_c11p ex_sts ex_more = true.
Proof. vm_compute. reflexivity. Qed.
Example ex_more_rt : match rt11p ex_sts ex_more with Ok (_, true, true, true) => True | _ => False end.
Proof. vm_compute. exact I. Qed.
Example ex_more_item :
  leaf_js (pterms ex_sts) SValue (Q_items_contain [("a", VObj 0); ("b", VDict [(VStr "path", VList [VDict [(VStr "path", VInt 1)]])])])
  = VDict [(VStr "value.items_contain",
            VDict [(VStr "a", VDict [(VStr "path", VList [VStr "a"; VInt 0])]);
                   (VStr "b", VDict [(VStr "\path", VList [VDict [(VStr "path", VInt 1)]])])])].
Proof. vm_compute. reflexivity. Qed.

(* ================================================================== *)
(* 10. outside the fragment                                             *)

(* Under a type conversion the round trip FAILS: Value.dtype.equal_to(DataPath("a").dtype()) is serialised to
   {"value.dtype.equal_to": {"path.dtype": ["a"]}}, on which from_spec raises TypeError (the path spec is forced
   through the type-name table: DTYPE_LOOKUP[{...}] -> unhashable type 'dict').  Same for
   Value.is_instance(DataPath("a").dtype()).  Replayed on /repo: TypeError in both cases. *)
Definition st_dt : spathterm := {| st_parts := [SPrim (VStr "a")]; st_mods := ["dtype"]; st_src := None |}.
Example C11P_counterexample_dtype_path :
  let t := QLeaf SValueDataType (Q_equal_to (VObj 0)) in
  forallb path_arg_ok [st_dt] = true /\ tree_in_c11p [st_dt] t = false /\
  cond1_to_json T X (cond_p [st_dt] t)
    = Ok (VDict [(VStr "value.dtype.equal_to", VDict [(VStr "path.dtype", VList [VStr "a"])])]) /\
  cond1_from_spec T X (VDict [(VStr "value.dtype.equal_to", VDict [(VStr "path.dtype", VList [VStr "a"])])]) = Err TypeError.
Proof. vm_compute. repeat split. Qed.
Example C11P_counterexample_is_instance_path :
  let t := QLeaf SValue (Q_is_instance [VObj 0]) in
  tree_in_c11p [st_dt] t = false /\
  cond1_to_json T X (cond_p [st_dt] t)
    = Ok (VDict [(VStr "value.is_instance", VList [VDict [(VStr "path.dtype", VList [VStr "a"])]])]) /\
  cond1_from_spec T X (VDict [(VStr "value.is_instance", VList [VDict [(VStr "path.dtype", VList [VStr "a"])]])]) = Err TypeError.
Proof. vm_compute. repeat split. Qed.

(* refusals (no round trip is claimed, none is attempted): a path with source data; a path as the value of an
   items_contain item whose NAME contains "path" (the keyword mapping is then written raw and escaped) *)
Example C11P_refused_source :
  let st := {| st_parts := [SPrim (VStr "a")]; st_mods := []; st_src := Some (VDict [(VStr "a", VInt 1)]) |} in
  path_arg_ok st = false /\
  cond1_to_json T X (cond_p [st] (QLeaf SValue (Q_equal_to (VObj 0)))) = Err ValueError.
Proof. vm_compute. split; reflexivity. Qed.
Example C11P_refused_items_path_name :
  let t := QLeaf SValue (Q_items_contain [("mypath", VObj 0)]) in
  tree_in_c11p [st_a0] t = false /\ exists e, cond1_to_json T X (cond_p [st_a0] t) = Err e.
Proof. vm_compute. split; [reflexivity|eexists; reflexivity]. Qed.

Print Assumptions C11P_roundtrip.
Print Assumptions C11P_roundtrip_eq.
Print Assumptions C11P_roundtrip_modular.
Print Assumptions C11P_leaf_roundtrip.
Print Assumptions C11P_includes_c11e.
Print Assumptions C11P_cond_is_built.
