(* C05 / C06 / C07 / C15: the model of rules and schemas (Rule.v, RunRule.v) against the
   specification (RuleSpec.v). *)
From Coq Require Import ZArith NArith List Bool String Lia.
From Valida Require Import Py Lang Defs Cond Dsl Check DocSem Path PathSpec Cast RuleDefs Rule RuleSpec
  RuleTerms Inst Run RunRule.
From Valida.Proofs Require Import PyFacts Tie C01Proof C02Proof C03Proof C04Proof.
Import ListNotations.
Local Open Scope string_scope.
Local Open Scope list_scope.

(* ================================================================== *)
(* A. every failed item has at least one textual reason (C05)          *)

Lemma nth_error_zip_with {X Y Z} (f : X -> Y -> Z) : forall a b i z,
  nth_error (zip_with f a b) i = Some z ->
  exists x y, nth_error a i = Some x /\ nth_error b i = Some y /\ z = f x y.
Proof.
  induction a as [|x a IH]; intros [|y b] [|i] z H; cbn in H; try discriminate H.
  - inversion H. exists x, y. repeat split.
  - cbn [nth_error]. apply IH. exact H.
Qed.

Definition reasons_of (tt : list tt_entry) (i : nat) : nat :=
  List.length (filter (fun e => entry_reason e i) tt).

Lemma reasons_of_app a b i : reasons_of (a ++ b) i = (reasons_of a i + reasons_of b i)%nat.
Proof. unfold reasons_of. rewrite filter_app, app_length. reflexivity. Qed.

(* C05: a datum that fails a condition comes with at least one reason *)
Theorem reasons_nonempty : forall (TT : tables) (A : Type) (resolve : A -> res pyval) (c : cond A) (d : data) (f : fres),
  filter_tree TT resolve c d = Ok f ->
  forall i, nth_error (fr_result f) i = Some false -> (1 <= num_reasons f i)%nat.
Proof.
  intros TT A resolve. unfold num_reasons. fold reasons_of.
  induction c as [l|o a IHa b IHb]; intros d f Hf i Hi.
  - cbn [filter_tree] in Hf. unfold filter_leaf in Hf.
    destruct (mapM (eval_item TT resolve l) (datums (l_kind l) d)) as [fl|e]; cbn [bind] in Hf; [|discriminate Hf].
    inversion Hf; subst f; clear Hf. cbn [fr_result fr_tt] in *.
    fold (reasons_of [TTLeaf fl] i). unfold reasons_of. cbn [filter entry_reason].
    rewrite nth_error_map in Hi.
    destruct (nth_error fl i) as [[[p ce] cf]|]; cbn [option_map] in Hi; [|discriminate Hi].
    inversion Hi as [Hr]. unfold flags_result in Hr.
    destruct p, ce, cf; cbn in Hr; try discriminate Hr; cbn; lia.
  - cbn [filter_tree] in Hf.
    destruct (filter_tree TT resolve a d) as [fa|e] eqn:Ea; cbn [bind] in Hf; [|discriminate Hf].
    destruct (filter_tree TT resolve b d) as [fb|e] eqn:Eb; cbn [bind] in Hf; [|discriminate Hf].
    inversion Hf; subst f; clear Hf. unfold combine_fres in *. cbn [fr_result fr_tt] in *.
    fold (reasons_of (fr_tt fa ++ fr_tt fb ++
       [TTOp o (zip_with orb (fr_pre fa) (fr_pre fb)) (zip_with orb (fr_cerr fa) (fr_cerr fb))
          (map negb (zip_with (bop_apply o) (fr_result fa) (fr_result fb)))]) i).
    rewrite !reasons_of_app.
    destruct (nth_error_zip_with _ _ _ _ _ Hi) as [x [y [Hx [Hy Hxy]]]].
    specialize (IHa d fa Ea i). specialize (IHb d fb Eb i).
    fold (reasons_of (fr_tt fa) i) in IHa. fold (reasons_of (fr_tt fb) i) in IHb.
    destruct o; cbn [bop_apply] in Hxy.
    + destruct x; [destruct y; [discriminate Hxy|]|].
      * specialize (IHb Hy). lia.
      * specialize (IHa Hx). lia.
    + destruct x; [discriminate Hxy|]. specialize (IHa Hx). lia.
    + unfold reasons_of at 3. cbn [filter entry_reason].
      assert (Hc : nth_b (map negb (zip_with (bop_apply BoXor) (fr_result fa) (fr_result fb))) i = true).
      { unfold nth_b. rewrite (nth_error_nth _ _ false (x := true)); [reflexivity|].
        rewrite nth_error_map. rewrite Hi. reflexivity. }
      rewrite Hc, !orb_true_r. cbn [List.length]. lia.
Qed.

(* ================================================================== *)
(* B. conditions whose arguments are all literals                       *)

Definition rmap {X Y} (g : X -> Y) (r : res X) : res Y :=
  match r with Ok x => Ok (g x) | Err e => Err e end.

Lemma rmap_bind {X Y Z} (g : Y -> Z) (r : res X) (k : X -> res Y) :
  rmap g (bind r k) = bind r (fun x => rmap g (k x)).
Proof. destruct r; reflexivity. Qed.

Definition store_go (X : Type) (e2 : list (string * X)) (extra_pos : list X) (extra_kw : list (string * X)) :=
  fix go (st : list store) (args : list X) (kws : list (string * X)) : res (list X * list (string * X)) :=
    match st with
    | [] => Ok (args, kws)
    | StPos p :: r => match aget X p e2 with Some v => go r (args ++ [v]) kws | None => Err OtherExc end
    | StKw k p :: r => match aget X p e2 with Some v => go r args (kws ++ [(k, v)]) | None => Err OtherExc end
    | StStar _ :: r => go r (args ++ extra_pos) kws
    | StDStar _ :: r => go r args (kws ++ extra_kw)
    end.

Lemma apply_ctor_unfold (X : Type) (lit : pyval -> X) c pos kw :
  apply_ctor lit c pos kw =
  let '(e0, missing, extra_pos) := cbind_pos X (c_params c) pos in
  let* _ := match c_vararg c, extra_pos with
            | None, _ :: _ => Err TypeError
            | _, _ => Ok tt
            end in
  let* (e1, missing', extra_kw) :=
    cbind_kw X (map fst (c_params c)) missing (match c_kwarg c with Some _ => true | None => false end) kw e0 [] in
  let* e2 := fill_defaults X lit missing' e1 in
  store_go X e2 extra_pos extra_kw (c_store c) [] [].
Proof. reflexivity. Qed.

Section Naturality.
  Variables (A B : Type) (f : A -> B).

  Definition kmap (l : list (string * A)) : list (string * B) := map (fun ka => (fst ka, f (snd ka))) l.

  Definition leaf_map (l : leaf A) : leaf B :=
    {| l_cls := l_cls l; l_kind := l_kind l; l_pre := l_pre l; l_call := l_call l;
       l_args := map f (l_args l); l_kwargs := kmap (l_kwargs l) |}.

  Fixpoint cond_map (c : cond A) : cond B :=
    match c with
    | CLeaf l => CLeaf (leaf_map l)
    | CBin o a b => CBin o (cond_map a) (cond_map b)
    end.

  Variables (lit : pyval -> A) (lit' : pyval -> B).
  Hypothesis Hlit : forall v, lit' v = f (lit v).

  Lemma kmap_app a b : kmap (a ++ b) = kmap a ++ kmap b.
  Proof. apply map_app. Qed.

  Lemma aget_kmap x e : aget B x (kmap e) = option_map f (aget A x e).
  Proof.
    induction e as [|[y v] e IH]; cbn; [reflexivity|].
    destruct (String.eqb x y); [reflexivity|exact IH].
  Qed.

  Lemma cbind_pos_map params : forall pos,
    cbind_pos B params (map f pos) =
    let '(e, rest, extra) := cbind_pos A params pos in (kmap e, rest, map f extra).
  Proof.
    induction params as [|[p d] ps IH]; intros pos; cbn [cbind_pos].
    - reflexivity.
    - destruct pos as [|v vs]; cbn [map]; [reflexivity|].
      rewrite IH. destruct (cbind_pos A ps vs) as [[e rest] extra]. reflexivity.
  Qed.

  Lemma cbind_kw_map params hk : forall kw missing e extra,
    cbind_kw B params missing hk (kmap kw) (kmap e) (kmap extra) =
    rmap (fun emx => (kmap (fst (fst emx)), snd (fst emx), kmap (snd emx)))
         (cbind_kw A params missing hk kw e extra).
  Proof.
    induction kw as [|[k v] kw IH]; intros missing e extra; cbn [cbind_kw kmap map fst snd].
    - reflexivity.
    - fold (kmap kw).
      destruct (existsb (fun m => String.eqb k (fst m)) missing).
      + exact (IH _ ((k, v) :: e) extra).
      + destruct (existsb (String.eqb k) params); [reflexivity|].
        destruct hk; [|reflexivity].
        specialize (IH missing e (extra ++ [(k, v)])). rewrite kmap_app in IH. exact IH.
  Qed.

  Lemma fill_defaults_map : forall missing e,
    fill_defaults B lit' missing (kmap e) = rmap kmap (fill_defaults A lit missing e).
  Proof.
    induction missing as [|[p [d|]] r IH]; intros e; cbn [fill_defaults].
    - reflexivity.
    - rewrite Hlit. exact (IH ((p, lit d) :: e)).
    - reflexivity.
  Qed.

  Definition pmap (ak : list A * list (string * A)) : list B * list (string * B) :=
    (map f (fst ak), kmap (snd ak)).

  Lemma store_go_map e2 xp xk : forall st args kws,
    store_go B (kmap e2) (map f xp) (kmap xk) st (map f args) (kmap kws) =
    rmap pmap (store_go A e2 xp xk st args kws).
  Proof.
    induction st as [|s st IH]; intros args kws; cbn [store_go].
    - reflexivity.
    - destruct s as [p|k p|p|p].
      + rewrite aget_kmap. destruct (aget A p e2) as [v|]; cbn [option_map]; [|reflexivity].
        specialize (IH (args ++ [v]) kws). rewrite map_app in IH. exact IH.
      + rewrite aget_kmap. destruct (aget A p e2) as [v|]; cbn [option_map]; [|reflexivity].
        specialize (IH args (kws ++ [(k, v)])). rewrite kmap_app in IH. exact IH.
      + specialize (IH (args ++ xp) kws). rewrite map_app in IH. exact IH.
      + specialize (IH args (kws ++ xk)). rewrite kmap_app in IH. exact IH.
  Qed.

  Lemma apply_ctor_map c pos kw :
    apply_ctor lit' c (map f pos) (kmap kw) = rmap pmap (apply_ctor lit c pos kw).
  Proof.
    rewrite !apply_ctor_unfold. rewrite cbind_pos_map.
    destruct (cbind_pos A (c_params c) pos) as [[e0 missing] xp].
    assert (Hva : match c_vararg c, map f xp with None, _ :: _ => @Err unit TypeError | _, _ => Ok tt end =
                  match c_vararg c, xp with None, _ :: _ => Err TypeError | _, _ => Ok tt end).
    { destruct (c_vararg c); destruct xp; reflexivity. }
    rewrite Hva. clear Hva.
    destruct (match c_vararg c, xp with None, _ :: _ => @Err unit TypeError | _, _ => Ok tt end); cbn [bind rmap]; [|reflexivity].
    pose proof (cbind_kw_map (map fst (c_params c)) (match c_kwarg c with Some _ => true | None => false end)
                  kw missing e0 []) as Hkw.
    change (kmap []) with (@nil (string * B)) in Hkw. rewrite Hkw. clear Hkw.
    destruct (cbind_kw A _ missing _ kw e0 []) as [[[e1 missing'] xk]|err]; cbn [bind rmap fst snd]; [|reflexivity].
    rewrite fill_defaults_map.
    destruct (fill_defaults A lit missing' e1) as [e2|err]; cbn [bind rmap]; [|reflexivity].
    exact (store_go_map e2 xp xk (c_store c) [] []).
  Qed.

  Variable TT : tables.

  Lemma build_leaf_map cls m pos kw :
    build_leaf TT lit' cls m (map f pos) (kmap kw) = rmap leaf_map (build_leaf TT lit cls m pos kw).
  Proof.
    unfold build_leaf.
    destruct (find_class (t_classes TT) cls) as [k|]; [|reflexivity].
    destruct (find_ctor TT k m) as [c|]; [|reflexivity].
    rewrite apply_ctor_map.
    destruct (apply_ctor lit c pos kw) as [[args kws]|e]; reflexivity.
  Qed.

  Lemma is_null_map c : is_null (cond_map c) = is_null c.
  Proof. destruct c; reflexivity. Qed.

  Lemma leaves_map c : leaves (cond_map c) = map leaf_map (leaves c).
  Proof. induction c as [l|o a IHa b IHb]; cbn [cond_map leaves map]; [reflexivity|]. rewrite IHa, IHb, map_app. reflexivity. Qed.

  Lemma has_kind_map k c : has_kind k (cond_map c) = has_kind k c.
  Proof.
    unfold has_kind. rewrite leaves_map. induction (leaves c) as [|l ls IH]; cbn [map existsb]; [reflexivity|].
    rewrite IH. reflexivity.
  Qed.

  Lemma mk_bin_map o a b : mk_bin o (cond_map a) (cond_map b) = rmap cond_map (mk_bin o a b).
  Proof.
    unfold mk_bin. rewrite !is_null_map, !has_kind_map.
    destruct (is_null b); [reflexivity|]. destruct (is_null a); [reflexivity|].
    destruct ((has_kind DKey a || has_kind DKey b) && (has_kind DIndex a || has_kind DIndex b)); reflexivity.
  Qed.

  Lemma has_non_value_leaf_map c : has_non_value_leaf (cond_map c) = has_non_value_leaf c.
  Proof. induction c as [l|o a IHa b IHb]; cbn [cond_map has_non_value_leaf]; [reflexivity|]. rewrite IHa, IHb. reflexivity. Qed.

  (* filtering: the resolver of the mapped arguments agrees with the resolver of the originals *)
  Variables (resA : A -> res pyval) (resB : B -> res pyval).
  Hypothesis Hres : forall a, resB (f a) = resA a.

  Lemma mapM_res_map l : mapM resB (map f l) = mapM resA l.
  Proof. induction l as [|x l IH]; cbn [map mapM]; [reflexivity|]. rewrite Hres, IH. reflexivity. Qed.

  Lemma resolve_kw_map l : resolve_kw B resB (kmap l) = resolve_kw A resA l.
  Proof. induction l as [|[k x] l IH]; cbn [kmap map resolve_kw fst snd]; [reflexivity|]. fold (kmap l). rewrite Hres, IH. reflexivity. Qed.

  Lemma eval_item_map l x : eval_item TT resB (leaf_map l) x = eval_item TT resA l x.
  Proof.
    unfold eval_item, call_leaf. cbn [leaf_map l_pre l_args l_kwargs l_call].
    rewrite mapM_res_map, resolve_kw_map. reflexivity.
  Qed.

  Lemma filter_tree_map c d : filter_tree TT resB (cond_map c) d = filter_tree TT resA c d.
  Proof.
    induction c as [l|o a IHa b IHb]; cbn [cond_map filter_tree].
    - unfold filter_leaf. cbn [leaf_map l_kind].
      rewrite (mapM_ext _ (eval_item TT resA l)) by (intro; apply eval_item_map). reflexivity.
    - rewrite IHa, IHb. reflexivity.
  Qed.
End Naturality.

Lemma kmap_ALit_eq (kw : list (string * pyval)) :
  map (fun ka : string * pyval => (fst ka, ALit (snd ka))) kw = kmap pyval arg1 ALit kw.
Proof. reflexivity. Qed.

Lemma check_args_lit TT l : check_args TT (map ALit l) = Ok tt.
Proof. induction l as [|x l IH]; cbn [map check_args check_arg bind]; [reflexivity|exact IH]. Qed.

Lemma check_kw_lit TT l : check_kw TT (kmap pyval arg1 ALit l) = Ok tt.
Proof. induction l as [|[k x] l IH]; cbn [kmap map check_kw check_arg bind fst snd]; [reflexivity|exact IH]. Qed.

(* building a rule condition whose arguments are literals = building the plain condition *)
Lemma build1_lit TT (u : dslc pyval) :
  build1 TT (dslc_map ALit u) = rmap (cond_map pyval arg1 ALit) (build TT idlit u).
Proof.
  induction u as [cls m pos kw| |o a IHa b IHb]; cbn [dslc_map build1 build].
  - rewrite check_args_lit. cbn [bind]. rewrite kmap_ALit_eq, check_kw_lit. cbn [bind].
    rewrite (build_leaf_map pyval arg1 ALit idlit (lit1) (fun v => eq_refl) TT cls m pos kw).
    destruct (build_leaf TT idlit cls m pos kw); reflexivity.
  - reflexivity.
  - rewrite IHa, IHb.
    destruct (build TT idlit a) as [x|e]; cbn [rmap bind]; [|reflexivity].
    destruct (build TT idlit b) as [y|e]; cbn [rmap bind]; [|reflexivity].
    apply mk_bin_map.
Qed.

Lemma filter_tree_lit TT src (c : cond pyval) d :
  filter_tree TT (resolve1 TT src) (cond_map pyval arg1 ALit c) d = filter_tree TT res0 c d.
Proof. apply filter_tree_map. intros a. reflexivity. Qed.

(* ================================================================== *)
(* C. a concrete path selects at most one node of a well-formed document *)

Local Open Scope Z_scope.

Lemma strip2_val : forall fuel m e m' e',
  strip2 fuel m e = (m', e') -> (m = 0 /\ m' = 0) \/ (e <= e' /\ m = m' * 2 ^ (e' - e)).
Proof.
  induction fuel as [|f IH]; intros m e m' e' H; cbn [strip2] in H.
  - inversion H; subst. right. split; [lia|]. rewrite Z.sub_diag. lia.
  - destruct (m =? 0) eqn:Em.
    + apply Z.eqb_eq in Em. inversion H; subst. left. split; reflexivity.
    + destruct (Z.even m) eqn:Ev.
      * apply IH in H. apply Z.eqb_neq in Em.
        assert (Hm : m = 2 * (m / 2)).
        { apply Z.even_spec in Ev. destruct Ev as [k Hk]. subst m. rewrite Z.mul_comm, Z.div_mul by lia. lia. }
        destruct H as [[H0 H1]|[Hle Hv]].
        -- lia.
        -- right. split; [lia|]. rewrite Hm, Hv.
           replace (e' - e) with (Z.succ (e' - (e + 1))) by lia.
           rewrite Z.pow_succ_r by lia. ring.
      * inversion H; subst. right. split; [lia|]. rewrite Z.sub_diag. lia.
Qed.

Lemma canon_int_inj i j : canon i 0 = canon j 0 -> i = j.
Proof.
  unfold canon. intros H.
  destruct (strip2 (S (Z.to_nat (Z.log2 (Z.abs j)))) j 0) as [m' e'] eqn:Ej.
  apply strip2_val in H. apply strip2_val in Ej.
  destruct H as [[H0 H1]|[Hle Hv]]; destruct Ej as [[J0 J1]|[Jle Jv]]; subst; lia.
Qed.

Lemma py_eq_num a b kb : num_of b = Some kb ->
  py_eq a b = match num_of a with Some ka => num_eqb ka kb | None => false end.
Proof.
  intros Hb. destruct a; cbn [py_eq num_of]; rewrite Hb; try reflexivity.
Qed.

Lemma py_eq_str a s : py_eq a (VStr s) = match a with VStr t => String.eqb t s | _ => false end.
Proof. destruct a; try reflexivity. Qed.

Definition prim_key (v : pyval) : Prop :=
  match v with VStr _ | VFloat _ _ _ | VInt _ | VBool _ => True | _ => False end.

Lemma py_eq_prim_trans v a b : prim_key v -> py_eq a v = true -> py_eq b v = true -> py_eq a b = true.
Proof.
  intros Hv Ha Hb.
  assert (Hcase : (exists kv, num_of v = Some kv) \/ (exists s, v = VStr s)).
  { destruct v; try contradiction Hv; try (left; eexists; reflexivity). right; eexists; reflexivity. }
  destruct Hcase as [[kv Hkv]|[s ->]].
  - rewrite (py_eq_num _ _ _ Hkv) in Ha, Hb.
    destruct (num_of a) as [ka|] eqn:Ea; [|discriminate Ha].
    destruct (num_of b) as [kb|] eqn:Eb; [|discriminate Hb].
    rewrite (py_eq_num _ _ _ Eb), Ea.
    apply num_eqb_eq in Ha, Hb. subst. apply num_eqb_eq. reflexivity.
  - rewrite py_eq_str in Ha, Hb.
    destruct a; try discriminate Ha. destruct b; try discriminate Hb.
    apply String.eqb_eq in Ha, Hb. subst. cbn [py_eq num_of]. apply String.eqb_refl.
Qed.

(* keys that are pairwise different under == *)
Fixpoint pw_ne (ks : list pyval) : Prop :=
  match ks with
  | [] => True
  | k :: r => (forall k2, In k2 r -> py_eq k k2 = false) /\ pw_ne r
  end.

Lemma keys_distinct_pw ks : keys_distinct ks = true -> pw_ne ks.
Proof.
  induction ks as [|k r IH]; cbn [keys_distinct pw_ne]; [auto|].
  intros H. apply andb_true_iff in H as [H Hr]. apply andb_true_iff in H as [H1 _].
  split; [|exact (IH Hr)].
  intros k2 Hin. apply negb_true_iff in H1.
  destruct (py_eq k k2) eqn:E; [|reflexivity].
  assert (existsb (py_eq k) r = true) by (apply existsb_exists; exists k2; auto). congruence.
Qed.

Lemma zidx_pw : forall n s, pw_ne (zidx s n).
Proof.
  induction n as [|n IH]; intros s; cbn [zidx pw_ne]; [exact I|].
  split; [|apply IH].
  intros k2 Hin. destruct (zidx_in_ge _ _ _ Hin) as [j [-> Hj]].
  cbn [py_eq num_of]. destruct (num_eqb (canon s 0) (canon j 0)) eqn:E; [|reflexivity].
  apply num_eqb_eq in E. apply canon_int_inj in E. lia.
Qed.

Lemma doc_items_pw node : wf_val node = true -> pw_ne (map fst (doc_items node)).
Proof.
  intros Hwf. destruct node; cbn [doc_items map pw_ne]; auto.
  - rewrite map_fst_combine_len by apply zidx_length. apply zidx_pw.
  - apply keys_distinct_pw. apply (wf_dict_split _ Hwf).
Qed.

Lemma filter_eq_le1 v (items : list (pyval * pyval)) :
  prim_key v -> pw_ne (map fst items) ->
  (List.length (filter (fun it => py_eq (fst it) v) items) <= 1)%nat.
Proof.
  intros Hv. induction items as [|[k x] items IH]; intros Hpw; cbn [filter fst]; [cbn; lia|].
  cbn [map fst pw_ne] in Hpw. destruct Hpw as [Hk Hr]. specialize (IH Hr).
  destruct (py_eq k v) eqn:Ek; [|exact IH].
  assert (Hnil : filter (fun it => py_eq (fst it) v) items = []).
  { clear IH Hr. induction items as [|[k2 x2] items IH2]; cbn [filter fst]; [reflexivity|].
    destruct (py_eq k2 v) eqn:Ek2.
    - exfalso. pose proof (py_eq_prim_trans v k k2 Hv Ek Ek2) as Ht.
      rewrite (Hk k2) in Ht by (left; reflexivity). discriminate Ht.
    - apply IH2. intros k3 H3. apply Hk. right. exact H3. }
  rewrite Hnil. cbn. lia.
Qed.

Definition prim_part (p : spart) : Prop :=
  exists v, prim_key v /\
    (p = SPMap (QLeaf SKey (Q_equal_to v)) \/
     p = SPMol QNull (QLeaf SIndex (Q_equal_to v)) (QLeaf SKey (Q_equal_to v))).

Lemma tree_children_eq_key c v node l :
  scls_pre c = PNone -> scls_kind c <> DValue ->
  tree_children (QLeaf c (Q_equal_to v)) node = Some l ->
  l = filter (fun it => py_eq (fst it) v) (doc_items node).
Proof.
  intros Hp Hk. unfold tree_children. cbn [qnorm].
  destruct (doc_ok c node); [|discriminate].
  intros H. inversion H. apply filter_ext. intros it.
  cbn [sat_tree]. unfold sat_item, sat_datum. rewrite Hp. cbn [spec_pre q_sem].
  destruct (scls_kind c); [contradiction Hk; reflexivity| |]; reflexivity.
Qed.

Lemma children_prim_le1 p node : prim_part p -> wf_val node = true ->
  (List.length (children p node) <= 1)%nat.
Proof.
  intros [v [Hv Hp]] Hwf.
  pose proof (filter_eq_le1 v (doc_items node) Hv (doc_items_pw node Hwf)) as Hle.
  assert (Hnil : (List.length (@nil (pyval * pyval)) <= 1)%nat) by (cbn; lia).
  destruct Hp as [-> | ->]; unfold children.
  - destruct (is_map_node node); [|exact Hnil].
    destruct (tree_children _ node) as [l|] eqn:E; [|exact Hnil].
    apply tree_children_eq_key in E; [subst l; exact Hle|reflexivity|discriminate].
  - destruct (is_list_node node).
    + destruct (tree_children _ node) as [l|] eqn:E; [|exact Hnil].
      change (tree_children (QLeaf SIndex (Q_equal_to v)) node = Some l) in E.
      apply tree_children_eq_key in E; [subst l; exact Hle|reflexivity|discriminate].
    + destruct (is_map_node node); [|exact Hnil].
      destruct (tree_children _ node) as [l|] eqn:E; [|exact Hnil].
      change (tree_children (QLeaf SKey (Q_equal_to v)) node = Some l) in E.
      apply tree_children_eq_key in E; [subst l; exact Hle|reflexivity|discriminate].
Qed.

Lemma walk_prim_le1 : forall ps cp node, Forall prim_part ps -> wf_val node = true ->
  (List.length (walk ps cp node) <= 1)%nat.
Proof.
  induction ps as [|p ps IH]; intros cp node HF Hwf; cbn [walk]; [cbn; lia|].
  inversion HF as [|? ? Hp Hps]; subst.
  pose proof (children_prim_le1 p node Hp Hwf) as Hle.
  destruct (children p node) as [|[k c] [|kv2 rest]] eqn:Ec; cbn [flat_map List.length] in *; try lia.
  rewrite app_nil_r. apply IH; [exact Hps|].
  apply (children_wf p node k c Hwf). rewrite Ec. left. reflexivity.
Qed.
