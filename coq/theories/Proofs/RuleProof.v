(* C05 / C06 / C07 / C15: the model of rules and schemas (Rule.v, RunRule.v) against the
   specification (RuleSpec.v). *)
From Coq Require Import ZArith NArith List Bool String Lia.
From Valida Require Import Py Lang Defs Cond Dsl Check DocSem Path PathSpec Cast RuleDefs Rule RuleSpec
  RuleTerms Inst Run RunRule.
From Valida.Proofs Require Import PyFacts Tie C01Proof C02Proof C03Proof C04Proof.
Import ListNotations.
Local Open Scope string_scope.
Local Open Scope list_scope.

(* ================================================================== *)
(* A. every failed item has at least one textual reason (C05)          *)

Lemma nth_error_zip_with {X Y Z} (f : X -> Y -> Z) : forall a b i z,
  nth_error (zip_with f a b) i = Some z ->
  exists x y, nth_error a i = Some x /\ nth_error b i = Some y /\ z = f x y.
Proof.
  induction a as [|x a IH]; intros [|y b] [|i] z H; cbn in H; try discriminate H.
  - inversion H. exists x, y. repeat split.
  - cbn [nth_error]. apply IH. exact H.
Qed.

Definition reasons_of (tt : list tt_entry) (i : nat) : nat :=
  List.length (filter (fun e => entry_reason e i) tt).

Lemma reasons_of_app a b i : reasons_of (a ++ b) i = (reasons_of a i + reasons_of b i)%nat.
Proof. unfold reasons_of. rewrite filter_app, app_length. reflexivity. Qed.

(* C05: a datum that fails a condition comes with at least one reason *)
Theorem reasons_nonempty : forall (TT : tables) (A : Type) (resolve : A -> res pyval) (c : cond A) (d : data) (f : fres),
  filter_tree TT resolve c d = Ok f ->
  forall i, nth_error (fr_result f) i = Some false -> (1 <= num_reasons f i)%nat.
Proof.
  intros TT A resolve. unfold num_reasons. fold reasons_of.
  induction c as [l|o a IHa b IHb]; intros d f Hf i Hi.
  - cbn [filter_tree] in Hf. unfold filter_leaf in Hf.
    destruct (mapM (eval_item TT resolve l) (datums (l_kind l) d)) as [fl|e]; cbn [bind] in Hf; [|discriminate Hf].
    inversion Hf; subst f; clear Hf. cbn [fr_result fr_tt] in *.
    fold (reasons_of [TTLeaf fl] i). unfold reasons_of. cbn [filter entry_reason].
    rewrite nth_error_map in Hi.
    destruct (nth_error fl i) as [[[p ce] cf]|]; cbn [option_map] in Hi; [|discriminate Hi].
    inversion Hi as [Hr]. unfold flags_result in Hr.
    destruct p, ce, cf; cbn in Hr; try discriminate Hr; cbn; lia.
  - cbn [filter_tree] in Hf.
    destruct (filter_tree TT resolve a d) as [fa|e] eqn:Ea; cbn [bind] in Hf; [|discriminate Hf].
    destruct (filter_tree TT resolve b d) as [fb|e] eqn:Eb; cbn [bind] in Hf; [|discriminate Hf].
    inversion Hf; subst f; clear Hf. unfold combine_fres in *. cbn [fr_result fr_tt] in *.
    fold (reasons_of (fr_tt fa ++ fr_tt fb ++
       [TTOp o (zip_with orb (fr_pre fa) (fr_pre fb)) (zip_with orb (fr_cerr fa) (fr_cerr fb))
          (map negb (zip_with (bop_apply o) (fr_result fa) (fr_result fb)))]) i).
    rewrite !reasons_of_app.
    destruct (nth_error_zip_with _ _ _ _ _ Hi) as [x [y [Hx [Hy Hxy]]]].
    specialize (IHa d fa Ea i). specialize (IHb d fb Eb i).
    fold (reasons_of (fr_tt fa) i) in IHa. fold (reasons_of (fr_tt fb) i) in IHb.
    destruct o; cbn [bop_apply] in Hxy.
    + destruct x; [destruct y; [discriminate Hxy|]|].
      * specialize (IHb Hy). lia.
      * specialize (IHa Hx). lia.
    + destruct x; [discriminate Hxy|]. specialize (IHa Hx). lia.
    + unfold reasons_of at 3. cbn [filter entry_reason].
      assert (Hc : nth_b (map negb (zip_with (bop_apply BoXor) (fr_result fa) (fr_result fb))) i = true).
      { unfold nth_b. rewrite (nth_error_nth _ _ false (x := true)); [reflexivity|].
        rewrite nth_error_map. rewrite Hi. reflexivity. }
      rewrite Hc, !orb_true_r. cbn [List.length]. lia.
Qed.

(* ================================================================== *)
(* B. conditions whose arguments are all literals                       *)

Definition rmap {X Y} (g : X -> Y) (r : res X) : res Y :=
  match r with Ok x => Ok (g x) | Err e => Err e end.

Lemma rmap_bind {X Y Z} (g : Y -> Z) (r : res X) (k : X -> res Y) :
  rmap g (bind r k) = bind r (fun x => rmap g (k x)).
Proof. destruct r; reflexivity. Qed.

Definition store_go (X : Type) (e2 : list (string * X)) (extra_pos : list X) (extra_kw : list (string * X)) :=
  fix go (st : list store) (args : list X) (kws : list (string * X)) : res (list X * list (string * X)) :=
    match st with
    | [] => Ok (args, kws)
    | StPos p :: r => match aget X p e2 with Some v => go r (args ++ [v]) kws | None => Err OtherExc end
    | StKw k p :: r => match aget X p e2 with Some v => go r args (kws ++ [(k, v)]) | None => Err OtherExc end
    | StStar _ :: r => go r (args ++ extra_pos) kws
    | StDStar _ :: r => go r args (kws ++ extra_kw)
    end.

Lemma apply_ctor_unfold (X : Type) (lit : pyval -> X) c pos kw :
  apply_ctor lit c pos kw =
  let '(e0, missing, extra_pos) := cbind_pos X (c_params c) pos in
  let* _ := match c_vararg c, extra_pos with
            | None, _ :: _ => Err TypeError
            | _, _ => Ok tt
            end in
  let* (e1, missing', extra_kw) :=
    cbind_kw X (map fst (c_params c)) missing (match c_kwarg c with Some _ => true | None => false end) kw e0 [] in
  let* e2 := fill_defaults X lit missing' e1 in
  store_go X e2 extra_pos extra_kw (c_store c) [] [].
Proof. reflexivity. Qed.

Section Naturality.
  Variables (A B : Type) (f : A -> B).

  Definition kmap (l : list (string * A)) : list (string * B) := map (fun ka => (fst ka, f (snd ka))) l.

  Definition leaf_map (l : leaf A) : leaf B :=
    {| l_cls := l_cls l; l_kind := l_kind l; l_pre := l_pre l; l_call := l_call l;
       l_args := map f (l_args l); l_kwargs := kmap (l_kwargs l) |}.

  Fixpoint cond_map (c : cond A) : cond B :=
    match c with
    | CLeaf l => CLeaf (leaf_map l)
    | CBin o a b => CBin o (cond_map a) (cond_map b)
    end.

  Variables (lit : pyval -> A) (lit' : pyval -> B).
  Hypothesis Hlit : forall v, lit' v = f (lit v).

  Lemma kmap_app a b : kmap (a ++ b) = kmap a ++ kmap b.
  Proof. apply map_app. Qed.

  Lemma aget_kmap x e : aget B x (kmap e) = option_map f (aget A x e).
  Proof.
    induction e as [|[y v] e IH]; cbn; [reflexivity|].
    destruct (String.eqb x y); [reflexivity|exact IH].
  Qed.

  Lemma cbind_pos_map params : forall pos,
    cbind_pos B params (map f pos) =
    let '(e, rest, extra) := cbind_pos A params pos in (kmap e, rest, map f extra).
  Proof.
    induction params as [|[p d] ps IH]; intros pos; cbn [cbind_pos].
    - reflexivity.
    - destruct pos as [|v vs]; cbn [map]; [reflexivity|].
      rewrite IH. destruct (cbind_pos A ps vs) as [[e rest] extra]. reflexivity.
  Qed.

  Lemma cbind_kw_map params hk : forall kw missing e extra,
    cbind_kw B params missing hk (kmap kw) (kmap e) (kmap extra) =
    rmap (fun emx => (kmap (fst (fst emx)), snd (fst emx), kmap (snd emx)))
         (cbind_kw A params missing hk kw e extra).
  Proof.
    induction kw as [|[k v] kw IH]; intros missing e extra; cbn [cbind_kw kmap map fst snd].
    - reflexivity.
    - fold (kmap kw).
      destruct (existsb (fun m => String.eqb k (fst m)) missing).
      + exact (IH _ ((k, v) :: e) extra).
      + destruct (existsb (String.eqb k) params); [reflexivity|].
        destruct hk; [|reflexivity].
        specialize (IH missing e (extra ++ [(k, v)])). rewrite kmap_app in IH. exact IH.
  Qed.

  Lemma fill_defaults_map : forall missing e,
    fill_defaults B lit' missing (kmap e) = rmap kmap (fill_defaults A lit missing e).
  Proof.
    induction missing as [|[p [d|]] r IH]; intros e; cbn [fill_defaults].
    - reflexivity.
    - rewrite Hlit. exact (IH ((p, lit d) :: e)).
    - reflexivity.
  Qed.

  Definition pmap (ak : list A * list (string * A)) : list B * list (string * B) :=
    (map f (fst ak), kmap (snd ak)).

  Lemma store_go_map e2 xp xk : forall st args kws,
    store_go B (kmap e2) (map f xp) (kmap xk) st (map f args) (kmap kws) =
    rmap pmap (store_go A e2 xp xk st args kws).
  Proof.
    induction st as [|s st IH]; intros args kws; cbn [store_go].
    - reflexivity.
    - destruct s as [p|k p|p|p].
      + rewrite aget_kmap. destruct (aget A p e2) as [v|]; cbn [option_map]; [|reflexivity].
        specialize (IH (args ++ [v]) kws). rewrite map_app in IH. exact IH.
      + rewrite aget_kmap. destruct (aget A p e2) as [v|]; cbn [option_map]; [|reflexivity].
        specialize (IH args (kws ++ [(k, v)])). rewrite kmap_app in IH. exact IH.
      + specialize (IH (args ++ xp) kws). rewrite map_app in IH. exact IH.
      + specialize (IH args (kws ++ xk)). rewrite kmap_app in IH. exact IH.
  Qed.

  Lemma apply_ctor_map c pos kw :
    apply_ctor lit' c (map f pos) (kmap kw) = rmap pmap (apply_ctor lit c pos kw).
  Proof.
    rewrite !apply_ctor_unfold. rewrite cbind_pos_map.
    destruct (cbind_pos A (c_params c) pos) as [[e0 missing] xp].
    assert (Hva : match c_vararg c, map f xp with None, _ :: _ => @Err unit TypeError | _, _ => Ok tt end =
                  match c_vararg c, xp with None, _ :: _ => Err TypeError | _, _ => Ok tt end).
    { destruct (c_vararg c); destruct xp; reflexivity. }
    rewrite Hva. clear Hva.
    destruct (match c_vararg c, xp with None, _ :: _ => @Err unit TypeError | _, _ => Ok tt end); cbn [bind rmap]; [|reflexivity].
    pose proof (cbind_kw_map (map fst (c_params c)) (match c_kwarg c with Some _ => true | None => false end)
                  kw missing e0 []) as Hkw.
    change (kmap []) with (@nil (string * B)) in Hkw. rewrite Hkw. clear Hkw.
    destruct (cbind_kw A _ missing _ kw e0 []) as [[[e1 missing'] xk]|err]; cbn [bind rmap fst snd]; [|reflexivity].
    rewrite fill_defaults_map.
    destruct (fill_defaults A lit missing' e1) as [e2|err]; cbn [bind rmap]; [|reflexivity].
    exact (store_go_map e2 xp xk (c_store c) [] []).
  Qed.

  Variable TT : tables.

  Lemma build_leaf_map cls m pos kw :
    build_leaf TT lit' cls m (map f pos) (kmap kw) = rmap leaf_map (build_leaf TT lit cls m pos kw).
  Proof.
    unfold build_leaf.
    destruct (find_class (t_classes TT) cls) as [k|]; [|reflexivity].
    destruct (find_ctor TT k m) as [c|]; [|reflexivity].
    rewrite apply_ctor_map.
    destruct (apply_ctor lit c pos kw) as [[args kws]|e]; reflexivity.
  Qed.

  Lemma is_null_map c : is_null (cond_map c) = is_null c.
  Proof. destruct c; reflexivity. Qed.

  Lemma leaves_map c : leaves (cond_map c) = map leaf_map (leaves c).
  Proof. induction c as [l|o a IHa b IHb]; cbn [cond_map leaves map]; [reflexivity|]. rewrite IHa, IHb, map_app. reflexivity. Qed.

  Lemma has_kind_map k c : has_kind k (cond_map c) = has_kind k c.
  Proof.
    unfold has_kind. rewrite leaves_map. induction (leaves c) as [|l ls IH]; cbn [map existsb]; [reflexivity|].
    rewrite IH. reflexivity.
  Qed.

  Lemma mk_bin_map o a b : mk_bin o (cond_map a) (cond_map b) = rmap cond_map (mk_bin o a b).
  Proof.
    unfold mk_bin. rewrite !is_null_map, !has_kind_map.
    destruct (is_null b); [reflexivity|]. destruct (is_null a); [reflexivity|].
    destruct ((has_kind DKey a || has_kind DKey b) && (has_kind DIndex a || has_kind DIndex b)); reflexivity.
  Qed.

  Lemma has_non_value_leaf_map c : has_non_value_leaf (cond_map c) = has_non_value_leaf c.
  Proof. induction c as [l|o a IHa b IHb]; cbn [cond_map has_non_value_leaf]; [reflexivity|]. rewrite IHa, IHb. reflexivity. Qed.

  (* filtering: the resolver of the mapped arguments agrees with the resolver of the originals *)
  Variables (resA : A -> res pyval) (resB : B -> res pyval).
  Hypothesis Hres : forall a, resB (f a) = resA a.

  Lemma mapM_res_map l : mapM resB (map f l) = mapM resA l.
  Proof. induction l as [|x l IH]; cbn [map mapM]; [reflexivity|]. rewrite Hres, IH. reflexivity. Qed.

  Lemma resolve_kw_map l : resolve_kw B resB (kmap l) = resolve_kw A resA l.
  Proof. induction l as [|[k x] l IH]; cbn [kmap map resolve_kw fst snd]; [reflexivity|]. fold (kmap l). rewrite Hres, IH. reflexivity. Qed.

  Lemma eval_item_map l x : eval_item TT resB (leaf_map l) x = eval_item TT resA l x.
  Proof.
    unfold eval_item, call_leaf. cbn [leaf_map l_pre l_args l_kwargs l_call].
    rewrite mapM_res_map, resolve_kw_map. reflexivity.
  Qed.

  Lemma filter_tree_map c d : filter_tree TT resB (cond_map c) d = filter_tree TT resA c d.
  Proof.
    induction c as [l|o a IHa b IHb]; cbn [cond_map filter_tree].
    - unfold filter_leaf. cbn [leaf_map l_kind].
      rewrite (mapM_ext _ (eval_item TT resA l)) by (intro; apply eval_item_map). reflexivity.
    - rewrite IHa, IHb. reflexivity.
  Qed.
End Naturality.

Lemma kmap_ALit_eq (kw : list (string * pyval)) :
  map (fun ka : string * pyval => (fst ka, ALit (snd ka))) kw = kmap pyval arg1 ALit kw.
Proof. reflexivity. Qed.

Lemma check_args_lit TT l : check_args TT (map ALit l) = Ok tt.
Proof. induction l as [|x l IH]; cbn [map check_args check_arg bind]; [reflexivity|exact IH]. Qed.

Lemma check_kw_lit TT l : check_kw TT (kmap pyval arg1 ALit l) = Ok tt.
Proof. induction l as [|[k x] l IH]; cbn [kmap map check_kw check_arg bind fst snd]; [reflexivity|exact IH]. Qed.

(* building a rule condition whose arguments are literals = building the plain condition *)
Lemma build1_lit TT (u : dslc pyval) :
  build1 TT (dslc_map ALit u) = rmap (cond_map pyval arg1 ALit) (build TT idlit u).
Proof.
  induction u as [cls m pos kw| |o a IHa b IHb]; cbn [dslc_map build1 build].
  - rewrite check_args_lit. cbn [bind]. rewrite kmap_ALit_eq, check_kw_lit. cbn [bind].
    rewrite (build_leaf_map pyval arg1 ALit idlit (lit1) (fun v => eq_refl) TT cls m pos kw).
    destruct (build_leaf TT idlit cls m pos kw); reflexivity.
  - reflexivity.
  - rewrite IHa, IHb.
    destruct (build TT idlit a) as [x|e]; cbn [rmap bind]; [|reflexivity].
    destruct (build TT idlit b) as [y|e]; cbn [rmap bind]; [|reflexivity].
    apply mk_bin_map.
Qed.

Lemma filter_tree_lit TT src (c : cond pyval) d :
  filter_tree TT (resolve1 TT src) (cond_map pyval arg1 ALit c) d = filter_tree TT res0 c d.
Proof. apply filter_tree_map. intros a. reflexivity. Qed.

(* ================================================================== *)
(* C. a concrete path selects at most one node of a well-formed document *)

Local Open Scope Z_scope.

Lemma strip2_val : forall fuel m e m' e',
  strip2 fuel m e = (m', e') -> (m = 0 /\ m' = 0) \/ (e <= e' /\ m = m' * 2 ^ (e' - e)).
Proof.
  induction fuel as [|f IH]; intros m e m' e' H; cbn [strip2] in H.
  - inversion H; subst. right. split; [lia|]. rewrite Z.sub_diag. lia.
  - destruct (m =? 0) eqn:Em.
    + apply Z.eqb_eq in Em. inversion H; subst. left. split; reflexivity.
    + destruct (Z.even m) eqn:Ev.
      * apply IH in H. apply Z.eqb_neq in Em.
        assert (Hm : m = 2 * (m / 2)).
        { apply Z.even_spec in Ev. destruct Ev as [k Hk]. subst m. rewrite Z.mul_comm, Z.div_mul by lia. lia. }
        destruct H as [[H0 H1]|[Hle Hv]].
        -- lia.
        -- right. split; [lia|]. rewrite Hm, Hv.
           replace (e' - e) with (Z.succ (e' - (e + 1))) by lia.
           rewrite Z.pow_succ_r by lia. ring.
      * inversion H; subst. right. split; [lia|]. rewrite Z.sub_diag. lia.
Qed.

Lemma canon_int_inj i j : canon i 0 = canon j 0 -> i = j.
Proof.
  unfold canon. intros H.
  destruct (strip2 (S (Z.to_nat (Z.log2 (Z.abs j)))) j 0) as [m' e'] eqn:Ej.
  apply strip2_val in H. apply strip2_val in Ej.
  destruct H as [[H0 H1]|[Hle Hv]]; destruct Ej as [[J0 J1]|[Jle Jv]]; subst; lia.
Qed.

Lemma py_eq_num a b kb : num_of b = Some kb ->
  py_eq a b = match num_of a with Some ka => num_eqb ka kb | None => false end.
Proof.
  intros Hb. destruct a; cbn [py_eq num_of]; rewrite Hb; try reflexivity.
Qed.

Lemma py_eq_str a s : py_eq a (VStr s) = match a with VStr t => String.eqb t s | _ => false end.
Proof. destruct a; try reflexivity. Qed.

Definition prim_key (v : pyval) : Prop :=
  match v with VStr _ | VFloat _ _ _ | VInt _ | VBool _ => True | _ => False end.

Lemma py_eq_prim_trans v a b : prim_key v -> py_eq a v = true -> py_eq b v = true -> py_eq a b = true.
Proof.
  intros Hv Ha Hb.
  assert (Hcase : (exists kv, num_of v = Some kv) \/ (exists s, v = VStr s)).
  { destruct v; try contradiction Hv; try (left; eexists; reflexivity). right; eexists; reflexivity. }
  destruct Hcase as [[kv Hkv]|[s ->]].
  - rewrite (py_eq_num a _ _ Hkv) in Ha. rewrite (py_eq_num b _ _ Hkv) in Hb.
    destruct (num_of a) as [ka|] eqn:Ea; [|discriminate Ha].
    destruct (num_of b) as [kb|] eqn:Eb; [|discriminate Hb].
    rewrite (py_eq_num _ _ _ Eb), Ea.
    apply num_eqb_eq in Ha, Hb. subst. apply num_eqb_eq. reflexivity.
  - rewrite py_eq_str in Ha. rewrite py_eq_str in Hb.
    destruct a; try discriminate Ha. destruct b; try discriminate Hb.
    apply String.eqb_eq in Ha, Hb. subst. cbn [py_eq num_of]. apply String.eqb_refl.
Qed.

(* keys that are pairwise different under == *)
Fixpoint pw_ne (ks : list pyval) : Prop :=
  match ks with
  | [] => True
  | k :: r => (forall k2, In k2 r -> py_eq k k2 = false) /\ pw_ne r
  end.

Lemma keys_distinct_pw ks : keys_distinct ks = true -> pw_ne ks.
Proof.
  induction ks as [|k r IH]; cbn [keys_distinct pw_ne]; [auto|].
  intros H. apply andb_true_iff in H as [H Hr]. apply andb_true_iff in H as [H1 _].
  split; [|exact (IH Hr)].
  intros k2 Hin. apply negb_true_iff in H1.
  destruct (py_eq k k2) eqn:E; [|reflexivity].
  assert (existsb (py_eq k) r = true) by (apply existsb_exists; exists k2; auto). congruence.
Qed.

Lemma zidx_pw : forall n s, pw_ne (zidx s n).
Proof.
  induction n as [|n IH]; intros s; cbn [zidx pw_ne]; [exact I|].
  split; [|apply IH].
  intros k2 Hin. destruct (zidx_in_ge _ _ _ Hin) as [j [-> Hj]].
  cbn [py_eq num_of]. destruct (num_eqb (canon s 0) (canon j 0)) eqn:E; [|reflexivity].
  apply num_eqb_eq in E. apply canon_int_inj in E. lia.
Qed.

Lemma doc_items_pw node : wf_val node = true -> pw_ne (map fst (doc_items node)).
Proof.
  intros Hwf. destruct node; cbn [doc_items map pw_ne]; auto.
  - rewrite map_fst_combine_len by apply zidx_length. apply zidx_pw.
  - apply keys_distinct_pw. apply (wf_dict_split _ Hwf).
Qed.

Lemma filter_eq_le1 v (items : list (pyval * pyval)) :
  prim_key v -> pw_ne (map fst items) ->
  (List.length (filter (fun it => py_eq (fst it) v) items) <= 1)%nat.
Proof.
  intros Hv. induction items as [|[k x] items IH]; intros Hpw; cbn [filter fst]; [cbn; lia|].
  cbn [map fst pw_ne] in Hpw. destruct Hpw as [Hk Hr]. specialize (IH Hr).
  destruct (py_eq k v) eqn:Ek; [|exact IH].
  assert (Hnil : filter (fun it => py_eq (fst it) v) items = []).
  { clear IH Hr. induction items as [|[k2 x2] items IH2]; cbn [filter fst]; [reflexivity|].
    destruct (py_eq k2 v) eqn:Ek2.
    - exfalso. pose proof (py_eq_prim_trans v k k2 Hv Ek Ek2) as Ht.
      rewrite (Hk k2) in Ht by (left; reflexivity). discriminate Ht.
    - apply IH2. intros k3 H3. apply Hk. right. exact H3. }
  rewrite Hnil. cbn. lia.
Qed.

Definition prim_part (p : spart) : Prop :=
  exists v, prim_key v /\
    (p = SPMap (QLeaf SKey (Q_equal_to v)) \/
     p = SPMol QNull (QLeaf SIndex (Q_equal_to v)) (QLeaf SKey (Q_equal_to v))).

Lemma tree_children_eq_key c v node l :
  scls_pre c = PNone -> scls_kind c <> DValue ->
  tree_children (QLeaf c (Q_equal_to v)) node = Some l ->
  l = filter (fun it => py_eq (fst it) v) (doc_items node).
Proof.
  intros Hp Hk. unfold tree_children. cbn [qnorm].
  destruct (doc_ok c node); [|discriminate].
  intros H. inversion H. apply filter_ext. intros it.
  cbn [sat_tree]. unfold sat_item, sat_datum. rewrite Hp. cbn [spec_pre q_sem].
  destruct (scls_kind c); [contradiction Hk; reflexivity| |]; reflexivity.
Qed.

Lemma children_prim_le1 p node : prim_part p -> wf_val node = true ->
  (List.length (children p node) <= 1)%nat.
Proof.
  intros [v [Hv Hp]] Hwf.
  pose proof (filter_eq_le1 v (doc_items node) Hv (doc_items_pw node Hwf)) as Hle.
  assert (Hnil : (List.length (@nil (pyval * pyval)) <= 1)%nat) by (cbn; lia).
  destruct Hp as [-> | ->]; unfold children.
  - destruct (is_map_node node); [|exact Hnil].
    destruct (tree_children _ node) as [l|] eqn:E; [|exact Hnil].
    apply tree_children_eq_key in E; [subst l; exact Hle|reflexivity|discriminate].
  - destruct (is_list_node node).
    + destruct (tree_children _ node) as [l|] eqn:E; [|exact Hnil].
      change (tree_children (QLeaf SIndex (Q_equal_to v)) node = Some l) in E.
      apply tree_children_eq_key in E; [subst l; exact Hle|reflexivity|discriminate].
    + destruct (is_map_node node); [|exact Hnil].
      destruct (tree_children _ node) as [l|] eqn:E; [|exact Hnil].
      change (tree_children (QLeaf SKey (Q_equal_to v)) node = Some l) in E.
      apply tree_children_eq_key in E; [subst l; exact Hle|reflexivity|discriminate].
Qed.

Lemma walk_prim_le1 : forall ps cp node, Forall prim_part ps -> wf_val node = true ->
  (List.length (walk ps cp node) <= 1)%nat.
Proof.
  induction ps as [|p ps IH]; intros cp node HF Hwf; cbn [walk]; [cbn; lia|].
  inversion HF as [|? ? Hp Hps]; subst.
  pose proof (children_prim_le1 p node Hp Hwf) as Hle.
  destruct (children p node) as [|[k c] [|kv2 rest]] eqn:Ec; cbn [flat_map List.length] in *; try lia.
  rewrite app_nil_r. apply IH; [exact Hps|].
  apply (children_wf p node k c Hwf). rewrite Ec. left. reflexivity.
Qed.

(* concrete paths are made of primitive parts; a path without parts is concrete *)
Lemma spart_of_prim t p : spart_of t = Ok (p, false) -> prim_part p.
Proof.
  destruct t as [v|k v c l|i v c l|k i v lc mc c l].
  - destruct v; cbn [spart_of]; intros H; try discriminate H; inversion H; eexists; (split; [|eauto]); exact I.
  - rewrite spart_of_map. destruct (map_tree SKey c k v); cbn [bind]; intros H; discriminate H.
  - rewrite spart_of_list. destruct (map_tree SIndex c i v); cbn [bind]; intros H; discriminate H.
  - rewrite spart_of_mol. unfold mol_spec.
    destruct (G SIndex lc i); cbn [bind]; [|intros H; discriminate H].
    destruct (G SKey mc k); cbn [bind]; [|intros H; discriminate H].
    destruct (G SValue c v); cbn [bind]; intros H; discriminate H.
Qed.

Lemma sparts_of_inv : forall ts ps conc, sparts_of ts = Ok (ps, conc) ->
  (conc = true -> Forall prim_part ps) /\ (ps = [] -> conc = true).
Proof.
  induction ts as [|t ts IH]; intros ps conc H; cbn [sparts_of] in H.
  - inversion H; subst. split; intros; [constructor|reflexivity].
  - destruct (spart_of t) as [[p ex]|e] eqn:Et; cbn [bind] in H; [|discriminate H].
    destruct (sparts_of ts) as [[ps' conc']|e] eqn:Ets; cbn [bind] in H; [|discriminate H].
    inversion H; subst. split; [|intros Hn; discriminate Hn].
    intros Hc. apply andb_true_iff in Hc as [Hex Hc']. apply negb_true_iff in Hex. subst ex.
    constructor; [exact (spart_of_prim t p Et)|]. exact (proj1 (IH _ _ eq_refl) Hc').
Qed.

Lemma spec_mod_keeps p m p' : spec_mod p m = Ok p' ->
  sp_parts p' = sp_parts p /\ sp_concrete p' = sp_concrete p.
Proof.
  unfold spec_mod. destruct (sdt_of_name m).
  - destruct (sp_dt p); intros H; inversion H; split; reflexivity.
  - destruct (smt_of_name m); [|discriminate].
    destruct (sp_mt p); try discriminate. destruct (sp_concrete p) eqn:Ec; [discriminate|].
    intros H; inversion H; cbn. split; [reflexivity|]. first [exact Ec|reflexivity].
Qed.

Lemma spec_mods_keeps ms : forall p p', spec_mods p ms = Ok p' ->
  sp_parts p' = sp_parts p /\ sp_concrete p' = sp_concrete p.
Proof.
  induction ms as [|m ms IH]; intros p p' H; cbn [spec_mods] in H.
  - inversion H; split; reflexivity.
  - destruct (spec_mod p m) as [q|e] eqn:Em; cbn [bind] in H; [|discriminate H].
    apply spec_mod_keeps in Em as [E1 E2]. apply IH in H as [E3 E4]. split; congruence.
Qed.

Lemma spath_of_inv st sp : spath_of st = Ok sp ->
  (sp_concrete sp = true -> Forall prim_part (sp_parts sp)) /\ (sp_parts sp = [] -> sp_concrete sp = true).
Proof.
  unfold spath_of. destruct (sparts_of (st_parts st)) as [[ps conc]|e] eqn:Ep; cbn [bind]; [|discriminate].
  intros H. apply spec_mods_keeps in H as [E1 E2]. cbn [sp_parts sp_concrete] in E1, E2.
  rewrite E1, E2. exact (sparts_of_inv _ _ _ Ep).
Qed.

(* ================================================================== *)
(* D. the selection of a rule: get_data(doc, return_paths=True) as (value, path) pairs *)

Definition plain (sp : spath) : Prop := sp_dt sp = SdNone /\ sp_mt sp = SmNone /\ sp_src sp = None.

(* spec invariants of a path built through the API *)
Definition sp_inv (sp : spath) : Prop :=
  (sp_concrete sp = true -> Forall prim_part (sp_parts sp)) /\ (sp_parts sp = [] -> sp_concrete sp = true).

Definition sel_of (w : list (list pyval * pyval)) : list (pyval * pyval) :=
  map (fun pv => (snd pv, VTuple (fst pv))) w.

Lemma sel_of_length w : List.length (sel_of w) = List.length w.
Proof. apply map_length. Qed.

Lemma map_fst_sel_of w : map fst (sel_of w) = map snd w.
Proof. unfold sel_of. rewrite map_map. reflexivity. Qed.

Lemma mapM_ok {X Y} (g : X -> Y) l : mapM (fun x => Ok (g x)) l = Ok (map g l).
Proof. induction l as [|x l IH]; cbn [mapM map bind]; [reflexivity|]. rewrite IH. reflexivity. Qed.

Definition as_pair (x : pyval) : res (pyval * pyval) :=
  match x with VTuple [v; cp] => Ok (v, cp) | _ => Err TypeError end.

Lemma out_pairs (w : list (list pyval * pyval)) :
  map (fun x : pyval * list pyval => VTuple [fst x; VTuple (snd x)]) (combine (map snd w) (map fst w)) =
  map (fun pv => VTuple [snd pv; VTuple (fst pv)]) w.
Proof. induction w as [|[cp v] w IH]; cbn [map combine fst snd]; [reflexivity|]. rewrite IH. reflexivity. Qed.

Lemma mapM_as_pair w : mapM as_pair (map (fun pv : list pyval * pyval => VTuple [snd pv; VTuple (fst pv)]) w) = Ok (sel_of w).
Proof.
  induction w as [|[cp v] w IH]; cbn [map mapM as_pair bind fst snd sel_of]; [reflexivity|].
  fold (sel_of w). rewrite IH. reflexivity.
Qed.

Lemma selection_spec sp p doc :
  path_rel sp p -> plain sp -> sp_inv sp ->
  (sp_concrete sp = true -> (List.length (walk (sp_parts sp) [] doc) <= 1)%nat) ->
  py_truthy doc = true ->
  selection T p doc = Ok (sel_of (walk (sp_parts sp) [] doc)).
Proof.
  intros Hrel (Hdt & Hmt & Hsrc) (Hprim & Hnil) Hle Htr.
  unfold selection. change res0' with res0. rewrite (get_data_spec sp p (Some doc) true Hrel).
  destruct Hrel as (_ & Hc & _). rewrite Hc. clear Hc.
  unfold spec_get_data. rewrite Hsrc, Htr, Hdt.
  destruct (sp_parts sp) as [|s0 ss] eqn:Eparts.
  - rewrite (Hnil eq_refl). cbn. reflexivity.
  - cbv zeta. destruct (walk (s0 :: ss) [] doc) as [|pn w] eqn:Ew.
    + cbn [bind]. destruct (sp_concrete sp); reflexivity.
    + assert (Em : mapM (fun pv : list pyval * pyval => spec_dt SdNone (snd pv)) (pn :: w) = Ok (map snd (pn :: w))).
      { apply (mapM_ok (fun pv : list pyval * pyval => snd pv)). }
      rewrite Em. cbn [bind]. rewrite out_pairs.
      unfold spec_multi. rewrite Hmt.
      destruct (sp_concrete sp) eqn:Ec.
      * specialize (Hle eq_refl). destruct w as [|pn2 w]; [|cbn [List.length] in Hle; lia].
        destruct pn as [cp v]. reflexivity.
      * cbn [bind]. apply (mapM_as_pair (pn :: w)).
Qed.

(* ================================================================== *)
(* E. judging a selection                                               *)

Fixpoint spec_fails (i : Z) (sel : list (list pyval * pyval)) (r : list bool) : list pyval :=
  match sel, r with
  | (cp, v) :: s', b :: r' =>
      if b then spec_fails (i + 1) s' r'
      else VTuple [VInt i; v; VTuple cp; VBool true] :: spec_fails (i + 1) s' r'
  | _, _ => []
  end.

Lemma spec_verdict_unfold pn w t :
  spec_verdict (pn :: w) t =
  let result := map (sat_tree (qnorm t)) (combine (zidx 0 (List.length (pn :: w))) (map snd (pn :: w))) in
  let fails := spec_fails 0 (pn :: w) result in
  VTuple [VBool (forallb (fun b => b) result); VBool true; VInt (Z.of_nat (List.length fails)); VList fails].
Proof. reflexivity. Qed.

Lemma failures_go f : forall w res i,
  (forall k, nth_error res k = Some false -> (1 <= num_reasons f (i + k))%nat) ->
  map obs_failure (failures_of i f (sel_of w) res) = spec_fails (Z.of_nat i) w res.
Proof.
  induction w as [|[cp v] w IH]; intros res i H; [reflexivity|].
  destruct res as [|b res]; [reflexivity|].
  cbn [sel_of map failures_of spec_fails fst snd]. fold (sel_of w).
  assert (Hi : Z.of_nat i + 1 = Z.of_nat (S i)) by lia.
  assert (IH' : map obs_failure (failures_of (S i) f (sel_of w) res) = spec_fails (Z.of_nat i + 1) w res).
  { rewrite Hi. apply IH. intros k Hk. specialize (H (S k) Hk). rewrite Nat.add_succ_r in H. exact H. }
  destruct b; [exact IH'|].
  cbn [map]. rewrite IH'. f_equal. unfold obs_failure. cbn [f_index f_value f_path f_reasons].
  specialize (H O eq_refl). rewrite Nat.add_0_r in H.
  assert (Hr : (0 <? Z.of_nat (num_reasons f i)) = true) by (apply Z.ltb_lt; lia).
  rewrite Hr. reflexivity.
Qed.

(* every reported failure carries a concrete path (a tuple of keys) *)
Definition tuple_paths (t : rtest) : Prop :=
  Forall (fun fl => exists cp, f_path fl = VTuple cp) (rt_failures t).

Lemma failures_of_paths f : forall w res i,
  Forall (fun fl => exists cp, f_path fl = VTuple cp) (failures_of i f (sel_of w) res).
Proof.
  induction w as [|[cp v] w IH]; intros res i; [constructor|].
  destruct res as [|b res]; [constructor|].
  cbn [sel_of map failures_of fst snd]. fold (sel_of w).
  destruct b; [apply IH|]. constructor; [cbn [f_path]; eauto|apply IH].
Qed.

Lemma has_nvl_cond_of n :
  forallb (fun cq : scls * dsl => dkind_eqb (scls_kind (fst cq)) DValue) (qleaves n) = true ->
  has_non_value_leaf (cond_of n) = false.
Proof.
  induction n as [c q| |o a IHa b IHb]; cbn [qleaves forallb cond_of has_non_value_leaf fst].
  - rewrite expected_kind, andb_true_r. intros ->. reflexivity.
  - reflexivity.
  - rewrite forallb_app. intros H. apply andb_true_iff in H as [Ha Hb]. rewrite (IHa Ha), (IHb Hb). reflexivity.
Qed.

Lemma top_check_ok {A} (c : cond A) : has_non_value_leaf c = false ->
  match c with
  | CLeaf l => match l_kind l with DKey => Err TypeError | _ => Ok tt end
  | _ => Ok tt
  end = Ok tt.
Proof.
  destruct c as [l|o a b]; [|reflexivity]. cbn [has_non_value_leaf].
  destruct (l_kind l); cbn; intros H; try discriminate H; reflexivity.
Qed.

Definition lit_cond (t : qtree) : cond arg1 := cond_map pyval arg1 ALit (cond_of (qnorm t)).

(* RuleTest._test: the verdict on the document the rule is judged on *)
Lemma judge_spec p t casts jd w :
  selection T p jd = Ok (sel_of w) ->
  qtree_ok t = true -> value_only t = true ->
  exists rt, judge T {| r_path := p; r_cond := lit_cond t; r_cast := casts |} jd = Ok rt /\
             obs_rtest rt = spec_verdict w t /\ rt_data rt = jd /\ tuple_paths rt.
Proof.
  intros Hsel Hok Hvo. unfold judge. cbn [r_path r_cond]. rewrite Hsel. cbn [bind].
  destruct w as [|pn w].
  - cbn [sel_of map]. eexists; split; [reflexivity|]. split; [reflexivity|]. split; [reflexivity|constructor].
  - remember (pn :: w) as W eqn:EW.
    assert (Hne : exists x xs, sel_of W = x :: xs) by (subst W; cbn [sel_of map]; eauto).
    destruct Hne as [x [xs Ex]]. rewrite Ex. rewrite <- Ex. clear x xs Ex.
    assert (Hnv : has_non_value_leaf (lit_cond t) = false).
    { unfold lit_cond. rewrite has_non_value_leaf_map. apply has_nvl_cond_of.
      rewrite qleaves_qnorm. exact Hvo. }
    rewrite (top_check_ok _ Hnv), Hnv. cbn [bind].
    unfold lit_cond at 1. rewrite filter_tree_lit.
    set (d := {| d_is_list := true; d_keys := zrange_from 0 (List.length (sel_of W)); d_vals := map fst (sel_of W) |}).
    assert (Hlen : List.length (map snd W) = List.length W) by apply map_length.
    destruct (filter_cond_of (qnorm t) d (VList (map snd W))) as [f [Ef Hr]].
    + rewrite qtree_ok_qnorm. exact Hok.
    + cbn [d d_keys doc_items]. rewrite zrange_zidx, sel_of_length, Hlen.
      rewrite map_fst_combine by (rewrite zidx_length; symmetry; exact Hlen). reflexivity.
    + cbn [d d_vals doc_items]. rewrite map_fst_sel_of.
      rewrite map_snd_combine by (rewrite zidx_length; reflexivity). reflexivity.
    + rewrite Ef. cbn [bind]. eexists; split; [reflexivity|]. split; [|split; [reflexivity|apply failures_of_paths]].
      unfold obs_rtest. cbn [rt_valid rt_tested rt_failures].
      subst W. rewrite spec_verdict_unfold. cbv zeta. remember (pn :: w) as W eqn:EW.
      cbn [doc_items] in Hr. rewrite Hlen in Hr. rewrite <- Hr.
      assert (HF : map obs_failure (failures_of 0 f (sel_of W) (fr_result f)) = spec_fails 0 W (fr_result f)).
      { apply (failures_go f W (fr_result f) 0).
        intros k Hk. exact (reasons_nonempty T pyval res0 _ d f Ef k Hk). }
      rewrite <- HF, map_length. reflexivity.
Qed.

(* ================================================================== *)
(* F. construction of a rule                                            *)

Definition rule_rel (sp : spath) (sr : srule) (r : rule) : Prop :=
  path_rel sp (r_path r) /\ r_cond r = lit_cond (sr_cond sr) /\ r_cast r = sr_cast sr.

(* the spec side of Rule(path, condition, cast): the path, then the condition *)
Definition spath1 (sr : srule) : res spath :=
  let* sp := spath_of (sr_path sr) in
  let* _ := if buildable (sr_cond sr) then Ok tt else Err TypeError in Ok sp.

Lemma mk_rule_spec sr : srule_ok sr = true ->
  match spath1 sr with
  | Err e => mk_rule T (srule_term sr) = Err e
  | Ok sp => exists r, mk_rule T (srule_term sr) = Ok r /\ rule_rel sp sr r /\ sp_inv sp
  end.
Proof.
  unfold srule_ok. intros H. apply andb_true_iff in H as [Hp Hc].
  unfold spath1, mk_rule, srule_term. cbn [rt_path_t rt_cond_t rt_cast_t].
  change id0 with idlit.
  destruct (mk_path_spec (sr_path sr) Hp) as [[e [E1 E2]]|[sp [p [E1 [E2 Hrel]]]]]; rewrite E1, E2; cbn [bind].
  - reflexivity.
  - rewrite build1_lit, (build_qterm _ Hc). unfold build_expect, buildable.
    destruct (qmixed (qnorm (sr_cond sr))); cbn [negb rmap bind]; [reflexivity|].
    eexists; split; [reflexivity|]. split.
    + unfold rule_rel. cbn [r_path r_cond r_cast]. auto.
    + exact (spath_of_inv _ _ E1).
Qed.

(* ================================================================== *)
(* G. casts: writes into the copy along paths of the original           *)

(* [sk a b]: b is a with some string leaves replaced (the shape of the containers is unchanged) *)
Inductive sk : pyval -> pyval -> Prop :=
| sk_refl a : sk a a
| sk_str s b : sk (VStr s) b
| sk_list l l' : Forall2 sk l l' -> sk (VList l) (VList l')
| sk_dict d d' : Forall2 (fun e e' : pyval * pyval => fst e = fst e' /\ sk (snd e) (snd e')) d d' ->
                 sk (VDict d) (VDict d').

Lemma Forall2_refl_sk l : Forall2 sk l l.
Proof. induction l; constructor; [apply sk_refl|assumption]. Qed.

Lemma Forall2_refl_ske (d : list (pyval * pyval)) :
  Forall2 (fun e e' : pyval * pyval => fst e = fst e' /\ sk (snd e) (snd e')) d d.
Proof. induction d; constructor; [split; [reflexivity|apply sk_refl]|assumption]. Qed.

Lemma sk_list_inv l b : sk (VList l) b -> exists l', b = VList l' /\ Forall2 sk l l'.
Proof. intros H. inversion H; subst; eexists; split; try reflexivity; [apply Forall2_refl_sk|assumption]. Qed.

Lemma sk_dict_inv d b : sk (VDict d) b ->
  exists d', b = VDict d' /\ Forall2 (fun e e' : pyval * pyval => fst e = fst e' /\ sk (snd e) (snd e')) d d'.
Proof. intros H. inversion H; subst; eexists; split; try reflexivity; [apply Forall2_refl_ske|assumption]. Qed.

Lemma dict_look_sk k : forall d d' c,
  Forall2 (fun e e' : pyval * pyval => fst e = fst e' /\ sk (snd e) (snd e')) d d' ->
  dict_look k d = Some c -> exists c', dict_look k d' = Some c' /\ sk c c'.
Proof.
  induction d as [|[k2 v2] d IH]; intros d' c HF Hl; [discriminate Hl|].
  inversion HF as [|? [k2' v2'] ? d2 [Hk Hv] HF']; subst. cbn [fst snd] in Hk, Hv. subst k2'.
  cbn [dict_look] in *. destruct (py_eq k k2).
  - inversion Hl; subst. eauto.
  - apply IH; assumption.
Qed.

Lemma dict_set_sk k x : forall d d' c,
  Forall2 (fun e e' : pyval * pyval => fst e = fst e' /\ sk (snd e) (snd e')) d d' ->
  dict_look k d = Some c -> sk c x ->
  exists d'', dict_set k x d' = Some d'' /\
              Forall2 (fun e e' : pyval * pyval => fst e = fst e' /\ sk (snd e) (snd e')) d d''.
Proof.
  induction d as [|[k2 v2] d IH]; intros d' c HF Hl Hx; [discriminate Hl|].
  inversion HF as [|? [k2' v2'] ? d2 [Hk Hv] HF']; subst. cbn [fst snd] in Hk, Hv. subst k2'.
  cbn [dict_look] in Hl. cbn [dict_set]. destruct (py_eq k k2).
  - inversion Hl; subst. eexists; split; [reflexivity|]. constructor; [split; [reflexivity|exact Hx]|exact HF'].
  - destruct (IH d2 c HF' Hl Hx) as [d'' [Es HF'']]. rewrite Es.
    eexists; split; [reflexivity|]. constructor; [split; [reflexivity|exact Hv]|exact HF''].
Qed.

Lemma Forall2_len {X Y} (R : X -> Y -> Prop) l l' : Forall2 R l l' -> List.length l = List.length l'.
Proof. induction 1; cbn; [reflexivity|]. f_equal. assumption. Qed.

Lemma norm_index_len {X Y} (l : list X) (l' : list Y) k :
  List.length l = List.length l' -> norm_index l k = norm_index l' k.
Proof. unfold norm_index. intros ->. reflexivity. Qed.

Lemma list_set_sk x : forall l l' i c,
  Forall2 sk l l' -> nth_error l i = Some c -> sk c x ->
  exists l'', list_set l' i x = Some l'' /\ Forall2 sk l l''.
Proof.
  induction l as [|y l IH]; intros l' i c HF Hn Hx; [destruct i; discriminate Hn|].
  inversion HF as [|? y' ? l2 Hy HF']; subst.
  destruct i as [|i]; cbn [nth_error list_set] in *.
  - inversion Hn; subst. eexists; split; [reflexivity|]. constructor; assumption.
  - destruct (IH l2 i c HF' Hn Hx) as [l'' [Es HF'']]. rewrite Es.
    eexists; split; [reflexivity|]. constructor; assumption.
Qed.

Lemma nth_error_sk : forall l l' i c, Forall2 sk l l' -> nth_error l i = Some c ->
  exists c', nth_error l' i = Some c' /\ sk c c'.
Proof.
  induction l as [|y l IH]; intros l' i c HF Hn; [destruct i; discriminate Hn|].
  inversion HF as [|? y' ? l2 Hy HF']; subst.
  destruct i as [|i]; cbn [nth_error] in *.
  - inversion Hn; subst. eauto.
  - apply IH; assumption.
Qed.

(* writing at a path of the original that holds a string succeeds in the copy *)
Lemma sk_set x : forall cp a b s, sk a b -> get_at a cp = Some (VStr s) ->
  exists b', set_at b cp x = Some b' /\ sk a b'.
Proof.
  induction cp as [|k r IH]; intros a b s Hsk Hg.
  - cbn [get_at] in Hg. inversion Hg; subst. eexists; split; [reflexivity|apply sk_str].
  - cbn [get_at] in Hg. destruct a; try discriminate Hg.
    + destruct (sk_list_inv _ _ Hsk) as [l' [-> HF]].
      destruct (norm_index l k) as [i|] eqn:Ei; [|discriminate Hg].
      destruct (nth_error l i) as [c|] eqn:En; [|discriminate Hg].
      destruct (nth_error_sk _ _ _ _ HF En) as [c' [En' Hc]].
      destruct (IH c c' s Hc Hg) as [c'' [Es Hc'']].
      destruct (list_set_sk c'' _ _ _ _ HF En Hc'') as [l'' [El HF'']].
      cbn [set_at]. rewrite <- (norm_index_len l l' k (Forall2_len _ _ _ HF)), Ei, En', Es, El.
      eexists; split; [reflexivity|]. apply sk_list. exact HF''.
    + destruct (sk_dict_inv _ _ Hsk) as [d' [-> HF]].
      destruct (dict_look k d) as [c|] eqn:El; [|discriminate Hg].
      destruct (dict_look_sk _ _ _ _ HF El) as [c' [El' Hc]].
      destruct (IH c c' s Hc Hg) as [c'' [Es Hc'']].
      destruct (dict_set_sk k c'' _ _ _ HF El Hc'') as [d'' [Ed HF'']].
      cbn [set_at]. rewrite El', Es, Ed.
      eexists; split; [reflexivity|]. apply sk_dict. exact HF''.
Qed.

Lemma sk_nonempty a b : sk a b -> nonempty_container a = true -> nonempty_container b = true.
Proof.
  intros Hsk Hne. destruct a; try discriminate Hne.
  - destruct (sk_list_inv _ _ Hsk) as [l' [-> HF]]. destruct l; [discriminate Hne|]. inversion HF; reflexivity.
  - destruct (sk_dict_inv _ _ Hsk) as [d' [-> HF]]. destruct d; [discriminate Hne|]. inversion HF; reflexivity.
Qed.

Lemma nonempty_truthy a : nonempty_container a = true -> py_truthy a = true.
Proof. destruct a; try discriminate; [destruct l|destruct d]; try discriminate; reflexivity. Qed.

(* well-formedness is preserved by writes of well-formed values *)
Lemma wf_dict_join d : wf_entries d = true -> keys_distinct (map fst d) = true -> wf_val (VDict d) = true.
Proof. intros H1 H2. cbn [wf_val]. fold wf_entries. rewrite H1, H2. reflexivity. Qed.

Lemma dict_look_wf k : forall d c, wf_entries d = true -> dict_look k d = Some c -> wf_val c = true.
Proof.
  induction d as [|[k2 v2] d IH]; intros c Hwf Hl; [discriminate Hl|].
  cbn [wf_entries] in Hwf. rewrite !andb_true_iff in Hwf. destruct Hwf as [[[Hk Hh] Hv] Hr].
  cbn [dict_look] in Hl. destruct (py_eq k k2); [inversion Hl; subst; exact Hv|exact (IH c Hr Hl)].
Qed.

Lemma dict_set_wf k x : forall d d', dict_set k x d = Some d' ->
  map fst d' = map fst d /\ (wf_entries d = true -> wf_val x = true -> wf_entries d' = true).
Proof.
  induction d as [|[k2 v2] d IH]; intros d' Hs; [discriminate Hs|].
  cbn [dict_set] in Hs. destruct (py_eq k k2).
  - inversion Hs; subst. split; [reflexivity|]. cbn [wf_entries]. intros Hwf Hx.
    rewrite !andb_true_iff in *. tauto.
  - destruct (dict_set k x d) as [r'|] eqn:Er; [|discriminate Hs]. inversion Hs; subst.
    destruct (IH r' eq_refl) as [Hk Hw]. split; [cbn [map fst]; rewrite Hk; reflexivity|].
    cbn [wf_entries]. intros Hwf Hx. rewrite !andb_true_iff in *. destruct Hwf as [[[H1 H2] H3] H4].
    repeat split; auto.
Qed.

Lemma list_set_wf x : forall (l : list pyval) i l', list_set l i x = Some l' ->
  forallb wf_val l = true -> wf_val x = true -> forallb wf_val l' = true.
Proof.
  induction l as [|y l IH]; intros i l' Hs Hwf Hx; [destruct i; discriminate Hs|].
  cbn [forallb] in Hwf. apply andb_true_iff in Hwf as [Hy Hl].
  destruct i as [|i]; cbn [list_set] in Hs.
  - inversion Hs; subst. cbn [forallb]. rewrite Hx, Hl. reflexivity.
  - destruct (list_set l i x) as [r'|] eqn:Er; [|discriminate Hs]. inversion Hs; subst.
    cbn [forallb]. rewrite Hy, (IH i r' Er Hl Hx). reflexivity.
Qed.

Lemma set_at_wf x : wf_val x = true -> forall cp b b', wf_val b = true -> set_at b cp x = Some b' -> wf_val b' = true.
Proof.
  intros Hx. induction cp as [|k r IH]; intros b b' Hwf Hs; cbn [set_at] in Hs.
  - inversion Hs; subst. exact Hx.
  - destruct b; try discriminate Hs.
    + destruct (norm_index l k) as [i|]; [|discriminate Hs].
      destruct (nth_error l i) as [c|] eqn:En; [|discriminate Hs].
      destruct (set_at c r x) as [c'|] eqn:Ec; [|discriminate Hs].
      destruct (list_set l i c') as [l'|] eqn:El; [|discriminate Hs]. inversion Hs; subst.
      cbn [wf_val] in *. apply (list_set_wf c' l i l' El Hwf).
      apply (IH c c'); [|exact Ec]. rewrite forallb_forall in Hwf. apply Hwf. eapply nth_error_In; eauto.
    + destruct (dict_look k d) as [c|] eqn:El; [|discriminate Hs].
      destruct (set_at c r x) as [c'|] eqn:Ec; [|discriminate Hs].
      destruct (dict_set k c' d) as [d'|] eqn:Ed; [|discriminate Hs]. inversion Hs; subst.
      destruct (wf_dict_split _ Hwf) as [Hent Hkd].
      destruct (dict_set_wf k c' d d' Ed) as [Hk Hw].
      apply wf_dict_join; [|rewrite Hk; exact Hkd].
      apply Hw; [exact Hent|]. apply (IH c c'); [|exact Ec]. exact (dict_look_wf k d c Hent El).
Qed.

Lemma index_along_get_at : forall cp v, index_along v cp = get_at v cp.
Proof.
  induction cp as [|k r IH]; intros v; cbn [index_along get_at]; [reflexivity|].
  destruct v; try reflexivity.
  - unfold norm_index, list_index. destruct (int_of k) as [i|]; [|reflexivity].
    match goal with |- context [if ?c then None else _] => destruct c end; [reflexivity|].
    destruct (nth_error l _); [apply IH|reflexivity].
  - destruct (dict_look k d); [apply IH|reflexivity].
Qed.

Lemma first_cast_spec casts v : first_cast casts v = spec_first_cast casts v.
Proof.
  induction casts as [|[t f] r IH]; cbn [first_cast spec_first_cast]; [reflexivity|].
  rewrite IH. reflexivity.
Qed.

Lemma apply_cast_ok f v v' : apply_cast f v = Ok v' -> (exists s, v = VStr s) /\ wf_val v' = true.
Proof.
  destruct f, v; cbn [apply_cast]; try discriminate.
  - destruct (String.eqb _ _); [intros H; inversion H; split; [eauto|reflexivity]|].
    destruct (String.eqb _ _); [intros H; inversion H; split; [eauto|reflexivity]|discriminate].
  - destruct (int_of_str s); [intros H; inversion H; split; [eauto|reflexivity]|discriminate].
Qed.

Lemma spec_first_cast_ok casts v v' : spec_first_cast casts v = Some v' ->
  (exists s, v = VStr s) /\ wf_val v' = true.
Proof.
  induction casts as [|[t f] r IH]; cbn [spec_first_cast]; [discriminate|].
  destruct (inst_of v t); [|exact IH].
  destruct (apply_cast f v) as [x|e] eqn:Ea; [|exact IH].
  intros H; inversion H; subst. exact (apply_cast_ok f v v' Ea).
Qed.

(* the cast loop never fails and computes cast_doc *)
Lemma cast_loop_spec casts doc : forall w copy,
  (forall cp v, In (cp, v) w -> get_at doc cp = Some v) ->
  sk doc copy -> wf_val copy = true ->
  cast_loop casts (sel_of w) copy = Ok (cast_doc casts w copy) /\
  sk doc (cast_doc casts w copy) /\ wf_val (cast_doc casts w copy) = true.
Proof.
  unfold cast_doc.
  induction w as [|[cp v] w IH]; intros copy Htr Hsk Hwf.
  - cbn. auto.
  - cbn [sel_of map cast_loop fold_left fst snd path_keys]. fold (sel_of w).
    assert (Htr' : forall cp v, In (cp, v) w -> get_at doc cp = Some v) by (intros; apply Htr; right; assumption).
    rewrite first_cast_spec.
    destruct (spec_first_cast casts v) as [v'|] eqn:Ef; [|apply IH; assumption].
    destruct cp as [|k r]; [apply IH; assumption|].
    destruct (spec_first_cast_ok _ _ _ Ef) as [[s ->] Hv'].
    destruct (sk_set v' (k :: r) doc copy s Hsk (Htr _ _ (or_introl eq_refl))) as [copy' [Es Hsk']].
    rewrite Es. apply IH; [assumption|assumption|].
    exact (set_at_wf v' Hv' _ _ _ Hwf Es).
Qed.

(* ================================================================== *)
(* H. Rule.test                                                         *)

Lemma walk_le1 sp d : sp_inv sp -> wf_val d = true -> sp_concrete sp = true ->
  (List.length (walk (sp_parts sp) [] d) <= 1)%nat.
Proof. intros [Hprim _] Hwf Hc. apply walk_prim_le1; [exact (Hprim Hc)|exact Hwf]. Qed.

Lemma walk_truthful_get ps doc : wf_val doc = true ->
  forall cp v, In (cp, v) (walk ps [] doc) -> get_at doc cp = Some v.
Proof. intros Hwf cp v Hin. rewrite <- index_along_get_at. exact (C04_truthful ps doc cp v Hwf Hin). Qed.

Lemma rule_test_spec sp sr r doc copy :
  rule_rel sp sr r -> plain sp -> sp_inv sp ->
  qtree_ok (sr_cond sr) = true -> value_only (sr_cond sr) = true ->
  wf_val doc = true -> nonempty_container doc = true -> wf_val copy = true -> sk doc copy ->
  exists t, rule_test T r doc (Some copy) = Ok (t, snd (spec_rule_in_schema sp sr doc copy)) /\
            obs_rtest t = fst (spec_rule_in_schema sp sr doc copy) /\
            rt_data t = match sr_cast sr with [] => doc | _ => snd (spec_rule_in_schema sp sr doc copy) end /\
            wf_val (snd (spec_rule_in_schema sp sr doc copy)) = true /\
            sk doc (snd (spec_rule_in_schema sp sr doc copy)) /\ tuple_paths t.
Proof.
  intros (Hp & Hc & Hcast) Hplain Hinv Hok Hvo Hwf Hne Hwfc Hsk.
  destruct r as [p c casts]. cbn [r_path r_cond r_cast] in Hp, Hc, Hcast. subst c casts.
  unfold rule_test, spec_rule_in_schema. cbn [r_cast r_path].
  destruct (mk_data_items doc (nonempty_shape doc Hne)) as [d [Ed _]]. rewrite Ed. cbn [bind].
  pose proof (selection_spec sp p doc Hp Hplain Hinv (walk_le1 sp doc Hinv Hwf) (nonempty_truthy doc Hne)) as Hsel.
  destruct (sr_cast sr) as [|c0 cs] eqn:Ecast.
  - destruct (judge_spec p (sr_cond sr) [] doc _ Hsel Hok Hvo) as [rt [Ej [Ho [Hd Htp]]]].
    rewrite Ej. cbn [bind fst snd]. exists rt. repeat split; auto.
  - rewrite Hsel. cbn [bind].
    destruct (cast_loop_spec (c0 :: cs) doc (walk (sp_parts sp) [] doc) copy
                (walk_truthful_get _ doc Hwf) Hsk Hwfc) as [El [Hsk' Hwf']].
    rewrite El. cbn [bind].
    set (cp1 := cast_doc (c0 :: cs) (walk (sp_parts sp) [] doc) copy) in *.
    pose proof (selection_spec sp p cp1 Hp Hplain Hinv (walk_le1 sp cp1 Hinv Hwf')
                  (nonempty_truthy cp1 (sk_nonempty doc cp1 Hsk' Hne))) as Hsel1.
    destruct (judge_spec p (sr_cond sr) (c0 :: cs) cp1 _ Hsel1 Hok Hvo) as [rt [Ej [Ho [Hd Htp]]]].
    rewrite Ej. cbn [bind fst snd]. exists rt. repeat split; auto.
Qed.

Lemma rule_test_none r doc : rule_test T r doc None = rule_test T r doc (Some doc).
Proof. unfold rule_test. destruct (r_cast r); reflexivity. Qed.

Lemma plain_of sp : sp_dt sp = SdNone -> sp_mt sp = SmNone -> sp_src sp = None -> plain sp.
Proof. unfold plain. auto. Qed.

(* GOAL 1 (C05 / C15), for well-formed non-empty documents.
   The two extra hypotheses are necessary: see the counterexamples at the end of the file. *)
Theorem rule_model_meets_spec_partial : forall (r : srule) (doc : pyval) x,
  srule_ok r = true -> wf_val doc = true -> nonempty_container doc = true ->
  spec_rule_test r doc = Some x -> run_rule_test (srule_term r) doc = x.
Proof.
  intros r doc x Hok Hwf Hne. unfold spec_rule_test, run_rule_test. rewrite Hne. cbn [negb].
  pose proof (mk_rule_spec r Hok) as Hmk. unfold spath1 in Hmk.
  assert (Hc : qtree_ok (sr_cond r) = true).
  { unfold srule_ok in Hok. apply andb_true_iff in Hok. apply Hok. }
  destruct (spath_of (sr_path r)) as [sp|e] eqn:Esp; cbn [bind] in Hmk.
  2:{ intros H; inversion H; subst x. rewrite Hmk. reflexivity. }
  destruct (sp_dt sp) eqn:Edt; try discriminate.
  destruct (sp_mt sp) eqn:Emt; try discriminate.
  destruct (sp_src sp) eqn:Esrc; try discriminate.
  destruct (buildable (sr_cond r)) eqn:Eb; cbn [negb bind] in *.
  2:{ intros H; inversion H; subst x. rewrite Hmk. reflexivity. }
  destruct (value_only (sr_cond r)) eqn:Evo; cbn [negb]; [|discriminate].
  intros H; inversion H; subst x; clear H.
  destruct Hmk as [rl [Emk [Hrel Hinv]]]. rewrite Emk. cbn [bind].
  rewrite rule_test_none.
  destruct (rule_test_spec sp r rl doc doc Hrel (plain_of sp Edt Emt Esrc) Hinv Hc Evo Hwf Hne Hwf (sk_refl doc))
    as [t [Et [Ho [Hd _]]]].
  rewrite Et. cbn [bind]. rewrite Ho, Hd.
  unfold spec_rule_in_schema, judged_doc. destruct (sr_cast r); reflexivity.
Qed.

(* ================================================================== *)
(* I. schemas                                                           *)

Definition rule_ok3 (pr : spath * srule) (rl : rule) : Prop :=
  rule_rel (fst pr) (snd pr) rl /\ sp_inv (fst pr) /\ qtree_ok (sr_cond (snd pr)) = true.

Lemma spaths_of_cons r rest :
  spaths_of (r :: rest) = let* sp := spath1 r in let* xs := spaths_of rest in Ok ((sp, r) :: xs).
Proof.
  cbn [spaths_of]. unfold spath1. destruct (spath_of (sr_path r)); cbn [bind]; [|reflexivity].
  destruct (buildable (sr_cond r)); reflexivity.
Qed.

Lemma mk_rules_spec rs : forallb srule_ok rs = true ->
  match spaths_of rs with
  | Err e => mk_rules T (map srule_term rs) = Err e
  | Ok prs => exists rls, mk_rules T (map srule_term rs) = Ok rls /\ Forall2 rule_ok3 prs rls
  end.
Proof.
  induction rs as [|r rs IH]; intros Hok.
  - cbn. exists []. split; [reflexivity|constructor].
  - cbn [forallb] in Hok. apply andb_true_iff in Hok as [Hr Hrs]. specialize (IH Hrs).
    rewrite spaths_of_cons. cbn [map mk_rules].
    pose proof (mk_rule_spec r Hr) as Hmk.
    assert (Hc : qtree_ok (sr_cond r) = true).
    { unfold srule_ok in Hr. apply andb_true_iff in Hr. apply Hr. }
    destruct (spath1 r) as [sp|e]; cbn [bind].
    + destruct Hmk as [rl [Emk [Hrel Hinv]]]. rewrite Emk. cbn [bind].
      destruct (spaths_of rs) as [prs|e]; cbn [bind].
      * destruct IH as [rls [E2 HF]]. rewrite E2. cbn [bind].
        eexists; split; [reflexivity|]. constructor; [|exact HF]. unfold rule_ok3. cbn [fst snd]. auto.
      * rewrite IH. reflexivity.
    + rewrite Hmk. reflexivity.
Qed.

Lemma rule_ok3_len pr rl : rule_ok3 pr rl ->
  List.length (p_parts (r_path rl)) = List.length (sp_parts (fst pr)).
Proof. intros [[[HF _] _] _]. symmetry. exact (Forall2_len _ _ _ HF). Qed.

Lemma insert_rel x y : rule_ok3 x y -> forall l l', Forall2 rule_ok3 l l' ->
  Forall2 rule_ok3 (sinsert_rule x l) (insert_by_len y l').
Proof.
  intros Hxy. induction 1 as [|a b l l' Hab HF IH]; cbn [sinsert_rule insert_by_len].
  - constructor; [exact Hxy|constructor].
  - rewrite (rule_ok3_len _ _ Hab), (rule_ok3_len _ _ Hxy).
    destruct (List.length (sp_parts (fst a)) <? List.length (sp_parts (fst x)))%nat.
    + constructor; assumption.
    + constructor; [exact Hxy|]. constructor; assumption.
Qed.

Lemma sort_rel prs rls : Forall2 rule_ok3 prs rls -> Forall2 rule_ok3 (ssort_rules prs) (sort_rules rls).
Proof.
  unfold ssort_rules, sort_rules. induction 1 as [|a b l l' Hab HF IH]; cbn [fold_right]; [constructor|].
  apply insert_rel; assumption.
Qed.

Lemma forallb_sinsert (P : spath * srule -> bool) x : forall l,
  forallb P (sinsert_rule x l) = P x && forallb P l.
Proof.
  induction l as [|y l IH]; cbn [sinsert_rule forallb]; [reflexivity|].
  destruct (List.length (sp_parts (fst y)) <? List.length (sp_parts (fst x)))%nat; cbn [forallb]; [|reflexivity].
  rewrite IH. destruct (P x), (P y); reflexivity.
Qed.

Lemma forallb_ssort (P : spath * srule -> bool) prs : forallb P (ssort_rules prs) = forallb P prs.
Proof.
  unfold ssort_rules. induction prs as [|x l IH]; cbn [fold_right forallb]; [reflexivity|].
  rewrite forallb_sinsert, IH. reflexivity.
Qed.

Lemma in_domain_inv sp sr : rule_in_domain sp sr = true -> plain sp /\ value_only (sr_cond sr) = true.
Proof.
  unfold rule_in_domain, plain.
  destruct (sp_dt sp); try discriminate. destruct (sp_mt sp); try discriminate.
  destruct (sp_src sp); try discriminate. auto.
Qed.

Lemma run_rules_spec doc : wf_val doc = true -> nonempty_container doc = true ->
  forall prs rls, Forall2 rule_ok3 prs rls ->
  forallb (fun pr => rule_in_domain (fst pr) (snd pr)) prs = true ->
  forall copy, wf_val copy = true -> sk doc copy ->
  exists ts, run_rules T rls doc copy = Ok (ts, snd (spec_run_rules prs doc copy)) /\
             map obs_rtest ts = fst (spec_run_rules prs doc copy) /\ Forall tuple_paths ts.
Proof.
  intros Hwf Hne. induction 1 as [|[sp sr] rl prs rls Hab HF IH]; intros Hdom copy Hwfc Hsk.
  - cbn. exists []. auto.
  - cbn [forallb fst snd] in Hdom. apply andb_true_iff in Hdom as [Hd Hdom].
    apply in_domain_inv in Hd as [Hplain Hvo].
    destruct Hab as (Hrel & Hinv & Hok). cbn [fst snd] in Hrel, Hinv, Hok.
    destruct (rule_test_spec sp sr rl doc copy Hrel Hplain Hinv Hok Hvo Hwf Hne Hwfc Hsk)
      as [t [Et [Ho [_ [Hwf' [Hsk' Htp]]]]]].
    cbn [run_rules spec_run_rules]. rewrite Et. cbn [bind].
    destruct (spec_rule_in_schema sp sr doc copy) as [v copy']. cbn [fst snd] in *.
    destruct (IH Hdom copy' Hwf' Hsk') as [ts [Ets [Hos Htps]]].
    rewrite Ets. cbn [bind].
    destruct (spec_run_rules prs doc copy') as [vs copy'']. cbn [fst snd] in *.
    exists (t :: ts). split; [reflexivity|]. split; [cbn [map]; rewrite Ho, Hos; reflexivity|].
    constructor; assumption.
Qed.

(* refreshing the failure values of rules judged on the shared copy *)
Lemma obs_refresh_failure final f : (exists cp, f_path f = VTuple cp) ->
  obs_failure (refresh_failure final f) = spec_refresh_failure final (obs_failure f).
Proof.
  intros [cp Hcp]. destruct f as [i v pth n]. cbn [f_path] in Hcp. subst pth.
  unfold refresh_failure, obs_failure, spec_refresh_failure. cbn [f_index f_value f_path f_reasons path_keys].
  reflexivity.
Qed.

Lemma obs_refresh_test final sr rl t : r_cast rl = sr_cast sr -> tuple_paths t ->
  obs_rtest (refresh_test final rl t) = spec_refresh_verdict final sr (obs_rtest t).
Proof.
  intros Hc Htp. unfold refresh_test, spec_refresh_verdict. rewrite Hc.
  destruct (sr_cast sr) as [|c0 cs]; [reflexivity|].
  unfold obs_rtest. cbn [rt_valid rt_tested rt_failures]. rewrite map_length.
  assert (HM : map obs_failure (map (refresh_failure final) (rt_failures t)) =
               map (spec_refresh_failure final) (map obs_failure (rt_failures t))).
  { unfold tuple_paths in Htp.
    induction Htp as [|f fs Hf Hfs IH]; cbn [map]; [reflexivity|].
    rewrite IH, (obs_refresh_failure final f Hf). reflexivity. }
  rewrite HM. reflexivity.
Qed.

Lemma refresh_spec final : forall prs rls, Forall2 rule_ok3 prs rls ->
  forall ts, Forall tuple_paths ts ->
  map obs_rtest (refresh_tests final rls ts) = spec_refresh final prs (map obs_rtest ts).
Proof.
  induction 1 as [|[sp sr] rl prs rls Hab HF IH]; intros ts Hts.
  - reflexivity.
  - destruct ts as [|t ts]; [reflexivity|].
    inversion Hts as [|? ? Ht Hts']; subst.
    cbn [refresh_tests spec_refresh map]. rewrite (IH ts Hts').
    destruct Hab as ((_ & _ & Hc) & _). cbn [fst snd] in Hc.
    rewrite (obs_refresh_test final sr rl t Hc Ht). reflexivity.
Qed.

Lemma agg_valid ts : forallb rt_valid ts = forallb verdict_valid (map obs_rtest ts).
Proof. induction ts as [|t ts IH]; cbn [forallb map]; [reflexivity|]. rewrite IH. reflexivity. Qed.

Lemma agg_nfail ts :
  Z.of_nat (fold_right (fun t n => (List.length (rt_failures t) + n)%nat) O ts) =
  fold_right (fun v n => verdict_nfail v + n) 0 (map obs_rtest ts).
Proof.
  induction ts as [|t ts IH]; cbn [fold_right map]; [reflexivity|].
  rewrite Nat2Z.inj_add, IH. reflexivity.
Qed.

Lemma agg_tested ts : List.length (filter rt_tested ts) = List.length (filter verdict_tested (map obs_rtest ts)).
Proof.
  induction ts as [|t ts IH]; cbn [filter map]; [reflexivity|].
  change (verdict_tested (obs_rtest t)) with (rt_tested t).
  destruct (rt_tested t); cbn [List.length]; rewrite IH; reflexivity.
Qed.

(* GOAL 2 (C06 / C07 / C15), for well-formed documents *)
Theorem schema_model_meets_spec_partial : forall (rs : list srule) (doc : pyval) x,
  forallb srule_ok rs = true -> wf_val doc = true ->
  spec_validate rs doc = Some x -> run_validate (map srule_term rs) doc = x.
Proof.
  intros rs doc x Hok Hwf. unfold spec_validate, run_validate.
  pose proof (mk_rules_spec rs Hok) as Hmk.
  destruct (spaths_of rs) as [prs|e].
  2:{ intros H; inversion H; subst x. rewrite Hmk. reflexivity. }
  destruct Hmk as [rls [Emk HF]]. rewrite Emk. cbn [bind].
  destruct (forallb (fun pr => rule_in_domain (fst pr) (snd pr)) prs) eqn:Hdom; cbn [negb]; [|discriminate].
  unfold validate.
  destruct (nonempty_container doc) eqn:Hne; cbn [negb].
  2:{ intros H; inversion H; subst x. rewrite (mk_data_empty doc Hne). reflexivity. }
  destruct (mk_data_items doc (nonempty_shape doc Hne)) as [d [Ed _]]. rewrite Ed. cbn [bind].
  pose proof (sort_rel prs rls HF) as HFs.
  assert (Hdoms : forallb (fun pr => rule_in_domain (fst pr) (snd pr)) (ssort_rules prs) = true)
    by (rewrite forallb_ssort; exact Hdom).
  destruct (run_rules_spec doc Hwf Hne _ _ HFs Hdoms doc Hwf (sk_refl doc)) as [ts [Ets [Hos Htps]]].
  rewrite Ets. cbn [bind].
  destruct (spec_run_rules (ssort_rules prs) doc doc) as [vs0 copy]. cbn [fst snd] in *.
  intros H; inversion H; subst x; clear H.
  cbn [v_valid v_num_failures v_num_tested v_tests v_cast_data].
  rewrite agg_valid, agg_nfail, agg_tested.
  rewrite (refresh_spec copy _ _ HFs ts Htps), Hos. reflexivity.
Qed.

(* GOAL 3 (C07): validation never raises because of what a (well-formed, non-empty) document contains *)
Theorem validate_total_partial : forall rs doc,
  forallb srule_ok rs = true -> wf_val doc = true -> nonempty_container doc = true ->
  (exists prs, spaths_of rs = Ok prs /\ forallb (fun pr => rule_in_domain (fst pr) (snd pr)) prs = true) ->
  exists v, run_validate (map srule_term rs) doc = Ok v.
Proof.
  intros rs doc Hok Hwf Hne [prs [Eprs Hdom]].
  assert (Hs : exists v, spec_validate rs doc = Some (Ok v)).
  { unfold spec_validate. rewrite Eprs, Hdom, Hne. cbn [negb].
    destruct (spec_run_rules (ssort_rules prs) doc doc) as [vs0 copy]. eexists; reflexivity. }
  destruct Hs as [v Hs]. exists v. exact (schema_model_meets_spec_partial rs doc (Ok v) Hok Hwf Hs).
Qed.

(* what the model does on a document that is not a non-empty container (cf. cex_error_order):
   construction errors of the rule come first *)
Lemma rule_test_empty_doc r doc : srule_ok r = true -> nonempty_container doc = false ->
  run_rule_test (srule_term r) doc = match spath1 r with Err e => Err e | Ok _ => Err TypeError end.
Proof.
  intros Hok Hne. unfold run_rule_test. pose proof (mk_rule_spec r Hok) as Hmk.
  destruct (spath1 r) as [sp|e].
  - destruct Hmk as [rl [Emk _]]. rewrite Emk. cbn [bind]. unfold rule_test.
    rewrite (mk_data_empty doc Hne). reflexivity.
  - rewrite Hmk. reflexivity.
Qed.

(* ================================================================== *)
(* Counterexamples to the statements without the extra hypotheses       *)

(* (1) spec_rule_test checks the document before the construction of the rule; the model
   (like the code) constructs the rule first. *)
Definition cex_rule_1 : srule :=
  {| sr_path := {| st_parts := [SPrim (VStr "a")]; st_mods := ["foo"]; st_src := None |};
     sr_cond := QNull; sr_cast := [] |}.
Example cex_error_order :
  srule_ok cex_rule_1 = true /\ wf_val (VList []) = true /\
  spec_rule_test cex_rule_1 (VList []) = Some (Err TypeError) /\
  run_rule_test (srule_term cex_rule_1) (VList []) = Err AttributeError.
Proof. vm_compute. repeat split; reflexivity. Qed.

(* (2) on a dict with a repeated key (not a Python value: wf_val = false) a concrete path selects
   two nodes in the spec walk, the model's concrete get_data returns the first only. *)
Definition cex_rule_2 : srule :=
  {| sr_path := {| st_parts := [SPrim (VStr "a")]; st_mods := []; st_src := None |};
     sr_cond := QLeaf SValue (Q_equal_to (VInt 1)); sr_cast := [] |}.
Definition cex_doc_2 : pyval := VDict [(VStr "a", VInt 1); (VStr "a", VInt 2)].
Example cex_repeated_key :
  srule_ok cex_rule_2 = true /\ wf_val cex_doc_2 = false /\ nonempty_container cex_doc_2 = true /\
  spec_rule_test cex_rule_2 cex_doc_2 =
    Some (Ok (VTuple [VTuple [VBool false; VBool true; VInt 1;
                              VList [VTuple [VInt 1; VInt 2; VTuple [VStr "a"]; VBool true]]]; cex_doc_2])) /\
  run_rule_test (srule_term cex_rule_2) cex_doc_2 =
    Ok (VTuple [VTuple [VBool true; VBool true; VInt 0; VList []]; cex_doc_2]) /\
  spec_validate [cex_rule_2] cex_doc_2 <> Some (run_validate (map srule_term [cex_rule_2]) cex_doc_2).
Proof. vm_compute. repeat split; try reflexivity. intros H; discriminate H. Qed.

(* (3) totality (Goal 3) also needs wf_val: a dict key that is not == to itself (itself a dict with a
   repeated key, not a Python value) makes the write-back of a cast fail with KeyError. *)
Definition cex_rule_3 : srule :=
  {| sr_path := {| st_parts := [STMap None None None None]; st_mods := []; st_src := None |};
     sr_cond := QNull; sr_cast := [(TStr, CastStrBool)] |}.
Definition cex_doc_3 : pyval := VDict [(VDict [(VStr "a", VInt 1); (VStr "a", VInt 2)], VStr "true")].
Example cex_total_needs_wf :
  forallb srule_ok [cex_rule_3] = true /\ wf_val cex_doc_3 = false /\ nonempty_container cex_doc_3 = true /\
  (exists prs, spaths_of [cex_rule_3] = Ok prs /\
               forallb (fun pr => rule_in_domain (fst pr) (snd pr)) prs = true) /\
  run_validate (map srule_term [cex_rule_3]) cex_doc_3 = Err KeyError /\
  run_rule_test (srule_term cex_rule_3) cex_doc_3 = Err KeyError.
Proof.
  split; [vm_compute; reflexivity|]. split; [vm_compute; reflexivity|]. split; [vm_compute; reflexivity|].
  split; [eexists; split; [vm_compute; reflexivity|vm_compute; reflexivity]|].
  split; vm_compute; reflexivity.
Qed.

(* Goal 1 including documents that are not non-empty containers, when the construction of the rule
   cannot fail with anything but TypeError *)
Corollary rule_model_meets_spec_partial_any_doc : forall (r : srule) (doc : pyval) x,
  srule_ok r = true -> wf_val doc = true ->
  (nonempty_container doc = true \/ forall e, spath1 r = Err e -> e = TypeError) ->
  spec_rule_test r doc = Some x -> run_rule_test (srule_term r) doc = x.
Proof.
  intros r doc x Hok Hwf Hcase Hs.
  destruct (nonempty_container doc) eqn:Hne.
  - exact (rule_model_meets_spec_partial r doc x Hok Hwf Hne Hs).
  - destruct Hcase as [Hc|Hc]; [discriminate Hc|].
    rewrite (rule_test_empty_doc r doc Hok Hne).
    unfold spec_rule_test in Hs. rewrite Hne in Hs. cbn [negb] in Hs. inversion Hs; subst x.
    destruct (spath1 r) as [sp|e]; [reflexivity|]. rewrite (Hc e eq_refl). reflexivity.
Qed.

Print Assumptions reasons_nonempty.
Print Assumptions build1_lit.
Print Assumptions filter_tree_lit.
Print Assumptions selection_spec.
Print Assumptions judge_spec.
Print Assumptions cast_loop_spec.
Print Assumptions rule_test_spec.
Print Assumptions rule_model_meets_spec_partial.
Print Assumptions schema_model_meets_spec_partial.
Print Assumptions validate_total_partial.
Print Assumptions rule_test_empty_doc.
Print Assumptions cex_error_order.
Print Assumptions cex_repeated_key.
Print Assumptions cex_total_needs_wf.
Print Assumptions rule_model_meets_spec_partial_any_doc.
