(* C06 / C15 (spec level): the schema verdict is the order-independent conjunction of its rules'
   verdicts; casts replace exactly the castable selected nodes in a private copy.
   All statements are about the SPEC in RuleSpec.v / Cast.v / PathSpec.v only (no Inst/Gen). *)
From Coq Require Import ZArith NArith List Bool String Lia Arith.
From Coq Require Import Sorting.Permutation Sorting.Sorted.
From Valida Require Import Py Lang Defs DocSem PathSpec Cast RuleDefs RuleSpec.
From Valida.Proofs Require Import C04Proof.
Import ListNotations.
Local Open Scope list_scope.

(* ================================================================== *)
(* PART A — C06                                                         *)
(* ================================================================== *)

(* ------------------------------------------------------------------ *)
(* A1. ssort_rules is a stable sort by path length                      *)

Definition rkey (x : spath * srule) : nat := List.length (sp_parts (fst x)).
Definition rle (a b : spath * srule) : Prop := (rkey a <= rkey b)%nat.

Lemma ssort_rules_cons x rs : ssort_rules (x :: rs) = sinsert_rule x (ssort_rules rs).
Proof. reflexivity. Qed.

Lemma sinsert_rule_perm x l : Permutation (sinsert_rule x l) (x :: l).
Proof.
  induction l as [ | y ys IH ]; cbn [sinsert_rule]; [ reflexivity | ].
  destruct (Nat.ltb _ _).
  - transitivity (y :: x :: ys); [ apply perm_skip; exact IH | apply perm_swap ].
  - reflexivity.
Qed.

Theorem ssort_rules_perm rs : Permutation (ssort_rules rs) rs.
Proof.
  induction rs as [ | x rs IH ]; [ constructor | ].
  rewrite ssort_rules_cons.
  transitivity (x :: ssort_rules rs); [ apply sinsert_rule_perm | apply perm_skip; exact IH ].
Qed.

Lemma sinsert_rule_sorted x l : StronglySorted rle l -> StronglySorted rle (sinsert_rule x l).
Proof.
  induction l as [ | y ys IH ]; intros Hs; cbn [sinsert_rule].
  - constructor; constructor.
  - inversion Hs as [ | ? ? Hys Hall ]; subst.
    destruct (Nat.ltb_spec (List.length (sp_parts (fst y))) (List.length (sp_parts (fst x)))) as [Hlt | Hge].
    + constructor; [ apply IH; exact Hys | ].
      apply Forall_forall. intros z Hz.
      apply (Permutation_in _ (sinsert_rule_perm x ys)) in Hz.
      destruct Hz as [ <- | Hz ]; [ unfold rle, rkey; lia | ].
      rewrite Forall_forall in Hall. apply Hall. exact Hz.
    + constructor; [ exact Hs | ].
      constructor; [ unfold rle, rkey; lia | ].
      eapply Forall_impl; [ | exact Hall ]. intros z Hz. unfold rle, rkey in *. lia.
Qed.

Theorem ssort_rules_strongly_sorted rs : StronglySorted rle (ssort_rules rs).
Proof.
  induction rs as [ | x rs IH ]; [ constructor | ].
  rewrite ssort_rules_cons. apply sinsert_rule_sorted. exact IH.
Qed.

Theorem ssort_rules_sorted rs : Sorted rle (ssort_rules rs).
Proof. apply StronglySorted_Sorted. apply ssort_rules_strongly_sorted. Qed.

Definition key_is (n : nat) (x : spath * srule) : bool := Nat.eqb (rkey x) n.

Lemma sinsert_rule_filter n x l :
  filter (key_is n) (sinsert_rule x l) = filter (key_is n) (x :: l).
Proof.
  induction l as [ | y ys IH ]; cbn [sinsert_rule]; [ reflexivity | ].
  destruct (Nat.ltb_spec (List.length (sp_parts (fst y))) (List.length (sp_parts (fst x)))) as [Hlt | Hge];
    [ | reflexivity ].
  cbn [filter] in *. rewrite IH.
  unfold key_is, rkey.
  destruct (Nat.eqb_spec (List.length (sp_parts (fst y))) n) as [Ey | Ey];
    destruct (Nat.eqb_spec (List.length (sp_parts (fst x))) n) as [Ex | Ex]; try reflexivity.
  lia.
Qed.

Theorem ssort_rules_stable n rs : filter (key_is n) (ssort_rules rs) = filter (key_is n) rs.
Proof.
  induction rs as [ | x rs IH ]; [ reflexivity | ].
  rewrite ssort_rules_cons, sinsert_rule_filter. cbn [filter]. rewrite IH. reflexivity.
Qed.

(* the requested packaging *)
Theorem C06_sorted_stable : forall rs,
  Permutation (ssort_rules rs) rs /\
  StronglySorted (fun a b => (List.length (sp_parts (fst a)) <= List.length (sp_parts (fst b)))%nat) (ssort_rules rs) /\
  Sorted (fun a b => (List.length (sp_parts (fst a)) <= List.length (sp_parts (fst b)))%nat) (ssort_rules rs) /\
  (forall n, filter (fun x => Nat.eqb (List.length (sp_parts (fst x))) n) (ssort_rules rs)
             = filter (fun x => Nat.eqb (List.length (sp_parts (fst x))) n) rs).
Proof.
  intros rs. split; [ apply ssort_rules_perm | ].
  split; [ exact (ssort_rules_strongly_sorted rs) | ].
  split; [ exact (ssort_rules_sorted rs) | ].
  intros n. exact (ssort_rules_stable n rs).
Qed.

(* ------------------------------------------------------------------ *)
(* A2. cast-free rules are judged independently on the original document *)

Definition cast_free (prs : list (spath * srule)) : Prop :=
  Forall (fun pr => sr_cast (snd pr) = []) prs.

Definition rule_verdict (doc : pyval) (pr : spath * srule) : pyval :=
  spec_verdict (walk (sp_parts (fst pr)) [] doc) (sr_cond (snd pr)).

Theorem spec_run_rules_castfree : forall prs doc copy, cast_free prs ->
  spec_run_rules prs doc copy
  = (map (fun pr => spec_verdict (walk (sp_parts (fst pr)) [] doc) (sr_cond (snd pr))) prs, copy).
Proof.
  induction prs as [ | [sp r] prs IH ]; intros doc copy Hcf; [ reflexivity | ].
  inversion Hcf as [ | ? ? Hr Hrest ]; subst. cbn [snd] in Hr.
  cbn [spec_run_rules]. unfold spec_rule_in_schema. rewrite Hr.
  rewrite (IH doc copy Hrest). reflexivity.
Qed.

Lemma cast_free_perm prs prs' : Permutation prs prs' -> cast_free prs -> cast_free prs'.
Proof. intros Hp Hcf. unfold cast_free in *. rewrite <- Hp. exact Hcf. Qed.

Lemma cast_free_sort prs : cast_free prs -> cast_free (ssort_rules prs).
Proof. apply cast_free_perm. symmetry. apply ssort_rules_perm. Qed.

(* ------------------------------------------------------------------ *)
(* A3. order independence                                               *)

Definition sum_nfail (vs : list pyval) : Z := fold_right (fun v n => (verdict_nfail v + n)%Z) 0%Z vs.

Lemma forallb_perm {A} (f : A -> bool) l l' : Permutation l l' -> forallb f l = forallb f l'.
Proof.
  induction 1 as [ | x l l' _ IH | x y l | l l' l'' _ IH1 _ IH2 ]; cbn.
  - reflexivity.
  - rewrite IH. reflexivity.
  - destruct (f x), (f y); reflexivity.
  - congruence.
Qed.

Lemma sum_nfail_perm l l' : Permutation l l' -> sum_nfail l = sum_nfail l'.
Proof.
  induction 1 as [ | x l l' _ IH | x y l | l l' l'' _ IH1 _ IH2 ]; cbn.
  - reflexivity.
  - unfold sum_nfail in IH. rewrite IH. reflexivity.
  - lia.
  - congruence.
Qed.

Lemma filter_perm {A} (f : A -> bool) l l' : Permutation l l' -> Permutation (filter f l) (filter f l').
Proof.
  induction 1 as [ | x l l' _ IH | x y l | l l' l'' _ IH1 _ IH2 ]; cbn.
  - constructor.
  - destruct (f x); [ apply perm_skip | ]; exact IH.
  - destruct (f x), (f y); try reflexivity. apply perm_swap.
  - etransitivity; eassumption.
Qed.

Lemma combine_map_self {A B} (f : A -> B) (l : list A) : combine l (map f l) = map (fun x => (x, f x)) l.
Proof. induction l as [ | x l IH ]; cbn; [ reflexivity | rewrite IH; reflexivity ]. Qed.

Theorem C06_order_independent : forall prs prs' doc,
  cast_free prs -> Permutation prs prs' ->
  let vs := fst (spec_run_rules (ssort_rules prs) doc doc) in
  let vs' := fst (spec_run_rules (ssort_rules prs') doc doc) in
  Permutation vs vs' /\
  forallb verdict_valid vs = forallb verdict_valid vs' /\
  fold_right (fun v n => (verdict_nfail v + n)%Z) 0%Z vs = fold_right (fun v n => (verdict_nfail v + n)%Z) 0%Z vs' /\
  List.length (filter verdict_tested vs) = List.length (filter verdict_tested vs') /\
  Permutation (combine (ssort_rules prs) vs) (combine (ssort_rules prs') vs') /\
  snd (spec_run_rules (ssort_rules prs) doc doc) = doc /\
  snd (spec_run_rules (ssort_rules prs') doc doc) = doc.
Proof.
  intros prs prs' doc Hcf Hperm.
  assert (Hcf' : cast_free prs') by (eapply cast_free_perm; eauto).
  rewrite (spec_run_rules_castfree _ doc doc (cast_free_sort _ Hcf)).
  rewrite (spec_run_rules_castfree _ doc doc (cast_free_sort _ Hcf')).
  cbn [fst snd]. fold (rule_verdict doc).
  assert (Hs : Permutation (ssort_rules prs) (ssort_rules prs')).
  { rewrite (ssort_rules_perm prs), (ssort_rules_perm prs'). exact Hperm. }
  assert (Hv : Permutation (map (rule_verdict doc) (ssort_rules prs)) (map (rule_verdict doc) (ssort_rules prs')))
    by (apply Permutation_map; exact Hs).
  split; [ exact Hv | ].
  split; [ apply forallb_perm; exact Hv | ].
  split; [ apply (sum_nfail_perm _ _ Hv) | ].
  split; [ apply Permutation_length; apply filter_perm; exact Hv | ].
  split; [ | split; reflexivity ].
  rewrite !combine_map_self. apply Permutation_map. exact Hs.
Qed.

(* ---- the aggregates of spec_validate ---- *)

(* in general (casts or not): the first three components are computed from the fourth *)
Theorem C06_conjunction_gen : forall rs doc r, spec_validate rs doc = Some (Ok r) ->
  exists vs copy,
    r = VTuple [VBool (forallb verdict_valid vs);
                VInt (fold_right (fun v n => (verdict_nfail v + n)%Z) 0%Z vs);
                VInt (Z.of_nat (List.length (filter verdict_tested vs)));
                VList vs; copy].
Proof.
  intros rs doc r. unfold spec_validate.
  destruct (spaths_of rs) as [prs | e]; [ | discriminate ].
  destruct (negb (forallb (fun pr => rule_in_domain (fst pr) (snd pr)) prs)); [ discriminate | ].
  destruct (negb (nonempty_container doc)); [ discriminate | ].
  destruct (spec_run_rules (ssort_rules prs) doc doc) as [vs0 copy].
  intros H. inversion H. eexists. eexists. reflexivity.
Qed.

Lemma spec_refresh_castfree final : forall prs vs, cast_free prs -> List.length vs = List.length prs ->
  spec_refresh final prs vs = vs.
Proof.
  induction prs as [ | [sp r] prs IH ]; intros [ | v vs ] Hcf Hlen; try reflexivity; try discriminate.
  inversion Hcf as [ | ? ? Hr Hrest ]; subst. cbn [snd] in Hr.
  cbn [spec_refresh]. unfold spec_refresh_verdict. rewrite Hr.
  rewrite IH; [ reflexivity | exact Hrest | cbn in Hlen; lia ].
Qed.

Lemma spaths_of_snd : forall rs prs, spaths_of rs = Ok prs -> map snd prs = rs.
Proof.
  induction rs as [ | r rs IH ]; intros prs H; cbn [spaths_of] in H.
  - inversion H. reflexivity.
  - destruct (spath_of (sr_path r)) as [sp | e]; cbn [bind] in H; [ | discriminate ].
    destruct (buildable (sr_cond r)); cbn [bind] in H; [ | discriminate ].
    destruct (spaths_of rs) as [xs | e]; cbn [bind] in H; [ | discriminate ].
    inversion H. cbn. rewrite (IH xs eq_refl). reflexivity.
Qed.

Lemma spaths_of_cast_free rs prs : spaths_of rs = Ok prs ->
  Forall (fun r => sr_cast r = []) rs -> cast_free prs.
Proof.
  intros Hs Hcf. rewrite <- (spaths_of_snd _ _ Hs) in Hcf.
  unfold cast_free. rewrite Forall_map in Hcf. exact Hcf.
Qed.

(* cast-free schema: validate returns the conjunction / sum / count of the independent per-rule
   verdicts on the original document, and the untouched document as cast_data *)
Theorem C06_conjunction : forall rs prs doc,
  spaths_of rs = Ok prs ->
  Forall (fun r => sr_cast r = []) rs ->
  forallb (fun pr => rule_in_domain (fst pr) (snd pr)) prs = true ->
  nonempty_container doc = true ->
  let vs := map (fun pr => spec_verdict (walk (sp_parts (fst pr)) [] doc) (sr_cond (snd pr))) (ssort_rules prs) in
  spec_validate rs doc =
  Some (Ok (VTuple [VBool (forallb verdict_valid vs);
                    VInt (fold_right (fun v n => (verdict_nfail v + n)%Z) 0%Z vs);
                    VInt (Z.of_nat (List.length (filter verdict_tested vs)));
                    VList vs; doc])).
Proof.
  intros rs prs doc Hs Hcf Hdom Hne vs.
  pose proof (spaths_of_cast_free _ _ Hs Hcf) as Hcfp.
  unfold spec_validate. rewrite Hs, Hdom, Hne. cbn [negb].
  rewrite (spec_run_rules_castfree _ doc doc (cast_free_sort _ Hcfp)).
  fold vs.
  rewrite (spec_refresh_castfree doc (ssort_rules prs) vs (cast_free_sort _ Hcfp))
    by (unfold vs; apply map_length).
  reflexivity.
Qed.

(* the order of the rules given to Schema(...) does not matter, as long as every rule can be built *)
Lemma spaths_of_perm : forall rs rs', Permutation rs rs' -> forall prs, spaths_of rs = Ok prs ->
  exists prs', spaths_of rs' = Ok prs' /\ Permutation prs prs'.
Proof.
  induction 1 as [ | x l l' _ IH | x y l | l l' l'' _ IH1 _ IH2 ]; intros prs Hs.
  - exists prs. split; [ exact Hs | reflexivity ].
  - cbn [spaths_of] in *.
    destruct (spath_of (sr_path x)) as [sp | e]; cbn [bind] in *; [ | discriminate ].
    destruct (buildable (sr_cond x)); cbn [bind] in *; [ | discriminate ].
    destruct (spaths_of l) as [xs | e]; cbn [bind] in Hs; [ | discriminate ].
    destruct (IH xs eq_refl) as [xs' [Hxs' Hp]]. rewrite Hxs'. cbn [bind].
    inversion Hs; subst. eexists. split; [ reflexivity | apply perm_skip; exact Hp ].
  - cbn [spaths_of] in *.
    destruct (spath_of (sr_path x)) as [spx | e]; destruct (spath_of (sr_path y)) as [spy | e'];
      destruct (buildable (sr_cond x)); destruct (buildable (sr_cond y));
      destruct (spaths_of l) as [xs | e'']; cbn [bind] in *; try discriminate.
    inversion Hs; subst. eexists. split; [ reflexivity | apply perm_swap ].
  - destruct (IH1 _ Hs) as [p1 [H1 Hp1]]. destruct (IH2 _ H1) as [p2 [H2 Hp2]].
    exists p2. split; [ exact H2 | etransitivity; eassumption ].
Qed.

Theorem C06_order_independent_validate : forall rs rs' prs doc,
  Permutation rs rs' ->
  spaths_of rs = Ok prs ->
  Forall (fun r => sr_cast r = []) rs ->
  forallb (fun pr => rule_in_domain (fst pr) (snd pr)) prs = true ->
  nonempty_container doc = true ->
  exists b n t vs vs',
    spec_validate rs doc = Some (Ok (VTuple [VBool b; VInt n; VInt t; VList vs; doc])) /\
    spec_validate rs' doc = Some (Ok (VTuple [VBool b; VInt n; VInt t; VList vs'; doc])) /\
    Permutation vs vs'.
Proof.
  intros rs rs' prs doc Hperm Hs Hcf Hdom Hne.
  destruct (spaths_of_perm _ _ Hperm _ Hs) as [prs' [Hs' Hpp]].
  assert (Hcf' : Forall (fun r => sr_cast r = []) rs') by (rewrite <- Hperm; exact Hcf).
  assert (Hdom' : forallb (fun pr => rule_in_domain (fst pr) (snd pr)) prs' = true)
    by (rewrite <- (forallb_perm _ _ _ Hpp); exact Hdom).
  pose proof (spaths_of_cast_free _ _ Hs Hcf) as Hcfp.
  destruct (C06_order_independent prs prs' doc Hcfp Hpp) as [Hv [Hb [Hn [Ht _]]]].
  rewrite (spec_run_rules_castfree _ doc doc (cast_free_sort _ Hcfp)) in Hv, Hb, Hn, Ht.
  rewrite (spec_run_rules_castfree _ doc doc (cast_free_sort _ (cast_free_perm _ _ Hpp Hcfp))) in Hv, Hb, Hn, Ht.
  cbn [fst] in Hv, Hb, Hn, Ht.
  do 5 eexists. split; [ apply (C06_conjunction rs prs doc Hs Hcf Hdom Hne) | ].
  split; [ | exact Hv ].
  rewrite (C06_conjunction rs' prs' doc Hs' Hcf' Hdom' Hne). cbv zeta.
  rewrite <- Hb, <- Hn, <- Ht. reflexivity.
Qed.

(* ------------------------------------------------------------------ *)
(* A4. sanity of a single verdict                                       *)

Fixpoint fails_of (i : Z) (sel : list (list pyval * pyval)) (r : list bool) : list pyval :=
  match sel, r with
  | (cp, v) :: s', b :: r' =>
      if b then fails_of (i + 1) s' r'
      else VTuple [VInt i; v; VTuple cp; VBool true] :: fails_of (i + 1) s' r'
  | _, _ => []
  end.

Definition verdict_results (sel : list (list pyval * pyval)) (t : qtree) : list bool :=
  map (sat_tree (qnorm t)) (combine (zidx 0 (List.length sel)) (map snd sel)).

Lemma spec_verdict_unfold sel t :
  spec_verdict sel t =
  match sel with
  | [] => VTuple [VBool true; VBool false; VInt 0; VList []]
  | _ => VTuple [VBool (forallb (fun b => b) (verdict_results sel t)); VBool true;
                 VInt (Z.of_nat (List.length (fails_of 0 sel (verdict_results sel t))));
                 VList (fails_of 0 sel (verdict_results sel t))]
  end.
Proof. destruct sel; reflexivity. Qed.

Lemma verdict_results_length sel t : List.length (verdict_results sel t) = List.length sel.
Proof.
  unfold verdict_results. rewrite map_length, combine_length, zidx_length, map_length. lia.
Qed.

Lemma fails_of_nil_iff : forall sel r i, List.length r = List.length sel ->
  (forallb (fun b => b) r = true <-> fails_of i sel r = []).
Proof.
  induction sel as [ | [cp v] sel IH ]; intros [ | b r ] i Hlen; cbn in Hlen; try discriminate.
  - cbn. tauto.
  - cbn [forallb fails_of]. destruct b; cbn [andb].
    + apply IH. lia.
    + split; discriminate.
Qed.

Lemma fails_of_in : forall sel r i f, In f (fails_of i sel r) ->
  exists (idx : nat) cp v,
    f = VTuple [VInt (i + Z.of_nat idx); v; VTuple cp; VBool true] /\
    nth_error sel idx = Some (cp, v) /\ nth_error r idx = Some false.
Proof.
  induction sel as [ | [cp v] sel IH ]; intros [ | b r ] i f Hin; cbn [fails_of] in Hin; try contradiction.
  assert (Hrec : In f (fails_of (i + 1) sel r) ->
    exists (idx : nat) cp0 v0, f = VTuple [VInt (i + Z.of_nat idx); v0; VTuple cp0; VBool true] /\
      nth_error ((cp, v) :: sel) idx = Some (cp0, v0) /\ nth_error (b :: r) idx = Some false).
  { intros Hin'. destruct (IH _ _ _ Hin') as [idx [cp0 [v0 [-> [Hs Hr]]]]].
    exists (S idx), cp0, v0. split; [ do 3 f_equal; lia | split; assumption ]. }
  destruct b; [ exact (Hrec Hin) | ].
  destruct Hin as [ <- | Hin ]; [ | exact (Hrec Hin) ].
  exists O, cp, v. split; [ do 3 f_equal; lia | split; reflexivity ].
Qed.

Lemma verdict_tuple_inj a b c d a' b' c' d' :
  VTuple [VBool a; VBool b; VInt c; VList d] = VTuple [VBool a'; VBool b'; VInt c'; VList d'] ->
  a = a' /\ b = b' /\ c = c' /\ d = d'.
Proof. intros H. inversion H. auto. Qed.

Theorem spec_verdict_sane : forall sel t v tested n fs,
  spec_verdict sel t = VTuple [VBool v; VBool tested; VInt n; VList fs] ->
  n = Z.of_nat (List.length fs) /\
  (v = true <-> fs = []) /\
  tested = negb (match sel with [] => true | _ => false end) /\
  (forall f, In f fs ->
     exists (idx : nat) cp x,
       f = VTuple [VInt (Z.of_nat idx); x; VTuple cp; VBool true] /\
       nth_error sel idx = Some (cp, x) /\
       nth_error (map (sat_tree (qnorm t)) (combine (zidx 0 (List.length sel)) (map snd sel))) idx = Some false).
Proof.
  intros sel t v tested n fs H. rewrite spec_verdict_unfold in H.
  destruct sel as [ | pv sel ].
  - inversion H; subst. repeat split; try reflexivity. intros f [].
  - apply verdict_tuple_inj in H. destruct H as [Hv [Ht [Hn Hf]]]. subst v tested n fs.
    split; [ reflexivity | ].
    split; [ apply fails_of_nil_iff; apply verdict_results_length | ].
    split; [ reflexivity | ].
    intros f Hin. destruct (fails_of_in _ _ _ _ Hin) as [idx [cp [x [-> [Hs Hr]]]]].
    exists idx, cp, x. split; [ reflexivity | split; assumption ].
Qed.

(* the spec_verdict shape is always the 4-tuple above *)
Lemma spec_verdict_shape sel t : exists v tested n fs,
  spec_verdict sel t = VTuple [VBool v; VBool tested; VInt n; VList fs].
Proof. rewrite spec_verdict_unfold. destruct sel; do 4 eexists; reflexivity. Qed.

Print Assumptions C06_sorted_stable.
Print Assumptions spec_run_rules_castfree.
Print Assumptions C06_order_independent.
Print Assumptions C06_conjunction_gen.
Print Assumptions C06_conjunction.
Print Assumptions C06_order_independent_validate.
Print Assumptions spec_verdict_sane.
