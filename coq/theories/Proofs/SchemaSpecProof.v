(* C06 / C15 (spec level): the schema verdict is the order-independent conjunction of its rules'
   verdicts; casts replace exactly the castable selected nodes in a private copy.
   All statements are about the SPEC in RuleSpec.v / Cast.v / PathSpec.v only (no Inst/Gen). *)
From Coq Require Import ZArith NArith List Bool String Lia Arith.
From Coq Require Import Sorting.Permutation Sorting.Sorted.
From Valida Require Import Py Lang Defs DocSem PathSpec Cast RuleDefs RuleSpec.
From Valida.Proofs Require Import C04Proof.
Import ListNotations.
Local Open Scope list_scope.

(* ================================================================== *)
(* PART A — C06                                                         *)
(* ================================================================== *)

(* ------------------------------------------------------------------ *)
(* A1. ssort_rules is a stable sort by path length                      *)

Definition rkey (x : spath * srule) : nat := List.length (sp_parts (fst x)).
Definition rle (a b : spath * srule) : Prop := (rkey a <= rkey b)%nat.

Lemma ssort_rules_cons x rs : ssort_rules (x :: rs) = sinsert_rule x (ssort_rules rs).
Proof. reflexivity. Qed.

Lemma sinsert_rule_perm x l : Permutation (sinsert_rule x l) (x :: l).
Proof.
  induction l as [ | y ys IH ]; cbn [sinsert_rule]; [ reflexivity | ].
  destruct (Nat.ltb _ _).
  - transitivity (y :: x :: ys); [ apply perm_skip; exact IH | apply perm_swap ].
  - reflexivity.
Qed.

Theorem ssort_rules_perm rs : Permutation (ssort_rules rs) rs.
Proof.
  induction rs as [ | x rs IH ]; [ constructor | ].
  rewrite ssort_rules_cons.
  transitivity (x :: ssort_rules rs); [ apply sinsert_rule_perm | apply perm_skip; exact IH ].
Qed.

Lemma sinsert_rule_sorted x l : StronglySorted rle l -> StronglySorted rle (sinsert_rule x l).
Proof.
  induction l as [ | y ys IH ]; intros Hs; cbn [sinsert_rule].
  - constructor; constructor.
  - inversion Hs as [ | ? ? Hys Hall ]; subst.
    destruct (Nat.ltb_spec (List.length (sp_parts (fst y))) (List.length (sp_parts (fst x)))) as [Hlt | Hge].
    + constructor; [ apply IH; exact Hys | ].
      apply Forall_forall. intros z Hz.
      apply (Permutation_in _ (sinsert_rule_perm x ys)) in Hz.
      destruct Hz as [ <- | Hz ]; [ unfold rle, rkey; lia | ].
      rewrite Forall_forall in Hall. apply Hall. exact Hz.
    + constructor; [ exact Hs | ].
      constructor; [ unfold rle, rkey; lia | ].
      eapply Forall_impl; [ | exact Hall ]. intros z Hz. unfold rle, rkey in *. lia.
Qed.

Theorem ssort_rules_strongly_sorted rs : StronglySorted rle (ssort_rules rs).
Proof.
  induction rs as [ | x rs IH ]; [ constructor | ].
  rewrite ssort_rules_cons. apply sinsert_rule_sorted. exact IH.
Qed.

Theorem ssort_rules_sorted rs : Sorted rle (ssort_rules rs).
Proof. apply StronglySorted_Sorted. apply ssort_rules_strongly_sorted. Qed.

Definition key_is (n : nat) (x : spath * srule) : bool := Nat.eqb (rkey x) n.

Lemma sinsert_rule_filter n x l :
  filter (key_is n) (sinsert_rule x l) = filter (key_is n) (x :: l).
Proof.
  induction l as [ | y ys IH ]; cbn [sinsert_rule]; [ reflexivity | ].
  destruct (Nat.ltb_spec (List.length (sp_parts (fst y))) (List.length (sp_parts (fst x)))) as [Hlt | Hge];
    [ | reflexivity ].
  cbn [filter] in *. rewrite IH.
  unfold key_is, rkey.
  destruct (Nat.eqb_spec (List.length (sp_parts (fst y))) n) as [Ey | Ey];
    destruct (Nat.eqb_spec (List.length (sp_parts (fst x))) n) as [Ex | Ex]; try reflexivity.
  lia.
Qed.

Theorem ssort_rules_stable n rs : filter (key_is n) (ssort_rules rs) = filter (key_is n) rs.
Proof.
  induction rs as [ | x rs IH ]; [ reflexivity | ].
  rewrite ssort_rules_cons, sinsert_rule_filter. cbn [filter]. rewrite IH. reflexivity.
Qed.

(* the requested packaging *)
Theorem C06_sorted_stable : forall rs,
  Permutation (ssort_rules rs) rs /\
  StronglySorted (fun a b => (List.length (sp_parts (fst a)) <= List.length (sp_parts (fst b)))%nat) (ssort_rules rs) /\
  Sorted (fun a b => (List.length (sp_parts (fst a)) <= List.length (sp_parts (fst b)))%nat) (ssort_rules rs) /\
  (forall n, filter (fun x => Nat.eqb (List.length (sp_parts (fst x))) n) (ssort_rules rs)
             = filter (fun x => Nat.eqb (List.length (sp_parts (fst x))) n) rs).
Proof.
  intros rs. split; [ apply ssort_rules_perm | ].
  split; [ exact (ssort_rules_strongly_sorted rs) | ].
  split; [ exact (ssort_rules_sorted rs) | ].
  intros n. exact (ssort_rules_stable n rs).
Qed.

(* ------------------------------------------------------------------ *)
(* A2. cast-free rules are judged independently on the original document *)

Definition cast_free (prs : list (spath * srule)) : Prop :=
  Forall (fun pr => sr_cast (snd pr) = []) prs.

Definition rule_verdict (doc : pyval) (pr : spath * srule) : pyval :=
  spec_verdict (walk (sp_parts (fst pr)) [] doc) (sr_cond (snd pr)).

Theorem spec_run_rules_castfree : forall prs doc copy, cast_free prs ->
  spec_run_rules prs doc copy
  = (map (fun pr => spec_verdict (walk (sp_parts (fst pr)) [] doc) (sr_cond (snd pr))) prs, copy).
Proof.
  induction prs as [ | [sp r] prs IH ]; intros doc copy Hcf; [ reflexivity | ].
  inversion Hcf as [ | ? ? Hr Hrest ]; subst. cbn [snd] in Hr.
  cbn [spec_run_rules]. unfold spec_rule_in_schema. rewrite Hr.
  rewrite (IH doc copy Hrest). reflexivity.
Qed.

Lemma cast_free_perm prs prs' : Permutation prs prs' -> cast_free prs -> cast_free prs'.
Proof. intros Hp Hcf. unfold cast_free in *. rewrite <- Hp. exact Hcf. Qed.

Lemma cast_free_sort prs : cast_free prs -> cast_free (ssort_rules prs).
Proof. apply cast_free_perm. symmetry. apply ssort_rules_perm. Qed.

(* ------------------------------------------------------------------ *)
(* A3. order independence                                               *)

Definition sum_nfail (vs : list pyval) : Z := fold_right (fun v n => (verdict_nfail v + n)%Z) 0%Z vs.

Lemma forallb_perm {A} (f : A -> bool) l l' : Permutation l l' -> forallb f l = forallb f l'.
Proof.
  induction 1 as [ | x l l' _ IH | x y l | l l' l'' _ IH1 _ IH2 ]; cbn.
  - reflexivity.
  - rewrite IH. reflexivity.
  - destruct (f x), (f y); reflexivity.
  - congruence.
Qed.

Lemma sum_nfail_perm l l' : Permutation l l' -> sum_nfail l = sum_nfail l'.
Proof.
  induction 1 as [ | x l l' _ IH | x y l | l l' l'' _ IH1 _ IH2 ]; cbn.
  - reflexivity.
  - unfold sum_nfail in IH. rewrite IH. reflexivity.
  - lia.
  - congruence.
Qed.

Lemma filter_perm {A} (f : A -> bool) l l' : Permutation l l' -> Permutation (filter f l) (filter f l').
Proof.
  induction 1 as [ | x l l' _ IH | x y l | l l' l'' _ IH1 _ IH2 ]; cbn.
  - constructor.
  - destruct (f x); [ apply perm_skip | ]; exact IH.
  - destruct (f x), (f y); try reflexivity. apply perm_swap.
  - etransitivity; eassumption.
Qed.

Lemma combine_map_self {A B} (f : A -> B) (l : list A) : combine l (map f l) = map (fun x => (x, f x)) l.
Proof. induction l as [ | x l IH ]; cbn; [ reflexivity | rewrite IH; reflexivity ]. Qed.

Theorem C06_order_independent : forall prs prs' doc,
  cast_free prs -> Permutation prs prs' ->
  let vs := fst (spec_run_rules (ssort_rules prs) doc doc) in
  let vs' := fst (spec_run_rules (ssort_rules prs') doc doc) in
  Permutation vs vs' /\
  forallb verdict_valid vs = forallb verdict_valid vs' /\
  fold_right (fun v n => (verdict_nfail v + n)%Z) 0%Z vs = fold_right (fun v n => (verdict_nfail v + n)%Z) 0%Z vs' /\
  List.length (filter verdict_tested vs) = List.length (filter verdict_tested vs') /\
  Permutation (combine (ssort_rules prs) vs) (combine (ssort_rules prs') vs') /\
  snd (spec_run_rules (ssort_rules prs) doc doc) = doc /\
  snd (spec_run_rules (ssort_rules prs') doc doc) = doc.
Proof.
  intros prs prs' doc Hcf Hperm.
  assert (Hcf' : cast_free prs') by (eapply cast_free_perm; eauto).
  rewrite (spec_run_rules_castfree _ doc doc (cast_free_sort _ Hcf)).
  rewrite (spec_run_rules_castfree _ doc doc (cast_free_sort _ Hcf')).
  cbn [fst snd]. fold (rule_verdict doc).
  assert (Hs : Permutation (ssort_rules prs) (ssort_rules prs')).
  { rewrite (ssort_rules_perm prs), (ssort_rules_perm prs'). exact Hperm. }
  assert (Hv : Permutation (map (rule_verdict doc) (ssort_rules prs)) (map (rule_verdict doc) (ssort_rules prs')))
    by (apply Permutation_map; exact Hs).
  split; [ exact Hv | ].
  split; [ apply forallb_perm; exact Hv | ].
  split; [ apply (sum_nfail_perm _ _ Hv) | ].
  split; [ apply Permutation_length; apply filter_perm; exact Hv | ].
  split; [ | split; reflexivity ].
  rewrite !combine_map_self. apply Permutation_map. exact Hs.
Qed.

(* ---- the aggregates of spec_validate ---- *)

(* in general (casts or not): the first three components are computed from the fourth *)
Theorem C06_conjunction_gen : forall rs doc r, spec_validate rs doc = Some (Ok r) ->
  exists vs copy,
    r = VTuple [VBool (forallb verdict_valid vs);
                VInt (fold_right (fun v n => (verdict_nfail v + n)%Z) 0%Z vs);
                VInt (Z.of_nat (List.length (filter verdict_tested vs)));
                VList vs; copy].
Proof.
  intros rs doc r. unfold spec_validate.
  destruct (spaths_of rs) as [prs | e]; [ | discriminate ].
  destruct (negb (forallb (fun pr => rule_in_domain (fst pr) (snd pr)) prs)); [ discriminate | ].
  destruct (negb (nonempty_container doc)); [ discriminate | ].
  destruct (spec_run_rules (ssort_rules prs) doc doc) as [vs0 copy].
  intros H. inversion H. eexists. eexists. reflexivity.
Qed.

Lemma spec_refresh_castfree final : forall prs vs, cast_free prs -> List.length vs = List.length prs ->
  spec_refresh final prs vs = vs.
Proof.
  induction prs as [ | [sp r] prs IH ]; intros [ | v vs ] Hcf Hlen; try reflexivity; try discriminate.
  inversion Hcf as [ | ? ? Hr Hrest ]; subst. cbn [snd] in Hr.
  cbn [spec_refresh]. unfold spec_refresh_verdict. rewrite Hr.
  rewrite IH; [ reflexivity | exact Hrest | cbn in Hlen; lia ].
Qed.

Lemma spaths_of_snd : forall rs prs, spaths_of rs = Ok prs -> map snd prs = rs.
Proof.
  induction rs as [ | r rs IH ]; intros prs H; cbn [spaths_of] in H.
  - inversion H. reflexivity.
  - destruct (spath_of (sr_path r)) as [sp | e]; cbn [bind] in H; [ | discriminate ].
    destruct (buildable (sr_cond r)); cbn [bind] in H; [ | discriminate ].
    destruct (spaths_of rs) as [xs | e]; cbn [bind] in H; [ | discriminate ].
    inversion H. cbn. rewrite (IH xs eq_refl). reflexivity.
Qed.

Lemma spaths_of_cast_free rs prs : spaths_of rs = Ok prs ->
  Forall (fun r => sr_cast r = []) rs -> cast_free prs.
Proof.
  intros Hs Hcf. rewrite <- (spaths_of_snd _ _ Hs) in Hcf.
  unfold cast_free. rewrite Forall_map in Hcf. exact Hcf.
Qed.

(* cast-free schema: validate returns the conjunction / sum / count of the independent per-rule
   verdicts on the original document, and the untouched document as cast_data *)
Theorem C06_conjunction : forall rs prs doc,
  spaths_of rs = Ok prs ->
  Forall (fun r => sr_cast r = []) rs ->
  forallb (fun pr => rule_in_domain (fst pr) (snd pr)) prs = true ->
  nonempty_container doc = true ->
  let vs := map (fun pr => spec_verdict (walk (sp_parts (fst pr)) [] doc) (sr_cond (snd pr))) (ssort_rules prs) in
  spec_validate rs doc =
  Some (Ok (VTuple [VBool (forallb verdict_valid vs);
                    VInt (fold_right (fun v n => (verdict_nfail v + n)%Z) 0%Z vs);
                    VInt (Z.of_nat (List.length (filter verdict_tested vs)));
                    VList vs; doc])).
Proof.
  intros rs prs doc Hs Hcf Hdom Hne vs.
  pose proof (spaths_of_cast_free _ _ Hs Hcf) as Hcfp.
  unfold spec_validate. rewrite Hs, Hdom, Hne. cbn [negb].
  rewrite (spec_run_rules_castfree _ doc doc (cast_free_sort _ Hcfp)).
  fold vs.
  rewrite (spec_refresh_castfree doc (ssort_rules prs) vs (cast_free_sort _ Hcfp))
    by (unfold vs; apply map_length).
  reflexivity.
Qed.

(* the order of the rules given to Schema(...) does not matter, as long as every rule can be built *)
Lemma spaths_of_perm : forall rs rs', Permutation rs rs' -> forall prs, spaths_of rs = Ok prs ->
  exists prs', spaths_of rs' = Ok prs' /\ Permutation prs prs'.
Proof.
  induction 1 as [ | x l l' _ IH | x y l | l l' l'' _ IH1 _ IH2 ]; intros prs Hs.
  - exists prs. split; [ exact Hs | reflexivity ].
  - cbn [spaths_of] in *.
    destruct (spath_of (sr_path x)) as [sp | e]; cbn [bind] in *; [ | discriminate ].
    destruct (buildable (sr_cond x)); cbn [bind] in *; [ | discriminate ].
    destruct (spaths_of l) as [xs | e]; cbn [bind] in Hs; [ | discriminate ].
    destruct (IH xs eq_refl) as [xs' [Hxs' Hp]]. rewrite Hxs'. cbn [bind].
    inversion Hs; subst. eexists. split; [ reflexivity | apply perm_skip; exact Hp ].
  - cbn [spaths_of] in *.
    destruct (spath_of (sr_path x)) as [spx | e]; destruct (spath_of (sr_path y)) as [spy | e'];
      destruct (buildable (sr_cond x)); destruct (buildable (sr_cond y));
      destruct (spaths_of l) as [xs | e'']; cbn [bind] in *; try discriminate.
    inversion Hs; subst. eexists. split; [ reflexivity | apply perm_swap ].
  - destruct (IH1 _ Hs) as [p1 [H1 Hp1]]. destruct (IH2 _ H1) as [p2 [H2 Hp2]].
    exists p2. split; [ exact H2 | etransitivity; eassumption ].
Qed.

Theorem C06_order_independent_validate : forall rs rs' prs doc,
  Permutation rs rs' ->
  spaths_of rs = Ok prs ->
  Forall (fun r => sr_cast r = []) rs ->
  forallb (fun pr => rule_in_domain (fst pr) (snd pr)) prs = true ->
  nonempty_container doc = true ->
  exists b n t vs vs',
    spec_validate rs doc = Some (Ok (VTuple [VBool b; VInt n; VInt t; VList vs; doc])) /\
    spec_validate rs' doc = Some (Ok (VTuple [VBool b; VInt n; VInt t; VList vs'; doc])) /\
    Permutation vs vs'.
Proof.
  intros rs rs' prs doc Hperm Hs Hcf Hdom Hne.
  destruct (spaths_of_perm _ _ Hperm _ Hs) as [prs' [Hs' Hpp]].
  assert (Hcf' : Forall (fun r => sr_cast r = []) rs') by (rewrite <- Hperm; exact Hcf).
  assert (Hdom' : forallb (fun pr => rule_in_domain (fst pr) (snd pr)) prs' = true)
    by (rewrite <- (forallb_perm _ _ _ Hpp); exact Hdom).
  pose proof (spaths_of_cast_free _ _ Hs Hcf) as Hcfp.
  destruct (C06_order_independent prs prs' doc Hcfp Hpp) as [Hv [Hb [Hn [Ht _]]]].
  rewrite (spec_run_rules_castfree _ doc doc (cast_free_sort _ Hcfp)) in Hv, Hb, Hn, Ht.
  rewrite (spec_run_rules_castfree _ doc doc (cast_free_sort _ (cast_free_perm _ _ Hpp Hcfp))) in Hv, Hb, Hn, Ht.
  cbn [fst] in Hv, Hb, Hn, Ht.
  do 5 eexists. split; [ apply (C06_conjunction rs prs doc Hs Hcf Hdom Hne) | ].
  split; [ | exact Hv ].
  rewrite (C06_conjunction rs' prs' doc Hs' Hcf' Hdom' Hne). cbv zeta.
  rewrite <- Hb, <- Hn, <- Ht. reflexivity.
Qed.

(* ------------------------------------------------------------------ *)
(* A4. sanity of a single verdict                                       *)

Fixpoint fails_of (i : Z) (sel : list (list pyval * pyval)) (r : list bool) : list pyval :=
  match sel, r with
  | (cp, v) :: s', b :: r' =>
      if b then fails_of (i + 1) s' r'
      else VTuple [VInt i; v; VTuple cp; VBool true] :: fails_of (i + 1) s' r'
  | _, _ => []
  end.

Definition verdict_results (sel : list (list pyval * pyval)) (t : qtree) : list bool :=
  map (sat_tree (qnorm t)) (combine (zidx 0 (List.length sel)) (map snd sel)).

Lemma spec_verdict_unfold sel t :
  spec_verdict sel t =
  match sel with
  | [] => VTuple [VBool true; VBool false; VInt 0; VList []]
  | _ => VTuple [VBool (forallb (fun b => b) (verdict_results sel t)); VBool true;
                 VInt (Z.of_nat (List.length (fails_of 0 sel (verdict_results sel t))));
                 VList (fails_of 0 sel (verdict_results sel t))]
  end.
Proof. destruct sel; reflexivity. Qed.

Lemma verdict_results_length sel t : List.length (verdict_results sel t) = List.length sel.
Proof.
  unfold verdict_results. rewrite map_length, combine_length, zidx_length, map_length. lia.
Qed.

Lemma fails_of_nil_iff : forall sel r i, List.length r = List.length sel ->
  (forallb (fun b => b) r = true <-> fails_of i sel r = []).
Proof.
  induction sel as [ | [cp v] sel IH ]; intros [ | b r ] i Hlen; cbn in Hlen; try discriminate.
  - cbn. tauto.
  - cbn [forallb fails_of]. destruct b; cbn [andb].
    + apply IH. lia.
    + split; discriminate.
Qed.

Lemma fails_of_in : forall sel r i f, In f (fails_of i sel r) ->
  exists (idx : nat) cp v,
    f = VTuple [VInt (i + Z.of_nat idx); v; VTuple cp; VBool true] /\
    nth_error sel idx = Some (cp, v) /\ nth_error r idx = Some false.
Proof.
  induction sel as [ | [cp v] sel IH ]; intros [ | b r ] i f Hin; cbn [fails_of] in Hin; try contradiction.
  assert (Hrec : In f (fails_of (i + 1) sel r) ->
    exists (idx : nat) cp0 v0, f = VTuple [VInt (i + Z.of_nat idx); v0; VTuple cp0; VBool true] /\
      nth_error ((cp, v) :: sel) idx = Some (cp0, v0) /\ nth_error (b :: r) idx = Some false).
  { intros Hin'. destruct (IH _ _ _ Hin') as [idx [cp0 [v0 [-> [Hs Hr]]]]].
    exists (S idx), cp0, v0. split; [ do 3 f_equal; lia | split; assumption ]. }
  destruct b; [ exact (Hrec Hin) | ].
  destruct Hin as [ <- | Hin ]; [ | exact (Hrec Hin) ].
  exists O, cp, v. split; [ do 3 f_equal; lia | split; reflexivity ].
Qed.

Lemma verdict_tuple_inj a b c d a' b' c' d' :
  VTuple [VBool a; VBool b; VInt c; VList d] = VTuple [VBool a'; VBool b'; VInt c'; VList d'] ->
  a = a' /\ b = b' /\ c = c' /\ d = d'.
Proof. intros H. inversion H. auto. Qed.

Theorem spec_verdict_sane : forall sel t v tested n fs,
  spec_verdict sel t = VTuple [VBool v; VBool tested; VInt n; VList fs] ->
  n = Z.of_nat (List.length fs) /\
  (v = true <-> fs = []) /\
  tested = negb (match sel with [] => true | _ => false end) /\
  (forall f, In f fs ->
     exists (idx : nat) cp x,
       f = VTuple [VInt (Z.of_nat idx); x; VTuple cp; VBool true] /\
       nth_error sel idx = Some (cp, x) /\
       nth_error (map (sat_tree (qnorm t)) (combine (zidx 0 (List.length sel)) (map snd sel))) idx = Some false).
Proof.
  intros sel t v tested n fs H. rewrite spec_verdict_unfold in H.
  destruct sel as [ | pv sel ].
  - inversion H; subst. repeat split; try reflexivity. intros f [].
  - apply verdict_tuple_inj in H. destruct H as [Hv [Ht [Hn Hf]]]. subst v tested n fs.
    split; [ reflexivity | ].
    split; [ apply fails_of_nil_iff; apply verdict_results_length | ].
    split; [ reflexivity | ].
    intros f Hin. destruct (fails_of_in _ _ _ _ Hin) as [idx [cp [x [-> [Hs Hr]]]]].
    exists idx, cp, x. split; [ reflexivity | split; assumption ].
Qed.

(* the spec_verdict shape is always the 4-tuple above *)
Lemma spec_verdict_shape sel t : exists v tested n fs,
  spec_verdict sel t = VTuple [VBool v; VBool tested; VInt n; VList fs].
Proof. rewrite spec_verdict_unfold. destruct sel; do 4 eexists; reflexivity. Qed.

(* what the components of one verdict say about the selected nodes *)
Lemma fails_of_length : forall sel r i, List.length r = List.length sel ->
  List.length (fails_of i sel r) = List.length (filter negb r).
Proof.
  induction sel as [ | [cp v] sel IH ]; intros [ | b r ] i Hlen; cbn in Hlen; try discriminate; [ reflexivity | ].
  cbn [fails_of filter]. destruct b; cbn [negb List.length]; rewrite (IH r (i + 1)%Z) by lia; reflexivity.
Qed.

Theorem spec_verdict_components : forall sel t,
  verdict_valid (spec_verdict sel t) = forallb (fun b => b) (verdict_results sel t) /\
  verdict_nfail (spec_verdict sel t) = Z.of_nat (List.length (filter negb (verdict_results sel t))) /\
  verdict_tested (spec_verdict sel t) = negb (match sel with [] => true | _ => false end).
Proof.
  intros sel t. rewrite spec_verdict_unfold. destruct sel as [ | pv sel ]; [ repeat split; reflexivity | ].
  cbn [verdict_valid verdict_nfail verdict_tested].
  rewrite (fails_of_length _ _ 0%Z (verdict_results_length (pv :: sel) t)). repeat split; reflexivity.
Qed.

(* the aggregates do not depend on the sort either: they are those of the rules as given *)
Theorem C06_aggregates_unsorted : forall prs doc,
  let vs := map (fun pr => spec_verdict (walk (sp_parts (fst pr)) [] doc) (sr_cond (snd pr))) (ssort_rules prs) in
  let us := map (fun pr => spec_verdict (walk (sp_parts (fst pr)) [] doc) (sr_cond (snd pr))) prs in
  forallb verdict_valid vs = forallb verdict_valid us /\
  fold_right (fun v n => (verdict_nfail v + n)%Z) 0%Z vs = fold_right (fun v n => (verdict_nfail v + n)%Z) 0%Z us /\
  List.length (filter verdict_tested vs) = List.length (filter verdict_tested us).
Proof.
  intros prs doc vs us.
  assert (Hv : Permutation vs us) by (apply Permutation_map; apply ssort_rules_perm).
  split; [ apply forallb_perm; exact Hv | ].
  split; [ apply (sum_nfail_perm _ _ Hv) | apply Permutation_length; apply filter_perm; exact Hv ].
Qed.

(* ================================================================== *)
(* PART B — C15                                                         *)
(* ================================================================== *)

(* ------------------------------------------------------------------ *)
(* B0. only strings are castable, and only to bool / int                *)

Lemma apply_cast_str f v v' : apply_cast f v = Ok v' ->
  exists s, v = VStr s /\ ((exists b, v' = VBool b) \/ (exists z, v' = VInt z)).
Proof.
  intros H. destruct f, v; cbn [apply_cast] in H; try discriminate H.
  - exists s. split; [ reflexivity | ]. left.
    destruct (String.eqb (str_lower s) "true"); [ inversion H; eauto | ].
    destruct (String.eqb (str_lower s) "false"); [ inversion H; eauto | discriminate H ].
  - exists s. split; [ reflexivity | ]. right.
    destruct (int_of_str s); [ inversion H; eauto | discriminate H ].
Qed.

Lemma spec_first_cast_str : forall casts v v', spec_first_cast casts v = Some v' ->
  exists s, v = VStr s /\ ((exists b, v' = VBool b) \/ (exists z, v' = VInt z)).
Proof.
  induction casts as [ | [t f] casts IH ]; intros v v' H; cbn [spec_first_cast] in H; [ discriminate H | ].
  destruct (inst_of v t); [ | apply IH; exact H ].
  destruct (apply_cast f v) as [x | e] eqn:E; [ | apply IH; exact H ].
  inversion H; subst. eapply apply_cast_str; eauto.
Qed.

Lemma spec_first_cast_wf casts v v' : spec_first_cast casts v = Some v' -> wf_val v' = true.
Proof.
  intros H. destruct (spec_first_cast_str _ _ _ H) as [s [_ [[b ->] | [z ->]]]]; reflexivity.
Qed.

(* a castable node has no children: no part selects anything below it *)
Lemma castable_no_children casts v v' p : spec_first_cast casts v = Some v' -> children p v = [].
Proof.
  intros H. destruct (spec_first_cast_str _ _ _ H) as [s [-> _]]. destruct p; reflexivity.
Qed.

(* ------------------------------------------------------------------ *)
(* B1. one level of a container: position of a key, child at a position  *)

Fixpoint dict_pos (k : pyval) (d : list (pyval * pyval)) : option nat :=
  match d with
  | [] => None
  | kv :: r => if py_eq k (fst kv) then Some O else option_map S (dict_pos k r)
  end.

Fixpoint dset (d : list (pyval * pyval)) (i : nat) (x : pyval) : option (list (pyval * pyval)) :=
  match d with
  | [] => None
  | kv :: r => match i with
               | O => Some ((fst kv, x) :: r)
               | S j => option_map (cons kv) (dset r j x)
               end
  end.

(* the position a key denotes in a container: dict keys by ==, list indices normalised *)
Definition key_pos (v : pyval) (k : pyval) : option nat :=
  match v with
  | VDict d => dict_pos k d
  | VList l => norm_index l k
  | _ => None
  end.

Definition child_at (v : pyval) (i : nat) : option pyval :=
  match v with
  | VDict d => option_map snd (nth_error d i)
  | VList l => nth_error l i
  | _ => None
  end.

Definition set_child (v : pyval) (i : nat) (x : pyval) : option pyval :=
  match v with
  | VDict d => option_map VDict (dset d i x)
  | VList l => option_map VList (list_set l i x)
  | _ => None
  end.

Lemma dict_look_pos k : forall d,
  dict_look k d = match dict_pos k d with Some i => option_map snd (nth_error d i) | None => None end.
Proof.
  induction d as [ | [k2 v2] r IH ]; [ reflexivity | ].
  change (dict_look k ((k2, v2) :: r)) with (if py_eq k k2 then Some v2 else dict_look k r).
  cbn [dict_pos fst]. destruct (py_eq k k2); [ reflexivity | ].
  rewrite IH. destruct (dict_pos k r); reflexivity.
Qed.

Lemma dict_set_dset k x : forall d,
  dict_set k x d = match dict_pos k d with Some i => dset d i x | None => None end.
Proof.
  induction d as [ | [k2 v2] r IH ]; [ reflexivity | ].
  cbn [dict_set dict_pos fst]. destruct (py_eq k k2); [ reflexivity | ].
  rewrite IH. destruct (dict_pos k r) as [i | ]; cbn; [ | reflexivity ].
  destruct (dset r i x); reflexivity.
Qed.

Lemma dset_fst : forall d i x d', dset d i x = Some d' -> map fst d' = map fst d.
Proof.
  induction d as [ | kv r IH ]; intros [ | j ] x d' H; cbn [dset] in H; try discriminate H.
  - inversion H. reflexivity.
  - destruct (dset r j x) as [r' | ] eqn:E; cbn [option_map] in H; [ | discriminate H ].
    inversion H. cbn. f_equal. eapply IH; eauto.
Qed.

Lemma dset_nth_same : forall d i x d', dset d i x = Some d' -> option_map snd (nth_error d' i) = Some x.
Proof.
  induction d as [ | kv r IH ]; intros [ | j ] x d' H; cbn [dset] in H; try discriminate H.
  - inversion H. reflexivity.
  - destruct (dset r j x) as [r' | ] eqn:E; cbn [option_map] in H; [ | discriminate H ].
    inversion H. cbn [nth_error]. eapply IH; eauto.
Qed.

Lemma dset_nth_other : forall d i x d' j, dset d i x = Some d' -> j <> i -> nth_error d' j = nth_error d j.
Proof.
  induction d as [ | kv r IH ]; intros [ | i ] x d' j H Hne; cbn [dset] in H; try discriminate H.
  - inversion H. destruct j; [ contradiction | reflexivity ].
  - destruct (dset r i x) as [r' | ] eqn:E; cbn [option_map] in H; [ | discriminate H ].
    inversion H. destruct j; [ reflexivity | ]. cbn [nth_error]. eapply IH; eauto.
Qed.

Lemma dset_exists : forall d i x kv, nth_error d i = Some kv -> exists d', dset d i x = Some d'.
Proof.
  induction d as [ | a r IH ]; intros [ | i ] x kv H; cbn [nth_error] in H; try discriminate H.
  - eexists. reflexivity.
  - destruct (IH i x kv H) as [r' Hr]. cbn [dset]. rewrite Hr. eexists. reflexivity.
Qed.

Lemma list_set_length {X} : forall (l : list X) i x l', list_set l i x = Some l' -> List.length l' = List.length l.
Proof.
  induction l as [ | a r IH ]; intros [ | j ] x l' H; cbn [list_set] in H; try discriminate H.
  - inversion H. reflexivity.
  - destruct (list_set r j x) as [r' | ] eqn:E; [ | discriminate H ].
    inversion H. cbn. f_equal. eapply IH; eauto.
Qed.

Lemma list_set_nth_same {X} : forall (l : list X) i x l', list_set l i x = Some l' -> nth_error l' i = Some x.
Proof.
  induction l as [ | a r IH ]; intros [ | j ] x l' H; cbn [list_set] in H; try discriminate H.
  - inversion H. reflexivity.
  - destruct (list_set r j x) as [r' | ] eqn:E; [ | discriminate H ].
    inversion H. cbn [nth_error]. eapply IH; eauto.
Qed.

Lemma list_set_nth_other {X} : forall (l : list X) i x l' j, list_set l i x = Some l' -> j <> i ->
  nth_error l' j = nth_error l j.
Proof.
  induction l as [ | a r IH ]; intros [ | i ] x l' j H Hne; cbn [list_set] in H; try discriminate H.
  - inversion H. destruct j; [ contradiction | reflexivity ].
  - destruct (list_set r i x) as [r' | ] eqn:E; [ | discriminate H ].
    inversion H. destruct j; [ reflexivity | ]. cbn [nth_error]. eapply IH; eauto.
Qed.

Lemma list_set_exists {X} : forall (l : list X) i x y, nth_error l i = Some y -> exists l', list_set l i x = Some l'.
Proof.
  induction l as [ | a r IH ]; intros [ | i ] x y H; cbn [nth_error] in H; try discriminate H.
  - eexists. reflexivity.
  - destruct (IH i x y H) as [r' Hr]. cbn [list_set]. rewrite Hr. eexists. reflexivity.
Qed.

Lemma dict_pos_fst k : forall d d', map fst d = map fst d' -> dict_pos k d = dict_pos k d'.
Proof.
  induction d as [ | a r IH ]; intros [ | b r' ] H; cbn [map] in H; try discriminate H; [ reflexivity | ].
  injection H as H1 H2. cbn [dict_pos]. rewrite H1, (IH r' H2). reflexivity.
Qed.

(* get_at / set_at, one step at a time *)
Lemma get_at_step v k r :
  get_at v (k :: r) = match key_pos v k with
                      | Some i => match child_at v i with Some c => get_at c r | None => None end
                      | None => None
                      end.
Proof.
  destruct v; try reflexivity.
  cbn [get_at key_pos child_at]. rewrite dict_look_pos.
  destruct (dict_pos k d) as [i | ]; [ | reflexivity ].
  destruct (nth_error d i); reflexivity.
Qed.

Lemma set_at_step v k r x :
  set_at v (k :: r) x = match key_pos v k with
                        | Some i => match child_at v i with
                                    | Some c => match set_at c r x with
                                                | Some c' => set_child v i c'
                                                | None => None
                                                end
                                    | None => None
                                    end
                        | None => None
                        end.
Proof.
  destruct v; try reflexivity.
  cbn [set_at key_pos child_at set_child]. rewrite dict_look_pos.
  destruct (dict_pos k d) as [i | ] eqn:Hp; [ | reflexivity ].
  destruct (nth_error d i) as [kv | ]; cbn [option_map]; [ | reflexivity ].
  destruct (set_at (snd kv) r x) as [c' | ]; [ | reflexivity ].
  rewrite dict_set_dset, Hp. reflexivity.
Qed.

Lemma set_child_key_pos v i x v' k : set_child v i x = Some v' -> key_pos v' k = key_pos v k.
Proof.
  intros H. destruct v; cbn [set_child] in H; try discriminate H.
  - destruct (list_set l i x) as [l' | ] eqn:E; cbn [option_map] in H; [ | discriminate H ].
    inversion H. cbn [key_pos]. unfold norm_index. rewrite (list_set_length _ _ _ _ E). reflexivity.
  - destruct (dset d i x) as [d' | ] eqn:E; cbn [option_map] in H; [ | discriminate H ].
    inversion H. cbn [key_pos]. apply dict_pos_fst. eapply dset_fst; eauto.
Qed.

Lemma set_child_same v i x v' : set_child v i x = Some v' -> child_at v' i = Some x.
Proof.
  intros H. destruct v; cbn [set_child] in H; try discriminate H.
  - destruct (list_set l i x) as [l' | ] eqn:E; cbn [option_map] in H; [ | discriminate H ].
    inversion H. cbn [child_at]. eapply list_set_nth_same; eauto.
  - destruct (dset d i x) as [d' | ] eqn:E; cbn [option_map] in H; [ | discriminate H ].
    inversion H. cbn [child_at]. eapply dset_nth_same; eauto.
Qed.

Lemma set_child_other v i x v' j : set_child v i x = Some v' -> j <> i -> child_at v' j = child_at v j.
Proof.
  intros H Hne. destruct v; cbn [set_child] in H; try discriminate H.
  - destruct (list_set l i x) as [l' | ] eqn:E; cbn [option_map] in H; [ | discriminate H ].
    inversion H. cbn [child_at]. eapply list_set_nth_other; eauto.
  - destruct (dset d i x) as [d' | ] eqn:E; cbn [option_map] in H; [ | discriminate H ].
    inversion H. cbn [child_at]. rewrite (dset_nth_other _ _ _ _ j E Hne). reflexivity.
Qed.

Lemma set_child_exists v i c x : child_at v i = Some c -> exists v', set_child v i x = Some v'.
Proof.
  intros H. destruct v; cbn [child_at] in H; try discriminate H.
  - destruct (list_set_exists _ _ x _ H) as [l' Hl]. cbn [set_child]. rewrite Hl. eexists. reflexivity.
  - destruct (nth_error d i) as [kv | ] eqn:E; [ | discriminate H ].
    destruct (dset_exists _ _ x _ E) as [d' Hd]. cbn [set_child]. rewrite Hd. eexists. reflexivity.
Qed.

Lemma wf_dict_iff d : wf_val (VDict d) = (wf_entries d && keys_distinct (map fst d)).
Proof. reflexivity. Qed.

Lemma dset_wf_entries : forall d i x d', wf_entries d = true -> wf_val x = true -> dset d i x = Some d' ->
  wf_entries d' = true.
Proof.
  induction d as [ | [k y] r IH ]; intros [ | j ] x d' Hwf Hx H; cbn [dset] in H; try discriminate H;
    cbn [wf_entries] in Hwf; rewrite !andb_true_iff in Hwf; destruct Hwf as [[[Hk Hh] Hy] Hr].
  - inversion H. cbn [fst wf_entries]. rewrite Hk, Hh, Hx, Hr. reflexivity.
  - destruct (dset r j x) as [r' | ] eqn:E; cbn [option_map] in H; [ | discriminate H ].
    inversion H. cbn [wf_entries]. rewrite Hk, Hh, Hy, (IH j x r' Hr Hx E). reflexivity.
Qed.

Lemma list_set_forallb {X} (f : X -> bool) : forall l i x l', forallb f l = true -> f x = true ->
  list_set l i x = Some l' -> forallb f l' = true.
Proof.
  induction l as [ | a r IH ]; intros [ | j ] x l' Hall Hx H; cbn [list_set] in H; try discriminate H;
    cbn [forallb] in Hall; apply andb_true_iff in Hall; destruct Hall as [Ha Hr].
  - inversion H. cbn [forallb]. rewrite Hx, Hr. reflexivity.
  - destruct (list_set r j x) as [r' | ] eqn:E; [ | discriminate H ].
    inversion H. cbn [forallb]. rewrite Ha, (IH j x r' Hr Hx E). reflexivity.
Qed.

Lemma set_child_wf v i x v' : wf_val v = true -> wf_val x = true -> set_child v i x = Some v' -> wf_val v' = true.
Proof.
  intros Hwf Hx H. destruct v; cbn [set_child] in H; try discriminate H.
  - destruct (list_set l i x) as [l' | ] eqn:E; cbn [option_map] in H; [ | discriminate H ].
    inversion H. cbn [wf_val] in *. eapply list_set_forallb; eauto.
  - destruct (dset d i x) as [d' | ] eqn:E; cbn [option_map] in H; [ | discriminate H ].
    inversion H. rewrite wf_dict_iff in *. apply andb_true_iff in Hwf. destruct Hwf as [He Hkd].
    rewrite (dset_fst _ _ _ _ E), Hkd, (dset_wf_entries _ _ _ _ He Hx E). reflexivity.
Qed.

(* ------------------------------------------------------------------ *)
(* B1. get/set along a path                                             *)

(* get_at is index_along *)
Lemma get_at_index_along : forall cp v, get_at v cp = index_along v cp.
Proof.
  induction cp as [ | k r IH ]; intros v; [ reflexivity | ].
  cbn [get_at index_along]. destruct v; try reflexivity.
  - unfold norm_index, list_index. destruct (int_of k) as [i | ]; [ | reflexivity ].
    cbv zeta.
    destruct (((if (i <? 0)%Z then (i + Z.of_nat (List.length l))%Z else i) <? 0)%Z
              || (Z.of_nat (List.length l) <=? (if (i <? 0)%Z then (i + Z.of_nat (List.length l))%Z else i))%Z);
      [ reflexivity | ].
    destruct (nth_error l _); [ apply IH | reflexivity ].
  - destruct (dict_look k d); [ apply IH | reflexivity ].
Qed.

Theorem walk_get_at : forall ps doc cp v, wf_val doc = true -> In (cp, v) (walk ps [] doc) -> get_at doc cp = Some v.
Proof. intros ps doc cp v Hwf Hin. rewrite get_at_index_along. eapply C04_truthful; eauto. Qed.

(* writing at an existing path succeeds and is read back (no well-formedness needed) *)
Theorem set_at_get_same : forall cp v old x, get_at v cp = Some old ->
  exists v', set_at v cp x = Some v' /\ get_at v' cp = Some x.
Proof.
  induction cp as [ | k r IH ]; intros v old x Hg.
  - exists x. split; reflexivity.
  - rewrite get_at_step in Hg.
    destruct (key_pos v k) as [i | ] eqn:Hk; [ | discriminate Hg ].
    destruct (child_at v i) as [c | ] eqn:Hc; [ | discriminate Hg ].
    destruct (IH c old x Hg) as [c' [Hs Hg']].
    destruct (set_child_exists v i c c' Hc) as [v' Hv'].
    exists v'. split.
    + rewrite set_at_step, Hk, Hc, Hs. exact Hv'.
    + rewrite get_at_step, (set_child_key_pos _ _ _ _ k Hv'), Hk, (set_child_same _ _ _ _ Hv'). exact Hg'.
Qed.

(* divergence of two concrete paths in a value: they reach a common container through the same
   positions and there denote two different positions (dict keys compared by ==, list indices
   after normalisation, exactly as get_at / set_at resolve them) *)
Fixpoint diverge (v : pyval) (cp cq : list pyval) : Prop :=
  match cp, cq with
  | k1 :: r1, k2 :: r2 =>
      match key_pos v k1, key_pos v k2 with
      | Some i, Some j =>
          if Nat.eqb i j
          then match child_at v i with Some c => diverge c r1 r2 | None => False end
          else True
      | _, _ => False
      end
  | _, _ => False
  end.

Lemma diverge_nil_r v cp : diverge v cp [] -> False.
Proof. destruct cp; exact (fun H => H). Qed.

Theorem set_at_get_other : forall cp v cq x v', set_at v cp x = Some v' -> diverge v cp cq ->
  get_at v' cq = get_at v cq.
Proof.
  induction cp as [ | k r IH ]; intros v cq x v' Hs Hd; [ contradiction Hd | ].
  destruct cq as [ | k2 r2 ]; [ contradiction Hd | ].
  cbn [diverge] in Hd. rewrite set_at_step in Hs.
  destruct (key_pos v k) as [i | ] eqn:Hi; [ | discriminate Hs ].
  destruct (key_pos v k2) as [j | ] eqn:Hj; [ | contradiction Hd ].
  destruct (child_at v i) as [c | ] eqn:Hc; [ | discriminate Hs ].
  destruct (set_at c r x) as [c' | ] eqn:Hsc; [ | discriminate Hs ].
  rewrite !get_at_step, (set_child_key_pos _ _ _ _ k2 Hs), Hj.
  destruct (Nat.eqb_spec i j) as [ <- | Hne ].
  - rewrite (set_child_same _ _ _ _ Hs), Hc. eapply IH; eauto.
  - rewrite (set_child_other _ _ _ _ j Hs) by congruence. reflexivity.
Qed.

Theorem set_at_wf : forall cp v x v', wf_val v = true -> wf_val x = true -> set_at v cp x = Some v' ->
  wf_val v' = true.
Proof.
  induction cp as [ | k r IH ]; intros v x v' Hwf Hx Hs.
  - inversion Hs; subst. exact Hx.
  - rewrite set_at_step in Hs.
    destruct (key_pos v k) as [i | ] eqn:Hi; [ | discriminate Hs ].
    destruct (child_at v i) as [c | ] eqn:Hc; [ | discriminate Hs ].
    destruct (set_at c r x) as [c' | ] eqn:Hsc; [ | discriminate Hs ].
    eapply set_child_wf; [ exact Hwf | | exact Hs ].
    eapply IH; [ | exact Hx | exact Hsc ].
    (* the child of a well-formed container is well-formed *)
    destruct v; cbn [child_at] in Hc; try discriminate Hc.
    + cbn [wf_val] in Hwf. rewrite forallb_forall in Hwf. apply Hwf. eapply nth_error_In; eauto.
    + destruct (nth_error d i) as [[k0 y] | ] eqn:E; [ | discriminate Hc ].
      inversion Hc; subst. destruct (wf_dict_split _ Hwf) as [He _].
      eapply wf_entries_in; [ exact He | eapply nth_error_In; eauto ].
Qed.

(* a write below the top level leaves the top-level key structure alone *)
Lemma set_at_key_pos v k r x v' k' : set_at v (k :: r) x = Some v' -> key_pos v' k' = key_pos v k'.
Proof.
  intros Hs. rewrite set_at_step in Hs.
  destruct (key_pos v k) as [i | ]; [ | discriminate Hs ].
  destruct (child_at v i) as [c | ]; [ | discriminate Hs ].
  destruct (set_at c r x) as [c' | ]; [ | discriminate Hs ].
  eapply set_child_key_pos; eauto.
Qed.

(* divergence survives a write at a path that is, for each of the two, either the path itself or
   a diverging one *)
Definition compat (v : pyval) (cr cp : list pyval) : Prop := cr = cp \/ diverge v cr cp.

Lemma compat_cons v k r k1 r1 i c : key_pos v k = Some i -> child_at v i = Some c ->
  compat v (k :: r) (k1 :: r1) -> exists i1, key_pos v k1 = Some i1 /\ (i = i1 -> compat c r r1).
Proof.
  intros Hk Hc [Heq | Hd].
  - inversion Heq; subst. exists i. split; [ exact Hk | intros _; left; reflexivity ].
  - cbn [diverge] in Hd. rewrite Hk in Hd.
    destruct (key_pos v k1) as [i1 | ]; [ | contradiction Hd ].
    exists i1. split; [ reflexivity | ]. intros <-. rewrite Nat.eqb_refl, Hc in Hd. right. exact Hd.
Qed.

Theorem diverge_set_at : forall cr v x v' cp cq, set_at v cr x = Some v' ->
  compat v cr cp -> compat v cr cq -> diverge v cp cq -> diverge v' cp cq.
Proof.
  induction cr as [ | k r IH ]; intros v x v' cp cq Hs Hcp Hcq Hd.
  - destruct Hcp as [ <- | Hcp ]; contradiction.
  - destruct cp as [ | k1 r1 ]; [ contradiction Hd | ].
    destruct cq as [ | k2 r2 ]; [ contradiction Hd | ].
    rewrite set_at_step in Hs.
    destruct (key_pos v k) as [i | ] eqn:Hi; [ | discriminate Hs ].
    destruct (child_at v i) as [c | ] eqn:Hc; [ | discriminate Hs ].
    destruct (set_at c r x) as [c' | ] eqn:Hsc; [ | discriminate Hs ].
    destruct (compat_cons _ _ _ _ _ _ _ Hi Hc Hcp) as [i1 [Hi1 Hc1]].
    destruct (compat_cons _ _ _ _ _ _ _ Hi Hc Hcq) as [i2 [Hi2 Hc2]].
    cbn [diverge] in Hd |- *.
    rewrite (set_child_key_pos _ _ _ _ k1 Hs), (set_child_key_pos _ _ _ _ k2 Hs).
    rewrite Hi1, Hi2 in *.
    destruct (Nat.eqb_spec i1 i2) as [ Heq | Hni ]; [ subst i2 | exact I ].
    destruct (Nat.eq_dec i i1) as [ Heq | Hne ]; [ subst i1 | ].
    + rewrite Hc in Hd. rewrite (set_child_same _ _ _ _ Hs).
      eapply IH; [ exact Hsc | apply Hc1; reflexivity | apply Hc2; reflexivity | exact Hd ].
    + rewrite (set_child_other _ _ _ _ i1 Hs) by congruence. exact Hd.
Qed.

(* ---- the paths reported by walks of equal length diverge pairwise ---- *)

Lemma list_items_pos : forall (l : list pyval) s k v,
  In (k, v) (combine (zidx s (List.length l)) l) ->
  exists i : nat, k = VInt (s + Z.of_nat i) /\ nth_error l i = Some v /\
                  nth_error (combine (zidx s (List.length l)) l) i = Some (k, v).
Proof.
  induction l as [ | x l IH ]; intros s k v Hin; cbn in Hin; [ contradiction | ].
  destruct Hin as [ Heq | Hin ].
  - inversion Heq; subst. exists O. split; [ f_equal; lia | split; reflexivity ].
  - destruct (IH _ _ _ Hin) as [i [Hk [Hn Hc]]]. exists (S i).
    split; [ rewrite Hk; f_equal; lia | split; [ exact Hn | exact Hc ] ].
Qed.

Lemma norm_index_nat (l : list pyval) (i : nat) : (i < List.length l)%nat ->
  norm_index l (VInt (Z.of_nat i)) = Some i.
Proof.
  intros Hlt. unfold norm_index. cbn [int_of].
  destruct (Z.of_nat i <? 0)%Z eqn:Hneg; [ apply Z.ltb_lt in Hneg; lia | ].
  rewrite Hneg. cbn [orb].
  destruct (Z.of_nat (List.length l) <=? Z.of_nat i)%Z eqn:Hge; [ apply Z.leb_le in Hge; lia | ].
  rewrite Nat2Z.id. reflexivity.
Qed.

Lemma dict_items_pos : forall (d : list (pyval * pyval)) k v,
  keys_distinct (map fst d) = true -> py_eq k k = true -> In (k, v) d ->
  exists i, dict_pos k d = Some i /\ nth_error d i = Some (k, v).
Proof.
  induction d as [ | [k2 v2] r IH ]; intros k v Hkd Hrefl Hin; [ contradiction | ].
  cbn [map fst keys_distinct] in Hkd.
  apply andb_true_iff in Hkd. destruct Hkd as [Hkd Hrest].
  apply andb_true_iff in Hkd. destruct Hkd as [_ Hno].
  cbn [dict_pos fst]. destruct Hin as [ Heq | Hin ].
  - inversion Heq; subst. rewrite Hrefl. exists O. split; reflexivity.
  - assert (Hne : py_eq k k2 = false).
    { destruct (py_eq k k2) eqn:E; [ | reflexivity ].
      apply negb_true_iff in Hno.
      assert (Hex : existsb (fun k' => py_eq k' k2) (map fst r) = true).
      { apply existsb_exists. exists k. split; [ | exact E ].
        apply in_map_iff. exists (k, v). split; [ reflexivity | exact Hin ]. }
      congruence. }
    rewrite Hne. destruct (IH k v Hrest Hrefl Hin) as [i [Hp Hn]].
    exists (S i). rewrite Hp. split; [ reflexivity | exact Hn ].
Qed.

(* an item of a well-formed node is found by its own key, at its own position *)
Lemma items_pos node k c : wf_val node = true -> In (k, c) (doc_items node) ->
  exists i, key_pos node k = Some i /\ child_at node i = Some c /\ nth_error (doc_items node) i = Some (k, c).
Proof.
  intros Hwf Hin. destruct node; cbn [doc_items] in Hin; try contradiction.
  - destruct (list_items_pos _ _ _ _ Hin) as [i [Hk [Hn Hc]]].
    change (0 + Z.of_nat i)%Z with (Z.of_nat i) in Hk. subst k.
    exists i. cbn [key_pos child_at doc_items]. split; [ | split; assumption ].
    apply norm_index_nat. apply nth_error_Some. congruence.
  - destruct (wf_dict_split _ Hwf) as [Hent Hkd].
    destruct (wf_entries_in _ _ _ Hent Hin) as [_ [Hh _]].
    destruct (dict_items_pos _ _ _ Hkd (py_eq_refl_hashable _ Hh) Hin) as [i [Hp Hn]].
    exists i. cbn [key_pos child_at doc_items]. rewrite Hn. split; [ exact Hp | split; reflexivity ].
Qed.

Lemma walk_cons_in p r doc cp v : In (cp, v) (walk (p :: r) [] doc) ->
  exists k c s, cp = k :: s /\ In (k, c) (children p doc) /\ In (s, v) (walk r [] c).
Proof.
  intros Hin. cbn [walk] in Hin. apply in_flat_map in Hin. destruct Hin as [[k c] [Hch Hin]].
  cbn [fst snd] in Hin. rewrite walk_prefix in Hin. apply in_map_iff in Hin.
  destruct Hin as [[s v'] [Heq Hin]]. unfold pref in Heq. cbn in Heq. inversion Heq; subst.
  exists k, c, s. split; [ reflexivity | split; assumption ].
Qed.

Theorem walk_diverge_gen : forall ps1 ps2 doc cp v cq w, wf_val doc = true ->
  List.length ps1 = List.length ps2 ->
  In (cp, v) (walk ps1 [] doc) -> In (cq, w) (walk ps2 [] doc) -> cp <> cq -> diverge doc cp cq.
Proof.
  induction ps1 as [ | p1 r1 IH ]; intros [ | p2 r2 ] doc cp v cq w Hwf Hlen H1 H2 Hne; cbn in Hlen; try discriminate Hlen.
  - cbn in H1, H2. destruct H1 as [ E1 | [] ]. destruct H2 as [ E2 | [] ].
    inversion E1; inversion E2; subst. contradiction Hne. reflexivity.
  - destruct (walk_cons_in _ _ _ _ _ H1) as [k1 [c1 [s1 [-> [Hch1 Hw1]]]]].
    destruct (walk_cons_in _ _ _ _ _ H2) as [k2 [c2 [s2 [-> [Hch2 Hw2]]]]].
    destruct (items_pos _ _ _ Hwf (children_sub _ _ _ Hch1)) as [i1 [Hk1 [Hc1 Hn1]]].
    destruct (items_pos _ _ _ Hwf (children_sub _ _ _ Hch2)) as [i2 [Hk2 [Hc2 Hn2]]].
    cbn [diverge]. rewrite Hk1, Hk2.
    destruct (Nat.eqb_spec i1 i2) as [ <- | Hni ]; [ | exact I ].
    rewrite Hn1 in Hn2. injection Hn2 as Ek Ec. subst k2 c2. rewrite Hc1.
    apply (IH r2 c1 s1 v s2 w); [ eapply children_wf; eauto | lia | exact Hw1 | exact Hw2 | ].
    intros ->. apply Hne. reflexivity.
Qed.

Corollary walk_diverge : forall ps doc cp v cq w, wf_val doc = true ->
  In (cp, v) (walk ps [] doc) -> In (cq, w) (walk ps [] doc) -> cp <> cq -> diverge doc cp cq.
Proof. intros ps doc cp v cq w Hwf. apply (walk_diverge_gen ps ps); [ exact Hwf | reflexivity ]. Qed.

(* ------------------------------------------------------------------ *)
(* B2. the casts of one rule                                            *)

Definition cast_step (casts : list (pytype * castfn)) (acc : pyval) (pv : list pyval * pyval) : pyval :=
  match spec_first_cast casts (snd pv) with
  | Some v' => match fst pv with
               | [] => acc
               | cp => match set_at acc cp v' with Some d => d | None => acc end
               end
  | None => acc
  end.

Lemma cast_doc_fold casts sel doc : cast_doc casts sel doc = fold_left (cast_step casts) sel doc.
Proof. reflexivity. Qed.

Lemma cast_step_cases casts acc pv :
  cast_step casts acc pv = acc \/
  exists v', spec_first_cast casts (snd pv) = Some v' /\ fst pv <> [] /\
             set_at acc (fst pv) v' = Some (cast_step casts acc pv).
Proof.
  unfold cast_step. destruct (spec_first_cast casts (snd pv)) as [v' | ]; [ | left; reflexivity ].
  destruct (fst pv) as [ | k r ]; [ left; reflexivity | ].
  destruct (set_at acc (k :: r) v') as [d | ] eqn:Es; [ | left; reflexivity ].
  right. exists v'. split; [ reflexivity | split; [ discriminate | exact Es ] ].
Qed.

Lemma cast_step_wf casts acc pv : wf_val acc = true -> wf_val (cast_step casts acc pv) = true.
Proof.
  intros Hwf. destruct (cast_step_cases casts acc pv) as [ -> | [v' [Hc [_ Hs]]] ]; [ exact Hwf | ].
  eapply set_at_wf; [ exact Hwf | eapply spec_first_cast_wf; eauto | exact Hs ].
Qed.

Theorem cast_doc_wf casts : forall sel doc, wf_val doc = true -> wf_val (cast_doc casts sel doc) = true.
Proof.
  induction sel as [ | pv sel IH ]; intros doc Hwf; [ exact Hwf | ].
  rewrite cast_doc_fold. cbn [fold_left]. rewrite <- cast_doc_fold. apply IH. apply cast_step_wf. exact Hwf.
Qed.

Lemma cast_step_div casts acc pv cp cq :
  (spec_first_cast casts (snd pv) <> None -> fst pv <> [] ->
     compat acc (fst pv) cp /\ compat acc (fst pv) cq) ->
  diverge acc cp cq -> diverge (cast_step casts acc pv) cp cq.
Proof.
  intros Hc Hd. destruct (cast_step_cases casts acc pv) as [ -> | [v' [Hf [Hne Hs]]] ]; [ exact Hd | ].
  destruct (Hc ltac:(congruence) Hne) as [H1 H2]. eapply diverge_set_at; eauto.
Qed.

Lemma cast_step_get casts acc pv cq :
  (spec_first_cast casts (snd pv) <> None -> fst pv <> [] -> diverge acc (fst pv) cq) ->
  get_at (cast_step casts acc pv) cq = get_at acc cq.
Proof.
  intros Hc. destruct (cast_step_cases casts acc pv) as [ -> | [v' [Hf [Hne Hs]]] ]; [ reflexivity | ].
  eapply set_at_get_other; [ exact Hs | ]. apply Hc; [ congruence | exact Hne ].
Qed.

Definition pairwise_div (acc : pyval) (paths : list (list pyval)) : Prop :=
  forall cp cq, In cp paths -> In cq paths -> cp <> cq -> diverge acc cp cq.

Lemma tail_pairwise casts acc cr w paths : NoDup (cr :: paths) -> pairwise_div acc (cr :: paths) ->
  pairwise_div (cast_step casts acc (cr, w)) paths.
Proof.
  intros Hnd Hpw cp cq Hp Hq Hne. inversion Hnd as [ | ? ? Hnotin _ ]; subst.
  apply cast_step_div; [ | apply Hpw; [ right; exact Hp | right; exact Hq | exact Hne ] ].
  cbn [fst snd]. intros _ _. split; right; apply Hpw;
    try (left; reflexivity); try (right; assumption); intros ->; contradiction.
Qed.

Lemma cast_fold_elsewhere casts : forall sel acc cq,
  NoDup (map fst sel) -> pairwise_div acc (map fst sel) ->
  (forall cp v, In (cp, v) sel -> cp <> [] -> spec_first_cast casts v <> None -> diverge acc cp cq) ->
  get_at (fold_left (cast_step casts) sel acc) cq = get_at acc cq.
Proof.
  induction sel as [ | [cr w] sel IH ]; intros acc cq Hnd Hpw Hcq; [ reflexivity | ].
  cbn [fold_left]. cbn [map fst] in Hnd, Hpw.
  inversion Hnd as [ | ? ? Hnotin Hnd' ]; subst.
  rewrite IH.
  - apply cast_step_get. cbn [fst snd]. intros Hc Hne. apply (Hcq cr w); [ left; reflexivity | exact Hne | exact Hc ].
  - exact Hnd'.
  - eapply tail_pairwise; eauto.
  - intros cp v Hin Hne Hc.
    assert (Hinp : In cp (map fst sel)) by (apply (in_map fst) in Hin; exact Hin).
    apply cast_step_div; [ | apply (Hcq cp v); [ right; exact Hin | exact Hne | exact Hc ] ].
    cbn [fst snd]. intros Hcw Hnew. split; right.
    + apply Hpw; [ left; reflexivity | right; exact Hinp | intros ->; contradiction ].
    + apply (Hcq cr w); [ left; reflexivity | exact Hnew | exact Hcw ].
Qed.

Lemma cast_fold_nodes casts : forall sel acc,
  NoDup (map fst sel) -> pairwise_div acc (map fst sel) ->
  (forall cp v, In (cp, v) sel -> get_at acc cp = Some v) ->
  forall cp v, In (cp, v) sel ->
    get_at (fold_left (cast_step casts) sel acc) cp =
    Some (match spec_first_cast casts v with
          | Some v' => match cp with [] => v | _ => v' end
          | None => v
          end).
Proof.
  induction sel as [ | [cr w] sel IH ]; intros acc Hnd Hpw Hget cp v Hin; [ contradiction | ].
  cbn [fold_left]. cbn [map fst] in Hnd, Hpw.
  inversion Hnd as [ | ? ? Hnotin Hnd' ]; subst.
  destruct Hin as [ Heq | Hin ].
  - inversion Heq; subst. clear Heq.
    rewrite cast_fold_elsewhere.
    + unfold cast_step. cbn [fst snd].
      destruct (spec_first_cast casts v) as [v' | ]; [ | apply Hget; left; reflexivity ].
      destruct cp as [ | k r ]; [ apply Hget; left; reflexivity | ].
      destruct (set_at_get_same (k :: r) acc v v' (Hget _ _ (or_introl eq_refl))) as [acc' [Hs Hg]].
      rewrite Hs. exact Hg.
    + exact Hnd'.
    + eapply tail_pairwise; eauto.
    + intros cp' v' Hin' Hne' Hc'.
      assert (Hinp : In cp' (map fst sel)) by (apply (in_map fst) in Hin'; exact Hin').
      assert (Hneq : cp' <> cp) by (intros ->; contradiction).
      apply cast_step_div; [ | apply Hpw; [ right; exact Hinp | left; reflexivity | exact Hneq ] ].
      cbn [fst snd]. intros _ _. split; [ right | left; reflexivity ].
      apply Hpw; [ left; reflexivity | right; exact Hinp | congruence ].
  - apply IH; [ exact Hnd' | eapply tail_pairwise; eauto | | exact Hin ].
    intros cp' v' Hin'.
    assert (Hinp : In cp' (map fst sel)) by (apply (in_map fst) in Hin'; exact Hin').
    rewrite cast_step_get; [ apply Hget; right; exact Hin' | ].
    cbn [fst snd]. intros _ _. apply Hpw; [ left; reflexivity | right; exact Hinp | intros ->; contradiction ].
Qed.

(* the selection of a walk on a well-formed document satisfies the fold invariant *)
Lemma walk_pairwise ps doc : wf_val doc = true -> pairwise_div doc (map fst (walk ps [] doc)).
Proof.
  intros Hwf cp cq Hp Hq Hne.
  apply in_map_iff in Hp. destruct Hp as [[cp' v] [E1 Hp]]. cbn in E1. subst cp'.
  apply in_map_iff in Hq. destruct Hq as [[cq' w] [E2 Hq]]. cbn in E2. subst cq'.
  eapply walk_diverge; eauto.
Qed.

(* a castable selected node is replaced by its cast value *)
Theorem C15_cast_nodes : forall casts ps doc cp v v', wf_val doc = true ->
  In (cp, v) (walk ps [] doc) -> cp <> [] -> spec_first_cast casts v = Some v' ->
  get_at (cast_doc casts (walk ps [] doc) doc) cp = Some v'.
Proof.
  intros casts ps doc cp v v' Hwf Hin Hne Hc. rewrite cast_doc_fold.
  rewrite (cast_fold_nodes casts _ doc (C04_distinct ps doc Hwf) (walk_pairwise ps doc Hwf)
             (fun cp v H => walk_get_at ps doc cp v Hwf H) cp v Hin).
  rewrite Hc. destruct cp; [ contradiction Hne; reflexivity | reflexivity ].
Qed.

(* a selected node no cast applies to is kept *)
Theorem C15_uncastable_kept : forall casts ps doc cp v, wf_val doc = true ->
  In (cp, v) (walk ps [] doc) -> spec_first_cast casts v = None ->
  get_at (cast_doc casts (walk ps [] doc) doc) cp = Some v.
Proof.
  intros casts ps doc cp v Hwf Hin Hc. rewrite cast_doc_fold.
  rewrite (cast_fold_nodes casts _ doc (C04_distinct ps doc Hwf) (walk_pairwise ps doc Hwf)
             (fun cp v H => walk_get_at ps doc cp v Hwf H) cp v Hin).
  rewrite Hc. reflexivity.
Qed.

(* the empty path selects the whole document, which is never written *)
Theorem C15_root_kept : forall casts doc, cast_doc casts (walk [] [] doc) doc = doc.
Proof.
  intros casts doc. cbn [walk cast_doc fold_left fst snd].
  destruct (spec_first_cast casts doc); reflexivity.
Qed.

(* every position that diverges from all cast nodes reads exactly as in the input.  (A container
   that CONTAINS a cast node does change as a value, and a cast node itself changes; positions at
   or above a cast node are therefore excluded: `diverge` holds for neither.  Positions below a
   cast node do not exist: a castable node is a string.) *)
Theorem C15_elsewhere : forall casts ps doc, wf_val doc = true -> forall cq,
  (forall cp v, In (cp, v) (walk ps [] doc) -> cp <> [] -> spec_first_cast casts v <> None ->
                diverge doc cp cq) ->
  get_at (cast_doc casts (walk ps [] doc) doc) cq = get_at doc cq.
Proof.
  intros casts ps doc Hwf cq Hcq. rewrite cast_doc_fold.
  apply cast_fold_elsewhere; [ apply C04_distinct; exact Hwf | apply walk_pairwise; exact Hwf | exact Hcq ].
Qed.

(* in particular: any node reported by a walk of the same length that the rule does not select *)
Corollary C15_other_nodes : forall casts ps ps2 doc cq w, wf_val doc = true ->
  List.length ps2 = List.length ps -> In (cq, w) (walk ps2 [] doc) ->
  ~ In cq (map fst (walk ps [] doc)) ->
  get_at (cast_doc casts (walk ps [] doc) doc) cq = Some w.
Proof.
  intros casts ps ps2 doc cq w Hwf Hlen Hin Hnot.
  rewrite C15_elsewhere; [ eapply walk_get_at; eauto | exact Hwf | ].
  intros cp v Hp _ _. eapply (walk_diverge_gen ps ps2); eauto.
  intros ->. apply Hnot. apply (in_map fst) in Hp. exact Hp.
Qed.

(* ---- the shared copy of a schema is the left fold of the rules' casts ---- *)

Lemma cast_doc_nil sel copy : cast_doc [] sel copy = copy.
Proof.
  rewrite cast_doc_fold. revert copy. induction sel as [ | pv sel IH ]; intros copy; [ reflexivity | ].
  cbn [fold_left]. unfold cast_step at 2. cbn [spec_first_cast]. apply IH.
Qed.

Lemma spec_rule_in_schema_copy sp r doc copy :
  snd (spec_rule_in_schema sp r doc copy) = cast_doc (sr_cast r) (walk (sp_parts sp) [] doc) copy.
Proof.
  unfold spec_rule_in_schema. destruct (sr_cast r) as [ | c cs ]; cbn [snd].
  - symmetry. apply cast_doc_nil.
  - reflexivity.
Qed.

Theorem C15_schema_fold : forall prs doc copy,
  snd (spec_run_rules prs doc copy) =
  fold_left (fun acc pr => cast_doc (sr_cast (snd pr)) (walk (sp_parts (fst pr)) [] doc) acc) prs copy.
Proof.
  induction prs as [ | [sp r] prs IH ]; intros doc copy; [ reflexivity | ].
  cbn [spec_run_rules fold_left fst snd].
  rewrite <- spec_rule_in_schema_copy.
  destruct (spec_rule_in_schema sp r doc copy) as [v copy']. cbn [snd].
  rewrite <- IH. destruct (spec_run_rules prs doc copy') as [vs copy'']. reflexivity.
Qed.

Corollary C15_schema_copy_wf : forall prs doc copy, wf_val copy = true ->
  wf_val (snd (spec_run_rules prs doc copy)) = true.
Proof.
  intros prs doc copy Hwf. rewrite C15_schema_fold. revert copy Hwf.
  induction prs as [ | pr prs IH ]; intros copy Hwf; [ exact Hwf | ].
  cbn [fold_left]. apply IH. apply cast_doc_wf. exact Hwf.
Qed.

(* ---- examples ---- *)

Definition ex15_doc : pyval :=
  VDict [(VStr "a", VList [VStr "3"; VStr "abc"; VInt 5]); (VInt 1, VStr "TRUE")].
Definition ex15_parts : list spart := [SPMap (QLeaf SKey (Q_equal_to (VStr "a"))); SPList QNull].

Example ex15_walk : walk ex15_parts [] ex15_doc =
  [([VStr "a"; VInt 0], VStr "3"); ([VStr "a"; VInt 1], VStr "abc"); ([VStr "a"; VInt 2], VInt 5)].
Proof. vm_compute. reflexivity. Qed.

Example ex15_cast_int :
  cast_doc [(TStr, CastStrInt)] (walk ex15_parts [] ex15_doc) ex15_doc
  = VDict [(VStr "a", VList [VInt 3; VStr "abc"; VInt 5]); (VInt 1, VStr "TRUE")].
Proof. vm_compute. reflexivity. Qed.

Example ex15_cast_bool :
  cast_doc [(TStr, CastStrBool)] (walk [SPMap QNull] [] ex15_doc) ex15_doc
  = VDict [(VStr "a", VList [VStr "3"; VStr "abc"; VInt 5]); (VInt 1, VBool true)].
Proof. vm_compute. reflexivity. Qed.

(* keys are resolved the way Python resolves them: True finds the entry stored under 1, -1 the last
   element; the syntactically different paths [a; -3] and [a; 0] do NOT diverge *)
Example ex15_keys :
  get_at ex15_doc [VBool true] = Some (VStr "TRUE") /\
  get_at ex15_doc [VStr "a"; VInt (-1)] = Some (VInt 5) /\
  set_at ex15_doc [VStr "a"; VInt (-3)] (VInt 3)
    = Some (VDict [(VStr "a", VList [VInt 3; VStr "abc"; VInt 5]); (VInt 1, VStr "TRUE")]) /\
  diverge ex15_doc [VStr "a"; VInt 0] [VStr "a"; VInt 1] /\
  diverge ex15_doc [VStr "a"; VInt 0] [VInt 1] /\
  ~ diverge ex15_doc [VStr "a"; VInt (-3)] [VStr "a"; VInt 0] /\
  ~ diverge ex15_doc [VStr "a"] [VStr "a"; VInt 0].
Proof. vm_compute. repeat split; try reflexivity; intros H; exact H. Qed.

(* two rules in one schema: the copy accumulates both casts, shortest path first *)
Example ex15_schema :
  let mk := fun ps => {| sp_parts := ps; sp_concrete := false; sp_dt := SdNone; sp_mt := SmNone; sp_src := None |} in
  let rl := fun casts => {| sr_path := {| st_parts := []; st_mods := []; st_src := None |};
                            sr_cond := QNull; sr_cast := casts |} in
  snd (spec_run_rules (ssort_rules [(mk ex15_parts, rl [(TStr, CastStrInt)]);
                                    (mk [SPMap QNull], rl [(TStr, CastStrBool)])]) ex15_doc ex15_doc)
  = VDict [(VStr "a", VList [VInt 3; VStr "abc"; VInt 5]); (VInt 1, VBool true)].
Proof. vm_compute. reflexivity. Qed.

(* well-formedness is needed: with two == keys the second cast is written over the first *)
Example ex15_illformed :
  let bad := VDict [(VInt 1, VStr "5"); (VBool true, VStr "7")] in
  wf_val bad = false /\
  walk [SPMap QNull] [] bad = [([VInt 1], VStr "5"); ([VBool true], VStr "7")] /\
  cast_doc [(TStr, CastStrInt)] (walk [SPMap QNull] [] bad) bad
    = VDict [(VInt 1, VInt 7); (VBool true, VStr "7")].
Proof. vm_compute. repeat split; reflexivity. Qed.

Print Assumptions C06_sorted_stable.
Print Assumptions spec_run_rules_castfree.
Print Assumptions C06_order_independent.
Print Assumptions C06_conjunction_gen.
Print Assumptions C06_conjunction.
Print Assumptions C06_order_independent_validate.
Print Assumptions spec_verdict_sane.
Print Assumptions spec_verdict_components.
Print Assumptions C06_aggregates_unsorted.
Print Assumptions apply_cast_str.
Print Assumptions spec_first_cast_str.
Print Assumptions walk_get_at.
Print Assumptions set_at_get_same.
Print Assumptions set_at_get_other.
Print Assumptions set_at_wf.
Print Assumptions diverge_set_at.
Print Assumptions walk_diverge_gen.
Print Assumptions walk_diverge.
Print Assumptions cast_doc_wf.
Print Assumptions C15_cast_nodes.
Print Assumptions C15_uncastable_kept.
Print Assumptions C15_root_kept.
Print Assumptions C15_elsewhere.
Print Assumptions C15_other_nodes.
Print Assumptions C15_schema_fold.
Print Assumptions C15_schema_copy_wf.
