(* C01: the model of a DSL-built leaf filter equals the specification on every document. *)
From Coq Require Import ZArith NArith List Bool String Lia.
From Valida Require Import Py Lang Defs Cond Dsl Check DocSem Inst.
From Valida.Proofs Require Import PyFacts Tie.
Import ListNotations.
Local Open Scope string_scope.
Local Open Scope list_scope.

(* facts about the generated `except` clauses *)
Lemma caught_pre_ok : catches (t_caught_pre T) TypeError = true.
Proof. reflexivity. Qed.
Lemma caught_call_ok e : sem_err e -> catches (t_caught_call T) e = true.
Proof. intros [->|[->|[->|[->| ->]]]]; reflexivity. Qed.

Lemma expected_pre c q : l_pre (expected_leaf c q) = scls_pre c.
Proof. unfold expected_leaf. destruct (q_stored q) as [[f a] k]. reflexivity. Qed.
Lemma expected_kind c q : l_kind (expected_leaf c q) = scls_kind c.
Proof. unfold expected_leaf. destruct (q_stored q) as [[f a] k]. reflexivity. Qed.

Lemma expected_call c q v : call_leaf T res0 (expected_leaf c q) v = call_q q v.
Proof.
  unfold call_leaf, call_q, expected_leaf. destruct (q_stored q) as [[f a] k]. cbn [l_args l_kwargs l_call].
  rewrite mapM_res0, resolve_kw_res0. reflexivity.
Qed.

Lemma pre_apply_spec p v : pre_apply p v = spec_pre p v.
Proof. destruct p; reflexivity. Qed.

Lemma spec_pre_err p v e : spec_pre p v = Err e -> e = TypeError.
Proof. destruct p; cbn; try congruence. apply py_len_err. Qed.

(* one item: never aborts, and the result flag is the documented meaning *)
Lemma eval_item_sat c q datum :
  q_wf q = true ->
  exists fl, eval_item T res0 (expected_leaf c q) datum = Ok fl /\ flags_result fl = sat_datum c q datum.
Proof.
  intros Hwf. unfold eval_item, sat_datum.
  rewrite expected_pre, pre_apply_spec.
  destruct (spec_pre (scls_pre c) datum) as [v|e] eqn:Epre.
  - rewrite expected_call, tie_call by exact Hwf.
    destruct (q_sem q v) as [b|e] eqn:Eq; cbn [okb].
    + eexists; split; [reflexivity|]. destruct b; reflexivity.
    + rewrite (caught_call_ok e) by (eapply q_sem_err; eauto).
      eexists; split; reflexivity.
  - apply spec_pre_err in Epre as ->. rewrite caught_pre_ok. eexists; split; reflexivity.
Qed.

Lemma mapM_spec {X Y Z} (f : X -> res Y) (g : Y -> Z) (h : X -> Z) l :
  (forall x, exists y, f x = Ok y /\ g y = h x) ->
  exists ys, mapM f l = Ok ys /\ map g ys = map h l.
Proof.
  intros H. induction l as [|x l [ys [E1 E2]]]; cbn.
  - exists []. split; reflexivity.
  - destruct (H x) as [y [Ey Hy]]. rewrite Ey. cbn [bind]. rewrite E1. cbn [bind]. exists (y :: ys).
    split; [reflexivity|]. cbn [map]. rewrite Hy, E2. reflexivity.
Qed.

Lemma select_sel {X} (l : list X) r : select l r = sel l r.
Proof. revert r. induction l as [|x l IH]; intros [|b r]; cbn; try reflexivity; try (rewrite !IH; reflexivity). Qed.
Lemma false_indices_fail_idx i r : false_indices i r = fail_idx i r.
Proof. revert i. induction r as [|b r IH]; intros i; cbn; try reflexivity; try (rewrite !IH; reflexivity). Qed.
Lemma zrange_zidx i n : zrange_from i n = zidx i n.
Proof. revert i. induction n as [|n IH]; intros i; cbn; try reflexivity; try (rewrite !IH; reflexivity). Qed.
Lemma zidx_length i n : List.length (zidx i n) = n.
Proof. revert i. induction n as [|n IH]; intros i; cbn; [reflexivity|]. rewrite IH. reflexivity. Qed.
Lemma map_fst_combine {X Y} (a : list X) (b : list Y) : List.length a = List.length b -> map fst (combine a b) = a.
Proof. revert b. induction a as [|x a IH]; intros [|y b]; cbn; intros H; try reflexivity; try discriminate. rewrite IH by lia. reflexivity. Qed.
Lemma map_snd_combine {X Y} (a : list X) (b : list Y) : List.length a = List.length b -> map snd (combine a b) = b.
Proof. revert b. induction a as [|x a IH]; intros [|y b]; cbn; intros H; try reflexivity; try discriminate. rewrite IH by lia. reflexivity. Qed.

(* Data(doc) exposes the keys and values of the document's items *)
Lemma mk_data_items doc :
  (exists x r, doc = VList (x :: r)) \/ (exists kv r, doc = VDict (kv :: r)) ->
  exists d, mk_data doc = Ok d /\ d_keys d = map fst (doc_items doc) /\ d_vals d = map snd (doc_items doc).
Proof.
  intros [[x [r ->]]|[kv [r ->]]]; eexists; (split; [reflexivity|]); cbn [d_keys d_vals doc_items].
  - rewrite zrange_zidx. rewrite map_fst_combine, map_snd_combine by (rewrite zidx_length; reflexivity). split; reflexivity.
  - split; reflexivity.
Qed.

Lemma datums_items c d doc :
  d_keys d = map fst (doc_items doc) -> d_vals d = map snd (doc_items doc) ->
  datums (scls_kind c) d = map (fun it => match scls_kind c with DValue => snd it | _ => fst it end) (doc_items doc).
Proof. intros Hk Hv. unfold datums. destruct (scls_kind c); rewrite ?Hk, ?Hv; reflexivity. Qed.

Lemma doc_ok_shape c doc : doc_ok c doc = true ->
  (exists x r, doc = VList (x :: r)) \/ (exists kv r, doc = VDict (kv :: r)).
Proof.
  unfold doc_ok. destruct doc; try discriminate.
  - destruct l; [discriminate|]. left; eauto.
  - destruct d; [discriminate|]. right; eauto.
Qed.

Lemma entry_check_ok c q doc : doc_ok c doc = true -> entry_check (CLeaf (expected_leaf c q)) doc = Ok tt.
Proof.
  unfold entry_check. rewrite expected_kind. unfold doc_ok.
  destruct doc; try discriminate; destruct (scls_kind c); try reflexivity;
    match goal with |- (match ?l with _ => _ end) = _ -> _ => destruct l end; discriminate.
Qed.

Lemma refused c q doc : doc_ok c doc = false ->
  run_filter_cond (CLeaf (expected_leaf c q)) doc = Err TypeError.
Proof.
  unfold run_filter_cond, entry_check. rewrite expected_kind. unfold doc_ok.
  destruct doc; destruct (scls_kind c); cbn; try reflexivity;
    try (destruct l; [reflexivity|discriminate]); try (destruct d; [reflexivity|discriminate]).
Qed.

(* the part of filtering that follows construction, for the leaf a DSL call builds *)
Lemma leaf_cond_meets_spec c q doc :
  q_wf q = true ->
  run_filter_cond (CLeaf (expected_leaf c q)) doc = spec_filter_leaf c q doc.
Proof.
  intros Hwf.
  unfold spec_filter_leaf. destruct (doc_ok c doc) eqn:Hok.
  2:{ apply refused; exact Hok. }
  unfold run_filter_cond.
  rewrite entry_check_ok by exact Hok. cbn [bind].
  destruct (mk_data_items doc (doc_ok_shape c doc Hok)) as [d [Ed [Hk Hv]]].
  rewrite Ed. cbn [bind filter_tree]. unfold filter_leaf.
  rewrite expected_kind, (datums_items c d doc Hk Hv).
  destruct (mapM_spec (eval_item T res0 (expected_leaf c q)) flags_result
              (sat_datum c q)
              (map (fun it => match scls_kind c with DValue => snd it | _ => fst it end) (doc_items doc))
              (fun x => eval_item_sat c q x Hwf)) as [fls [Em Hr]].
  rewrite Em. cbn [bind]. unfold obs_filter, spec_obs. cbn [fr_result].
  rewrite map_map in Hr. rewrite Hr. unfold sat_item.
  rewrite false_indices_fail_idx, Hk, Hv. reflexivity.
Qed.

(* The model of `Cls.method(args).filter(doc)` equals the specification on every document:
   one boolean per item, in order, equal to the documented meaning (undefined => False); the
   selected values / keys and the failure indices are the induced partition; refused
   documents (wrong container kind, scalars, empty containers) are refused with TypeError. *)
Theorem C01_model_meets_spec c q doc :
  class_ok c q = true -> q_wf q = true ->
  run_filter (q_term c q) doc = spec_filter_leaf c q doc.
Proof.
  intros Hc Hwf. unfold run_filter, q_term.
  pose proof (tie_build c q Hc) as Hb. unfold built in Hb.
  destruct (q_call q) as [[m pos] kw]. cbn [build]. rewrite Hb. cbn [bind].
  apply leaf_cond_meets_spec; exact Hwf.
Qed.

(* keyword spelling of the same call builds the same leaf *)
Theorem C01_keyword_spelling c q m pos kw doc :
  class_ok c q = true -> q_wf q = true -> q_call_kw q = Some (m, pos, kw) ->
  run_filter (DLeaf (scls_name c) m pos kw) doc = spec_filter_leaf c q doc.
Proof.
  intros Hc Hwf Hkw.
  rewrite <- (C01_model_meets_spec c q doc Hc Hwf).
  unfold run_filter, q_term. pose proof (tie_build c q Hc) as Hb. unfold built in Hb.
  pose proof (tie_build_kw c q (build_leaf T idlit (scls_name c) m pos kw) Hc) as Hk.
  unfold built_kw in Hk. rewrite Hkw in Hk. specialize (Hk eq_refl).
  destruct (q_call q) as [[m' pos'] kw']. cbn [build]. rewrite Hb, Hk. reflexivity.
Qed.
