(* C12: serialising a data path to part specs (DataPath.to_part_specs / to_spec) and parsing the
   specs back (DataPath.from_part_specs / from_spec).
   Model of the serialiser: SpecIO.v (simple_of, part_to_spec, path_to_part_specs, path_to_spec);
   of the parser: Spec.v (part_from_spec, parts_from_specs, from_part_specs, path_from_spec);
   of `==`: Eq.v (path_eqb); of selection: Path.v (walk_parts, get_data).
   Facts about the generated tables T / X are closed by computation.

   Main results (the model follows the repaired library: simplify() abbreviates a map-or-list part only
   to an int / bool; to_part_specs refuses datum type / multiplicity / source data; to_spec refuses
   source data):
   - C12_core_modular / C12_faithful_modular (section 5): for ANY path object, if the conditions of its
     parts survive the condition round trip (cond_rt) and the simplify() shortcut is faithful on its parts
     (simple_faithful), what to_part_specs returns is read back as the SAME path.
   - mpart_faithful (section 4): the shortcut is faithful on EVERY API-built part (the former guard
     simple_guard is now a theorem: simple_guard_always; guard_faithful is kept as a corollary).
   - C12_roundtrip, C12_roundtrip_selects (section 6): the round trip on the fragment path_in_c12 (typed
     API terms whose condition trees are in the fragment of C11); C12_refuses_or_faithful: for every
     API-built path whose conditions round-trip, to_part_specs raises or is read back as the original.
   - C12_refusal / C12_accepts (sections 8, 9): on the fragment to_part_specs refuses exactly the paths with
     a datum type, a multiplicity or source data.
   - C12_spec_form_modular / C12_spec_form (section 9): to_spec / from_spec round trip with modifiers.
   - section 8: the former counterexamples (defects, repaired) evaluated on the repaired model.
   Conditions inside parts are parsed by the stratum-0 parser (cond0_from_spec); section 1 shows it
   agrees with the rule-condition parser of C09 / C11 on specs that cannot be taken for path specs. *)
From Coq Require Import ZArith NArith List Bool String Ascii Lia.
From Valida Require Import Py Lang Defs Cond Dsl Check DocSem Path PathSpec Cast Str SpecDefs RuleDefs RuleTerms
  Spec SpecIO SpecSpell Eq Inst Run RunSpec.
From Valida.Proofs Require Import PyFacts Tie C01Proof C02Proof C03Proof C04Proof RuleProof C09Proof C11Proof C14Proof C19Proof.
From Valida.Proofs Require C10Proof.       (* suffix lemmas of path_from_spec, used qualified in section 9 *)
From Valida Require Import Rule SpecSpell.
Import ListNotations.
Local Open Scope string_scope.
Local Open Scope list_scope.
Notation id0 := Spec.id0 (only parsing).    (* Rule.id0 is the same function *)

(* ================================================================== *)
(* 1. conditions inside parts (stratum 0) against rule conditions (stratum 1, C09 / C11):        *)
(*    on specs in which nothing can be taken for a path spec both parsers do the same            *)

(* DataPath.from_spec(v) does not depend on the condition parser: v is not a mapping, is escaped,
   has several keys, or its single key does not read `path[.m[.m]]` *)
Definition pf_static (v : pyval) : bool :=
  match v with
  | VDict ((k0, v0) :: rest) =>
      match unescape_keys ((k0, v0) :: rest) [] [] false with
      | Ok (_, true) => true
      | Ok (_, false) =>
          match rest with
          | _ :: _ => true
          | [] => match k0 with
                  | VStr key => negb (String.eqb (hd "" (lower_tokens key)) "path")
                                || negb ((1 <=? List.length (lower_tokens key))%nat && (List.length (lower_tokens key) <=? 3)%nat)
                  | _ => true
                  end
          end
      | Err _ => true
      end
  | _ => true
  end.

Definition pf_res (v : pyval) : res (pathterm pyval + pyval) :=
  match v with
  | VDict ((k0, v0) :: rest) =>
      match unescape_keys ((k0, v0) :: rest) [] [] false with
      | Ok (d', true) => Ok (inr (VDict (fold_left (fun acc kv => dict_put (fst kv) (snd kv) acc) d' [])))
      | Ok (_, false) => Err MalformedPath
      | Err e => Err e
      end
  | _ => Err MalformedPath
  end.

Lemma pf_static_spec v c : pf_static v = true -> path_from_spec0 T X c v = pf_res v.
Proof.
  destruct v as [ | b | z | n m e | s | l | l | d | t | t ];
    [reflexivity|reflexivity|reflexivity|reflexivity|reflexivity|reflexivity|reflexivity| |reflexivity|reflexivity].
  destruct d as [|[k0 v0] rest]; [reflexivity|].
  unfold pf_static, pf_res, path_from_spec0.
  destruct (unescape_keys ((k0, v0) :: rest) [] [] false) as [[d' [|]]|e]; cbn [bind]; try reflexivity.
  intros H. destruct rest; [|reflexivity].
  destruct k0 as [ | b | z | n m e | s | l | l | d | t | t ];
    [reflexivity|reflexivity|reflexivity|reflexivity| |reflexivity|reflexivity|reflexivity|reflexivity|reflexivity].
  cbv zeta. rewrite H. reflexivity.
Qed.

Definition is_inr {A B} (x : A + B) : bool := match x with inr _ => true | inl _ => false end.

Lemma pf_res_inr v x : pf_res v = Ok x -> is_inr x = true.
Proof.
  unfold pf_res. destruct v; try discriminate. destruct d as [|[k0 v0] rest]; [discriminate|].
  destruct (unescape_keys ((k0, v0) :: rest) [] [] false) as [[d' [|]]|e]; try discriminate.
  intros [= <-]. reflexivity.
Qed.

(* arguments: the value itself, the items of a list, the values of a mapping are looked at *)
Definition val_inert (v : pyval) : bool :=
  match v with
  | VDict d => pf_static v && forallb pf_static (map snd d)
  | VList l | VTuple l => forallb pf_static l
  | _ => true
  end.

(* a condition spec all of whose leaf arguments are inert *)
Fixpoint spec_inert (v : pyval) : bool :=
  match v with
  | VDict [(VStr key, sv)] =>
      match assoc_str key (sx_binops X) with
      | Some _ => match sv with VList items | VTuple items => forallb spec_inert items | _ => true end
      | None => val_inert sv
      end
  | _ => true
  end.

Section Sim.
  Variables cA cB : pyval -> res (dslc pyval * cond pyval).
  Notation pfA := (path_from_spec0 T X cA).
  Notation pfB := (path_from_spec0 T X cB).

  Lemma try_path_sim v : pf_static v = true -> try_path pfA v = try_path pfB v.
  Proof. intros H. unfold try_path. rewrite !pf_static_spec by exact H. reflexivity. Qed.

  Lemma try_path_inr v x : pf_static v = true -> try_path pfB v = Ok x -> is_inr x = true.
  Proof.
    intros H. unfold try_path. rewrite pf_static_spec by exact H.
    destruct (pf_res v) as [y|e] eqn:E.
    - pose proof (pf_res_inr v y E) as Hy. destruct y; [discriminate Hy|]. intros [= <-]. reflexivity.
    - destruct e; try discriminate. intros [= <-]. reflexivity.
  Qed.

  Lemma coerce_items_sim l : forallb pf_static l = true -> coerce_items pfA l = coerce_items pfB l.
  Proof.
    induction l as [|v l IH]; cbn [forallb coerce_items]; [reflexivity|].
    intros H. apply andb_true_iff in H as [Hv Hl]. rewrite (try_path_sim v Hv), (IH Hl). reflexivity.
  Qed.

  Lemma coerce_items_inr l : forall xs, forallb pf_static l = true -> coerce_items pfB l = Ok xs -> forallb is_inr xs = true.
  Proof.
    induction l as [|v l IH]; cbn [forallb coerce_items]; intros xs H.
    - intros [= <-]. reflexivity.
    - apply andb_true_iff in H as [Hv Hl].
      destruct (try_path pfB v) as [x|e] eqn:Ex; cbn [bind]; [|discriminate].
      destruct (coerce_items pfB l) as [xs'|e] eqn:El; cbn [bind]; [|discriminate].
      intros [= <-]. cbn [forallb]. rewrite (try_path_inr v x Hv Ex), (IH xs' Hl eq_refl). reflexivity.
  Qed.

  Lemma coerce_tuple_sim l : forallb pf_static l = true -> coerce_tuple pfA l = coerce_tuple pfB l.
  Proof.
    induction l as [|v l IH]; cbn [forallb coerce_tuple]; [reflexivity|].
    intros H. apply andb_true_iff in H as [Hv Hl]. rewrite !pf_static_spec by exact Hv. rewrite (IH Hl). reflexivity.
  Qed.

  Lemma forallb_inr_map_items (l : list pyval) : forallb (@is_inr (pathterm pyval) pyval) (map inr l) = true.
  Proof. induction l as [|v l IH]; [reflexivity|]. cbn [map forallb is_inr]. exact IH. Qed.

  Lemma coerce_kvs_sim d : forallb pf_static (map snd d) = true -> coerce_kvs pfA d = coerce_kvs pfB d.
  Proof.
    induction d as [|[k v] d IH]; cbn [map snd forallb coerce_kvs]; [reflexivity|].
    intros H. apply andb_true_iff in H as [Hv Hl]. rewrite (try_path_sim v Hv), (IH Hl). reflexivity.
  Qed.

  Lemma coerce_kvs_inr d : forall xs, forallb pf_static (map snd d) = true -> coerce_kvs pfB d = Ok xs ->
    forallb (fun kv => is_inr (snd kv)) xs = true.
  Proof.
    induction d as [|[k v] d IH]; cbn [map snd forallb coerce_kvs]; intros xs H.
    - intros [= <-]. reflexivity.
    - apply andb_true_iff in H as [Hv Hl].
      destruct (try_path pfB v) as [x|e] eqn:Ex; cbn [bind]; [|discriminate].
      destruct (coerce_kvs pfB d) as [xs'|e] eqn:El; cbn [bind]; [|discriminate].
      intros [= <-]. cbn [forallb snd]. rewrite (try_path_inr v x Hv Ex), (IH xs' Hl eq_refl). reflexivity.
  Qed.

  Definition cv_lit (cv : coerced) : bool :=
    match cv with
    | CPath _ => false
    | CVal _ => true
    | CDict items => forallb (fun kv => is_inr (snd kv)) items
    | CSeq _ items => forallb is_inr items
    end.

  Lemma coerce_sim v : val_inert v = true -> coerce pfA v = coerce pfB v.
  Proof.
    destruct v as [ | b | z | n m e | s | l | l | d | t | t ]; cbn [val_inert]; intros H;
      [cbn [coerce]; reflexivity|cbn [coerce]; reflexivity|cbn [coerce]; reflexivity|cbn [coerce]; reflexivity
      |cbn [coerce]; reflexivity| | | |cbn [coerce]; reflexivity|cbn [coerce]; reflexivity].
    - cbn [coerce]. rewrite (coerce_items_sim l H). reflexivity.
    - cbn [coerce]. rewrite (coerce_tuple_sim l H). reflexivity.
    - apply andb_true_iff in H as [Hs Hd]. unfold coerce.
      rewrite !pf_static_spec by exact Hs. rewrite (coerce_kvs_sim d Hd). reflexivity.
  Qed.

  Lemma forallb_inr_map (d : list (pyval * pyval)) :
    forallb (fun kv : pyval * (pathterm pyval + pyval) => is_inr (snd kv)) (map (fun kv => (fst kv, inr (snd kv))) d) = true.
  Proof. induction d as [|kv d IH]; [reflexivity|]. cbn [map forallb snd is_inr]. exact IH. Qed.

  Lemma coerce_lit v cv : val_inert v = true -> coerce pfB v = Ok cv -> cv_lit cv = true.
  Proof.
    assert (Hval : forall w, cv_lit (CVal w) = true) by reflexivity.
    destruct v as [ | b | z | n m e | s | l | l | d | t | t ]; cbn [val_inert]; intros H;
      [cbn [coerce]; intros [= <-]; apply Hval|cbn [coerce]; intros [= <-]; apply Hval|cbn [coerce]; intros [= <-]; apply Hval
      |cbn [coerce]; intros [= <-]; apply Hval|cbn [coerce]; intros [= <-]; apply Hval| | |
      |cbn [coerce]; intros [= <-]; apply Hval|cbn [coerce]; intros [= <-]; apply Hval].
    - cbn [coerce]. destruct (coerce_items pfB l) as [xs|e] eqn:E; cbn [bind]; [|discriminate].
      intros [= <-]. exact (coerce_items_inr l xs H E).
    - cbn [coerce]. destruct (coerce_tuple pfB l) as [[]|e] eqn:E; cbn [bind]; [|discriminate].
      intros [= <-]. cbn [cv_lit]. apply forallb_inr_map_items.
    - apply andb_true_iff in H as [Hs Hd]. unfold coerce. rewrite pf_static_spec by exact Hs.
      destruct (pf_res (VDict d)) as [y|e] eqn:E.
      + pose proof (pf_res_inr _ y E) as Hy. destruct y as [p|w]; [discriminate Hy|].
        destruct w; intros [= <-]; try reflexivity. cbn [cv_lit]. apply forallb_inr_map.
      + destruct e; try discriminate.
        destruct (coerce_kvs pfB d) as [xs|e] eqn:Ek; cbn [bind]; [|discriminate].
        intros [= <-]. exact (coerce_kvs_inr d xs Hd Ek).
  Qed.
End Sim.

Notation cmapL := (cond_map pyval arg1 ALit).
Notation pmapL := (pmap pyval arg1 ALit).
Notation kmapL := (kmap pyval arg1 ALit).
Definition liftL (p : dslc pyval * cond pyval) : dslc arg1 * cond arg1 := (dslc_map ALit (fst p), cmapL (snd p)).

Lemma coerced_val_lit cv : cv_lit cv = true ->
  coerced_val arg1 ALit (APath 0%N) inert0 cv = ALit (coerced_val pyval id0 inert0 inert0 cv).
Proof. destruct cv; cbn [cv_lit coerced_val]; [discriminate|reflexivity|reflexivity|reflexivity]. Qed.

Lemma item_arg_lit x : is_inr x = true -> item_arg arg1 ALit (APath 0%N) x = ALit (item_arg pyval id0 inert0 x).
Proof. destruct x; [discriminate|reflexivity]. Qed.

Lemma map_item_arg_lit items : forallb is_inr items = true ->
  map (item_arg arg1 ALit (APath 0%N)) items = map ALit (map (item_arg pyval id0 inert0) items).
Proof.
  induction items as [|x r IH]; cbn [forallb map]; [reflexivity|].
  intros H. apply andb_true_iff in H as [Hx Hr]. rewrite (item_arg_lit x Hx), (IH Hr). reflexivity.
Qed.

Lemma kw_of_lit0 items : forallb (fun kv : pyval * (pathterm pyval + pyval) => is_inr (snd kv)) items = true ->
  kw_of arg1 ALit (APath 0%N) items = rmap kmapL (kw_of pyval id0 inert0 items).
Proof.
  induction items as [|[k x] r IH]; cbn [forallb kw_of snd]; [reflexivity|].
  intros H. apply andb_true_iff in H as [Hx Hr]. destruct k; try reflexivity.
  rewrite (IH Hr), (item_arg_lit x Hx). destruct (kw_of pyval id0 inert0 r); reflexivity.
Qed.

Lemma dispatch_lit c cv raw : cv_lit cv = true ->
  dispatch arg1 ALit (APath 0%N) inert0 c cv raw = rmap pmapL (dispatch pyval id0 inert0 inert0 c cv raw).
Proof.
  intros H. unfold dispatch. cbv zeta.
  destruct ((List.length (c_params c) =? 0)%nat && _ && _); [reflexivity|].
  destruct ((List.length (c_params c) =? 1)%nat && _ && _).
  { rewrite (coerced_val_lit cv H). reflexivity. }
  destruct ((1 <? List.length (c_params c))%nat && _ && _).
  { destruct cv; try reflexivity; cbn [cv_lit] in H.
    - rewrite (kw_of_lit0 items H). destruct (kw_of pyval id0 inert0 items); reflexivity.
    - rewrite (map_item_arg_lit items H). reflexivity. }
  destruct (_ && (List.length (c_params c) =? 0)%nat && _).
  { destruct cv; try reflexivity. destruct is_tuple; [reflexivity|]. cbn [cv_lit] in H.
    rewrite (map_item_arg_lit items H). reflexivity. }
  destruct (_ && _); [|reflexivity].
  destruct cv; try reflexivity; cbn [cv_lit] in H.
  rewrite (kw_of_lit0 items H). destruct (kw_of pyval id0 inert0 items); reflexivity.
Qed.

Lemma to_type_type v w : to_type X v = Ok w -> exists t, w = VType t.
Proof.
  unfold to_type. destruct v; try (destruct (py_hashable _); discriminate).
  - destruct (assoc_str _ _); [|discriminate]. intros [= <-]. eexists; reflexivity.
  - destruct (assoc_ty _ _); [|discriminate]. intros [= <-]. eexists; reflexivity.
Qed.

Lemma mapM_to_type_static l : forall l', mapM (to_type X) l = Ok l' -> forallb pf_static l' = true.
Proof.
  induction l as [|v l IH]; cbn [mapM]; intros l'.
  - intros [= <-]. reflexivity.
  - destruct (to_type X v) as [w|e] eqn:Ew; cbn [bind]; [|discriminate].
    destruct (mapM (to_type X) l) as [ws|e] eqn:El; cbn [bind]; [|discriminate].
    intros [= <-]. destruct (to_type_type v w Ew) as [t ->]. cbn [forallb pf_static]. exact (IH ws eq_refl).
Qed.

Lemma convert_types_inert v v' : convert_types X v = Ok v' -> val_inert v' = true.
Proof.
  assert (Ht : to_type X v = Ok v' -> val_inert v' = true).
  { intros H. destruct (to_type_type v v' H) as [t ->]. reflexivity. }
  unfold convert_types. destruct v; try exact Ht.
  destruct (mapM (to_type X) l) as [l'|e] eqn:E; cbn [bind]; [|discriminate].
  intros [= <-]. cbn [val_inert]. exact (mapM_to_type_static l l' E).
Qed.

Lemma conv_if_inert (b : bool) v v' : val_inert v = true ->
  (if b then convert_types X v else Ok v) = Ok v' -> val_inert v' = true.
Proof. intros Hv. destruct b; [apply convert_types_inert|intros [= <-]; exact Hv]. Qed.

Section Sim2.
  Variables cA cB : pyval -> res (dslc pyval * cond pyval).
  Notation pfA := (path_from_spec0 T X cA).
  Notation pfB := (path_from_spec0 T X cB).

  Lemma parse_leaf_sim key sv : val_inert sv = true ->
    parse_leaf T X arg1 ALit (APath 0%N) inert0 pfA key sv
    = rmap liftL (parse_leaf T X pyval id0 inert0 inert0 pfB key sv).
  Proof.
    intros Hsv. unfold parse_leaf. cbv zeta.
    destruct (assoc_str (hd "" (lower_tokens key)) (sx_datum_types X)) as [cls_name|]; [|reflexivity].
    destruct (negb _ || _); [reflexivity|].
    destruct (find_class (t_classes T) cls_name) as [k0|]; [|reflexivity].
    lazymatch goal with |- bind ?E _ = _ => destruct E as [[k v1]|e] eqn:EE end; cbn [bind rmap]; [|reflexivity].
    assert (Hv1 : val_inert v1 = true).
    { destruct (List.length (lower_tokens key) =? 3)%nat.
      - lazymatch type of EE with bind ?E _ = _ => destruct E as [v'|e] eqn:Ev end; cbn [bind] in EE; [|discriminate EE].
        destruct (class_pre T k0 _) as [k'|e]; cbn [bind] in EE; [|discriminate EE].
        injection EE as _ <-. exact (conv_if_inert _ sv v' Hsv Ev).
      - injection EE as _ <-. exact Hsv. }
    lazymatch goal with |- bind ?E _ = _ => destruct E as [v2|e] eqn:E2 end; cbn [bind rmap]; [|reflexivity].
    pose proof (conv_if_inert _ v1 v2 Hv1 E2) as Hv2.
    destruct (find_ctor T k _) as [c|]; [|reflexivity].
    rewrite (coerce_sim cA cB v2 Hv2).
    destruct (coerce pfB v2) as [cv|e] eqn:Ec; cbn [bind rmap]; [|reflexivity].
    rewrite (dispatch_lit c cv _ (coerce_lit cB v2 cv Hv2 Ec)).
    destruct (dispatch pyval id0 inert0 inert0 c cv _) as [[pos kw]|e]; cbn [bind rmap pmap fst snd]; [|reflexivity].
    rewrite (build_leaf_map pyval arg1 ALit id0 ALit (fun v => eq_refl) T (k_name k) _ pos kw).
    destruct (build_leaf T id0 (k_name k) _ pos kw); reflexivity.
  Qed.

  Variable selfA : pyval -> res (dslc arg1 * cond arg1).
  Variable selfB : pyval -> res (dslc pyval * cond pyval).
  Hypothesis Hself : forall s, spec_inert s = true -> selfA s = rmap liftL (selfB s).

  Lemma step_sim spec : spec_inert spec = true ->
    cond_from_spec_step T X arg1 ALit (APath 0%N) inert0 pfA selfA spec
    = rmap liftL (cond_from_spec_step T X pyval id0 inert0 inert0 pfB selfB spec).
  Proof.
    intros H. unfold cond_from_spec_step.
    destruct (negb (py_truthy spec)); [reflexivity|].
    destruct spec as [ | b | z | n m e | s | l | l | d | t | t ];
      [reflexivity|reflexivity|reflexivity|reflexivity|reflexivity|reflexivity|reflexivity| |reflexivity|reflexivity].
    destruct d as [|[k sv] [|kv2 r]]; [reflexivity| |destruct k; reflexivity].
    destruct k as [ | b | z | n m e | s | l | l | d | t | t ];
      [reflexivity|reflexivity|reflexivity|reflexivity| |reflexivity|reflexivity|reflexivity|reflexivity|reflexivity].
    cbn [spec_inert] in H.
    destruct (assoc_str s (sx_binops X)) as [o|].
    - assert (Hfold : forall items, forallb spec_inert items = true -> forall acc,
        (fix fold (items : list pyval) (acc : dslc arg1 * cond arg1) : res (dslc arg1 * cond arg1) :=
           match items with
           | [] => Ok acc
           | i :: r => let* (ti, ci) := selfA i in let* c := mk_bin o (snd acc) ci in fold r (DBin o (fst acc) ti, c)
           end) items (liftL acc)
        = rmap liftL
          ((fix fold (items : list pyval) (acc : dslc pyval * cond pyval) : res (dslc pyval * cond pyval) :=
           match items with
           | [] => Ok acc
           | i :: r => let* (ti, ci) := selfB i in let* c := mk_bin o (snd acc) ci in fold r (DBin o (fst acc) ti, c)
           end) items acc)).
      { induction items as [|i r IH]; intros Hin acc; [reflexivity|].
        cbn [forallb] in Hin. apply andb_true_iff in Hin as [Hi Hr].
        lazy beta iota. rewrite (Hself i Hi).
        destruct (selfB i) as [[ti ci]|e]; cbn [rmap bind liftL fst snd]; [|reflexivity].
        rewrite mk_bin_map. destruct (mk_bin o (snd acc) ci) as [c|e]; cbn [rmap bind]; [|reflexivity].
        exact (IH Hr (DBin o (fst acc) ti, c)). }
      destruct sv as [ | b | z | n m e | s' | l | l | d | t | t ];
        [reflexivity|reflexivity|reflexivity|reflexivity|reflexivity| | |reflexivity|reflexivity|reflexivity];
        exact (Hfold l H (DNull, CNull)).
    - exact (parse_leaf_sim s sv H).
  Qed.
End Sim2.

(* rule-condition parser = part-condition parser, on inert specs *)
Lemma cond_sim : forall f spec, spec_inert spec = true ->
  self1 f spec = rmap liftL (cond0_from_spec T X f spec).
Proof.
  induction f as [|f IH]; intros spec H; [reflexivity|].
  rewrite self1_S. cbn [cond0_from_spec].
  exact (step_sim (cond0_from_spec T X spec_fuel) (cond0_from_spec T X f) _ _ IH spec H).
Qed.

Lemma cond_map_inj (a b : cond pyval) : cmapL a = cmapL b -> a = b.
Proof.
  assert (Hm : forall l l' : list pyval, map ALit l = map ALit l' -> l = l').
  { induction l as [|x l IH]; intros [|y l'] E; try discriminate; [reflexivity|].
    cbn [map] in E. injection E as E1 E2. rewrite E1, (IH l' E2). reflexivity. }
  assert (Hk : forall l l' : list (string * pyval), kmapL l = kmapL l' -> l = l').
  { induction l as [|[k x] l IH]; intros [|[k' y] l'] E; try discriminate; [reflexivity|].
    cbn [kmap map fst snd] in E. injection E as E1 E2 E3. subst. rewrite (IH l' E3). reflexivity. }
  revert b. induction a as [l|o a1 IH1 a2 IH2]; intros [l'|o' b1 b2] E; try discriminate.
  - cbn [cond_map] in E. unfold leaf_map in E. injection E as E1 E2 E3 E4 E5 E6.
    destruct l as [a1 a2 a3 a4 a5 a6], l' as [b1 b2 b3 b4 b5 b6].
    cbn [l_cls l_kind l_pre l_call l_args l_kwargs] in E1, E2, E3, E4, E5, E6.
    subst. rewrite (Hm _ _ E5), (Hk _ _ E6). reflexivity.
  - cbn [cond_map] in E. injection E as E1 E2 E3. subst. rewrite (IH1 _ E2), (IH2 _ E3). reflexivity.
Qed.

(* what C11 gives for rule conditions holds for the conditions of path parts *)
Lemma cond0_parse_of_cond1 spec tm1 c : spec_inert spec = true ->
  cond1_from_spec T X spec = Ok (tm1, cmapL c) ->
  exists tm, cond0_from_spec T X spec_fuel spec = Ok (tm, c) /\ build T id0 tm = Ok c.
Proof.
  intros Hin H. rewrite cond1_unfold in H. change 40 with spec_fuel in H.
  rewrite (cond_sim spec_fuel spec Hin) in H.
  destruct (cond0_from_spec T X spec_fuel spec) as [[tm c']|e] eqn:E; cbn [rmap liftL fst snd] in H; [|discriminate H].
  injection H as _ Hc. apply cond_map_inj in Hc. subst c'.
  exists tm. split; [reflexivity|]. exact (cond0_from_spec_wf T X _ _ _ E).
Qed.

(* ================================================================== *)
(* 2. the serialiser of part conditions = the serialiser of rule conditions on literal arguments *)

Lemma leaf_to_json_lit (l : leaf pyval) :
  leaf_to_json T X arg1 (arg1_to_json T X) arg1_raw (leaf_map pyval arg1 ALit l)
  = leaf_to_json T X pyval (arg0_to_json X) (fun v => Ok v) l.
Proof.
  destruct l as [cls kind pre call args kws].
  unfold leaf_to_json, leaf_map, is_null_leaf. cbn [l_cls l_call l_args l_kwargs].
  destruct (String.eqb cls "NullCondition"); [reflexivity|].
  destruct (find_class (t_classes T) cls) as [k|]; [|reflexivity].
  destruct (find_def (t_defs T) call) as [fd|]; [|reflexivity].
  cbv zeta.
  set (cast := str_contains "dtype" _ || _).
  assert (Hhd : match map ALit args ++ map snd (kmapL kws) with a :: _ => arg1_to_json T X cast a | [] => Err IndexError end
              = match args ++ map snd kws with a :: _ => arg0_to_json X cast a | [] => Err IndexError end).
  { destruct args as [|a r]; [destruct kws as [|[k' a] r]|]; reflexivity. }
  assert (Hraw : forall kws : list (string * pyval),
     (fix go (kws : list (string * arg1)) : res (list (pyval * pyval)) := match kws with
        | [] => Ok []
        | (k', a) :: r => let* x := arg1_raw a in let* r' := go r in Ok ((VStr k', x) :: r') end) (kmapL kws)
     = (fix go (kws : list (string * pyval)) : res (list (pyval * pyval)) := match kws with
        | [] => Ok []
        | (k', a) :: r => let* x := Ok a in let* r' := go r in Ok ((VStr k', x) :: r') end) kws).
  { induction kws0 as [|[k' a] r IH]; [reflexivity|].
    change (kmapL ((k', a) :: r)) with ((k', ALit a) :: kmapL r). lazy beta iota. rewrite IH. reflexivity. }
  (* arguments written at item level (several parameters, values of a keyword mapping, *args) *)
  assert (Hitem : forall kws : list (string * pyval),
     (fix go (kws : list (string * arg1)) : res (list (pyval * pyval)) := match kws with
        | [] => Ok []
        | (k', a) :: r =>
            let* x := arg_item X arg1 (arg1_to_json T X) arg1_raw cast a in
            let* r' := go r in Ok ((VStr k', x) :: r') end) (kmapL kws)
     = (fix go (kws : list (string * pyval)) : res (list (pyval * pyval)) := match kws with
        | [] => Ok []
        | (k', a) :: r =>
            let* x := arg_item X pyval (arg0_to_json X) (fun v : pyval => Ok v) cast a in
            let* r' := go r in Ok ((VStr k', x) :: r') end) kws).
  { induction kws0 as [|[k' a] r IH]; [reflexivity|].
    change (kmapL ((k', a) :: r)) with ((k', ALit a) :: kmapL r). lazy beta iota. rewrite IH. reflexivity. }
  assert (Hex : existsb (fun ka : string * arg1 => str_contains "path" (fst ka)) (kmapL kws)
              = existsb (fun ka : string * pyval => str_contains "path" (fst ka)) kws).
  { clear. induction kws as [|[k' a] r IH]; [reflexivity|]. change (kmapL ((k', a) :: r)) with ((k', ALit a) :: kmapL r). cbn [existsb fst]. rewrite IH. reflexivity. }
  assert (HmapM : mapM (arg_item X arg1 (arg1_to_json T X) arg1_raw cast) (map ALit args)
                  = mapM (arg_item X pyval (arg0_to_json X) (fun v : pyval => Ok v) cast) args).
  { clear. induction args as [|a r IH]; [reflexivity|]. cbn [map mapM]. rewrite IH. reflexivity. }
  rewrite Hhd, Hraw, !Hitem, Hex, HmapM. reflexivity.
Qed.

Lemma cond_to_json_lit (c : cond pyval) : cond1_to_json T X (cmapL c) = cond0_to_json T X c.
Proof.
  unfold cond1_to_json, cond0_to_json.
  induction c as [l|o a IHa b IHb]; cbn [cond_map cond_to_json].
  - apply leaf_to_json_lit.
  - rewrite IHa, IHb. reflexivity.
Qed.

(* ---- the condition trees allowed inside parts: those of C11 whose JSON is inert ---- *)
Definition ctree_ok (t : qtree) : bool := tree_in_c11 t && spec_inert (tree_json (qnorm t)).

Lemma ctree_facts t : ctree_ok t = true ->
  cond0_to_json T X (cond_of (qnorm t)) = Ok (tree_json (qnorm t)) /\
  json_pure (tree_json (qnorm t)) = true /\
  exists tm, cond0_from_spec T X spec_fuel (tree_json (qnorm t)) = Ok (tm, cond_of (qnorm t)) /\
             build T id0 tm = Ok (cond_of (qnorm t)).
Proof.
  unfold ctree_ok. intros H. apply andb_true_iff in H as [H11 Hin].
  destruct (C11_roundtrip_eq t _ H11 (tree_in_c11_builds t H11)) as [Hj [Hp [[tm1 Hs] _]]]. cbv zeta in Hj, Hs.
  rewrite cond_to_json_lit in Hj. split; [exact Hj|]. split; [exact Hp|].
  exact (cond0_parse_of_cond1 _ tm1 _ Hin Hs).
Qed.

(* ================================================================== *)
(* 3. one part written in full: ContainerValue.to_spec / ContainerValue.from_spec               *)

Notation cond0 := (cond0_from_spec T X spec_fuel).

Definition pure_ents (d : list (pyval * pyval)) : bool :=
  forallb (fun kv => match fst kv with VStr _ => json_pure (snd kv) | _ => false end) d.

Lemma json_pure_dict d : json_pure (VDict d) = pure_ents d.
Proof.
  induction d as [|[k v] r IH]; [reflexivity|].
  destruct k; try reflexivity.
  change (json_pure (VDict ((VStr s, v) :: r))) with (json_pure v && json_pure (VDict r)).
  rewrite IH. reflexivity.
Qed.

Lemma pure_ents_app a b : pure_ents (a ++ b) = pure_ents a && pure_ents b.
Proof. apply forallb_app. Qed.

Lemma dict_pop_hit k v r : dict_pop k ((VStr k, v) :: r) = (Some v, r).
Proof. cbn [dict_pop]. rewrite py_eq_str, String.eqb_refl. reflexivity. Qed.

Definition absent (k : string) (d : list (pyval * pyval)) : bool :=
  forallb (fun kv => negb (py_eq (VStr k) (fst kv))) d.

Lemma dict_pop_absent k d : absent k d = true -> dict_pop k d = (None, d).
Proof.
  unfold absent. induction d as [|[k2 v] r IH]; [reflexivity|].
  cbn [forallb fst dict_pop]. intros H. apply andb_true_iff in H as [H1 H2].
  apply negb_true_iff in H1. rewrite H1, (IH H2). reflexivity.
Qed.

Lemma absent_app k a b : absent k (a ++ b) = absent k a && absent k b.
Proof. apply forallb_app. Qed.

Lemma absent_label k l : String.eqb k "label" = false -> absent k (label_entry l) = true.
Proof.
  intros H. destruct l as [v|]; [|reflexivity].
  unfold absent. cbn [label_entry forallb fst]. rewrite py_eq_str, H. reflexivity.
Qed.

Lemma dict_pop_label l : dict_pop "label" (label_entry l) = (l, []).
Proof. destruct l as [v|]; [apply dict_pop_hit|reflexivity]. Qed.

Lemma split_short_label pre l : String.prefix pre "label" = false ->
  split_short pre (label_entry l) = Ok ([], label_entry l).
Proof. intros H. destruct l as [v|]; cbn [label_entry split_short bind]; [rewrite H|]; reflexivity. Qed.

Lemma pop_cond_label c0 k l : String.eqb k "label" = false ->
  pop_cond c0 k (label_entry l) = Ok ((DNull, CNull), label_entry l).
Proof. intros H. unfold pop_cond. rewrite (dict_pop_absent k _ (absent_label k l H)). reflexivity. Qed.

Lemma pop_kind_label c0 k kind acc l : String.eqb k "label" = false ->
  pop_kind c0 k kind acc (label_entry l) = Ok (acc, label_entry l).
Proof. intros H. unfold pop_kind. rewrite (dict_pop_absent k _ (absent_label k l H)). reflexivity. Qed.

Lemma shorthands_label c0 pre acc l : String.prefix pre "label" = false ->
  shorthands c0 pre acc (label_entry l) = Ok (acc, label_entry l).
Proof. intros H. unfold shorthands. rewrite (split_short_label pre l H). reflexivity. Qed.

(* a condition of a part: what to_spec writes for it under `name`, and from_spec reads it back *)
Definition slot_ok (name : string) (c : cond pyval) (e : list (pyval * pyval)) (tm : dslc pyval) : Prop :=
  opt_cond_entry T X name c = Ok e /\ build T id0 tm = Ok c /\ pure_ents e = true /\
  ((c = CNull /\ e = [] /\ tm = DNull) \/
   (exists dj, e = [(VStr name, VDict dj)] /\ cond0 (VDict dj) = Ok (tm, c))).

(* the condition round trip (C11 at stratum 0) as a property of a built condition *)
Definition cond_rt (c : cond pyval) : Prop := forall name, exists e tm, slot_ok name c e tm.

Lemma pop_cond_slot name c e tm rest : slot_ok name c e tm -> absent name rest = true ->
  pop_cond cond0 name (e ++ rest) = Ok ((tm, c), rest).
Proof.
  intros (_ & _ & _ & [(-> & -> & ->)|(dj & -> & Hp)]) Ha; unfold pop_cond.
  - cbn [app]. rewrite (dict_pop_absent name rest Ha). reflexivity.
  - cbn [app]. rewrite dict_pop_hit, Hp. reflexivity.
Qed.

Lemma slot_absent k name c e tm : slot_ok name c e tm -> String.eqb k name = false -> absent k e = true.
Proof.
  intros (_ & _ & _ & [(_ & -> & _)|(dj & -> & _)]) H; [reflexivity|].
  unfold absent. cbn [forallb fst]. rewrite py_eq_str, H. reflexivity.
Qed.

Lemma mk_part_map_cnd tm c l : build T id0 tm = Ok c ->
  mk_part T id0 (PtMap None None (Some (KCond tm)) l) = Ok (PMap c l, true).
Proof.
  intros H. cbn [mk_part pre_build bind]. rewrite H. cbn [bind]. unfold gcvc. cbn [norm_arg bind]. rewrite H. reflexivity.
Qed.

Lemma mk_part_list_cnd tm c l : build T id0 tm = Ok c ->
  mk_part T id0 (PtList None None (Some (KCond tm)) l) = Ok (PList c l, true).
Proof.
  intros H. cbn [mk_part pre_build bind]. rewrite H. cbn [bind]. unfold gcvc. cbn [norm_arg bind]. rewrite H. reflexivity.
Qed.

Lemma mk_part_mol_cnd t1 c1 t2 c2 t3 c3 l : build T id0 t1 = Ok c1 -> build T id0 t2 = Ok c2 -> build T id0 t3 = Ok c3 ->
  mk_part T id0 (PtMol None None None (Some (KCond t2)) (Some (KCond t3)) (Some (KCond t1)) l) = Ok (PMol c1 c2 c3 l, true).
Proof.
  intros H1 H2 H3. cbn [mk_part pre_build bind].
  rewrite H2. cbn [bind]. rewrite H3. cbn [bind]. rewrite H1. cbn [bind]. unfold gcvc. cbn [norm_arg bind].
  rewrite H2. cbn [bind]. rewrite H3. cbn [bind]. rewrite H1. reflexivity.
Qed.

Lemma cls_map : assoc_str "map_value" (sx_part_classes X) = Some "MapValue". Proof. vm_compute. reflexivity. Qed.
Lemma cls_list : assoc_str "list_value" (sx_part_classes X) = Some "ListValue". Proof. vm_compute. reflexivity. Qed.
Lemma cls_mol : assoc_str "map_or_list_value" (sx_part_classes X) = Some "MapOrListValue". Proof. vm_compute. reflexivity. Qed.

Lemma parse_map c e tm l : slot_ok "condition" c e tm ->
  part_from_spec T X cond0 ((VStr "type", VStr "map_value") :: e ++ label_entry l) = Ok (PtMap None None (Some (KCond tm)) l).
Proof.
  intros Hs. pose proof Hs as (_ & Hb & _). unfold part_from_spec. rewrite dict_pop_hit, cls_map. cbn [bind].
  rewrite (pop_cond_slot _ _ _ _ _ Hs (absent_label "condition" l eq_refl)). cbn [bind].
  rewrite pop_cond_label by reflexivity. cbn [bind].
  rewrite pop_cond_label by reflexivity. cbn [bind].
  rewrite pop_kind_label by reflexivity. cbn [bind].
  rewrite shorthands_label by reflexivity. cbn [bind].
  change (String.eqb "MapValue" "MapValue") with true. cbv iota.
  rewrite shorthands_label by reflexivity. cbn [bind].
  rewrite pop_kind_label by reflexivity. cbn [bind].
  rewrite dict_pop_label. unfold to_carg. cbn [fst].
  rewrite (mk_part_map_cnd tm c l Hb). reflexivity.
Qed.

Lemma parse_list c e tm l : slot_ok "condition" c e tm ->
  part_from_spec T X cond0 ((VStr "type", VStr "list_value") :: e ++ label_entry l) = Ok (PtList None None (Some (KCond tm)) l).
Proof.
  intros Hs. pose proof Hs as (_ & Hb & _). unfold part_from_spec. rewrite dict_pop_hit, cls_list. cbn [bind].
  rewrite (pop_cond_slot _ _ _ _ _ Hs (absent_label "condition" l eq_refl)). cbn [bind].
  rewrite pop_cond_label by reflexivity. cbn [bind].
  rewrite pop_cond_label by reflexivity. cbn [bind].
  rewrite pop_kind_label by reflexivity. cbn [bind].
  rewrite shorthands_label by reflexivity. cbn [bind].
  change (String.eqb "ListValue" "MapValue") with false. change (String.eqb "ListValue" "ListValue") with true. cbv iota.
  rewrite shorthands_label by reflexivity. cbn [bind].
  rewrite pop_kind_label by reflexivity. cbn [bind].
  rewrite dict_pop_label. unfold to_carg. cbn [fst].
  rewrite (mk_part_list_cnd tm c l Hb). reflexivity.
Qed.

Lemma parse_mol c1 e1 t1 c2 e2 t2 c3 e3 t3 l :
  slot_ok "condition" c1 e1 t1 -> slot_ok "list_condition" c2 e2 t2 -> slot_ok "map_condition" c3 e3 t3 ->
  part_from_spec T X cond0 ((VStr "type", VStr "map_or_list_value") :: e1 ++ e2 ++ e3 ++ label_entry l)
  = Ok (PtMol None None None (Some (KCond t2)) (Some (KCond t3)) (Some (KCond t1)) l).
Proof.
  intros S1 S2 S3. pose proof S1 as (_ & B1 & _). pose proof S2 as (_ & B2 & _). pose proof S3 as (_ & B3 & _).
  unfold part_from_spec. rewrite dict_pop_hit, cls_mol. cbn [bind].
  rewrite (pop_cond_slot _ _ _ _ (e2 ++ e3 ++ label_entry l) S1)
    by (rewrite !absent_app, (slot_absent "condition" _ _ _ _ S2 eq_refl), (slot_absent "condition" _ _ _ _ S3 eq_refl), (absent_label "condition" l eq_refl); reflexivity).
  cbn [bind].
  rewrite (pop_cond_slot _ _ _ _ (e3 ++ label_entry l) S2)
    by (rewrite !absent_app, (slot_absent "list_condition" _ _ _ _ S3 eq_refl), (absent_label "list_condition" l eq_refl); reflexivity).
  cbn [bind].
  rewrite (pop_cond_slot _ _ _ _ _ S3 (absent_label "map_condition" l eq_refl)). cbn [bind].
  rewrite pop_kind_label by reflexivity. cbn [bind].
  rewrite shorthands_label by reflexivity. cbn [bind].
  change (String.eqb "MapOrListValue" "MapValue") with false. change (String.eqb "MapOrListValue" "ListValue") with false. cbv iota.
  rewrite shorthands_label by reflexivity. cbn [bind].
  rewrite shorthands_label by reflexivity. cbn [bind].
  rewrite pop_kind_label by reflexivity. cbn [bind].
  rewrite pop_kind_label by reflexivity. cbn [bind].
  rewrite dict_pop_label. unfold to_carg. cbn [fst].
  rewrite (mk_part_mol_cnd t1 c1 t2 c2 t3 c3 l B1 B2 B3). reflexivity.
Qed.

Definition is_dict (v : pyval) : bool := match v with VDict _ => true | _ => false end.

(* DataPath.from_part_specs on one item *)
Definition spec_pterm (s : pyval) : res (pterm pyval) :=
  match s with VDict d => part_from_spec T X cond0 d | v => Ok (PtPrim v) end.

(* the spec s is read back as the part q (explicitly given iff written as a mapping) *)
Definition Rel (q : part pyval) (s : pyval) : Prop :=
  exists pt, spec_pterm s = Ok pt /\ mk_part T id0 pt = Ok (q, is_dict s).

Definition part_rt (q : part pyval) : Prop :=
  match q with
  | PMap c _ | PList c _ => cond_rt c
  | PMol c lc mc _ => cond_rt c /\ cond_rt lc /\ cond_rt mc
  end.

Definition olabel_pure (l : option pyval) : bool := match l with Some v => json_pure v | None => true end.
Definition part_label (q : part pyval) : option pyval :=
  match q with PMap _ l | PList _ l | PMol _ _ _ l => l end.

Lemma pure_label l : olabel_pure l = true -> pure_ents (label_entry l) = true.
Proof. destruct l as [v|]; [|reflexivity]. cbn [olabel_pure label_entry pure_ents forallb fst snd]. intros ->. reflexivity. Qed.

Lemma part_full_rt q : part_rt q ->
  exists d, part_to_spec T X q = Ok (VDict d) /\ Rel q (VDict d) /\
            (olabel_pure (part_label q) = true -> json_pure (VDict d) = true).
Proof.
  destruct q as [c l|c l|c lc mc l]; cbn [part_rt part_label].
  - intros Hc. destruct (Hc "condition") as (e & tm & Hs). pose proof Hs as (He & Hb & Hp & _).
    eexists. split; [cbn [part_to_spec]; rewrite He; reflexivity|]. split.
    + exists (PtMap None None (Some (KCond tm)) l). split; [exact (parse_map c e tm l Hs)|exact (mk_part_map_cnd tm c l Hb)].
    + intros Hl. rewrite json_pure_dict. change (pure_ents (?a :: ?r)) with (pure_ents r).
      rewrite pure_ents_app, Hp, (pure_label l Hl). reflexivity.
  - intros Hc. destruct (Hc "condition") as (e & tm & Hs). pose proof Hs as (He & Hb & Hp & _).
    eexists. split; [cbn [part_to_spec]; rewrite He; reflexivity|]. split.
    + exists (PtList None None (Some (KCond tm)) l). split; [exact (parse_list c e tm l Hs)|exact (mk_part_list_cnd tm c l Hb)].
    + intros Hl. rewrite json_pure_dict. change (pure_ents (?a :: ?r)) with (pure_ents r).
      rewrite pure_ents_app, Hp, (pure_label l Hl). reflexivity.
  - intros (Hc & Hlc & Hmc).
    destruct (Hc "condition") as (e1 & t1 & S1). destruct (Hlc "list_condition") as (e2 & t2 & S2).
    destruct (Hmc "map_condition") as (e3 & t3 & S3).
    pose proof S1 as (E1 & B1 & P1 & _). pose proof S2 as (E2 & B2 & P2 & _). pose proof S3 as (E3 & B3 & P3 & _).
    eexists. split; [cbn [part_to_spec]; rewrite E1, E2, E3; reflexivity|]. split.
    + eexists. split; [exact (parse_mol _ _ _ _ _ _ _ _ _ l S1 S2 S3)|exact (mk_part_mol_cnd _ _ _ _ _ _ l B1 B2 B3)].
    + intros Hl. rewrite json_pure_dict. change (pure_ents (?a :: ?r)) with (pure_ents r).
      rewrite !pure_ents_app, P1, P2, P3, (pure_label l Hl). reflexivity.
Qed.

(* ================================================================== *)
(* 4. the simplify() shortcut                                           *)

(* the shortcut is faithful on q: the bare value it emits is read back as q itself *)
Definition simple_faithful (q : part pyval) : Prop :=
  forall v, simple_of q = Ok (Some v) -> mk_part T id0 (PtPrim v) = Ok (q, false).

(* the former boolean guard: a map-or-list part is only ever abbreviated to an int / bool.  It used to be
   a conjunct of the fragment predicate (str, float, None, list and mapping values were abbreviated too:
   section 8); since the repair of simplify() it holds of every part (simple_guard_always below) *)
Definition simple_guard (q : part pyval) : bool :=
  match simple_of q with
  | Ok (Some v) => match q with
                   | PMol _ _ _ _ => match v with VInt _ | VBool _ => true | _ => false end
                   | _ => true
                   end
  | _ => true
  end.

Lemma prim_ok v r : mk_part T id0 (PtPrim v) = Ok r -> json_pure v = true /\ is_dict v = false.
Proof. destruct v; cbn [mk_part]; intros H; try discriminate H; split; reflexivity. Qed.

Lemma simple_map_inv n l v : simple_of (PMap (cond_of n) l) = Ok (Some v) ->
  l = None /\ n = QLeaf SKey (Q_equal_to v) /\ match v with VStr _ | VFloat _ _ _ => True | _ => False end.
Proof.
  destruct l as [lv|]; [discriminate|].
  destruct n as [cl q| |o a b]; cbn [cond_of simple_of single_leaf]; [|discriminate|discriminate].
  rewrite expected_cls, C11Proof.expected_call. intros H.
  destruct cl; try discriminate H.
  destruct q; try discriminate H.
  change (kw_value (expected_leaf SKey (Q_equal_to v0))) with (Some v0) in H.
  destruct v0; try discriminate H; injection H as <-; repeat split.
Qed.

Lemma py_eq_int_same lv mv : pytype_eqb (py_type lv) (py_type mv) = true -> py_eq lv mv = true ->
  match lv with VInt _ | VBool _ => True | _ => False end -> mv = lv.
Proof.
  intros Ht He Hl. destruct lv; try contradiction; destruct mv; try discriminate Ht.
  - cbn [py_eq num_of] in He. apply num_eqb_eq in He. apply canon_int_inj in He.
    destruct b, b0; try discriminate He; reflexivity.
  - cbn [py_eq num_of] in He. apply num_eqb_eq in He. apply canon_int_inj in He. subst. reflexivity.
Qed.

Lemma simple_mol_inv n nl nm l v : simple_of (PMol (cond_of n) (cond_of nl) (cond_of nm) l) = Ok (Some v) ->
  l = None /\ n = QNull /\ match v with VInt _ | VBool _ => True | _ => False end /\
  exists mv, nl = QLeaf SIndex (Q_equal_to v) /\ nm = QLeaf SKey (Q_equal_to mv) /\
    pytype_eqb (py_type v) (py_type mv) = true /\ py_eq v mv = true.
Proof.
  destruct l as [lv|]; [discriminate|].
  cbn [simple_of]. rewrite is_null_cond_of.
  destruct (q_is_null n) eqn:En; [|discriminate]. apply q_is_null_eq in En.
  destruct nl as [cl q| |o a b], nm as [cm qm| |o' a' b']; cbn [cond_of single_leaf CNull]; try discriminate;
    rewrite ?expected_cls, ?C11Proof.expected_call; intros H;
    try (destruct cl; try discriminate H; destruct q; discriminate H);
    try (destruct cm; try discriminate H; destruct qm; discriminate H).
  destruct cl; try discriminate H.
  destruct q; try discriminate H.
  destruct cm; try discriminate H.
  destruct qm; try discriminate H.
  change (kw_value (expected_leaf SIndex (Q_equal_to v0))) with (Some v0) in H.
  change (kw_value (expected_leaf SKey (Q_equal_to v1))) with (Some v1) in H.
  cbv iota beta in H.
  assert (Hv0 : match v0 with VInt _ | VBool _ => True | _ => False end) by (destruct v0; try discriminate H; exact I).
  assert (H' : (if pytype_eqb (py_type v0) (py_type v1) && py_eq v0 v1 then Ok (Some v0) else Ok None) = Ok (Some v))
    by (destruct v0; try contradiction; exact H).
  clear H. destruct (pytype_eqb (py_type v0) (py_type v1) && py_eq v0 v1) eqn:E; [|discriminate H'].
  injection H' as <-. apply andb_true_iff in E as [E1 E2].
  split; [reflexivity|]. split; [exact En|]. split; [exact Hv0|]. exists v1. repeat split; assumption.
Qed.

Lemma mk_prim_map v : match v with VStr _ | VFloat _ _ _ => True | _ => False end ->
  mk_part T id0 (PtPrim v) = Ok (PMap (cond_of (QLeaf SKey (Q_equal_to v))) None, false).
Proof. intros H. destruct v; try contradiction; exact (mk_part_spec (SPrim _) eq_refl). Qed.

Lemma mk_prim_mol v : match v with VInt _ | VBool _ => True | _ => False end ->
  mk_part T id0 (PtPrim v)
  = Ok (PMol (cond_of QNull) (cond_of (QLeaf SIndex (Q_equal_to v))) (cond_of (QLeaf SKey (Q_equal_to v))) None, false).
Proof. intros H. destruct v; try contradiction; exact (mk_part_spec (SPrim _) eq_refl). Qed.

(* Lemma B: the shortcut is faithful on EVERY API-built part (since the repair of simplify(): a
   map-or-list part is abbreviated only to an int / bool) *)
Lemma mpart_faithful l sp : simple_faithful (mpart l sp).
Proof.
  intros v Hs.
  destruct sp as [t|t|c lc mc]; cbn [mpart] in *.
  - destruct (simple_map_inv _ _ _ Hs) as (-> & -> & Hv). exact (mk_prim_map v Hv).
  - discriminate Hs.
  - destruct (simple_mol_inv _ _ _ _ _ Hs) as (-> & -> & Hv & mv & -> & -> & Ht & He).
    rewrite (py_eq_int_same v mv Ht He Hv). exact (mk_prim_mol v Hv).
Qed.

(* the former guard is now a theorem about simplify() on any part object *)
Lemma simple_guard_always q : simple_guard q = true.
Proof.
  unfold simple_guard. destruct (simple_of q) as [[v|]|e] eqn:Es; try reflexivity.
  destruct q as [c l|c l|c lc mc l]; try reflexivity.
  cbn [simple_of] in Es. destruct l; [discriminate Es|].
  destruct (is_null c); [|discriminate Es].
  destruct (single_leaf lc) as [ll|]; [|discriminate Es]. destruct (single_leaf mc) as [ml|]; [|discriminate Es].
  destruct (_ && _); [|discriminate Es].
  destruct (kw_value ll) as [lv|]; [|discriminate Es].
  destruct lv; try discriminate Es;
    (destruct (kw_value ml) as [mv|]; [|discriminate Es]; destruct (_ && _); [|discriminate Es]; injection Es as <-; reflexivity).
Qed.

Lemma guard_faithful l sp : simple_guard (mpart l sp) = true -> simple_faithful (mpart l sp).
Proof. intros _. apply mpart_faithful. Qed.

(* primitives are always abbreviated *)
Lemma prim_simple v q : mk_part T id0 (PtPrim v) = Ok (q, false) -> simple_of q = Ok (Some v).
Proof.
  destruct v as [ | b | z | n m e | s | l | l | d | t | t ]; cbn [mk_part]; try discriminate.
  - intros H. change (mk_part T id0 (PtPrim (VBool b)) = Ok (q, false)) in H; rewrite (mk_prim_mol (VBool b) I) in H.
    injection H as <-. cbn [simple_of cond_of is_null is_null_leaf single_leaf].
    rewrite !expected_cls, !C11Proof.expected_call.
    change (kw_value (expected_leaf SIndex (Q_equal_to (VBool b)))) with (Some (VBool b)).
    change (kw_value (expected_leaf SKey (Q_equal_to (VBool b)))) with (Some (VBool b)).
    cbn [py_eq num_of py_type]. rewrite num_eqb_refl. reflexivity.
  - intros H. change (mk_part T id0 (PtPrim (VInt z)) = Ok (q, false)) in H; rewrite (mk_prim_mol (VInt z) I) in H.
    injection H as <-. cbn [simple_of cond_of is_null is_null_leaf single_leaf].
    rewrite !expected_cls, !C11Proof.expected_call.
    change (kw_value (expected_leaf SIndex (Q_equal_to (VInt z)))) with (Some (VInt z)).
    change (kw_value (expected_leaf SKey (Q_equal_to (VInt z)))) with (Some (VInt z)).
    cbn [py_eq num_of py_type]. rewrite num_eqb_refl. reflexivity.
  - intros H. change (mk_part T id0 (PtPrim (VFloat n m e)) = Ok (q, false)) in H; rewrite (mk_prim_map (VFloat n m e) I) in H.
    injection H as <-. cbn [simple_of cond_of single_leaf]. rewrite expected_cls, C11Proof.expected_call. reflexivity.
  - intros H. change (mk_part T id0 (PtPrim (VStr s)) = Ok (q, false)) in H; rewrite (mk_prim_map (VStr s) I) in H.
    injection H as <-. cbn [simple_of cond_of single_leaf]. rewrite expected_cls, C11Proof.expected_call. reflexivity.
Qed.

(* ================================================================== *)
(* 5. the whole path: DataPath.to_part_specs / DataPath.from_part_specs *)

Definition nondict (s : pyval) : bool := match s with VDict _ => false | _ => true end.

Lemma parts_from_specs_mapM l : parts_from_specs T X cond0 l = mapM spec_pterm l.
Proof.
  induction l as [|v r IH]; [reflexivity|].
  destruct v; cbn [parts_from_specs mapM spec_pterm bind]; rewrite IH; reflexivity.
Qed.

Lemma rel_parts qs specs : Forall2 Rel qs specs ->
  exists pts, parts_from_specs T X cond0 specs = Ok pts /\ mk_parts T id0 pts = Ok (qs, forallb nondict specs).
Proof.
  induction 1 as [|q s qs specs (pt & Hp & Hm) HF (pts & IH1 & IH2)].
  - exists []. split; reflexivity.
  - exists (pt :: pts). rewrite parts_from_specs_mapM in *. cbn [mapM]. rewrite Hp. cbn [bind]. rewrite IH1. cbn [bind].
    split; [reflexivity|]. cbn [mk_parts]. rewrite Hm. cbn [bind]. rewrite IH2. cbn [bind forallb].
    destruct s; reflexivity.
Qed.

(* what to_part_specs writes for one part *)
Definition spec_of (q : part pyval) : res pyval :=
  let* o := simple_of q in match o with Some v => Ok v | None => part_to_spec T X q end.

Lemma specs_mapM parts : forall simples, mapM simple_of parts = Ok simples ->
  mapM (fun ps : part pyval * option pyval => match snd ps with Some v => Ok v | None => part_to_spec T X (fst ps) end)
       (combine parts simples)
  = mapM spec_of parts.
Proof.
  induction parts as [|q r IH]; intros simples; cbn [mapM].
  - intros [= <-]. reflexivity.
  - destruct (simple_of q) as [o|e] eqn:Eo; cbn [bind]; [|discriminate].
    destruct (mapM simple_of r) as [os|e] eqn:Er; cbn [bind]; [|discriminate].
    intros [= <-]. cbn [combine mapM fst snd]. rewrite (IH os eq_refl). unfold spec_of. rewrite Eo. reflexivity.
Qed.

Lemma spec_of_rel q s : part_rt q -> simple_faithful q -> spec_of q = Ok s ->
  Rel q s /\ (olabel_pure (part_label q) = true -> json_pure s = true).
Proof.
  intros Hrt Hsf. unfold spec_of. destruct (simple_of q) as [[v|]|e] eqn:Es; cbn [bind]; [| |discriminate].
  - intros [= <-]. pose proof (Hsf v Es) as Hm. destruct (prim_ok v _ Hm) as [Hp Hd]. split; [|intros _; exact Hp].
    exists (PtPrim v). split; [destruct v; try reflexivity; discriminate Hd|rewrite Hd; exact Hm].
  - intros Hs. destruct (part_full_rt q Hrt) as (d & Hd & HR & HP). rewrite Hd in Hs. injection Hs as <-. split; assumption.
Qed.

Definition label_ok (q : part pyval) : Prop := olabel_pure (part_label q) = true.

Lemma specs_rel parts : Forall part_rt parts -> Forall simple_faithful parts -> forall specs, mapM spec_of parts = Ok specs ->
  Forall2 Rel parts specs /\ (Forall label_ok parts -> forallb json_pure specs = true).
Proof.
  induction parts as [|q r IH]; intros Hrt Hsf specs; cbn [mapM].
  - intros [= <-]. split; [constructor|reflexivity].
  - inversion Hrt as [|? ? Hq Hr]; subst. inversion Hsf as [|? ? Sq Sr]; subst.
    destruct (spec_of q) as [s|e] eqn:Eq; cbn [bind]; [|discriminate].
    destruct (mapM spec_of r) as [ss|e] eqn:Er; cbn [bind]; [|discriminate].
    intros [= <-]. destruct (spec_of_rel q s Hq Sq Eq) as [HR HP]. destruct (IH Hr Sr ss eq_refl) as [IR IP].
    split; [constructor; assumption|]. intros HL. inversion HL as [|? ? Lq Lr]; subst.
    cbn [forallb]. rewrite (HP Lq), (IP Lr). reflexivity.
Qed.

Definition is_simple (q : part pyval) : Prop := exists v, simple_of q = Ok (Some v).

Lemma concrete_nondict parts : Forall simple_faithful parts -> Forall is_simple parts ->
  forall specs, mapM spec_of parts = Ok specs -> forallb nondict specs = true.
Proof.
  induction parts as [|q r IH]; intros Hsf Hs specs; cbn [mapM].
  - intros [= <-]. reflexivity.
  - inversion Hsf as [|? ? Sq Sr]; subst. inversion Hs as [|? ? [v Hv] Hr]; subst.
    unfold spec_of at 1. rewrite Hv. cbn [bind].
    destruct (mapM spec_of r) as [ss|e] eqn:Er; cbn [bind]; [|discriminate].
    intros [= <-]. cbn [forallb]. rewrite (IH Sr Hr ss eq_refl).
    destruct (prim_ok v _ (Sq v Hv)) as [_ Hd]. destruct v; try reflexivity; discriminate Hd.
Qed.

(* a concrete path consists of abbreviated parts only (true of every path built by DataPath(...)) *)
Definition concrete_prims (p : dpath pyval) : Prop := p_concrete p = true -> Forall is_simple (p_parts p).

(* what the two guards of to_part_specs / _to_part_specs let through *)
Lemma inner_inv p s : path_part_specs_inner T X p = Ok s -> p_src p = None /\ path_part_specs_core T X p = Ok s.
Proof. unfold path_part_specs_inner. destruct (p_src p); [discriminate|]. intros H. split; [reflexivity|exact H]. Qed.

Lemma part_specs_inv p s : path_to_part_specs T X p = Ok s ->
  p_dt p = DtNone /\ p_mt p = MtNone /\ p_src p = None /\ path_part_specs_core T X p = Ok s.
Proof.
  unfold path_to_part_specs. destruct (p_dt p); try discriminate. destruct (p_mt p); try discriminate.
  intros H. destruct (inner_inv p s H) as [H1 H2]. repeat split; assumption.
Qed.

Lemma bare_path (p : dpath pyval) : p_dt p = DtNone -> p_mt p = MtNone -> p_src p = None ->
  Build_dpath (p_parts p) (p_concrete p) DtNone MtNone None = p.
Proof. destruct p as [ps c dt mt src]. cbn [p_parts p_concrete p_dt p_mt p_src]. intros -> -> ->. reflexivity. Qed.

(* THE MODULAR THEOREM (core: the part specs written by _to_part_specs, which to_spec uses too).
   For ANY path object p: if the conditions of its parts survive the condition round trip (cond_rt:
   C11 for stratum-0 conditions) and the simplify() shortcut is faithful on its parts, then whatever
   the serialiser of the parts returns is read back by from_part_specs as a path with EXACTLY the
   parts and the concreteness of p. *)
Theorem C12_core_modular p specs :
  Forall part_rt (p_parts p) -> Forall simple_faithful (p_parts p) -> concrete_prims p ->
  path_part_specs_core T X p = Ok (VList specs) ->
  exists pts, parts_from_specs T X cond0 specs = Ok pts /\ mk_parts T id0 pts = Ok (p_parts p, p_concrete p) /\
    from_part_specs T X specs = Ok {| pt_parts := pts; pt_mods := []; pt_src := None |} /\
    mk_path T idlit {| pt_parts := pts; pt_mods := []; pt_src := None |}
      = Ok (Build_dpath (p_parts p) (p_concrete p) DtNone MtNone None) /\
    (Forall label_ok (p_parts p) -> json_pure (VList specs) = true).
Proof.
  intros Hrt Hsf Hc H. unfold path_part_specs_core in H. unfold concrete_prims in Hc.
  destruct (mapM simple_of (p_parts p)) as [simples|e] eqn:Es; cbn [bind] in H; [|discriminate H].
  rewrite (specs_mapM _ _ Es) in H.
  destruct (mapM spec_of (p_parts p)) as [specs0|e] eqn:E0; cbn [bind] in H; [|discriminate H].
  destruct (specs_rel _ Hrt Hsf specs0 E0) as [HR HP].
  change (forallb (fun s : pyval => match s with VDict _ => false | _ => true end) specs0) with (forallb nondict specs0) in H.
  assert (Hfin : Forall2 Rel (p_parts p) specs /\ forallb nondict specs = p_concrete p /\
                 (Forall label_ok (p_parts p) -> forallb json_pure specs = true)).
  { destruct (p_concrete p) eqn:Ec; cbn [negb andb] in H.
    - injection H as <-. split; [exact HR|]. split; [|exact HP]. exact (concrete_nondict _ Hsf (Hc eq_refl) _ E0).
    - destruct (forallb nondict specs0) eqn:Ea.
      + destruct (p_parts p) as [|p0 ps] eqn:Ep; [discriminate H|]. destruct specs0 as [|s0' rest]; [discriminate H|].
        destruct (part_to_spec T X p0) as [s0|e] eqn:E1; cbn [bind] in H; [|discriminate H]. injection H as <-.
        inversion HR as [|? ? ? ? _ HRr]; subst. inversion Hrt as [|? ? Hq Hr]; subst.
        destruct (part_full_rt p0 Hq) as (d & Hd & HRd & HPd). rewrite Hd in E1. injection E1 as <-.
        split; [constructor; assumption|]. split; [reflexivity|].
        intros HL. inversion HL as [|? ? Lq Lr]; subst. pose proof (HP HL) as HP'.
        cbn [forallb] in HP' |- *. apply andb_true_iff in HP' as [_ HP']. rewrite (HPd Lq), HP'. reflexivity.
      + injection H as <-. split; [exact HR|]. split; [exact Ea|exact HP]. }
  destruct Hfin as (HF & Hn & Hpure).
  destruct (rel_parts _ _ HF) as (pts & Hp1 & Hp2).
  assert (Hmk : mk_path T id0 {| pt_parts := pts; pt_mods := []; pt_src := None |}
                = Ok (Build_dpath (p_parts p) (p_concrete p) DtNone MtNone None)).
  { unfold mk_path. cbn [pt_parts pt_mods pt_src]. rewrite Hp2. cbn [bind apply_mods]. rewrite Hn. reflexivity. }
  exists pts. split; [exact Hp1|]. split; [rewrite <- Hn; exact Hp2|]. split; [|split].
  - unfold from_part_specs, path_from_part_specs. rewrite Hp1. cbn [bind]. rewrite Hmk. reflexivity.
  - exact Hmk.
  - intros HL. cbn [json_pure]. exact (Hpure HL).
Qed.

(* DataPath.to_part_specs: a path with a datum type, a multiplicity or source data is refused
   (repaired: they used to be dropped silently), so what is written is read back as p ITSELF *)
Theorem C12_faithful_modular p specs :
  Forall part_rt (p_parts p) -> Forall simple_faithful (p_parts p) -> concrete_prims p ->
  path_to_part_specs T X p = Ok (VList specs) ->
  exists t', from_part_specs T X specs = Ok t' /\
    mk_path T idlit t' = Ok p /\
    (Forall label_ok (p_parts p) -> json_pure (VList specs) = true).
Proof.
  intros Hrt Hsf Hc H. destruct (part_specs_inv p _ H) as (Hdt & Hmt & Hsrc & Hcore).
  destruct (C12_core_modular p specs Hrt Hsf Hc Hcore) as (pts & _ & _ & H1 & H2 & H3).
  rewrite (bare_path p Hdt Hmt Hsrc) in H2. eexists. split; [exact H1|]. split; [exact H2|exact H3].
Qed.

(* ================================================================== *)
(* 6. the fragment: paths built through the API from typed parts        *)

(* Parts (PathSpec.spterm: primitives; MapValue / ListValue / MapOrListValue with key= / index= /
   value= / condition= arguments that are raw values or and/or/xor trees of typed DSL leaves; labels)
   such that: every condition tree stored in the built part is in the fragment of C11 and its JSON
   is inert (nothing in it can be taken for a path spec: spec_inert); the label is JSON data.
   (The simplify() guard that used to be a third conjunct is gone: since the repair it holds of every
   part, simple_guard_always / mpart_faithful.) *)
Definition spart_in_c12 (l : option pyval) (sp : spart) : bool :=
  match sp with
  | SPMap t | SPList t => ctree_ok t
  | SPMol c lc mc => ctree_ok c && ctree_ok lc && ctree_ok mc
  end && olabel_pure l.
Definition spterm_in_c12 (t : spterm) : bool :=
  spterm_ok t && match spart_of t with Ok (sp, _) => spart_in_c12 (label_of t) sp | Err _ => true end.
Definition path_in_c12 (st : spathterm) : bool := forallb spterm_in_c12 (st_parts st).

Lemma ctree_cond_rt t : ctree_ok t = true -> cond_rt (cond_of (qnorm t)).
Proof.
  intros H name. destruct (ctree_facts t H) as (Hj & Hp & tm & Hparse & Hb).
  destruct (q_is_null (qnorm t)) eqn:En.
  - apply q_is_null_eq in En. rewrite En. exists [], DNull.
    split; [reflexivity|]. split; [reflexivity|]. split; [reflexivity|]. left. repeat split.
  - assert (Hd : exists dj, tree_json (qnorm t) = VDict dj) by (destruct (qnorm t); eexists; reflexivity).
    destruct Hd as [dj Hd]. rewrite Hd in *. exists [(VStr name, VDict dj)], tm.
    split. { unfold opt_cond_entry. rewrite is_null_cond_of, En, Hj. reflexivity. }
    split; [exact Hb|]. split. { cbn [pure_ents forallb fst snd]. rewrite Hp. reflexivity. }
    right. exists dj. split; [reflexivity|exact Hparse].
Qed.

Lemma spart_of_false t sp : spart_of t = Ok (sp, false) -> exists v, t = SPrim v.
Proof.
  destruct t as [v|k v c l|i v c l|k i v lc mc c l]; [eexists; reflexivity| | |]; cbn [spart_of]; intros H; exfalso;
    repeat (match type of H with bind ?E _ = _ => destruct E; cbn [bind] in H; [|discriminate H] end); discriminate H.
Qed.

(* every API-built part: the shortcut is faithful, and a part given as a primitive is abbreviated *)
Lemma part_api t q ex : spterm_ok t = true -> mk_part T idlit (spterm_term t) = Ok (q, ex) ->
  simple_faithful q /\ (ex = false -> is_simple q) /\ exists sp, spart_of t = Ok (sp, ex) /\ q = mpart (label_of t) sp.
Proof.
  intros Hok Hm. pose proof (mk_part_spec t Hok) as Hspec. rewrite Hm in Hspec.
  destruct (spart_of t) as [[sp ex']|e] eqn:Esp; cbn [bind fst snd] in Hspec; [|discriminate Hspec].
  injection Hspec as -> ->. split; [apply mpart_faithful|]. split; [|exists sp; split; reflexivity].
  intros ->. destruct (spart_of_false t sp Esp) as [v ->]. exists v. apply prim_simple. exact Hm.
Qed.

Lemma parts_api ts : forallb spterm_ok ts = true -> forall ps conc,
  mk_parts T idlit (map spterm_term ts) = Ok (ps, conc) ->
  Forall simple_faithful ps /\ (conc = true -> Forall is_simple ps).
Proof.
  induction ts as [|t ts IH]; cbn [map mk_parts forallb]; intros Hin ps conc.
  - intros [= <- <-]. repeat split; constructor.
  - apply andb_true_iff in Hin as [Ht Hts].
    destruct (mk_part T idlit (spterm_term t)) as [[q ex]|e] eqn:Em; cbn [bind]; [|discriminate].
    destruct (mk_parts T idlit (map spterm_term ts)) as [[ps' c']|e] eqn:Er; cbn [bind]; [|discriminate].
    intros [= <- <-]. destruct (part_api t q ex Ht Em) as (G2 & G4 & _).
    destruct (IH Hts ps' c' eq_refl) as (I2 & I4).
    split; [constructor; assumption|].
    intros Hc. apply andb_true_iff in Hc as [Hex Hc']. apply negb_true_iff in Hex.
    constructor; [exact (G4 Hex)|exact (I4 Hc')].
Qed.

Lemma part_good t q ex : spterm_in_c12 t = true -> mk_part T idlit (spterm_term t) = Ok (q, ex) ->
  part_rt q /\ label_ok q.
Proof.
  unfold spterm_in_c12. intros H Hm. apply andb_true_iff in H as [Hok H].
  destruct (part_api t q ex Hok Hm) as (_ & _ & sp & Esp & ->). rewrite Esp in H.
  unfold spart_in_c12 in H. apply andb_true_iff in H as [Ht Hl].
  split; [|destruct sp; exact Hl].
  destruct sp as [t0|t0|c lc mc]; cbn [mpart part_rt].
  - exact (ctree_cond_rt _ Ht).
  - exact (ctree_cond_rt _ Ht).
  - apply andb_true_iff in Ht as [Ht H3]. apply andb_true_iff in Ht as [H1 H2].
    repeat split; apply ctree_cond_rt; assumption.
Qed.

Lemma in_c12_ok ts : forallb spterm_in_c12 ts = true -> forallb spterm_ok ts = true.
Proof.
  induction ts as [|t ts IH]; cbn [forallb]; [reflexivity|]. intros H. apply andb_true_iff in H as [Ht Hts].
  unfold spterm_in_c12 in Ht. apply andb_true_iff in Ht as [Ht _]. rewrite Ht, (IH Hts). reflexivity.
Qed.

Lemma parts_good ts : forallb spterm_in_c12 ts = true -> forall ps conc,
  mk_parts T idlit (map spterm_term ts) = Ok (ps, conc) ->
  Forall part_rt ps /\ Forall label_ok ps.
Proof.
  induction ts as [|t ts IH]; cbn [map mk_parts forallb]; intros Hin ps conc.
  - intros [= <- <-]. repeat split; constructor.
  - apply andb_true_iff in Hin as [Ht Hts].
    destruct (mk_part T idlit (spterm_term t)) as [[q ex]|e] eqn:Em; cbn [bind]; [|discriminate].
    destruct (mk_parts T idlit (map spterm_term ts)) as [[ps' c']|e] eqn:Er; cbn [bind]; [|discriminate].
    intros [= <- <-]. destruct (part_good t q ex Ht Em) as (G1 & G3).
    destruct (IH Hts ps' c' eq_refl) as (I1 & I3).
    split; constructor; assumption.
Qed.

Lemma apply_mods_parts {A} ms : forall (q p : dpath A), apply_mods q ms = Ok p ->
  p_parts p = p_parts q /\ p_concrete p = p_concrete q.
Proof.
  induction ms as [|m ms IH]; intros q p; cbn [apply_mods].
  - intros [= <-]. split; reflexivity.
  - destruct (apply_mod q m) as [q'|e] eqn:Em; cbn [bind]; [|discriminate]. intros H.
    destruct (IH q' p H) as [H1 H2]. rewrite H1, H2. clear -Em. unfold apply_mod in Em.
    destruct (dt_of_name m).
    + destruct (p_dt q); try discriminate Em. injection Em as <-. split; reflexivity.
    + destruct (mt_of_name m); [|discriminate Em]. destruct (p_mt q); try discriminate Em.
      destruct (p_concrete q); [discriminate Em|]. injection Em as <-. split; reflexivity.
Qed.

(* what holds of every path built through the API from typed parts *)
Lemma path_api st p : spathterm_ok st = true -> mk_path T idlit (spathterm_term st) = Ok p ->
  Forall simple_faithful (p_parts p) /\ concrete_prims p /\
  exists ps conc, mk_parts T idlit (map spterm_term (st_parts st)) = Ok (ps, conc) /\ p_parts p = ps /\ p_concrete p = conc.
Proof.
  intros Hok Hmk. unfold spathterm_ok in Hok.
  unfold mk_path in Hmk. cbn [spathterm_term pt_parts pt_mods pt_src] in Hmk.
  destruct (mk_parts T idlit (map spterm_term (st_parts st))) as [[ps conc]|e] eqn:Emp; cbn [bind] in Hmk; [|discriminate Hmk].
  destruct (parts_api _ Hok ps conc Emp) as (G2 & G4).
  destruct (apply_mods_parts _ _ _ Hmk) as [Hp Hc]. cbn [p_parts p_concrete] in Hp, Hc.
  split; [rewrite Hp; exact G2|]. split; [unfold concrete_prims; rewrite Hp, Hc; exact G4|].
  exists ps, conc. repeat split; assumption.
Qed.

Lemma path_good st p : path_in_c12 st = true -> mk_path T idlit (spathterm_term st) = Ok p ->
  Forall part_rt (p_parts p) /\ Forall label_ok (p_parts p) /\ Forall simple_faithful (p_parts p) /\ concrete_prims p.
Proof.
  intros Hin Hmk. unfold path_in_c12 in Hin.
  destruct (path_api st p (in_c12_ok _ Hin) Hmk) as (G2 & G4 & ps & conc & Emp & Hp & Hc).
  destruct (parts_good _ Hin ps conc Emp) as (G1 & G3). rewrite Hp. repeat split; try assumption. rewrite <- Hp. exact G2.
Qed.

(* C12 (1): the round trip on the fragment.  to_part_specs now refuses a path with a datum type, a
   multiplicity or source data, so whenever it returns, the specs are JSON data and are read back
   as a path == (indeed identical to) the original. *)
Theorem C12_roundtrip : forall st p specs,
  path_in_c12 st = true -> mk_path T idlit (spathterm_term st) = Ok p ->
  path_to_part_specs T X p = Ok (VList specs) ->
  json_pure (VList specs) = true /\
  exists t', from_part_specs T X specs = Ok t' /\ mk_path T idlit t' = Ok p.
Proof.
  intros st p specs Hin Hmk Hser.
  destruct (path_good st p Hin Hmk) as (G1 & G3 & G2 & Hcp).
  destruct (C12_faithful_modular p specs G1 G2 Hcp Hser) as (t' & Hparse & Hmk' & Hpure).
  split; [exact (Hpure G3)|]. exists t'. split; assumption.
Qed.

(* every document: the rebuilt path walks exactly as the original (same nodes, same concrete paths),
   get_data agrees, and the rebuilt path == the original *)
Corollary C12_roundtrip_selects : forall st p specs,
  path_in_c12 st = true -> mk_path T idlit (spathterm_term st) = Ok p ->
  path_to_part_specs T X p = Ok (VList specs) ->
  exists t' p', from_part_specs T X specs = Ok t' /\ mk_path T idlit t' = Ok p' /\
    (forall doc, walk_parts T res0 (p_parts p') true [doc] [] = walk_parts T res0 (p_parts p) true [doc] []) /\
    (forall data rp, get_data T res0 p' data rp = get_data T res0 p data rp) /\
    p' = p /\ (path_ok wf_val p -> path_eqb p' p = true).
Proof.
  intros st p specs Hin Hmk Hser.
  destruct (C12_roundtrip st p specs Hin Hmk Hser) as (_ & t' & H1 & H2).
  exists t', p. split; [exact H1|]. split; [exact H2|]. split; [reflexivity|]. split; [reflexivity|]. split; [reflexivity|].
  exact (C14_path_refl p).
Qed.

Lemma core_list p s : path_part_specs_core T X p = Ok s -> exists specs, s = VList specs.
Proof.
  unfold path_part_specs_core. intros H.
  destruct (mapM simple_of (p_parts p)) as [simples|e]; cbn [bind] in H; [|discriminate H].
  lazymatch type of H with bind ?E _ = _ => destruct E as [specs0|e] end; cbn [bind] in H; [|discriminate H].
  lazymatch type of H with (if ?b then _ else _) = _ => destruct b end.
  - destruct (p_parts p) as [|p0 ps]; [discriminate H|]. destruct specs0 as [|s0' rest]; [discriminate H|].
    destruct (part_to_spec T X p0) as [s0|e]; cbn [bind] in H; [|discriminate H]. injection H as <-. eexists; reflexivity.
  - injection H as <-. eexists; reflexivity.
Qed.

Lemma to_part_specs_list p s : path_to_part_specs T X p = Ok s -> exists specs, s = VList specs.
Proof. intros H. destruct (part_specs_inv p s H) as (_ & _ & _ & Hc). exact (core_list p s Hc). Qed.

(* C12 (2): for EVERY path built through the API from typed parts whose contained conditions survive
   the condition round trip (part_rt: C11 at stratum 0, with its own counterexamples, e.g. known
   finding D40), to_part_specs either raises, or what it returns is read back as the original path.
   No guard on simplify() is needed any more. *)
Theorem C12_refuses_or_faithful : forall st p,
  spathterm_ok st = true -> mk_path T idlit (spathterm_term st) = Ok p -> Forall part_rt (p_parts p) ->
  (exists e, path_to_part_specs T X p = Err e) \/
  (exists specs t', path_to_part_specs T X p = Ok (VList specs) /\
     from_part_specs T X specs = Ok t' /\ mk_path T idlit t' = Ok p).
Proof.
  intros st p Hok Hmk Hrt. destruct (path_to_part_specs T X p) as [s|e] eqn:E; [|left; eexists; reflexivity].
  destruct (to_part_specs_list p s E) as [specs ->]. right.
  destruct (path_api st p Hok Hmk) as (G2 & Hcp & _).
  destruct (C12_faithful_modular p specs Hrt G2 Hcp E) as (t' & H1 & H2 & _).
  exists specs, t'. repeat split; assumption.
Qed.

(* the same on the fragment (no hypothesis on the conditions), in the form of the former statement *)
Theorem C12_refuses_or_faithful_partial : forall st p,
  path_in_c12 st = true -> mk_path T idlit (spathterm_term st) = Ok p ->
  (exists e, path_to_part_specs T X p = Err e) \/
  (exists specs t' p', path_to_part_specs T X p = Ok (VList specs) /\
     from_part_specs T X specs = Ok t' /\ mk_path T idlit t' = Ok p' /\ p' = p /\
     forall doc, walk_parts T res0 (p_parts p') true [doc] [] = walk_parts T res0 (p_parts p) true [doc] []).
Proof.
  intros st p Hin Hmk. destruct (path_good st p Hin Hmk) as (G1 & _).
  destruct (C12_refuses_or_faithful st p (in_c12_ok _ Hin) Hmk G1) as [H|(specs & t' & H1 & H2 & H3)]; [left; exact H|].
  right. exists specs, t', p. repeat split; assumption.
Qed.

(* ================================================================== *)
(* 7. non-vacuity                                                       *)

(* DataPath("a", MapValue(key=1), ListValue(value=Value.gt(1), condition=Index.lt(3) | Index.eq(7), label="lbl"),
            MapOrListValue(key=2, index=2), MapValue(condition=Key.in_(["x", "y"]) & Value.dtype.equal_to(int)), 0) *)
Definition ex12_st : spathterm :=
  {| st_parts := [SPrim (VStr "a");
                  STMap (Some (SLit (VInt 1))) None None None;
                  STList None (Some (SCond (QLeaf SValue (Q_greater_than (VInt 1)))))
                         (Some (SCond (QBin BoOr (QLeaf SIndex (Q_less_than (VInt 3))) (QLeaf SIndex (Q_equal_to (VInt 7))))))
                         (Some (VStr "lbl"));
                  STMol (Some (SLit (VInt 2))) (Some (SLit (VInt 2))) None None None None None;
                  STMap None None (Some (SCond (QBin BoAnd (QLeaf SKey (Q_in (VList [VStr "x"; VStr "y"])))
                                                            (QLeaf SValueDataType (Q_equal_to (VType TInt)))))) None;
                  SPrim (VInt 0)];
     st_mods := []; st_src := None |}.

Example ex12_in : path_in_c12 ex12_st = true.
Proof. vm_compute. reflexivity. Qed.

Example ex12_specs :
  run_to_part_specs (spathterm_term ex12_st) =
  Ok (VList [VStr "a";
             VDict [(VStr "type", VStr "map_value"); (VStr "condition", VDict [(VStr "key.equal_to", VInt 1)])];
             VDict [(VStr "type", VStr "list_value");
                    (VStr "condition", VDict [(VStr "and", VList [
                        VDict [(VStr "or", VList [VDict [(VStr "index.less_than", VInt 3)]; VDict [(VStr "index.equal_to", VInt 7)]])];
                        VDict [(VStr "value.greater_than", VInt 1)]])]);
                    (VStr "label", VStr "lbl")];
             VInt 2;
             VDict [(VStr "type", VStr "map_value");
                    (VStr "condition", VDict [(VStr "and", VList [
                        VDict [(VStr "key.in_", VList [VStr "x"; VStr "y"])];
                        VDict [(VStr "value.dtype.equal_to", VStr "int")]])])];
             VInt 0]).
Proof. vm_compute. reflexivity. Qed.

(* ================================================================== *)
(* 8. the former counterexamples (defects of simplify() / to_part_specs, now repaired): what the   *)
(*    repaired model does on the very same inputs                                                   *)

(* round trip of an API term on a document:
   (specs written, rebuilt == original, original.get_data(doc, return_paths=True), rebuilt.get_data(...)) *)
Definition rt12 (t : pathterm pyval) (doc : pyval) : res (pyval * bool * res pyval * res pyval) :=
  let* p := mk_path T idlit t in
  let* s := path_to_part_specs T X p in
  match s with
  | VList specs =>
      let* t' := from_part_specs T X specs in
      let* p' := mk_path T idlit t' in
      Ok (s, path_eqb p' p, run_get t (Some doc) true, run_get t' (Some doc) true)
  | _ => Err OtherExc
  end.

Definition one_point_zero : pyval := VFloat false 1 0.
Definition mv_1 : pterm pyval := PtMap (Some (KLit (VInt 1))) None None None.                         (* MapValue(1) *)
Definition eq_cond (cls : string) (v : pyval) : option (carg pyval) := Some (KCond (DLeaf cls "equal_to" [v] [])).
(* MapOrListValue(list_condition=Index.equal_to(v), map_condition=Key.equal_to(v)) *)
Definition mol_eq (v : pyval) : pterm pyval := PtMol None None None (eq_cond "Index" v) (eq_cond "Key" v) None None.
Definition path_of (l : list (pterm pyval)) : pathterm pyval := {| pt_parts := l; pt_mods := []; pt_src := None |}.
Definition doc12 : pyval := VDict [(VInt 1, VList [VInt 5; VInt 6])].                               (* {1: [5, 6]} *)
Definition spec_mv_1 : pyval :=
  VDict [(VStr "type", VStr "map_value"); (VStr "condition", VDict [(VStr "key.equal_to", VInt 1)])].
(* the part written in full *)
Definition spec_mol_eq (v : pyval) : pyval :=
  VDict [(VStr "type", VStr "map_or_list_value");
         (VStr "list_condition", VDict [(VStr "index.equal_to", v)]);
         (VStr "map_condition", VDict [(VStr "key.equal_to", v)])].

(* (a) was: a silent change of meaning.  DataPath(MapValue(1), MapOrListValue(key=1.0, index=1.0)) was written
   as [{...}, 1.0] and the bare 1.0 read back as MapValue(1.0), which no longer selects list item 1.
   REPAIRED: the part is written in full; the rebuilt path == the original and selects (6, (1, 1)) on {1: [5, 6]}. *)
Example C12_repaired_float_index :
  rt12 (path_of [mv_1; PtMol (Some (KLit one_point_zero)) (Some (KLit one_point_zero)) None None None None None]) doc12
  = Ok (VList [spec_mv_1; spec_mol_eq one_point_zero], true,
        Ok (VList [VTuple [VInt 6; VTuple [VInt 1; VInt 1]]]), Ok (VList [VTuple [VInt 6; VTuple [VInt 1; VInt 1]]])).
Proof. vm_compute. reflexivity. Qed.

(* (b) was: a silent change of meaning (the bare {} was read as an unconditional MapOrListValue).
   REPAIRED: written in full, read back == the original, which selects nothing. *)
Example C12_repaired_mapping_value :
  rt12 (path_of [mv_1; mol_eq (VDict [])]) doc12
  = Ok (VList [spec_mv_1; spec_mol_eq (VDict [])], true, Ok (VList []), Ok (VList [])).
Proof. vm_compute. reflexivity. Qed.

(* (c) was: MapOrListValue(index="a", key="a") came back as MapValue("a"), not == .  REPAIRED. *)
Example C12_repaired_str :
  rt12 (path_of [mv_1; mol_eq (VStr "a")]) doc12
  = Ok (VList [spec_mv_1; spec_mol_eq (VStr "a")], true, Ok (VList []), Ok (VList [])).
Proof. vm_compute. reflexivity. Qed.

(* (d) was: what was written could not be read back (TypeError): None and list values.  REPAIRED. *)
Example C12_repaired_none :
  rt12 (path_of [mv_1; mol_eq VNone]) doc12
  = Ok (VList [spec_mv_1; spec_mol_eq VNone], true, Ok (VList []), Ok (VList [])).
Proof. vm_compute. reflexivity. Qed.
Example C12_repaired_list :
  rt12 (path_of [mv_1; mol_eq (VList [VInt 1])]) doc12
  = Ok (VList [spec_mv_1; spec_mol_eq (VList [VInt 1])], true, Ok (VList []), Ok (VList [])).
Proof. vm_compute. reflexivity. Qed.

(* int and bool are still abbreviated *)
Example C12_guard_int :
  rt12 (path_of [mv_1; mol_eq (VInt 1)]) doc12
  = Ok (VList [spec_mv_1; VInt 1], true,
        Ok (VList [VTuple [VInt 6; VTuple [VInt 1; VInt 1]]]), Ok (VList [VTuple [VInt 6; VTuple [VInt 1; VInt 1]]])).
Proof. vm_compute. reflexivity. Qed.
Example C12_guard_bool :
  rt12 (path_of [mv_1; mol_eq (VBool true)]) doc12
  = Ok (VList [spec_mv_1; VBool true], true,
        Ok (VList [VTuple [VInt 6; VTuple [VInt 1; VInt 1]]]), Ok (VList [VTuple [VInt 6; VTuple [VInt 1; VInt 1]]])).
Proof. vm_compute. reflexivity. Qed.

(* (e) was: datum type / multiplicity / source data were dropped silently by to_part_specs.
   REPAIRED: such a path is refused (ValueError); to_spec keeps the two modifiers in its key and
   refuses source data only. *)
Definition path_a (mods : list string) (src : option pyval) : pathterm pyval :=
  {| pt_parts := [PtMap (Some (KLit (VStr "a"))) None None None]; pt_mods := mods; pt_src := src |}.
Example C12_mods_refused :
  (let* p := mk_path T idlit (path_a ["length"] None) in path_to_part_specs T X p) = Err ValueError.
Proof. vm_compute. reflexivity. Qed.
Example C12_src_refused :
  (let* p := mk_path T idlit (path_a [] (Some (VDict [(VStr "a", VInt 1)]))) in path_to_part_specs T X p) = Err ValueError
  /\ (let* p := mk_path T idlit (path_a [] (Some (VDict [(VStr "a", VInt 1)]))) in path_to_spec T X p) = Err ValueError.
Proof. split; vm_compute; reflexivity. Qed.

(* in general: exactly the paths without datum type, multiplicity and source data get past the guards *)
Lemma C12_refusal p : (p_dt p <> DtNone \/ p_mt p <> MtNone \/ p_src p <> None) -> path_to_part_specs T X p = Err ValueError.
Proof.
  unfold path_to_part_specs, path_part_specs_inner. intros [H|[H|H]].
  - destruct (p_dt p); try reflexivity. contradiction.
  - destruct (p_dt p); try reflexivity. destruct (p_mt p); try reflexivity. contradiction.
  - destruct (p_dt p); try reflexivity. destruct (p_mt p); try reflexivity. destruct (p_src p); [reflexivity|contradiction].
Qed.

(* ================================================================== *)
(* 9. totality on the fragment, and the one-entry mapping form (to_spec / from_spec)              *)

(* simplify() does not fail on an API-built part *)
Definition simple_total (q : part pyval) : Prop := exists o, simple_of q = Ok o.

Lemma leaf_kw n ll c : single_leaf (cond_of n) = Some ll ->
  String.eqb (l_cls ll) c && String.eqb (l_call ll) "equal_to" = true -> exists v, kw_value ll = Some v.
Proof.
  destruct n as [cl q| |o a b]; cbn [cond_of single_leaf CNull]; [| |discriminate].
  - intros [= <-]. rewrite C11Proof.expected_call. intros H. apply andb_true_iff in H as [_ H].
    destruct q; try discriminate H. eexists. reflexivity.
  - intros [= <-]. intros H. apply andb_true_iff in H as [_ H]. discriminate H.
Qed.

Lemma mpart_simple_total l sp : simple_total (mpart l sp).
Proof.
  unfold simple_total. destruct sp as [t|t|c lc mc]; cbn [mpart].
  - destruct l; [eexists; reflexivity|]. cbn [simple_of].
    destruct (single_leaf (cond_of (qnorm t))) as [ll|] eqn:El; [|eexists; reflexivity].
    destruct (_ && _) eqn:E; [|eexists; reflexivity].
    destruct (leaf_kw _ _ _ El E) as [v ->]. destruct v; eexists; reflexivity.
  - eexists; reflexivity.
  - destruct l; [eexists; reflexivity|]. cbn [simple_of].
    destruct (is_null _); [|eexists; reflexivity].
    destruct (single_leaf (cond_of (qnorm lc))) as [ll|] eqn:El; [|eexists; reflexivity].
    destruct (single_leaf (cond_of (qnorm mc))) as [ml|] eqn:Em; [|eexists; reflexivity].
    destruct (_ && _) eqn:E; [|eexists; reflexivity].
    apply andb_true_iff in E as [E E4]. apply andb_true_iff in E as [E E3]. apply andb_true_iff in E as [E1 E2].
    destruct (leaf_kw _ _ "Index" El) as [lv ->]; [rewrite E1, E2; reflexivity|].
    destruct (leaf_kw _ _ "Key" Em) as [mv ->]; [rewrite E3, E4; reflexivity|].
    destruct lv; try (eexists; reflexivity); destruct (_ && _); eexists; reflexivity.
Qed.

Lemma spec_of_total q : part_rt q -> simple_total q -> exists s, spec_of q = Ok s.
Proof.
  intros Hrt [o Ho]. unfold spec_of. rewrite Ho. cbn [bind]. destruct o as [v|]; [eexists; reflexivity|].
  destruct (part_full_rt q Hrt) as (d & Hd & _). rewrite Hd. eexists; reflexivity.
Qed.

Lemma mapM_total {A B} (f : A -> res B) (P : A -> Prop) l : (forall x, P x -> exists y, f x = Ok y) ->
  Forall P l -> exists ys, mapM f l = Ok ys /\ List.length ys = List.length l.
Proof.
  intros Hf. induction 1 as [|x l Hx Hl (ys & IH & Hlen)]; [exists []; split; reflexivity|].
  destruct (Hf x Hx) as [y Hy]. exists (y :: ys). cbn [mapM]. rewrite Hy. cbn [bind]. rewrite IH. cbn [bind List.length].
  split; [reflexivity|]. rewrite Hlen. reflexivity.
Qed.

(* the serialiser of the parts does not fail when every part is serialisable *)
Lemma core_total p : Forall part_rt (p_parts p) -> Forall simple_total (p_parts p) ->
  (p_parts p = [] -> p_concrete p = true) ->
  exists specs, path_part_specs_core T X p = Ok (VList specs).
Proof.
  intros Hrt Hst Hne. unfold path_part_specs_core.
  destruct (mapM_total simple_of simple_total (p_parts p) (fun x H => H) Hst) as (simples & Es & _).
  rewrite Es. cbn [bind]. rewrite (specs_mapM _ _ Es).
  assert (Hboth : Forall (fun q => part_rt q /\ simple_total q) (p_parts p)).
  { clear -Hrt Hst. induction Hrt as [|q r Hq Hr IH]; [constructor|]. inversion Hst; subst. constructor; [split; assumption|auto]. }
  destruct (mapM_total spec_of _ (p_parts p) (fun x H => spec_of_total x (proj1 H) (proj2 H)) Hboth) as (specs0 & E0 & Hlen).
  rewrite E0. cbn [bind].
  lazymatch goal with |- exists specs, (if ?b then _ else _) = _ => destruct b eqn:Eb end; [|eexists; reflexivity].
  destruct (p_parts p) as [|p0 ps] eqn:Ep.
  - rewrite (Hne eq_refl) in Eb. discriminate Eb.
  - destruct specs0 as [|s0' rest]; [discriminate Hlen|].
    inversion Hrt as [|? ? Hq _]; subst. destruct (part_full_rt p0 Hq) as (d & Hd & _). rewrite Hd. eexists; reflexivity.
Qed.

Lemma apply_mods_inv {A} ms : forall (q p : dpath A), apply_mods q ms = Ok p ->
  C10Proof.mt_set (p_mt q) && p_concrete q = false -> C10Proof.mt_set (p_mt p) && p_concrete p = false /\ p_src p = p_src q.
Proof.
  induction ms as [|m ms IH]; intros q p; cbn [apply_mods].
  - intros [= <-] H. split; [exact H|reflexivity].
  - destruct (apply_mod q m) as [q'|e] eqn:Em; cbn [bind]; [|discriminate]. intros H Hq.
    assert (Hq' : C10Proof.mt_set (p_mt q') && p_concrete q' = false /\ p_src q' = p_src q).
    { clear -Em Hq. unfold apply_mod in Em. destruct (dt_of_name m).
      - destruct (p_dt q); try discriminate Em. injection Em as <-. split; [exact Hq|reflexivity].
      - destruct (mt_of_name m); [|discriminate Em]. destruct (p_mt q); try discriminate Em.
        destruct (p_concrete q) eqn:Ec; [discriminate Em|]. injection Em as <-. cbn [p_mt p_concrete p_src].
        split; [apply andb_false_r|reflexivity]. }
    destruct Hq' as [Hq1 Hq2]. destruct (IH q' p H Hq1) as [I1 I2]. split; [exact I1|]. rewrite I2. exact Hq2.
Qed.

Lemma mk_parts_nil {A} (lit : pyval -> A) ts conc : mk_parts T lit ts = Ok ([], conc) -> conc = true.
Proof.
  destruct ts as [|t r]; cbn [mk_parts]; [intros [= <-]; reflexivity|].
  destruct (mk_part T lit t) as [[q ex]|e]; cbn [bind]; [|discriminate].
  destruct (mk_parts T lit r) as [[ps c]|e]; cbn [bind]; discriminate.
Qed.

Lemma parts_total ts : forallb spterm_ok ts = true -> forall ps conc,
  mk_parts T idlit (map spterm_term ts) = Ok (ps, conc) -> Forall simple_total ps.
Proof.
  induction ts as [|t ts IH]; cbn [map mk_parts forallb]; intros Hin ps conc.
  - intros [= <- <-]. constructor.
  - apply andb_true_iff in Hin as [Ht Hts].
    destruct (mk_part T idlit (spterm_term t)) as [[q ex]|e] eqn:Em; cbn [bind]; [|discriminate].
    destruct (mk_parts T idlit (map spterm_term ts)) as [[ps' c']|e] eqn:Er; cbn [bind]; [|discriminate].
    intros [= <- <-]. destruct (part_api t q ex Ht Em) as (_ & _ & sp & _ & ->).
    constructor; [apply mpart_simple_total|exact (IH Hts ps' c' eq_refl)].
Qed.

(* on the fragment to_part_specs refuses EXACTLY the paths with a datum type, a multiplicity or
   source data (C12_refusal is the converse, for any path object) *)
Theorem C12_accepts : forall st p,
  path_in_c12 st = true -> mk_path T idlit (spathterm_term st) = Ok p ->
  p_dt p = DtNone -> p_mt p = MtNone -> p_src p = None ->
  exists specs, path_to_part_specs T X p = Ok (VList specs).
Proof.
  intros st p Hin Hmk Hdt Hmt Hs.
  destruct (path_good st p Hin Hmk) as (G1 & _).
  destruct (path_api st p (in_c12_ok _ Hin) Hmk) as (_ & _ & ps & conc & Emp & Hp & Hc).
  assert (Hst : Forall simple_total (p_parts p)) by (rewrite Hp; exact (parts_total _ (in_c12_ok _ Hin) ps conc Emp)).
  assert (Hne : p_parts p = [] -> p_concrete p = true).
  { rewrite Hp, Hc. intros ->. exact (mk_parts_nil _ _ _ Emp). }
  destruct (core_total p G1 Hst Hne) as [specs Hcore]. exists specs.
  unfold path_to_part_specs, path_part_specs_inner. rewrite Hdt, Hmt, Hs. exact Hcore.
Qed.

(* ---- target (3): DataPath.to_spec / DataPath.from_spec ---- *)

(* the key written by to_spec: "path", then the multiplicity, then the datum type *)
Definition spec_key (dt : datum_type) (mt : multi_type) : string :=
  str_join "." ("path" :: (match mt_name mt with Some m => [m] | None => [] end)
                       ++ (match dt_name dt with Some d => [d] | None => [] end)).

Lemma spec_key_sem dt mt v :
  C10Proof.path_sem (path_from_spec T X (VDict [(VStr (spec_key dt mt), v)])) = C10Proof.suffix_result dt mt v.
Proof.
  destruct dt; destruct mt.
  all: try (apply C10Proof.suffix_none; vm_compute; reflexivity).
  all: try (match goal with |- context [spec_key ?d MtNone] =>
         match eval vm_compute in (dt_name d) with Some ?a => apply (C10Proof.suffix_dt _ v a d); vm_compute; reflexivity end end).
  all: try (match goal with |- context [spec_key DtNone ?m] =>
         match eval vm_compute in (mt_name m) with Some ?b => apply (C10Proof.suffix_mt _ v b m); vm_compute; reflexivity end end).
  all: match goal with |- context [spec_key ?d ?m] =>
         match eval vm_compute in (dt_name d) with Some ?a =>
         match eval vm_compute in (mt_name m) with Some ?b => apply (C10Proof.suffix_mt_dt _ v a b d m); vm_compute; reflexivity end end end.
Qed.

(* C12 (3), modular: for EVERY path built through the API from typed parts, with any modifiers and no
   source data, whose contained conditions survive the condition round trip (part_rt): to_spec returns
   the one-entry mapping {"path[.multi][.dtype]": [part specs]}, which from_spec reads back as a term that
   builds the ORIGINAL path (parts, concreteness, datum type, multiplicity); it is JSON data when the
   labels are. *)
Theorem C12_spec_form_modular : forall st p,
  spathterm_ok st = true -> st_src st = None -> mk_path T idlit (spathterm_term st) = Ok p ->
  Forall part_rt (p_parts p) ->
  exists specs,
    path_to_spec T X p = Ok (VDict [(VStr (spec_key (p_dt p) (p_mt p)), VList specs)]) /\
    (Forall label_ok (p_parts p) -> json_pure (VDict [(VStr (spec_key (p_dt p) (p_mt p)), VList specs)]) = true) /\
    exists t', path_from_spec T X (VDict [(VStr (spec_key (p_dt p) (p_mt p)), VList specs)]) = Ok (inl t') /\
               mk_path T idlit t' = Ok p.
Proof.
  intros st p Hok Hsrc Hmk G1.
  destruct (path_api st p Hok Hmk) as (G2 & Hcp & ps & conc & Emp & Hp & Hc).
  assert (Hinv : C10Proof.mt_set (p_mt p) && p_concrete p = false /\ p_src p = None).
  { unfold mk_path in Hmk. cbn [spathterm_term pt_parts pt_mods pt_src] in Hmk. rewrite Emp in Hmk. cbn [bind] in Hmk.
    destruct (apply_mods_inv _ _ _ Hmk eq_refl) as [I1 I2]. split; [exact I1|]. rewrite I2. exact Hsrc. }
  destruct Hinv as [Hinv Hs].
  assert (Hst : Forall simple_total (p_parts p)) by (rewrite Hp; exact (parts_total _ Hok ps conc Emp)).
  assert (Hne : p_parts p = [] -> p_concrete p = true).
  { rewrite Hp, Hc. intros ->. exact (mk_parts_nil _ _ _ Emp). }
  destruct (core_total p G1 Hst Hne) as [specs Hcore].
  destruct (C12_core_modular p specs G1 G2 Hcp Hcore) as (pts & _ & _ & Hfp & Hmk0 & Hpure).
  exists specs. split; [|split].
  - unfold path_to_spec, path_part_specs_inner. rewrite Hs, Hcore. reflexivity.
  - intros G3. rewrite json_pure_dict. cbn [pure_ents forallb fst snd]. rewrite (Hpure G3). reflexivity.
  - pose proof (spec_key_sem (p_dt p) (p_mt p) (VList specs)) as Hsem.
    unfold C10Proof.suffix_result in Hsem. cbn [py_iter bind] in Hsem. rewrite Hfp in Hsem. cbn [bind] in Hsem.
    rewrite Hmk0 in Hsem. cbn [bind p_parts p_concrete] in Hsem. rewrite Hinv in Hsem.
    assert (Hp' : Build_dpath (p_parts p) (p_concrete p) (p_dt p) (p_mt p) None = p).
    { destruct p as [a b c d e]. cbn [p_src] in Hs. subst e. reflexivity. }
    rewrite Hp' in Hsem. unfold C10Proof.path_sem in Hsem.
    destruct (path_from_spec T X _) as [[t'|w]|e]; cbn [bind] in Hsem; [|discriminate Hsem|discriminate Hsem].
    destruct (mk_path T idlit t') as [p'|e] eqn:E'; cbn [bind] in Hsem; [|discriminate Hsem].
    injection Hsem as ->. exists t'. split; [reflexivity|exact E'].
Qed.

(* C12 (3) on the fragment: no hypothesis on the conditions; the mapping is JSON data.
   A path with source data is refused (C12_spec_src_refused). *)
Theorem C12_spec_form : forall st p,
  path_in_c12 st = true -> st_src st = None -> mk_path T idlit (spathterm_term st) = Ok p ->
  exists specs,
    path_to_spec T X p = Ok (VDict [(VStr (spec_key (p_dt p) (p_mt p)), VList specs)]) /\
    json_pure (VDict [(VStr (spec_key (p_dt p) (p_mt p)), VList specs)]) = true /\
    exists t', path_from_spec T X (VDict [(VStr (spec_key (p_dt p) (p_mt p)), VList specs)]) = Ok (inl t') /\
               mk_path T idlit t' = Ok p.
Proof.
  intros st p Hin Hsrc Hmk.
  destruct (path_good st p Hin Hmk) as (G1 & G3 & _).
  destruct (C12_spec_form_modular st p (in_c12_ok _ Hin) Hsrc Hmk G1) as (specs & H1 & H2 & H3).
  exists specs. split; [exact H1|]. split; [exact (H2 G3)|exact H3].
Qed.

Lemma C12_spec_src_refused p s : p_src p = Some s -> path_to_spec T X p = Err ValueError.
Proof. intros H. unfold path_to_spec, path_part_specs_inner. rewrite H. reflexivity. Qed.

Example spec_key_example : spec_key DtLength MtFirst = "path.first.length" /\ spec_key DtNone MtNone = "path".
Proof. vm_compute. split; reflexivity. Qed.

(* evaluated on the example with both modifiers: key, purity, rebuilt == original *)
Definition rt12_spec (t : pathterm pyval) : res (list pyval * bool * bool) :=
  let* p := mk_path T idlit t in
  let* j := path_to_spec T X p in
  let* r := path_from_spec T X j in
  match r with
  | inl t' => let* p' := mk_path T idlit t' in
              Ok (match j with VDict d => map fst d | _ => [] end, json_pure j, path_eqb p' p)
  | inr _ => Err OtherExc
  end.

Example ex12_spec_form :
  rt12_spec {| pt_parts := pt_parts (spathterm_term ex12_st); pt_mods := ["length"; "first"]; pt_src := None |}
  = Ok ([VStr "path.first.length"], true, true).
Proof. vm_compute. reflexivity. Qed.

Print Assumptions C12_roundtrip.
Print Assumptions C12_roundtrip_selects.
Print Assumptions C12_faithful_modular.
Print Assumptions C12_core_modular.
Print Assumptions C12_refuses_or_faithful.
Print Assumptions C12_refuses_or_faithful_partial.
Print Assumptions mpart_faithful.
Print Assumptions C12_accepts.
Print Assumptions C12_spec_form_modular.
Print Assumptions C12_spec_form.
Print Assumptions guard_faithful.
