(* Proofs about TreeCond.v: how the facts used by the model of Schema.to_tree (Tree.v) come from a rule's condition
   (ConditionLike.flatten, get_always_applicable_key_conditions, the key loop of to_tree), and the end-to-end form of
   property C20 "a key is flagged required exactly when an always-applicable required_keys condition names it".

   Main theorems (all closed under the global context, see the end of the file):
     T1  flatten_ops_inorder, flatten_ops_perm, flatten_ops_count, always_applicable_all_and, all_and_spec
           the symbols of flatten are exactly the operators of the CBin nodes (in-order); "always applicable" = every
           CBin node is an `and`
     T2  flatten_leaves            the conditions of flatten are the leaves, left to right (Cond.leaves)
     T3  key_facts_spec            membership in key_facts, in terms of the tree
     T4  key_facts_swap, always_applicable_swap, reorder_always_applicable, reorder_key_facts, reorder_type_like
           swapping operands anywhere / re-associating changes key_facts (and the type-like lists) by a permutation only
     T5  C20_required_from_conditions      the IFF of Proofs/TreeProof.T5_flat_tree_required stated on conditions
         C20_required_from_conditions_fn   the same with the middle component (str of the key part) a function of the key:
                                           both sides purely about the conditions *)
From Coq Require Import ZArith NArith List Bool String Lia Permutation.
From Valida Require Import Py Lang Defs Cond Tree TreeCond.
From Valida.Proofs Require Import TreeProof.
Import ListNotations.
Local Open Scope string_scope.
Local Open Scope list_scope.

(* ---------- helper definitions (structural) ---------- *)
Section Defs.
  Variable A : Type.
  (* operators of the CBin nodes: in-order and pre-order *)
  Fixpoint ops_inorder (c : cond A) : list bop :=
    match c with CLeaf _ => [] | CBin o a b => ops_inorder a ++ o :: ops_inorder b end.
  Fixpoint ops_preorder (c : cond A) : list bop :=
    match c with CLeaf _ => [] | CBin o a b => o :: ops_preorder a ++ ops_preorder b end.
  (* every CBin node is an `and` *)
  Fixpoint all_and (c : cond A) : bool :=
    match c with CLeaf _ => true | CBin o a b => is_and o && all_and a && all_and b end.
  (* the same as a predicate on the nodes *)
  Inductive bin_node : cond A -> bop -> Prop :=
  | bn_here o a b : bin_node (CBin o a b) o
  | bn_left o a b o' : bin_node a o' -> bin_node (CBin o a b) o'
  | bn_right o a b o' : bin_node b o' -> bin_node (CBin o a b) o'.
End Defs.
Arguments ops_inorder {A}. Arguments ops_preorder {A}. Arguments all_and {A}. Arguments bin_node {A}.

Example all_and_example :
  all_and (CBin BoAnd (CBin BoAnd (CLeaf ex_a) (CLeaf ex_b)) (CLeaf ex_c)) = true
  /\ all_and (CBin BoAnd (CLeaf ex_a) (CBin BoAnd (CLeaf ex_c) (CBin BoOr (CLeaf ex_b) (CLeaf ex_d)))) = false.
Proof. vm_compute. split; reflexivity. Qed.

(* ---------- list facts missing from the standard library ---------- *)
Lemma Permutation_filter' {X} (f : X -> bool) l l' : Permutation l l' -> Permutation (filter f l) (filter f l').
Proof.
  induction 1 as [|x l l' HP IH|x y l|l l' l'' H1 IH1 H2 IH2]; cbn [filter].
  - constructor.
  - destruct (f x); [constructor|]; assumption.
  - destruct (f x), (f y); try apply Permutation_refl. apply perm_swap.
  - eapply Permutation_trans; eassumption.
Qed.
Lemma forallb_perm {X} (f : X -> bool) l l' : Permutation l l' -> forallb f l = forallb f l'.
Proof.
  induction 1 as [|x l l' HP IH|x y l|l l' l'' H1 IH1 H2 IH2]; cbn [forallb].
  - reflexivity.
  - now rewrite IH.
  - destruct (f x), (f y); reflexivity.
  - congruence.
Qed.

Section Proofs.
  Variable A : Type.
  Implicit Types (c a b : cond A) (l : leaf A).

  (* ================= T1: the symbols ================= *)
  Theorem flatten_ops_inorder c : snd (flatten c) = ops_inorder c.
  Proof. induction c as [l|o a IHa b IHb]; cbn [flatten ops_inorder fst snd app]; [reflexivity|]. now rewrite IHa, IHb. Qed.

  Theorem flatten_ops_perm c : Permutation (snd (flatten c)) (ops_preorder c).
  Proof.
    rewrite flatten_ops_inorder.
    induction c as [l|o a IHa b IHb]; cbn [ops_inorder ops_preorder]; [constructor|].
    apply Permutation_sym, Permutation_cons_app, Permutation_sym, Permutation_app; assumption.
  Qed.

  (* T2 *)
  Theorem flatten_leaves c : fst (flatten c) = leaves c.
  Proof. induction c as [l|o a IHa b IHb]; cbn [flatten leaves fst snd]; [reflexivity|]. now rewrite IHa, IHb. Qed.

  (* one symbol less than conditions *)
  Theorem flatten_ops_count c : S (List.length (snd (flatten c))) = List.length (fst (flatten c)).
  Proof.
    induction c as [l|o a IHa b IHb]; cbn [flatten fst snd]; [reflexivity|].
    rewrite !app_length. cbn [List.length]. lia.
  Qed.

  Lemma always_applicable_forallb c : always_applicable c = forallb is_and (ops_inorder c).
  Proof. unfold always_applicable. rewrite flatten_ops_inorder. destruct (ops_inorder c); reflexivity. Qed.

  Lemma forallb_ops_all_and c : forallb is_and (ops_inorder c) = all_and c.
  Proof.
    induction c as [l|o a IHa b IHb]; cbn [ops_inorder all_and forallb]; [reflexivity|].
    rewrite forallb_app. cbn [forallb]. rewrite IHa, IHb.
    destruct (is_and o), (all_and a), (all_and b); reflexivity.
  Qed.

  Theorem always_applicable_all_and c : always_applicable c = all_and c.
  Proof. rewrite always_applicable_forallb. apply forallb_ops_all_and. Qed.

  Lemma bin_node_In c o : bin_node c o <-> In o (ops_inorder c).
  Proof.
    split.
    - induction 1; cbn [ops_inorder]; rewrite in_app_iff; cbn [In]; tauto.
    - induction c as [l|o' a IHa b IHb]; cbn [ops_inorder]; [intros []|].
      rewrite in_app_iff. cbn [In]. intros [H|[->|H]]; [apply bn_left|apply bn_here|apply bn_right]; auto.
  Qed.

  Theorem all_and_spec c : all_and c = true <-> forall o, bin_node c o -> o = BoAnd.
  Proof.
    rewrite <- forallb_ops_all_and, forallb_forall. split; intros H o Ho.
    - apply bin_node_In in Ho. apply H in Ho. destruct o; [reflexivity|discriminate|discriminate].
    - apply bin_node_In in Ho. rewrite (H o Ho). reflexivity.
  Qed.

  Corollary always_applicable_spec c : always_applicable c = true <-> forall o, bin_node c o -> o = BoAnd.
  Proof. rewrite always_applicable_all_and. apply all_and_spec. Qed.

  (* ================= closed forms ================= *)
  Lemma always_key_leaves_eq c : always_key_leaves c = if all_and c then filter is_key_call (leaves c) else [].
  Proof. unfold always_key_leaves. now rewrite always_applicable_all_and, flatten_leaves. Qed.

  Lemma key_facts_eq c :
    key_facts c = if all_and c then flat_map leaf_key_facts (filter is_key_call (leaves c)) else [].
  Proof. unfold key_facts. rewrite always_key_leaves_eq. destruct (all_and c); reflexivity. Qed.

  Lemma type_like_eq c :
    type_like c = if all_and c then (filter is_tl_key (leaves c), filter is_tl_value (leaves c)) else ([], []).
  Proof. unfold type_like. now rewrite always_applicable_all_and, flatten_leaves. Qed.

  (* the key conditions are a sub-list of the conditions, every one always applicable *)
  Theorem always_key_leaves_spec c l :
    In l (always_key_leaves c) <->
    all_and c = true /\ In l (leaves c) /\ (l_call l = "allowed_keys" \/ l_call l = "required_keys").
  Proof.
    rewrite always_key_leaves_eq. destruct (all_and c).
    - rewrite filter_In. unfold is_key_call. rewrite orb_true_iff.
      split.
      + intros (Hin & [H|H]); apply String.eqb_eq in H; auto.
      + intros (_ & Hin & [H|H]); rewrite H; cbn; auto.
    - cbn [In]. split; [intros []|intros (H & _); discriminate].
  Qed.

  (* ================= T3 ================= *)
  Theorem key_facts_spec c (k : A) (b : bool) :
    In (k, b) (key_facts c) <->
    all_and c = true /\ exists l, In l (leaves c) /\ In k (l_args l) /\
      ((l_call l = "required_keys" /\ b = true) \/ (l_call l = "allowed_keys" /\ b = false)).
  Proof.
    unfold key_facts. rewrite in_flat_map. split.
    - intros (l & Hl & Hk). apply always_key_leaves_spec in Hl. destruct Hl as (Ha & Hin & Hc).
      unfold leaf_key_facts in Hk. apply in_map_iff in Hk. destruct Hk as (k' & E & Hk'). injection E as -> <-.
      split; [assumption|]. exists l. split; [assumption|]. split; [assumption|].
      destruct Hc as [Hc|Hc]; rewrite Hc; [right|left]; split; reflexivity.
    - intros (Ha & l & Hin & Hk & Hc). exists l. split.
      + apply always_key_leaves_spec. split; [assumption|]. split; [assumption|]. tauto.
      + unfold leaf_key_facts. apply in_map_iff. exists k. split; [|assumption].
        destruct Hc as [(Hc & ->)|(Hc & ->)]; rewrite Hc; reflexivity.
  Qed.

  (* in particular: the flag of a fact is decided by the callable of the condition it comes from *)
  Corollary key_facts_required c (k : A) :
    In (k, true) (key_facts c) <->
    all_and c = true /\ exists l, In l (leaves c) /\ l_call l = "required_keys" /\ In k (l_args l).
  Proof.
    rewrite key_facts_spec. split.
    - intros (Ha & l & Hin & Hk & [(Hc & _)|(_ & Hb)]); [|discriminate]. split; [assumption|]. exists l. auto.
    - intros (Ha & l & Hin & Hc & Hk). split; [assumption|]. exists l. auto.
  Qed.

  (* ================= T4: commutation ================= *)
  Theorem always_applicable_swap o a b : always_applicable (CBin o a b) = always_applicable (CBin o b a).
  Proof.
    rewrite !always_applicable_all_and. cbn [all_and].
    destruct (is_and o), (all_and a), (all_and b); reflexivity.
  Qed.

  Theorem key_facts_swap o a b : Permutation (key_facts (CBin o a b)) (key_facts (CBin o b a)).
  Proof.
    rewrite !key_facts_eq. cbn [all_and leaves].
    replace (is_and o && all_and b && all_and a) with (is_and o && all_and a && all_and b)
      by (destruct (is_and o), (all_and a), (all_and b); reflexivity).
    destruct (is_and o && all_and a && all_and b); [|constructor].
    rewrite !filter_app, !flat_map_app. apply Permutation_app_comm.
  Qed.

  (* any sequence of operand swaps and re-associations, anywhere in the tree *)
  Inductive reorder : cond A -> cond A -> Prop :=
  | ro_refl c : reorder c c
  | ro_swap o a b : reorder (CBin o a b) (CBin o b a)
  | ro_assoc o a b c : reorder (CBin o (CBin o a b) c) (CBin o a (CBin o b c))
  | ro_cong o a a' b b' : reorder a a' -> reorder b b' -> reorder (CBin o a b) (CBin o a' b')
  | ro_sym c c' : reorder c c' -> reorder c' c
  | ro_trans c c' c'' : reorder c c' -> reorder c' c'' -> reorder c c''.

  Lemma reorder_perm c c' : reorder c c' ->
    Permutation (leaves c) (leaves c') /\ Permutation (ops_inorder c) (ops_inorder c').
  Proof.
    induction 1 as [c|o a b|o a b c|o a a' b b' Ha [IHa1 IHa2] Hb [IHb1 IHb2]|c c' H [IH1 IH2]
                   |c c' c'' H1 [IH11 IH12] H2 [IH21 IH22]]; cbn [leaves ops_inorder].
    - split; apply Permutation_refl.
    - split; [apply Permutation_app_comm|].
      change (ops_inorder a ++ o :: ops_inorder b) with (ops_inorder a ++ [o] ++ ops_inorder b).
      change (ops_inorder b ++ o :: ops_inorder a) with (ops_inorder b ++ [o] ++ ops_inorder a).
      rewrite !app_assoc.
      eapply Permutation_trans; [apply Permutation_app_comm|].
      rewrite <- app_assoc. apply Permutation_app_head. apply Permutation_app_comm.
    - split; [rewrite app_assoc; apply Permutation_refl|].
      rewrite <- app_assoc. cbn [app]. apply Permutation_refl.
    - split; [apply Permutation_app; assumption|].
      apply Permutation_app; [assumption|]. constructor. assumption.
    - split; apply Permutation_sym; assumption.
    - split; eapply Permutation_trans; eassumption.
  Qed.

  Theorem reorder_always_applicable c c' : reorder c c' -> always_applicable c = always_applicable c'.
  Proof.
    intros H. rewrite !always_applicable_forallb. apply forallb_perm. apply (reorder_perm c c' H).
  Qed.

  Lemma reorder_all_and c c' : reorder c c' -> all_and c = all_and c'.
  Proof. intros H. rewrite <- !always_applicable_all_and. now apply reorder_always_applicable. Qed.

  Theorem reorder_key_facts c c' : reorder c c' -> Permutation (key_facts c) (key_facts c').
  Proof.
    intros H. rewrite !key_facts_eq, <- (reorder_all_and c c' H).
    destruct (all_and c); [|constructor].
    apply Permutation_flat_map, Permutation_filter', (reorder_perm c c' H).
  Qed.

  Theorem reorder_type_like c c' : reorder c c' ->
    Permutation (fst (type_like c)) (fst (type_like c')) /\ Permutation (snd (type_like c)) (snd (type_like c')).
  Proof.
    intros H. rewrite !type_like_eq, <- (reorder_all_and c c' H).
    destruct (all_and c); cbn [fst snd]; split; try constructor; apply Permutation_filter', (reorder_perm c c' H).
  Qed.

  (* re-associating alone does not even change the order *)
  Theorem assoc_key_facts o a b c : key_facts (CBin o (CBin o a b) c) = key_facts (CBin o a (CBin o b c)).
  Proof.
    rewrite !key_facts_eq. cbn [all_and leaves]. rewrite <- app_assoc.
    replace (is_and o && (is_and o && all_and a && all_and b) && all_and c)
      with (is_and o && all_and a && (is_and o && all_and b && all_and c))
      by (destruct (is_and o), (all_and a), (all_and b), (all_and c); reflexivity).
    reflexivity.
  Qed.
End Proofs.

(* the re-ordering relation is not vacuous: (a & b) & c  ~  c & (b & a) *)
Example reorder_example :
  reorder pyval (CBin BoAnd (CBin BoAnd (CLeaf ex_a) (CLeaf ex_b)) (CLeaf ex_c))
                (CBin BoAnd (CLeaf ex_c) (CBin BoAnd (CLeaf ex_b) (CLeaf ex_a))).
Proof. eapply ro_trans; [apply ro_swap|]. apply ro_cong; [apply ro_refl|apply ro_swap]. Qed.

(* ================= T5: end to end ================= *)

(* the `False` flag on the nodes returned by to_tree() (T5_flat_tree_required gives the other two cases) *)
Lemma flat_tree_required_false rs l :
  flat_tree [] [] rs = Ok l ->
  forall d k s, In d l -> dget "path_str" d = Some (VTuple (map VStr (k ++ [s]))) ->
    (dget "required" d = Some (VBool false) <->
     (exists rf key, In rf rs /\ rf_path_str rf = k /\ In (key, Some s, false) (rf_keys rf))
     /\ ~ (exists rf key, In rf rs /\ rf_path_str rf = k /\ In (key, Some s, true) (rf_keys rf))).
Proof.
  intros Hf d0 k s Hin Hps. destruct (flat_tree_nodes rs l Hf) as (m & Hs & _ & Hn).
  apply In_nth_error in Hin. destruct Hin as (i0 & Hi).
  destruct (Hn i0 d0 Hi) as (k' & dk & p & _ & Hg & ->).
  rewrite flat_of_path_str in Hps. injection Hps as Hps. apply map_VStr_inj in Hps. subst k'.
  rewrite flat_of_other by discriminate.
  destruct (T5_required_whole rs m k s Hs) as (_ & Hfl & _).
  unfold iget0 in Hfl. rewrite Hg in Hfl. assumption.
Qed.


(* the linking hypothesis: the key facts of the rule (key, required flag) were computed from its condition; the middle
   component of rf_keys (str of the part of DataPath(key), None if DataPath(key) raises) is a fact computed by the library *)
Definition linked (rc : rfacts * cond pyval) : Prop :=
  map (fun x => (fst (fst x), snd x)) (rf_keys (fst rc)) = key_facts (snd rc).

Lemma linked_in rf c key (ks : option string) (b : bool) :
  linked (rf, c) -> In (key, ks, b) (rf_keys rf) -> In (key, b) (key_facts c).
Proof.
  unfold linked. cbn [fst snd]. intros <- H. apply in_map_iff. exists (key, ks, b). split; [reflexivity|assumption].
Qed.

Theorem C20_required_from_conditions (rcs : list (rfacts * cond pyval)) (l : list pdict) :
  Forall linked rcs ->
  flat_tree [] [] (map fst rcs) = Ok l ->
  forall d k s, In d l -> dget "path_str" d = Some (VTuple (map VStr (k ++ [s]))) ->
    (dget "required" d = Some (VBool true) <->
       exists rf c key l0, In (rf, c) rcs /\ rf_path_str rf = k /\ all_and c = true /\ In l0 (leaves c) /\
          l_call l0 = "required_keys" /\ In key (l_args l0) /\ In (key, Some s, true) (rf_keys rf))
    /\ (dget "required" d = None <->
       forall rf c key b, In (rf, c) rcs -> rf_path_str rf = k -> ~ In (key, Some s, b) (rf_keys rf)).
Proof.
  intros Hl Hf d k s Hd Hps. rewrite Forall_forall in Hl.
  destruct (T5_flat_tree_required (map fst rcs) l Hf d k s Hd Hps) as [Ht Hn]. split.
  - rewrite Ht. split.
    + intros (rf & key & Hin & Hk & Hkey). apply in_map_iff in Hin. destruct Hin as ([rf' c] & E & Hin).
      cbn [fst] in E. subst rf'.
      pose proof (linked_in rf c key (Some s) true (Hl _ Hin) Hkey) as Hkf.
      apply key_facts_required in Hkf. destruct Hkf as (Ha & l0 & Hl0 & Hc & Hk0).
      exists rf, c, key, l0. repeat split; assumption.
    + intros (rf & c & key & l0 & Hin & Hk & _ & _ & _ & _ & Hkey).
      exists rf, key. split; [|split; assumption]. apply in_map_iff. exists (rf, c). split; [reflexivity|assumption].
  - rewrite Hn. split.
    + intros H rf c key b Hin. apply H. apply in_map_iff. exists (rf, c). split; [reflexivity|assumption].
    + intros H rf key b Hin. apply in_map_iff in Hin. destruct Hin as ([rf' c] & E & Hin). cbn [fst] in E. subst rf'.
      apply (H rf c key b Hin).
Qed.

(* str(part of DataPath(key)) is a function of the key: with it, both sides are about the conditions only *)
Definition linked_fn (kstr : pyval -> option string) (rc : rfacts * cond pyval) : Prop :=
  rf_keys (fst rc) = map (fun kb => (fst kb, kstr (fst kb), snd kb)) (key_facts (snd rc)).

Lemma linked_fn_linked kstr rc : linked_fn kstr rc -> linked rc.
Proof.
  unfold linked_fn, linked. intros ->. rewrite map_map. cbn [fst snd].
  rewrite <- (map_id (key_facts (snd rc))) at 2. apply map_ext. intros [k b]. reflexivity.
Qed.

Lemma linked_fn_in kstr rf c key ks b :
  linked_fn kstr (rf, c) -> (In (key, ks, b) (rf_keys rf) <-> In (key, b) (key_facts c) /\ ks = kstr key).
Proof.
  unfold linked_fn. cbn [fst snd]. intros ->. rewrite in_map_iff. split.
  - intros ([k' b'] & E & Hin). cbn [fst snd] in E. injection E as -> <- ->. split; [assumption|reflexivity].
  - intros (Hin & ->). exists (key, b). split; [reflexivity|assumption].
Qed.

Theorem C20_required_from_conditions_fn (kstr : pyval -> option string) (rcs : list (rfacts * cond pyval)) (l : list pdict) :
  Forall (linked_fn kstr) rcs ->
  flat_tree [] [] (map fst rcs) = Ok l ->
  forall d k s, In d l -> dget "path_str" d = Some (VTuple (map VStr (k ++ [s]))) ->
    (* flagged required: some rule at the parent path has an all-and condition with a required_keys leaf naming the key *)
    (dget "required" d = Some (VBool true) <->
       exists rf c key l0, In (rf, c) rcs /\ rf_path_str rf = k /\ all_and c = true /\ In l0 (leaves c) /\
          l_call l0 = "required_keys" /\ In key (l_args l0) /\ kstr key = Some s)
    (* no flag at all: no rule at the parent path names the key in an always-applicable key condition
       (the node exists for another reason: it is the path of a rule) *)
    /\ (dget "required" d = None <->
       forall rf c key l0, In (rf, c) rcs -> rf_path_str rf = k -> all_and c = true -> In l0 (leaves c) ->
          (l_call l0 = "required_keys" \/ l_call l0 = "allowed_keys") -> In key (l_args l0) -> kstr key <> Some s)
    (* flagged, but not required: named by an always-applicable allowed_keys condition, and by no always-applicable
       required_keys condition *)
    /\ (dget "required" d = Some (VBool false) <->
       (exists rf c key l0, In (rf, c) rcs /\ rf_path_str rf = k /\ all_and c = true /\ In l0 (leaves c) /\
          l_call l0 = "allowed_keys" /\ In key (l_args l0) /\ kstr key = Some s)
       /\ ~ (exists rf c key l0, In (rf, c) rcs /\ rf_path_str rf = k /\ all_and c = true /\ In l0 (leaves c) /\
          l_call l0 = "required_keys" /\ In key (l_args l0) /\ kstr key = Some s)).
Proof.
  intros Hl Hf d k s Hd Hps.
  assert (Hl' : Forall linked rcs).
  { rewrite Forall_forall in *. intros rc Hrc. eapply linked_fn_linked, Hl, Hrc. }
  destruct (C20_required_from_conditions rcs l Hl' Hf d k s Hd Hps) as [Ht Hn].
  rewrite Forall_forall in Hl.
  assert (Htrue : dget "required" d = Some (VBool true) <->
       exists rf c key l0, In (rf, c) rcs /\ rf_path_str rf = k /\ all_and c = true /\ In l0 (leaves c) /\
          l_call l0 = "required_keys" /\ In key (l_args l0) /\ kstr key = Some s).
  { rewrite Ht. split.
    + intros (rf & c & key & l0 & Hin & Hk & Ha & Hl0 & Hc & Hk0 & Hkey).
      apply (linked_fn_in kstr rf c key (Some s) true (Hl _ Hin)) in Hkey. destruct Hkey as (_ & Hs).
      exists rf, c, key, l0. repeat split; auto.
    + intros (rf & c & key & l0 & Hin & Hk & Ha & Hl0 & Hc & Hk0 & Hs).
      exists rf, c, key, l0. repeat split; auto.
      apply (linked_fn_in kstr rf c key (Some s) true (Hl _ Hin)). split; [|auto].
      apply key_facts_required. split; [assumption|]. exists l0. auto. }
  split; [exact Htrue|split].
  - rewrite Hn. split.
    + intros H rf c key l0 Hin Hk Ha Hl0 Hc Hk0 Hs.
      apply (H rf c key (String.eqb (l_call l0) "required_keys") Hin Hk).
      apply (linked_fn_in kstr rf c key (Some s) _ (Hl _ Hin)). split; [|auto].
      apply key_facts_spec. split; [assumption|]. exists l0. split; [assumption|]. split; [assumption|].
      destruct Hc as [Hc|Hc]; rewrite Hc; [left|right]; split; reflexivity.
    + intros H rf c key b Hin Hk Hkey.
      apply (linked_fn_in kstr rf c key (Some s) b (Hl _ Hin)) in Hkey. destruct Hkey as (Hkf & Hs).
      apply key_facts_spec in Hkf. destruct Hkf as (Ha & l0 & Hl0 & Hk0 & Hc).
      apply (H rf c key l0 Hin Hk Ha Hl0); [|assumption|auto].
      destruct Hc as [(Hc & _)|(Hc & _)]; auto.
  - rewrite <- Htrue.
    rewrite (flat_tree_required_false (map fst rcs) l Hf d k s Hd Hps).
    rewrite <- (proj1 (T5_flat_tree_required (map fst rcs) l Hf d k s Hd Hps)).
    apply and_iff_compat_r. split.
    + intros (rf & key & Hin & Hk & Hkey). apply in_map_iff in Hin. destruct Hin as ([rf' c] & E & Hin).
      cbn [fst] in E. subst rf'.
      apply (linked_fn_in kstr rf c key (Some s) false (Hl _ Hin)) in Hkey. destruct Hkey as (Hkf & Hs).
      apply key_facts_spec in Hkf. destruct Hkf as (Ha & l0 & Hl0 & Hk0 & [(_ & Hb)|(Hc & _)]); [discriminate|].
      exists rf, c, key, l0. repeat split; auto.
    + intros (rf & c & key & l0 & Hin & Hk & Ha & Hl0 & Hc & Hk0 & Hs).
      exists rf, key. split; [apply in_map_iff; exists (rf, c); split; [reflexivity|assumption]|]. split; [assumption|].
      apply (linked_fn_in kstr rf c key (Some s) false (Hl _ Hin)). split; [|auto].
      apply key_facts_spec. split; [assumption|]. exists l0. split; [assumption|]. split; [assumption|]. right. auto.
Qed.

(* consequence of T4 + T5: re-ordering the operands of the conditions does not change which keys are flagged required
   (stated on the characterisation: the right-hand side of the IFF is invariant) *)
Theorem required_rhs_reorder (kstr : pyval -> option string) (c c' : cond pyval) (s : string) :
  reorder pyval c c' ->
  (all_and c = true /\ exists key l0, In l0 (leaves c) /\ l_call l0 = "required_keys" /\ In key (l_args l0) /\ kstr key = Some s)
  <-> (all_and c' = true /\ exists key l0, In l0 (leaves c') /\ l_call l0 = "required_keys" /\ In key (l_args l0) /\ kstr key = Some s).
Proof.
  intros H.
  assert (G : forall c c', reorder pyval c c' ->
     (all_and c = true /\ exists key l0, In l0 (leaves c) /\ l_call l0 = "required_keys" /\ In key (l_args l0) /\ kstr key = Some s)
     -> (all_and c' = true /\ exists key l0, In l0 (leaves c') /\ l_call l0 = "required_keys" /\ In key (l_args l0) /\ kstr key = Some s)).
  { intros x y Hxy (Ha & key & l0 & Hl0 & Hc & Hk & Hs).
    assert (Hin : In (key, true) (key_facts x)) by (apply key_facts_required; split; [assumption|]; exists l0; auto).
    apply (Permutation_in _ (reorder_key_facts pyval x y Hxy)) in Hin.
    apply key_facts_required in Hin. destruct Hin as (Ha' & l1 & Hl1 & Hc1 & Hk1).
    split; [assumption|]. exists key, l1. auto. }
  split; [apply G; assumption|apply G; apply ro_sym; assumption].
Qed.

Print Assumptions flatten_ops_inorder.
Print Assumptions flatten_ops_perm.
Print Assumptions flatten_ops_count.
Print Assumptions always_applicable_all_and.
Print Assumptions all_and_spec.
Print Assumptions flatten_leaves.
Print Assumptions key_facts_spec.
Print Assumptions key_facts_swap.
Print Assumptions always_applicable_swap.
Print Assumptions reorder_always_applicable.
Print Assumptions reorder_key_facts.
Print Assumptions reorder_type_like.
Print Assumptions C20_required_from_conditions.
Print Assumptions C20_required_from_conditions_fn.
Print Assumptions required_rhs_reorder.
