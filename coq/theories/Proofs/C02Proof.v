(* C02: the model of building an and / or / xor tree of DSL leaves (null operands anywhere) and
   filtering a document equals the specification: null is the identity of every operator, the
   result is the pointwise Boolean combination, refusals are TypeError. *)
From Coq Require Import ZArith NArith List Bool String Lia.
From Valida Require Import Py Lang Defs Cond Dsl Check DocSem Inst.
From Valida.Proofs Require Import PyFacts Tie C01Proof.
Import ListNotations.
Local Open Scope string_scope.
Local Open Scope list_scope.

(* the condition a (normalised) typed tree is expected to build *)
Fixpoint cond_of (t : qtree) : cond pyval :=
  match t with
  | QLeaf c q => CLeaf (expected_leaf c q)
  | QNull => CNull
  | QBin o a b => CBin o (cond_of a) (cond_of b)
  end.

(* ------------------------------------------------------------------ *)
(* leaves, nulls and kinds of the expected condition                    *)

Lemma expected_cls c q : l_cls (expected_leaf c q) = scls_name c.
Proof. unfold expected_leaf. destruct (q_stored q) as [[f a] k]. reflexivity. Qed.

Lemma is_null_cond_of n : is_null (cond_of n) = q_is_null n.
Proof.
  destruct n as [c q| |o a b]; cbn [cond_of is_null q_is_null]; try reflexivity.
  unfold is_null_leaf. rewrite expected_cls. destruct c; reflexivity.
Qed.

(* the null condition is Value-like: it contributes no Key / Index leaf *)
Lemma has_kind_cond_of k n : k <> DValue -> has_kind k (cond_of n) = q_has_kind k n.
Proof.
  intros Hk. unfold has_kind, q_has_kind.
  induction n as [c q| |o a IHa b IHb]; cbn [cond_of leaves qleaves existsb fst].
  - rewrite expected_kind. reflexivity.
  - cbn [CNull leaves existsb null_leaf l_kind]. destruct k; try reflexivity. contradiction Hk; reflexivity.
  - rewrite !existsb_app, IHa, IHb. reflexivity.
Qed.

Lemma q_is_null_eq n : q_is_null n = true -> n = QNull.
Proof. destruct n; cbn; try discriminate; reflexivity. Qed.

Lemma qleaves_qnorm t : qleaves (qnorm t) = qleaves t.
Proof.
  induction t as [c q| |o a IHa b IHb]; cbn [qnorm]; try reflexivity.
  cbn [qleaves]. rewrite <- IHa, <- IHb.
  destruct (q_is_null (qnorm b)) eqn:Eb.
  - apply q_is_null_eq in Eb. rewrite Eb. cbn [qleaves]. rewrite app_nil_r. reflexivity.
  - destruct (q_is_null (qnorm a)) eqn:Ea.
    + apply q_is_null_eq in Ea. rewrite Ea. reflexivity.
    + reflexivity.
Qed.

Lemma qtree_ok_qnorm t : qtree_ok (qnorm t) = qtree_ok t.
Proof. unfold qtree_ok. rewrite qleaves_qnorm. reflexivity. Qed.

Lemma qtree_ok_bin o a b : qtree_ok (QBin o a b) = true -> qtree_ok a = true /\ qtree_ok b = true.
Proof. unfold qtree_ok. cbn [qleaves]. rewrite forallb_app. apply andb_true_iff. Qed.

Lemma qtree_ok_leaf c q : qtree_ok (QLeaf c q) = true -> class_ok c q = true /\ q_wf q = true.
Proof.
  unfold qtree_ok, class_ok, q_wf. cbn [qleaves forallb fst snd]. rewrite andb_true_r.
  apply andb_true_iff.
Qed.

Lemma q_has_kind_bin k o a b : q_has_kind k (QBin o a b) = q_has_kind k a || q_has_kind k b.
Proof. unfold q_has_kind. cbn [qleaves]. apply existsb_app. Qed.

Lemma qmixed_bin_l o a b : qmixed a = true -> qmixed (QBin o a b) = true.
Proof.
  unfold qmixed. rewrite !q_has_kind_bin. intros H. apply andb_true_iff in H as [-> ->]. reflexivity.
Qed.
Lemma qmixed_bin_r o a b : qmixed b = true -> qmixed (QBin o a b) = true.
Proof.
  unfold qmixed. rewrite !q_has_kind_bin. intros H. apply andb_true_iff in H as [-> ->].
  rewrite !orb_true_r. reflexivity.
Qed.
Lemma qmixed_null : qmixed QNull = false.
Proof. reflexivity. Qed.
Lemma qmixed_leaf c q : qmixed (QLeaf c q) = false.
Proof. unfold qmixed, q_has_kind. cbn [qleaves existsb fst]. destruct (scls_kind c); reflexivity. Qed.

(* ------------------------------------------------------------------ *)
(* construction                                                         *)

Definition build_expect (n : qtree) : res (cond pyval) :=
  if qmixed n then Err TypeError else Ok (cond_of n).

Lemma build_leaf_term c q : class_ok c q = true -> build T idlit (q_term c q) = Ok (CLeaf (expected_leaf c q)).
Proof.
  intros Hc. unfold q_term. pose proof (tie_build c q Hc) as Hb. unfold built in Hb.
  destruct (q_call q) as [[m pos] kw]. cbn [build]. rewrite Hb. reflexivity.
Qed.

Lemma mk_bin_cond_of o a b :
  mk_bin o (cond_of a) (cond_of b) =
  if q_is_null b then Ok (cond_of a)
  else if q_is_null a then Ok (cond_of b)
  else if qmixed (QBin o a b) then Err TypeError else Ok (cond_of (QBin o a b)).
Proof.
  unfold mk_bin, qmixed. rewrite !is_null_cond_of, !has_kind_cond_of by discriminate. rewrite !q_has_kind_bin. reflexivity.
Qed.

(* building the term of a typed tree: TypeError iff the normalised tree mixes Key and Index
   leaves, otherwise the condition of the normalised tree *)
Lemma build_qterm t : qtree_ok t = true -> build T idlit (qterm t) = build_expect (qnorm t).
Proof.
  unfold build_expect.
  induction t as [c q| |o a IHa b IHb]; intros Hok.
  - cbn [qterm qnorm]. rewrite qmixed_leaf. apply qtree_ok_leaf in Hok as [Hc _].
    rewrite build_leaf_term by exact Hc. reflexivity.
  - reflexivity.
  - apply qtree_ok_bin in Hok as [Ha Hb]. specialize (IHa Ha). specialize (IHb Hb).
    cbn [qterm build qnorm]. rewrite IHa, IHb.
    destruct (qmixed (qnorm a)) eqn:Ma.
    + cbn [bind].
      destruct (q_is_null (qnorm b)) eqn:Nb; [rewrite Ma; reflexivity|].
      destruct (q_is_null (qnorm a)) eqn:Na.
      { apply q_is_null_eq in Na. rewrite Na in Ma. discriminate Ma. }
      rewrite (qmixed_bin_l o _ _ Ma). reflexivity.
    + cbn [bind]. destruct (qmixed (qnorm b)) eqn:Mb.
      * cbn [bind].
        destruct (q_is_null (qnorm b)) eqn:Nb.
        { apply q_is_null_eq in Nb. rewrite Nb in Mb. discriminate Mb. }
        destruct (q_is_null (qnorm a)) eqn:Na; [rewrite Mb; reflexivity|].
        rewrite (qmixed_bin_r o _ _ Mb). reflexivity.
      * cbn [bind]. rewrite mk_bin_cond_of.
        destruct (q_is_null (qnorm b)) eqn:Nb; [rewrite Ma; reflexivity|].
        destruct (q_is_null (qnorm a)) eqn:Na; [rewrite Mb; reflexivity|].
        reflexivity.
Qed.

(* ------------------------------------------------------------------ *)
(* filtering                                                            *)

Lemma zip_with_map {X Y Z W} (f : Y -> Z -> W) (g : X -> Y) (h : X -> Z) l :
  zip_with f (map g l) (map h l) = map (fun x => f (g x) (h x)) l.
Proof. induction l as [|x l IH]; cbn; [reflexivity|]. rewrite IH. reflexivity. Qed.

Lemma eval_item_null x : eval_item T res0 null_leaf x = Ok (false, false, false).
Proof. reflexivity. Qed.

Lemma mapM_const {X Y} (f : X -> res Y) (y : Y) l : (forall x, f x = Ok y) -> mapM f l = Ok (map (fun _ => y) l).
Proof. intros H. induction l as [|x l IH]; cbn; [reflexivity|]. rewrite H, IH. reflexivity. Qed.

Lemma filter_null d :
  exists f, filter_leaf T res0 null_leaf d = Ok f /\ fr_result f = map (fun _ => true) (d_vals d).
Proof.
  unfold filter_leaf. cbn [null_leaf l_kind datums].
  rewrite (mapM_const _ (false, false, false)) by exact eval_item_null. cbn [bind].
  eexists; split; [reflexivity|]. cbn [fr_result]. rewrite map_map. reflexivity.
Qed.

Lemma filter_expected_leaf c q d doc :
  q_wf q = true ->
  d_keys d = map fst (doc_items doc) -> d_vals d = map snd (doc_items doc) ->
  exists f, filter_leaf T res0 (expected_leaf c q) d = Ok f /\
            fr_result f = map (sat_item c q) (doc_items doc).
Proof.
  intros Hwf Hk Hv. unfold filter_leaf.
  rewrite expected_kind, (datums_items c d doc Hk Hv).
  destruct (mapM_spec (eval_item T res0 (expected_leaf c q)) flags_result
              (sat_datum c q)
              (map (fun it => match scls_kind c with DValue => snd it | _ => fst it end) (doc_items doc))
              (fun x => eval_item_sat c q x Hwf)) as [fls [Em Hr]].
  rewrite Em. cbn [bind]. eexists; split; [reflexivity|]. cbn [fr_result].
  rewrite map_map in Hr. exact Hr.
Qed.

(* filtering the condition of a typed tree never aborts and is pointwise sat_tree *)
Lemma filter_cond_of n d doc :
  qtree_ok n = true ->
  d_keys d = map fst (doc_items doc) -> d_vals d = map snd (doc_items doc) ->
  exists f, filter_tree T res0 (cond_of n) d = Ok f /\ fr_result f = map (sat_tree n) (doc_items doc).
Proof.
  intros Hok Hk Hv.
  induction n as [c q| |o a IHa b IHb].
  - apply qtree_ok_leaf in Hok as [_ Hwf]. cbn [cond_of filter_tree sat_tree].
    exact (filter_expected_leaf c q d doc Hwf Hk Hv).
  - cbn [cond_of CNull filter_tree]. destruct (filter_null d) as [f [Ef Hr]].
    exists f. split; [exact Ef|]. rewrite Hr, Hv, map_map. reflexivity.
  - apply qtree_ok_bin in Hok as [Ha Hb].
    destruct (IHa Ha) as [fa [Ea Ra]]. destruct (IHb Hb) as [fb [Eb Rb]].
    cbn [cond_of filter_tree]. rewrite Ea, Eb. cbn [bind].
    eexists; split; [reflexivity|]. unfold combine_fres. cbn [fr_result].
    rewrite Ra, Rb, zip_with_map. reflexivity.
Qed.

(* ------------------------------------------------------------------ *)
(* assembly                                                             *)

Lemma nonempty_shape doc : nonempty_container doc = true ->
  (exists x r, doc = VList (x :: r)) \/ (exists kv r, doc = VDict (kv :: r)).
Proof.
  unfold nonempty_container. destruct doc; try discriminate.
  - destruct l; [discriminate|]. left; eauto.
  - destruct d; [discriminate|]. right; eauto.
Qed.

Lemma mk_data_empty doc : nonempty_container doc = false -> mk_data doc = Err TypeError.
Proof.
  unfold nonempty_container, mk_data. destruct doc; try reflexivity.
  - destruct l; [reflexivity|discriminate].
  - destruct d; [reflexivity|discriminate].
Qed.

(* filtering with the condition of a typed tree whose root is not a Key/Index leaf *)
Lemma tree_cond_meets_spec n doc :
  qtree_ok n = true ->
  entry_check (cond_of n) doc = Ok tt ->
  run_filter_cond (cond_of n) doc =
  if nonempty_container doc then Ok (spec_obs doc (map (sat_tree n) (doc_items doc))) else Err TypeError.
Proof.
  intros Hok Hec. unfold run_filter_cond. rewrite Hec. cbn [bind].
  destruct (nonempty_container doc) eqn:Hne.
  - destruct (mk_data_items doc (nonempty_shape doc Hne)) as [d [Ed [Hk Hv]]].
    rewrite Ed. cbn [bind].
    destruct (filter_cond_of n d doc Hok Hk Hv) as [f [Ef Hr]].
    rewrite Ef. cbn [bind]. unfold obs_filter, spec_obs.
    rewrite Hr, false_indices_fail_idx, Hk, Hv. reflexivity.
  - rewrite mk_data_empty by exact Hne. reflexivity.
Qed.

(* The model of building an and/or/xor tree (null operands anywhere) and filtering a document
   equals the specification. *)
Theorem C02_pointwise_model_meets_spec : forall (t : qtree) (doc : pyval),
  qtree_ok t = true -> run_filter (qterm t) doc = spec_filter_tree t doc.
Proof.
  intros t doc Hok. unfold run_filter, spec_filter_tree.
  rewrite (build_qterm t Hok). unfold build_expect.
  pose proof (qtree_ok_qnorm t) as Hn. rewrite Hok in Hn.
  destruct (qnorm t) as [c q| |o a b] eqn:En.
  - rewrite qmixed_leaf. cbn [bind cond_of].
    apply qtree_ok_leaf in Hn as [_ Hwf]. apply leaf_cond_meets_spec; exact Hwf.
  - rewrite qmixed_null. cbn [bind].
    rewrite (tree_cond_meets_spec QNull doc Hn) by reflexivity. reflexivity.
  - destruct (qmixed (QBin o a b)) eqn:Mx; [reflexivity|]. cbn [bind].
    rewrite (tree_cond_meets_spec (QBin o a b) doc Hn) by reflexivity. reflexivity.
Qed.

Print Assumptions C02_pointwise_model_meets_spec.
