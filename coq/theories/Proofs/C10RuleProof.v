(* C10 (rule specs): Rule.from_spec reads the entries "path", "condition", "doc", "cast" of a mapping; doc and cast
   in every accepted shape; the rule term it returns builds the rule object the API builds.
   Model: rule_from_spec / norm_doc / parse_casts of SpecIO.v on the generated tables T / X.

   Contents
   0. str_strip_idem: str.strip() (Cast.str_strip) is idempotent (proved, no hypothesis).
   1. doc: norm_doc_dict (complete equation for mappings); the shapes: C10_doc_shapes (string, [string],
      {"description": string}, {"description": [string]}, {... "examples": []}: ONE normal form, same key order;
      lists; mappings with both fields), norm_doc_mapping / _desc / _ex / _none / _str (any mapping, any key order,
      other entries kept), norm_doc_absent / norm_doc_falsy; errors: norm_doc_not_container (TypeError),
      norm_doc_list_bad / norm_doc_bad_description / norm_doc_bad_examples (MalformedRule); C10_doc_accepted
      (decision procedure doc_ok: accepted iff ..., otherwise which error); C10_doc_idempotent.
   2. cast: C10_cast_shapes, C10_cast_first_error, parse_item_cases (which error for which entry).
   3. C10_rule_fields (unfolding equation), C10_rule_other_entries_ignored, C10_rule_error_order.
   4. C10_rule_builds_api_rule (+ _prims, _tree): from_spec's term builds the API's rule object.

   Findings (model = library, replayed on /repo):
   - the statement "every string s" of the doc shapes is false for s = "": an empty-string doc is falsy and is
     kept as "" (C10_doc_shapes_counterexample_empty_string); hypothesis s <> "" added for the bare-string shape only.
   - a truthy doc that is not str / list / dict (doc=1, doc=("a",)) raises TypeError, not MalformedRuleSpec;
     "examples" given as a plain string is MalformedRuleSpec (only "description" is wrapped).
   - cast: a value that is not a name is MalformedRule only if it is hashable: {"str": ["int"]} raises TypeError
     (C10_cast_value_not_a_name); the key is checked first ({"float": ["int"]} is MalformedRule). *)
From Coq Require Import ZArith NArith List Bool String Ascii Lia.
From Valida Require Import Py Lang Defs Cond Dsl Check DocSem Path Cast Str SpecDefs RuleDefs RuleTerms
  Spec SpecIO Eq Inst RunSpec Rule SpecSpell.
From Valida.Proofs Require Import PyFacts Tie C01Proof C02Proof RuleProof C09Proof C10Proof C11Proof C14Proof C13Proof.
Import ListNotations.
Local Open Scope string_scope.
Local Open Scope list_scope.

(* ================================================================== *)
(* 0. str.strip() is idempotent                                         *)

Lemma sapp_nil_r s : (s ++ "")%string = s.
Proof. induction s as [|c r IH]; cbn [append]; [reflexivity|rewrite IH; reflexivity]. Qed.
Lemma sapp_assoc a b c : ((a ++ b) ++ c)%string = (a ++ (b ++ c))%string.
Proof. induction a as [|x r IH]; cbn [append]; [reflexivity|rewrite IH; reflexivity]. Qed.

Lemma str_rev_aux_spec s : forall acc, str_rev_aux s acc = (str_rev s ++ acc)%string.
Proof.
  unfold str_rev. induction s as [|c r IH]; intros acc; cbn [str_rev_aux]; [reflexivity|].
  rewrite (IH (String c acc)), (IH (String c "")), sapp_assoc. reflexivity.
Qed.
Lemma str_rev_cons c r : str_rev (String c r) = (str_rev r ++ String c "")%string.
Proof. unfold str_rev at 1. cbn [str_rev_aux]. apply str_rev_aux_spec. Qed.
Lemma str_rev_app a b : str_rev (a ++ b)%string = (str_rev b ++ str_rev a)%string.
Proof.
  induction a as [|c r IH]; cbn [append].
  - change (str_rev "") with "". rewrite sapp_nil_r. reflexivity.
  - rewrite !str_rev_cons, IH, sapp_assoc. reflexivity.
Qed.
Lemma str_rev_involutive s : str_rev (str_rev s) = s.
Proof.
  induction s as [|c r IH]; [reflexivity|].
  rewrite str_rev_cons, str_rev_app, IH. reflexivity.
Qed.

(* no leading whitespace *)
Definition nolead (s : string) : bool := match s with String c _ => negb (is_ws c) | EmptyString => true end.
Lemma nolead_lstrip s : nolead (lstrip s) = true.
Proof.
  induction s as [|c r IH]; cbn [lstrip]; [reflexivity|]. destruct (is_ws c) eqn:E; [exact IH|].
  cbn [nolead]. rewrite E. reflexivity.
Qed.
Lemma lstrip_nolead s : nolead s = true -> lstrip s = s.
Proof. destruct s as [|c r]; cbn [nolead lstrip]; [reflexivity|]. destruct (is_ws c); [discriminate|reflexivity]. Qed.
Lemma nolead_prefix a b : nolead (a ++ b)%string = true -> nolead a = true.
Proof. destruct a as [|c r]; cbn [append nolead]; auto. Qed.
Lemma lstrip_split s : exists w, s = (w ++ lstrip s)%string.
Proof.
  induction s as [|c r [w IH]]; [exists ""; reflexivity|]. cbn [lstrip]. destruct (is_ws c).
  - exists (String c w). cbn [append]. rewrite <- IH. reflexivity.
  - exists "". reflexivity.
Qed.

Theorem str_strip_idem s : str_strip (str_strip s) = str_strip s.
Proof.
  unfold str_strip. set (a := lstrip s). set (b := lstrip (str_rev a)).
  assert (Ha : nolead a = true) by apply nolead_lstrip.
  assert (Hb : nolead b = true) by apply nolead_lstrip.
  destruct (lstrip_split (str_rev a)) as [w Hw]. fold b in Hw.
  assert (Hr : nolead (str_rev b) = true).
  { apply (nolead_prefix _ (str_rev w)). rewrite <- str_rev_app, <- Hw, str_rev_involutive. exact Ha. }
  rewrite (lstrip_nolead _ Hr), str_rev_involutive, (lstrip_nolead _ Hb). reflexivity.
Qed.

Example str_strip_ex : str_strip "  a b
 " = "a b" /\ str_strip "   " = "" /\ str_strip "" = "".
Proof. vm_compute. auto. Qed.

(* ================================================================== *)
(* 1. doc shapes (norm_doc)                                             *)

Lemma py_eq_str_l k s : py_eq k (VStr s) = true -> k = VStr s.
Proof. destruct k; try discriminate. cbn. intros H. apply String.eqb_eq in H. subst. reflexivity. Qed.
Lemma py_eq_str_r k s : py_eq (VStr s) k = true -> k = VStr s.
Proof. destruct k; try discriminate. cbn. intros H. apply String.eqb_eq in H. subst. reflexivity. Qed.
Lemma py_eq_str_sym k s : py_eq k (VStr s) = py_eq (VStr s) k.
Proof. destruct k; try reflexivity. cbn. apply String.eqb_sym. Qed.

Lemma dict_look_cons k k2 v2 r : dict_look k ((k2, v2) :: r) = if py_eq k k2 then Some v2 else dict_look k r.
Proof. reflexivity. Qed.
Lemma dict_look_app k a b :
  dict_look k (a ++ b) = match dict_look k a with Some v => Some v | None => dict_look k b end.
Proof.
  induction a as [|[k2 v2] r IH]; [reflexivity|]. cbn [app]. rewrite !dict_look_cons.
  destruct (py_eq k k2); [reflexivity|exact IH].
Qed.

(* a list of strings as a value *)
Definition strs (l : list string) : pyval := VList (map VStr l).
(* the normal form of a doc with description ds and examples es (already stripped) *)
Definition doc_nf (ds es : list string) : pyval :=
  VDict [(VStr "description", strs ds); (VStr "examples", strs es)].

Definition is_str (v : pyval) : bool := match v with VStr _ => true | _ => false end.
(* a list all of whose items are strings *)
Definition str_list (v : pyval) : bool := match v with VList l => forallb is_str l | _ => false end.

Example str_list_ex : str_list (strs ["a"; " b "]) = true /\ str_list (VList []) = true /\
  str_list (VStr "a") = false /\ str_list (VList [VStr "a"; VInt 1]) = false /\ str_list (VTuple [VStr "a"]) = false.
Proof. vm_compute. auto. Qed.

Lemma str_list_strs ds : str_list (strs ds) = true.
Proof. unfold strs, str_list. induction ds as [|d r IH]; [reflexivity|exact IH]. Qed.
Lemma str_list_inv v : str_list v = true -> exists ds, v = strs ds.
Proof.
  destruct v as [| | | | |l| | | |]; try discriminate. cbn [str_list]. unfold strs.
  induction l as [|x r IH]; intros H; [exists []; reflexivity|]. cbn [forallb] in H.
  apply andb_true_iff in H as [Hx Hr]. destruct x; try discriminate Hx. destruct (IH Hr) as [ds E].
  injection E as ->. eexists (_ :: ds). reflexivity.
Qed.

Lemma strip_all_strs ds : strip_all (strs ds) = Ok (strs (map str_strip ds)).
Proof.
  unfold strip_all, strs.
  assert (E : mapM (fun x => match x with VStr s => Ok (VStr (str_strip s)) | _ => Err MalformedRule end) (map VStr ds)
              = Ok (map VStr (map str_strip ds))).
  { induction ds as [|d r IH]; [reflexivity|]. cbn [map mapM bind]. rewrite IH. reflexivity. }
  rewrite E. reflexivity.
Qed.
Lemma strip_all_bad v : str_list v = false -> strip_all v = Err MalformedRule.
Proof.
  destruct v as [| | | | |l| | | |]; try reflexivity. cbn [str_list strip_all].
  induction l as [|x r IH]; [discriminate|]. cbn [forallb mapM]. intros H.
  destruct x; try reflexivity. cbn [is_str andb bind] in *. specialize (IH H).
  destruct (mapM _ r); [discriminate IH|]. cbn [bind] in *. exact IH.
Qed.
Lemma strip_all_cases v : if str_list v then exists ds, v = strs ds /\ strip_all v = Ok (strs (map str_strip ds))
                          else strip_all v = Err MalformedRule.
Proof.
  destruct (str_list v) eqn:E; [|exact (strip_all_bad v E)].
  destruct (str_list_inv v E) as [ds ->]. exists ds. split; [reflexivity|apply strip_all_strs].
Qed.
Lemma strip_all_idem v r : strip_all v = Ok r -> strip_all r = Ok r.
Proof.
  pose proof (strip_all_cases v) as H. destruct (str_list v); [|intros E; rewrite H in E; discriminate E].
  destruct H as [ds [-> H]]. rewrite H. intros [= <-]. rewrite strip_all_strs, map_map.
  rewrite (map_ext _ _ str_strip_idem). reflexivity.
Qed.

(* the three steps of the model, named *)
Definition doc_set (desc ex : pyval) (kv : pyval * pyval) : pyval * pyval :=
  if py_eq (fst kv) (VStr "description") then (fst kv, desc)
  else if py_eq (fst kv) (VStr "examples") then (fst kv, ex) else kv.
Definition desc_set (desc : pyval) (kv : pyval * pyval) : pyval * pyval :=
  if py_eq (fst kv) (VStr "description") then (fst kv, desc) else kv.
(* a string description is wrapped in a list *)
Definition doc_wrap (items : list (pyval * pyval)) : list (pyval * pyval) :=
  match dict_look (VStr "description") items with
  | Some (VStr s) => map (desc_set (VList [VStr s])) items
  | _ => items
  end.
(* missing fields are appended, description first *)
Definition doc_fill (items : list (pyval * pyval)) : list (pyval * pyval) :=
  let items1 := match dict_look (VStr "description") items with Some _ => items | None => items ++ [(VStr "description", VList [])] end in
  match dict_look (VStr "examples") items1 with Some _ => items1 | None => items1 ++ [(VStr "examples", VList [])] end.
(* the values that are stripped *)
Definition doc_desc (items : list (pyval * pyval)) : pyval :=
  match dict_look (VStr "description") items with Some (VStr s) => VList [VStr s] | Some v => v | None => VList [] end.
Definition doc_ex (items : list (pyval * pyval)) : pyval :=
  match dict_look (VStr "examples") items with Some v => v | None => VList [] end.

Lemma look_desc_set k desc items :
  dict_look (VStr k) (map (desc_set desc) items) =
  if String.eqb k "description" then match dict_look (VStr k) items with Some _ => Some desc | None => None end
  else dict_look (VStr k) items.
Proof.
  induction items as [|[k2 v2] r IH]; [destruct (String.eqb k "description"); reflexivity|].
  cbn [map]. unfold desc_set at 1. cbn [fst]. rewrite (dict_look_cons _ k2 v2 r).
  destruct (py_eq k2 (VStr "description")) eqn:E2.
  - apply py_eq_str_l in E2. subst k2. rewrite !dict_look_cons, IH. cbn [py_eq num_of]. rewrite (String.eqb_sym k).
    destruct (String.eqb "description" k); reflexivity.
  - rewrite dict_look_cons, IH. destruct (py_eq (VStr k) k2) eqn:E3; [|reflexivity].
    apply py_eq_str_r in E3. subst k2. cbn [py_eq num_of] in E2. rewrite E2. reflexivity.
Qed.

Lemma look_doc_set k desc ex items :
  dict_look (VStr k) (map (doc_set desc ex) items) =
  match dict_look (VStr k) items with
  | Some v => Some (if String.eqb k "description" then desc else if String.eqb k "examples" then ex else v)
  | None => None
  end.
Proof.
  induction items as [|[k2 v2] r IH]; [reflexivity|].
  cbn [map]. rewrite (dict_look_cons _ k2 v2 r). unfold doc_set at 1. cbn [fst].
  destruct (py_eq (VStr k) k2) eqn:E3.
  - apply py_eq_str_r in E3. subst k2. cbn [py_eq num_of].
    destruct (String.eqb k "description"); [rewrite dict_look_cons; cbn [py_eq num_of]; rewrite String.eqb_refl; reflexivity|].
    destruct (String.eqb k "examples"); rewrite dict_look_cons; cbn [py_eq num_of]; rewrite String.eqb_refl; reflexivity.
  - assert (G : forall w, dict_look (VStr k) ((k2, w) :: map (doc_set desc ex) r) = dict_look (VStr k) (map (doc_set desc ex) r)).
    { intros w. rewrite dict_look_cons, E3. reflexivity. }
    destruct (py_eq k2 (VStr "description")); [rewrite G; exact IH|].
    destruct (py_eq k2 (VStr "examples")); rewrite G; exact IH.
Qed.

Lemma doc_set_fst desc ex kv : fst (doc_set desc ex kv) = fst kv.
Proof. unfold doc_set. destruct (py_eq (fst kv) (VStr "description")); [reflexivity|]. destruct (py_eq (fst kv) (VStr "examples")); reflexivity. Qed.
Lemma doc_set_idem desc ex kv : doc_set desc ex (doc_set desc ex kv) = doc_set desc ex kv.
Proof.
  unfold doc_set at 1. rewrite doc_set_fst. unfold doc_set.
  destruct (py_eq (fst kv) (VStr "description")) eqn:E1; [reflexivity|].
  destruct (py_eq (fst kv) (VStr "examples")) eqn:E2; [reflexivity|]. reflexivity.
Qed.

(* the complete description of norm_doc on a (non-empty) mapping: which values are stripped,
   in which order they are checked (description before examples), and the keys of the result *)
Theorem norm_doc_dict items : items <> [] ->
  norm_doc (Some (VDict items)) =
  let* desc := strip_all (doc_desc items) in
  let* ex := strip_all (doc_ex items) in
  Ok (VDict (map (doc_set desc ex) (doc_fill (doc_wrap items)))).
Proof.
  intros Hne. unfold norm_doc.
  assert (Ht : py_truthy (VDict items) = true) by (destruct items; [contradiction|reflexivity]).
  rewrite Ht. cbn [negb].
  assert (E1 : (let* d1 := match dict_look (VStr "description") items with
        | Some (VStr s) => Ok (VDict (map (fun kv => if py_eq (fst kv) (VStr "description") then (fst kv, VList [VStr s]) else kv) items))
        | _ => Ok (VDict items) end in Ok d1) = Ok (VDict (doc_wrap items))).
  { unfold doc_wrap. destruct (dict_look (VStr "description") items) as [[]|]; reflexivity. }
  assert (E : match dict_look (VStr "description") items with
        | Some (VStr s) => Ok (VDict (map (fun kv => if py_eq (fst kv) (VStr "description") then (fst kv, VList [VStr s]) else kv) items))
        | _ => Ok (VDict items) end = (Ok (VDict (doc_wrap items)) : res pyval)).
  { unfold doc_wrap. destruct (dict_look (VStr "description") items) as [[]|]; reflexivity. }
  rewrite E. clear E E1. cbn [bind]. fold (doc_fill (doc_wrap items)).
  assert (Ld : dict_look (VStr "description") (doc_fill (doc_wrap items)) = Some (doc_desc items)).
  { unfold doc_fill, doc_wrap, doc_desc.
    destruct (dict_look (VStr "description") items) as [v|] eqn:E.
    - assert (G : exists items', dict_look (VStr "description") items' = Some (match v with VStr s => VList [VStr s] | _ => v end)
                   /\ match v with VStr s => map (desc_set (VList [VStr s])) items | _ => items end = items').
      { destruct v; try (exists items; split; [exact E|reflexivity]).
        eexists; split; [|reflexivity]. rewrite look_desc_set, E. reflexivity. }
      destruct G as [items' [G1 G2]]. rewrite G2, G1.
      destruct (dict_look (VStr "examples") items'); [|rewrite dict_look_app]; rewrite G1; destruct v; reflexivity.
    - rewrite E. destruct (dict_look (VStr "examples") (items ++ [(VStr "description", VList [])]));
        rewrite ?dict_look_app, ?E; reflexivity. }
  assert (Le : dict_look (VStr "examples") (doc_fill (doc_wrap items)) = Some (doc_ex items)).
  { assert (W : dict_look (VStr "examples") (doc_wrap items) = dict_look (VStr "examples") items).
    { unfold doc_wrap. destruct (dict_look (VStr "description") items) as [[]|]; try reflexivity.
      rewrite look_desc_set. reflexivity. }
    unfold doc_fill, doc_ex. rewrite <- W.
    destruct (dict_look (VStr "description") (doc_wrap items)).
    - destruct (dict_look (VStr "examples") (doc_wrap items)) eqn:E; [exact E|]. rewrite dict_look_app, E. reflexivity.
    - rewrite dict_look_app. destruct (dict_look (VStr "examples") (doc_wrap items)) eqn:E; cbn [dict_look py_eq num_of String.eqb Ascii.eqb Bool.eqb].
      + rewrite dict_look_app, E. reflexivity.
      + rewrite !dict_look_app, E. reflexivity. }
  rewrite Ld, Le. reflexivity.
Qed.

(* ---- the accepted shapes ---- *)

(* absent / None / any falsy doc ("" , [], {}, 0, False): returned as it is *)
Theorem norm_doc_absent : norm_doc None = Ok VNone.
Proof. reflexivity. Qed.
Theorem norm_doc_falsy v : py_truthy v = false -> norm_doc (Some v) = Ok v.
Proof. intros H. unfold norm_doc. rewrite H. reflexivity. Qed.
Example norm_doc_falsy_ex :
  norm_doc (Some VNone) = Ok VNone /\ norm_doc (Some (VStr "")) = Ok (VStr "") /\ norm_doc (Some (VList [])) = Ok (VList []) /\
  norm_doc (Some (VDict [])) = Ok (VDict []) /\ norm_doc (Some (VInt 0)) = Ok (VInt 0) /\ norm_doc (Some (VBool false)) = Ok (VBool false).
Proof. vm_compute. repeat split. Qed.

(* a (non-empty) list doc is the description *)
Lemma norm_doc_list_dict l : l <> [] ->
  norm_doc (Some (VList l)) = norm_doc (Some (VDict [(VStr "description", VList l); (VStr "examples", VList [])])).
Proof. intros H. destruct l; [contradiction|reflexivity]. Qed.
(* a (non-empty) string doc is the one-line description *)
Lemma norm_doc_str_list s : s <> "" -> norm_doc (Some (VStr s)) = norm_doc (Some (VList [VStr s])).
Proof. intros H. destruct s; [contradiction|reflexivity]. Qed.

Theorem norm_doc_list ds : ds <> [] -> norm_doc (Some (strs ds)) = Ok (doc_nf (map str_strip ds) []).
Proof.
  intros H. unfold strs. rewrite norm_doc_list_dict by (destruct ds; [contradiction|discriminate]).
  rewrite norm_doc_dict by discriminate. fold (strs ds).
  change (doc_desc _) with (strs ds). change (doc_ex _) with (strs []).
  rewrite !strip_all_strs. reflexivity.
Qed.

Lemma doc_wrap_list items l : dict_look (VStr "description") items = Some (VList l) -> doc_wrap items = items.
Proof. intros H. unfold doc_wrap. rewrite H. reflexivity. Qed.
Lemma doc_wrap_none items : dict_look (VStr "description") items = None -> doc_wrap items = items.
Proof. intros H. unfold doc_wrap. rewrite H. reflexivity. Qed.
Lemma doc_desc_list items l : dict_look (VStr "description") items = Some (VList l) -> doc_desc items = VList l.
Proof. intros H. unfold doc_desc. rewrite H. reflexivity. Qed.
Lemma doc_desc_none items : dict_look (VStr "description") items = None -> doc_desc items = strs [].
Proof. intros H. unfold doc_desc. rewrite H. reflexivity. Qed.
Lemma doc_ex_some items v : dict_look (VStr "examples") items = Some v -> doc_ex items = v.
Proof. intros H. unfold doc_ex. rewrite H. reflexivity. Qed.
Lemma doc_ex_none items : dict_look (VStr "examples") items = None -> doc_ex items = strs [].
Proof. intros H. unfold doc_ex. rewrite H. reflexivity. Qed.

(* a mapping with both fields, lists of strings, in any position and next to any other entries:
   both are stripped in place, every other entry is kept *)
Theorem norm_doc_mapping items ds es :
  dict_look (VStr "description") items = Some (strs ds) -> dict_look (VStr "examples") items = Some (strs es) ->
  norm_doc (Some (VDict items)) = Ok (VDict (map (doc_set (strs (map str_strip ds)) (strs (map str_strip es))) items)).
Proof.
  intros Hd He. rewrite norm_doc_dict by (destruct items; [discriminate Hd|discriminate]).
  rewrite (doc_wrap_list _ _ Hd), (doc_desc_list _ _ Hd), (doc_ex_some _ _ He). fold (strs ds).
  unfold doc_fill. rewrite Hd, He, !strip_all_strs. reflexivity.
Qed.
(* description only: "examples": [] is appended *)
Theorem norm_doc_mapping_desc items ds :
  dict_look (VStr "description") items = Some (strs ds) -> dict_look (VStr "examples") items = None ->
  norm_doc (Some (VDict items)) =
  Ok (VDict (map (doc_set (strs (map str_strip ds)) (VList [])) (items ++ [(VStr "examples", VList [])]))).
Proof.
  intros Hd He. rewrite norm_doc_dict by (destruct items; [discriminate Hd|discriminate]).
  rewrite (doc_wrap_list _ _ Hd), (doc_desc_list _ _ Hd), (doc_ex_none _ He). fold (strs ds).
  unfold doc_fill. rewrite Hd, He, !strip_all_strs. reflexivity.
Qed.
(* examples only: "description": [] is appended *)
Theorem norm_doc_mapping_ex items es :
  dict_look (VStr "description") items = None -> dict_look (VStr "examples") items = Some (strs es) ->
  norm_doc (Some (VDict items)) =
  Ok (VDict (map (doc_set (VList []) (strs (map str_strip es))) (items ++ [(VStr "description", VList [])]))).
Proof.
  intros Hd He. rewrite norm_doc_dict by (destruct items; [discriminate He|discriminate]).
  rewrite (doc_wrap_none _ Hd), (doc_desc_none _ Hd), (doc_ex_some _ _ He).
  unfold doc_fill. rewrite Hd, dict_look_app, He, !strip_all_strs. reflexivity.
Qed.
(* neither (a non-empty mapping of other entries): both are appended, description first *)
Theorem norm_doc_mapping_none items : items <> [] ->
  dict_look (VStr "description") items = None -> dict_look (VStr "examples") items = None ->
  norm_doc (Some (VDict items)) =
  Ok (VDict (map (doc_set (VList []) (VList [])) (items ++ [(VStr "description", VList [])] ++ [(VStr "examples", VList [])]))).
Proof.
  intros Hne Hd He. rewrite norm_doc_dict by exact Hne.
  rewrite (doc_wrap_none _ Hd), (doc_desc_none _ Hd), (doc_ex_none _ He).
  unfold doc_fill. rewrite Hd, dict_look_app, He, !strip_all_strs.
  cbn [dict_look py_eq num_of String.eqb Ascii.eqb Bool.eqb bind]. rewrite <- app_assoc. reflexivity.
Qed.
(* a string description in a mapping is the one-item list *)
Theorem norm_doc_mapping_str items s :
  dict_look (VStr "description") items = Some (VStr s) ->
  norm_doc (Some (VDict items)) = norm_doc (Some (VDict (map (desc_set (VList [VStr s])) items))).
Proof.
  intros Hd.
  assert (Hne : items <> []) by (destruct items; [discriminate Hd|discriminate]).
  rewrite !norm_doc_dict by (destruct items; [contradiction|discriminate]).
  assert (L : dict_look (VStr "description") (map (desc_set (VList [VStr s])) items) = Some (VList [VStr s])).
  { rewrite look_desc_set, Hd. reflexivity. }
  unfold doc_desc, doc_ex, doc_wrap. rewrite L, Hd, look_desc_set. reflexivity.
Qed.

(* the five one-line shapes of the property: one normal form, the same key order in all five *)
Theorem C10_doc_shapes_same : forall s,
  let nf := VDict [(VStr "description", VList [VStr (str_strip s)]); (VStr "examples", VList [])] in
  (s <> "" -> norm_doc (Some (VStr s)) = Ok nf) /\
  norm_doc (Some (VList [VStr s])) = Ok nf /\
  norm_doc (Some (VDict [(VStr "description", VStr s)])) = Ok nf /\
  norm_doc (Some (VDict [(VStr "description", VList [VStr s])])) = Ok nf /\
  norm_doc (Some (VDict [(VStr "description", VList [VStr s]); (VStr "examples", VList [])])) = Ok nf /\
  norm_doc (Some (VDict [(VStr "examples", VList []); (VStr "description", VStr s)])) =
    Ok (VDict [(VStr "examples", VList []); (VStr "description", VList [VStr (str_strip s)])]).
Proof.
  intros s nf. subst nf. split; [|split; [|split; [|split; [|split]]]].
  - intros H. destruct s; [contradiction|reflexivity].
  - reflexivity.
  - reflexivity.
  - reflexivity.
  - reflexivity.
  - reflexivity.
Qed.

(* NOT for the empty string: "" is falsy and stays "" (so do [], {} ...): the hypothesis s <> "" above
   is needed.  Python: Rule.from_spec({..., "doc": ""}).doc == "" whereas {"description": ""} is normalised. *)
Example C10_doc_shapes_counterexample_empty_string :
  norm_doc (Some (VStr "")) = Ok (VStr "") /\
  norm_doc (Some (VDict [(VStr "description", VStr "")])) = Ok (doc_nf [""] []) /\
  norm_doc (Some (VList [VStr ""])) = Ok (doc_nf [""] []).
Proof. vm_compute. auto. Qed.

(* all results above with the same fields are == whatever the key order *)
Lemma wf_strs ds : wf_val (strs ds) = true.
Proof. unfold strs. cbn [wf_val]. induction ds as [|d r IH]; [reflexivity|exact IH]. Qed.
Lemma py_eq_strs ds : py_eq (strs ds) (strs ds) = true.
Proof. apply py_eq_refl_wf, wf_strs. Qed.
Lemma C10_doc_shapes_py_eq ds es :
  py_eq (doc_nf ds es) (VDict [(VStr "examples", strs es); (VStr "description", strs ds)]) = true.
Proof.
  pose proof (py_eq_strs ds) as Hd. pose proof (py_eq_strs es) as He.
  unfold doc_nf. set (a := strs ds) in *. set (b := strs es) in *.
  assert (Na : num_of a = None) by reflexivity. assert (Nb : num_of b = None) by reflexivity.
  clearbody a b. cbn. rewrite Hd, He. reflexivity.
Qed.

(* ---- malformed docs ---- *)

Definition doc_container (v : pyval) : bool := match v with VDict _ | VStr _ | VList _ => true | _ => false end.

(* a truthy doc that is neither str, list nor dict (1, True, 1.5, a tuple ...): TypeError, not MalformedRuleSpec
   (`"description" not in doc` / `doc["description"] = []` raise) *)
Theorem norm_doc_not_container v : py_truthy v = true -> doc_container v = false -> norm_doc (Some v) = Err TypeError.
Proof. intros Ht Hc. unfold norm_doc. rewrite Ht. destruct v; try discriminate Hc; reflexivity. Qed.

(* a list doc with an item that is not a string *)
Theorem norm_doc_list_bad l : forallb is_str l = false -> norm_doc (Some (VList l)) = Err MalformedRule.
Proof.
  intros H. rewrite norm_doc_list_dict by (destruct l; [discriminate H|discriminate]).
  rewrite norm_doc_dict by discriminate. change (doc_desc _) with (VList l).
  rewrite (strip_all_bad (VList l) H). reflexivity.
Qed.

(* a description that is neither a string nor a list of strings *)
Theorem norm_doc_bad_description items v :
  dict_look (VStr "description") items = Some v -> is_str v = false -> str_list v = false ->
  norm_doc (Some (VDict items)) = Err MalformedRule.
Proof.
  intros Hd Hs Hl. rewrite norm_doc_dict by (destruct items; [discriminate Hd|discriminate]).
  assert (E : doc_desc items = v) by (unfold doc_desc; rewrite Hd; destruct v; try reflexivity; discriminate Hs).
  rewrite E, (strip_all_bad v Hl). reflexivity.
Qed.
(* examples that are not a list of strings (a plain string is NOT wrapped here) *)
Theorem norm_doc_bad_examples items v :
  dict_look (VStr "examples") items = Some v -> str_list v = false ->
  norm_doc (Some (VDict items)) = Err MalformedRule.
Proof.
  intros He Hl. rewrite norm_doc_dict by (destruct items; [discriminate He|discriminate]).
  rewrite (doc_ex_some _ _ He), (strip_all_bad v Hl).
  pose proof (strip_all_cases (doc_desc items)) as H. destruct (str_list (doc_desc items)).
  - destruct H as [ds [_ ->]]. reflexivity.
  - rewrite H. reflexivity.
Qed.
Example norm_doc_bad_ex :
  norm_doc (Some (VDict [(VStr "description", VInt 1)])) = Err MalformedRule /\
  norm_doc (Some (VDict [(VStr "description", VList [VStr "a"; VInt 1])])) = Err MalformedRule /\
  norm_doc (Some (VDict [(VStr "description", VTuple [VStr "a"])])) = Err MalformedRule /\
  norm_doc (Some (VDict [(VStr "examples", VStr "a")])) = Err MalformedRule /\
  norm_doc (Some (VDict [(VStr "examples", VList [VNone])])) = Err MalformedRule /\
  norm_doc (Some (VList [VStr "a"; VList [VStr "b"]])) = Err MalformedRule /\
  norm_doc (Some (VInt 1)) = Err TypeError /\ norm_doc (Some (VTuple [VStr "a"])) = Err TypeError.
Proof. vm_compute. repeat split. Qed.

(* the complete case analysis: a doc is accepted iff it is falsy, or a str / list / dict whose
   description (a string counts as [string]) and examples (absent counts as []) are lists of strings;
   the only errors are TypeError (not a container) and MalformedRule *)
Definition doc_as_items (v : pyval) : list (pyval * pyval) :=
  match v with
  | VDict items => items
  | VStr s => [(VStr "description", VList [VStr s]); (VStr "examples", VList [])]
  | _ => [(VStr "description", v); (VStr "examples", VList [])]
  end.
Definition doc_ok (v : pyval) : bool :=
  negb (py_truthy v) ||
  (doc_container v && str_list (doc_desc (doc_as_items v)) && str_list (doc_ex (doc_as_items v))).

Example doc_ok_ex :
  doc_ok (VDict [(VStr "examples", VList [VStr "x: 1 "]); (VStr "author", VInt 7); (VStr "description", VStr " a ")]) = true /\
  doc_ok (VStr "text") = true /\ doc_ok (VList [VStr "a"; VStr "b"]) = true /\ doc_ok (VDict [(VStr "x", VInt 1)]) = true /\
  doc_ok (VDict [(VStr "examples", VStr "a")]) = false /\ doc_ok (VInt 1) = false.
Proof. vm_compute. repeat split. Qed.

Lemma norm_doc_as_items v : py_truthy v = true -> doc_container v = true ->
  norm_doc (Some v) = norm_doc (Some (VDict (doc_as_items v))).
Proof.
  intros Ht Hc. destruct v; try discriminate Hc.
  - destruct s; [discriminate Ht|reflexivity].
  - destruct l; [discriminate Ht|reflexivity].
  - reflexivity.
Qed.
Lemma doc_as_items_ne v : py_truthy v = true -> doc_as_items v <> [].
Proof. destruct v; try discriminate. cbn [py_truthy doc_as_items]. destruct d; discriminate. Qed.

Theorem C10_doc_accepted : forall v,
  if doc_ok v then exists v', norm_doc (Some v) = Ok v'
  else norm_doc (Some v) = Err (if doc_container v then MalformedRule else TypeError).
Proof.
  intros v. unfold doc_ok. destruct (py_truthy v) eqn:Ht; cbn [negb orb].
  2:{ exists v. apply norm_doc_falsy. exact Ht. }
  destruct (doc_container v) eqn:Hc; cbn [andb].
  2:{ apply norm_doc_not_container; assumption. }
  rewrite (norm_doc_as_items v Ht Hc), (norm_doc_dict _ (doc_as_items_ne v Ht)).
  pose proof (strip_all_cases (doc_desc (doc_as_items v))) as H1.
  pose proof (strip_all_cases (doc_ex (doc_as_items v))) as H2.
  destruct (str_list (doc_desc (doc_as_items v))); cbn [andb].
  - destruct H1 as [ds [_ ->]]. cbn [bind]. destruct (str_list (doc_ex (doc_as_items v))).
    + destruct H2 as [es [_ ->]]. eexists. reflexivity.
    + rewrite H2. reflexivity.
  - rewrite H1. reflexivity.
Qed.

Lemma doc_fill_has items :
  (exists w, dict_look (VStr "description") (doc_fill items) = Some w) /\
  (exists w, dict_look (VStr "examples") (doc_fill items) = Some w).
Proof.
  unfold doc_fill.
  set (items1 := match dict_look (VStr "description") items with Some _ => items | None => items ++ [(VStr "description", VList [])] end).
  assert (H1 : exists w, dict_look (VStr "description") items1 = Some w).
  { unfold items1. destruct (dict_look (VStr "description") items) eqn:E; [eexists; exact E|].
    rewrite dict_look_app, E. eexists. reflexivity. }
  destruct H1 as [w1 H1].
  destruct (dict_look (VStr "examples") items1) eqn:E; split.
  - eexists; exact H1.
  - eexists; exact E.
  - rewrite dict_look_app, H1. eexists; reflexivity.
  - rewrite dict_look_app, E. eexists; reflexivity.
Qed.

(* ---- idempotence: a normalised doc is a fixed point ---- *)
Theorem C10_doc_idempotent : forall v v', norm_doc (Some v) = Ok v' -> norm_doc (Some v') = Ok v'.
Proof.
  intros v v' H. destruct (py_truthy v) eqn:Ht.
  2:{ rewrite (norm_doc_falsy v Ht) in H. injection H as <-. apply norm_doc_falsy. exact Ht. }
  destruct (doc_container v) eqn:Hc.
  2:{ rewrite (norm_doc_not_container v Ht Hc) in H. discriminate H. }
  rewrite (norm_doc_as_items v Ht Hc), (norm_doc_dict _ (doc_as_items_ne v Ht)) in H.
  set (items := doc_as_items v) in *.
  apply bind_ok in H as [desc [Hd H]]. apply bind_ok in H as [ex [He H]]. injection H as <-.
  set (items2 := doc_fill (doc_wrap items)).
  destruct (doc_fill_has (doc_wrap items)) as [L1 L2]. fold items2 in L1, L2.
  destruct L1 as [w1 L1]. destruct L2 as [w2 L2].
  set (out := map (doc_set desc ex) items2).
  assert (O1 : dict_look (VStr "description") out = Some desc).
  { unfold out. rewrite look_doc_set, L1. reflexivity. }
  assert (O2 : dict_look (VStr "examples") out = Some ex).
  { unfold out. rewrite look_doc_set, L2. reflexivity. }
  pose proof (strip_all_cases (doc_desc items)) as C1. destruct (str_list (doc_desc items)); [|rewrite C1 in Hd; discriminate Hd].
  destruct C1 as [ds [_ C1]]. rewrite C1 in Hd. injection Hd as <-.
  rewrite norm_doc_dict by (destruct out; [discriminate O1|discriminate]).
  rewrite (doc_wrap_list _ _ O1), (doc_desc_list _ _ O1), (doc_ex_some _ _ O2).
  fold (strs (map str_strip ds)). rewrite (strip_all_idem _ _ C1), (strip_all_idem _ _ He). cbn [bind].
  unfold doc_fill. rewrite O1, O2. unfold out. rewrite map_map.
  rewrite (map_ext _ _ (doc_set_idem (strs (map str_strip ds)) ex)). reflexivity.
Qed.

(* ================================================================== *)
(* 2. cast shapes (parse_casts)                                         *)

(* the written form of CAST_LOOKUP: (from-name, to-name) -> (from-type, function) *)
Definition named_cast (a b : string) : option (pytype * castfn) :=
  if String.eqb a "str" && String.eqb b "bool" then Some (TStr, CastStrBool)
  else if String.eqb a "str" && String.eqb b "int" then Some (TStr, CastStrInt)
  else None.

(* it is the generated table: every entry of CAST_LOOKUP, spelled with CAST_DTYPE_LOOKUP, and nothing else
   among all pairs of names *)
Example named_cast_is_table :
  forallb (fun e => match e with (a, _, f) =>
     match cast_pair (a, f) with
     | (VStr n1, VStr n2) => match named_cast n1 n2 with Some (a', f') => pytype_eqb a a' && castfn_eqb f f' | None => false end
     | _ => false end end) (sx_cast_lookup X) = true /\
  forallb (fun n1 => forallb (fun n2 =>
     match named_cast (fst n1) (fst n2) with
     | Some c => cast_entry_ok c
     | None => true end) (sx_cast_dtype X)) (sx_cast_dtype X) = true.
Proof. vm_compute. auto. Qed.

Lemma cast_dtype_table : sx_cast_dtype X = [("str", TStr); ("bool", TBool); ("int", TInt)].
Proof. vm_compute. reflexivity. Qed.
Lemma cast_lookup_table : sx_cast_lookup X = [(TStr, TBool, CastStrBool); (TStr, TInt, CastStrInt)].
Proof. vm_compute. reflexivity. Qed.

(* one entry {a: b} of names *)
Lemma parse_item_names_total a b :
  parse_item (VStr a, VStr b) = match named_cast a b with Some c => Ok c | None => Err MalformedRule end.
Proof.
  unfold parse_item, named_cast. cbn [fst snd]. rewrite cast_dtype_table, cast_lookup_table. cbn [assoc_str].
  rewrite (String.eqb_sym a "str"), (String.eqb_sym b "bool"), (String.eqb_sym b "int").
  destruct (String.eqb_spec "str" a) as [<-|Ha]; [|destruct (String.eqb "bool" a); [|destruct (String.eqb "int" a)]].
  - cbn [bind andb]. destruct (String.eqb_spec "str" b) as [<-|Hb]; [reflexivity|].
    destruct (String.eqb "bool" b); [reflexivity|]. destruct (String.eqb "int" b); reflexivity.
  - cbn [bind andb]. destruct (String.eqb "str" b); [reflexivity|].
    destruct (String.eqb "bool" b); [reflexivity|]. destruct (String.eqb "int" b); reflexivity.
  - cbn [bind andb]. destruct (String.eqb "str" b); [reflexivity|].
    destruct (String.eqb "bool" b); [reflexivity|]. destruct (String.eqb "int" b); reflexivity.
  - reflexivity.
Qed.

(* any entry: a key that is not a name of the table -> MalformedRule; then a value that is not a name:
   MalformedRule if it is hashable, TypeError if not (CAST_DTYPE_LOOKUP[cast_to] raises TypeError, which the
   `except KeyError` does not catch) *)
Definition known_name (a : string) : bool := match assoc_str a (sx_cast_dtype X) with Some _ => true | None => false end.
Lemma parse_item_cases k v :
  parse_item (k, v) =
  match k with
  | VStr a =>
      if known_name a then
        match v with
        | VStr b => match named_cast a b with Some c => Ok c | None => Err MalformedRule end
        | _ => if py_hashable v then Err MalformedRule else Err TypeError
        end
      else Err MalformedRule
  | _ => Err MalformedRule
  end.
Proof.
  destruct k as [| | | |a| | | | |]; try reflexivity.
  destruct v as [| | | |b| | | | |]; try (unfold parse_item, known_name; cbn [fst snd];
    destruct (assoc_str a (sx_cast_dtype X)); cbn [bind]; try reflexivity;
    match goal with |- context [py_hashable ?v] => destruct (py_hashable v) end; reflexivity).
  rewrite parse_item_names_total. unfold known_name, named_cast. rewrite cast_dtype_table. cbn [assoc_str].
  rewrite (String.eqb_sym a "str").
  destruct (String.eqb "str" a); [reflexivity|]. cbn [andb].
  destruct (String.eqb "bool" a); [reflexivity|]. destruct (String.eqb "int" a); reflexivity.
Qed.

(* a whole mapping of names *)
Fixpoint casts_of_names (d : list (pyval * pyval)) : option (list (pytype * castfn)) :=
  match d with
  | [] => Some []
  | (VStr a, VStr b) :: r =>
      match named_cast a b, casts_of_names r with Some c, Some l => Some (c :: l) | _, _ => None end
  | _ :: _ => None
  end.
Definition names_only (d : list (pyval * pyval)) : bool := forallb (fun kv => is_str (fst kv) && is_str (snd kv)) d.

Example casts_of_names_ex :
  casts_of_names [(VStr "str", VStr "int")] = Some [(TStr, CastStrInt)] /\
  casts_of_names [(VStr "str", VStr "bool")] = Some [(TStr, CastStrBool)] /\
  casts_of_names [(VStr "str", VStr "str")] = None /\ casts_of_names [(VStr "int", VStr "str")] = None /\
  casts_of_names [(VStr "str", VStr "float")] = None /\ names_only [(VStr "str", VStr "float")] = true.
Proof. vm_compute. repeat split. Qed.

Lemma mapM_parse_names d : names_only d = true ->
  mapM parse_item d = match casts_of_names d with Some l => Ok l | None => Err MalformedRule end.
Proof.
  unfold names_only. induction d as [|[k v] r IH]; [reflexivity|]. cbn [forallb fst snd]. intros H.
  apply andb_true_iff in H as [H Hr]. apply andb_true_iff in H as [Hk Hv].
  destruct k; try discriminate Hk. destruct v; try discriminate Hv.
  cbn [mapM casts_of_names]. rewrite parse_item_names_total, (IH Hr).
  destruct (named_cast s s0); [|reflexivity]. cbn [bind]. destruct (casts_of_names r); reflexivity.
Qed.

Theorem C10_cast_shapes :
  (* absent, None *)
  parse_casts X None = Ok ([], false) /\ parse_casts X (Some VNone) = Ok ([], false) /\
  (* a mapping of names: the functions of the table, or MalformedRule as soon as one pair is outside it *)
  (forall d, names_only d = true ->
     parse_casts X (Some (VDict d)) = match casts_of_names d with Some l => Ok (l, true) | None => Err MalformedRule end) /\
  (* ... in particular the written form of any list of table entries *)
  (forall casts, casts_in_c13 casts = true -> parse_casts X (Some (casts_json casts)) = Ok (casts, true)) /\
  (* ... and whatever is accepted is a list of table entries written that way *)
  (forall d casts g, parse_casts X (Some (VDict d)) = Ok (casts, g) ->
     g = true /\ casts_in_c13 casts = true /\ VDict d = casts_json casts) /\
  (* a cast that is neither None nor a mapping *)
  (forall v, v <> VNone -> (forall d, v <> VDict d) -> parse_casts X (Some v) = Err MalformedRule).
Proof.
  split; [reflexivity|]. split; [reflexivity|]. split; [|split; [|split]].
  - intros d H. rewrite parse_casts_dict, (mapM_parse_names d H). destruct (casts_of_names d); reflexivity.
  - intros casts H. exact (proj2 (proj2 (C13_casts casts H))).
  - intros d casts g H. assert (g = true).
    { rewrite parse_casts_dict in H. apply bind_ok in H as [l [_ H]]. injection H as _ <-. reflexivity. }
    subst g. split; [reflexivity|]. destruct (C13_casts_names d casts H) as [H1 H2]. split; [exact H1|].
    destruct (C13_casts casts H1) as [H3 _]. rewrite H3 in H2. injection H2 as <-. reflexivity.
  - intros v H1 H2. destruct v; try reflexivity; [contradiction H1; reflexivity|contradiction (H2 d); reflexivity].
Qed.

(* the first entry outside the table decides *)
Theorem C10_cast_first_error : forall d1 kv d2 casts e,
  mapM parse_item d1 = Ok casts -> parse_item kv = Err e ->
  parse_casts X (Some (VDict (d1 ++ kv :: d2))) = Err e.
Proof.
  intros d1 kv d2 casts e H1 H2. rewrite parse_casts_dict, (mapM_first_error parse_item d1 kv d2 casts e H1 H2). reflexivity.
Qed.

(* values that are not names: NOT always MalformedRule *)
Example C10_cast_value_not_a_name :
  parse_casts X (Some (VDict [(VStr "str", VInt 1)])) = Err MalformedRule /\
  parse_casts X (Some (VDict [(VStr "str", VNone)])) = Err MalformedRule /\
  parse_casts X (Some (VDict [(VInt 1, VStr "int")])) = Err MalformedRule /\
  parse_casts X (Some (VDict [(VStr "float", VList [VStr "int"])])) = Err MalformedRule /\
  parse_casts X (Some (VDict [(VStr "str", VList [VStr "int"])])) = Err TypeError /\
  parse_casts X (Some (VDict [(VStr "str", VDict [])])) = Err TypeError /\
  parse_casts X (Some (VList [VStr "str"; VStr "int"])) = Err MalformedRule /\
  parse_casts X (Some (VStr "str")) = Err MalformedRule /\ parse_casts X (Some (VDict [])) = Ok ([], true).
Proof. vm_compute. repeat split. Qed.

(* ================================================================== *)
(* 3. Rule.from_spec: the four entries and the order of their errors    *)

(* the unfolding equation: only the entries "path", "condition", "doc", "cast" are read;
   they are evaluated in the order path (iterated, then parsed as part specs), condition, doc, cast *)
Theorem C10_rule_fields : forall d pv c,
  dict_look (VStr "path") d = Some pv -> dict_look (VStr "condition") d = Some c ->
  rule_from_spec T X (VDict d) =
  let* parts := py_iter pv in
  let* pt := from_part_specs T X parts in
  let* (ct, _) := cond1_from_spec T X c in
  let* doc := norm_doc (dict_look (VStr "doc") d) in
  let* (casts, given) := parse_casts X (dict_look (VStr "cast") d) in
  Ok ({| rt_path_t := pt; rt_cond_t := ct; rt_cast_t := casts |}, {| rx_doc := doc; rx_cast_given := given |}).
Proof.
  intros d pv c Hp Hc. unfold rule_from_spec, get_item, get_opt. rewrite Hp, Hc. reflexivity.
Qed.

(* the usual case: "path" is a list *)
Corollary C10_rule_fields_list : forall d parts c,
  dict_look (VStr "path") d = Some (VList parts) -> dict_look (VStr "condition") d = Some c ->
  rule_from_spec T X (VDict d) =
  let* pt := from_part_specs T X parts in
  let* (ct, _) := cond1_from_spec T X c in
  let* doc := norm_doc (dict_look (VStr "doc") d) in
  let* (casts, given) := parse_casts X (dict_look (VStr "cast") d) in
  Ok ({| rt_path_t := pt; rt_cond_t := ct; rt_cast_t := casts |}, {| rx_doc := doc; rx_cast_given := given |}).
Proof. intros d parts c Hp Hc. rewrite (C10_rule_fields d _ c Hp Hc). reflexivity. Qed.

(* entries other than these four are ignored: two specs that agree on the four give the same result *)
Definition rule_keys : list string := ["path"; "condition"; "doc"; "cast"].
Theorem C10_rule_other_entries_ignored : forall d d',
  (forall k, In k rule_keys -> dict_look (VStr k) d = dict_look (VStr k) d') ->
  rule_from_spec T X (VDict d) = rule_from_spec T X (VDict d').
Proof.
  intros d d' H. unfold rule_from_spec, get_item, get_opt.
  rewrite (H "path"), (H "condition"), (H "doc"), (H "cast") by (cbn; auto 6). reflexivity.
Qed.
(* ... e.g. an entry under any other key can be added at the end *)
Corollary C10_rule_extra_entry : forall d k v, ~ In k rule_keys ->
  rule_from_spec T X (VDict (d ++ [(VStr k, v)])) = rule_from_spec T X (VDict d).
Proof.
  intros d k v Hk. apply C10_rule_other_entries_ignored. intros k' Hk'. rewrite dict_look_app.
  destruct (dict_look (VStr k') d); [reflexivity|]. rewrite dict_look_cons. cbn [py_eq num_of].
  destruct (String.eqb_spec k' k) as [->|_]; [contradiction|reflexivity].
Qed.

(* which error wins: the first failing step in the order
   spec["path"] -> iteration -> part specs -> spec["condition"] -> condition -> doc -> cast *)
Theorem C10_rule_error_order : forall d,
  match dict_look (VStr "path") d with
  | None => rule_from_spec T X (VDict d) = Err KeyError
  | Some pv =>
    match py_iter pv with
    | Err e => rule_from_spec T X (VDict d) = Err e
    | Ok parts =>
      match from_part_specs T X parts with
      | Err e => rule_from_spec T X (VDict d) = Err e
      | Ok pt =>
        match dict_look (VStr "condition") d with
        | None => rule_from_spec T X (VDict d) = Err KeyError
        | Some c =>
          match cond1_from_spec T X c with
          | Err e => rule_from_spec T X (VDict d) = Err e
          | Ok (ct, _) =>
            match norm_doc (dict_look (VStr "doc") d) with
            | Err e => rule_from_spec T X (VDict d) = Err e
            | Ok doc =>
              match parse_casts X (dict_look (VStr "cast") d) with
              | Err e => rule_from_spec T X (VDict d) = Err e
              | Ok (casts, given) =>
                  rule_from_spec T X (VDict d) =
                  Ok ({| rt_path_t := pt; rt_cond_t := ct; rt_cast_t := casts |}, {| rx_doc := doc; rx_cast_given := given |})
              end
            end
          end
        end
      end
    end
  end.
Proof.
  intros d. unfold rule_from_spec, get_item, get_opt.
  destruct (dict_look (VStr "path") d) as [pv|]; [|reflexivity]. cbn [bind].
  destruct (py_iter pv) as [parts|e]; [|reflexivity]. cbn [bind].
  destruct (from_part_specs T X parts) as [pt|e]; [|reflexivity]. cbn [bind].
  destruct (dict_look (VStr "condition") d) as [c|]; [|reflexivity]. cbn [bind].
  destruct (cond1_from_spec T X c) as [[ct cc]|e]; [|reflexivity]. cbn [bind].
  destruct (norm_doc (dict_look (VStr "doc") d)) as [doc|e]; [|reflexivity]. cbn [bind].
  destruct (parse_casts X (dict_look (VStr "cast") d)) as [[casts given]|e]; reflexivity.
Qed.

(* a spec that is not a mapping *)
Theorem C10_rule_not_a_mapping : forall v, (forall d, v <> VDict d) -> rule_from_spec T X v = Err TypeError.
Proof. intros v H. destruct v; try reflexivity. contradiction (H d). reflexivity. Qed.

(* the order, on instances: path (TypeError) before condition (MalformedCond) before doc before cast;
   doc and cast are told apart by swapping which of them raises TypeError / MalformedRule *)
Definition ex_spec (path cond doc cast : pyval) : pyval :=
  VDict [(VStr "cast", cast); (VStr "doc", doc); (VStr "condition", cond); (VStr "path", path)].
Example C10_rule_error_order_ex :
  let bad_path := VList [VNone] in let bad_cond := VDict [(VStr "value.no_such", VInt 1)] in
  let good_path := VList [VStr "a"] in let good_cond := VDict [(VStr "value.equal_to", VInt 1)] in
  let doc_type_error := VInt 1 in let doc_malformed := VDict [(VStr "examples", VInt 1)] in
  let cast_type_error := VDict [(VStr "str", VList [])] in let cast_malformed := VInt 1 in
  rule_from_spec T X (ex_spec bad_path bad_cond doc_malformed cast_malformed) = Err TypeError /\
  rule_from_spec T X (ex_spec good_path bad_cond doc_type_error cast_type_error) = Err MalformedCond /\
  rule_from_spec T X (ex_spec good_path good_cond doc_malformed cast_type_error) = Err MalformedRule /\
  rule_from_spec T X (ex_spec good_path good_cond doc_type_error cast_malformed) = Err TypeError /\
  rule_from_spec T X (ex_spec good_path good_cond (VStr "d") cast_type_error) = Err TypeError /\
  rule_from_spec T X (ex_spec good_path good_cond (VStr "d") cast_malformed) = Err MalformedRule /\
  rule_from_spec T X (VDict [(VStr "condition", bad_cond)]) = Err KeyError /\
  rule_from_spec T X (VDict [(VStr "path", bad_path)]) = Err TypeError /\
  rule_from_spec T X (VDict [(VStr "path", good_path); (VStr "doc", doc_malformed)]) = Err KeyError.
Proof. vm_compute. repeat split. Qed.

(* ================================================================== *)
(* 4. the parsed rule is the rule the API builds                        *)

(* Fragment: path = primitive parts and MapValue() / ListValue() / MapOrListValue() without conditions
   (simple_pterm of C13, written sp_spec); condition = the spelling leaf_spec c q of a typed leaf of the C09
   fragment; cast / doc anything that parse_casts / norm_doc accept (see sections 1, 2).  The spec is ANY mapping
   holding these entries, in any order, next to any other entries.

   from_spec returns a rule term; what it builds (mk_rule) is the rule object that the API call
   Rule(path=DataPath(parts...), condition=<leaf>, cast=casts) builds (mk_rule of the term c13_term):
   the same DataPath object, the condition `expected_leaf c q`, the same casts. *)
Definition api_path (ts : list (pterm pyval)) : pathterm pyval := {| pt_parts := ts; pt_mods := []; pt_src := None |}.

Lemma api_path_builds ts : forallb simple_pterm ts = true ->
  mk_path T idlit (api_path ts) = Ok (Build_dpath (map sp_part ts) (sp_conc ts) DtNone MtNone None) /\
  mk_path T idlit (api_path (map sp_back ts)) = Ok (Build_dpath (map sp_part ts) (sp_conc ts) DtNone MtNone None).
Proof.
  intros H. unfold mk_path, api_path. cbn [pt_parts pt_mods pt_src].
  rewrite (sp_mk_parts ts H), (sp_mk_parts_back ts H). split; reflexivity.
Qed.

Lemma simple_specs_parse ts : forallb simple_pterm ts = true ->
  from_part_specs T X (map sp_spec ts) = Ok (api_path (map sp_back ts)).
Proof.
  intros H. unfold from_part_specs, path_from_part_specs. fold spec_fuel. rewrite (sp_parse_all ts H). cbn [bind].
  change Spec.id0 with idlit. fold (api_path (map sp_back ts)). rewrite (proj2 (api_path_builds ts H)). reflexivity.
Qed.

Lemma leaf_term_builds c q : leaf_in_c09 c q = true ->
  build1 T (dslc_map ALit (qterm (QLeaf c q))) = Ok (cmapL (CLeaf (expected_leaf c q))).
Proof.
  intros H. destruct (leaf_in_c09_inv c q H) as [Hc _].
  rewrite build1_lit. cbn [qterm]. rewrite (build_leaf_term c q Hc). reflexivity.
Qed.

Theorem C10_rule_builds_api_rule : forall d ts c q casts g doc,
  forallb simple_pterm ts = true -> leaf_in_c09 c q = true -> q_items_ok q = true ->
  dict_look (VStr "path") d = Some (VList (map sp_spec ts)) ->
  dict_look (VStr "condition") d = Some (leaf_spec c q) ->
  norm_doc (dict_look (VStr "doc") d) = Ok doc ->
  parse_casts X (dict_look (VStr "cast") d) = Ok (casts, g) ->
  exists tm p,
    rule_from_spec T X (VDict d) =
      Ok ({| rt_path_t := api_path (map sp_back ts); rt_cond_t := tm; rt_cast_t := casts |},
          {| rx_doc := doc; rx_cast_given := g |}) /\
    mk_path T idlit (api_path ts) = Ok p /\
    mk_rule T {| rt_path_t := api_path (map sp_back ts); rt_cond_t := tm; rt_cast_t := casts |} =
      Ok {| r_path := p; r_cond := cmapL (CLeaf (expected_leaf c q)); r_cast := casts |} /\
    mk_rule T (c13_term (api_path ts) (QLeaf c q) casts) =
      Ok {| r_path := p; r_cond := cmapL (CLeaf (expected_leaf c q)); r_cast := casts |}.
Proof.
  intros d ts c q casts g doc Hts Hin Hit Hp Hc Hdoc Hcast.
  destruct (C09_leaf_partial c q Hin Hit) as [tm Htm].
  destruct (api_path_builds ts Hts) as [Hb1 Hb2].
  exists tm. eexists. split; [|split; [exact Hb1|split]].
  - rewrite (C10_rule_fields_list d _ _ Hp Hc), (simple_specs_parse ts Hts). cbn [bind].
    rewrite Htm. cbn [bind]. rewrite Hdoc. cbn [bind]. rewrite Hcast. reflexivity.
  - unfold mk_rule. cbn [rt_path_t rt_cond_t rt_cast_t]. change Rule.id0 with idlit. rewrite Hb2. cbn [bind].
    rewrite (cond1_from_spec_build1 _ _ _ Htm). reflexivity.
  - unfold mk_rule, c13_term. cbn [rt_path_t rt_cond_t rt_cast_t]. change Rule.id0 with idlit. rewrite Hb1. cbn [bind].
    rewrite (leaf_term_builds c q Hin). reflexivity.
Qed.

(* the case of the property: primitive parts (str / int / bool / float), cast names of the table *)
Definition prim_ok (v : pyval) : bool :=
  match v with VStr _ | VInt _ | VBool _ | VFloat _ _ _ => true | _ => false end.
Example prim_ok_ex : forallb prim_ok [VStr "a"; VInt 0; VInt (-1); VBool true] = true /\ prim_ok VNone = false /\ prim_ok (VList []) = false.
Proof. vm_compute. auto. Qed.

Lemma prims_simple parts : forallb prim_ok parts = true ->
  forallb simple_pterm (map PtPrim parts) = true /\ map sp_spec (map PtPrim parts) = parts /\
  map sp_back (map PtPrim parts) = map PtPrim parts.
Proof.
  induction parts as [|v r IH]; [repeat split|]. cbn [forallb map]. intros H. apply andb_true_iff in H as [Hv Hr].
  destruct (IH Hr) as [H1 [H2 H3]]. rewrite H1, H2, H3. cbn [sp_spec sp_back].
  destruct v; try discriminate Hv; repeat split.
Qed.

Corollary C10_rule_builds_api_rule_prims : forall d parts c q casts doc,
  forallb prim_ok parts = true -> leaf_in_c09 c q = true -> q_items_ok q = true -> casts_in_c13 casts = true ->
  dict_look (VStr "path") d = Some (VList parts) ->
  dict_look (VStr "condition") d = Some (leaf_spec c q) ->
  dict_look (VStr "cast") d = Some (casts_json casts) ->
  norm_doc (dict_look (VStr "doc") d) = Ok doc ->
  exists tm p,
    rule_from_spec T X (VDict d) =
      Ok ({| rt_path_t := api_path (map PtPrim parts); rt_cond_t := tm; rt_cast_t := casts |},
          {| rx_doc := doc; rx_cast_given := true |}) /\
    mk_path T idlit (api_path (map PtPrim parts)) = Ok p /\
    mk_rule T {| rt_path_t := api_path (map PtPrim parts); rt_cond_t := tm; rt_cast_t := casts |} =
      Ok {| r_path := p; r_cond := cmapL (CLeaf (expected_leaf c q)); r_cast := casts |} /\
    mk_rule T (c13_term (api_path (map PtPrim parts)) (QLeaf c q) casts) =
      Ok {| r_path := p; r_cond := cmapL (CLeaf (expected_leaf c q)); r_cast := casts |}.
Proof.
  intros d parts c q casts doc Hp Hin Hit Hk Hpath Hcond Hcast Hdoc.
  destruct (prims_simple parts Hp) as [H1 [H2 H3]].
  assert (Hk' : parse_casts X (dict_look (VStr "cast") d) = Ok (casts, true)).
  { rewrite Hcast. exact (proj2 (proj2 (C13_casts casts Hk))). }
  rewrite <- H2 in Hpath.
  destruct (C10_rule_builds_api_rule d (map PtPrim parts) c q casts true doc H1 Hin Hit Hpath Hcond Hdoc Hk')
    as [tm [p H]]. rewrite H3 in H. exists tm, p. exact H.
Qed.

(* an instance, evaluated: all four entries, an ignored one, doc as a string, cast by names *)
Example C10_rule_ex :
  let spec := VDict [(VStr "doc", VStr " the port
"); (VStr "cast", VDict [(VStr "str", VStr "int")]); (VStr "note", VInt 7);
                     (VStr "condition", leaf_spec SValue (Q_equal_to (VInt 80))); (VStr "path", VList [VStr "server"; VInt 0; VStr "port"])] in
  match rule_from_spec T X spec with
  | Ok (rt, ex) =>
      rt_path_t rt = api_path [PtPrim (VStr "server"); PtPrim (VInt 0); PtPrim (VStr "port")] /\
      rt_cast_t rt = [(TStr, CastStrInt)] /\ rx_cast_given ex = true /\ rx_doc ex = doc_nf ["the port"] [] /\
      rmap r_cond (mk_rule T rt) = Ok (cmapL (CLeaf (expected_leaf SValue (Q_equal_to (VInt 80)))))
  | Err _ => False
  end.
Proof. vm_compute. repeat split. Qed.

(* the same for a whole condition tree (and / or / xor of typed leaves, the C09 fragment), errors included:
   building what from_spec returns = building the API term Rule(DataPath(parts...), <tree>, casts);
   if the tree mixes Key and Index conditions both fail with the same exception *)
Theorem C10_rule_builds_api_rule_tree : forall d ts t casts g doc,
  forallb simple_pterm ts = true ->
  tree_in_c09 t = true -> tree_items_ok t = true -> tree_depth t <= 40 ->
  dict_look (VStr "path") d = Some (VList (map sp_spec ts)) ->
  dict_look (VStr "condition") d = Some (tree_spec t) ->
  norm_doc (dict_look (VStr "doc") d) = Ok doc ->
  parse_casts X (dict_look (VStr "cast") d) = Ok (casts, g) ->
  (let* x := rule_from_spec T X (VDict d) in mk_rule T (fst x)) = mk_rule T (c13_term (api_path ts) t casts) /\
  (forall rt ex, rule_from_spec T X (VDict d) = Ok (rt, ex) ->
     rt_path_t rt = api_path (map sp_back ts) /\ rt_cast_t rt = casts /\ ex = {| rx_doc := doc; rx_cast_given := g |}).
Proof.
  intros d ts t casts g doc Hts Hin Hit Hd Hp Hc Hdoc Hcast.
  pose proof (C09_tree_dsl_partial t Hin Hit Hd) as Ht.
  destruct (api_path_builds ts Hts) as [Hb1 Hb2].
  rewrite (C10_rule_fields_list d _ _ Hp Hc), (simple_specs_parse ts Hts). cbn [bind].
  unfold mk_rule at 2. unfold c13_term. cbn [rt_path_t rt_cond_t rt_cast_t]. change Rule.id0 with idlit. rewrite Hb1. cbn [bind].
  rewrite <- Ht.
  destruct (cond1_from_spec T X (tree_spec t)) as [[tm cc]|e] eqn:E; cbn [bind rmap snd].
  - rewrite Hdoc. cbn [bind]. rewrite Hcast. cbn [bind fst]. split.
    + unfold mk_rule. cbn [rt_path_t rt_cond_t rt_cast_t]. change Rule.id0 with idlit. rewrite Hb2. cbn [bind].
      rewrite (cond1_from_spec_build1 _ _ _ E). reflexivity.
    + intros rt ex [= <- <-]. repeat split.
  - split; [reflexivity|]. intros rt ex H. discriminate H.
Qed.

(* ================================================================== *)
(* 5. the doc shapes, collected                                         *)

Theorem C10_doc_shapes :
  (* one-line docs: five spellings, one normal form (and the same key order) *)
  (forall s, s <> "" ->
     let nf := VDict [(VStr "description", VList [VStr (str_strip s)]); (VStr "examples", VList [])] in
     norm_doc (Some (VStr s)) = Ok nf /\
     norm_doc (Some (VList [VStr s])) = Ok nf /\
     norm_doc (Some (VDict [(VStr "description", VStr s)])) = Ok nf /\
     norm_doc (Some (VDict [(VStr "description", VList [VStr s])])) = Ok nf /\
     norm_doc (Some (VDict [(VStr "description", VList [VStr s]); (VStr "examples", VList [])])) = Ok nf) /\
  (* a list of strings is the description *)
  (forall ds, ds <> [] -> norm_doc (Some (strs ds)) = Ok (doc_nf (map str_strip ds) [])) /\
  (* both fields: both stripped; in the other key order the order is kept and the result is == *)
  (forall ds es, norm_doc (Some (doc_nf ds es)) = Ok (doc_nf (map str_strip ds) (map str_strip es))) /\
  (forall ds es, norm_doc (Some (VDict [(VStr "examples", strs es); (VStr "description", strs ds)])) =
                 Ok (VDict [(VStr "examples", strs (map str_strip es)); (VStr "description", strs (map str_strip ds))]) /\
                 py_eq (doc_nf (map str_strip ds) (map str_strip es))
                       (VDict [(VStr "examples", strs (map str_strip es)); (VStr "description", strs (map str_strip ds))]) = true) /\
  (* absent / falsy *)
  norm_doc None = Ok VNone /\ norm_doc (Some VNone) = Ok VNone /\
  (forall v, py_truthy v = false -> norm_doc (Some v) = Ok v) /\
  (* malformed *)
  (forall l, forallb is_str l = false -> norm_doc (Some (VList l)) = Err MalformedRule) /\
  (forall items v, dict_look (VStr "description") items = Some v -> is_str v = false -> str_list v = false ->
     norm_doc (Some (VDict items)) = Err MalformedRule) /\
  (forall items v, dict_look (VStr "examples") items = Some v -> str_list v = false ->
     norm_doc (Some (VDict items)) = Err MalformedRule) /\
  (* idempotent *)
  (forall v v', norm_doc (Some v) = Ok v' -> norm_doc (Some v') = Ok v').
Proof.
  split; [|split; [|split; [|split; [|split; [|split; [|split; [|split; [|split; [|split]]]]]]]]].
  - intros s Hs nf. destruct (C10_doc_shapes_same s) as [H1 [H2 [H3 [H4 [H5 _]]]]]. repeat split; auto.
  - exact norm_doc_list.
  - intros ds es. unfold doc_nf. rewrite (norm_doc_mapping _ ds es) by reflexivity. reflexivity.
  - intros ds es. split; [|apply C10_doc_shapes_py_eq].
    rewrite (norm_doc_mapping _ ds es) by reflexivity. reflexivity.
  - reflexivity.
  - reflexivity.
  - exact norm_doc_falsy.
  - exact norm_doc_list_bad.
  - exact norm_doc_bad_description.
  - exact norm_doc_bad_examples.
  - exact C10_doc_idempotent.
Qed.

Print Assumptions str_strip_idem.
Print Assumptions norm_doc_dict.
Print Assumptions C10_doc_shapes.
Print Assumptions C10_doc_accepted.
Print Assumptions C10_doc_idempotent.
Print Assumptions C10_cast_shapes.
Print Assumptions C10_cast_first_error.
Print Assumptions C10_rule_fields.
Print Assumptions C10_rule_other_entries_ignored.
Print Assumptions C10_rule_error_order.
Print Assumptions C10_rule_builds_api_rule.
Print Assumptions C10_rule_builds_api_rule_prims.
Print Assumptions C10_rule_builds_api_rule_tree.
