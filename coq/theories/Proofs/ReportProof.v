(* The failure report names every failing path, under the number of its rule, in rule order; a valid result has the one-line
   report.  Assembly only: the texts of paths / values / reasons are inputs (Report.v). *)
From Coq Require Import List Bool String Ascii Arith Lia.
From Valida Require Import Report.
Import ListNotations.
Local Open Scope list_scope.
Local Open Scope string_scope.

Definition infix_of (s t : string) : Prop := exists a b, t = a ++ s ++ b.

Lemma sapp_assoc a b c : (a ++ b) ++ c = a ++ (b ++ c).
Proof. induction a as [ | x a IH ]; cbn; [ reflexivity | rewrite IH; reflexivity ]. Qed.
Lemma sapp_nil_r a : a ++ "" = a.
Proof. induction a as [ | x a IH ]; cbn; [ reflexivity | rewrite IH; reflexivity ]. Qed.

Lemma infix_refl s : infix_of s s.
Proof. exists "", "". cbn. rewrite sapp_nil_r. reflexivity. Qed.
Lemma infix_app_l s t u : infix_of s t -> infix_of s (u ++ t).
Proof. intros [a [b ->]]. exists (u ++ a), b. rewrite sapp_assoc. reflexivity. Qed.
Lemma infix_app_r s t u : infix_of s t -> infix_of s (t ++ u).
Proof. intros [a [b ->]]. exists a, (b ++ u). rewrite !sapp_assoc. reflexivity. Qed.
Lemma infix_trans s t u : infix_of s t -> infix_of t u -> infix_of s u.
Proof.
  intros [a [b ->]] [c [d ->]]. exists (c ++ a), (b ++ d). rewrite !sapp_assoc. reflexivity.
Qed.

Lemma cat_in (x : string) l : In x l -> infix_of x (cat l).
Proof.
  induction l as [ | y ys IH ]; intros H; [ destruct H | ]. cbn [cat]. destruct H as [-> | H].
  - apply infix_app_r. apply infix_refl.
  - apply infix_app_l. exact (IH H).
Qed.

(* the head of a failure's text: "Path: <repr of its path>\n" *)
Definition path_line (f : ftext) : string := "Path: " ++ ft_path f ++ nl.

Lemma path_line_in_failure_text f : infix_of (path_line f) (failure_text f).
Proof.
  unfold path_line, failure_text. exists "", ("Value: " ++ ft_value f ++ nl ++ "Reasons:" ++ nl ++ cat (map (fun r => " " ++ r ++ nl) (ft_reasons f))).
  cbn [append]. rewrite !sapp_assoc. reflexivity.
Qed.

Lemma reason_in_failure_text f r : In r (ft_reasons f) -> infix_of (" " ++ r ++ nl) (failure_text f).
Proof.
  intros H. unfold failure_text. do 8 apply infix_app_l.
  apply cat_in. apply (in_map (fun r => " " ++ r ++ nl)). exact H.
Qed.

Lemma failure_in_rule_report r f : In f (rx_fails r) -> infix_of (failure_text f) (rule_report r).
Proof.
  intros H. unfold rule_report. destruct (rx_fails r) as [ | g gs ] eqn:E; [ destruct H | ].
  apply cat_in. apply in_map. exact H.
Qed.

Lemma rule_report_in_block idx r : rx_valid r = false -> infix_of (rule_report r) (rule_block idx r).
Proof.
  intros H. unfold rule_block. rewrite H. cbv zeta. do 4 apply infix_app_l. apply infix_app_r. apply infix_refl.
Qed.

Lemma block_in_blocks rs : forall idx k r, nth_error rs k = Some r -> infix_of (rule_block (idx + k) r) (blocks idx rs).
Proof.
  induction rs as [ | x xs IH ]; intros idx k r H; [ destruct k; discriminate | ].
  cbn [blocks]. destruct k as [ | k ].
  - cbn in H. injection H as ->. rewrite Nat.add_0_r. apply infix_app_r. apply infix_refl.
  - cbn in H. apply infix_app_l. replace (idx + S k) with (S idx + k) by lia. exact (IH (S idx) k r H).
Qed.

Lemma forallb_false_nth rs k r : nth_error rs k = Some r -> rx_valid r = false -> forallb rx_valid rs = false.
Proof.
  revert k. induction rs as [ | x xs IH ]; intros k H Hv; [ destruct k; discriminate | ].
  cbn [forallb]. destruct k as [ | k ]; cbn in H.
  - injection H as ->. rewrite Hv. reflexivity.
  - rewrite (IH k H Hv). apply andb_false_r.
Qed.

(* the block of the k-th rule (numbered k+1) is part of the report whenever that rule is not valid *)
Theorem report_has_block rs k r : nth_error rs k = Some r -> rx_valid r = false ->
  infix_of (rule_block (S k) r) (schema_report rs).
Proof.
  intros H Hv. unfold schema_report. rewrite (forallb_false_nth rs k r H Hv). cbv zeta.
  do 7 apply infix_app_l. exact (block_in_blocks rs 1 k r H).
Qed.

(* every failing path of every invalid rule is named *)
Theorem report_names_every_failing_path rs k r f : nth_error rs k = Some r -> rx_valid r = false -> In f (rx_fails r) ->
  infix_of (path_line f) (schema_report rs).
Proof.
  intros H Hv Hf.
  apply (infix_trans _ (failure_text f)); [ apply path_line_in_failure_text | ].
  apply (infix_trans _ (rule_report r)); [ apply failure_in_rule_report; exact Hf | ].
  apply (infix_trans _ (rule_block (S k) r)); [ apply rule_report_in_block; exact Hv | ].
  exact (report_has_block rs k r H Hv).
Qed.

(* ... with each of its reasons *)
Theorem report_gives_every_reason rs k r f x : nth_error rs k = Some r -> rx_valid r = false -> In f (rx_fails r) ->
  In x (ft_reasons f) -> infix_of (" " ++ x ++ nl) (schema_report rs).
Proof.
  intros H Hv Hf Hx.
  apply (infix_trans _ (failure_text f)); [ apply reason_in_failure_text; exact Hx | ].
  apply (infix_trans _ (rule_report r)); [ apply failure_in_rule_report; exact Hf | ].
  apply (infix_trans _ (rule_block (S k) r)); [ apply rule_report_in_block; exact Hv | ].
  exact (report_has_block rs k r H Hv).
Qed.

(* ... under the head line of its own rule number *)
Theorem report_block_head k r : rx_valid r = false ->
  exists rest, rule_block (S k) r = "Rule #" ++ dec (S k) ++ nl ++ rest.
Proof.
  intros Hv. unfold rule_block. rewrite Hv. cbv zeta. eexists. rewrite !sapp_assoc. reflexivity.
Qed.

(* a valid rule contributes nothing; a valid result has the one-line report *)
Theorem report_valid_rule_silent idx r : rx_valid r = true -> rule_block idx r = "".
Proof. intros H. unfold rule_block. rewrite H. reflexivity. Qed.

Theorem report_of_valid_data rs : forallb rx_valid rs = true ->
  schema_report rs = "Data is valid. " ++ dec (count_tested rs) ++ "/" ++ dec (List.length rs) ++ " rules were tested." ++ nl.
Proof. intros H. unfold schema_report. rewrite H. cbv zeta. rewrite !sapp_assoc. reflexivity. Qed.

(* the rule-level report: valid (no failures) says so, otherwise one text per failure, in order *)
Theorem rule_report_valid r : rx_fails r = [] -> rule_report r = "Rule test is valid." ++ nl.
Proof. intros H. unfold rule_report. rewrite H. reflexivity. Qed.
Theorem rule_report_failures r : rx_fails r <> [] -> rule_report r = cat (map failure_text (rx_fails r)).
Proof. intros H. unfold rule_report. destruct (rx_fails r); [ contradiction | reflexivity ]. Qed.

(* not vacuous *)
Definition ex_rs : list rtext :=
  [ {| rx_valid := true; rx_tested := true; rx_fails := [] |};
    {| rx_valid := false; rx_tested := true;
       rx_fails := [ {| ft_path := "('a', 1)"; ft_value := "'x'"; ft_reasons := ["Condition callable returned False: `Value.equal_to(value=1)`."] |} ] |};
    {| rx_valid := true; rx_tested := false; rx_fails := [] |} ].
Example ex_report : schema_report ex_rs =
  "1 rule failed validation. 2/3 rules were tested." ++ nl ++ nl ++ "Rule #2" ++ nl ++ "-------" ++ nl ++
  "Path: ('a', 1)" ++ nl ++ "Value: 'x'" ++ nl ++ "Reasons:" ++ nl ++ " Condition callable returned False: `Value.equal_to(value=1)`." ++ nl ++ nl.
Proof. vm_compute. reflexivity. Qed.

(* ------------------------------------------------------------------ *)
(* The report of a validated document (Rule.v: validate).  repr() of a path / a value and the reason lines of a failure are
   parameters: whatever they are, the assembly names every failing path of the model's verdict, and its head line states the
   counts of the verdict. *)
From Coq Require Import ZArith.
From Valida Require Import Py Lang Defs Cond Dsl Path Cast RuleDefs Rule.

Section Validated.
  Variable T : tables.
  Variable reprP reprV : pyval -> string.
  Variable reasons : failure -> list string.

  Definition text_of_failure (f : failure) : ftext :=
    {| ft_path := reprP (f_path f); ft_value := reprV (f_value f); ft_reasons := reasons f |}.
  Definition text_of_rtest (t : rtest) : rtext :=
    {| rx_valid := rt_valid t; rx_tested := rt_tested t; rx_fails := map text_of_failure (rt_failures t) |}.
  Definition report_of (v : vresult) : string := schema_report (map text_of_rtest (v_tests v)).

  (* a rule test with failures is not valid *)
  Definition sane (t : rtest) : Prop := rt_failures t <> [] -> rt_valid t = false.

  Lemma failures_of_nonempty f sel : forall i res, failures_of i f sel res <> [] -> forallb (fun b : bool => b) res = false.
  Proof.
    induction sel as [ | [v cp] sel IH ]; intros i res H; [ cbn in H; contradiction | ].
    destruct res as [ | b bs ]; [ cbn in H; contradiction | ]. cbn [failures_of] in H. cbn [forallb].
    destruct b; [ cbn [andb]; exact (IH (S i) bs H) | reflexivity ].
  Qed.

  Lemma res_bind_ok {A B} (r : res A) (k : A -> res B) y : bind r k = Ok y -> exists x, r = Ok x /\ k x = Ok y.
  Proof. destruct r as [x|e]; cbn [bind]; intros H; [exists x; auto|discriminate H]. Qed.

  Lemma judge_sane r doc t : judge T r doc = Ok t -> sane t.
  Proof.
    unfold judge. intros H. apply res_bind_ok in H as [sel [_ H]]. destruct sel as [ | s sel ].
    - injection H as <-. intros Hf. cbn in Hf. contradiction.
    - cbv zeta in H. apply res_bind_ok in H as [u1 [_ H]]. apply res_bind_ok in H as [u2 [_ H]].
      apply res_bind_ok in H as [f [_ H]]. injection H as <-. intros Hf. cbn [rt_failures rt_valid] in *.
      exact (failures_of_nonempty f (s :: sel) 0 (fr_result f) Hf).
  Qed.

  Lemma rule_test_sane r doc cp t cp' : rule_test T r doc cp = Ok (t, cp') -> sane t.
  Proof.
    unfold rule_test. intros H. apply res_bind_ok in H as [u [_ H]]. destruct (r_cast r) as [ | c cs ].
    - apply res_bind_ok in H as [t0 [Hj H]]. injection H as <- _. exact (judge_sane _ _ _ Hj).
    - cbv zeta in H. apply res_bind_ok in H as [sel [_ H]]. apply res_bind_ok in H as [cp1 [_ H]].
      apply res_bind_ok in H as [t0 [Hj H]]. injection H as <- _. exact (judge_sane _ _ _ Hj).
  Qed.

  Lemma run_rules_sane rs : forall doc cp ts cp', run_rules T rs doc cp = Ok (ts, cp') ->
    Forall sane ts /\ List.length ts = List.length rs.
  Proof.
    induction rs as [ | r rs IH ]; intros doc cp ts cp' H.
    - cbn in H. injection H as <- _. split; [ constructor | reflexivity ].
    - cbn [run_rules] in H. apply res_bind_ok in H as [[t c1] [Ht H]]. apply res_bind_ok in H as [[ts1 c2] [Hts H]].
      injection H as <- _. destruct (IH _ _ _ _ Hts) as [A B]. split; [ constructor; [ exact (rule_test_sane _ _ _ _ _ Ht) | exact A ] | cbn; rewrite B; reflexivity ].
  Qed.

  Lemma refresh_test_sane final r t : sane t -> sane (refresh_test final r t).
  Proof.
    unfold refresh_test, sane. destruct (r_cast r); [ auto | ]. cbn [rt_failures rt_valid]. intros H Hf. apply H.
    intros E. rewrite E in Hf. cbn in Hf. contradiction.
  Qed.

  Lemma refresh_tests_sane final : forall rs ts, Forall sane ts -> List.length ts = List.length rs ->
    Forall sane (refresh_tests final rs ts) /\ List.length (refresh_tests final rs ts) = List.length rs.
  Proof.
    induction rs as [ | r rs IH ]; intros ts Hs Hl.
    - destruct ts; cbn; split; constructor.
    - destruct ts as [ | t ts ]; [ discriminate | ]. inversion Hs as [ | ? ? Ht Hts ]; subst. cbn in Hl. injection Hl as Hl.
      cbn [refresh_tests]. destruct (IH ts Hts Hl) as [A B]. split; [ constructor; [ apply refresh_test_sane; exact Ht | exact A ] | cbn; rewrite B; reflexivity ].
  Qed.

  Lemma insert_by_len_length r l : List.length (insert_by_len r l) = S (List.length l).
  Proof.
    induction l as [ | x xs IH ]; [ reflexivity | ]. cbn [insert_by_len].
    match goal with |- context [if ?c then _ else _] => destruct c end; cbn [List.length]; [ rewrite IH | ]; reflexivity.
  Qed.
  Lemma sort_rules_length rs : List.length (sort_rules rs) = List.length rs.
  Proof. induction rs as [ | r rs IH ]; [ reflexivity | ]. unfold sort_rules in *. cbn [fold_right]. rewrite insert_by_len_length, IH. reflexivity. Qed.

  Lemma validate_tests rules doc v : validate T rules doc = Ok v ->
    Forall sane (v_tests v) /\ List.length (v_tests v) = List.length rules /\
    v_valid v = forallb rt_valid (v_tests v) /\
    v_num_failures v = fold_right (fun t n => (List.length (rt_failures t) + n)%nat) O (v_tests v) /\
    v_num_tested v = List.length (filter rt_tested (v_tests v)).
  Proof.
    unfold validate. intros H. apply res_bind_ok in H as [u [_ H]]. apply res_bind_ok in H as [[ts0 cp] [Hr H]].
    cbv zeta in H. injection H as <-. cbn [v_tests v_valid v_num_failures v_num_tested].
    destruct (run_rules_sane _ _ _ _ _ Hr) as [A B].
    destruct (refresh_tests_sane cp (sort_rules rules) ts0 A B) as [C D].
    split; [ exact C | ]. split; [ rewrite D; apply sort_rules_length | ]. repeat split.
  Qed.

  Lemma count_tested_text ts : count_tested (map text_of_rtest ts) = List.length (filter rt_tested ts).
  Proof.
    unfold count_tested. induction ts as [ | t ts IH ]; [ reflexivity | ]. cbn [map filter]. cbn [text_of_rtest rx_tested].
    destruct (rt_tested t); cbn [List.length]; rewrite IH; reflexivity.
  Qed.
  Lemma count_failures_text ts :
    count_failures (map text_of_rtest ts) = fold_right (fun t n => (List.length (rt_failures t) + n)%nat) O ts.
  Proof.
    unfold count_failures. induction ts as [ | t ts IH ]; [ reflexivity | ]. cbn [map fold_right]. rewrite IH.
    cbn [text_of_rtest rx_fails]. rewrite map_length. reflexivity.
  Qed.
  Lemma forallb_valid_text ts : forallb rx_valid (map text_of_rtest ts) = forallb rt_valid ts.
  Proof. induction ts as [ | t ts IH ]; [ reflexivity | ]. cbn [map forallb]. rewrite IH. reflexivity. Qed.

  (* every failing path of the verdict is named in the report, whatever repr() prints *)
  Theorem validated_report_names_every_failing_path rules doc v k t f :
    validate T rules doc = Ok v -> nth_error (v_tests v) k = Some t -> In f (rt_failures t) ->
    infix_of ("Path: " ++ reprP (f_path f) ++ nl) (report_of v).
  Proof.
    intros Hv Hk Hf. destruct (validate_tests _ _ _ Hv) as [Hs _]. rewrite Forall_forall in Hs.
    assert (Hinv : rt_valid t = false).
    { apply (Hs t (nth_error_In _ _ Hk)). intros E. rewrite E in Hf. destruct Hf. }
    unfold report_of.
    apply (report_names_every_failing_path (map text_of_rtest (v_tests v)) k (text_of_rtest t) (text_of_failure f)).
    - apply map_nth_error. exact Hk.
    - exact Hinv.
    - cbn [text_of_rtest rx_fails]. apply in_map. exact Hf.
  Qed.

  (* the head line states the verdict's own numbers *)
  Theorem validated_report_when_valid rules doc v : validate T rules doc = Ok v -> v_valid v = true ->
    report_of v = "Data is valid. " ++ dec (v_num_tested v) ++ "/" ++ dec (List.length rules) ++ " rules were tested." ++ nl.
  Proof.
    intros Hv Hval. destruct (validate_tests _ _ _ Hv) as [_ [Hl [Hvv [_ Hnt]]]]. unfold report_of.
    rewrite report_of_valid_data; [ | rewrite forallb_valid_text, <- Hvv; exact Hval ].
    rewrite count_tested_text, map_length, Hl, <- Hnt. reflexivity.
  Qed.

  Theorem validated_report_when_invalid rules doc v : validate T rules doc = Ok v -> v_valid v = false ->
    exists rest, report_of v =
      dec (v_num_failures v) ++ " rule" ++ (if Nat.ltb 1 (v_num_failures v) then "s" else "") ++ " failed validation. "
      ++ dec (v_num_tested v) ++ "/" ++ dec (List.length rules) ++ " rules were tested." ++ nl ++ nl ++ rest.
  Proof.
    intros Hv Hval. destruct (validate_tests _ _ _ Hv) as [_ [Hl [Hvv [Hnf Hnt]]]]. unfold report_of, schema_report.
    rewrite forallb_valid_text, <- Hvv, Hval. cbv zeta.
    rewrite count_tested_text, count_failures_text, map_length, Hl, <- Hnt, <- Hnf.
    eexists. rewrite !sapp_assoc. reflexivity.
  Qed.
End Validated.
