(* C04 (spec level): reported concrete paths are truthful and distinct; path modifiers mean what
   they say.  All statements are about the SPEC in PathSpec.v only (no Inst/Gen). *)
From Coq Require Import ZArith NArith List Bool String Lia.
From Valida Require Import Py Lang Defs DocSem PathSpec.
Import ListNotations.
Local Open Scope list_scope.
Local Open Scope Z_scope.

(* ------------------------------------------------------------------ *)
(* 0. reflexivity of == on hashable values                              *)

Lemma num_eqb_refl a : num_eqb a a = true.
Proof. apply num_eqb_eq. reflexivity. Qed.

Lemma py_eq_refl_hashable : forall v, py_hashable v = true -> py_eq v v = true.
Proof.
  induction v as [ | b | z | n m e | s | l IHl | l IHl | d IHd | t | t ] using pyval_ind';
    intros Hh; try discriminate Hh.
  - reflexivity.
  - cbn [py_eq num_of]. apply num_eqb_refl.
  - cbn [py_eq num_of]. apply num_eqb_refl.
  - cbn [py_eq num_of]. apply num_eqb_refl.
  - cbn [py_eq num_of]. apply String.eqb_refl.
  - cbn [py_eq num_of]. cbn [py_hashable] in Hh.
    induction IHl as [ | x r Hx Hr IH ]; [ reflexivity | ].
    cbn [forallb] in Hh. apply andb_true_iff in Hh. destruct Hh as [Hhx Hhr].
    rewrite (Hx Hhx). cbn [andb]. apply IH. exact Hhr.
  - cbn [py_eq num_of]. apply pytype_eqb_eq. reflexivity.
Qed.

(* ------------------------------------------------------------------ *)
(* 1. items of a node, subscripting, well-formedness                    *)

Lemma zidx_length s n : List.length (zidx s n) = n.
Proof. revert s. induction n as [ | n IH ]; intros s; cbn; [ reflexivity | rewrite IH; reflexivity ]. Qed.

Lemma zidx_in_ge : forall n s k, In k (zidx s n) -> exists j, k = VInt j /\ s <= j.
Proof.
  induction n as [ | n IH ]; intros s k Hin; cbn in Hin; [ contradiction | ].
  destruct Hin as [ <- | Hin ].
  - exists s. split; [ reflexivity | lia ].
  - destruct (IH _ _ Hin) as [j [-> Hj]]. exists j. split; [ reflexivity | lia ].
Qed.

Lemma zidx_NoDup : forall n s, NoDup (zidx s n).
Proof.
  induction n as [ | n IH ]; intros s; cbn; constructor.
  - intros Hin. destruct (zidx_in_ge _ _ _ Hin) as [j [Hj Hle]]. inversion Hj. lia.
  - apply IH.
Qed.

Lemma map_fst_combine_len {A B} : forall (a : list A) (b : list B),
  List.length a = List.length b -> map fst (combine a b) = a.
Proof.
  induction a as [ | x a IH ]; intros [ | y b ] Hlen; cbn in *; try reflexivity; try discriminate.
  rewrite IH by lia. reflexivity.
Qed.

(* the i-th item of a list has key VInt i *)
Lemma list_items_nth : forall (l : list pyval) s k v,
  In (k, v) (combine (zidx s (List.length l)) l) ->
  exists i : nat, k = VInt (s + Z.of_nat i) /\ nth_error l i = Some v.
Proof.
  induction l as [ | x l IH ]; intros s k v Hin; cbn in Hin; [ contradiction | ].
  destruct Hin as [ Heq | Hin ].
  - inversion Heq; subst. exists O. split; [ f_equal; lia | reflexivity ].
  - destruct (IH _ _ _ Hin) as [i [-> Hn]]. exists (S i). split; [ f_equal; lia | exact Hn ].
Qed.

Lemma list_items_index (l : list pyval) k v :
  In (k, v) (combine (zidx 0 (List.length l)) l) -> exists i, k = VInt i /\ list_index l i = Some v.
Proof.
  intros Hin. destruct (list_items_nth _ _ _ _ Hin) as [i [-> Hn]].
  exists (Z.of_nat i). split; [ f_equal; lia | ].
  assert (Hlt : (i < List.length l)%nat) by (apply nth_error_Some; congruence).
  unfold list_index.
  destruct (Z.of_nat i <? 0) eqn:Hneg; [ apply Z.ltb_lt in Hneg; lia | ].
  rewrite Hneg. cbn [orb].
  destruct (Z.of_nat (List.length l) <=? Z.of_nat i) eqn:Hge; [ apply Z.leb_le in Hge; lia | ].
  rewrite Nat2Z.id. exact Hn.
Qed.

(* in a dict with pairwise non-== keys, looking up one of its (self-==) keys finds its own entry *)
Lemma dict_look_in : forall (d : list (pyval * pyval)) k v,
  keys_distinct (map fst d) = true -> py_eq k k = true -> In (k, v) d -> dict_look k d = Some v.
Proof.
  induction d as [ | [k2 v2] r IH ]; intros k v Hkd Hrefl Hin; [ contradiction | ].
  cbn [map fst keys_distinct] in Hkd.
  apply andb_true_iff in Hkd. destruct Hkd as [Hkd Hrest].
  apply andb_true_iff in Hkd. destruct Hkd as [_ Hno].
  cbn [dict_look]. destruct Hin as [ Heq | Hin ].
  - inversion Heq; subst. rewrite Hrefl. reflexivity.
  - assert (Hne : py_eq k k2 = false).
    { destruct (py_eq k k2) eqn:E; [ | reflexivity ].
      apply negb_true_iff in Hno.
      assert (Hex : existsb (fun k' => py_eq k' k2) (map fst r) = true).
      { apply existsb_exists. exists k. split; [ | exact E ].
        apply in_map_iff. exists (k, v). split; [ reflexivity | exact Hin ]. }
      congruence. }
    rewrite Hne. apply IH; assumption.
Qed.

Definition wf_entries := fix go (d : list (pyval * pyval)) : bool :=
  match d with [] => true | (k, x) :: r => wf_val k && py_hashable k && wf_val x && go r end.

Lemma wf_dict_split d : wf_val (VDict d) = true -> wf_entries d = true /\ keys_distinct (map fst d) = true.
Proof. cbn [wf_val]. intros H. apply andb_true_iff in H. exact H. Qed.

Lemma wf_entries_in : forall d k v, wf_entries d = true -> In (k, v) d ->
  wf_val k = true /\ py_hashable k = true /\ wf_val v = true.
Proof.
  induction d as [ | [k2 v2] r IH ]; intros k v Hwf Hin; [ contradiction | ].
  cbn [wf_entries] in Hwf. rewrite !andb_true_iff in Hwf. destruct Hwf as [[[Hk Hh] Hv] Hr].
  destruct Hin as [ Heq | Hin ]; [ inversion Heq; subst; auto | eapply IH; eauto ].
Qed.

Lemma keys_distinct_NoDup : forall ks, keys_distinct ks = true ->
  (forall k, In k ks -> py_eq k k = true) -> NoDup ks.
Proof.
  induction ks as [ | k r IH ]; intros Hkd Hrefl; constructor.
  - cbn [keys_distinct] in Hkd. rewrite !andb_true_iff in Hkd. destruct Hkd as [[Hno _] _].
    intros Hin. apply negb_true_iff in Hno.
    assert (Hex : existsb (py_eq k) r = true).
    { apply existsb_exists. exists k. split; [ exact Hin | apply Hrefl; left; reflexivity ]. }
    congruence.
  - cbn [keys_distinct] in Hkd. rewrite !andb_true_iff in Hkd. destruct Hkd as [_ Hr].
    apply IH; [ exact Hr | intros k' Hk'; apply Hrefl; right; exact Hk' ].
Qed.

(* the items of a well-formed node *)
Lemma doc_items_step node k v : wf_val node = true -> In (k, v) (doc_items node) ->
  forall suf, index_along node (k :: suf) = index_along v suf.
Proof.
  intros Hwf Hin suf. destruct node; cbn [doc_items] in Hin; try contradiction.
  - destruct (list_items_index _ _ _ Hin) as [i [-> Hidx]].
    cbn [index_along int_of]. rewrite Hidx. reflexivity.
  - destruct (wf_dict_split _ Hwf) as [Hent Hkd].
    destruct (wf_entries_in _ _ _ Hent Hin) as [_ [Hh _]].
    cbn [index_along]. rewrite (dict_look_in _ _ _ Hkd (py_eq_refl_hashable _ Hh) Hin). reflexivity.
Qed.

Lemma doc_items_wf node k v : wf_val node = true -> In (k, v) (doc_items node) -> wf_val v = true.
Proof.
  intros Hwf Hin. destruct node; cbn [doc_items] in Hin; try contradiction.
  - cbn [wf_val] in Hwf. rewrite forallb_forall in Hwf. apply Hwf. eapply in_combine_r. exact Hin.
  - destruct (wf_dict_split _ Hwf) as [Hent _]. eapply wf_entries_in; eauto.
Qed.

Lemma doc_items_keys_NoDup node : wf_val node = true -> NoDup (map fst (doc_items node)).
Proof.
  intros Hwf. destruct node; cbn [doc_items map]; try constructor.
  - rewrite map_fst_combine_len by apply zidx_length. apply zidx_NoDup.
  - destruct (wf_dict_split _ Hwf) as [Hent Hkd].
    apply keys_distinct_NoDup; [ exact Hkd | ].
    intros k Hk. apply in_map_iff in Hk. destruct Hk as [[k' v'] [Hfst Hin]]. cbn in Hfst. subst k'.
    apply py_eq_refl_hashable. eapply wf_entries_in; eauto.
Qed.

(* children are a filtered sub-list of the items: the only fact needed about tree_children *)
Lemma tree_children_filter t node l : tree_children t node = Some l ->
  exists f, l = filter f (doc_items node).
Proof.
  unfold tree_children. intros H.
  match type of H with (if ?c then _ else _) = _ => destruct c end; [ | discriminate ].
  inversion H. eexists. reflexivity.
Qed.

Lemma children_filter p node : exists f, children p node = filter f (doc_items node).
Proof.
  assert (Hnil : exists f, @nil (pyval * pyval) = filter f (doc_items node)).
  { exists (fun _ => false). induction (doc_items node) as [ | x r IH ]; [ reflexivity | exact IH ]. }
  assert (Htc : forall t, exists f, match tree_children t node with Some l => l | None => [] end
                                   = filter f (doc_items node)).
  { intros t. destruct (tree_children t node) as [l | ] eqn:E; [ | exact Hnil ].
    eapply tree_children_filter; eauto. }
  unfold children. destruct p as [t | t | c lc mc].
  - destruct (is_map_node node); [ apply Htc | exact Hnil ].
  - destruct (is_list_node node); [ apply Htc | exact Hnil ].
  - destruct (is_list_node node); [ apply Htc | ].
    destruct (is_map_node node); [ apply Htc | exact Hnil ].
Qed.

Lemma children_sub p node x : In x (children p node) -> In x (doc_items node).
Proof.
  destruct (children_filter p node) as [f ->]. intros H. apply filter_In in H. tauto.
Qed.

Lemma children_step p node k v : wf_val node = true -> In (k, v) (children p node) ->
  forall suf, index_along node (k :: suf) = index_along v suf.
Proof. intros Hwf Hin. apply doc_items_step; [ exact Hwf | eapply children_sub; eauto ]. Qed.

Lemma children_index : forall p node k v, wf_val node = true -> In (k, v) (children p node) ->
  index_along node [k] = Some v.
Proof. intros p node k v Hwf Hin. rewrite (children_step p node k v Hwf Hin). reflexivity. Qed.

Lemma children_wf : forall p node k v, wf_val node = true -> In (k, v) (children p node) ->
  wf_val v = true.
Proof. intros p node k v Hwf Hin. eapply doc_items_wf; [ exact Hwf | eapply children_sub; eauto ]. Qed.

Lemma NoDup_map_filter {A B} (g : A -> B) (f : A -> bool) : forall l,
  NoDup (map g l) -> NoDup (map g (filter f l)).
Proof.
  induction l as [ | x r IH ]; intros Hnd; cbn; [ constructor | ].
  cbn in Hnd. inversion Hnd as [ | ? ? Hnotin Hnd' ]; subst.
  destruct (f x); [ | apply IH; exact Hnd' ].
  cbn. constructor; [ | apply IH; exact Hnd' ].
  intros Hin. apply Hnotin. apply in_map_iff in Hin. destruct Hin as [y [Hy Hiny]].
  apply in_map_iff. exists y. split; [ exact Hy | ]. apply filter_In in Hiny. tauto.
Qed.

(* the keys reported by one part are pairwise different terms *)
Lemma children_keys_NoDup p node : wf_val node = true -> NoDup (map fst (children p node)).
Proof.
  intros Hwf. destruct (children_filter p node) as [f ->].
  apply NoDup_map_filter. apply doc_items_keys_NoDup. exact Hwf.
Qed.

(* ------------------------------------------------------------------ *)
(* 2. truthful paths                                                    *)

Definition pref (pre : list pyval) (sv : list pyval * pyval) : list pyval * pyval :=
  (pre ++ fst sv, snd sv).

Lemma map_flat_map {A B C} (g : B -> C) (f : A -> list B) : forall l,
  map g (flat_map f l) = flat_map (fun x => map g (f x)) l.
Proof. induction l as [ | x r IH ]; cbn; [ reflexivity | rewrite map_app, IH; reflexivity ]. Qed.

(* the accumulated prefix is only ever prepended *)
Lemma walk_prefix : forall ps pre node, walk ps pre node = map (pref pre) (walk ps [] node).
Proof.
  induction ps as [ | p r IH ]; intros pre node; cbn [walk].
  - cbn. unfold pref. cbn. rewrite app_nil_r. reflexivity.
  - rewrite map_flat_map. apply flat_map_ext. intros [k c]. cbn [fst snd].
    rewrite (IH (pre ++ [k])), (IH ([] ++ [k])). rewrite map_map. apply map_ext.
    intros [s v]. unfold pref. cbn [fst snd]. rewrite <- app_assoc. reflexivity.
Qed.

Lemma index_along_app : forall a node b,
  index_along node (a ++ b) = match index_along node a with Some x => index_along x b | None => None end.
Proof.
  induction a as [ | k a IH ]; intros node b; [ reflexivity | ].
  cbn [app index_along]. destruct node; try reflexivity.
  - destruct (int_of k); [ | reflexivity ]. destruct (list_index l z); [ apply IH | reflexivity ].
  - destruct (dict_look k d); [ apply IH | reflexivity ].
Qed.

Lemma walk_truthful0 : forall ps node cp v, wf_val node = true ->
  In (cp, v) (walk ps [] node) -> index_along node cp = Some v.
Proof.
  induction ps as [ | p r IH ]; intros node cp v Hwf Hin; cbn [walk] in Hin.
  - destruct Hin as [ Heq | [] ]. inversion Heq; subst. reflexivity.
  - apply in_flat_map in Hin. destruct Hin as [[k c] [Hch Hin]]. cbn [fst snd] in Hin.
    rewrite walk_prefix in Hin. apply in_map_iff in Hin. destruct Hin as [[s v'] [Heq Hin]].
    unfold pref in Heq. cbn in Heq. inversion Heq; subst.
    rewrite (children_step p node k c Hwf Hch). apply IH; [ | exact Hin ].
    eapply children_wf; eauto.
Qed.

Theorem C04_truthful_gen : forall ps pre node cp v, wf_val node = true ->
  In (cp, v) (walk ps pre node) ->
  exists suf, cp = pre ++ suf /\ List.length suf = List.length ps /\ index_along node suf = Some v.
Proof.
  intros ps pre node cp v Hwf Hin. rewrite walk_prefix in Hin.
  apply in_map_iff in Hin. destruct Hin as [[s v'] [Heq Hin]].
  unfold pref in Heq. cbn in Heq. inversion Heq; subst. exists s. split; [ reflexivity | ].
  split; [ | apply (walk_truthful0 ps); assumption ].
  clear Heq Hwf. revert node s Hin. induction ps as [ | p r IH ]; intros node s Hin; cbn [walk] in Hin.
  - destruct Hin as [ Heq | [] ]. inversion Heq; subst. reflexivity.
  - apply in_flat_map in Hin. destruct Hin as [[k c] [_ Hin]]. cbn [fst snd] in Hin.
    rewrite walk_prefix in Hin. apply in_map_iff in Hin. destruct Hin as [[s' v''] [Heq Hin]].
    unfold pref in Heq. cbn in Heq. inversion Heq; subst. cbn. f_equal. eapply IH; eauto.
Qed.

Theorem C04_truthful : forall ps doc cp v, wf_val doc = true ->
  In (cp, v) (walk ps [] doc) -> index_along doc cp = Some v.
Proof. exact walk_truthful0. Qed.

(* every selected node is itself well-formed *)
Lemma walk_wf : forall ps pre node cp v, wf_val node = true -> In (cp, v) (walk ps pre node) -> wf_val v = true.
Proof.
  induction ps as [ | p r IH ]; intros pre node cp v Hwf Hin; cbn [walk] in Hin.
  - destruct Hin as [ Heq | [] ]. inversion Heq; subst. exact Hwf.
  - apply in_flat_map in Hin. destruct Hin as [[k c] [Hch Hin]]. cbn [fst snd] in Hin.
    eapply IH; [ | exact Hin ]. eapply children_wf; eauto.
Qed.

(* ------------------------------------------------------------------ *)
(* 3. distinct paths                                                    *)

Lemma NoDup_flat_map {A B K} (key : A -> K) (g : B -> K) (f : A -> list B) : forall l,
  NoDup (map key l) ->
  (forall x, In x l -> NoDup (f x)) ->
  (forall x y, In x l -> In y (f x) -> g y = key x) ->
  NoDup (flat_map f l).
Proof.
  induction l as [ | x r IH ]; intros Hnd Hf Hg; cbn; [ constructor | ].
  cbn in Hnd. inversion Hnd as [ | ? ? Hnotin Hnd' ]; subst.
  assert (Hr : NoDup (flat_map f r)).
  { apply IH; [ exact Hnd' | intros; apply Hf; right; assumption | intros; eapply Hg; [ right | ]; eassumption ]. }
  assert (Hx : NoDup (f x)) by (apply Hf; left; reflexivity).
  assert (Hdisj : forall y, In y (f x) -> ~ In y (flat_map f r)).
  { intros y Hy Hy'. apply in_flat_map in Hy'. destruct Hy' as [x' [Hx' Hy']].
    apply Hnotin. apply in_map_iff. exists x'. split; [ | exact Hx' ].
    rewrite <- (Hg x' y) by (auto; right; exact Hx').
    apply Hg; [ left; reflexivity | exact Hy ]. }
  clear - Hr Hx Hdisj. induction (f x) as [ | y ys IHy ]; cbn; [ exact Hr | ].
  inversion Hx as [ | ? ? Hny Hys ]; subst. constructor.
  - intros Hin. apply in_app_or in Hin. destruct Hin as [Hin | Hin]; [ exact (Hny Hin) | ].
    exact (Hdisj y (or_introl eq_refl) Hin).
  - apply IHy; [ exact Hys | intros z Hz; apply Hdisj; right; exact Hz ].
Qed.

Lemma NoDup_map_cons {A} (k : A) : forall L : list (list A), NoDup L -> NoDup (map (cons k) L).
Proof.
  induction L as [ | s L IH ]; intros Hnd; cbn; constructor; inversion Hnd as [ | ? ? Hn Hnd' ]; subst.
  - intros Hin. apply in_map_iff in Hin. destruct Hin as [s' [Heq Hin]]. inversion Heq; subst. exact (Hn Hin).
  - apply IH. exact Hnd'.
Qed.

Theorem C04_distinct : forall ps doc, wf_val doc = true -> NoDup (map fst (walk ps [] doc)).
Proof.
  induction ps as [ | p r IH ]; intros doc Hwf; cbn [walk].
  - cbn. constructor; [ intros [] | constructor ].
  - rewrite map_flat_map.
    apply (NoDup_flat_map (fun kv : pyval * pyval => fst kv) (fun cp : list pyval => hd VNone cp)).
    + apply children_keys_NoDup. exact Hwf.
    + intros [k c] Hch. cbn [fst snd]. rewrite walk_prefix, map_map.
      assert (Hext : map (fun x => fst (pref ([] ++ [k]) x)) (walk r [] c)
                     = map (cons k) (map fst (walk r [] c))).
      { rewrite map_map. apply map_ext. intros [s v]. reflexivity. }
      rewrite Hext. apply NoDup_map_cons. apply IH. eapply children_wf; eauto.
    + intros [k c] cp Hch Hin. cbn [fst snd] in *. rewrite walk_prefix, map_map in Hin.
      apply in_map_iff in Hin. destruct Hin as [[s v] [<- _]]. reflexivity.
Qed.

(* with an arbitrary accumulated prefix *)
Corollary C04_distinct_gen : forall ps pre doc, wf_val doc = true -> NoDup (map fst (walk ps pre doc)).
Proof.
  intros ps pre doc Hwf. rewrite walk_prefix, map_map.
  assert (Hext : map (fun x => fst (pref pre x)) (walk ps [] doc) = map (app pre) (map fst (walk ps [] doc))).
  { rewrite map_map. apply map_ext. intros [s v]. reflexivity. }
  rewrite Hext. clear Hext. pose proof (C04_distinct ps doc Hwf) as Hnd.
  induction Hnd as [ | s L Hn Hnd IH ]; cbn; constructor; [ | exact IH ].
  intros Hin. apply in_map_iff in Hin. destruct Hin as [s' [Heq Hin]].
  apply app_inv_head in Heq. subst s'. exact (Hn Hin).
Qed.

(* ------------------------------------------------------------------ *)
(* 4. same values with and without paths                                *)

Definition proj_pair (t : pyval) : pyval := match t with VTuple [v; _] => v | _ => VNone end.
Definition mk_pair (x : pyval * list pyval) : pyval := VTuple [fst x; VTuple (snd x)].

Lemma spec_out_values : forall (vals : list pyval) (paths : list (list pyval)),
  List.length vals = List.length paths ->
  map (fun t => match t with VTuple [v; _] => v | _ => VNone end)
      (map (fun x => VTuple [fst x; VTuple (snd x)]) (combine vals paths)) = vals.
Proof.
  induction vals as [ | v vals IH ]; intros [ | q paths ] Hlen; cbn in *; try reflexivity; try discriminate.
  rewrite IH by lia. reflexivity.
Qed.

(* ... and the reported paths are exactly the walk's paths *)
Lemma spec_out_paths : forall (vals : list pyval) (paths : list (list pyval)),
  List.length vals = List.length paths ->
  map (fun t => match t with VTuple [_; VTuple cp] => cp | _ => [] end)
      (map (fun x => VTuple [fst x; VTuple (snd x)]) (combine vals paths)) = paths.
Proof.
  induction vals as [ | v vals IH ]; intros [ | q paths ] Hlen; cbn in *; try reflexivity; try discriminate.
  rewrite IH by lia. reflexivity.
Qed.

Lemma mapM_length {A B} (f : A -> res B) : forall l ys, mapM f l = Ok ys -> List.length ys = List.length l.
Proof.
  induction l as [ | x r IH ]; intros ys H; cbn in H.
  - inversion H. reflexivity.
  - destruct (f x) as [y | e]; cbn in H; [ | discriminate ].
    destruct (mapM f r) as [ys' | e] eqn:E; cbn in H; [ | discriminate ].
    inversion H. cbn. rewrite (IH ys') by reflexivity. reflexivity.
Qed.

(* does the multiplicity selection return the whole list? *)
Definition multi_is_list (p : spath) : bool :=
  match sp_mt p with
  | SmAll | SmAny => true
  | SmNone => negb (sp_concrete p)
  | _ => false
  end.

Definition res_map {A B} (g : A -> B) (r : res A) : res B :=
  match r with Ok a => Ok (g a) | Err e => Err e end.

Lemma spec_multi_list p out : multi_is_list p = true -> spec_multi p out = Ok (VList out).
Proof.
  unfold multi_is_list, spec_multi. destruct (sp_mt p); try discriminate; try reflexivity.
  destruct (sp_concrete p); [ discriminate | reflexivity ].
Qed.

Lemma spec_multi_map p (g : pyval -> pyval) out : multi_is_list p = false ->
  spec_multi p (map g out) = res_map g (spec_multi p out).
Proof.
  unfold multi_is_list, spec_multi. destruct (sp_mt p); try discriminate; intros Hl.
  - destruct (sp_concrete p) eqn:Hc; [ | discriminate Hl ]. destruct out; reflexivity.
  - destruct out; reflexivity.
  - rewrite <- map_rev. destruct (rev out); reflexivity.
  - destruct out as [ | x [ | y r ] ]; reflexivity.
Qed.

(* what remains of a result-with-paths when the paths are dropped *)
Definition strip_paths (p : spath) (r : pyval) : pyval :=
  match r with
  | VTuple [v; _] => v
  | VList out => if multi_is_list p then VList (map proj_pair out) else r
  | _ => r
  end.

Lemma map_proj_mk vals paths : List.length vals = List.length paths ->
  map proj_pair (map mk_pair (combine vals paths)) = vals.
Proof. exact (spec_out_values vals paths). Qed.

(* the values (and the errors) are the same with and without return_paths *)
Theorem C04_same_values : forall p data,
  spec_get_data p data false = res_map (strip_paths p) (spec_get_data p data true).
Proof.
  intros p data. unfold spec_get_data.
  destruct (match match sp_src p with Some s => if py_truthy s then Some s else None | None => None end with
            | Some s => Some s
            | None => match data with Some d => if py_truthy d then Some d else None | None => None end
            end) as [doc | ]; [ | reflexivity ].
  destruct (sp_parts p) as [ | p0 ps ] eqn:Hparts.
  - destruct (spec_dt (sp_dt p) doc) as [v | e]; reflexivity.
  - destruct (walk (p0 :: ps) [] doc) as [ | sv sel ] eqn:Hsel.
    + cbn [res_map strip_paths]. destruct (sp_concrete p); [ reflexivity | ].
      cbn [strip_paths]. destruct (multi_is_list p); reflexivity.
    + destruct (mapM (fun pv => spec_dt (sp_dt p) (snd pv)) (sv :: sel)) as [vals | e] eqn:Hm; [ | reflexivity ].
      cbn [bind].
      assert (Hlen : List.length vals = List.length (map fst (sv :: sel))).
      { rewrite map_length. eapply mapM_length; eauto. }
      fold mk_pair.
      destruct (multi_is_list p) eqn:Hl.
      * rewrite !spec_multi_list by exact Hl. cbn [res_map strip_paths]. rewrite Hl.
        rewrite map_proj_mk by exact Hlen. reflexivity.
      * assert (Hmulti : spec_multi p vals = res_map proj_pair (spec_multi p (map mk_pair (combine vals (map fst (sv :: sel)))))).
        { rewrite <- spec_multi_map by exact Hl. rewrite map_proj_mk by exact Hlen. reflexivity. }
        rewrite Hmulti.
        (* every element of the tupled list is a 2-tuple, so strip_paths = proj_pair on the result *)
        assert (Hshape : forall l, Forall (fun t => exists a b, t = VTuple [a; b]) l ->
                  forall r, spec_multi p l = Ok r -> exists a b, r = VTuple [a; b]).
        { intros l Hall r Hr. unfold multi_is_list in Hl. unfold spec_multi in Hr.
          assert (Hhd : forall l', Forall (fun t => exists a b, t = VTuple [a; b]) l' ->
                        forall x rest, l' = x :: rest -> exists a b, x = VTuple [a; b]).
          { intros l' Hl' x rest ->. inversion Hl'; assumption. }
          destruct (sp_mt p); try discriminate.
          - destruct (sp_concrete p); [ | discriminate ].
            destruct l as [ | x rest ]; [ discriminate | ]. inversion Hr; subst. eapply Hhd; eauto.
          - destruct l as [ | x rest ]; [ discriminate | ]. inversion Hr; subst. eapply Hhd; eauto.
          - destruct (rev l) as [ | x rest ] eqn:Hrev; [ discriminate | ]. inversion Hr; subst.
            eapply (Hhd (rev l)); [ apply Forall_rev; exact Hall | exact Hrev ].
          - destruct l as [ | x [ | y rest ] ]; try discriminate. inversion Hr; subst. eapply Hhd; eauto. }
        destruct (spec_multi p (map mk_pair (combine vals (map fst (sv :: sel))))) as [r | e] eqn:Hr; [ | reflexivity ].
        cbn [res_map]. f_equal.
        assert (Hall : Forall (fun t => exists a b, t = VTuple [a; b])
                              (map mk_pair (combine vals (map fst (sv :: sel))))).
        { apply Forall_forall. intros t Ht. apply in_map_iff in Ht. destruct Ht as [x0 [<- _]].
          unfold mk_pair. eauto. }
        destruct (Hshape _ Hall r Hr) as [a [b ->]].
        reflexivity.
Qed.

(* the requested corollary: an unmodified-multiplicity, non-concrete path with at least one part *)
Corollary C04_same_values_list : forall p data vs,
  sp_mt p = SmNone -> sp_concrete p = false -> sp_parts p <> [] ->
  spec_get_data p data false = Ok (VList vs) ->
  exists out, spec_get_data p data true = Ok (VList out) /\ map proj_pair out = vs.
Proof.
  intros p data vs Hmt Hc Hparts. unfold spec_get_data.
  destruct (match match sp_src p with Some s => if py_truthy s then Some s else None | None => None end with
            | Some s => Some s
            | None => match data with Some d => if py_truthy d then Some d else None | None => None end
            end) as [doc | ]; [ | discriminate ].
  destruct (sp_parts p) as [ | p0 ps ]; [ contradiction Hparts; reflexivity | ].
  destruct (walk (p0 :: ps) [] doc) as [ | sv sel ] eqn:Hsel.
  - rewrite Hc. intros H. inversion H; subst. exists []. split; reflexivity.
  - destruct (mapM (fun pv => spec_dt (sp_dt p) (snd pv)) (sv :: sel)) as [vals | e] eqn:Hm; [ | discriminate ].
    cbn [bind].
    assert (Hl : multi_is_list p = true) by (unfold multi_is_list; rewrite Hmt, Hc; reflexivity).
    rewrite !spec_multi_list by exact Hl. intros H. inversion H; subst.
    eexists. split; [ reflexivity | ].
    apply spec_out_values. rewrite map_length. eapply mapM_length; eauto.
Qed.

(* ------------------------------------------------------------------ *)
(* 5. modifiers                                                         *)

Lemma sdt_not_smt x dt : sdt_of_name x = Some dt -> smt_of_name x = None.
Proof.
  unfold sdt_of_name. intros H.
  destruct (String.eqb x "dtype") eqn:E1; [ apply String.eqb_eq in E1; subst; reflexivity | ].
  destruct (String.eqb x "length") eqn:E2; [ apply String.eqb_eq in E2; subst; reflexivity | ].
  destruct (String.eqb x "map_keys") eqn:E3; [ apply String.eqb_eq in E3; subst; reflexivity | ].
  destruct (String.eqb x "map_values") eqn:E4; [ apply String.eqb_eq in E4; subst; reflexivity | ].
  discriminate.
Qed.

Lemma smt_not_sdt x mt : smt_of_name x = Some mt -> sdt_of_name x = None.
Proof.
  intros H. destruct (sdt_of_name x) as [dt | ] eqn:E; [ | reflexivity ].
  rewrite (sdt_not_smt _ _ E) in H. discriminate.
Qed.

(* a multiplicity modifier is refused on a concrete path (whatever else is set) *)
Theorem C04_concrete_refuses : forall p m mt,
  sp_concrete p = true -> smt_of_name m = Some mt -> spec_mod p m = Err ValueError.
Proof.
  intros p m mt Hc Hm. unfold spec_mod. rewrite (smt_not_sdt _ _ Hm), Hm, Hc.
  destruct (sp_mt p); reflexivity.
Qed.

(* what a single modifier does *)
Lemma spec_mod_dt p d dt : sdt_of_name d = Some dt -> sp_dt p = SdNone ->
  spec_mod p d = Ok {| sp_parts := sp_parts p; sp_concrete := sp_concrete p; sp_dt := dt;
                       sp_mt := sp_mt p; sp_src := sp_src p |}.
Proof. intros Hd Hp. unfold spec_mod. rewrite Hd, Hp. reflexivity. Qed.

Lemma spec_mod_mt p m mt : smt_of_name m = Some mt -> sp_mt p = SmNone -> sp_concrete p = false ->
  spec_mod p m = Ok {| sp_parts := sp_parts p; sp_concrete := sp_concrete p; sp_dt := sp_dt p;
                       sp_mt := mt; sp_src := sp_src p |}.
Proof. intros Hm Hp Hc. unfold spec_mod. rewrite (smt_not_sdt _ _ Hm), Hm, Hp, Hc. reflexivity. Qed.

(* a modifier kind can be set only once *)
Lemma spec_mod_dt_twice p d dt : sdt_of_name d = Some dt -> sp_dt p <> SdNone -> spec_mod p d = Err ValueError.
Proof. intros Hd Hp. unfold spec_mod. rewrite Hd. destruct (sp_dt p); [ contradiction Hp; reflexivity | | | | ]; reflexivity. Qed.

Lemma spec_mod_mt_twice p m mt : smt_of_name m = Some mt -> sp_mt p <> SmNone -> spec_mod p m = Err ValueError.
Proof.
  intros Hm Hp. unfold spec_mod. rewrite (smt_not_sdt _ _ Hm), Hm.
  destruct (sp_mt p); [ contradiction Hp; reflexivity | | | | | ]; reflexivity.
Qed.

Lemma spec_mod_unknown p x : sdt_of_name x = None -> smt_of_name x = None -> spec_mod p x = Err AttributeError.
Proof. intros H1 H2. unfold spec_mod. rewrite H1, H2. reflexivity. Qed.

Theorem C04_commute : forall p d m dt mt,
  sp_dt p = SdNone -> sp_mt p = SmNone ->
  sdt_of_name d = Some dt -> smt_of_name m = Some mt ->
  spec_mods p [d; m] = spec_mods p [m; d] /\
  (sp_concrete p = false ->
     spec_mods p [d; m] = Ok {| sp_parts := sp_parts p; sp_concrete := sp_concrete p; sp_dt := dt;
                                sp_mt := mt; sp_src := sp_src p |}) /\
  (sp_concrete p = true -> spec_mods p [d; m] = Err ValueError).
Proof.
  intros p d m dt mt Hdt Hmt Hd Hm.
  pose proof (smt_not_sdt _ _ Hm) as Hmd.
  destruct (sp_concrete p) eqn:Hc.
  - assert (H1 : spec_mods p [d; m] = Err ValueError).
    { cbn [spec_mods]. rewrite (spec_mod_dt p d dt Hd Hdt). cbn [bind].
      rewrite (C04_concrete_refuses _ m mt) by (cbn; assumption). reflexivity. }
    assert (H2 : spec_mods p [m; d] = Err ValueError).
    { cbn [spec_mods]. rewrite (C04_concrete_refuses p m mt Hc Hm). reflexivity. }
    split; [ congruence | ]. split; [ discriminate | intros _; exact H1 ].
  - assert (H1 : spec_mods p [d; m] = Ok {| sp_parts := sp_parts p; sp_concrete := sp_concrete p; sp_dt := dt;
                                           sp_mt := mt; sp_src := sp_src p |}).
    { cbn [spec_mods]. rewrite (spec_mod_dt p d dt Hd Hdt). cbn [bind].
      rewrite (spec_mod_mt _ m mt Hm) by (cbn; assumption). cbn. rewrite Hc. reflexivity. }
    assert (H2 : spec_mods p [m; d] = Ok {| sp_parts := sp_parts p; sp_concrete := sp_concrete p; sp_dt := dt;
                                           sp_mt := mt; sp_src := sp_src p |}).
    { cbn [spec_mods]. rewrite (spec_mod_mt p m mt Hm Hmt Hc). cbn [bind].
      rewrite (spec_mod_dt _ d dt Hd) by (cbn; assumption). cbn. rewrite Hc. reflexivity. }
    split; [ congruence | ]. split; [ intros _; rewrite H1, Hc; reflexivity | discriminate ].
Qed.

(* ------------------------------------------------------------------ *)
(* 6. multiplicity selection on a non-empty selection                   *)

Lemma last_hd_rev {A} : forall (l : list A) d, last l d = hd d (rev l).
Proof.
  induction l as [ | a l IH ] using rev_ind; intros d; [ reflexivity | ].
  rewrite last_last, rev_unit. reflexivity.
Qed.

Theorem C04_multi : forall p x xs,
  match sp_mt p with
  | SmFirst => spec_multi p (x :: xs) = Ok x
  | SmLast => spec_multi p (x :: xs) = Ok (last (x :: xs) x)
  | SmSingle => spec_multi p (x :: xs) = match xs with [] => Ok x | _ :: _ => Err ValueError end
  | SmAll | SmAny => spec_multi p (x :: xs) = Ok (VList (x :: xs))
  | SmNone => spec_multi p (x :: xs) = if sp_concrete p then Ok x else Ok (VList (x :: xs))
  end.
Proof.
  intros p x xs. unfold spec_multi. destruct (sp_mt p); try reflexivity.
  rewrite (last_hd_rev (x :: xs) x).
  destruct (rev (x :: xs)) as [ | y r ] eqn:E; [ | reflexivity ].
  apply (f_equal (@List.length pyval)) in E. rewrite rev_length in E. discriminate.
Qed.

(* on an empty selection the element-returning modifiers raise IndexError *)
Lemma C04_multi_empty : forall p,
  spec_multi p [] = if multi_is_list p then Ok (VList []) else Err IndexError.
Proof.
  intros p. unfold spec_multi, multi_is_list. destruct (sp_mt p); try reflexivity.
  destruct (sp_concrete p); reflexivity.
Qed.

(* ------------------------------------------------------------------ *)
(* non-vacuity                                                          *)

Definition ex_doc : pyval :=
  VDict [(VStr "a", VList [VInt 5; VDict [(VInt 1, VStr "x")]]); (VNone, VInt 3)].
Definition ex_parts : list spart := [SPMap (QLeaf SKey (Q_equal_to (VStr "a"))); SPList QNull].

Example ex_wf : wf_val ex_doc = true.
Proof. vm_compute. reflexivity. Qed.

Example ex_walk :
  walk ex_parts [] ex_doc =
  [([VStr "a"; VInt 0], VInt 5); ([VStr "a"; VInt 1], VDict [(VInt 1, VStr "x")])].
Proof. vm_compute. reflexivity. Qed.

Example ex_index :
  map (fun cv => index_along ex_doc (fst cv)) (walk ex_parts [] ex_doc)
  = map (fun cv => Some (snd cv)) (walk ex_parts [] ex_doc)
  /\ List.length (walk ex_parts [] ex_doc) = 2%nat.
Proof. vm_compute. split; reflexivity. Qed.

(* the numeric tower: the key True finds the entry stored under 1, and a map-or-list part reaches it *)
Example ex_tower :
  walk (ex_parts ++ [SPMol QNull QNull QNull]) [] ex_doc = [([VStr "a"; VInt 1; VInt 1], VStr "x")]
  /\ index_along ex_doc [VStr "a"; VBool true; VBool true] = Some (VStr "x").
Proof. vm_compute. split; reflexivity. Qed.

Definition ex_path : spath :=
  {| sp_parts := ex_parts; sp_concrete := false; sp_dt := SdNone; sp_mt := SmNone; sp_src := None |}.

Example ex_get_paths :
  spec_get_data ex_path (Some ex_doc) true =
  Ok (VList [VTuple [VInt 5; VTuple [VStr "a"; VInt 0]];
             VTuple [VDict [(VInt 1, VStr "x")]; VTuple [VStr "a"; VInt 1]]])
  /\ spec_get_data ex_path (Some ex_doc) false = Ok (VList [VInt 5; VDict [(VInt 1, VStr "x")]]).
Proof. vm_compute. split; reflexivity. Qed.

Example ex_mods :
  spec_mods ex_path ["length"%string; "first"%string] = spec_mods ex_path ["first"%string; "length"%string]
  /\ (let* q := spec_mods ex_path ["first"%string; "dtype"%string] in spec_get_data q (Some ex_doc) true)
     = Ok (VTuple [VType TInt; VTuple [VStr "a"; VInt 0]]).
Proof. vm_compute. split; reflexivity. Qed.

(* ill-formed documents are excluded for a reason: with == keys the reported path is not truthful *)
Example ex_illformed :
  let bad := VDict [(VInt 1, VStr "one"); (VBool true, VStr "true")] in
  wf_val bad = false /\
  walk [SPMap QNull] [] bad = [([VInt 1], VStr "one"); ([VBool true], VStr "true")] /\
  index_along bad [VBool true] = Some (VStr "one").
Proof. vm_compute. repeat split; reflexivity. Qed.

Print Assumptions py_eq_refl_hashable.
Print Assumptions children_index.
Print Assumptions children_wf.
Print Assumptions children_keys_NoDup.
Print Assumptions walk_prefix.
Print Assumptions C04_truthful_gen.
Print Assumptions C04_truthful.
Print Assumptions walk_wf.
Print Assumptions C04_distinct.
Print Assumptions C04_distinct_gen.
Print Assumptions spec_out_values.
Print Assumptions spec_out_paths.
Print Assumptions C04_same_values.
Print Assumptions C04_same_values_list.
Print Assumptions sdt_not_smt.
Print Assumptions C04_concrete_refuses.
Print Assumptions C04_commute.
Print Assumptions C04_multi.
Print Assumptions C04_multi_empty.
