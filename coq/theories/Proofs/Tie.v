(* Facts about the tables generated from the current source (closed by computation):
   every DSL constructor builds the leaf the specification expects, and the translated body of
   its callable computes the documented meaning q_sem.  A change to callables.py or to the DSL
   constructors that alters behaviour makes a lemma of this file fail. *)
From Coq Require Import ZArith NArith List Bool String Lia.
From Valida Require Import Py Lang Defs Cond Dsl Check DocSem Inst.
Import ListNotations.
Local Open Scope string_scope.
Local Open Scope list_scope.

Lemma mapM_res0 l : mapM res0 l = Ok l.
Proof. induction l as [|x l IH]; cbn; [reflexivity|]. rewrite IH. reflexivity. Qed.

Lemma resolve_kw_res0 kw : resolve_kw pyval res0 kw = Ok kw.
Proof. induction kw as [|[k v] kw IH]; cbn; [reflexivity|]. rewrite IH. reflexivity. Qed.

Lemma any_res_ext {X} (f g : X -> res bool) l : (forall x, f x = g x) -> any_res f l = any_res g l.
Proof. intros H. induction l as [|x l IH]; cbn; [reflexivity|]. rewrite H, IH. reflexivity. Qed.
Lemma all_res_ext {X} (f g : X -> res bool) l : (forall x, f x = g x) -> all_res f l = all_res g l.
Proof. intros H. induction l as [|x l IH]; cbn; [reflexivity|]. rewrite H, IH. reflexivity. Qed.
Lemma sum_res_ext {X} (f g : X -> res Z) l a : (forall x, f x = g x) -> sum_res f l a = sum_res g l a.
Proof. intros H. revert a. induction l as [|x l IH]; intros a; cbn; [reflexivity|]. rewrite H. destruct (g x); cbn; [apply IH|reflexivity]. Qed.

(* how each constructor stores its arguments: (callable, positional, keyword) *)
Definition q_stored (q : dsl) : string * list pyval * list (string * pyval) :=
  match q with
  | Q_equal_to v => ("equal_to", [], [("value", v)])
  | Q_not_equal_to v => ("not_equal_to", [], [("value", v)])
  | Q_less_than v => ("less_than", [], [("value", v)])
  | Q_greater_than v => ("greater_than", [], [("value", v)])
  | Q_less_than_or_equal_to v => ("less_than_or_equal_to", [], [("value", v)])
  | Q_greater_than_or_equal_to v => ("greater_than_or_equal_to", [], [("value", v)])
  | Q_in c => ("in_", [], [("value", c)])
  | Q_not_in c => ("not_in", [], [("value", c)])
  | Q_in_range lo hi => ("in_range", [], [("lower", lo); ("upper", hi)])
  | Q_not_in_range lo hi => ("not_in_range", [], [("lower", lo); ("upper", hi)])
  | Q_equal_to_approx v tol => ("equal_to_approx", [], [("value", v); ("tolerance", tol)])
  | Q_factor_of v => ("factor_of", [v], [])
  | Q_has_factor v => ("has_factor", [v], [])
  | Q_truthy => ("truthy", [], [])
  | Q_falsy => ("falsy", [], [])
  | Q_null => ("null", [], [])
  | Q_is_instance cl => ("is_instance", cl, [])
  | Q_keys_contain k => ("keys_contain", [], [("key", k)])
  | Q_keys_contain_any_of ks => ("keys_contain_any_of", ks, [])
  | Q_keys_contain_all_of ks => ("keys_contain_all_of", ks, [])
  | Q_keys_contain_N_of n ks => ("keys_contain_N_of", [], [("N", n); ("keys", ks)])
  | Q_keys_contain_at_least_N_of n ks => ("keys_contain_at_least_N_of", [], [("N", n); ("keys", ks)])
  | Q_keys_contain_at_most_N_of n ks => ("keys_contain_at_most_N_of", [], [("N", n); ("keys", ks)])
  | Q_keys_contain_one_of ks => ("keys_contain_one_of", ks, [])
  | Q_keys_contain_at_least_one_of ks => ("keys_contain_at_least_one_of", [], [("keys", ks)])
  | Q_keys_contain_at_most_one_of ks => ("keys_contain_at_most_one_of", [], [("keys", ks)])
  | Q_keys_equal_to ks => ("keys_equal_to", ks, [])
  | Q_keys_is_instance cl => ("keys_is_instance", cl, [])
  | Q_items_contain items => ("items_contain", [], items)
  | Q_allowed_keys ks => ("allowed_keys", ks, [])
  | Q_required_keys ks => ("required_keys", ks, [])
  | Q_forbidden_keys ks => ("forbidden_keys", ks, [])
  end.

Definition class_ok (c : scls) (q : dsl) : bool := negb (q_is_map q) || scls_has_map c.

Definition expected_leaf (c : scls) (q : dsl) : leaf pyval :=
  let '(f, args, kws) := q_stored q in
  {| l_cls := scls_name c; l_kind := scls_kind c; l_pre := scls_pre c; l_call := f; l_args := args; l_kwargs := kws |}.

Definition built (c : scls) (q : dsl) : res (leaf pyval) :=
  let '(m, pos, kw) := q_call q in build_leaf T idlit (scls_name c) m pos kw.

Definition built_kw (c : scls) (q : dsl) : option (res (leaf pyval)) :=
  match q_call_kw q with
  | Some (m, pos, kw) => Some (build_leaf T idlit (scls_name c) m pos kw)
  | None => None
  end.

(* items_contain called with an item named like the callable's own first parameter is a TypeError
   at call time; the typed DSL excludes it *)
Definition q_wf (q : dsl) : bool :=
  match q with
  | Q_items_contain items => negb (existsb (fun kv => String.eqb (fst kv) "trial_dict") items)
  | _ => true
  end.

(* ---- constructors build the expected leaf (both spellings) ---- *)

Lemma app_nil_l' {X} (l : list X) : [] ++ l = l. Proof. reflexivity. Qed.

Lemma cbind_kw_all_extra (kw e : list (string * pyval)) extra :
  cbind_kw pyval [] [] true kw e extra = Ok (e, [], extra ++ kw).
Proof.
  revert extra. induction kw as [|[k v] kw IH]; intros extra; cbn.
  - rewrite app_nil_r. reflexivity.
  - rewrite IH, <- app_assoc. reflexivity.
Qed.

Lemma tie_build c q : class_ok c q = true -> built c q = Ok (expected_leaf c q).
Proof.
  unfold class_ok, built, expected_leaf.
  destruct q; destruct c; cbn [q_is_map scls_has_map negb orb]; intros H; try discriminate H;
    try reflexivity.
  all: try (cbn; rewrite ?app_nil_r; reflexivity).
  all: unfold build_leaf; cbn; unfold apply_ctor; cbn; rewrite cbind_kw_all_extra; reflexivity.
Qed.

Lemma tie_build_kw c q r : class_ok c q = true -> built_kw c q = Some r -> r = Ok (expected_leaf c q).
Proof.
  unfold class_ok, built_kw, expected_leaf.
  destruct q; destruct c; cbn [q_is_map scls_has_map negb orb q_call_kw]; intros H E; try discriminate H;
    try discriminate E; inversion E; reflexivity.
Qed.

(* ---- the translated callable bodies compute the documented meaning ---- *)

Definition call_q (q : dsl) (d : pyval) : res pyval :=
  let '(f, args, kws) := q_stored q in call_def call_fuel (t_defs T) f (d :: args) kws.

Ltac destruct_stuck :=
  match goal with
  | |- context [bind ?X _] =>
      lazymatch X with
      | context [bind _ _] => fail
      | context [match _ with _ => _ end] => fail
      | _ => destruct X
      end
  | |- context [match ?X with _ => _ end] =>
      lazymatch X with
      | context [match _ with _ => _ end] => fail
      | context [bind _ _] => fail
      | _ => destruct X
      end
  end.
Ltac tie := cbn; repeat (first [reflexivity | progress (destruct_stuck; cbn)]).

Lemma bind_kw_items (items : list (string * pyval)) e extra :
  existsb (fun kv => String.eqb (fst kv) "trial_dict") items = false ->
  bind_kw ["trial_dict"] [] true items e extra = Ok (e, [], extra ++ map (fun kv => (VStr (fst kv), snd kv)) items).
Proof.
  revert extra. induction items as [|[k v] items IH]; intros extra H; cbn.
  - rewrite app_nil_r. reflexivity.
  - cbn in H. apply orb_false_iff in H as [Hk Hr]. cbn in Hk. rewrite Hk. cbn.
    rewrite IH by exact Hr. rewrite <- app_assoc. reflexivity.
Qed.


Definition q_simple (q : dsl) : bool :=
  match q with
  | Q_equal_to _ | Q_not_equal_to _ | Q_less_than _ | Q_greater_than _ | Q_less_than_or_equal_to _
  | Q_greater_than_or_equal_to _ | Q_in _ | Q_not_in _ | Q_equal_to_approx _ _ | Q_factor_of _ | Q_has_factor _
  | Q_falsy | Q_null | Q_keys_contain _ => true
  | _ => false
  end.

Lemma tie_call_simple q d : q_simple q = true -> call_q q d = okb (q_sem q d).
Proof. intros H. destruct q; try discriminate H; unfold call_q; cbn [q_stored]; tie. Qed.

Local Arguments py_ord : simpl never.
Local Arguments py_eq : simpl never.
Local Arguments py_in : simpl never.
Local Arguments py_mod : simpl never.
Local Arguments py_sub : simpl never.
Local Arguments py_abs : simpl never.
Local Arguments py_isinstance : simpl never.
Local Arguments keys_in : simpl never.
Local Arguments mk_set : simpl never.
Local Arguments set_diff : simpl never.
Local Arguments set_inter : simpl never.
Local Arguments set_eq : simpl never.
Local Arguments py_getitem : simpl never.
Local Arguments range_bounds : simpl never.
Ltac start := intros; unfold call_q; cbn [q_stored]; cbn; unfold mk_range; match goal with |- _ = ?R => set (rhs := R) end.
Ltac fin := match goal with H := _ |- _ => subst H end; cbn.
Ltac by_okb := match goal with |- context [okb ?X] => destruct X; cbn; reflexivity end.

(* pointwise facts about the generator element `k in trial_dict.keys()` *)
Ltac elt_has_key d :=
  let v := fresh "v" in
  intro v; unfold has_key, dict_keys; destruct d; cbn; try reflexivity;
  match goal with |- context [keys_in ?a ?b] => destruct (keys_in a b); cbn; try reflexivity end.

Lemma t_is_instance cl d : call_q (Q_is_instance cl) d = okb (q_sem (Q_is_instance cl) d).
Proof. start. fin. by_okb. Qed.

Lemma t_any ks d : call_q (Q_keys_contain_any_of ks) d = okb (q_sem (Q_keys_contain_any_of ks) d).
Proof. start. rewrite (any_res_ext _ (has_key d)) by (elt_has_key d). fin. by_okb. Qed.

Lemma t_all ks d : call_q (Q_keys_contain_all_of ks) d = okb (q_sem (Q_keys_contain_all_of ks) d).
Proof. start. rewrite (all_res_ext _ (has_key d)) by (elt_has_key d). fin. by_okb. Qed.

Ltac elt_count d :=
  let v := fresh "v" in
  intro v; unfold has_key, dict_keys; destruct d; cbn; try reflexivity;
  match goal with |- context [keys_in ?a ?b] => destruct (keys_in a b) as [[|]|]; cbn; try reflexivity end.

Lemma t_N n ks d : call_q (Q_keys_contain_N_of n ks) d = okb (q_sem (Q_keys_contain_N_of n ks) d).
Proof. start. fin. unfold count_keys. destruct (py_iter ks) as [items|]; cbn; [|reflexivity].
  match goal with |- context [sum_res ?f items 0%Z] => rewrite (sum_res_ext f (fun k => let* b := has_key d k in Ok (Z.b2z b))) by (elt_count d) end.
  match goal with |- context [sum_res ?f ?l ?a] => destruct (sum_res f l a) end; cbn; reflexivity. Qed.

Ltac count_tac d ks :=
  start; fin; unfold count_keys; destruct (py_iter ks) as [items|]; cbn; [|reflexivity];
  match goal with |- context [sum_res ?f items 0%Z] => rewrite (sum_res_ext f (fun k => let* b := has_key d k in Ok (Z.b2z b))) by (elt_count d) end;
  match goal with |- context [sum_res ?f ?l ?a] => destruct (sum_res f l a) end; cbn; try reflexivity;
  try (match goal with |- context [py_ord ?o ?a ?b] => destruct (py_ord o a b) end; cbn; reflexivity).

Lemma t_atleastN n ks d : call_q (Q_keys_contain_at_least_N_of n ks) d = okb (q_sem (Q_keys_contain_at_least_N_of n ks) d).
Proof. count_tac d ks. Qed.
Lemma t_atmostN n ks d : call_q (Q_keys_contain_at_most_N_of n ks) d = okb (q_sem (Q_keys_contain_at_most_N_of n ks) d).
Proof. count_tac d ks. Qed.
Lemma t_one ks d : call_q (Q_keys_contain_one_of ks) d = okb (q_sem (Q_keys_contain_one_of ks) d).
Proof. start. fin. unfold count_keys. cbn.
  match goal with |- context [sum_res ?f ks 0%Z] => rewrite (sum_res_ext f (fun k => let* b := has_key d k in Ok (Z.b2z b))) by (elt_count d) end.
  match goal with |- context [sum_res ?f ?l ?a] => destruct (sum_res f l a) end; cbn; reflexivity. Qed.
Lemma t_atleast1 ks d : call_q (Q_keys_contain_at_least_one_of ks) d = okb (q_sem (Q_keys_contain_at_least_one_of ks) d).
Proof. count_tac d ks. Qed.
Lemma t_atmost1 ks d : call_q (Q_keys_contain_at_most_one_of ks) d = okb (q_sem (Q_keys_contain_at_most_one_of ks) d).
Proof. count_tac d ks. Qed.

Lemma t_keys_eq ks d : call_q (Q_keys_equal_to ks) d = okb (q_sem (Q_keys_equal_to ks) d).
Proof. start. fin. unfold dict_keys. destruct d; cbn; try reflexivity.
  match goal with |- context [mk_set (map fst ?d)] => destruct (mk_set (map fst d)) end; cbn; try reflexivity.
  destruct (mk_set ks); cbn; reflexivity. Qed.

Lemma t_keys_inst cl d : call_q (Q_keys_is_instance cl) d = okb (q_sem (Q_keys_is_instance cl) d).
Proof. start. fin. unfold dict_keys. destruct d; cbn; try reflexivity.
  match goal with |- context [all_res ?f ?l] =>
    rewrite (all_res_ext f (fun k => py_isinstance k (VTuple cl))) end.
  - by_okb.
  - intro x. cbn. destruct (py_isinstance x (VTuple cl)) as [[|]|]; cbn; reflexivity.
Qed.

Lemma t_allowed ks d : call_q (Q_allowed_keys ks) d = okb (q_sem (Q_allowed_keys ks) d).
Proof. start. fin. unfold dict_keys. destruct d; cbn; try reflexivity.
  match goal with |- context [mk_set (map fst ?d)] => destruct (mk_set (map fst d)) end; cbn; try reflexivity.
  destruct (mk_set ks); cbn; try reflexivity.
  match goal with |- context [set_diff ?a ?b] => destruct (set_diff a b) end; reflexivity. Qed.
Lemma t_required ks d : call_q (Q_required_keys ks) d = okb (q_sem (Q_required_keys ks) d).
Proof. start. fin. unfold dict_keys. destruct (mk_set ks); cbn; try reflexivity. destruct d; cbn; try reflexivity.
  match goal with |- context [mk_set (map fst ?d)] => destruct (mk_set (map fst d)) end; cbn; try reflexivity.
  match goal with |- context [set_diff ?a ?b] => destruct (set_diff a b) end; reflexivity. Qed.
Lemma t_forbidden ks d : call_q (Q_forbidden_keys ks) d = okb (q_sem (Q_forbidden_keys ks) d).
Proof. start. fin. unfold dict_keys. destruct (mk_set ks); cbn; try reflexivity. destruct d; cbn; try reflexivity.
  match goal with |- context [mk_set (map fst ?d)] => destruct (mk_set (map fst d)) end; cbn; try reflexivity.
  match goal with |- context [set_inter ?a ?b] => destruct (set_inter a b) end; reflexivity. Qed.

Lemma t_items items d : q_wf (Q_items_contain items) = true -> call_q (Q_items_contain items) d = okb (q_sem (Q_items_contain items) d).
Proof.
  intros Hwf. cbn in Hwf. apply negb_true_iff in Hwf.
  unfold call_q; cbn [q_stored]. unfold call_def, call_fuel. cbn [find_def t_defs T TablesGen.gen_tables].
  cbn. unfold bind_args. cbn. rewrite bind_kw_items by exact Hwf. cbn.
  induction items as [|[k v] items IH]; cbn.
  - reflexivity.
  - cbn in Hwf. apply orb_false_iff in Hwf as [Hk Hr]. specialize (IH Hr).
    destruct (py_getitem d (VStr k)) as [x|e]; cbn.
    + destruct (py_eq x v); cbn; [exact IH | reflexivity].
    + destruct e; cbn; reflexivity.
Qed.

Lemma t_in_range lo hi d : call_q (Q_in_range lo hi) d = okb (q_sem (Q_in_range lo hi) d).
Proof. start. fin. destruct (range_bounds lo hi) as [[l h]|]; cbn; reflexivity. Qed.
Lemma t_not_in_range lo hi d : call_q (Q_not_in_range lo hi) d = okb (q_sem (Q_not_in_range lo hi) d).
Proof. start. fin. destruct (range_bounds lo hi) as [[l h]|]; cbn; reflexivity. Qed.
Lemma t_truthy d : call_q Q_truthy d = okb (q_sem Q_truthy d).
Proof. start. fin. rewrite negb_involutive. reflexivity. Qed.

(* the translated body of every callable computes the documented meaning, errors included *)
Theorem tie_call q d : q_wf q = true -> call_q q d = okb (q_sem q d).
Proof.
  intros Hwf. destruct q.
  - apply tie_call_simple; reflexivity.
  - apply tie_call_simple; reflexivity.
  - apply tie_call_simple; reflexivity.
  - apply tie_call_simple; reflexivity.
  - apply tie_call_simple; reflexivity.
  - apply tie_call_simple; reflexivity.
  - apply tie_call_simple; reflexivity.
  - apply tie_call_simple; reflexivity.
  - apply t_in_range.
  - apply t_not_in_range.
  - apply tie_call_simple; reflexivity.
  - apply tie_call_simple; reflexivity.
  - apply tie_call_simple; reflexivity.
  - apply t_truthy.
  - apply tie_call_simple; reflexivity.
  - apply tie_call_simple; reflexivity.
  - apply t_is_instance.
  - apply tie_call_simple; reflexivity.
  - apply t_any.
  - apply t_all.
  - apply t_N.
  - apply t_atleastN.
  - apply t_atmostN.
  - apply t_one.
  - apply t_atleast1.
  - apply t_atmost1.
  - apply t_keys_eq.
  - apply t_keys_inst.
  - apply t_items; exact Hwf.
  - apply t_allowed.
  - apply t_required.
  - apply t_forbidden.
Qed.
