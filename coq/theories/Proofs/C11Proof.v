(* C11: serialising a condition gives pure JSON data from which an equal condition is rebuilt,
   and serialising the rebuilt condition gives the same data again.
   Model of the serialiser: SpecIO.v (cond1_to_json); of the parser: Spec.v (cond1_from_spec);
   of `==`: Eq.v (cond1_eqb).  The conditions are those of typed DSL trees (DocSem.v) whose
   arguments are JSON values (mappings only without "path" in their keys: see `plain2` and the
   counterexamples at the end of the file; likewise the item names of items_contain:
   `q_items_nopath`) or, where the class / callable asks for types, type
   objects.  Facts about the generated tables T / X are closed by computation. *)
From Coq Require Import ZArith NArith List Bool String Ascii Lia.
From Valida Require Import Py Lang Defs Cond Dsl Check DocSem Path Cast Str SpecDefs RuleDefs RuleTerms
  Spec SpecIO SpecSpell Eq Inst RunSpec.
From Valida.Proofs Require Import PyFacts Tie C01Proof C02Proof RuleProof C09Proof.
From Valida Require Import Rule SpecSpell.   (* `plain` is SpecSpell's, not RuleProof's *)
Import ListNotations.
Local Open Scope string_scope.
Local Open Scope list_scope.

(* ================================================================== *)
(* 0. `==` is reflexive on well-formed values                           *)

Definition look_b (k v : pyval) := fix look (d2 : list (pyval * pyval)) : bool :=
  match d2 with [] => false | (k2, v2) :: r2 => if py_eq k k2 then py_eq v v2 else look r2 end.
Definition dict_sub (d2 : list (pyval * pyval)) := fix go (d : list (pyval * pyval)) : bool :=
  match d with [] => true | (k, v) :: r => look_b k v d2 && go r end.

Lemma py_eq_dict d1 d2 :
  py_eq (VDict d1) (VDict d2) = Nat.eqb (List.length d1) (List.length d2) && dict_sub d2 d1.
Proof. reflexivity. Qed.

Lemma py_eq_vlist l r : py_eq (VList l) (VList r) = py_eq_list l r.
Proof. reflexivity. Qed.
Lemma py_eq_vtuple l r : py_eq (VTuple l) (VTuple r) = py_eq_list l r.
Proof. reflexivity. Qed.

Lemma py_eq_list_refl l : Forall (fun v => py_eq v v = true) l -> py_eq_list l l = true.
Proof.
  induction 1 as [|x r Hx Hr IH]; [reflexivity|].
  cbn [py_eq_list]. rewrite Hx. exact IH.
Qed.

Lemma look_b_skip k v pre rest :
  (forall k', In k' (map fst pre) -> py_eq k k' = false) -> look_b k v (pre ++ rest) = look_b k v rest.
Proof.
  induction pre as [|[k2 v2] pre IH]; intros H; [reflexivity|].
  cbn [app look_b]. rewrite (H k2) by (left; reflexivity).
  apply IH. intros k' Hin. apply H. right. exact Hin.
Qed.

Lemma existsb_false_in {Y} (f : Y -> bool) l x : existsb f l = false -> In x l -> f x = false.
Proof.
  intros H Hin. destruct (f x) eqn:E; [|reflexivity].
  assert (existsb f l = true) by (apply existsb_exists; exists x; split; assumption). congruence.
Qed.

Lemma dict_sub_refl suf : forall pre,
  (forall kv, In kv suf -> py_eq (fst kv) (fst kv) = true /\ py_eq (snd kv) (snd kv) = true) ->
  (forall k k', In k (map fst suf) -> In k' (map fst pre) -> py_eq k k' = false) ->
  keys_distinct (map fst suf) = true ->
  dict_sub (pre ++ suf) suf = true.
Proof.
  induction suf as [|[k v] r IH]; intros pre Hr Hp Hd; [reflexivity|].
  cbn [dict_sub]. fold (dict_sub (pre ++ (k, v) :: r)).
  rewrite look_b_skip by (intros k' Hin; apply Hp; [left; reflexivity|exact Hin]).
  cbn [look_b]. destruct (Hr (k, v) (or_introl eq_refl)) as [Hk Hv]. cbn [fst snd] in Hk, Hv.
  rewrite Hk, Hv. cbn [andb].
  cbn [map fst keys_distinct] in Hd.
  apply andb_true_iff in Hd as [Hd Hd3]. apply andb_true_iff in Hd as [Hd1 Hd2].
  apply negb_true_iff in Hd1, Hd2.
  change (pre ++ (k, v) :: r) with (pre ++ [(k, v)] ++ r). rewrite app_assoc.
  apply IH.
  - intros kv Hin. apply Hr. right. exact Hin.
  - intros k1 k' H1 H2. rewrite map_app in H2. apply in_app_or in H2 as [H2|H2].
    + apply Hp; [right; exact H1|exact H2].
    + cbn in H2. destruct H2 as [<-|[]].
      exact (existsb_false_in (fun k2 => py_eq k2 k) _ k1 Hd2 H1).
  - exact Hd3.
Qed.

Definition wf_ents := fix go (d : list (pyval * pyval)) : bool :=
  match d with [] => true | (k, x) :: r => wf_val k && py_hashable k && wf_val x && go r end.

Lemma wf_val_dict d : wf_val (VDict d) = wf_ents d && keys_distinct (map fst d).
Proof. reflexivity. Qed.

Lemma wf_ents_in d kv : wf_ents d = true -> In kv d -> wf_val (fst kv) = true /\ wf_val (snd kv) = true.
Proof.
  induction d as [|[k x] r IH]; intros H Hin; [destruct Hin|].
  cbn [wf_ents] in H. fold wf_ents in H.
  apply andb_true_iff in H as [H H4]. apply andb_true_iff in H as [H H3]. apply andb_true_iff in H as [H1 H2].
  destruct Hin as [<-|Hin]; [split; assumption|exact (IH H4 Hin)].
Qed.

Lemma forallb_Forall_imp {Y} (f : Y -> bool) (P : Y -> Prop) l :
  Forall (fun x => f x = true -> P x) l -> forallb f l = true -> Forall P l.
Proof.
  induction 1 as [|x r Hx Hr IH]; intros H; [constructor|].
  cbn [forallb] in H. apply andb_true_iff in H as [H1 H2]. constructor; [exact (Hx H1)|exact (IH H2)].
Qed.

(* on documents (hashable, pairwise distinct keys) `v == v` holds *)
Lemma py_eq_refl_wf : forall v, wf_val v = true -> py_eq v v = true.
Proof.
  induction v as [ | b | z | n m e | s | l IHl | l IHl | d IHd | t | t ] using pyval_ind'; intros Hw.
  - reflexivity.
  - cbn [py_eq num_of]. apply num_eqb_eq. reflexivity.
  - cbn [py_eq num_of]. apply num_eqb_eq. reflexivity.
  - cbn [py_eq num_of]. apply num_eqb_eq. reflexivity.
  - cbn [py_eq num_of]. apply String.eqb_refl.
  - rewrite py_eq_vlist. apply py_eq_list_refl. cbn [wf_val] in Hw. exact (forallb_Forall_imp _ _ l IHl Hw).
  - rewrite py_eq_vtuple. apply py_eq_list_refl. cbn [wf_val] in Hw. exact (forallb_Forall_imp _ _ l IHl Hw).
  - rewrite py_eq_dict, Nat.eqb_refl. cbn [andb].
    rewrite wf_val_dict in Hw. apply andb_true_iff in Hw as [He Hd].
    apply (dict_sub_refl d []); [|intros k k' _ []|exact Hd].
    intros kv Hin. destruct (wf_ents_in d kv He Hin) as [Hk Hx].
    rewrite Forall_forall in IHd. destruct (IHd kv Hin) as [Pk Px]. split; [exact (Pk Hk)|exact (Px Hx)].
  - cbn [py_eq num_of]. apply pytype_eqb_eq. reflexivity.
  - cbn [py_eq num_of]. apply N.eqb_refl.
Qed.

(* ================================================================== *)
(* 1. `==` of the model is reflexive on the conditions of typed trees   *)

Fixpoint str_nodup (l : list string) : bool :=
  match l with [] => true | k :: r => negb (existsb (String.eqb k) r) && str_nodup r end.

Lemma str_nodup_NoDup l : str_nodup l = true -> NoDup l.
Proof.
  induction l as [|k r IH]; intros H; [constructor|].
  cbn [str_nodup] in H. apply andb_true_iff in H as [H1 H2]. apply negb_true_iff in H1.
  constructor; [|exact (IH H2)].
  intros Hin. pose proof (existsb_false_in _ _ k H1 Hin) as E. rewrite String.eqb_refl in E. discriminate E.
Qed.

Section KwRefl.
  Variable A : Type.
  Variable aeq : A -> A -> bool.

  Lemma kw_look_skip k (pre rest : list (string * A)) :
    ~ In k (map fst pre) -> kw_look A k (pre ++ rest) = kw_look A k rest.
  Proof.
    induction pre as [|[k2 v2] pre IH]; intros H; [reflexivity|].
    cbn [app kw_look]. destruct (String.eqb k k2) eqn:E.
    - apply String.eqb_eq in E. subst k2. contradiction H. left. reflexivity.
    - apply IH. intros Hin. apply H. right. exact Hin.
  Qed.

  Lemma kw_forall_refl (suf : list (string * A)) : forall pre,
    NoDup (map fst (pre ++ suf)) ->
    (forall kv, In kv suf -> aeq (snd kv) (snd kv) = true) ->
    forallb (fun kv => match kw_look A (fst kv) (pre ++ suf) with Some v => aeq (snd kv) v | None => false end) suf = true.
  Proof.
    induction suf as [|[k v] r IH]; intros pre Hnd Hr; [reflexivity|].
    cbn [forallb fst snd].
    assert (Hk : ~ In k (map fst pre)).
    { rewrite map_app in Hnd. cbn [map fst] in Hnd. apply NoDup_remove_2 in Hnd.
      intros Hin. apply Hnd. apply in_or_app. left. exact Hin. }
    rewrite (kw_look_skip k pre _ Hk). cbn [kw_look]. rewrite String.eqb_refl.
    pose proof (Hr (k, v) (or_introl eq_refl)) as Hv. cbn [snd] in Hv. rewrite Hv. cbn [andb].
    change (pre ++ (k, v) :: r) with (pre ++ [(k, v)] ++ r). rewrite app_assoc.
    apply IH.
    - rewrite <- app_assoc. exact Hnd.
    - intros kv Hin. apply Hr. right. exact Hin.
  Qed.

  Lemma kw_eqb_refl (l : list (string * A)) :
    NoDup (map fst l) -> (forall kv, In kv l -> aeq (snd kv) (snd kv) = true) -> kw_eqb A aeq l l = true.
  Proof.
    intros Hnd Hr. unfold kw_eqb. rewrite Nat.eqb_refl. cbn [andb]. exact (kw_forall_refl l [] Hnd Hr).
  Qed.

  Lemma list_eqb_refl (l : list A) : (forall x, In x l -> aeq x x = true) -> list_eqb aeq l l = true.
  Proof.
    induction l as [|x r IH]; intros H; [reflexivity|].
    cbn [list_eqb]. rewrite (H x (or_introl eq_refl)). cbn [andb]. apply IH. intros y Hy. apply H. right. exact Hy.
  Qed.
End KwRefl.

(* the argument values of a leaf, and when `leaf == leaf` *)
Definition leaf_vals (l : leaf pyval) : list pyval := l_args l ++ map snd (l_kwargs l).

Lemma leaf_eqb_refl (l : leaf pyval) :
  str_nodup (map fst (l_kwargs l)) = true -> forallb wf_val (leaf_vals l) = true ->
  leaf_eqb arg1 (arg1_eqb T) (lmapL l) (lmapL l) = true.
Proof.
  intros Hnd Hw. unfold leaf_vals in Hw. rewrite forallb_app in Hw. apply andb_true_iff in Hw as [Ha Hk].
  rewrite forallb_forall in Ha, Hk.
  unfold leaf_eqb. cbn [leaf_map l_cls l_call l_args l_kwargs]. rewrite !String.eqb_refl. cbn [andb].
  rewrite list_eqb_refl, kw_eqb_refl; [reflexivity| | |].
  - unfold kmap. rewrite map_map. cbn [fst]. apply str_nodup_NoDup. exact Hnd.
  - intros kv Hin. unfold kmap in Hin. apply in_map_iff in Hin as [[k v] [<- Hin]]. cbn [fst snd arg1_eqb].
    apply py_eq_refl_wf. apply Hk. apply in_map_iff. exists (k, v). split; [reflexivity|exact Hin].
  - intros x Hin. apply in_map_iff in Hin as [v [<- Hin]]. cbn [arg1_eqb]. apply py_eq_refl_wf. exact (Ha v Hin).
Qed.

Lemma bop_eqb_refl o : bop_eqb o o = true.
Proof. destruct o; reflexivity. Qed.

Definition q_nodup (q : dsl) : bool :=
  match q with Q_items_contain items => str_nodup (map fst items) | _ => true end.

Lemma expected_nodup c q : q_nodup q = true -> str_nodup (map fst (l_kwargs (expected_leaf c q))) = true.
Proof. intros H. destruct q; try reflexivity. exact H. Qed.

Lemma expected_vals c q : leaf_vals (expected_leaf c q) = q_args q.
Proof. unfold leaf_vals, q_args. destruct q; cbn [expected_leaf q_stored q_call l_args l_kwargs map snd app]; rewrite ?app_nil_r; reflexivity. Qed.

Definition leaf_refl_ok (cq : scls * dsl) : bool := q_nodup (snd cq) && forallb wf_val (q_args (snd cq)).

Lemma cond_eqb_refl n :
  forallb leaf_refl_ok (qleaves n) = true ->
  cond1_eqb T (cmapL (cond_of n)) (cmapL (cond_of n)) = true.
Proof.
  unfold cond1_eqb. induction n as [c q| |o a IHa b IHb]; intros H.
  - cbn [qleaves forallb] in H. rewrite andb_true_r in H. unfold leaf_refl_ok in H. cbn [snd] in H.
    apply andb_true_iff in H as [H1 H2].
    cbn [cond_of cond_map cond_eqb]. apply leaf_eqb_refl.
    + exact (expected_nodup c q H1).
    + rewrite expected_vals. exact H2.
  - reflexivity.
  - cbn [qleaves] in H. rewrite forallb_app in H. apply andb_true_iff in H as [Ha Hb].
    cbn [cond_of cond_map cond_eqb]. rewrite bop_eqb_refl, (IHa Ha), (IHb Hb). reflexivity.
Qed.

(* ================================================================== *)
(* 2. the serialiser on the leaves of typed trees                       *)

Notation a2j := (arg1_to_json T X).
Notation l2j := (leaf_to_json T X arg1 (arg1_to_json T X) arg1_raw).
(* an argument written at ITEM level (several parameters, *args, values of a keyword mapping) *)
Notation a2i := (arg_item X arg1 (arg1_to_json T X) arg1_raw).

(* ---- literal values ---- *)

(* a type object written as its name *)
Definition name_of (v : pyval) : pyval :=
  match v with
  | VType t => match assoc_ty t (sx_inv_dtype X) with Some n => VStr n | None => v end
  | _ => v
  end.
Definition names (v : pyval) : pyval :=
  match v with VList l => VList (map name_of l) | _ => name_of v end.

Lemma item_to_json_type v : is_known_type v = true -> item_to_json X true v = Ok (name_of v).
Proof.
  destruct v as [| | | | | | | | t | ]; try discriminate.
  destruct t; try discriminate; intros _; vm_compute; reflexivity.
Qed.

Lemma mapM_item_types l : forallb is_known_type l = true -> mapM (item_to_json X true) l = Ok (map name_of l).
Proof.
  induction l as [|v l IH]; cbn [forallb mapM map]; [reflexivity|].
  intros H. apply andb_true_iff in H as [Hv Hl]. rewrite (item_to_json_type v Hv), (IH Hl). reflexivity.
Qed.

Lemma val_to_json_types v : types_only v = true -> val_to_json X true v = Ok (names v).
Proof.
  destruct v; try discriminate; cbn [types_only]; intros H.
  - unfold val_to_json. rewrite (mapM_item_types l H). reflexivity.
  - exact (item_to_json_type _ H).
Qed.

(* ---- literal mappings that are neither escaped by the serialiser nor touched by from_spec ---- *)

Definition str_keys (d : list (pyval * pyval)) : bool :=
  forallb (fun kv => match fst kv with VStr _ => true | _ => false end) d.
Definition unskv (d : list (pyval * pyval)) : list (string * pyval) :=
  map (fun kv => (match fst kv with VStr s => s | _ => "" end, snd kv)) d.

(* string keys, none containing "path"; not a single key reading `path[.m[.m]]` in some letter case *)
Definition okkeys (d : list (pyval * pyval)) : bool :=
  str_keys d && forallb (fun kv => negb (str_contains "path" (fst kv))) (unskv d)
  && negb (single_path_key (unskv d)).

(* list items / mapping values: from_spec looks at them, but no deeper *)
Definition item2 (v : pyval) : bool := match v with VDict d => okkeys d | _ => true end.
(* arguments *)
Definition plain2 (v : pyval) : bool :=
  match v with
  | VDict d => okkeys d && forallb item2 (map snd d)
  | VList l | VTuple l => forallb item2 l
  | _ => true
  end.
Definition q_plain2 (q : dsl) : bool := forallb plain2 (q_args q).

Lemma forallb_impl {Y} (f g : Y -> bool) l :
  (forall x, f x = true -> g x = true) -> forallb f l = true -> forallb g l = true.
Proof.
  intros Hfg. induction l as [|x l IH]; cbn [forallb]; [reflexivity|].
  intros H. apply andb_true_iff in H as [Hx Hl]. rewrite (Hfg x Hx), (IH Hl). reflexivity.
Qed.

Lemma plain_item_item2 v : plain_item v = true -> item2 v = true.
Proof. destruct v; try discriminate; reflexivity. Qed.

(* the fragment of C09 is included *)
Lemma plain_plain2 v : plain v = true -> plain2 v = true.
Proof.
  destruct v; try discriminate; try reflexivity; cbn [plain plain2]; apply forallb_impl; exact plain_item_item2.
Qed.

Lemma plain2_item2 v : plain2 v = true -> item2 v = true.
Proof.
  destruct v; try reflexivity. cbn [plain2 item2]. intros H. apply andb_true_iff in H as [H _]. exact H.
Qed.

Lemma okkeys_inv d : okkeys d = true ->
  str_keys d = true /\ forallb (fun kv => negb (str_contains "path" (fst kv))) (unskv d) = true
  /\ single_path_key (unskv d) = false.
Proof.
  unfold okkeys. intros H. apply andb_true_iff in H as [H H3]. apply andb_true_iff in H as [H1 H2].
  apply negb_true_iff in H3. repeat split; assumption.
Qed.

Lemma str_keys_skv d : str_keys d = true -> map skv (unskv d) = d.
Proof.
  unfold str_keys, unskv. induction d as [|[k v] r IH]; cbn [forallb map fst snd]; [reflexivity|].
  intros H. apply andb_true_iff in H as [Hk Hr]. rewrite (IH Hr).
  destruct k; try discriminate Hk. reflexivity.
Qed.

Lemma no_path_key d : str_keys d = true ->
  forallb (fun kv => negb (str_contains "path" (fst kv))) (unskv d) = true -> has_path_key d = false.
Proof.
  unfold str_keys, unskv. induction d as [|[k v] r IH]; cbn [forallb map fst snd has_path_key]; [reflexivity|].
  intros H1 H2. apply andb_true_iff in H1 as [Hk Hr]. apply andb_true_iff in H2 as [Hc Hr2].
  destruct k; try discriminate Hk. cbn [fst] in Hc. apply negb_true_iff in Hc. rewrite Hc. cbn [orb]. exact (IH Hr Hr2).
Qed.

Lemma prefix_contains n s : String.prefix n s = true -> str_contains n s = true.
Proof. intros H. destruct s; cbn [str_contains]; rewrite H; reflexivity. Qed.

(* a string containing c :: n contains n *)
Lemma str_contains_tail c n s : str_contains (String c n) s = true -> str_contains n s = true.
Proof.
  induction s as [|a r IH]; intros H.
  - cbn in H. discriminate H.
  - cbn [str_contains] in H. apply orb_true_iff in H as [H|H].
    + cbn [String.prefix] in H.
      assert (Hp : String.prefix n r = true).
      { match type of H with (if ?b then _ else _) = true => destruct b; [exact H|discriminate H] end. }
      cbn [str_contains]. rewrite (prefix_contains n r Hp). apply orb_true_r.
    + cbn [str_contains]. rewrite (IH H). apply orb_true_r.
Qed.

Lemma okkeys_items_ok d : okkeys d = true -> items_ok (unskv d) = true.
Proof.
  intros H. destruct (okkeys_inv d H) as [_ [Hc Hs]]. unfold items_ok. rewrite Hs, andb_true_r.
  revert Hc. apply forallb_impl. intros kv Hkv. unfold key_clean. apply negb_true_iff. apply negb_true_iff in Hkv.
  destruct (str_contains esc_code (fst kv)) eqn:E; [|reflexivity].
  unfold esc_code in E. rewrite (str_contains_tail _ _ _ E) in Hkv. discriminate Hkv.
Qed.

(* ... such a mapping is not a path spec *)
Lemma pfs_okmap d : okkeys d = true -> pfs (VDict d) = Err MalformedPath.
Proof.
  intros H. destruct (okkeys_inv d H) as [Hk _].
  rewrite <- (str_keys_skv d Hk). exact (pfs_kwd (unskv d) (okkeys_items_ok d H)).
Qed.

Lemma try_path_item2 v : item2 v = true -> try_path pfs v = Ok (inr v).
Proof.
  intros H. unfold try_path. destruct v; try (rewrite pfs_nondict by reflexivity; reflexivity).
  rewrite (pfs_okmap d H). reflexivity.
Qed.

Lemma pfs_item2 v : item2 v = true -> pfs v = Err MalformedPath.
Proof.
  intros H. destruct v; try (rewrite pfs_nondict by reflexivity; reflexivity).
  exact (pfs_okmap d H).
Qed.

Lemma coerce_tuple_item2 l : forallb item2 l = true -> coerce_tuple pfs l = Ok tt.
Proof.
  induction l as [|v l IH]; cbn [forallb coerce_tuple]; [reflexivity|].
  intros H. apply andb_true_iff in H as [Hv Hl]. rewrite (pfs_item2 v Hv). exact (IH Hl).
Qed.

Lemma coerce_items_item2 l : forallb item2 l = true -> coerce_items pfs l = Ok (map inr l).
Proof.
  induction l as [|v l IH]; cbn [forallb coerce_items map]; [reflexivity|].
  intros H. apply andb_true_iff in H as [Hv Hl]. rewrite (try_path_item2 v Hv), (IH Hl). reflexivity.
Qed.

Definition inr_kv (kv : pyval * pyval) : pyval * (pathterm pyval + pyval) := (fst kv, inr (snd kv)).

Lemma coerce_kvs_item2 d : forallb item2 (map snd d) = true -> coerce_kvs pfs d = Ok (map inr_kv d).
Proof.
  induction d as [|[k v] r IH]; cbn [map snd forallb coerce_kvs]; [reflexivity|].
  intros H. apply andb_true_iff in H as [Hv Hr]. rewrite (try_path_item2 v Hv). cbn [bind]. rewrite (IH Hr). reflexivity.
Qed.

Lemma item_val_inr_kv d : map (fun kv => (fst kv, item_val inert0 (snd kv))) (map inr_kv d) = d.
Proof. induction d as [|[k v] r IH]; cbn [map inr_kv fst snd item_val]; [reflexivity|]. rewrite IH. reflexivity. Qed.

(* coercion of an argument of the fragment: nothing is taken for a path, nothing is un-escaped *)
Lemma coerce_plain2 v : plain2 v = true -> exists cv, coerce pfs v = Ok cv /\ cval cv = ALit v.
Proof.
  intros H. destruct v; try (eexists; split; reflexivity).
  - cbn [plain2] in H. exists (CSeq false (map inr l)). split.
    + cbn [coerce]. rewrite (coerce_items_item2 l H). reflexivity.
    + cbn [coerced_val]. rewrite item_val_inr. reflexivity.
  - cbn [plain2] in H. exists (CSeq true (map inr l)). split.
    + cbn [coerce]. rewrite (coerce_tuple_item2 l H). reflexivity.
    + cbn [coerced_val]. rewrite item_val_inr. reflexivity.
  - cbn [plain2] in H. apply andb_true_iff in H as [Hk Hv]. exists (CDict (map inr_kv d)). split.
    + unfold coerce. rewrite (pfs_okmap d Hk), (coerce_kvs_item2 d Hv). reflexivity.
    + cbn [coerced_val]. rewrite item_val_inr_kv. reflexivity.
Qed.

Lemma forallb_plain2_item2 l : forallb plain2 l = true -> forallb item2 l = true.
Proof. apply forallb_impl. exact plain2_item2. Qed.

Lemma coerce_list2 l : forallb plain2 l = true -> coerce pfs (VList l) = Ok (CSeq false (map inr l)).
Proof. intros H. cbn [coerce]. rewrite (coerce_items_item2 l (forallb_plain2_item2 l H)). reflexivity. Qed.

Lemma coerce_kwd2 items : items_ok items = true -> forallb plain2 (map snd items) = true ->
  coerce pfs (kwd items) = Ok (CDict (map (fun kv => (VStr (fst kv), inr (snd kv))) items)).
Proof.
  intros Hok Hpl. unfold kwd. change (fun kv : string * pyval => (VStr (fst kv), snd kv)) with skv.
  unfold coerce. rewrite (pfs_kwd items Hok), coerce_kvs_item2.
  - cbn [bind]. rewrite map_map. reflexivity.
  - rewrite map_map. cbn [skv snd]. exact (forallb_plain2_item2 _ Hpl).
Qed.

(* ---- the value-dependent part of parse_leaf, as C09Proof.leaf_tail_ok, for plain2 ---- *)

Lemma tail_one2 c q v :
  class_ok c q = true -> q_shape q = (1, false, false)%nat -> q_call q = (q_method q, [v], []) ->
  plain2 v = true ->
  exists t, leaf_tail (scls_class c) (q_method q) (q_ctor c q) v = Ok (t, leaf_result c q).
Proof.
  intros Hcls Hs Hq Hpl. destruct (coerce_plain2 v Hpl) as [cv [Hc Hv]]. eexists.
  apply (tail_ok c q v cv [v] [] Hcls Hc).
  - rewrite Hs. cbn [dispatch_by Nat.eqb negb andb]. rewrite Hv. reflexivity.
  - pose proof (tie_build c q Hcls) as Hb. unfold built in Hb. rewrite Hq in Hb. exact Hb.
Qed.

Lemma tail_star2 c q l :
  class_ok c q = true -> q_shape q = (0, true, false)%nat -> q_call q = (q_method q, l, []) ->
  forallb plain2 l = true ->
  exists t, leaf_tail (scls_class c) (q_method q) (q_ctor c q) (VList l) = Ok (t, leaf_result c q).
Proof.
  intros Hcls Hs Hq Hpl. eexists.
  apply (tail_ok c q (VList l) _ l [] Hcls (coerce_list2 l Hpl)).
  - rewrite Hs. cbn [dispatch_by Nat.eqb negb andb]. rewrite item_arg_inr. reflexivity.
  - pose proof (tie_build c q Hcls) as Hb. unfold built in Hb. rewrite Hq in Hb. exact Hb.
Qed.

Lemma tail_kw2 c q items :
  class_ok c q = true -> (q_shape q = (2, false, false) \/ q_shape q = (0, false, true))%nat ->
  build_leaf T idlit (scls_name c) (q_method q) [] items = Ok (expected_leaf c q) ->
  items_ok items = true -> forallb plain2 (map snd items) = true ->
  exists t, leaf_tail (scls_class c) (q_method q) (q_ctor c q) (kwd items) = Ok (t, leaf_result c q).
Proof.
  intros Hcls Hs Hb Hok Hpl. eexists.
  apply (tail_ok c q (kwd items) _ [] items Hcls (coerce_kwd2 items Hok Hpl)); [|exact Hb].
  destruct Hs as [Hs|Hs]; rewrite Hs; cbn [dispatch_by Nat.eqb Nat.ltb Nat.leb negb andb];
    rewrite kw_of_lit; reflexivity.
Qed.

Lemma leaf_tail_ok2 c q :
  class_ok c q = true -> q_plain2 q = true -> q_items_ok q = true ->
  exists t, leaf_tail (scls_class c) (q_method q) (q_ctor c q) (q_spec_val q) = Ok (t, leaf_result c q).
Proof.
  intros Hcls Hpl Hit.
  assert (Hkw : forall r, built_kw c q = Some r -> r = Ok (expected_leaf c q))
    by (intros r; apply tie_build_kw; exact Hcls).
  destruct q; cbn [q_spec_val]; unfold q_plain2, q_args in Hpl; cbn [q_call app map snd forallb] in Hpl;
    rewrite ?andb_true_r in Hpl.
  (* one named parameter *)
  1-8,12-13,18,25-26: apply tail_one2; [exact Hcls|reflexivity|reflexivity|exact Hpl].
  (* two named parameters: the spec is a keyword mapping *)
  1-3,10-12: apply andb_true_iff in Hpl as [Hp1 Hp2];
    (apply tail_kw2; [exact Hcls|left; reflexivity|exact (Hkw _ eq_refl)|reflexivity|
                      cbn [map snd forallb]; rewrite Hp1, Hp2; reflexivity]).
  (* no parameter *)
  1-3: apply tail_zero; [exact Hcls|reflexivity|reflexivity].
  (* *args *)
  1-6,8-10: apply tail_star2; [exact Hcls|reflexivity|reflexivity|rewrite app_nil_r in Hpl; exact Hpl].
  (* **items *)
  apply tail_kw2; [exact Hcls|right; reflexivity| |exact Hit|exact Hpl].
  pose proof (tie_build c (Q_items_contain items) Hcls) as Hb. exact Hb.
Qed.

(* ---- the serialiser on such values ---- *)

Lemma escape_map_okkeys d : okkeys d = true -> escape_map d = VDict d.
Proof.
  intros H. destruct (okkeys_inv d H) as [Hk [Hc _]]. unfold escape_map. rewrite (no_path_key d Hk Hc). reflexivity.
Qed.

(* JSON data is plain at every depth (no type objects, no data paths / other objects) *)
Lemma json_pure_deep_plain : forall v, json_pure v = true -> deep_plain v = true.
Proof.
  induction v as [ | b | z | n m e | s | l IHl | l IHl | d IHd | t | t ] using pyval_ind'; intros H;
    try reflexivity; try discriminate H.
  - cbn [json_pure] in H. cbn [deep_plain]. revert H. induction IHl as [|x r Hx Hr IH]; cbn [forallb]; [reflexivity|].
    intros H. apply andb_true_iff in H as [H1 H2]. rewrite (Hx H1), (IH H2). reflexivity.
  - cbn [deep_plain]. revert H. induction IHd as [|[k x] r [_ Hx] Hr IH]; [reflexivity|].
    intros H. destruct k; try discriminate H.
    change (json_pure (VDict ((VStr s, x) :: r))) with (json_pure x && json_pure (VDict r)) in H.
    apply andb_true_iff in H as [H1 H2]. cbn [forallb snd] in *. rewrite (Hx H1), (IH H2). reflexivity.
Qed.

Lemma json_pure_list l : json_pure (VList l) = forallb json_pure l.
Proof. reflexivity. Qed.

Lemma json_pure_dict_vals d : json_pure (VDict d) = true -> forallb json_pure (map snd d) = true.
Proof.
  cbn [json_pure]. induction d as [|[k v] r IH]; cbn [map snd forallb]; [reflexivity|].
  destruct k; try discriminate. intros H. apply andb_true_iff in H as [Hv Hr]. rewrite Hv. exact (IH Hr).
Qed.

Lemma forallb_map {Y Z} (f : Z -> bool) (g : Y -> Z) l : forallb f (map g l) = forallb (fun x => f (g x)) l.
Proof. induction l as [|x l IH]; cbn [map forallb]; [reflexivity|]. rewrite IH. reflexivity. Qed.

Lemma deep_plain_items l : forallb json_pure l = true -> forallb deep_plain l = true.
Proof. apply forallb_impl. exact json_pure_deep_plain. Qed.

Lemma deep_plain_vals d : json_pure (VDict d) = true -> forallb (fun kv => deep_plain (snd kv)) d = true.
Proof.
  intros H. rewrite <- (forallb_map deep_plain snd). exact (deep_plain_items _ (json_pure_dict_vals d H)).
Qed.

(* at item level a JSON list is copied as it is, a JSON mapping is escaped at its own top level only *)
Lemma item_to_json_list l : forallb json_pure l = true -> item_to_json X false (VList l) = Ok (VList l).
Proof. intros H. cbn [item_to_json]. rewrite (deep_plain_items l H). reflexivity. Qed.

Lemma item_to_json_dict d : json_pure (VDict d) = true -> item_to_json X false (VDict d) = Ok (escape_map d).
Proof. intros H. cbn [item_to_json]. rewrite (deep_plain_vals d H). reflexivity. Qed.

Lemma item_to_json_pure v : json_pure v = true -> item2 v = true -> item_to_json X false v = Ok v.
Proof.
  destruct v; try discriminate; try reflexivity; intros Hj H.
  - exact (item_to_json_list l Hj).
  - cbn [item2] in H. rewrite (item_to_json_dict d Hj), (escape_map_okkeys d H). reflexivity.
Qed.

Lemma mapM_item_pure l : forallb json_pure l = true -> forallb item2 l = true -> mapM (item_to_json X false) l = Ok l.
Proof.
  induction l as [|v l IH]; cbn [forallb mapM]; [reflexivity|].
  intros H1 H2. apply andb_true_iff in H1 as [Hv1 Hl1]. apply andb_true_iff in H2 as [Hv2 Hl2].
  rewrite (item_to_json_pure v Hv1 Hv2), (IH Hl1 Hl2). reflexivity.
Qed.

Lemma mapM_kv_pure d : forallb json_pure (map snd d) = true -> forallb item2 (map snd d) = true ->
  mapM (fun kv : pyval * pyval => let* x := item_to_json X false (snd kv) in Ok (fst kv, x)) d = Ok d.
Proof.
  induction d as [|[k v] r IH]; cbn [map snd forallb mapM fst]; [reflexivity|].
  intros H1 H2. apply andb_true_iff in H1 as [Hv1 Hr1]. apply andb_true_iff in H2 as [Hv2 Hr2].
  rewrite (item_to_json_pure v Hv1 Hv2). cbn [bind]. rewrite (IH Hr1 Hr2). reflexivity.
Qed.

Lemma val_to_json_pure v : json_pure v = true -> plain2 v = true -> val_to_json X false v = Ok v.
Proof.
  destruct v; try discriminate; intros Hj Hp; try reflexivity.
  - rewrite json_pure_list in Hj. cbn [plain2] in Hp.
    unfold val_to_json. rewrite (mapM_item_pure l Hj Hp). reflexivity.
  - cbn [plain2] in Hp. apply andb_true_iff in Hp as [Hk Hv]. destruct (okkeys_inv d Hk) as [Hs [Hc _]].
    unfold val_to_json. rewrite (no_path_key d Hs Hc), (mapM_kv_pure d (json_pure_dict_vals d Hj) Hv). reflexivity.
Qed.

(* the value written for an argument, and when *)
Definition val_json (cast : bool) (v : pyval) : pyval := if cast then names v else v.
Definition arg_ok (cast : bool) (v : pyval) : bool := if cast then types_only v else json_pure v && plain2 v.

Lemma val_to_json_ok cast v : arg_ok cast v = true -> val_to_json X cast v = Ok (val_json cast v).
Proof.
  destruct cast; cbn [arg_ok val_json]; intros H.
  - exact (val_to_json_types v H).
  - apply andb_true_iff in H as [H1 H2]. exact (val_to_json_pure v H1 H2).
Qed.

Lemma a2j_lit cast v : a2j cast (ALit v) = val_to_json X cast v.
Proof. reflexivity. Qed.

(* the same at item level (arguments of callables with several parameters / *args, values of a keyword
   mapping): under a type conversion a single type only -- a LIST of types there is refused by the serialiser
   (see leaf_to_json_cast_items_refused below) *)
Definition item_ok (cast : bool) (v : pyval) : bool := if cast then is_known_type v else json_pure v && plain2 v.

Lemma item_ok_arg_ok cast v : item_ok cast v = true -> arg_ok cast v = true.
Proof. destruct cast; cbn [item_ok arg_ok]; [|exact (fun H => H)]. destruct v; try discriminate. exact (fun H => H). Qed.

Lemma item_to_json_ok cast v : item_ok cast v = true -> item_to_json X cast v = Ok (val_json cast v).
Proof.
  destruct cast; cbn [item_ok val_json]; intros H.
  - rewrite (item_to_json_type v H). destruct v; try discriminate H. reflexivity.
  - apply andb_true_iff in H as [H1 H2]. exact (item_to_json_pure v H1 (plain2_item2 v H2)).
Qed.

Lemma a2i_lit cast v : a2i cast (ALit v) = item_to_json X cast v.
Proof. reflexivity. Qed.

Lemma mapM_a2i cast l : forallb (item_ok cast) l = true -> mapM (a2i cast) (map ALit l) = Ok (map (val_json cast) l).
Proof.
  induction l as [|v l IH]; cbn [forallb mapM map]; [reflexivity|].
  intros H. apply andb_true_iff in H as [Hv Hl]. rewrite a2i_lit, (item_to_json_ok cast v Hv). cbn [bind].
  rewrite (IH Hl). reflexivity.
Qed.

Lemma mapM_a2j cast l : forallb (arg_ok cast) l = true -> mapM (a2j cast) (map ALit l) = Ok (map (val_json cast) l).
Proof.
  induction l as [|v l IH]; cbn [forallb mapM map]; [reflexivity|].
  intros H. apply andb_true_iff in H as [Hv Hl]. rewrite a2j_lit, (val_to_json_ok cast v Hv). cbn [bind].
  rewrite (IH Hl). reflexivity.
Qed.

(* ---- leaf_to_json = table lookups, then the part that looks at the arguments ---- *)

Definition sig_shape (fd : fdef) : nat * bool * bool :=
  (Nat.pred (List.length (s_params (f_sig fd))),
   match s_vararg (f_sig fd) with Some _ => true | None => false end,
   match s_kwarg (f_sig fd) with Some _ => true | None => false end).

Definition kws_raw := fix go (kws : list (string * arg1)) : res (list (pyval * pyval)) :=
  match kws with
  | [] => Ok []
  | (k', a) :: r => let* x := arg1_raw a in let* r' := go r in Ok ((VStr k', x) :: r')
  end.

(* the arguments of a callable with several parameters, and the values of a keyword mapping without "path" in
   its names: written at ITEM level (a literal list is copied as it is, a literal mapping is escaped, a data
   path is written as its spec) *)
Definition kws_item (cast : bool) := fix go (kws : list (string * arg1)) : res (list (pyval * pyval)) :=
  match kws with
  | [] => Ok []
  | (k', a) :: r => let* x := a2i cast a in let* r' := go r in Ok ((VStr k', x) :: r')
  end.

Definition kws_have_path (kws : list (string * arg1)) : bool :=
  existsb (fun ka => str_contains "path" (fst ka)) kws.

Definition args_json (sh : nat * bool * bool) (cast : bool) (l : leaf arg1) : res pyval :=
  let '(npk, va, kw) := sh in
  if (npk =? 0)%nat && negb va && negb kw then Ok VNone
  else if (npk =? 1)%nat && negb va && negb kw then
    match l_args l ++ map snd (l_kwargs l) with
    | a :: _ => a2j cast a
    | [] => Err IndexError
    end
  else if (1 <? npk)%nat && negb va && negb kw then
    let* items := kws_item cast (l_kwargs l) in Ok (VDict items)
  else if kw && negb va then
    (* **items: written raw through escape_map if some item name contains "path" *)
    if kws_have_path (l_kwargs l) then
      let* items := kws_raw (l_kwargs l) in Ok (escape_map items)
    else
      let* items := kws_item cast (l_kwargs l) in Ok (VDict items)
  else if va && (npk =? 0)%nat && negb kw then
    let* items := mapM (a2i cast) (l_args l) in Ok (VList items)
  else Err NotImplementedError.

Definition key_casts (key : string) : bool := str_contains "dtype" key || str_contains "is_instance" key.

Lemma leaf_to_json_eq (l : leaf arg1) k fd :
  is_null_leaf l = false ->
  find_class (t_classes T) (l_cls l) = Some k -> find_def (t_defs T) (l_call l) = Some fd ->
  l2j l = let key := (k_label k ++ "." ++ l_call l)%string in
          let* v := args_json (sig_shape fd) (key_casts key) l in Ok (VDict [(VStr key, v)]).
Proof.
  intros Hn Hk Hd. unfold leaf_to_json. rewrite Hn, Hk, Hd. reflexivity.
Qed.

(* ---- closed facts about the tables ---- *)

Definition dummy_def : fdef :=
  {| f_name := ""; f_sig := {| s_params := []; s_vararg := None; s_kwarg := None |}; f_body := [] |}.
Definition q_def (q : dsl) : fdef :=
  match find_def (t_defs T) (q_method q) with Some d => d | None => dummy_def end.

Lemma find_q_def q : find_def (t_defs T) (q_method q) = Some (q_def q).
Proof. destruct q; vm_compute; reflexivity. Qed.

(* the callable has the parameters of the DSL constructor after the datum *)
Lemma q_def_shape q : sig_shape (q_def q) = q_shape q.
Proof. destruct q; vm_compute; reflexivity. Qed.

Lemma find_scls_class c : find_class (t_classes T) (scls_name c) = Some (scls_class c).
Proof. destruct c; vm_compute; reflexivity. Qed.

Lemma scls_class_label c : k_label (scls_class c) = scls_label c.
Proof. destruct c; vm_compute; reflexivity. Qed.

Lemma expected_call c q : l_call (expected_leaf c q) = q_method q.
Proof. destruct q; reflexivity. Qed.

Lemma expected_not_null c q : is_null_leaf (lmapL (expected_leaf c q)) = false.
Proof. unfold is_null_leaf. cbn [leaf_map l_cls]. rewrite expected_cls. destruct c; reflexivity. Qed.

(* types are written as names exactly under a `dtype` class and for (keys_)is_instance *)
Definition casts (c : scls) (q : dsl) : bool := typed c || q_is_inst q.

Lemma key_casts_leaf c q : key_casts (leaf_key c q) = casts c q.
Proof. destruct c; destruct q; vm_compute; reflexivity. Qed.

Lemma leaf_to_json_expected c q :
  l2j (lmapL (expected_leaf c q)) =
  let* v := args_json (q_shape q) (casts c q) (lmapL (expected_leaf c q)) in Ok (VDict [(VStr (leaf_key c q), v)]).
Proof.
  rewrite (leaf_to_json_eq _ (scls_class c) (q_def q) (expected_not_null c q)).
  - cbv zeta. cbn [leaf_map l_call]. rewrite expected_call, scls_class_label, q_def_shape.
    fold (leaf_key c q). rewrite key_casts_leaf. reflexivity.
  - cbn [leaf_map l_cls]. rewrite expected_cls. apply find_scls_class.
  - cbn [leaf_map l_call]. rewrite expected_call. apply find_q_def.
Qed.

(* ---- the four argument shapes ---- *)

Inductive form :=
| FZero
| FOne (v : pyval)
| FKw (items : list (string * pyval))
| FStar (l : list pyval).

Definition q_form (q : dsl) : form :=
  match q with
  | Q_equal_to v | Q_not_equal_to v | Q_less_than v | Q_greater_than v | Q_less_than_or_equal_to v
  | Q_greater_than_or_equal_to v | Q_in v | Q_not_in v | Q_factor_of v | Q_has_factor v | Q_keys_contain v
  | Q_keys_contain_at_least_one_of v | Q_keys_contain_at_most_one_of v => FOne v
  | Q_in_range lo hi | Q_not_in_range lo hi => FKw [("lower", lo); ("upper", hi)]
  | Q_equal_to_approx v tol => FKw [("value", v); ("tolerance", tol)]
  | Q_truthy | Q_falsy | Q_null => FZero
  | Q_is_instance l | Q_keys_contain_any_of l | Q_keys_contain_all_of l | Q_keys_contain_one_of l | Q_keys_equal_to l
  | Q_keys_is_instance l | Q_allowed_keys l | Q_required_keys l | Q_forbidden_keys l => FStar l
  | Q_keys_contain_N_of n ks | Q_keys_contain_at_least_N_of n ks | Q_keys_contain_at_most_N_of n ks =>
      FKw [("N", n); ("keys", ks)]
  | Q_items_contain items => FKw items
  end.

Definition form_val (f : form) : pyval :=
  match f with FZero => VNone | FOne v => v | FKw items => kwd items | FStar l => VList l end.
Definition form_args (f : form) : list pyval :=
  match f with FZero => [] | FOne v => [v] | FKw items => map snd items | FStar l => l end.
Definition kw_json (cast : bool) (items : list (string * pyval)) : list (string * pyval) :=
  map (fun kv => (fst kv, val_json cast (snd kv))) items.
Definition form_json (cast : bool) (f : form) : pyval :=
  match f with
  | FZero => VNone
  | FOne v => val_json cast v
  | FKw items => kwd (kw_json cast items)
  | FStar l => VList (map (val_json cast) l)
  end.

Lemma q_spec_form q : q_spec_val q = form_val (q_form q).
Proof. destruct q; reflexivity. Qed.

Lemma q_args_form q : q_args q = form_args (q_form q).
Proof. unfold q_args. destruct q; cbn [q_call q_form form_args app map snd]; rewrite ?app_nil_r; reflexivity. Qed.

Lemma kw_json_false items : kw_json false items = items.
Proof. unfold kw_json. induction items as [|[k v] r IH]; cbn [map]; [reflexivity|]. rewrite IH. reflexivity. Qed.

Lemma form_json_false f : form_json false f = form_val f.
Proof.
  destruct f; cbn [form_json form_val val_json]; try reflexivity.
  - rewrite kw_json_false. reflexivity.
  - rewrite map_id. reflexivity.
Qed.

Lemma args_json_zero cast l : args_json (0, false, false)%nat cast l = Ok VNone.
Proof. reflexivity. Qed.

Lemma args_json_one cast l v rest :
  l_args l ++ map snd (l_kwargs l) = ALit v :: rest -> arg_ok cast v = true ->
  args_json (1, false, false)%nat cast l = Ok (val_json cast v).
Proof.
  intros Hl Hv. unfold args_json. cbn [Nat.eqb negb andb]. rewrite Hl, a2j_lit. exact (val_to_json_ok cast v Hv).
Qed.

(* After the repair of the serialiser, the keyword mapping of a var-keyword callable
   (items_contain( **items )) is written raw and ESCAPED as soon as one item name contains "path";
   from_spec then un-escapes the names and moves them to the end (cf. example (e) below for mapping
   arguments), so neither `c2 = c1` nor `cond1_to_json c2 = Ok j` holds in general.  q_items_ok
   (C09Proof: no name contains "\path", not a single `path[.m[.m]]` name) does NOT exclude such
   names (e.g. `mypath`, or `path` next to another item), hence this extra condition of the
   fragment: no item name contains "path". *)
Definition items_nopath (items : list (string * pyval)) : bool :=
  negb (existsb (fun kv => str_contains "path" (fst kv)) items).
Definition q_items_nopath (q : dsl) : bool :=
  match q with Q_items_contain items => items_nopath items | _ => true end.

Lemma kws_have_path_lit items :
  kws_have_path (kmapL items) = existsb (fun kv => str_contains "path" (fst kv)) items.
Proof.
  unfold kws_have_path, kmap. induction items as [|[k v] r IH]; cbn [map existsb fst]; [reflexivity|].
  rewrite IH. reflexivity.
Qed.

(* the item-level values of the fragment (JSON data, mappings without "path" keys; under a type conversion:
   single types) are written as they are / as their names *)
Lemma kws_item_lit cast items : forallb (item_ok cast) (map snd items) = true ->
  kws_item cast (kmapL items) = Ok (map skv (kw_json cast items)).
Proof.
  induction items as [|[k v] r IH]; cbn [map snd forallb]; intros H; [reflexivity|].
  apply andb_true_iff in H as [Hv Hr].
  unfold kmap. cbn [map fst snd kws_item]. fold (kws_item cast). fold (kmapL r).
  rewrite a2i_lit, (item_to_json_ok cast v Hv). cbn [bind]. rewrite (IH Hr). reflexivity.
Qed.

Lemma args_json_kw sh cast l items :
  (sh = (2, false, false) \/ (sh = (0, false, true) /\ items_nopath items = true))%nat ->
  l_kwargs l = kmapL items ->
  forallb (item_ok cast) (map snd items) = true ->
  args_json sh cast l = Ok (kwd (kw_json cast items)).
Proof.
  intros Hs Hl Hv. unfold kwd. change (fun kv : string * pyval => (VStr (fst kv), snd kv)) with skv.
  destruct Hs as [-> | [-> Hn]]; unfold args_json; cbn [Nat.eqb Nat.ltb Nat.leb negb andb orb]; rewrite Hl.
  - rewrite (kws_item_lit cast items Hv). reflexivity.
  - unfold items_nopath in Hn. apply negb_true_iff in Hn.
    rewrite kws_have_path_lit, Hn, (kws_item_lit cast items Hv). reflexivity.
Qed.

Lemma args_json_star cast l vs :
  l_args l = map ALit vs -> forallb (item_ok cast) vs = true ->
  args_json (0, true, false)%nat cast l = Ok (VList (map (val_json cast) vs)).
Proof.
  intros Hl Hv. unfold args_json. cbn [Nat.eqb Nat.ltb Nat.leb negb andb orb].
  rewrite Hl, (mapM_a2i cast vs Hv). reflexivity.
Qed.

(* when the arguments of a form are written: the single argument of a one-parameter callable at argument level
   (arg_ok), the others at item level (item_ok) *)
Definition form_ok (cast : bool) (f : form) : bool :=
  match f with
  | FZero => true
  | FOne v => arg_ok cast v
  | FKw items => forallb (item_ok cast) (map snd items)
  | FStar l => forallb (item_ok cast) l
  end.

Lemma args_json_form c q cast : q_items_nopath q = true ->
  form_ok cast (q_form q) = true ->
  args_json (q_shape q) cast (lmapL (expected_leaf c q)) = Ok (form_json cast (q_form q)).
Proof.
  intros Hn H.
  destruct q; cbn [q_form form_ok form_json q_shape] in *;
    first [ apply args_json_zero
          | eapply args_json_one; [reflexivity|]; exact H
          | apply args_json_kw;
              [first [left; reflexivity|right; split; [reflexivity|exact Hn]]|reflexivity|exact H]
          | apply args_json_star; [reflexivity|exact H] ].
Qed.

(* what is written for a leaf *)
Definition q_json_val (c : scls) (q : dsl) : pyval := form_json (casts c q) (q_form q).
Definition leaf_json (c : scls) (q : dsl) : pyval := VDict [(VStr (leaf_key c q), q_json_val c q)].

Lemma leaf_to_json_ok c q : q_items_nopath q = true ->
  form_ok (casts c q) (q_form q) = true ->
  l2j (lmapL (expected_leaf c q)) = Ok (leaf_json c q).
Proof.
  intros Hn H. rewrite leaf_to_json_expected, (args_json_form c q _ Hn H). reflexivity.
Qed.

(* item_ok (a single type), not arg_ok (types_only: a type or a list of types), at item level: on a
   (non-existent) `dtype` class with items_contain the values are ITEMS of a mapping, where a list of types
   is refused (it used to be copied as it is, not written as names); likewise a list of types as one of
   the *args of is_instance *)
Example leaf_to_json_cast_items_refused :
  let q := Q_items_contain [("a", VList [VType TInt])] in
  class_ok SValueDataType q = false /\ q_items_nopath q = true /\
  forallb (arg_ok (casts SValueDataType q)) (q_args q) = true /\
  form_ok (casts SValueDataType q) (q_form q) = false /\
  l2j (lmapL (expected_leaf SValueDataType q)) = Err TypeError /\
  l2j (lmapL (expected_leaf SValue (Q_is_instance [VList [VType TInt]]))) = Err TypeError /\
  l2j (lmapL (expected_leaf SValueDataType (Q_items_contain [("a", VType TInt)])))
    = Ok (VDict [(VStr "value.dtype.items_contain", VDict [(VStr "a", VStr "int")])]).
Proof. vm_compute. repeat split. Qed.

(* where no type conversion applies, the canonical spec spelling itself is written *)
Lemma leaf_json_spec c q : casts c q = false -> leaf_json c q = leaf_spec c q.
Proof.
  intros H. unfold leaf_json, q_json_val, leaf_spec. rewrite H, form_json_false, <- q_spec_form. reflexivity.
Qed.

(* ================================================================== *)
(* 3. the fragment; purity of what is written                           *)

(* Arguments (plain2): JSON values that the serialiser does not escape and from_spec takes
   literally -- scalars, lists, and mappings none of whose keys contains "path" and which are
   not a single key reading `path[.m[.m]]` in some letter case (the same for mappings that are
   list items or values of a mapping argument; deeper levels are unrestricted); well-formed
   (distinct keys).  Under a `dtype` class and for (keys_)is_instance: the known type objects
   (q_types_ok).  Item names of items_contain: pairwise distinct (they are keyword arguments),
   as for C09 (q_items_ok, q_wf), and -- STRENGTHENED after the repair of the serialiser, which now
   escapes the keyword mapping of items_contain like a mapping argument -- none contains "path"
   (q_items_nopath; see the comment at its definition and counterexample (b2)). *)
Definition leaf_in_c11 (c : scls) (q : dsl) : bool :=
  class_ok c q && q_plain2 q && q_types_ok c q && q_wf q && q_items_ok q
  && (casts c q || forallb json_pure (q_args q))
  && forallb wf_val (q_args q) && q_nodup q && q_items_nopath q.

Definition tree_in_c11 (t : qtree) : bool :=
  forallb (fun cq => leaf_in_c11 (fst cq) (snd cq)) (qleaves t)
  && (tree_depth t <=? 40)%nat && negb (qmixed (qnorm t)).

Lemma leaf_in_c11_inv c q : leaf_in_c11 c q = true ->
  class_ok c q = true /\ q_plain2 q = true /\ q_types_ok c q = true /\ q_wf q = true /\ q_items_ok q = true
  /\ (casts c q || forallb json_pure (q_args q)) = true
  /\ forallb wf_val (q_args q) = true /\ q_nodup q = true.
Proof.
  unfold leaf_in_c11. intros H. apply andb_true_iff in H as [H _].
  apply andb_true_iff in H as [H H8]. apply andb_true_iff in H as [H H7].
  apply andb_true_iff in H as [H H6]. apply andb_true_iff in H as [H H5].
  apply andb_true_iff in H as [H H4]. apply andb_true_iff in H as [H H3]. apply andb_true_iff in H as [H1 H2].
  repeat split; assumption.
Qed.

Lemma leaf_in_c11_nopath c q : leaf_in_c11 c q = true -> q_items_nopath q = true.
Proof. unfold leaf_in_c11. intros H. apply andb_true_iff in H as [_ H]. exact H. Qed.

(* the fragment of C09 (with its side condition), restricted to JSON arguments and to item names
   without "path", is included *)
Lemma leaf_c09_in_c11 c q :
  leaf_in_c09 c q = true -> q_items_ok q = true ->
  (casts c q || forallb json_pure (q_args q)) = true -> forallb wf_val (q_args q) = true -> q_nodup q = true ->
  q_items_nopath q = true ->
  leaf_in_c11 c q = true.
Proof.
  intros H9 Hit Hj Hw Hn Hnp. destruct (leaf_in_c09_inv c q H9) as [Hc [Hp [Ht Hq]]].
  unfold leaf_in_c11. rewrite Hc, Ht, Hq, Hit, Hj, Hw, Hn, Hnp.
  unfold q_plain2. unfold q_plain in Hp. rewrite (forallb_impl _ _ _ plain_plain2 Hp). reflexivity.
Qed.

Lemma forallb_and {Y} (f g : Y -> bool) l :
  forallb f l = true -> forallb g l = true -> forallb (fun x => f x && g x) l = true.
Proof.
  induction l as [|x l IH]; cbn [forallb]; [reflexivity|].
  intros H1 H2. apply andb_true_iff in H1 as [-> H1]. apply andb_true_iff in H2 as [-> H2]. exact (IH H1 H2).
Qed.

Lemma known_types_only l : forallb is_known_type l = true -> forallb types_only l = true.
Proof.
  induction l as [|v l IH]; cbn [forallb]; [reflexivity|].
  intros H. apply andb_true_iff in H as [Hv Hl]. rewrite (IH Hl), andb_true_r.
  destruct v; try discriminate Hv. exact Hv.
Qed.

(* where types are written as names, every argument is a type *)
Lemma cast_args_types c q : q_types_ok c q = true -> casts c q = true ->
  forallb types_only (q_args q) = true.
Proof.
  unfold q_types_ok, casts, q_args. fold (typed c). intros Ht Hc.
  destruct (typed c); destruct q; cbn [q_is_inst orb negb] in *; try discriminate;
    cbn [q_call app map snd forallb]; rewrite ?app_nil_r, ?andb_true_r;
    first [exact Ht | exact (known_types_only _ Ht)].
Qed.

Lemma leaf_args_ok c q : leaf_in_c11 c q = true -> forallb (arg_ok (casts c q)) (q_args q) = true.
Proof.
  intros H. destruct (leaf_in_c11_inv c q H) as [_ [Hpl [Hty [_ [_ [Hj _]]]]]].
  destruct (casts c q) eqn:Ec; cbn [arg_ok orb] in *.
  - exact (cast_args_types c q Hty Ec).
  - exact (forallb_and _ _ _ Hj Hpl).
Qed.

Lemma form_ok_false f : forallb (arg_ok false) (form_args f) = true -> form_ok false f = true.
Proof.
  destruct f; cbn [form_args form_ok]; intros H; try exact H.
  cbn [forallb] in H. rewrite andb_true_r in H. exact H.
Qed.

(* where types are written as names, a several-parameter / *args callable has single types as arguments *)
Lemma cast_form_ok c q : q_types_ok c q = true -> casts c q = true -> form_ok true (q_form q) = true.
Proof.
  unfold q_types_ok, casts. fold (typed c). intros Ht Hc.
  destruct (typed c); destruct q; cbn [q_is_inst orb negb] in *; try discriminate;
    cbn [q_form form_ok arg_ok item_ok]; exact Ht.
Qed.

Lemma leaf_form_ok c q : leaf_in_c11 c q = true -> form_ok (casts c q) (q_form q) = true.
Proof.
  intros H. pose proof (leaf_args_ok c q H) as Ha. destruct (leaf_in_c11_inv c q H) as [_ [_ [Hty _]]].
  destruct (casts c q) eqn:Ec.
  - exact (cast_form_ok c q Hty Ec).
  - apply form_ok_false. rewrite <- q_args_form. exact Ha.
Qed.

(* ---- json_pure ---- *)

Lemma json_pure_name_of v : is_known_type v = true -> json_pure (name_of v) = true.
Proof. destruct v; try discriminate. destruct t; try discriminate; reflexivity. Qed.

Lemma json_pure_names v : types_only v = true -> json_pure (names v) = true.
Proof.
  destruct v; try discriminate; cbn [types_only names]; intros H.
  - rewrite json_pure_list. induction l as [|v l IH]; cbn [map forallb] in *; [reflexivity|].
    apply andb_true_iff in H as [Hv Hl]. rewrite (json_pure_name_of v Hv). exact (IH Hl).
  - exact (json_pure_name_of (VType t) H).
Qed.

Lemma json_pure_val_json cast v : arg_ok cast v = true -> json_pure (val_json cast v) = true.
Proof.
  destruct cast; cbn [arg_ok val_json]; intros H; [exact (json_pure_names v H)|].
  apply andb_true_iff in H as [H _]. exact H.
Qed.

Lemma json_pure_map_val cast l : forallb (arg_ok cast) l = true -> forallb json_pure (map (val_json cast) l) = true.
Proof.
  induction l as [|v l IH]; cbn [forallb map]; [reflexivity|].
  intros H. apply andb_true_iff in H as [Hv Hl]. rewrite (json_pure_val_json cast v Hv). exact (IH Hl).
Qed.

Lemma json_pure_kwd items : json_pure (kwd items) = forallb json_pure (map snd items).
Proof.
  unfold kwd. cbn [json_pure].
  induction items as [|[k v] r IH]; cbn [map fst snd forallb]; [reflexivity|]. rewrite IH. reflexivity.
Qed.

Lemma map_snd_kw_json cast items : map snd (kw_json cast items) = map (val_json cast) (map snd items).
Proof. unfold kw_json. rewrite !map_map. reflexivity. Qed.

Lemma json_pure_form cast f : forallb (arg_ok cast) (form_args f) = true -> json_pure (form_json cast f) = true.
Proof.
  destruct f; cbn [form_args form_json]; intros H.
  - reflexivity.
  - cbn [forallb] in H. rewrite andb_true_r in H. exact (json_pure_val_json cast v H).
  - rewrite json_pure_kwd, map_snd_kw_json. exact (json_pure_map_val cast _ H).
  - rewrite json_pure_list. exact (json_pure_map_val cast _ H).
Qed.

Lemma json_pure_single k v : json_pure (VDict [(VStr k, v)]) = json_pure v.
Proof. cbn [json_pure]. apply andb_true_r. Qed.

Lemma leaf_json_pure c q : leaf_in_c11 c q = true -> json_pure (leaf_json c q) = true.
Proof.
  intros H. unfold leaf_json. rewrite json_pure_single. unfold q_json_val.
  apply json_pure_form. rewrite <- q_args_form. exact (leaf_args_ok c q H).
Qed.

(* ================================================================== *)
(* 4. parsing what was written                                          *)

Lemma to_type_name_of v : is_known_type v = true -> to_type X (name_of v) = Ok v.
Proof. destruct v; try discriminate. destruct t; try discriminate; reflexivity. Qed.

Lemma mapM_to_type_names l : forallb is_known_type l = true -> mapM (to_type X) (map name_of l) = Ok l.
Proof.
  induction l as [|v l IH]; cbn [forallb map mapM]; [reflexivity|].
  intros H. apply andb_true_iff in H as [Hv Hl]. rewrite (to_type_name_of v Hv), (IH Hl). reflexivity.
Qed.

(* type names convert back to the type objects they were written for *)
Lemma convert_types_names v : types_only v = true -> convert_types X (names v) = Ok v.
Proof.
  destruct v; try discriminate; cbn [types_only names]; intros H.
  - unfold convert_types. rewrite (mapM_to_type_names l H). reflexivity.
  - destruct t; try discriminate; reflexivity.
Qed.

Lemma names_known v : is_known_type v = true -> names v = name_of v.
Proof. destruct v; try discriminate. reflexivity. Qed.

Lemma map_names_known l : forallb is_known_type l = true -> map names l = map name_of l.
Proof.
  induction l as [|v l IH]; cbn [forallb map]; [reflexivity|].
  intros H. apply andb_true_iff in H as [Hv Hl]. rewrite (names_known v Hv), (IH Hl). reflexivity.
Qed.

(* under casts, what is written is the spec value with names for types *)
Lemma cast_form c q : q_types_ok c q = true -> casts c q = true ->
  types_only (q_spec_val q) = true /\ q_json_val c q = names (q_spec_val q).
Proof.
  unfold q_json_val, q_types_ok, casts. fold (typed c). intros Ht Hc. rewrite Hc.
  destruct (typed c); destruct q; cbn [q_is_inst orb negb] in *; try discriminate;
    cbn [q_spec_val q_form form_json val_json types_only names]; (split; [exact Ht|]).
  all: try reflexivity.
  all: change (map (val_json true) classes) with (map names classes); rewrite (map_names_known _ Ht); reflexivity.
Qed.

Lemma conv_json c q : q_types_ok c q = true ->
  exists v1, conv (typed c) (q_json_val c q) = Ok v1 /\ conv (q_is_inst q) v1 = Ok (q_spec_val q).
Proof.
  intros Hty. destruct (casts c q) eqn:Ec.
  - destruct (cast_form c q Hty Ec) as [Ht Hj]. rewrite Hj.
    destruct (conv_ok c q Hty) as [_ H2].
    unfold casts in Ec. destruct (typed c); cbn [conv].
    + exists (q_spec_val q). split; [exact (convert_types_names _ Ht)|exact H2].
    + cbn [orb] in Ec. rewrite Ec. cbn [conv]. eexists. split; [reflexivity|exact (convert_types_names _ Ht)].
  - unfold q_json_val. rewrite Ec, form_json_false, <- q_spec_form.
    unfold casts in Ec. apply orb_false_iff in Ec as [-> ->]. cbn [conv]. eexists. split; reflexivity.
Qed.

(* what is written for a leaf parses (at any positive fuel) to the leaf *)
Lemma leaf_json_parse c q f :
  class_ok c q = true -> q_plain2 q = true -> q_types_ok c q = true -> q_items_ok q = true ->
  exists t, self1 (S f) (leaf_json c q) = Ok (t, leaf_result c q).
Proof.
  intros Hcls Hpl Hty Hit.
  unfold leaf_json.
  rewrite self1_S, (step1_leaf _ _ _ (leaf_key_not_binop c q)), parse_leaf_head, (head_leaf c q Hcls).
  cbn [run_head]. destruct (conv_json c q Hty) as [v1 [H1 H2]]. rewrite H1. cbn [bind]. rewrite H2. cbn [bind].
  exact (leaf_tail_ok2 c q Hcls Hpl Hit).
Qed.

(* ================================================================== *)
(* 5. and / or / xor trees                                              *)

Fixpoint tree_json (t : qtree) : pyval :=
  match t with
  | QLeaf c q => leaf_json c q
  | QNull => VDict []
  | QBin o a b => VDict [(VStr (bop_name o), VList [tree_json a; tree_json b])]
  end.

Definition leaves_c11 (t : qtree) : bool := forallb (fun cq => leaf_in_c11 (fst cq) (snd cq)) (qleaves t).

Lemma leaves_c11_bin o a b : leaves_c11 (QBin o a b) = true -> leaves_c11 a = true /\ leaves_c11 b = true.
Proof. unfold leaves_c11. cbn [qleaves]. rewrite forallb_app. apply andb_true_iff. Qed.

Lemma leaves_c11_leaf c q : leaves_c11 (QLeaf c q) = true -> leaf_in_c11 c q = true.
Proof. unfold leaves_c11. cbn [qleaves forallb fst snd]. rewrite andb_true_r. exact (fun H => H). Qed.

Lemma bop_symbol_name o : bop_symbol o = bop_name o.
Proof. destruct o; reflexivity. Qed.

(* serialising the condition of a typed tree (null operands included) *)
Lemma cond_to_json_tree n : leaves_c11 n = true -> cond1_to_json T X (cmapL (cond_of n)) = Ok (tree_json n).
Proof.
  unfold cond1_to_json. induction n as [c q| |o a IHa b IHb]; intros H.
  - cbn [cond_of cond_map cond_to_json tree_json]. apply leaf_to_json_ok.
    + exact (leaf_in_c11_nopath c q (leaves_c11_leaf c q H)).
    + exact (leaf_form_ok c q (leaves_c11_leaf c q H)).
  - reflexivity.
  - apply leaves_c11_bin in H as [Ha Hb].
    cbn [cond_of cond_map cond_to_json tree_json]. rewrite (IHa Ha), (IHb Hb). cbn [bind].
    rewrite bop_symbol_name. reflexivity.
Qed.

Lemma tree_json_pure n : leaves_c11 n = true -> json_pure (tree_json n) = true.
Proof.
  induction n as [c q| |o a IHa b IHb]; intros H.
  - exact (leaf_json_pure c q (leaves_c11_leaf c q H)).
  - reflexivity.
  - apply leaves_c11_bin in H as [Ha Hb]. cbn [tree_json]. rewrite json_pure_single, json_pure_list.
    cbn [forallb]. rewrite (IHa Ha), (IHb Hb). reflexivity.
Qed.

(* parsing it back: as C09Proof.tree_parse, with leaf_json for leaf_spec *)
Lemma tree_json_parse t : forall f,
  tree_depth t <= f -> leaves_c11 t = true ->
  if qmixed (qnorm t) then self1 f (tree_json t) = Err TypeError
  else exists tm, self1 f (tree_json t) = Ok (tm, cmapL (cond_of (qnorm t))).
Proof.
  induction t as [c q| |o a IHa b IHb]; intros f Hd Hin.
  - cbn [tree_depth] in Hd. destruct f as [|f]; [lia|].
    cbn [qnorm tree_json]. rewrite qmixed_leaf.
    destruct (leaf_in_c11_inv c q (leaves_c11_leaf c q Hin)) as [Hc [Hp [Ht [_ [Hit _]]]]].
    exact (leaf_json_parse c q f Hc Hp Ht Hit).
  - cbn [tree_depth] in Hd. destruct f as [|f]; [lia|].
    cbn [qnorm tree_json]. rewrite qmixed_null, self1_S, step1_null. eexists. reflexivity.
  - cbn [tree_depth] in Hd. destruct f as [|f]; [lia|].
    apply leaves_c11_bin in Hin as [Hina Hinb].
    assert (Hda : tree_depth a <= f) by lia. assert (Hdb : tree_depth b <= f) by lia.
    specialize (IHa f Hda Hina). specialize (IHb f Hdb Hinb).
    cbn [tree_json]. rewrite self1_S, step1_bin.
    destruct (qmixed (qnorm a)) eqn:Ma.
    { rewrite (qmixed_qnorm_bin_l o a b Ma), IHa. reflexivity. }
    destruct IHa as [ta Ea]. rewrite Ea. cbn [bind]. rewrite mk_bin_null_l. cbn [bind].
    destruct (qmixed (qnorm b)) eqn:Mb.
    { rewrite (qmixed_qnorm_bin_r o a b Mb), IHb. reflexivity. }
    destruct IHb as [tb Eb]. rewrite Eb. cbn [bind]. rewrite mk_bin_map, mk_bin_cond_of.
    cbn [qnorm].
    destruct (q_is_null (qnorm b)); [rewrite Ma; eexists; reflexivity|].
    destruct (q_is_null (qnorm a)); [rewrite Mb; eexists; reflexivity|].
    destruct (qmixed (QBin o (qnorm a) (qnorm b))); [reflexivity|eexists; reflexivity].
Qed.

(* ---- normal forms ---- *)

Fixpoint no_null (t : qtree) : bool :=
  match t with QLeaf _ _ => true | QNull => false | QBin _ a b => no_null a && no_null b end.

(* a normalised tree is the null condition, or contains no null operand *)
Lemma qnorm_nf t : q_is_null (qnorm t) = true \/ no_null (qnorm t) = true.
Proof.
  induction t as [c q| |o a IHa b IHb]; cbn [qnorm].
  - right. reflexivity.
  - left. reflexivity.
  - destruct (q_is_null (qnorm b)) eqn:Eb; [exact IHa|].
    destruct (q_is_null (qnorm a)) eqn:Ea; [destruct IHb as [H|H]; [discriminate H|right; exact H]|].
    right. cbn [no_null]. destruct IHa as [H|H]; [congruence|]. destruct IHb as [H'|H']; [congruence|].
    rewrite H, H'. reflexivity.
Qed.

Lemma no_null_not_null t : no_null t = true -> q_is_null t = false.
Proof. destruct t; cbn [no_null q_is_null]; intros H; try reflexivity. discriminate H. Qed.

Lemma qnorm_no_null t : no_null t = true -> qnorm t = t.
Proof.
  induction t as [c q| |o a IHa b IHb]; cbn [no_null qnorm]; intros H; try reflexivity.
  apply andb_true_iff in H as [Ha Hb]. rewrite (IHa Ha), (IHb Hb).
  rewrite (no_null_not_null a Ha), (no_null_not_null b Hb). reflexivity.
Qed.

Lemma qnorm_idem t : qnorm (qnorm t) = qnorm t.
Proof.
  destruct (qnorm_nf t) as [H|H].
  - apply q_is_null_eq in H. rewrite H. reflexivity.
  - exact (qnorm_no_null _ H).
Qed.

Lemma depth_qnorm t : tree_depth (qnorm t) <= tree_depth t.
Proof.
  induction t as [c q| |o a IHa b IHb]; cbn [qnorm tree_depth]; try lia.
  destruct (q_is_null (qnorm b)); [lia|]. destruct (q_is_null (qnorm a)); [lia|]. cbn [tree_depth]. lia.
Qed.

Lemma leaves_c11_qnorm t : leaves_c11 (qnorm t) = leaves_c11 t.
Proof. unfold leaves_c11. rewrite qleaves_qnorm. reflexivity. Qed.

Lemma leaves_refl_ok n : leaves_c11 n = true -> forallb leaf_refl_ok (qleaves n) = true.
Proof.
  apply forallb_impl. intros [c q] H. cbn [fst snd] in H.
  destruct (leaf_in_c11_inv c q H) as [_ [_ [_ [_ [_ [_ [Hw Hn]]]]]]]. unfold leaf_refl_ok. cbn [snd]. rewrite Hn, Hw. reflexivity.
Qed.

(* ================================================================== *)
(* 6. C11                                                               *)

Lemma tree_in_c11_inv t : tree_in_c11 t = true ->
  leaves_c11 t = true /\ tree_depth t <= 40 /\ qmixed (qnorm t) = false.
Proof.
  unfold tree_in_c11. fold (leaves_c11 t). intros H.
  apply andb_true_iff in H as [H H3]. apply andb_true_iff in H as [H1 H2].
  apply Nat.leb_le in H2. apply negb_true_iff in H3. repeat split; assumption.
Qed.

(* The condition of a typed tree in the fragment serialises to pure JSON data (the tree of the
   written leaves); that data parses back to THE SAME condition (so it filters identically, and
   serialises to the same data again), and the condition is `==` to itself. *)
Theorem C11_roundtrip_eq : forall t c,
  tree_in_c11 t = true -> build_expect (qnorm t) = Ok c ->
  let c1 := cond_map pyval arg1 ALit c in
  cond1_to_json T X c1 = Ok (tree_json (qnorm t)) /\ json_pure (tree_json (qnorm t)) = true /\
  (exists tm, cond1_from_spec T X (tree_json (qnorm t)) = Ok (tm, c1)) /\
  cond1_eqb T c1 c1 = true.
Proof.
  intros t c Hin Hb. destruct (tree_in_c11_inv t Hin) as [Hl [Hd Hm]].
  unfold build_expect in Hb. rewrite Hm in Hb. injection Hb as <-. cbv zeta.
  assert (Hln : leaves_c11 (qnorm t) = true) by (rewrite leaves_c11_qnorm; exact Hl).
  split; [exact (cond_to_json_tree _ Hln)|].
  split; [exact (tree_json_pure _ Hln)|].
  split; [|exact (cond_eqb_refl _ (leaves_refl_ok _ Hln))].
  rewrite cond1_unfold.
  assert (Hdn : tree_depth (qnorm t) <= 40) by (pose proof (depth_qnorm t); lia).
  pose proof (tree_json_parse (qnorm t) 40 Hdn Hln) as H. rewrite qnorm_idem, Hm in H. exact H.
Qed.

Theorem C11_roundtrip : forall t c,
  tree_in_c11 t = true -> build_expect (qnorm t) = Ok c ->
  let c1 := cond_map pyval arg1 ALit c in
  exists j, cond1_to_json T X c1 = Ok j /\ json_pure j = true /\
    exists tm c2, cond1_from_spec T X j = Ok (tm, c2) /\ cond1_eqb T c2 c1 = true /\ cond1_to_json T X c2 = Ok j.
Proof.
  intros t c Hin Hb. destruct (C11_roundtrip_eq t c Hin Hb) as [Hj [Hp [[tm Hs] He]]]. cbv zeta.
  exists (tree_json (qnorm t)). split; [exact Hj|]. split; [exact Hp|].
  exists tm, (cond_map pyval arg1 ALit c). split; [exact Hs|]. split; [exact He|exact Hj].
Qed.

(* in the fragment the tree always builds *)
Lemma tree_in_c11_builds t : tree_in_c11 t = true -> build_expect (qnorm t) = Ok (cond_of (qnorm t)).
Proof. intros H. destruct (tree_in_c11_inv t H) as [_ [_ Hm]]. unfold build_expect. rewrite Hm. reflexivity. Qed.

(* one leaf: what is written is {"<class label>.<callable>": <arguments>} *)
Theorem C11_leaf : forall c q,
  leaf_in_c11 c q = true ->
  let c1 := cond_map pyval arg1 ALit (CLeaf (expected_leaf c q)) in
  cond1_to_json T X c1 = Ok (leaf_json c q) /\ json_pure (leaf_json c q) = true /\
  (exists tm, cond1_from_spec T X (leaf_json c q) = Ok (tm, c1)) /\
  cond1_eqb T c1 c1 = true.
Proof.
  intros c q H.
  assert (Hin : tree_in_c11 (QLeaf c q) = true).
  { unfold tree_in_c11. cbn [qleaves forallb fst snd tree_depth qnorm]. rewrite H, qmixed_leaf. reflexivity. }
  exact (C11_roundtrip_eq (QLeaf c q) _ Hin (tree_in_c11_builds _ Hin)).
Qed.

(* ================================================================== *)
(* 7. non-vacuity                                                       *)

Definition ex11_tree : qtree :=
  QBin BoAnd
    (QBin BoOr QNull
       (QLeaf SValue (Q_in (VList [VInt 1; VStr "a"; VDict [(VStr "k", VList [VDict [(VStr "path", VInt 0)]])]]))))
    (QBin BoXor
       (QLeaf SValueDataType (Q_in (VList [VType TInt; VType TDict])))
       (QBin BoAnd (QLeaf SValue (Q_items_contain [("a", VDict [(VStr "b", VNone)]); ("c", VFloat false 1 (-1))]))
                   (QLeaf SValue (Q_is_instance [VType TStr; VType TPath])))).

Example ex11_in : tree_in_c11 ex11_tree = true.
Proof. vm_compute. reflexivity. Qed.

Example ex11_json :
  tree_json (qnorm ex11_tree) =
  VDict [(VStr "and", VList [
    VDict [(VStr "value.in_", VList [VInt 1; VStr "a"; VDict [(VStr "k", VList [VDict [(VStr "path", VInt 0)]])]])];
    VDict [(VStr "xor", VList [
      VDict [(VStr "value.dtype.in_", VList [VStr "int"; VStr "dict"])];
      VDict [(VStr "and", VList [
        VDict [(VStr "value.items_contain", VDict [(VStr "a", VDict [(VStr "b", VNone)]); (VStr "c", VFloat false 1 (-1))])];
        VDict [(VStr "value.is_instance", VList [VStr "str"; VStr "path"])]])]])]])].
Proof. vm_compute. reflexivity. Qed.

(* the statement of the theorem, evaluated on the example (independently of its proof) *)
Definition roundtrip (c : cond pyval) : res (pyval * bool * bool * pyval) :=
  let c1 := cond_map pyval arg1 ALit c in
  let* j := cond1_to_json T X c1 in
  let* (_, c2) := cond1_from_spec T X j in
  let* j2 := cond1_to_json T X c2 in
  Ok (j, json_pure j, cond1_eqb T c2 c1, j2).

Example ex11_roundtrip :
  roundtrip (cond_of (qnorm ex11_tree)) = Ok (tree_json (qnorm ex11_tree), true, true, tree_json (qnorm ex11_tree)).
Proof. vm_compute. reflexivity. Qed.

(* a mapping argument, mappings in lists and as mapping values; nothing containing "path" at the
   levels from_spec looks at *)
Example ex11_mapping :
  leaf_in_c11 SValue (Q_equal_to (VDict [(VStr "a", VInt 1); (VStr "b", VDict [(VStr "c", VList [VDict [(VStr "path", VNone)]])])])) = true.
Proof. vm_compute. reflexivity. Qed.

(* ================================================================== *)
(* 8. outside the fragment the statement fails: closed counterexamples  *)
(*    (components: JSON written, json_pure, rebuilt == original, JSON written again)            *)

Definition L (c : scls) (q : dsl) : cond pyval := CLeaf (expected_leaf c q).

(* (a) a mapping argument whose only key reads `path` in upper case is NOT escaped (the test is
   `"path" in key`, case-sensitive) but from_spec lower-cases key tokens: it is rebuilt as a
   DataPath argument.  Also true of the Python implementation: Value.equal_to({"PATH": []}). *)
Example C11_counterexample_upper_path :
  roundtrip (L SValue (Q_equal_to (VDict [(VStr "PATH", VList [])]))) =
  Ok (VDict [(VStr "value.equal_to", VDict [(VStr "PATH", VList [])])], true, false,
      VDict [(VStr "value.equal_to", VDict [(VStr "path", VList [])])])
  /\ leaf_in_c11 SValue (Q_equal_to (VDict [(VStr "PATH", VList [])])) = false.
Proof. vm_compute. split; reflexivity. Qed.

Example C11_counterexample_upper_path_len :
  roundtrip (L SValue (Q_equal_to (VDict [(VStr "Path.len", VList [])]))) =
  Ok (VDict [(VStr "value.equal_to", VDict [(VStr "Path.len", VList [])])], true, false,
      VDict [(VStr "value.equal_to", VDict [(VStr "path.length", VList [])])]).
Proof. vm_compute. reflexivity. Qed.

(* (b) the keyword mapping of items_contain( **items ).  Before the repair of the serialiser it was
   never escaped (Python: Value.items_contain(path=1) -> TypeError in from_json_like; path=[] ->
   MalformedConditionLikeSpec; an item name containing the escape code was un-escaped by
   from_spec).  Now it is escaped like a mapping argument as soon as a name contains "path", and
   these three conditions round-trip (they are outside the fragment, which is sufficient, not
   necessary: q_items_ok / q_items_nopath are false) ... *)
Example C11_items_path_repaired :
  roundtrip (L SValue (Q_items_contain [("path", VInt 1)])) =
    Ok (VDict [(VStr "value.items_contain", VDict [(VStr "\path", VInt 1)])], true, true,
        VDict [(VStr "value.items_contain", VDict [(VStr "\path", VInt 1)])]) /\
  roundtrip (L SValue (Q_items_contain [("path", VList [])])) =
    Ok (VDict [(VStr "value.items_contain", VDict [(VStr "\path", VList [])])], true, true,
        VDict [(VStr "value.items_contain", VDict [(VStr "\path", VList [])])]) /\
  roundtrip (L SValue (Q_items_contain [("\path", VInt 1)])) =
    Ok (VDict [(VStr "value.items_contain", VDict [(VStr "\\path", VInt 1)])], true, true,
        VDict [(VStr "value.items_contain", VDict [(VStr "\\path", VInt 1)])]) /\
  q_items_ok (Q_items_contain [("path", VInt 1)]) = false /\
  q_items_ok (Q_items_contain [("\path", VInt 1)]) = false /\
  q_items_nopath (Q_items_contain [("path", VInt 1)]) = false.
Proof. vm_compute. repeat split. Qed.

(* (b2) from_spec used to move the un-escaped names to the end (and could let one overwrite
   another: repaired defect D48); it now un-escapes in place, so an item name containing "path"
   BEFORE another item round-trips with the order kept.  The fragment still has q_items_nopath
   (sufficient, not necessary): the general statement for escaped names is not attempted. *)
Example C11_counterexample_items_path_order :
  roundtrip (L SValue (Q_items_contain [("path", VInt 1); ("a", VInt 2)])) =
    Ok (VDict [(VStr "value.items_contain", VDict [(VStr "\path", VInt 1); (VStr "a", VInt 2)])], true, true,
        VDict [(VStr "value.items_contain", VDict [(VStr "\path", VInt 1); (VStr "a", VInt 2)])]) /\
  q_items_ok (Q_items_contain [("path", VInt 1); ("a", VInt 2)]) = true /\
  q_items_nopath (Q_items_contain [("path", VInt 1); ("a", VInt 2)]) = false /\
  leaf_in_c11 SValue (Q_items_contain [("path", VInt 1); ("a", VInt 2)]) = false.
Proof. vm_compute. repeat split. Qed.

(* (b3) a single item whose name reads `path` in upper case is not escaped (no "path" in it) and
   is taken for a path spec by from_spec, as in (a): q_items_ok is still needed next to
   q_items_nopath *)
Example C11_counterexample_items_upper_path :
  roundtrip (L SValue (Q_items_contain [("PATH", VList [])])) = Err MalformedCond /\
  q_items_nopath (Q_items_contain [("PATH", VList [])]) = true /\
  q_items_ok (Q_items_contain [("PATH", VList [])]) = false.
Proof. vm_compute. repeat split. Qed.

(* (c) tuples are written as lists (not JSON-representable arguments) *)
Example C11_counterexample_tuple :
  roundtrip (L SValue (Q_in (VTuple [VInt 1; VInt 2]))) =
  Ok (VDict [(VStr "value.in_", VList [VInt 1; VInt 2])], true, false, VDict [(VStr "value.in_", VList [VInt 1; VInt 2])]).
Proof. vm_compute. reflexivity. Qed.

(* (d) a type object where no type conversion applies is refused (it used to be written as itself,
   which is not JSON: repaired defect D44) *)
Example C11_type_refused :
  roundtrip (L SValue (Q_equal_to (VType TInt))) = Err TypeError.
Proof. vm_compute. reflexivity. Qed.

(* (e) a mapping argument with an escaped key: equal condition, and (since the repair of D48:
   keys are un-escaped in place) the data written again is the same mapping in the same order *)
Example C11_counterexample_key_order :
  roundtrip (L SValue (Q_equal_to (VDict [(VStr "path", VInt 1); (VStr "a", VInt 2)]))) =
  Ok (VDict [(VStr "value.equal_to", VDict [(VStr "\path", VInt 1); (VStr "a", VInt 2)])], true, true,
      VDict [(VStr "value.equal_to", VDict [(VStr "\path", VInt 1); (VStr "a", VInt 2)])])
  /\ py_eq (VDict [(VStr "\path", VInt 1); (VStr "a", VInt 2)]) (VDict [(VStr "a", VInt 2); (VStr "\path", VInt 1)]) = true.
Proof. vm_compute. split; reflexivity. Qed.

(* (f) model only (keyword arguments cannot repeat in Python): `==` of the model is not reflexive
   on a repeated item name *)
Example C11_counterexample_dup_items :
  let c1 := cond_map pyval arg1 ALit (L SValue (Q_items_contain [("a", VInt 1); ("a", VInt 2)])) in
  cond1_eqb T c1 c1 = false.
Proof. vm_compute. reflexivity. Qed.

(* ================================================================== *)
(* Coverage.  All 32 constructors of the typed DSL on every class that has them (`covered q` is
   constantly true); trees of depth <= 40 (the fuel of the parser model).
   NOT covered (remaining):
   - items_contain( **items ) with an item name containing "path" (q_items_nopath, added after the
     repair of the serialiser: the keyword mapping is then written raw and escaped, and from_spec
     un-escapes and REORDERS the names: example (b2)).  As for the next item, the statement up to
     `==` / key order is expected to hold there; not attempted.
   - mapping arguments, mapping items of list arguments and mapping values of mapping arguments
     one of whose keys contains "path" (the serialiser escapes them, from_spec un-escapes and
     REORDERS them).  There `c2 = c1` and `cond1_to_json T X c2 = Ok j` are false (example (e));
     the statement that is expected to hold is
       exists j tm c2 j2, cond1_to_json T X c1 = Ok j /\ json_pure j = true /\
         cond1_from_spec T X j = Ok (tm, c2) /\ cond1_eqb T c2 c1 = true /\
         cond1_to_json T X c2 = Ok j2 /\ py_eq j2 j = true
     under the extra hypothesis that no such mapping is, after lower-casing, a single-key
     `path[.m[.m]]` mapping without a lower-case "path" in the key (example (a)).  It needs
     str_replace "\path" "path" (str_replace "path" "\path" k) = k and dict equality up to
     permutation; not attempted.
   - data-path arguments (APath): the model of conditions built by the typed DSL (expected_leaf /
     cond_of) has literal arguments only.
   Hypotheses added w.r.t. the informal property: q_items_ok (as for C09; given q_items_nopath it
   still excludes a single item named `PATH[.m[.m]]` in upper / mixed case: example (b3)),
   q_items_nopath (example (b2)), q_nodup (example
   (f)), plain2 (examples (a), (e)), no tuples / non-JSON values (examples (c), (d)),
   wf_val (distinct mapping keys: needed for `v == v`). *)

Print Assumptions py_eq_refl_wf.
Print Assumptions leaf_c09_in_c11.
Print Assumptions C11_leaf.
Print Assumptions C11_roundtrip_eq.
Print Assumptions C11_roundtrip.
