(* Properties of the object-heap model of ConditionBinaryOp(a, b) (CondHeap.v):
   frame, well-formedness, refinement to the pure [mk_bin], stability of denotations along
   histories of constructions, and the refutation of the unguarded protocol. *)
From Coq Require Import ZArith NArith List Bool String Lia Arith.
From Valida Require Import Py Lang Defs Cond CondHeap.
Import ListNotations.
Local Open Scope string_scope.
Local Open Scope list_scope.

(* ------------------------------------------------------------------ *)
(* lists                                                               *)

Lemma set_nth_length : forall X (l : list X) i x, List.length (set_nth l i x) = List.length l.
Proof.
  intros X l; induction l as [|y l IH]; intros i x; [reflexivity|].
  destruct i as [|i]; cbn; [reflexivity|]. now rewrite IH.
Qed.

Lemma set_nth_app_last : forall X (l : list X) y x, set_nth (l ++ [y]) (List.length l) x = l ++ [x].
Proof.
  intros X l y x; induction l as [|z l IH]; cbn; [reflexivity|]. now rewrite IH.
Qed.

Lemma nth_error_set_nth_other : forall X (l : list X) i j x,
  i <> j -> nth_error (set_nth l i x) j = nth_error l j.
Proof.
  intros X l; induction l as [|y l IH]; intros i j x Hne; [reflexivity|].
  destruct i as [|i], j as [|j]; cbn; try reflexivity; try lia.
  apply IH; lia.
Qed.

Lemma nth_error_app_last : forall X (l : list X) x, nth_error (l ++ [x]) (List.length l) = Some x.
Proof.
  intros X l x. rewrite nth_error_app2 by lia. now rewrite Nat.sub_diag.
Qed.

(* ------------------------------------------------------------------ *)
(* heap observations under extension                                   *)

Lemma obj_is_null_app : forall h h2 l, l < List.length h -> obj_is_null (h ++ h2) l = obj_is_null h l.
Proof. intros h h2 l Hl. unfold obj_is_null. now rewrite nth_error_app1 by exact Hl. Qed.

Lemma obj_is_class_alloc : forall h o c, obj_is_class (h ++ [OBin o c]) (List.length h) o = true.
Proof.
  intros h o c. unfold obj_is_class. rewrite nth_error_app_last. now destruct o.
Qed.

(* ------------------------------------------------------------------ *)
(* denote: fuel and heap monotonicity (no well-formedness needed)      *)

Lemma denote_fuel_mono : forall f h l c, denote f h l = Some c -> forall f', f <= f' -> denote f' h l = Some c.
Proof.
  intros f h; induction f as [|f IH]; intros l c Hd f' Hle; [discriminate|].
  destruct f' as [|f']; [lia|].
  cbn [denote] in *.
  destruct (nth_error h l) as [[lf|o [[a b]|]]|]; try discriminate; [exact Hd|].
  destruct (denote f h a) as [ca|] eqn:Ea; [|discriminate].
  destruct (denote f h b) as [cb|] eqn:Eb; [|discriminate].
  rewrite (IH a ca Ea f') by lia. rewrite (IH b cb Eb f') by lia. exact Hd.
Qed.

Lemma denote_app : forall f h h2 l c, denote f h l = Some c -> denote f (h ++ h2) l = Some c.
Proof.
  intros f h h2; induction f as [|f IH]; intros l c Hd; [discriminate|].
  cbn [denote] in *.
  destruct (nth_error h l) as [x|] eqn:En; [|discriminate].
  assert (Hl : l < List.length h) by (apply nth_error_Some; congruence).
  rewrite nth_error_app1 by exact Hl. rewrite En.
  destruct x as [lf|o [[a b]|]]; try discriminate; [exact Hd|].
  destruct (denote f h a) as [ca|] eqn:Ea; [|discriminate].
  destruct (denote f h b) as [cb|] eqn:Eb; [|discriminate].
  rewrite (IH a ca Ea), (IH b cb Eb). exact Hd.
Qed.

Lemma den_app1 : forall h x l c, den h l = Some c -> den (h ++ [x]) l = Some c.
Proof.
  intros h x l c Hd. unfold den in *.
  apply denote_app with (h2 := [x]) in Hd.
  apply denote_fuel_mono with (f := S (List.length h)); [exact Hd|].
  rewrite app_length; cbn; lia.
Qed.

(* on a well-formed heap every object has a denotation *)
Lemma denote_wf_total : forall h, wf_heap h ->
  forall l, l < List.length h -> forall f, l < f -> exists c, denote f h l = Some c.
Proof.
  intros h Hwf l. induction l as [l IH] using lt_wf_ind. intros Hl f Hf.
  destruct f as [|f]; [lia|]. cbn [denote].
  destruct (nth_error h l) as [x|] eqn:En.
  2:{ apply nth_error_None in En. lia. }
  pose proof (Hwf l x En) as Hx.
  destruct x as [lf|o [[a b]|]]; cbn in Hx; [eexists; reflexivity| |contradiction].
  destruct Hx as [Ha Hb].
  destruct (IH a Ha ltac:(lia) f ltac:(lia)) as [ca Hca].
  destruct (IH b Hb ltac:(lia) f ltac:(lia)) as [cb Hcb].
  rewrite Hca, Hcb. eexists; reflexivity.
Qed.

Lemma den_wf_total : forall h l, wf_heap h -> l < List.length h -> exists c, den h l = Some c.
Proof. intros h l Hwf Hl. unfold den. apply denote_wf_total; [exact Hwf|exact Hl|lia]. Qed.

Lemma obj_is_null_den : forall h l c, den h l = Some c -> obj_is_null h l = is_null c.
Proof.
  intros h l c Hd. unfold den in Hd. cbn [denote] in Hd. unfold obj_is_null.
  destruct (nth_error h l) as [[lf|o [[a b]|]]|]; try discriminate.
  - injection Hd as <-. reflexivity.
  - destruct (denote (List.length h) h a); [|discriminate].
    destruct (denote (List.length h) h b); [|discriminate].
    injection Hd as <-. reflexivity.
Qed.

(* denotation of a freshly initialised combination *)
Lemma den_alloc : forall h o a b ca cb,
  den h a = Some ca -> den h b = Some cb ->
  den (h ++ [OBin o (Some (a, b))]) (List.length h) = Some (CBin o ca cb).
Proof.
  intros h o a b ca cb Ha Hb. unfold den in *.
  rewrite app_length. cbn [List.length]. rewrite Nat.add_1_r.
  set (h2 := h ++ [OBin o (Some (a, b))]).
  change (denote (S (S (List.length h))) h2 (List.length h))
    with (match nth_error h2 (List.length h) with
          | Some (OLeaf lf) => Some (CLeaf lf)
          | Some (OBin o (Some (a, b))) =>
              match denote (S (List.length h)) h2 a, denote (S (List.length h)) h2 b with
              | Some ca, Some cb => Some (CBin o ca cb)
              | _, _ => None
              end
          | _ => None
          end).
  unfold h2 at 1. rewrite nth_error_app_last.
  unfold h2. rewrite (denote_app _ _ _ _ _ Ha), (denote_app _ _ _ _ _ Hb). reflexivity.
Qed.

Lemma has_kind_bin : forall k o (ca cb : cond pyval),
  has_kind k (CBin o ca cb) = has_kind k ca || has_kind k cb.
Proof. intros k o ca cb. unfold has_kind. cbn [leaves]. apply existsb_app. Qed.

(* ------------------------------------------------------------------ *)
(* what the intended protocol computes                                 *)

Lemma construct_good_eq : forall P o a b h,
  good_proto P -> a < List.length h -> b < List.length h ->
  construct P o a b h =
    if obj_is_null h b then Ok (h, a)
    else if obj_is_null h a then Ok (h, b)
    else
      let h2 := h ++ [OBin o (Some (a, b))] in
      match den h2 (List.length h) with
      | None => Err RecursionError
      | Some c => if has_kind DKey c && has_kind DIndex c then Err TypeError else Ok (h2, List.length h)
      end.
Proof.
  intros P o a b h HP Ha Hb.
  destruct P as [nc sc ig]. destruct HP as [Hnc [Hsc Hig]]. cbn in Hnc, Hsc, Hig. subst nc sc ig.
  unfold construct, null_check.
  cbn [pr_null_check pr_new_short_circuits pr_init_guarded nc_eval].
  destruct (obj_is_null h b) eqn:Nb.
  - destruct (obj_is_class h a o); [|reflexivity]. rewrite Nb. reflexivity.
  - destruct (obj_is_null h a) eqn:Na.
    + destruct (obj_is_class h b o); [|reflexivity]. rewrite Nb, Na. reflexivity.
    + rewrite obj_is_class_alloc.
      rewrite (obj_is_null_app h _ b Hb), (obj_is_null_app h _ a Ha), Nb, Na.
      cbn [andb]. rewrite set_nth_app_last. reflexivity.
Qed.

(* the three possible successful outcomes *)
Lemma construct_good_ok : forall P o a b h h' r,
  good_proto P -> a < List.length h -> b < List.length h ->
  construct P o a b h = Ok (h', r) ->
  (h' = h /\ (r = a \/ r = b)) \/
  (h' = h ++ [OBin o (Some (a, b))] /\ r = List.length h).
Proof.
  intros P o a b h h' r HP Ha Hb Hc.
  rewrite (construct_good_eq P o a b h HP Ha Hb) in Hc.
  destruct (obj_is_null h b).
  - injection Hc as <- <-. left; auto.
  - destruct (obj_is_null h a).
    + injection Hc as <- <-. left; auto.
    + cbv zeta in Hc.
      destruct (den (h ++ [OBin o (Some (a, b))]) (List.length h)) as [c|]; [|discriminate].
      destruct (has_kind DKey c && has_kind DIndex c); [discriminate|].
      injection Hc as <- <-. right; auto.
Qed.

(* ------------------------------------------------------------------ *)
(* 1. frame                                                            *)

Theorem construct_frame : forall P o a b h h' r,
  good_proto P -> a < List.length h -> b < List.length h ->
  construct P o a b h = Ok (h', r) ->
  forall l, l < List.length h -> nth_error h' l = nth_error h l.
Proof.
  intros P o a b h h' r HP Ha Hb Hc l Hl.
  destruct (construct_good_ok P o a b h h' r HP Ha Hb Hc) as [[-> _]|[-> _]]; [reflexivity|].
  now apply nth_error_app1.
Qed.

(* ------------------------------------------------------------------ *)
(* 2. well-formedness                                                  *)

Lemma wf_heap_alloc : forall h o a b,
  wf_heap h -> a < List.length h -> b < List.length h -> wf_heap (h ++ [OBin o (Some (a, b))]).
Proof.
  intros h o a b Hwf Ha Hb i x Hn.
  destruct (Nat.lt_ge_cases i (List.length h)) as [Hi|Hi].
  - rewrite nth_error_app1 in Hn by exact Hi. now apply Hwf.
  - rewrite nth_error_app2 in Hn by exact Hi.
    destruct (i - List.length h) as [|k] eqn:Ek.
    + cbn in Hn. injection Hn as <-. cbn. lia.
    + cbn in Hn. destruct k; discriminate.
Qed.

Theorem construct_wf : forall P o a b h h' r,
  good_proto P -> wf_heap h -> a < List.length h -> b < List.length h ->
  construct P o a b h = Ok (h', r) ->
  wf_heap h' /\ List.length h <= List.length h' /\ r < List.length h'.
Proof.
  intros P o a b h h' r HP Hwf Ha Hb Hc.
  destruct (construct_good_ok P o a b h h' r HP Ha Hb Hc) as [[-> Hr]|[-> ->]].
  - repeat split; [exact Hwf|lia|]. destruct Hr as [->| ->]; assumption.
  - repeat split; [now apply wf_heap_alloc| |]; rewrite app_length; cbn; lia.
Qed.

(* ------------------------------------------------------------------ *)
(* 3. refinement to the pure constructor                               *)

Theorem construct_refines : forall P o a b h ca cb,
  good_proto P -> wf_heap h -> a < List.length h -> b < List.length h ->
  den h a = Some ca -> den h b = Some cb ->
  match construct P o a b h with
  | Ok (h', r) => exists c, mk_bin o ca cb = Ok c /\ den h' r = Some c
  | Err e => mk_bin o ca cb = Err e
  end.
Proof.
  intros P o a b h ca cb HP Hwf Ha Hb Hda Hdb.
  rewrite (construct_good_eq P o a b h HP Ha Hb).
  unfold mk_bin.
  rewrite (obj_is_null_den h b cb Hdb), (obj_is_null_den h a ca Hda).
  destruct (is_null cb).
  - exists ca; auto.
  - destruct (is_null ca).
    + exists cb; auto.
    + cbv zeta. rewrite (den_alloc h o a b ca cb Hda Hdb).
      rewrite !has_kind_bin.
      destruct ((has_kind DKey ca || has_kind DKey cb) && (has_kind DIndex ca || has_kind DIndex cb)).
      * reflexivity.
      * exists (CBin o ca cb). split; [reflexivity|]. apply den_alloc; assumption.
Qed.

(* under these hypotheses [construct] never reports a cyclic object *)
Corollary construct_no_recursion_error : forall P o a b h,
  good_proto P -> wf_heap h -> a < List.length h -> b < List.length h ->
  construct P o a b h <> Err RecursionError.
Proof.
  intros P o a b h HP Hwf Ha Hb Hc.
  destruct (den_wf_total h a Hwf Ha) as [ca Hda].
  destruct (den_wf_total h b Hwf Hb) as [cb Hdb].
  pose proof (construct_refines P o a b h ca cb HP Hwf Ha Hb Hda Hdb) as Hr.
  rewrite Hc in Hr. unfold mk_bin in Hr.
  destruct (is_null cb); [discriminate|]. destruct (is_null ca); [discriminate|].
  destruct ((has_kind DKey ca || has_kind DKey cb) && (has_kind DIndex ca || has_kind DIndex cb));
    discriminate.
Qed.

(* ------------------------------------------------------------------ *)
(* 4. denotations of existing objects never change                     *)

Theorem construct_preserves_den : forall P o a b h h' r l c,
  good_proto P -> wf_heap h -> a < List.length h -> b < List.length h ->
  construct P o a b h = Ok (h', r) -> l < List.length h -> den h l = Some c -> den h' l = Some c.
Proof.
  intros P o a b h h' r l c HP Hwf Ha Hb Hc Hl Hd.
  destruct (construct_good_ok P o a b h h' r HP Ha Hb Hc) as [[-> _]|[-> _]]; [exact Hd|].
  now apply den_app1.
Qed.

(* ------------------------------------------------------------------ *)
(* 5. histories                                                        *)

(* each operation's operands exist in the heap at the time the operation runs *)
Inductive valid_history (P : proto) : list (bop * nat * nat) -> cheap -> Prop :=
| vh_nil : forall h, valid_history P [] h
| vh_cons : forall o a b ops h,
    a < List.length h -> b < List.length h ->
    valid_history P ops (match construct P o a b h with Ok (h', _) => h' | Err _ => h end) ->
    valid_history P ((o, a, b) :: ops) h.

Definition ops_in_range := valid_history.

Theorem history_preserves : forall P ops h l c,
  good_proto P -> wf_heap h -> valid_history P ops h ->
  l < List.length h -> den h l = Some c -> den (run_history P ops h) l = Some c.
Proof.
  intros P ops; induction ops as [|[[o a] b] ops IH]; intros h l c HP Hwf Hv Hl Hd; [exact Hd|].
  inversion Hv as [|o' a' b' ops' h0 Ha Hb Hv' E1 E2]; subst.
  cbn [run_history].
  destruct (construct P o a b h) as [[h' r]|e] eqn:Hc.
  - destruct (construct_wf P o a b h h' r HP Hwf Ha Hb Hc) as [Hwf' [Hlen _]].
    apply IH; [exact HP|exact Hwf'|exact Hv'|lia|].
    exact (construct_preserves_den P o a b h h' r l c HP Hwf Ha Hb Hc Hl Hd).
  - apply IH; assumption.
Qed.

(* well-formedness along a history, for completeness *)
Lemma history_wf : forall P ops h,
  good_proto P -> wf_heap h -> valid_history P ops h ->
  wf_heap (run_history P ops h) /\ List.length h <= List.length (run_history P ops h).
Proof.
  intros P ops; induction ops as [|[[o a] b] ops IH]; intros h HP Hwf Hv; [split; [exact Hwf|cbn [run_history]; lia]|].
  inversion Hv as [|o' a' b' ops' h0 Ha Hb Hv' E1 E2]; subst.
  cbn [run_history].
  destruct (construct P o a b h) as [[h' r]|e] eqn:Hc.
  - destruct (construct_wf P o a b h h' r HP Hwf Ha Hb Hc) as [Hwf' [Hlen _]].
    destruct (IH h' HP Hwf' Hv') as [H1 H2]. split; [exact H1|lia].
  - apply IH; assumption.
Qed.

(* ------------------------------------------------------------------ *)
(* 6. the unguarded protocol                                           *)

Definition bad_proto : proto :=
  {| pr_null_check := NCIf 1 (NCArg 0) (NCIf 0 (NCArg 1) NCNone);
     pr_new_short_circuits := true;
     pr_init_guarded := false |}.

Definition good : proto :=
  {| pr_null_check := NCIf 1 (NCArg 0) (NCIf 0 (NCArg 1) NCNone);
     pr_new_short_circuits := true;
     pr_init_guarded := true |}.

Lemma good_is_good : good_proto good.
Proof. repeat split. Qed.

Definition ex_leaf : leaf pyval :=
  {| l_cls := "Value"; l_kind := DValue; l_pre := PNone; l_call := "truthy"; l_args := []; l_kwargs := [] |}.

Definition ex_heap : cheap :=
  [OLeaf null_leaf; OLeaf ex_leaf; OLeaf ex_leaf; OBin BoAnd (Some (1, 2))].

Lemma ex_heap_wf : wf_heap ex_heap.
Proof.
  intros i x Hn.
  destruct i as [|[|[|[|i]]]]; cbn in Hn.
  1-4: injection Hn as <-; cbn; auto; lia.
  destruct i; discriminate.
Qed.

Theorem construct_unguarded_refuted : exists h a b,
  wf_heap h /\ a < List.length h /\ b < List.length h /\
  (construct bad_proto BoAnd a b h = Err RecursionError \/
   exists h' r l, construct bad_proto BoAnd a b h = Ok (h', r) /\ l < List.length h /\
                  nth_error h' l <> nth_error h l).
Proof.
  exists ex_heap, 0, 3.
  split; [exact ex_heap_wf|]. split; [unfold ex_heap; cbn [List.length]; lia|]. split; [unfold ex_heap; cbn [List.length]; lia|].
  left. vm_compute. reflexivity.
Qed.

(* the same heap and operands under the intended protocol: nothing is written, the operand is returned *)
Example ex_good_construct : construct good BoAnd 0 3 ex_heap = Ok (ex_heap, 3).
Proof. vm_compute. reflexivity. Qed.

Example ex_den_null : den ex_heap 0 = Some CNull.
Proof. vm_compute. reflexivity. Qed.

Example ex_den_bin : den ex_heap 3 = Some (CBin BoAnd (CLeaf ex_leaf) (CLeaf ex_leaf)).
Proof. vm_compute. reflexivity. Qed.

(* a construction that allocates *)
Example ex_good_alloc :
  construct good BoOr 1 3 ex_heap = Ok (ex_heap ++ [OBin BoOr (Some (1, 3))], 4).
Proof. vm_compute. reflexivity. Qed.

Example ex_frame : forall l, l < 4 ->
  nth_error (ex_heap ++ [OBin BoOr (Some (1, 3))]) l = nth_error ex_heap l.
Proof.
  exact (construct_frame good BoOr 1 3 ex_heap _ _ good_is_good
           ltac:(unfold ex_heap; cbn [List.length]; lia) ltac:(unfold ex_heap; cbn [List.length]; lia) ex_good_alloc).
Qed.

Example ex_wf : wf_heap (ex_heap ++ [OBin BoOr (Some (1, 3))]).
Proof.
  exact (proj1 (construct_wf good BoOr 1 3 ex_heap _ _ good_is_good ex_heap_wf
                  ltac:(unfold ex_heap; cbn [List.length]; lia) ltac:(unfold ex_heap; cbn [List.length]; lia) ex_good_alloc)).
Qed.

Example ex_refines : exists c,
  mk_bin BoAnd CNull (CBin BoAnd (CLeaf ex_leaf) (CLeaf ex_leaf)) = Ok c /\ den ex_heap 3 = Some c.
Proof.
  pose proof (construct_refines good BoAnd 0 3 ex_heap _ _ good_is_good ex_heap_wf
                ltac:(unfold ex_heap; cbn [List.length]; lia) ltac:(unfold ex_heap; cbn [List.length]; lia) ex_den_null ex_den_bin) as H.
  rewrite ex_good_construct in H. exact H.
Qed.

Example ex_preserves :
  den (ex_heap ++ [OBin BoOr (Some (1, 3))]) 3 = Some (CBin BoAnd (CLeaf ex_leaf) (CLeaf ex_leaf)).
Proof.
  exact (construct_preserves_den good BoOr 1 3 ex_heap _ _ 3 _ good_is_good ex_heap_wf
           ltac:(unfold ex_heap; cbn [List.length]; lia) ltac:(unfold ex_heap; cbn [List.length]; lia) ex_good_alloc ltac:(unfold ex_heap; cbn [List.length]; lia) ex_den_bin).
Qed.

Definition ex_ops : list (bop * nat * nat) := [(BoAnd, 0, 3); (BoOr, 1, 3); (BoXor, 4, 0); (BoAnd, 4, 2)].

Example ex_valid_history : valid_history good ex_ops ex_heap.
Proof.
  unfold ex_ops.
  repeat (first [ apply vh_nil | apply vh_cons; [vm_compute; lia | vm_compute; lia | vm_compute ] ]).
Qed.

Example ex_history :
  den (run_history good ex_ops ex_heap) 3 = Some (CBin BoAnd (CLeaf ex_leaf) (CLeaf ex_leaf)).
Proof.
  exact (history_preserves good ex_ops ex_heap 3 _ good_is_good ex_heap_wf ex_valid_history
           ltac:(unfold ex_heap; cbn [List.length]; lia) ex_den_bin).
Qed.

(* under the unguarded protocol __init__ has overwritten location 3 with (null, itself) before the
   error is raised: the intermediate heap is cyclic at 3.  [run_history] drops that heap on [Err],
   so the mutation is only visible through the error, not through the heap it returns. *)
Example ex_bad_intermediate :
  den (set_nth ex_heap 3 (OBin BoAnd (Some (0, 3)))) 3 = None /\
  nth_error (set_nth ex_heap 3 (OBin BoAnd (Some (0, 3)))) 3 <> nth_error ex_heap 3.
Proof. split; [vm_compute; reflexivity|vm_compute; discriminate]. Qed.

Example ex_history_bad_heap :
  run_history bad_proto [(BoAnd, 0, 3)] ex_heap = ex_heap.
Proof. vm_compute. reflexivity. Qed.

Print Assumptions construct_frame.
Print Assumptions construct_wf.
Print Assumptions construct_refines.
Print Assumptions construct_preserves_den.
Print Assumptions history_preserves.
Print Assumptions construct_unguarded_refuted.
