(* C14 / C16 for conditions with NESTED data-path arguments (NestedArgs.narg, == of NestedIO.narg_eqb / condn_eqb).

   (A) condn_eqb is reflexive, symmetric and transitive on well-formed conditions (condn_ok: keyword names of a leaf
       distinct; literals wf_val; data paths -- at top level or one level inside a display -- build well-formed path
       objects; the keys of a mapping display hashable and pairwise non-==), reflexivity needing in addition that the
       data-path arguments can be built (condn_buildable, derived for built conditions: build_n_buildable);
       operand order of a combination does not matter.  narg_eqb normalises a display without paths to the literal
       container: the domain predicate is closed under that normalisation (norm_ok).
       The generic Section Generic of C14Proof.v is instantiated with A := narg, aeq := narg_eqb.
   (B) C16 for the nested parser condn_from_spec: the parsed condition is in the domain of (A) (condn_from_spec_ok),
       hence == to itself (C16N_reparse_cond).  Hypotheses on the spec: wf_val AND no_obj (no VObj among the values
       reachable through list / tuple items and dict values).  The second one is NEEDED: the marker
       that stands for a nested path inside a literal is a tuple headed by VObj 1, and a spec that forges such a marker
       around a path term that cannot be built parses to a condition that is not == to itself
       (C16N_forged_marker_counterexample).  Real specs hold no such objects. *)
From Coq Require Import ZArith NArith List Bool String Ascii Lia.
From Valida Require Import Py Lang Defs Cond Dsl Path Cast Str SpecDefs RuleDefs Rule Spec SpecIO Eq Inst RunSpec
  NestedArgs NestedIO.
From Valida.Proofs Require Import PyFacts C04Proof C09Proof C14Proof C19Proof C16ReparseProof C11PathProof C11NestedFullProof.
Import ListNotations.
Local Open Scope string_scope.
Local Open Scope list_scope.

(* ================================================================== *)
(* 1. dict-style equality of mapping displays: keys compared with ==    *)

Definition ndeq (k1 k2 : list (pyval * arg1)) : bool :=
  Nat.eqb (List.length k1) (List.length k2)
  && forallb (fun kv => match nd_look (fst kv) k2 with Some a' => arg1_eqb T (snd kv) a' | None => false end) k1.

(* the keys of a dict display: hashable and pairwise non-== *)
Definition nkeys_ok (kvs : list (pyval * arg1)) : Prop :=
  (forall k, In k (map fst kvs) -> py_hashable k = true) /\ keys_distinct (map fst kvs) = true.

Lemma nd_look_some : forall d k v, nd_look k d = Some v -> exists k2, In (k2, v) d /\ py_eq k k2 = true.
Proof.
  induction d as [ | [k2 v2] r IH ]; intros k v H; cbn [nd_look] in H; [ discriminate | ].
  destruct (py_eq k k2) eqn:E.
  - inversion H; subst. exists k2. split; [ left; reflexivity | exact E ].
  - destruct (IH _ _ H) as [k3 [Hin Hk]]. exists k3. split; [ right; exact Hin | exact Hk ].
Qed.

Lemma nd_look_in : forall (d : list (pyval * arg1)) k v,
  keys_distinct (map fst d) = true -> py_eq k k = true -> In (k, v) d -> nd_look k d = Some v.
Proof.
  induction d as [ | [k2 v2] r IH ]; intros k v Hkd Hrefl Hin; [ contradiction | ].
  cbn [map fst keys_distinct] in Hkd.
  apply andb_true_iff in Hkd. destruct Hkd as [Hkd Hrest].
  apply andb_true_iff in Hkd. destruct Hkd as [_ Hno].
  cbn [nd_look]. destruct Hin as [ Heq | Hin ].
  - inversion Heq; subst. rewrite Hrefl. reflexivity.
  - assert (Hne : py_eq k k2 = false).
    { destruct (py_eq k k2) eqn:E; [ | reflexivity ].
      apply negb_true_iff in Hno.
      assert (Hex : existsb (fun k' => py_eq k' k2) (map fst r) = true).
      { apply existsb_exists. exists k. split; [ | exact E ].
        apply in_map_iff. exists (k, v). split; [ reflexivity | exact Hin ]. }
      congruence. }
    rewrite Hne. apply IH; assumption.
Qed.

Lemma ndeq_true_iff a b : ndeq a b = true <->
  List.length a = List.length b /\
  forall k v, In (k, v) a -> exists v', nd_look k b = Some v' /\ arg1_eqb T v v' = true.
Proof.
  unfold ndeq. rewrite andb_true_iff, Nat.eqb_eq, forallb_forall. split.
  - intros [Hl Hf]. split; [ exact Hl | ]. intros k v Hin. specialize (Hf _ Hin). cbn [fst snd] in Hf.
    destruct (nd_look k b) as [v' | ]; [ exists v'; split; [ reflexivity | exact Hf ] | discriminate ].
  - intros [Hl Hf]. split; [ exact Hl | ]. intros [k v] Hin. cbn [fst snd].
    destruct (Hf _ _ Hin) as [v' [-> Hv]]. exact Hv.
Qed.

Lemma nkeys_same : forall d : list (pyval * arg1), keys_distinct (map fst d) = true ->
  forall e e', In e d -> In e' d -> py_eq (fst e) (fst e') = true -> e = e'.
Proof.
  induction d as [ | e0 r IH ]; intros Hkd e e' He He' Heq; [ contradiction | ].
  cbn [map keys_distinct] in Hkd. rewrite !andb_true_iff, !negb_true_iff in Hkd. destruct Hkd as [[H1 H2] Hr].
  destruct He as [ He | He ]; destruct He' as [ He' | He' ].
  - congruence.
  - subst e. exfalso. assert (Hex : existsb (py_eq (fst e0)) (map fst r) = true).
    { apply existsb_exists. exists (fst e'). split; [ apply in_map; exact He' | exact Heq ]. }
    congruence.
  - subst e'. exfalso. assert (Hex : existsb (fun k2 => py_eq k2 (fst e0)) (map fst r) = true).
    { apply existsb_exists. exists (fst e). split; [ apply in_map; exact He | exact Heq ]. }
    congruence.
  - apply IH; assumption.
Qed.

Lemma nd_look_unique : forall (d : list (pyval * arg1)) k k1 v1, keys_distinct (map fst d) = true ->
  In (k1, v1) d -> py_eq k k1 = true ->
  (forall k', In k' (map fst d) -> py_eq k k' = true -> py_eq k' k1 = true) ->
  nd_look k d = Some v1.
Proof.
  induction d as [ | [k0 v0] r IH ]; intros k k1 v1 Hkd Hin Hk Hall; [ contradiction | ].
  cbn [map fst keys_distinct] in Hkd. rewrite !andb_true_iff, !negb_true_iff in Hkd. destruct Hkd as [[H1 H2] Hr].
  cbn [nd_look]. destruct (py_eq k k0) eqn:E.
  - destruct Hin as [ Heq | Hin ]; [ inversion Heq; reflexivity | ].
    exfalso. assert (Hex : existsb (py_eq k0) (map fst r) = true).
    { apply existsb_exists. exists k1. split.
      - apply in_map_iff. exists (k1, v1). split; [ reflexivity | exact Hin ].
      - apply Hall; [ left; reflexivity | exact E ]. }
    congruence.
  - destruct Hin as [ Heq | Hin ]; [ inversion Heq; subst; congruence | ].
    apply (IH k k1 v1); try assumption. intros k' Hk'. apply Hall. right. exact Hk'.
Qed.

Lemma nkeys_df d k v : nkeys_ok d -> In (k, v) d -> dict_free k = true.
Proof.
  intros [Hh _] Hin. apply hashable_dict_free, Hh. apply in_map_iff. exists (k, v). split; [ reflexivity | exact Hin ].
Qed.

Lemma nkeys_NoDup d : nkeys_ok d -> NoDup d.
Proof.
  intros [Hh Hkd]. apply (NoDup_map_inv fst). apply keys_distinct_NoDup; [ exact Hkd | ].
  intros k Hk. apply py_eq_refl_hashable, Hh, Hk.
Qed.

Lemma In_snd (d : list (pyval * arg1)) k v : In (k, v) d -> In v (map snd d).
Proof. intros H. apply in_map_iff. exists (k, v). split; [ reflexivity | exact H ]. Qed.

Lemma ndeq_refl a : nkeys_ok a -> (forall v, In v (map snd a) -> arg1_eqb T v v = true) -> ndeq a a = true.
Proof.
  intros Hk Hr. apply ndeq_true_iff. split; [ reflexivity | ].
  intros k v Hin. exists v. split; [ | apply Hr; eapply In_snd; exact Hin ].
  destruct Hk as [Hh Hkd]. apply nd_look_in; [ exact Hkd | | exact Hin ].
  apply py_eq_refl_hashable, Hh. apply in_map_iff. exists (k, v). split; [ reflexivity | exact Hin ].
Qed.

Lemma ndeq_sym_imp d1 d2 : nkeys_ok d1 -> nkeys_ok d2 ->
  (forall x y, In x (map snd d1) -> In y (map snd d2) -> arg1_eqb T x y = true -> arg1_eqb T y x = true) ->
  ndeq d1 d2 = true -> ndeq d2 d1 = true.
Proof.
  intros Hwa Hwb Hs Hab.
  apply ndeq_true_iff in Hab. destruct Hab as [Hlen Hf].
  pose proof (proj2 Hwa) as Hkd1. pose proof (proj2 Hwb) as Hkd2.
  assert (Honto : forall e2, In e2 d2 -> exists e1, In e1 d1 /\ py_eq (fst e1) (fst e2) = true).
  { apply pigeon_rel; [ apply nkeys_NoDup; exact Hwa | exact Hlen | | ].
    - intros [k1 v1] Hin1. destruct (Hf _ _ Hin1) as [v' [Hlook _]].
      destruct (nd_look_some _ _ _ Hlook) as [k2 [Hin2 Hk]]. exists (k2, v'). split; assumption.
    - intros [k1 v1] [k1' v1'] [k2 v2] Hin1 Hin1' Hin2 Hk Hk'. cbn [fst] in Hk, Hk'.
      apply (nkeys_same _ Hkd1); try assumption. cbn [fst].
      apply (py_eq_trans_mid k1 k2 k1'); [ exact (nkeys_df d2 k2 v2 Hwb Hin2) | exact Hk | ].
      rewrite <- (py_eq_sym_df k1' k2) by exact (nkeys_df d1 k1' v1' Hwa Hin1'). exact Hk'. }
  apply ndeq_true_iff. split; [ symmetry; exact Hlen | ].
  intros k2 v2 Hin2. destruct (Honto _ Hin2) as [[k1 v1] [Hin1 Hk]]. cbn [fst] in Hk.
  assert (Hdf1 : dict_free k1 = true) by exact (nkeys_df d1 k1 v1 Hwa Hin1).
  assert (Hdf2 : dict_free k2 = true) by exact (nkeys_df d2 k2 v2 Hwb Hin2).
  exists v1. split.
  + apply (nd_look_unique d1 k2 k1 v1); [ exact Hkd1 | exact Hin1 | rewrite (py_eq_sym_df k2 k1 Hdf2); exact Hk | ].
    intros k' Hk' Hk2k'. apply (py_eq_trans_mid k' k2 k1 Hdf2); [ | rewrite (py_eq_sym_df k2 k1 Hdf2); exact Hk ].
    rewrite <- (py_eq_sym_df k2 k' Hdf2). exact Hk2k'.
  + destruct (Hf _ _ Hin1) as [v' [Hlook Hv]].
    destruct (nd_look_some _ _ _ Hlook) as [k2' [Hin2' Hk1k2']].
    assert (Hsame : (k2', v') = (k2, v2)).
    { apply (nkeys_same _ Hkd2); try assumption. cbn [fst].
      apply (py_eq_trans_mid k2' k1 k2 Hdf1); [ | exact Hk ].
      rewrite <- (py_eq_sym_df k1 k2' Hdf1). exact Hk1k2'. }
    inversion Hsame; subst k2' v'.
    apply Hs; [ eapply In_snd; exact Hin1 | eapply In_snd; exact Hin2 | exact Hv ].
Qed.

Lemma ndeq_trans d1 d2 d3 : nkeys_ok d1 -> nkeys_ok d2 -> nkeys_ok d3 ->
  (forall x y z, In x (map snd d1) -> In y (map snd d2) -> In z (map snd d3) ->
                 arg1_eqb T x y = true -> arg1_eqb T y z = true -> arg1_eqb T x z = true) ->
  ndeq d1 d2 = true -> ndeq d2 d3 = true -> ndeq d1 d3 = true.
Proof.
  intros Hwa Hwb Hwc Ht Hab Hbc.
  apply ndeq_true_iff in Hab. destruct Hab as [Hlen1 Hf1].
  apply ndeq_true_iff in Hbc. destruct Hbc as [Hlen2 Hf2].
  pose proof (proj2 Hwc) as Hkd3.
  apply ndeq_true_iff. split; [ congruence | ].
  intros k1 v1 Hin1.
  destruct (Hf1 _ _ Hin1) as [v2 [Hlook2 Hv12]].
  destruct (nd_look_some _ _ _ Hlook2) as [k2 [Hin2 Hk12]].
  destruct (Hf2 _ _ Hin2) as [v3 [Hlook3 Hv23]].
  destruct (nd_look_some _ _ _ Hlook3) as [k3 [Hin3 Hk23]].
  assert (Hdf1 : dict_free k1 = true) by exact (nkeys_df d1 k1 v1 Hwa Hin1).
  assert (Hdf2 : dict_free k2 = true) by exact (nkeys_df d2 k2 v2 Hwb Hin2).
  assert (Hk13 : py_eq k1 k3 = true) by (apply (py_eq_trans_mid k1 k2 k3 Hdf2); assumption).
  exists v3. split.
  + apply (nd_look_unique d3 k1 k3 v3); [ exact Hkd3 | exact Hin3 | exact Hk13 | ].
    intros k' Hk' Hk1k'. apply (py_eq_trans_mid k' k1 k3 Hdf1); [ | exact Hk13 ].
    rewrite <- (py_eq_sym_df k1 k' Hdf1). exact Hk1k'.
  + eapply Ht; [ eapply In_snd; exact Hin1 | eapply In_snd; exact Hin2 | eapply In_snd; exact Hin3 | exact Hv12 | exact Hv23 ].
Qed.

(* ================================================================== *)
(* 2. == on narg: the domain, closed under the normalisation of narg_eqb *)

(* == after normalisation *)
Definition neq (a b : narg) : bool :=
  match a, b with
  | NA x, NA y => arg1_eqb T x y
  | NItems t1 i1, NItems t2 i2 => Bool.eqb t1 t2 && list_eqb (arg1_eqb T) i1 i2
  | NDict k1, NDict k2 => ndeq k1 k2
  | _, _ => false
  end.

Lemma narg_eqb_norm a b : narg_eqb a b = neq (norm_n a) (norm_n b).
Proof. reflexivity. Qed.

Notation a1ok := (arg1_ok wf_val T).
Notation a1b := (arg1_buildable T).

(* well-formed nested argument: literals wf_val, data paths build well-formed path objects, the keys of a mapping
   display are those of a Python dict *)
Definition narg_ok_wf (n : narg) : Prop :=
  match n with
  | NA a => a1ok a
  | NItems _ items => Forall a1ok items
  | NDict kvs => Forall a1ok (map snd kvs) /\ nkeys_ok kvs
  end.

(* every data path of the argument (top level or one level down) is a path object that could be built *)
Definition narg_buildable (n : narg) : Prop := Forall a1b (nitems n).

Lemma lits_wf : forall items, forallb is_lit1 items = true -> Forall a1ok items ->
  Forall (fun v => wf_val v = true) (map raw1 items).
Proof.
  induction items as [ | [v | tag p] r IH ]; intros Hl Hok; cbn [map]; [ constructor | | discriminate Hl ].
  inversion Hok as [ | ? ? Hv Hr ]; subst. cbn [forallb is_lit1 andb] in Hl.
  constructor; [ exact Hv | apply IH; assumption ].
Qed.

Lemma lits_kv_wf : forall kvs : list (pyval * arg1), forallb (fun kv => is_lit1 (snd kv)) kvs = true ->
  Forall a1ok (map snd kvs) -> (forall k, In k (map fst kvs) -> py_hashable k = true) ->
  Forall entry_wf (map (fun kv => (fst kv, raw1 (snd kv))) kvs).
Proof.
  induction kvs as [ | [k [v | tag p]] r IH ]; intros Hl Hok Hh; cbn [map]; [ constructor | | discriminate Hl ].
  cbn [map snd] in Hok. inversion Hok as [ | ? ? Hv Hr ]; subst. cbn [forallb is_lit1 andb snd] in Hl.
  constructor.
  - cbn [fst snd raw1]. assert (Hk : py_hashable k = true) by (apply Hh; left; reflexivity).
    repeat split; [ apply dict_free_wf, hashable_dict_free, Hk | exact Hk | exact Hv ].
  - apply IH; [ exact Hl | exact Hr | ]. intros k' Hk'. apply Hh. right. exact Hk'.
Qed.

Lemma norm_ok n : narg_ok_wf n -> narg_ok_wf (norm_n n).
Proof.
  destruct n as [ a | tup items | kvs ]; cbn [norm_n narg_ok_wf]; intros H; [ exact H | | ].
  - destruct (forallb is_lit1 items) eqn:E; [ | exact H ].
    cbn [narg_ok_wf arg1_ok]. pose proof (lits_wf items E H) as Hw.
    destruct tup; [ apply wf_tuple_Forall | apply wf_list_Forall ]; exact Hw.
  - destruct (forallb (fun kv => is_lit1 (snd kv)) kvs) eqn:E; [ | exact H ].
    destruct H as [Hok [Hh Hkd]]. cbn [narg_ok_wf arg1_ok]. apply wf_dict_intro.
    + apply lits_kv_wf; assumption.
    + rewrite map_map. cbn [fst]. exact Hkd.
Qed.

Lemma norm_buildable n : narg_buildable n -> narg_buildable (norm_n n).
Proof.
  unfold narg_buildable. destruct n as [ a | tup items | kvs ]; cbn [norm_n]; intros H; [ exact H | | ].
  - destruct (forallb is_lit1 items); [ | exact H ]. cbn [nitems]. constructor; [ exact I | constructor ].
  - destruct (forallb (fun kv => is_lit1 (snd kv)) kvs); [ | exact H ]. cbn [nitems]. constructor; [ exact I | constructor ].
Qed.

Notation a1refl := (arg1_eqb_refl_D wf_val py_eq_refl_wf T).
Notation a1sym := (arg1_eqb_sym_D wf_val py_eq_sym_wf T).
Notation a1trans := (arg1_eqb_trans_D wf_val py_eq_trans_wf T).

Lemma neq_refl x : narg_ok_wf x -> narg_buildable x -> neq x x = true.
Proof.
  unfold narg_buildable. destruct x as [ a | tup items | kvs ]; cbn [neq narg_ok_wf nitems]; intros Hok Hb.
  - inversion Hb; subst. apply a1refl; assumption.
  - rewrite Bool.eqb_reflx. cbn [andb]. apply list_eqb_refl. intros a Ha.
    rewrite Forall_forall in Hok, Hb. apply a1refl; auto.
  - destruct Hok as [Hok Hk]. apply ndeq_refl; [ exact Hk | ]. intros v Hv.
    rewrite Forall_forall in Hok, Hb. apply a1refl; auto.
Qed.

Lemma a1sym_imp x y : a1ok x -> a1ok y -> arg1_eqb T x y = true -> arg1_eqb T y x = true.
Proof. intros Hx Hy H. rewrite <- (a1sym x y Hx Hy). exact H. Qed.

Lemma neq_sym x y : narg_ok_wf x -> narg_ok_wf y -> neq x y = neq y x.
Proof.
  destruct x as [ a | tup items | kvs ]; destruct y as [ b | tup' items' | kvs' ]; cbn [neq narg_ok_wf];
    intros Hx Hy; try reflexivity.
  - apply a1sym; assumption.
  - rewrite (bool_eqb_sym tup tup'). f_equal. apply list_eqb_sym. intros u v Hu Hv.
    rewrite Forall_forall in Hx, Hy. apply a1sym; auto.
  - destruct Hx as [Hx Hkx]. destruct Hy as [Hy Hky]. rewrite Forall_forall in Hx, Hy.
    apply bool_eq_of_imp; apply ndeq_sym_imp; try assumption; intros u v Hu Hv; apply a1sym_imp; auto.
Qed.

Lemma neq_trans x y z : narg_ok_wf x -> narg_ok_wf y -> narg_ok_wf z ->
  neq x y = true -> neq y z = true -> neq x z = true.
Proof.
  destruct x as [ a | tup items | kvs ]; destruct y as [ b | tup' items' | kvs' ]; destruct z as [ c | tup'' items'' | kvs'' ];
    cbn [neq narg_ok_wf]; intros Hx Hy Hz; try discriminate.
  - apply a1trans; assumption.
  - rewrite !andb_true_iff. intros [E1 E2] [F1 F2]. apply Bool.eqb_prop in E1, F1. subst. split; [ apply Bool.eqb_reflx | ].
    eapply list_eqb_trans; [ | exact E2 | exact F2 ]. rewrite Forall_forall in Hx, Hy, Hz.
    intros u v w Hu Hv Hw. apply a1trans; auto.
  - destruct Hx as [Hx Hkx]. destruct Hy as [Hy Hky]. destruct Hz as [Hz Hkz]. rewrite Forall_forall in Hx, Hy, Hz.
    apply ndeq_trans; try assumption. intros u v w Hu Hv Hw. apply a1trans; auto.
Qed.

Theorem narg_eqb_refl n : narg_ok_wf n -> narg_buildable n -> narg_eqb n n = true.
Proof. intros Hok Hb. rewrite narg_eqb_norm. apply neq_refl; [ apply norm_ok | apply norm_buildable ]; assumption. Qed.

Theorem narg_eqb_sym a b : narg_ok_wf a -> narg_ok_wf b -> narg_eqb a b = narg_eqb b a.
Proof. intros Ha Hb. rewrite !narg_eqb_norm. apply neq_sym; apply norm_ok; assumption. Qed.

Theorem narg_eqb_trans a b c : narg_ok_wf a -> narg_ok_wf b -> narg_ok_wf c ->
  narg_eqb a b = true -> narg_eqb b c = true -> narg_eqb a c = true.
Proof. intros Ha Hb Hc. rewrite !narg_eqb_norm. apply neq_trans; apply norm_ok; assumption. Qed.

(* ================================================================== *)
(* 3. C14 on conditions with nested arguments: the generic Section of C14Proof at A := narg *)

Definition condn_ok (c : cond narg) : Prop :=
  cond_wf c /\ forall n, In n (cond_args c) -> narg_ok_wf n.
Definition condn_buildable (c : cond narg) : Prop :=
  forall n, In n (cond_args c) -> narg_buildable n.

Theorem C14N_cond_refl c : condn_ok c -> condn_buildable c -> condn_eqb c c = true.
Proof. intros [Hwf Hd] Hb. apply cond_eqb_refl; [ exact Hwf | ]. intros a Ha. apply narg_eqb_refl; auto. Qed.

Theorem C14N_cond_sym a b : condn_ok a -> condn_ok b -> condn_eqb a b = condn_eqb b a.
Proof. intros [Hwa Hda] [Hwb Hdb]. apply cond_eqb_sym; try assumption. intros u v Hu Hv. apply narg_eqb_sym; auto. Qed.

Theorem C14N_cond_trans a b c : condn_ok a -> condn_ok b -> condn_ok c ->
  condn_eqb a b = true -> condn_eqb b c = true -> condn_eqb a c = true.
Proof. intros [_ Hda] [_ Hdb] [_ Hdc]. apply cond_eqb_trans. intros u v w Hu Hv Hw. apply narg_eqb_trans; auto. Qed.

Theorem C14N_cond_commute o a b : condn_ok a -> condn_ok b -> condn_buildable a -> condn_buildable b ->
  condn_eqb (CBin o a b) (CBin o b a) = true.
Proof. intros Ha Hb Ba Bb. apply cond_eqb_commute; apply C14N_cond_refl; assumption. Qed.

(* swapping the operands of either side never changes the answer (no side condition) *)
Theorem C14N_cond_commute_l o a b c : condn_eqb (CBin o a b) c = condn_eqb (CBin o b a) c.
Proof. apply cond_eqb_commute_l. Qed.
Theorem C14N_cond_commute_r o a b c : condn_eqb c (CBin o a b) = condn_eqb c (CBin o b a).
Proof. apply cond_eqb_commute_r. Qed.

(* a condition that build_n accepts has only buildable data-path arguments *)
Lemma check_nargs_buildable : forall pos, check_nargs pos = Ok tt -> Forall narg_buildable pos.
Proof.
  induction pos as [ | n r IH ]; intros H; [ constructor | ].
  cbn [check_nargs] in H. destruct (check_narg n) as [ [] | ] eqn:E; [ | discriminate ]. cbn [bind] in H.
  constructor; [ | apply IH; exact H ]. unfold narg_buildable. apply check_args_buildable. exact E.
Qed.

Lemma check_nkw_buildable : forall kw, check_nkw kw = Ok tt -> Forall narg_buildable (map snd kw).
Proof.
  induction kw as [ | [k n] r IH ]; intros H; [ constructor | ].
  cbn [check_nkw] in H. destruct (check_narg n) as [ [] | ] eqn:E; [ | discriminate ]. cbn [bind] in H.
  cbn [map snd]. constructor; [ | apply IH; exact H ]. unfold narg_buildable. apply check_args_buildable. exact E.
Qed.

Theorem build_n_buildable : forall t c, build_n t = Ok c -> condn_buildable c.
Proof.
  assert (G : forall t c, build_n t = Ok c -> Forall narg_buildable (cond_args c)).
  { induction t as [ cls m pos kw | | o a IHa b IHb ]; intros c H; cbn [build_n] in H.
    - destruct (check_nargs pos) as [ [] | ] eqn:E1; [ | discriminate ]. cbn [bind] in H.
      destruct (check_nkw kw) as [ [] | ] eqn:E2; [ | discriminate ]. cbn [bind] in H.
      destruct (build_leaf T NestedArgs.lit_n cls m pos kw) as [ l | ] eqn:E3; [ | discriminate ]. cbn [bind] in H.
      inversion H; subst. cbn [cond_args].
      eapply build_leaf_P; [ | | | exact E3 ].
      + intros d. unfold narg_buildable, NestedArgs.lit_n. cbn. constructor; [ exact I | constructor ].
      + apply check_nargs_buildable. exact E1.
      + apply check_nkw_buildable. exact E2.
    - inversion H; subst. constructor.
    - destruct (build_n a) as [ x | ] eqn:Ea; [ | discriminate ]. cbn [bind] in H.
      destruct (build_n b) as [ y | ] eqn:Eb; [ | discriminate ]. cbn [bind] in H.
      eapply mk_bin_P; [ | | exact H ]; auto. }
  intros t c H a Ha. specialize (G t c H). rewrite Forall_forall in G. apply G. exact Ha.
Qed.

(* separately built copies of one definition compare equal *)
Theorem C14N_rebuild t c c' : build_n t = Ok c -> build_n t = Ok c' -> condn_ok c -> condn_eqb c c' = true.
Proof.
  intros H1 H2 Hok. rewrite H1 in H2. inversion H2; subst c'. apply C14N_cond_refl; [ exact Hok | ].
  eapply build_n_buildable. exact H1.
Qed.

(* ================================================================== *)
(* 4. C16: the nested parser condn_from_spec preserves well-formedness   *)

(* no object among the values reachable through list / tuple items and dict values (dict keys are not looked at:
   a marker is only ever searched among the items of a list / tuple and the values of a mapping) *)
Fixpoint no_obj (v : pyval) : bool :=
  match v with
  | VObj _ => false
  | VList l | VTuple l => forallb no_obj l
  | VDict d => (fix go (d : list (pyval * pyval)) : bool :=
                  match d with [] => true | (_, x) :: r => no_obj x && go r end) d
  | _ => true
  end.

Lemma no_obj_dict d : no_obj (VDict d) = vals_ok no_obj d.
Proof.
  induction d as [ | [k x] r IH ]; [ reflexivity | ].
  change (no_obj (VDict ((k, x) :: r))) with (no_obj x && no_obj (VDict r)). rewrite IH. reflexivity.
Qed.

(* the invariant on every value the parser handles *)
Definition Gv (v : pyval) : Prop := wf_val v = true /\ no_obj v = true.
Definition eg (kv : pyval * pyval) : Prop := wf_val (fst kv) = true /\ py_hashable (fst kv) = true /\ Gv (snd kv).

Lemma Gv_items l : Forall (fun v => wf_val v = true) l -> forallb no_obj l = true -> Forall Gv l.
Proof.
  intros H1 H2. rewrite Forall_forall in *. rewrite forallb_forall in H2. intros x Hx. split; auto.
Qed.
Lemma Gv_list l : Gv (VList l) -> Forall Gv l.
Proof. intros [H1 H2]. apply Gv_items; [ apply wf_list_Forall; exact H1 | exact H2 ]. Qed.
Lemma Gv_tuple l : Gv (VTuple l) -> Forall Gv l.
Proof. intros [H1 H2]. apply Gv_items; [ apply wf_tuple_Forall; exact H1 | exact H2 ]. Qed.
Lemma Gv_dict d : Gv (VDict d) -> Forall eg d /\ keys_distinct (map fst d) = true.
Proof.
  intros [H1 H2]. destruct (wf_dict_elim _ H1) as [Hent Hkd]. split; [ | exact Hkd ].
  rewrite no_obj_dict in H2. unfold vals_ok in H2. rewrite forallb_forall in H2.
  rewrite Forall_forall in *. intros kv Hin. destruct (Hent _ Hin) as [A1 [A2 A3]].
  repeat split; try assumption. apply H2. exact Hin.
Qed.

Lemma has_marker_noobj v : no_obj v = true -> has_marker v = false.
Proof.
  intros H. unfold has_marker, dec_marker. destruct v; try reflexivity.
  destruct l as [ | a [ | b [ | c r ] ] ]; try reflexivity; destruct a; try reflexivity.
  cbn in H. discriminate H.
Qed.

Lemma existsb_marker_noobj l : forallb no_obj l = true -> existsb has_marker l = false.
Proof.
  induction l as [ | v l IH ]; cbn [forallb existsb]; [ reflexivity | ].
  intros H. apply andb_true_iff in H as [Hv Hl]. rewrite (has_marker_noobj v Hv), (IH Hl). reflexivity.
Qed.

Lemma existsb_marker_noobj_kv (d : list (pyval * pyval)) :
  vals_ok no_obj d = true -> existsb (fun kv => has_marker (snd kv)) d = false.
Proof.
  unfold vals_ok. induction d as [ | kv d IH ]; cbn [forallb existsb]; [ reflexivity | ].
  intros H. apply andb_true_iff in H as [Hv Hl]. rewrite (has_marker_noobj _ Hv), (IH Hl). reflexivity.
Qed.

Lemma lit_n_noobj v : no_obj v = true -> lit_n v = NA (ALit v).
Proof.
  intros H. destruct v; try reflexivity; cbn [lit_n].
  - cbn [no_obj] in H. rewrite (existsb_marker_noobj _ H). reflexivity.
  - cbn [no_obj] in H. rewrite (existsb_marker_noobj _ H). reflexivity.
  - rewrite no_obj_dict in H. rewrite (existsb_marker_noobj_kv _ H). reflexivity.
Qed.

(* the invariant on arguments: in the domain of (A), and buildable *)
Definition Pn (n : narg) : Prop := narg_ok_wf n /\ narg_buildable n.

Lemma Pn_litNA v : wf_val v = true -> Pn (litNA v).
Proof. intros H. split; [ exact H | ]. unfold narg_buildable, litNA. cbn. constructor; [ exact I | constructor ]. Qed.

Lemma Pn_lit v : Gv v -> Pn (lit_n v).
Proof. intros [H1 H2]. rewrite (lit_n_noobj v H2). apply Pn_litNA. exact H1. Qed.

Lemma Pn_path p : P1 (APath 0%N p) -> Pn (mkpath_n p).
Proof.
  intros [H1 H2]. split; [ exact H1 | ]. unfold narg_buildable, mkpath_n. cbn [nitems].
  constructor; [ exact H2 | constructor ].
Qed.

Lemma P1_split l : Forall P1 l -> Forall a1ok l /\ Forall a1b l.
Proof.
  intros H. split; apply Forall_forall; intros a Ha; rewrite Forall_forall in H; apply (H a Ha).
Qed.

(* an item of a coerced list / mapping: a parsed path, or a value of the spec *)
Definition ig (x : pathterm pyval + pyval) : Prop :=
  match x with inl p => P1 (APath 0%N p) | inr v => Gv v end.
Definition kg (kx : pyval * (pathterm pyval + pyval)) : Prop :=
  wf_val (fst kx) = true /\ py_hashable (fst kx) = true /\ ig (snd kx).

Notation ival := (item_val inert_n).

Lemma item_of_good x : ig x -> P1 (item_of (ival x)).
Proof.
  destruct x as [ p | v ]; cbn [ig item_val]; intros H; unfold item_of.
  - rewrite dec_marker_inert. exact H.
  - destruct H as [H1 H2]. pose proof (has_marker_noobj v H2) as Hm. unfold has_marker in Hm.
    destruct (dec_marker v); [ discriminate Hm | apply P1_lit; exact H1 ].
Qed.

Lemma ival_wf_nomark x : ig x -> has_marker (ival x) = false -> wf_val (ival x) = true.
Proof.
  destruct x as [ p | v ]; cbn [ig item_val]; intros H Hm.
  - unfold has_marker in Hm. rewrite dec_marker_inert in Hm. discriminate Hm.
  - apply H.
Qed.

Lemma seq_items_P1 : forall items, Forall ig items -> Forall P1 (map item_of (map ival items)).
Proof.
  induction items as [ | x r IH ]; intros H; cbn [map]; [ constructor | ].
  inversion H; subst. constructor; [ apply item_of_good; assumption | apply IH; assumption ].
Qed.

Lemma seq_items_wf : forall items, Forall ig items -> existsb has_marker (map ival items) = false ->
  Forall (fun v => wf_val v = true) (map ival items).
Proof.
  induction items as [ | x r IH ]; intros H E; cbn [map]; [ constructor | ].
  inversion H; subst. cbn [map existsb] in E. apply orb_false_iff in E as [E1 E2].
  constructor; [ apply ival_wf_nomark; assumption | apply IH; assumption ].
Qed.

Lemma seq_lit_good (tup : bool) items : Forall ig items ->
  Pn (lit_n ((if tup then VTuple else VList) (map ival items))).
Proof.
  intros H. pose proof (seq_items_P1 items H) as HP. pose proof (seq_items_wf items H) as HW.
  destruct (P1_split _ HP) as [Hok Hb].
  destruct tup; cbn [lit_n]; destruct (existsb has_marker (map ival items)) eqn:E.
  - split; [ exact Hok | exact Hb ].
  - apply Pn_litNA. apply wf_tuple_Forall. apply HW. reflexivity.
  - split; [ exact Hok | exact Hb ].
  - apply Pn_litNA. apply wf_list_Forall. apply HW. reflexivity.
Qed.

Definition kval (kv : pyval * (pathterm pyval + pyval)) : pyval * pyval := (fst kv, ival (snd kv)).
Definition kof (kv : pyval * pyval) : pyval * arg1 := (fst kv, item_of (snd kv)).

Lemma dict_items_P1 : forall items, Forall kg items -> Forall P1 (map snd (map kof (map kval items))).
Proof.
  induction items as [ | [k x] r IH ]; intros H; cbn [map]; [ constructor | ].
  inversion H as [ | ? ? [_ [_ Hx]] Hr ]; subst. unfold kval at 1, kof at 1. cbn [fst snd] in *.
  constructor; [ apply item_of_good; exact Hx | apply IH; exact Hr ].
Qed.

Lemma dict_items_wf : forall items, Forall kg items ->
  existsb (fun kv => has_marker (snd kv)) (map kval items) = false -> Forall entry_wf (map kval items).
Proof.
  induction items as [ | [k x] r IH ]; intros H E; cbn [map]; [ constructor | ].
  inversion H as [ | ? ? [Hk [Hh Hx]] Hr ]; subst. cbn [fst snd] in *.
  cbn [map existsb] in E. unfold kval at 1 in E. cbn [fst snd] in E. apply orb_false_iff in E as [E1 E2].
  constructor; [ | apply IH; assumption ].
  unfold kval. repeat split; cbn [fst snd]; try assumption. apply ival_wf_nomark; assumption.
Qed.

Lemma dict_keys_eq items : map fst (map kof (map kval items)) = map fst items.
Proof. rewrite !map_map. unfold kof, kval. cbn [fst]. reflexivity. Qed.

Lemma dict_lit_good items : Forall kg items -> keys_distinct (map fst items) = true ->
  Pn (lit_n (VDict (map kval items))).
Proof.
  intros H Hkd. cbn [lit_n]. destruct (existsb (fun kv => has_marker (snd kv)) (map kval items)) eqn:E.
  - change (Pn (NDict (map kof (map kval items)))).
    destruct (P1_split _ (dict_items_P1 items H)) as [Hok Hb]. split.
    + cbn [narg_ok_wf]. split; [ exact Hok | ]. unfold nkeys_ok. rewrite dict_keys_eq. split; [ | exact Hkd ].
      intros k Hk. apply in_map_iff in Hk. destruct Hk as [[k' x] [<- Hin]]. rewrite Forall_forall in H.
      apply (H _ Hin).
    + unfold narg_buildable. cbn [nitems]. exact Hb.
  - apply Pn_litNA. apply wf_dict_intro; [ apply dict_items_wf; assumption | ].
    rewrite map_map. unfold kval. cbn [fst]. exact Hkd.
Qed.

(* ---- the coercion of the argument value ---- *)

Lemma pfs_inr_Gv v d : Gv v -> pfs v = Ok (inr d) -> Gv d.
Proof.
  intros [H1 H2] E. split; [ exact (P1_inr v d H1 E) | ].
  destruct (pfs_inr v d E) as [d0 [dd [-> [-> HP]]]]. rewrite no_obj_dict in *. apply HP. exact H2.
Qed.

Section ParseG.
  (* the tables and the path parser are kept abstract here (as in C16ReparseProof.CondParse) *)
  Variable T' : tables.
  Variable X' : spec_tables.
  Variable pf : pyval -> res (pathterm pyval + pyval).
  Hypothesis H_inl : forall v p, Gv v -> pf v = Ok (inl p) -> P1 (APath 0%N p).
  Hypothesis H_inr : forall v d, Gv v -> pf v = Ok (inr d) -> Gv d.

Lemma try_path_g v x : Gv v -> try_path pf v = Ok x -> ig x.
Proof.
  intros Hw H. unfold try_path in H. destruct (pf v) as [ [p | d] | e ] eqn:E.
  - inversion H; subst. cbn [ig]. apply (H_inl v p Hw E).
  - inversion H; subst. cbn [ig]. eapply H_inr; eassumption.
  - destruct e; try discriminate. inversion H; subst. exact Hw.
Qed.

Lemma coerce_items_g : forall l xs, Forall Gv l -> coerce_items pf l = Ok xs -> Forall ig xs.
Proof.
  induction l as [ | v r IH ]; intros xs Hl H; cbn [coerce_items] in H.
  - inversion H; subst. constructor.
  - inversion Hl as [ | ? ? Hv Hr ]; subst. bs H x Hx. bs H ys Hys. inversion H; subst.
    constructor; [ eapply try_path_g; eassumption | eapply IH; eassumption ].
Qed.

Lemma coerce_kvs_g : forall d xs, Forall eg d ->
  coerce_kvs pf d = Ok xs -> map fst xs = map fst d /\ Forall kg xs.
Proof.
  induction d as [ | [k v] r IH ]; intros xs Hd H; cbn [coerce_kvs] in H.
  - inversion H; subst. split; [ reflexivity | constructor ].
  - inversion Hd as [ | ? ? [Hk [Hh Hv]] Hr ]; subst. cbn [fst snd] in *. bs H x Hx. bs H ys Hys. inversion H; subst.
    destruct (IH _ Hr Hys) as [I1 I2]. split; [ cbn [map fst]; rewrite I1; reflexivity | ].
    constructor; [ | exact I2 ]. repeat split; try assumption. cbn [snd]. eapply try_path_g; eassumption.
Qed.

Definition cg (cv : coerced) : Prop :=
  match cv with
  | CPath p => P1 (APath 0%N p)
  | CVal v => Gv v
  | CDict items => Forall kg items /\ keys_distinct (map fst items) = true
  | CSeq _ items => Forall ig items
  end.

Lemma coerce_g v cv : Gv v -> coerce pf v = Ok cv -> cg cv.
Proof.
  intros Hw H. destruct v; cbn [coerce] in H; try (inversion H; subst; exact Hw).
  - bs H xs Hxs. inversion H; subst. cbn [cg]. eapply coerce_items_g; [ | exact Hxs ]. apply Gv_list. exact Hw.
  - bs H u Hu. inversion H; subst. cbn [cg]. apply Gv_tuple in Hw.
    apply Forall_forall. intros x Hx. apply in_map_iff in Hx. destruct Hx as [y [<- Hy]].
    rewrite Forall_forall in Hw. cbn [ig]. apply Hw. exact Hy.
  - destruct (pf (VDict d)) as [ [p | d'] | e ] eqn:E.
    + inversion H; subst. cbn [cg]. apply (H_inl _ p Hw E).
    + pose proof (H_inr _ _ Hw E) as Hd'.
      destruct d' as [ | | | | | | | d'' | | ]; inversion H; subst; try exact Hd'.
      cbn [cg]. destruct (Gv_dict _ Hd') as [Hent Hkd]. split.
      * apply Forall_forall. intros x Hx. apply in_map_iff in Hx. destruct Hx as [[k y] [<- Hy]].
        rewrite Forall_forall in Hent. destruct (Hent _ Hy) as [H1 [H2 H3]].
        split; [ exact H1 | split; [ exact H2 | exact H3 ] ].
      * rewrite map_map. cbn [fst]. exact Hkd.
    + destruct e; try discriminate. bs H xs Hxs. inversion H; subst.
      destruct (Gv_dict _ Hw) as [Hent Hkd]. destruct (coerce_kvs_g _ _ Hent Hxs) as [I1 I2].
      cbn [cg]. split; [ exact I2 | rewrite I1; exact Hkd ].
Qed.

Notation cvaln := (coerced_val narg lit_n mkpath_n inert_n).
Notation iargn := (item_arg narg lit_n mkpath_n).

Lemma coerced_val_Pn cv : cg cv -> Pn (cvaln cv).
Proof.
  destruct cv as [ p | v | items | tup items ]; cbn [cg coerced_val]; intros H.
  - apply Pn_path. exact H.
  - apply Pn_lit. exact H.
  - destruct H as [H1 H2]. apply (dict_lit_good items H1 H2).
  - apply seq_lit_good. exact H.
Qed.

Lemma item_arg_Pn x : ig x -> Pn (iargn x).
Proof. destruct x; cbn [ig item_arg]; intros H; [ apply Pn_path; exact H | apply Pn_lit; exact H ]. Qed.

Lemma kw_of_g : forall items k, Forall kg items -> kw_of narg lit_n mkpath_n items = Ok k ->
  map fst items = map VStr (map fst k) /\ Forall Pn (map snd k).
Proof.
  induction items as [ | [key x] r IH ]; intros k Hi H; cbn [kw_of] in H.
  - inversion H; subst. split; [ reflexivity | constructor ].
  - inversion Hi as [ | ? ? [_ [_ Hx]] Hr ]; subst. cbn [snd] in Hx.
    destruct key; try discriminate. bs H rest Hrest. inversion H; subst.
    destruct (IH _ Hr Hrest) as [I1 I2]. cbn [map fst snd]. split; [ rewrite I1; reflexivity | ].
    constructor; [ apply item_arg_Pn; exact Hx | exact I2 ].
Qed.

Lemma kw_of_triple_g items k : Forall kg items -> keys_distinct (map fst items) = true ->
  kw_of narg lit_n mkpath_n items = Ok k ->
  Forall Pn (@nil narg) /\ Forall Pn (map snd k) /\ NoDup (map fst k).
Proof.
  intros Hi Hkd H. destruct (kw_of_g _ _ Hi H) as [I1 I2]. repeat split; [ constructor | exact I2 | ].
  apply keys_distinct_str_NoDup. rewrite <- I1. exact Hkd.
Qed.

Lemma seq_triple_g items : Forall ig items ->
  Forall Pn (map iargn items) /\ Forall Pn (map snd (@nil (string * narg))) /\ NoDup (map fst (@nil (string * narg))).
Proof.
  intros H. repeat split; [ | constructor | constructor ].
  apply Forall_forall. intros x Hx. apply in_map_iff in Hx. destruct Hx as [y [<- Hy]].
  rewrite Forall_forall in H. apply item_arg_Pn. apply H. exact Hy.
Qed.

Lemma dispatch_g c cv b pos kw : cg cv ->
  dispatch narg lit_n mkpath_n inert_n c cv b = Ok (pos, kw) ->
  Forall Pn pos /\ Forall Pn (map snd kw) /\ NoDup (map fst kw).
Proof.
  intros Hg H. unfold dispatch in H.
  repeat match type of H with (if ?c then _ else _) = _ => destruct c end; try discriminate.
  - inversion H; subst. repeat split; constructor.
  - inversion H; subst. repeat split; try constructor; [ apply coerced_val_Pn; exact Hg | constructor ].
  - destruct cv as [ p | v | items | tup items ]; try discriminate.
    + bs H k Hk. inversion H; subst. destruct Hg as [G1 G2]. eapply kw_of_triple_g; eassumption.
    + inversion H; subst. apply seq_triple_g. exact Hg.
  - destruct cv as [ p | v | items | tup items ]; try discriminate.
    destruct tup; [ discriminate | ]. inversion H; subst. apply seq_triple_g. exact Hg.
  - destruct cv as [ p | v | items | tup items ]; try discriminate.
    bs H k Hk. inversion H; subst. destruct Hg as [G1 G2]. eapply kw_of_triple_g; eassumption.
Qed.

(* ---- type conversion returns type objects ---- *)

Lemma to_type_noobj v v' : to_type X' v = Ok v' -> no_obj v' = true.
Proof.
  destruct v; cbn [to_type]; intros H; try discriminate;
    repeat match type of H with
           | match ?x with _ => _ end = _ => destruct x
           | (if ?x then _ else _) = _ => destruct x
           end; try discriminate; inversion H; subst; reflexivity.
Qed.

Lemma mapM_to_type_noobj : forall l l', mapM (to_type X') l = Ok l' -> forallb no_obj l' = true.
Proof.
  induction l as [ | x r IH ]; intros l' H; cbn [mapM] in H.
  - inversion H; subst. reflexivity.
  - bs H y Hy. bs H ys Hys. inversion H; subst. cbn [forallb]. rewrite (to_type_noobj _ _ Hy), (IH _ Hys). reflexivity.
Qed.

Lemma convert_types_Gv v v' : convert_types X' v = Ok v' -> Gv v'.
Proof.
  intros H. split; [ eapply convert_types_wf; exact H | ].
  destruct v; cbn [convert_types] in H; try (eapply to_type_noobj; exact H).
  bs H l' Hl'. inversion H; subst. cbn [no_obj]. eapply mapM_to_type_noobj. exact Hl'.
Qed.

(* ---- leaves, combinations, the whole parser ---- *)

Notation tg := (dslc_good narg Pn).

Lemma parse_leaf_g key spec_val p : Gv spec_val ->
  parse_leaf T' X' narg lit_n mkpath_n inert_n pf key spec_val = Ok p -> tg (fst p).
Proof.
  intros Hw H. unfold parse_leaf in H. cbv zeta in H.
  destruct (assoc_str _ (sx_datum_types X')) as [cls_name|]; [|discriminate].
  match type of H with (if ?c then _ else _) = _ => destruct c end; [discriminate|].
  destruct (find_class (t_classes T') cls_name) as [k0|] eqn:Ek0; [|discriminate].
  bs H kv Hkv. destruct kv as [k v1].
  assert (Hv1 : Gv v1).
  { match type of Hkv with (if ?c then _ else _) = _ => destruct c end.
    - bs Hkv v' Hv'. bs Hkv k' Hk'. inversion Hkv; subst.
      match type of Hv' with (if ?c then _ else _) = _ => destruct c end;
        [ eapply convert_types_Gv; exact Hv' | inversion Hv'; subst; exact Hw ].
    - inversion Hkv; subst. exact Hw. }
  clear Hkv. bs H v2 Hv2.
  assert (Hw2 : Gv v2).
  { match type of Hv2 with (if ?c then _ else _) = _ => destruct c end;
      [ eapply convert_types_Gv; exact Hv2 | inversion Hv2; subst; exact Hv1 ]. }
  clear Hv2.
  match type of H with match find_ctor T' k ?call with _ => _ end = _ => destruct (find_ctor T' k call) as [c|] eqn:Ec end;
    [|discriminate].
  bs H cv Hcv. bs H pk Hpk. destruct pk as [pos kw]. bs H l Hl. inversion H; subst.
  cbn [fst dslc_good]. eapply dispatch_g; [ | exact Hpk ]. eapply coerce_g; eassumption.
Qed.

Section StepG.
  Variable self : pyval -> res (dslc narg * cond narg).
  Hypothesis Hself : forall s p, Gv s -> self s = Ok p -> tg (fst p).

  Lemma fold_g o : forall items acc p,
    Forall Gv items -> tg (fst acc) ->
    (fix fold (items : list pyval) (acc : dslc narg * cond narg) : res (dslc narg * cond narg) :=
       match items with
       | [] => Ok acc
       | i :: r =>
           let* (ti, ci) := self i in
           let* c := mk_bin o (snd acc) ci in
           fold r (DBin o (fst acc) ti, c)
       end) items acc = Ok p -> tg (fst p).
  Proof.
    induction items as [ | i r IH ]; intros acc p Hi Hacc H; [ inversion H; subst; exact Hacc | ].
    inversion Hi as [ | ? ? Hwi Hr ]; subst.
    bs H tc Htc. destruct tc as [ti ci]. bs H c Hc.
    eapply IH; [ exact Hr | | exact H ]. cbn [fst dslc_good]. split; [ exact Hacc | ].
    apply (Hself _ _ Hwi Htc).
  Qed.

  Lemma step_g spec p : Gv spec ->
    cond_from_spec_step T' X' narg lit_n mkpath_n inert_n pf self spec = Ok p -> tg (fst p).
  Proof.
    intros Hw H. unfold cond_from_spec_step in H.
    destruct (negb (py_truthy spec)); [ inversion H; subst; exact I | ].
    destruct spec; try discriminate.
    destruct d as [ | [k v] r ]; [ discriminate | ].
    destruct k; destruct r; try discriminate.
    destruct (Gv_dict _ Hw) as [Hent _]. inversion Hent as [ | ? ? [_ [_ Hv]] _ ]; subst. cbn [snd] in Hv.
    destruct (assoc_str s (sx_binops X')) as [o|].
    - destruct v; try discriminate.
      + eapply fold_g; [ | | exact H ]; [ apply Gv_list; exact Hv | exact I ].
      + eapply fold_g; [ | | exact H ]; [ apply Gv_tuple; exact Hv | exact I ].
    - eapply parse_leaf_g; eassumption.
  Qed.
End StepG.

Lemma cond_from_spec_g : forall fuel spec p, Gv spec ->
  cond_from_spec T' X' narg lit_n mkpath_n inert_n pf fuel spec = Ok p -> tg (fst p).
Proof.
  induction fuel as [ | f IH ]; intros spec p Hw H; cbn [cond_from_spec] in H; [ discriminate | ].
  eapply step_g; [ | exact Hw | exact H ]. exact IH.
Qed.

End ParseG.

(* building with the decoding embedding lit_n = building with the plain one: the constructor defaults hold no marker *)
Lemma build_leaf_lit_n cls m pos kw : build_leaf T lit_n cls m pos kw = build_leaf T litNA cls m pos kw.
Proof.
  unfold build_leaf.
  destruct (find_class (t_classes T) cls) as [k|]; [|reflexivity].
  destruct (find_ctor T k m) as [c|] eqn:Ec; [|reflexivity].
  rewrite (apply_ctor_extP narg lit_n litNA nt1 nt1_lit_na c); [reflexivity|].
  pose proof ctor_defaults_nt1 as H. rewrite forallb_forall in H. exact (H c (find_ctor_In k m c Ec)).
Qed.

Lemma build_lit_n : forall t, build T lit_n t = build T litNA t.
Proof.
  induction t as [ cls m pos kw | | o a IHa b IHb ]; cbn [build].
  - rewrite build_leaf_lit_n. reflexivity.
  - reflexivity.
  - rewrite IHa, IHb. reflexivity.
Qed.

Lemma cgood_split c : cgood narg Pn c -> condn_ok c /\ condn_buildable c.
Proof.
  intros [H1 H2]. rewrite Forall_forall in H2. split; [ split; [ exact H1 | ] | ]; intros a Ha; apply (H2 a Ha).
Qed.

(* the parsed condition is well-formed: in the domain on which == is an equivalence, and buildable *)
Theorem condn_from_spec_ok spec tm c : wf_val spec = true -> no_obj spec = true ->
  condn_from_spec spec = Ok (tm, c) -> condn_ok c /\ condn_buildable c.
Proof.
  intros Hw Hn H. apply cgood_split. unfold condn_from_spec in H.
  assert (Hinl : forall v p, Gv v -> pfs v = Ok (inl p) -> P1 (APath 0%N p)) by (intros v p Hv; apply P1_path, Hv).
  pose proof (cond_from_spec_g T X pfs Hinl pfs_inr_Gv spec_fuel spec (tm, c) (conj Hw Hn) H) as G. cbn [fst] in G.
  apply cond_from_spec_wf in H. unfold wfres in H. cbn [fst snd] in H. rewrite build_lit_n in H.
  exact (build_good T T_tables_good narg litNA Pn Pn_litNA tm c G H).
Qed.

(* C16 for the nested parser: parse twice, compare with == *)
Theorem C16N_reparse_cond spec tm c tm' c' : wf_val spec = true -> no_obj spec = true ->
  condn_from_spec spec = Ok (tm, c) -> condn_from_spec spec = Ok (tm', c') ->
  condn_eqb c' c = true.
Proof.
  intros Hw Hn H1 H2. rewrite H1 in H2. inversion H2; subst.
  destruct (condn_from_spec_ok _ _ _ Hw Hn H1) as [G1 G2]. apply C14N_cond_refl; assumption.
Qed.

(* JSON-like specs (what to_json_like produces, what a JSON / YAML file holds) satisfy no_obj *)
Lemma json_pure_no_obj : forall v, json_pure v = true -> no_obj v = true.
Proof.
  induction v as [ | b0 | z | n m e | s | l IHl | l IHl | d IHd | t | t ] using pyval_ind';
    intros H; try reflexivity; try discriminate H.
  - cbn [json_pure] in H. cbn [no_obj]. rewrite forallb_forall in *. rewrite Forall_forall in IHl.
    intros x Hx. apply IHl; [ exact Hx | apply H; exact Hx ].
  - rewrite no_obj_dict. unfold vals_ok. rewrite forallb_forall. rewrite Forall_forall in IHd.
    intros [k x] Hin. cbn [snd]. apply (IHd _ Hin). cbn [snd].
    revert H Hin. clear. induction d as [ | [k2 x2] r IH ]; intros H Hin; [ contradiction | ].
    change (json_pure (VDict ((k2, x2) :: r))) with
      (match k2 with VStr _ => json_pure x2 && json_pure (VDict r) | _ => false end) in H.
    destruct k2; try discriminate H. apply andb_true_iff in H as [H1 H2].
    destruct Hin as [ Heq | Hin ]; [ inversion Heq; subst; exact H1 | apply IH; assumption ].
Qed.

Corollary C16N_reparse_cond_json spec tm c tm' c' : wf_val spec = true -> json_pure spec = true ->
  condn_from_spec spec = Ok (tm, c) -> condn_from_spec spec = Ok (tm', c') ->
  condn_eqb c' c = true.
Proof. intros Hw Hj. apply C16N_reparse_cond; [ exact Hw | apply json_pure_no_obj; exact Hj ]. Qed.

(* ================================================================== *)
(* 5. the hypotheses are needed; the theorems are not vacuous            *)

(* [no_obj spec] is needed: a spec value that forges the marker of a nested path (a tuple headed by the object VObj 1)
   around a path term that cannot be built -- DataPath("a").length().length() raises ValueError -- is decoded by lit_n
   into a list display holding that path; the parsed condition is then not == to itself (DataPath.__eq__ cannot be
   evaluated in the model: arg1_eqb answers false when mk_path fails).  The spec is wf_val.  Not a defect of the
   library: a real spec holds no such object (the marker is an artefact of the model of from_spec). *)
Definition forged_pt : pathterm pyval :=
  {| pt_parts := [PtPrim (VStr "a")]; pt_mods := ["length"; "length"]; pt_src := None |}.
Definition forged_spec : pyval := VDict [(VStr "value.in", VList [inert_n forged_pt; VInt 1])].
Example C16N_forged_marker_counterexample :
  wf_val forged_spec = true /\ no_obj forged_spec = false /\
  match condn_from_spec forged_spec with Ok (_, c) => condn_eqb c c | Err _ => true end = false.
Proof. repeat split; vm_compute; reflexivity. Qed.

(* [wf_val spec] is needed as for the arg1 instance (C16ReparseProof.bad_spec) *)
Example C16N_reparse_cond_counterexample_wf : wf_val bad_spec = false /\ no_obj bad_spec = true /\
  match condn_from_spec bad_spec with Ok (_, c) => condn_eqb c c | Err _ => true end = false.
Proof. repeat split; vm_compute; reflexivity. Qed.

(* a spec with nested paths in a list argument, in a mapping argument, next to plain and top-level path arguments *)
Definition exn_cond : pyval :=
  VDict [(VStr "and", VList [
    VDict [(VStr "value.in", VList [VDict [(VStr "path", VList [VStr "a"])]; VInt 1])];
    VDict [(VStr "value.equal_to", VDict [(VStr "x", VDict [(VStr "path.length", VList [VStr "b"])]); (VStr "y", VInt 2)])];
    VDict [(VStr "value.equal_to", VDict [(VStr "path", VList [VStr "a"; VInt 1])])];
    VDict [(VStr "value.in_range", VDict [(VStr "lower", VInt 1); (VStr "upper", VDict [(VStr "path", VList [VStr "c"])])])];
    VDict [(VStr "value.in", VList [VInt 1; VInt 2])] ])].
Example exn_cond_parses : wf_val exn_cond = true /\ no_obj exn_cond = true /\
  match condn_from_spec exn_cond with Ok (_, c) => condn_eqb c c | Err _ => false end = true.
Proof. repeat split; vm_compute; reflexivity. Qed.

(* the normalisation of narg_eqb: a display without paths IS the literal container; both are in the domain *)
Example norm_example :
  narg_eqb (NItems false [ALit (VInt 1); ALit (VInt 2)]) (NA (ALit (VList [VInt 1; VInt 2]))) = true
  /\ narg_eqb (NA (ALit (VList [VInt 1; VInt 2]))) (NItems false [ALit (VInt 1); ALit (VInt 2)]) = true
  /\ narg_eqb (NItems true [ALit (VInt 1); ALit (VInt 2)]) (NA (ALit (VList [VInt 1; VInt 2]))) = false.
Proof. repeat split; vm_compute; reflexivity. Qed.

(* a mapping display with two == keys (1 and True) is outside the domain, and not == to itself *)
Example ndict_dup_keys_counterexample :
  narg_eqb (NDict [(VInt 1, APath 0%N (ex_key_path "a")); (VBool true, ALit (VInt 2))])
           (NDict [(VInt 1, APath 0%N (ex_key_path "a")); (VBool true, ALit (VInt 2))]) = false.
Proof. vm_compute. reflexivity. Qed.

(* ================================================================== *)
(* 6. the entry points of RunNestedEq.v                                  *)
From Valida Require Import RunNestedEq.

(* from_spec twice on a well-formed spec without objects: whenever the parse succeeds the answer is True *)
Theorem run_reparse_condn_spec spec r : wf_val spec = true -> no_obj spec = true ->
  run_reparse_condn spec = Ok r -> r = VBool true.
Proof.
  intros Hw Hn H. unfold run_reparse_condn in H. bs H r1 H1. bs H r2 H2. inversion H; subst.
  destruct r1 as [tm c]. destruct r2 as [tm' c']. cbn [snd].
  rewrite (C16N_reparse_cond spec tm c tm' c' Hw Hn H1 H2). reflexivity.
Qed.

(* ... and the second parse never fails when the first succeeded *)
Theorem run_reparse_condn_total spec tc : condn_from_spec spec = Ok tc -> exists r, run_reparse_condn spec = Ok r.
Proof. intros H. unfold run_reparse_condn. rewrite H. cbn [bind]. eexists. reflexivity. Qed.

Theorem run_condn_eq_refl_spec t c : build_n t = Ok c -> condn_ok c -> run_condn_eq t t = Ok (VBool true).
Proof.
  intros H Hok. unfold run_condn_eq. rewrite H. cbn [bind]. rewrite (C14N_rebuild t c c H H Hok). reflexivity.
Qed.

Theorem run_condn_eq_sym_spec a b ca cb : build_n a = Ok ca -> build_n b = Ok cb -> condn_ok ca -> condn_ok cb ->
  run_condn_eq a b = run_condn_eq b a.
Proof.
  intros Ha Hb Oa Ob. unfold run_condn_eq. rewrite Ha, Hb. cbn [bind]. rewrite (C14N_cond_sym ca cb Oa Ob). reflexivity.
Qed.

Theorem run_condn_eq_trans_spec a b c ca cb cc : build_n a = Ok ca -> build_n b = Ok cb -> build_n c = Ok cc ->
  condn_ok ca -> condn_ok cb -> condn_ok cc ->
  run_condn_eq a b = Ok (VBool true) -> run_condn_eq b c = Ok (VBool true) -> run_condn_eq a c = Ok (VBool true).
Proof.
  intros Ha Hb Hc Oa Ob Oc. unfold run_condn_eq. rewrite Ha, Hb, Hc. cbn [bind]. intros E1 E2.
  injection E1 as E1'. injection E2 as E2'.
  rewrite (C14N_cond_trans ca cb cc Oa Ob Oc E1' E2'). reflexivity.
Qed.

(* swapping the operands of a combination on either side never changes the answer *)
Theorem run_condn_eq_commute_spec o a b c : run_condn_eq (DBin o a b) c = Ok (VBool true) ->
  forall ca cb, build_n a = Ok ca -> build_n b = Ok cb -> is_null ca = false -> is_null cb = false ->
  run_condn_eq (DBin o b a) c = Ok (VBool true).
Proof.
  intros H ca cb Ha Hb Na Nb. unfold run_condn_eq in *. cbn [build_n] in *. rewrite Ha, Hb in *. cbn [bind] in *.
  unfold mk_bin in *. rewrite Na, Nb in *.
  destruct ((has_kind DKey ca || has_kind DKey cb) && (has_kind DIndex ca || has_kind DIndex cb)) eqn:E.
  - discriminate H.
  - rewrite (orb_comm (has_kind DKey cb)), (orb_comm (has_kind DIndex cb)), E. cbn [bind] in *.
    destruct (build_n c) as [cc|]; cbn [bind] in *; [ | discriminate H ].
    rewrite <- (C14N_cond_commute_l o ca cb cc). exact H.
Qed.

Print Assumptions run_reparse_condn_spec.
Print Assumptions run_condn_eq_refl_spec.
Print Assumptions run_condn_eq_sym_spec.
Print Assumptions run_condn_eq_trans_spec.
Print Assumptions run_condn_eq_commute_spec.
Print Assumptions narg_eqb_refl.
Print Assumptions narg_eqb_sym.
Print Assumptions narg_eqb_trans.
Print Assumptions C14N_cond_refl.
Print Assumptions C14N_cond_sym.
Print Assumptions C14N_cond_trans.
Print Assumptions C14N_cond_commute.
Print Assumptions C14N_cond_commute_l.
Print Assumptions C14N_cond_commute_r.
Print Assumptions build_n_buildable.
Print Assumptions C14N_rebuild.
Print Assumptions condn_from_spec_ok.
Print Assumptions C16N_reparse_cond.
Print Assumptions C16N_reparse_cond_json.
Print Assumptions C16N_forged_marker_counterexample.
