(* C16 for schema lists: parsing a list of rule specs into a Schema twice gives two schemas that are == ;
   the sort of Schema.__init__ is a stable sort by path length of exactly the parsed rules. *)
From Coq Require Import ZArith NArith List Bool String Arith Lia Sorting.Permutation Sorting.Sorted.
From Valida Require Import Py Lang Defs Cond Dsl Path Cast Str SpecDefs RuleDefs Rule Spec SpecIO Eq Inst RunSpec SchemaSpec.
From Valida.Proofs Require Import PyFacts C14Proof C16ReparseProof.
Import ListNotations.
Local Open Scope list_scope.

(* ---- the sort ---- *)
Lemma insert_plen_perm x l : Permutation (insert_plen x l) (x :: l).
Proof.
  induction l as [ | y ys IH ]; [ reflexivity | ]. cbn [insert_plen].
  destruct (Nat.ltb (plen y) (plen x)); [ | reflexivity ].
  transitivity (y :: x :: ys); [ apply perm_skip; exact IH | apply perm_swap ].
Qed.

Lemma sort_rules_perm l : Permutation (sort_rules l) l.
Proof.
  induction l as [ | x xs IH ]; [ reflexivity | ]. unfold sort_rules in *. cbn [fold_right].
  transitivity (x :: fold_right insert_plen [] xs); [ apply insert_plen_perm | apply perm_skip; exact IH ].
Qed.

Definition ple (a b : robj) : Prop := plen a <= plen b.

Lemma insert_plen_sorted x l : StronglySorted ple l -> StronglySorted ple (insert_plen x l).
Proof.
  induction l as [ | y ys IH ]; intros Hs.
  - cbn. constructor; constructor.
  - cbn [insert_plen]. inversion Hs as [ | ? ? Hys Hall ]; subst.
    destruct (Nat.ltb_spec (plen y) (plen x)) as [Hlt | Hge].
    + constructor; [ exact (IH Hys) | ]. rewrite Forall_forall. intros z Hz.
      apply (Permutation_in _ (insert_plen_perm x ys)) in Hz. destruct Hz as [<- | Hz].
      * unfold ple. lia.
      * rewrite Forall_forall in Hall. exact (Hall z Hz).
    + constructor; [ exact Hs | ]. constructor; [ exact Hge | ].
      rewrite Forall_forall in *. intros z Hz. specialize (Hall z Hz). unfold ple in *. lia.
Qed.

Lemma sort_rules_sorted l : StronglySorted ple (sort_rules l).
Proof.
  induction l as [ | x xs IH ]; [ constructor | ]. unfold sort_rules in *. cbn [fold_right].
  apply insert_plen_sorted. exact IH.
Qed.

(* stability: the rules of any one path length keep their relative order *)
Lemma insert_plen_filter n x l :
  filter (fun y => Nat.eqb (plen y) n) (insert_plen x l) = filter (fun y => Nat.eqb (plen y) n) (x :: l).
Proof.
  induction l as [ | y ys IH ]; [ reflexivity | ]. cbn [insert_plen].
  destruct (Nat.ltb_spec (plen y) (plen x)) as [Hlt | Hge]; [ | reflexivity ].
  cbn [filter] in *. rewrite IH.
  destruct (Nat.eqb_spec (plen y) n) as [Ey | Ny]; destruct (Nat.eqb_spec (plen x) n) as [Ex | Nx]; try reflexivity.
  exfalso. lia.
Qed.

Lemma sort_rules_stable n l :
  filter (fun y => Nat.eqb (plen y) n) (sort_rules l) = filter (fun y => Nat.eqb (plen y) n) l.
Proof.
  induction l as [ | x xs IH ]; [ reflexivity | ]. unfold sort_rules in *. cbn [fold_right].
  rewrite insert_plen_filter. cbn [filter]. rewrite IH. reflexivity.
Qed.

(* a list already in order is left as it is: sorting is idempotent (validate / add_schema sort again) *)
Lemma insert_plen_le x l : Forall (ple x) l -> insert_plen x l = x :: l.
Proof.
  destruct l as [ | y ys ]; [ reflexivity | ]. intros H. inversion H as [ | ? ? Hxy _ ]; subst. cbn [insert_plen].
  destruct (Nat.ltb_spec (plen y) (plen x)) as [Hlt | _]; [ unfold ple in Hxy; lia | reflexivity ].
Qed.

Lemma sort_rules_of_sorted l : StronglySorted ple l -> sort_rules l = l.
Proof.
  induction l as [ | x xs IH ]; [ reflexivity | ]. intros Hs. inversion Hs as [ | ? ? Hxs Hall ]; subst.
  unfold sort_rules in *. cbn [fold_right]. rewrite (IH Hxs). apply insert_plen_le. exact Hall.
Qed.

Theorem sort_rules_idempotent l : sort_rules (sort_rules l) = sort_rules l.
Proof. apply sort_rules_of_sorted. apply sort_rules_sorted. Qed.

(* ---- every parsed rule is == to itself ---- *)
Lemma robj_from_spec_self j x : wf_val j = true -> robj_from_spec j = Ok x ->
  rule_eqb T (fst x) (fst x) (snd x) (snd x) = true.
Proof.
  intros Hw H. unfold robj_from_spec in H.
  destruct (rule_from_spec T X j) as [[rt ex] | e] eqn:E1; cbn in H; [ | discriminate ].
  destruct (mk_rule T rt) as [r | e] eqn:E2; cbn in H; [ | discriminate ].
  injection H as <-. cbn [fst snd].
  exact (C16_reparse_rule j rt ex r rt ex r Hw E1 E2 E1 E2).
Qed.

Lemma mapM_robj_self l rs : forallb wf_val l = true -> mapM robj_from_spec l = Ok rs ->
  Forall (fun x => rule_eqb T (fst x) (fst x) (snd x) (snd x) = true) rs.
Proof.
  revert rs. induction l as [ | j js IH ]; intros rs Hw H.
  - cbn in H. injection H as <-. constructor.
  - cbn [forallb] in Hw. apply andb_true_iff in Hw as [Hj Hjs]. cbn [mapM] in H.
    destruct (robj_from_spec j) as [x | e] eqn:E1; cbn in H; [ | discriminate ].
    destruct (mapM robj_from_spec js) as [xs | e] eqn:E2; cbn in H; [ | discriminate ].
    injection H as <-. constructor; [ exact (robj_from_spec_self j x Hj E1) | exact (IH xs Hjs eq_refl) ].
Qed.

Lemma schema_objs_eqb_self s : Forall (fun x => rule_eqb T (fst x) (fst x) (snd x) (snd x) = true) s ->
  schema_objs_eqb s s = true.
Proof.
  induction s as [ | x xs IH ]; intros H; [ reflexivity | ]. inversion H as [ | ? ? Hx Hxs ]; subst.
  unfold schema_objs_eqb in *. cbn [list_eqb]. rewrite Hx, (IH Hxs). reflexivity.
Qed.

Lemma wf_list_items l : wf_val (VList l) = true -> forallb wf_val l = true.
Proof.
  intros H. exact H.
Qed.

(* Schema.from_json_like(l) == Schema.from_json_like(l), and likewise Schema(Schema.init_rules(l)) *)
Theorem C16_reparse_schema_list l s s' : wf_val (VList l) = true ->
  schema_of_specs l = Ok s -> schema_of_specs l = Ok s' -> schema_objs_eqb s' s = true.
Proof.
  intros Hw H1 H2. rewrite H1 in H2. injection H2 as <-.
  unfold schema_of_specs in H1. destruct (mapM robj_from_spec l) as [rs | e] eqn:E; cbn in H1; [ | discriminate ].
  injection H1 as <-. apply schema_objs_eqb_self.
  pose proof (mapM_robj_self l rs (wf_list_items l Hw) E) as Hall.
  rewrite Forall_forall in *. intros x Hx. apply Hall. exact (Permutation_in _ (sort_rules_perm rs) Hx).
Qed.

(* the model of Schema.__eq__ used here is the one C14 is stated for *)
Lemma schema_objs_eqb_is_c14 a b : schema_objs_eqb a b = schema_eqb T a b.
Proof. reflexivity. Qed.

(* the schema holds exactly the parsed rules, ordered by path length, the rules of one length in the order of the spec *)
Theorem C16_schema_list_order l s : schema_of_specs l = Ok s ->
  exists rs, mapM robj_from_spec l = Ok rs /\ Permutation s rs /\ StronglySorted ple s /\
             forall n, filter (fun y => Nat.eqb (plen y) n) s = filter (fun y => Nat.eqb (plen y) n) rs.
Proof.
  intros H. unfold schema_of_specs in H. destruct (mapM robj_from_spec l) as [rs | e] eqn:E; cbn in H; [ | discriminate ].
  injection H as <-. exists rs. split; [ reflexivity | ]. split; [ apply sort_rules_perm | ].
  split; [ apply sort_rules_sorted | ]. intros n. apply sort_rules_stable.
Qed.

(* not vacuous: three rules of path lengths 2, 1, 1 come out as 1, 1, 2 with the two of length 1 in spec order *)
Definition ex_rule (p : list pyval) (n : Z) : pyval :=
  VDict [(VStr "path", VList p); (VStr "condition", VDict [(VStr "value.equal_to", VInt n)])].
Definition ex_schema : list pyval := [ex_rule [VStr "a"; VStr "b"] 1; ex_rule [VStr "c"] 2; ex_rule [VStr "d"] 3].
Example ex_schema_parses : wf_val (VList ex_schema) = true /\
  match schema_of_specs ex_schema with
  | Ok s => (map plen s, schema_objs_eqb s s)
  | Err _ => ([], false)
  end = ([1; 1; 2], true).
Proof. split; vm_compute; reflexivity. Qed.
