(* Lemmas about Layer P used by the property proofs: which exception classes each operator
   can produce. *)
From Coq Require Import ZArith NArith List Bool String Lia.
From Valida Require Import Py Lang Defs DocSem.
Import ListNotations.
Local Open Scope string_scope.
Local Open Scope list_scope.

Lemma bind_err {A B} (r : res A) (f : A -> res B) e :
  bind r f = Err e -> r = Err e \/ exists a, r = Ok a /\ f a = Err e.
Proof. destruct r; cbn; intros H; [right; eauto | left; congruence]. Qed.

Lemma py_ord_err : forall o a b e, py_ord o a b = Err e -> e = TypeError.
Proof.
  intros o a. induction a using pyval_ind'; intros b' e0; destruct b'; cbn;
    try congruence;
    try (destruct (num_of _); congruence).
  - revert l0. induction H as [|x r Hx Hr IH]; intros [|y ys]; try congruence.
    destruct (py_eq x y); [apply IH | apply Hx].
  - revert l0. induction H as [|x r Hx Hr IH]; intros [|y ys]; try congruence.
    destruct (py_eq x y); [apply IH | apply Hx].
Qed.

Lemma py_in_err x c e : py_in x c = Err e -> e = TypeError.
Proof. destruct c; cbn; try congruence. - destruct x; congruence. - destruct (py_hashable x); congruence. Qed.

Lemma keys_in_err x ks e : keys_in x ks = Err e -> e = TypeError.
Proof. unfold keys_in. destruct (py_hashable x); congruence. Qed.

Lemma range_bounds_err lo hi e : range_bounds lo hi = Err e -> e = TypeError.
Proof. unfold range_bounds. destruct lo, hi; cbn; congruence. Qed.

Lemma fl_round_err m ex e : fl_round m ex = Err e -> e = OverflowError.
Proof.
  unfold fl_round. destruct (Z.abs m =? 0)%Z; [congruence|].
  cbv zeta. destruct (Z.max _ _ <=? 0)%Z; [congruence|].
  match goal with |- (if ?c then _ else _) = _ -> _ => destruct c end; congruence.
Qed.

Lemma to_float_err v e : to_float v = Err e -> e = TypeError \/ e = OverflowError.
Proof.
  destruct v; cbn; try (intros H; left; congruence).
  all: intros H; right; eapply fl_round_err; eauto.
Qed.

Definition arith_err (e : exc) : Prop := e = TypeError \/ e = OverflowError.

Lemma float_sub_err a b e : float_sub a b = Err e -> arith_err e.
Proof.
  unfold float_sub. intros H.
  apply bind_err in H as [H|[x [_ H]]]; [eapply to_float_err; eauto|].
  apply bind_err in H as [H|[y [_ H]]]; [eapply to_float_err; eauto|].
  cbv zeta in H. apply bind_err in H as [H|[r [_ H]]]; [right; eapply fl_round_err; eauto|congruence].
Qed.

Lemma py_sub_err a b e : py_sub a b = Err e -> arith_err e.
Proof.
  unfold py_sub. intros H.
  repeat match type of H with context [match ?X with _ => _ end] => destruct X end;
    try discriminate H; try (apply float_sub_err in H; exact H); left; congruence.
Qed.

Lemma py_abs_err a e : py_abs a = Err e -> e = TypeError.
Proof. destruct a; cbn; congruence. Qed.

Definition mod_err (e : exc) : Prop :=
  e = TypeError \/ e = OverflowError \/ e = ZeroDivisionError \/ e = StrFormat.

Lemma float_mod_err a b e : float_mod a b = Err e -> mod_err e.
Proof.
  unfold float_mod, mod_err. intros H.
  apply bind_err in H as [H|[x [_ H]]]; [apply to_float_err in H as [H|H]; auto|].
  apply bind_err in H as [H|[y [_ H]]]; [apply to_float_err in H as [H|H]; auto|].
  destruct (fst y =? 0)%Z; [right; right; left; congruence|].
  cbv zeta in H. apply bind_err in H as [H|[r [_ H]]]; [right; left; eapply fl_round_err; eauto|congruence].
Qed.

Lemma py_mod_err a b e : py_mod a b = Err e -> mod_err e.
Proof.
  unfold py_mod. intros H.
  repeat match type of H with context [match ?X with _ => _ end] => destruct X end;
    try discriminate H; try (apply float_mod_err in H; exact H);
    unfold mod_err; injection H as <-; auto.
Qed.

Lemma py_isinstance_err : forall c v e, py_isinstance v c = Err e -> e = TypeError.
Proof.
  induction c using pyval_ind'; intros v e0; cbn; try congruence.
  induction H as [|x r Hx Hr IH]; [congruence|].
  intros H0. apply bind_err in H0 as [H0|[b [_ H0]]]; [eapply Hx; eauto|].
  destruct b; [congruence | apply IH; exact H0].
Qed.

Lemma py_iter_err v e : py_iter v = Err e -> e = TypeError.
Proof. destruct v; cbn; congruence. Qed.

Lemma mk_set_err l e : mk_set l = Err e -> e = TypeError.
Proof. unfold mk_set. destruct (forallb _ _); congruence. Qed.

Lemma py_len_err v e : py_len v = Err e -> e = TypeError.
Proof. destruct v; cbn; congruence. Qed.

Definition key_err (e : exc) : Prop := e = TypeError \/ e = AttributeError.

Lemma dict_keys_err d e : dict_keys d = Err e -> e = AttributeError.
Proof. destruct d; cbn; congruence. Qed.

Lemma has_key_err d k e : has_key d k = Err e -> key_err e.
Proof.
  unfold has_key. intros H. apply bind_err in H as [H|[ks [_ H]]].
  - right. eapply dict_keys_err; eauto.
  - left. eapply keys_in_err; eauto.
Qed.

Lemma any_res_err {X} (P : exc -> Prop) (f : X -> res bool) l e :
  (forall x e, f x = Err e -> P e) -> any_res f l = Err e -> P e.
Proof.
  intros Hf. induction l as [|x l IH]; cbn; [congruence|].
  intros H. apply bind_err in H as [H|[b [_ H]]]; [eapply Hf; eauto|]. destruct b; [congruence|auto].
Qed.
Lemma all_res_err {X} (P : exc -> Prop) (f : X -> res bool) l e :
  (forall x e, f x = Err e -> P e) -> all_res f l = Err e -> P e.
Proof.
  intros Hf. induction l as [|x l IH]; cbn; [congruence|].
  intros H. apply bind_err in H as [H|[b [_ H]]]; [eapply Hf; eauto|]. destruct b; [auto|congruence].
Qed.
Lemma sum_res_err {X} (P : exc -> Prop) (f : X -> res Z) l a e :
  (forall x e, f x = Err e -> P e) -> sum_res f l a = Err e -> P e.
Proof.
  intros Hf. revert a. induction l as [|x l IH]; intros a; cbn; [congruence|].
  intros H. apply bind_err in H as [H|[b [_ H]]]; [eapply Hf; eauto|eauto].
Qed.

Lemma count_keys_err d keys e : count_keys d keys = Err e -> key_err e.
Proof.
  unfold count_keys. intros H. apply bind_err in H as [H|[ks [_ H]]].
  - left. eapply py_iter_err; eauto.
  - apply bind_err in H as [H|[n [_ H]]]; [|congruence].
    eapply (sum_res_err key_err) in H; [exact H|].
    intros x e1 H1. apply bind_err in H1 as [H1|[b [_ H1]]]; [eapply has_key_err; eauto|congruence].
Qed.

Lemma py_getitem_str_err d k e : py_getitem d (VStr k) = Err e -> e = TypeError \/ e = KeyError.
Proof.
  destruct d; cbn; try (intros H; left; congruence).
  destruct (dict_look _ _); intros H; [congruence | right; congruence].
Qed.

Lemma items_match_err d items e : items_match d items = Err e -> e = TypeError.
Proof.
  induction items as [|[k v] items IH]; cbn; [congruence|].
  destruct (py_getitem d (VStr k)) as [x|e1] eqn:E.
  - destruct (negb (py_eq x v)); [congruence|exact IH].
  - apply py_getitem_str_err in E as [->| ->]; congruence.
Qed.

(* every way a documented comparison can be undefined on a datum *)
Definition sem_err (e : exc) : Prop :=
  e = TypeError \/ e = AttributeError \/ e = ZeroDivisionError \/ e = OverflowError \/ e = StrFormat.

Ltac se_type := left; reflexivity.

Lemma q_sem_err q d e : q_sem q d = Err e -> sem_err e.
Proof.
  unfold sem_err. destruct q; cbn [q_sem]; intros H; try congruence.
  all: try (apply py_ord_err in H; subst; auto; fail).
  all: try (apply py_in_err in H; subst; auto; fail).
  - unfold notb in H. apply bind_err in H as [H|[b [_ H]]]; [apply py_in_err in H; subst; auto|congruence].
  - apply bind_err in H as [H|[b [_ H]]]; [apply range_bounds_err in H; subst; auto|congruence].
  - apply bind_err in H as [H|[b [_ H]]]; [apply range_bounds_err in H; subst; auto|congruence].
  - apply bind_err in H as [H|[s [_ H]]]; [apply py_sub_err in H as [->| ->]; auto|].
    apply bind_err in H as [H|[a [_ H]]]; [apply py_abs_err in H; subst; auto|].
    apply py_ord_err in H; subst; auto.
  - apply bind_err in H as [H|[r [_ H]]]; [|congruence].
    apply py_mod_err in H as [->|[->|[->| ->]]]; auto.
  - apply bind_err in H as [H|[r [_ H]]]; [|congruence].
    apply py_mod_err in H as [->|[->|[->| ->]]]; auto.
  - apply py_isinstance_err in H; subst; auto.
  - apply has_key_err in H as [->| ->]; auto.
  - apply (any_res_err key_err) in H; [destruct H as [->| ->]; auto|]. intros; eapply has_key_err; eauto.
  - apply (all_res_err key_err) in H; [destruct H as [->| ->]; auto|]. intros; eapply has_key_err; eauto.
  - apply bind_err in H as [H|[c [_ H]]]; [apply count_keys_err in H as [->| ->]; auto|congruence].
  - apply bind_err in H as [H|[c [_ H]]]; [apply count_keys_err in H as [->| ->]; auto|].
    apply py_ord_err in H; subst; auto.
  - apply bind_err in H as [H|[c [_ H]]]; [apply count_keys_err in H as [->| ->]; auto|].
    apply py_ord_err in H; subst; auto.
  - apply bind_err in H as [H|[c [_ H]]]; [apply count_keys_err in H as [->| ->]; auto|congruence].
  - apply bind_err in H as [H|[c [_ H]]]; [apply count_keys_err in H as [->| ->]; auto|].
    apply py_ord_err in H; subst; auto.
  - apply bind_err in H as [H|[c [_ H]]]; [apply count_keys_err in H as [->| ->]; auto|].
    apply py_ord_err in H; subst; auto.
  - apply bind_err in H as [H|[dk [_ H]]]; [apply dict_keys_err in H; subst; auto|].
    apply bind_err in H as [H|[s1 [_ H]]]; [apply mk_set_err in H; subst; auto|].
    apply bind_err in H as [H|[s2 [_ H]]]; [apply mk_set_err in H; subst; auto|congruence].
  - apply bind_err in H as [H|[dk [_ H]]]; [apply dict_keys_err in H; subst; auto|].
    apply (all_res_err (fun e => e = TypeError)) in H; [subst; auto|]. intros; eapply py_isinstance_err; eauto.
  - apply items_match_err in H; subst; auto.
  - apply bind_err in H as [H|[dk [_ H]]]; [apply dict_keys_err in H; subst; auto|].
    apply bind_err in H as [H|[s1 [_ H]]]; [apply mk_set_err in H; subst; auto|].
    apply bind_err in H as [H|[s2 [_ H]]]; [apply mk_set_err in H; subst; auto|congruence].
  - apply bind_err in H as [H|[s2 [_ H]]]; [apply mk_set_err in H; subst; auto|].
    apply bind_err in H as [H|[dk [_ H]]]; [apply dict_keys_err in H; subst; auto|].
    apply bind_err in H as [H|[s1 [_ H]]]; [apply mk_set_err in H; subst; auto|congruence].
  - apply bind_err in H as [H|[s2 [_ H]]]; [apply mk_set_err in H; subst; auto|].
    apply bind_err in H as [H|[dk [_ H]]]; [apply dict_keys_err in H; subst; auto|].
    apply bind_err in H as [H|[s1 [_ H]]]; [apply mk_set_err in H; subst; auto|congruence].
Qed.
