(* C08: validation is read-only.  Every function a validation call can reach is abstracted by the
   translator (harness/readonly.py) to the operations of the aliasing analysis, with a summary; all
   summaries are re-checked here by computation, the entry points must have the summary "writes nothing
   it was given" (a private output buffer excepted), and the soundness theorem of the analysis
   (TaintProof.v) gives: no run of an entry point writes to an object owned by its caller. *)
From Coq Require Import List Bool String Arith Lia.
From Valida Require Import Taint.
From Valida.Gen Require Import ReadOnlyGen.
From Valida.Proofs Require Import TaintProof.
Import ListNotations.
Local Open Scope string_scope.
Local Open Scope list_scope.

(* the functions (or path variants "name#pathIofN" of one function) that stand for an entry point *)
Definition is_variant_of (e n : string) : bool := String.eqb n e || String.prefix (e ++ "#path") n.

Section Generic.
  Variable fs : list sfun.
  Variable entries priv : list string.

  (* nothing is assumed of the parameters, except the private output buffers *)
  Definition param_ok (pl : var * lvl) : bool := lvl_is_ext (snd pl) || existsb (String.eqb (fst pl)) priv.
  Definition levels_ok (s : sfun) : bool :=
    forallb param_ok (senv s) && Nat.eqb (List.length (af_params (sf_fun s))) (List.length (sf_levels s)).
  Definition entry_ok (e : string) : bool :=
    let vs := filter (fun s => is_variant_of e (af_name (sf_fun s))) fs in
    match vs with [] => false | _ => forallb levels_ok vs end.

  Hypothesis Hsafe : forallb safe_s fs = true.
  Hypothesis Hent : forallb entry_ok entries = true.

  Lemma aget_in : forall x a l, aget x a = l -> l <> Ext -> In (x, l) a.
  Proof.
    intros x a. induction a as [|[y m] a IH]; simpl; intros l H Hl; [congruence|].
    destruct (String.eqb_spec x y) as [->|Hne]; [left; congruence|right; auto].
  Qed.

  Lemma param_ok_private : forall x l, param_ok (x, l) = true -> l <> Ext -> In x priv.
  Proof.
    intros x l H Hl. unfold param_ok in H. apply orb_true_iff in H as [H|H].
    - destruct l; simpl in H; congruence.
    - apply existsb_exists in H as [y [Hin Hy]]. simpl in Hy. apply String.eqb_eq in Hy. subst y. exact Hin.
  Qed.

  Theorem entry_read_only_generic : forall s e,
    In s fs -> In e entries -> is_variant_of e (af_name (sf_fun s)) = true ->
    forall h e0 h' e' w,
    (forall l o, nth_error h l = Some o -> forall k, In k (kids o) -> k < List.length h) ->
    (forall x r, cget x e0 = Some (Some r) -> r < List.length h) ->
    (forall x r, In x priv -> cget x e0 = Some (Some r) -> forall k, reach h r k -> owned_at h k = false) ->
    crun (af_body (sf_fun s)) h e0 h' e' w ->
    Forall (fun l => owned_at h' l = false) w.
  Proof.
    intros s e Hs He Hv h e0 h' e' w Hc Hb Hp Hr.
    pose proof Hsafe as Hsafe'. rewrite forallb_forall in Hsafe'.
    pose proof Hent as Hent'. rewrite forallb_forall in Hent'. specialize (Hent' e He).
    unfold entry_ok in Hent'.
    assert (Hin : In s (filter (fun s0 => is_variant_of e (af_name (sf_fun s0))) fs)).
    { apply filter_In. split; assumption. }
    destruct (filter (fun s0 => is_variant_of e (af_name (sf_fun s0))) fs) as [|s1 rest] eqn:Ef; [contradiction|].
    rewrite forallb_forall in Hent'. specialize (Hent' s Hin).
    unfold levels_ok in Hent'. apply andb_true_iff in Hent' as [Hlv _]. rewrite forallb_forall in Hlv.
    apply (safe_s_sound_spelled s h e0 h' e' w (Hsafe' s Hs) Hc); [|exact Hr].
    intros x r Hx. split; [exact (Hb x r Hx)|]. split.
    - intros Hd k Hk.
      assert (Hi : In (x, Deep) (senv s)) by (apply aget_in; [exact Hd|discriminate]).
      apply (Hp x r); [|exact Hx|exact Hk].
      apply (param_ok_private x Deep (Hlv _ Hi)). discriminate.
    - intros Hd.
      assert (Hi : In (x, Shal) (senv s)) by (apply aget_in; [exact Hd|discriminate]).
      apply (Hp x r); [|exact Hx|apply reach_refl].
      apply (param_ok_private x Shal (Hlv _ Hi)). discriminate.
  Qed.
End Generic.

Lemma all_summaries_checked : forallb safe_s ro_funs = true.
Proof. vm_compute. reflexivity. Qed.

Lemma all_entries_ok : forallb (entry_ok ro_funs ro_private_out) ro_entries = true.
Proof. vm_compute. reflexivity. Qed.

Lemma nothing_unsummarised : ro_unsummarised = [].
Proof. reflexivity. Qed.

(* a function that stands for an entry point: no run of its body writes to an object the caller owns.
   The caller's heap is arbitrary (closed); the parameters are bound to arbitrary objects of it or to
   immutable values; only a private output buffer, if one is passed, is assumed not to be the caller's
   protected data. *)
Theorem entry_read_only : forall s e,
  In s ro_funs -> In e ro_entries -> is_variant_of e (af_name (sf_fun s)) = true ->
  forall h e0 h' e' w,
  (forall l o, nth_error h l = Some o -> forall k, In k (kids o) -> k < List.length h) ->
  (forall x r, cget x e0 = Some (Some r) -> r < List.length h) ->
  (forall x r, In x ro_private_out -> cget x e0 = Some (Some r) -> forall k, reach h r k -> owned_at h k = false) ->
  crun (af_body (sf_fun s)) h e0 h' e' w ->
  Forall (fun l => owned_at h' l = false) w.
Proof. exact (entry_read_only_generic ro_funs ro_entries ro_private_out all_summaries_checked all_entries_ok). Qed.

(* non-vacuity: Schema.validate and Rule.test are among the checked functions, with these summaries *)
Example validate_summary :
  map (fun s => (af_params (sf_fun s), sf_levels s)) (filter (fun s => String.eqb (af_name (sf_fun s)) "schema.Schema.validate") ro_funs)
  = [(["self"; "data"], [Ext; Ext])].
Proof. vm_compute. reflexivity. Qed.
Example rule_test_summary :
  map (fun s => (af_params (sf_fun s), sf_levels s)) (filter (fun s => String.eqb (af_name (sf_fun s)) "rules.Rule.test") ro_funs)
  = [(["self"; "data"; "_data_copy"], [Ext; Ext; Deep])].
Proof. vm_compute. reflexivity. Qed.
(* the functions that do write something they are given (called only with new objects by the checked callers) *)
Example writers :
  map (fun s => (af_name (sf_fun s), sf_levels s)) (filter (fun s => negb (forallb lvl_is_ext (sf_levels s))) ro_funs)
  = [("data.set_datum", [Deep; Ext; Ext]); ("rules.Rule.test", [Ext; Ext; Deep]); ("rules.RuleTest._test", [Shal])].
Proof. vm_compute. reflexivity. Qed.

Print Assumptions entry_read_only.
