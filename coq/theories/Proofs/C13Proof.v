(* C13: a rule / schema written by to_json_like, pushed through JSON text and rebuilt by
   from_json_like is the original: equal, and with the same validity, failures and cast data on
   every document; rules that declare casts included.

   Contents
   1. json_pure_norm: pure JSON data is unchanged by json.loads(json.dumps(.)) (json_norm);
      cond1_from_spec_build1: the DSL term Rule.from_spec keeps for the condition builds (build1)
      to exactly the condition the parser built (for EVERY spec, data-path arguments included).
   2. C13_casts, C13_casts_absent, C13_casts_names: the cast block, both directions, all of
      CAST_LOOKUP / CAST_DTYPE_LOOKUP; fragment casts_in_c13.
   3. path_roundtrips: the hypothesis on the rule's path (the path round trip is C12's; the rule
      theorems are parametric in it); simple_path_roundtrips: it holds for paths of primitive parts
      and MapValue() / ListValue() / MapOrListValue() without conditions (a label is allowed).
   4. C13_rule_roundtrip_gen: any rule term whose path and condition round-trip (path_roundtrips,
      cond_roundtrips); C13_rule_roundtrip (+ C13_rule_same_behaviour, C13_rule_eq): rules whose
      condition is a DSL tree of the C11 fragment (tree_in_c11).
   5. C13_schema_roundtrip (+ C13_schema_same_behaviour, C13_schema_eq): lists of such rules.
   6. examples evaluated by the model; 7. counterexamples outside the fragment.

   Remarks on the library (see the counterexamples in section 7):
   - REPAIRED: Rule.to_json_like writes the path with to_part_specs, which cannot carry a modifier
     (.length(), .first() ...) or source data; they used to be lost silently.  Now such a rule is
     refused with ValueError (C13_modified_rule_refused, C13_modified_rule_ValueError,
     C13_repaired_path_modifier / _path_source); these paths stay outside path_roundtrips.
   - a `cast` mapping outside CAST_LOOKUP (e.g. {bool: int}) is written but cannot be read back
     (MalformedRuleSpec); a from-type without a name (e.g. float) makes to_json_like raise KeyError.
   - `doc` is not written by Rule.to_json_like: the rebuilt rule has doc=None (rx_doc ex = VNone in
     C13_rule_roundtrip); Rule.__eq__ and validation do not look at doc.
   - Schema.__init__ sorts the rules; the schema theorems hold for every list of rules (so for the
     sorted one), the rebuilt list is the same list, and `validate` sorts it again itself. *)
From Coq Require Import ZArith NArith List Bool String Ascii Lia.
From Valida Require Import Py Lang Defs Cond Dsl Check DocSem Path Cast Str SpecDefs RuleDefs RuleTerms
  Spec SpecIO Eq Inst RunSpec Rule SpecSpell.
From Valida.Proofs Require Import PyFacts Tie C01Proof C02Proof RuleProof C09Proof C11Proof C14Proof.
Import ListNotations.
Local Open Scope string_scope.
Local Open Scope list_scope.

(* ================================================================== *)
(* 1. JSON text; the condition term kept by Rule.from_spec builds the parsed condition *)

Lemma bind_ok {A B} (r : res A) (k : A -> res B) y : bind r k = Ok y -> exists x, r = Ok x /\ k x = Ok y.
Proof. destruct r as [x|e]; cbn [bind]; intros H; [exists x; auto|discriminate H]. Qed.

(* pure JSON data is a fixed point of json.loads(json.dumps(.)) *)
Lemma json_pure_norm : forall v, json_pure v = true -> json_norm v = Some v.
Proof.
  induction v as [ | b | z | n m e | s | l IHl | l IHl | d IHd | t | t ] using pyval_ind'; intros Hp;
    try reflexivity; try discriminate Hp.
  - cbn [json_pure] in Hp. cbn [json_norm].
    match goal with |- option_map _ ?e = _ => assert (G : e = Some l); [|rewrite G; reflexivity] end.
    induction IHl as [|x r Hx _ IH]; [reflexivity|].
    cbn [forallb] in Hp. apply andb_true_iff in Hp as [H1 H2].
    rewrite (Hx H1), (IH H2). reflexivity.
  - cbn [json_norm].
    match goal with |- option_map _ ?e = _ => assert (G : e = Some d); [|rewrite G; reflexivity] end.
    induction IHd as [|[k x] r [_ Hx] _ IH]; [reflexivity|].
    cbn [json_pure] in Hp. destruct k; try discriminate Hp.
    apply andb_true_iff in Hp as [H1 H2]. cbn [snd] in Hx.
    rewrite (Hx H1), (IH H2). reflexivity.
Qed.

(* ---- a data path the spec parser returns can be built ---- *)

Definition path_builds (p : pathterm pyval) : Prop := exists d, mk_path T id0 p = Ok d.

Definition go_mods (t : pathterm pyval) :=
  fix go (ms done : list string) : res (pathterm pyval + pyval) :=
    match ms with
    | [] => Ok (inl {| pt_parts := pt_parts t; pt_mods := done; pt_src := None |})
    | m :: r =>
        if negb (existsb (String.eqb m) (sx_allowed_suffixes X)) then Err MalformedPath
        else
          let t' := {| pt_parts := pt_parts t; pt_mods := done ++ [m]; pt_src := None |} in
          let* _ := mk_path T id0 t' in go r (done ++ [m])
    end.

Lemma go_mods_builds t : forall ms done p,
  path_builds {| pt_parts := pt_parts t; pt_mods := done; pt_src := None |} ->
  go_mods t ms done = Ok (inl p) -> path_builds p.
Proof.
  induction ms as [|m r IH]; intros done p Hd H; cbn [go_mods] in H.
  - injection H as <-. exact Hd.
  - destruct (negb (existsb (String.eqb m) (sx_allowed_suffixes X))); [discriminate H|].
    cbv zeta in H. apply bind_ok in H as [d [Hm H]].
    apply (IH (done ++ [m]) p); [exists d; exact Hm|exact H].
Qed.

Lemma pfs0_builds cond0 spec p : path_from_spec0 T X cond0 spec = Ok (inl p) -> path_builds p.
Proof.
  unfold path_from_spec0. destruct spec as [| | | | | |d| | |]; try discriminate.
  destruct d as [|[k0 v0] rest]; [discriminate|].
  cbv zeta. intros H. apply bind_ok in H as [[d' esc] [_ H]].
  destruct esc; [discriminate H|]. destruct rest; [|discriminate H].
  destruct k0 as [| | | |key| | | | |]; try discriminate H.
  match type of H with (if ?c then _ else _) = _ => destruct c end; [discriminate H|].
  apply bind_ok in H as [parts [_ H]]. apply bind_ok in H as [t [Ht H]].
  unfold path_from_part_specs in Ht. apply bind_ok in Ht as [ps [_ Ht]]. cbv zeta in Ht.
  apply bind_ok in Ht as [d [Hd Ht]]. injection Ht as <-.
  refine (go_mods_builds _ _ [] p _ H). exists d. exact Hd.
Qed.

Lemma pfs_builds spec p : pfs spec = Ok (inl p) -> path_builds p.
Proof. apply pfs0_builds. Qed.

(* ---- arguments the parser produces pass build1's argument check ---- *)

Definition sum_good (x : pathterm pyval + pyval) : Prop := match x with inl p => path_builds p | inr _ => True end.

Lemma try_path_good v x : try_path pfs v = Ok x -> sum_good x.
Proof.
  unfold try_path. destruct (pfs v) as [[p|d]|e] eqn:E.
  - intros H. injection H as <-. exact (pfs_builds _ _ E).
  - intros H. injection H as <-. exact I.
  - destruct e; try discriminate. intros H. injection H as <-. exact I.
Qed.

Lemma coerce_items_good l : forall xs, coerce_items pfs l = Ok xs -> Forall sum_good xs.
Proof.
  induction l as [|v r IH]; cbn [coerce_items]; intros xs H.
  - injection H as <-. constructor.
  - apply bind_ok in H as [x [Hx H]]. apply bind_ok in H as [ys [Hy H]]. injection H as <-.
    constructor; [exact (try_path_good _ _ Hx)|exact (IH _ Hy)].
Qed.

Lemma coerce_kvs_good l : forall xs, coerce_kvs pfs l = Ok xs -> Forall (fun kx => sum_good (snd kx)) xs.
Proof.
  induction l as [|[k v] r IH]; cbn [coerce_kvs]; intros xs H.
  - injection H as <-. constructor.
  - apply bind_ok in H as [x [Hx H]]. apply bind_ok in H as [ys [Hy H]]. injection H as <-.
    constructor; [exact (try_path_good _ _ Hx)|exact (IH _ Hy)].
Qed.

Definition coerced_good (c : coerced) : Prop :=
  match c with
  | CPath p => path_builds p
  | CVal _ => True
  | CDict items => Forall (fun kx => sum_good (snd kx)) items
  | CSeq _ items => Forall sum_good items
  end.

Lemma Forall_inr_kv (d : list (pyval * pyval)) :
  Forall (fun kx : pyval * (pathterm pyval + pyval) => sum_good (snd kx)) (map (fun kv => (fst kv, inr (snd kv))) d).
Proof. induction d as [|kv d IH]; cbn [map]; constructor; [exact I|exact IH]. Qed.

Lemma coerce_good v cv : coerce pfs v = Ok cv -> coerced_good cv.
Proof.
  unfold coerce. destruct v as [| | | | |l|l|d| |]; try (intros H; injection H as <-; exact I).
  - intros H. apply bind_ok in H as [items [Hi H]]. injection H as <-. exact (coerce_items_good _ _ Hi).
  - intros H. apply bind_ok in H as [u [_ H]]. injection H as <-. cbn [coerced_good].
    clear. induction l as [|v l IH]; cbn [map]; constructor; [exact I|exact IH].
  - destruct (pfs (VDict d)) as [[p|d']|e] eqn:E.
    + intros H. injection H as <-. exact (pfs_builds _ _ E).
    + destruct d'; intros H; injection H as <-; try exact I. apply Forall_inr_kv.
    + destruct e; try discriminate. intros H. apply bind_ok in H as [items [Hi H]]. injection H as <-.
      exact (coerce_kvs_good _ _ Hi).
Qed.

Definition arg_good (a : arg1) : Prop := check_arg T a = Ok tt.

Lemma item_arg_good x : sum_good x -> arg_good (item_arg arg1 ALit (APath 0%N) x).
Proof.
  destruct x as [p|v]; cbn [sum_good item_arg]; intros H; [|reflexivity].
  destruct H as [d Hd]. unfold arg_good. cbn [check_arg]. rewrite Hd. reflexivity.
Qed.

Lemma check_args_good l : Forall arg_good l -> check_args T l = Ok tt.
Proof.
  induction 1 as [|a l Ha _ IH]; cbn [check_args]; [reflexivity|]. unfold arg_good in Ha. rewrite Ha. exact IH.
Qed.

Lemma check_kw_good l : Forall (fun ka => arg_good (snd ka)) l -> check_kw T l = Ok tt.
Proof.
  induction 1 as [|[k a] l Ha _ IH]; cbn [check_kw]; [reflexivity|]. unfold arg_good in Ha. cbn [snd] in Ha. rewrite Ha. exact IH.
Qed.

Lemma map_item_arg_good items : Forall sum_good items -> Forall arg_good (map (item_arg arg1 ALit (APath 0%N)) items).
Proof. induction 1 as [|x l Hx _ IH]; cbn [map]; constructor; [exact (item_arg_good _ Hx)|exact IH]. Qed.

Lemma kw_of_good items : Forall (fun kx => sum_good (snd kx)) items ->
  forall k, kw_of arg1 ALit (APath 0%N) items = Ok k -> Forall (fun ka => arg_good (snd ka)) k.
Proof.
  induction 1 as [|[kk x] l Hx _ IH]; cbn [kw_of]; intros k H.
  - injection H as <-. constructor.
  - destruct kk; try discriminate H. apply bind_ok in H as [rest [Hr H]]. injection H as <-.
    constructor; [exact (item_arg_good _ Hx)|exact (IH _ Hr)].
Qed.

Lemma coerced_val_good cv : coerced_good cv -> arg_good (coerced_val arg1 ALit (APath 0%N) inert0 cv).
Proof.
  destruct cv as [p|v|items|tup items]; cbn [coerced_good coerced_val]; intros H; try reflexivity.
  destruct H as [d Hd]. unfold arg_good. cbn [check_arg]. rewrite Hd. reflexivity.
Qed.

Lemma dispatch_good ct cv b pos kw : coerced_good cv -> dispatch1 ct cv b = Ok (pos, kw) ->
  check_args T pos = Ok tt /\ check_kw T kw = Ok tt.
Proof.
  intros Hg. unfold dispatch. cbv zeta.
  repeat match goal with |- (if ?c then _ else _) = _ -> _ => destruct c end.
  - intros H. injection H as <- <-. split; reflexivity.
  - intros H. injection H as <- <-. split; [|reflexivity].
    apply check_args_good. constructor; [exact (coerced_val_good _ Hg)|constructor].
  - destruct cv as [p|v|items|tup items]; try discriminate; cbn [coerced_good] in Hg.
    + intros H. apply bind_ok in H as [k [Hk H]]. injection H as <- <-. split; [reflexivity|].
      exact (check_kw_good _ (kw_of_good _ Hg _ Hk)).
    + intros H. injection H as <- <-. split; [|reflexivity]. exact (check_args_good _ (map_item_arg_good _ Hg)).
  - destruct cv as [p|v|items|tup items]; try discriminate; cbn [coerced_good] in Hg.
    destruct tup; try discriminate.
    intros H. injection H as <- <-. split; [|reflexivity]. exact (check_args_good _ (map_item_arg_good _ Hg)).
  - destruct cv as [p|v|items|tup items]; try discriminate; cbn [coerced_good] in Hg.
    intros H. apply bind_ok in H as [k [Hk H]]. injection H as <- <-. split; [reflexivity|].
    exact (check_kw_good _ (kw_of_good _ Hg _ Hk)).
  - discriminate.
Qed.

Lemma leaf_tail_build1 k call ct v2 tm c : leaf_tail k call ct v2 = Ok (tm, c) -> build1 T tm = Ok c.
Proof.
  unfold leaf_tail. intros H. apply bind_ok in H as [cv [Hcv H]]. apply bind_ok in H as [[pos kw] [Hd H]].
  apply bind_ok in H as [l [Hl H]]. injection H as <- <-.
  destruct (dispatch_good _ _ _ _ _ (coerce_good _ _ Hcv) Hd) as [H1 H2].
  cbn [build1]. rewrite H1, H2. cbn [bind]. change (lit1) with (fun v => ALit v).
  change (build_leaf T (fun v => ALit v)) with (build_leaf T ALit). rewrite Hl. reflexivity.
Qed.

Lemma run_head_build1 h v tm c : run_head h v = Ok (tm, c) -> build1 T tm = Ok c.
Proof.
  destruct h as [|c1 e|c1 c2|k c1 call c2 ct]; cbn [run_head]; intros H.
  - discriminate H.
  - apply bind_ok in H as [x [_ H]]. discriminate H.
  - apply bind_ok in H as [x [_ H]]. apply bind_ok in H as [y [_ H]]. discriminate H.
  - apply bind_ok in H as [x [_ H]]. apply bind_ok in H as [y [_ H]]. exact (leaf_tail_build1 _ _ _ _ _ _ H).
Qed.

Section Step.
  Variable self : pyval -> res (dslc arg1 * cond arg1).
  Hypothesis self_ok : forall s tm c, self s = Ok (tm, c) -> build1 T tm = Ok c.

  Definition fold_bin (o : bop) :=
    fix fold (items : list pyval) (acc : dslc arg1 * cond arg1) : res (dslc arg1 * cond arg1) :=
      match items with
      | [] => Ok acc
      | i :: r =>
          let* (ti, ci) := self i in
          let* c := mk_bin o (snd acc) ci in
          fold r (DBin o (fst acc) ti, c)
      end.

  Lemma fold_bin_build1 o : forall items acc tm c,
    build1 T (fst acc) = Ok (snd acc) -> fold_bin o items acc = Ok (tm, c) -> build1 T tm = Ok c.
  Proof.
    induction items as [|i r IH]; intros acc tm c Ha H; cbn [fold_bin] in H.
    - injection H as ->. exact Ha.
    - apply bind_ok in H as [[ti ci] [Hi H]]. apply bind_ok in H as [c' [Hc H]].
      apply (IH _ _ _) in H; [exact H|]. cbn [fst snd build1]. rewrite Ha, (self_ok _ _ _ Hi). cbn [bind]. exact Hc.
  Qed.

  Lemma step1_build1 spec tm c : step1 self spec = Ok (tm, c) -> build1 T tm = Ok c.
  Proof.
    unfold cond_from_spec_step. destruct (negb (py_truthy spec)).
    - intros H. injection H as <- <-. reflexivity.
    - destruct spec as [| | | | | |d| | |]; try discriminate.
      destruct d as [|[k v] [|kv2 rest]]; try discriminate.
      + destruct k as [| | | |key| | | | |]; try discriminate.
        destruct (assoc_str key (sx_binops X)) as [o|].
        * destruct v as [| | | | |items|items| | |]; try discriminate;
            intros H; exact (fold_bin_build1 o items (DNull, CNull) tm c eq_refl H).
        * rewrite parse_leaf_head. apply run_head_build1.
      + destruct k; discriminate.
  Qed.
End Step.

Lemma self1_build1 : forall f spec tm c, self1 f spec = Ok (tm, c) -> build1 T tm = Ok c.
Proof.
  induction f as [|f IH]; intros spec tm c H; [discriminate H|].
  rewrite self1_S in H. exact (step1_build1 _ IH _ _ _ H).
Qed.

(* the term Rule.from_spec keeps for the condition builds to the condition the parser built *)
Theorem cond1_from_spec_build1 spec tm c : cond1_from_spec T X spec = Ok (tm, c) -> build1 T tm = Ok c.
Proof. rewrite cond1_unfold. apply self1_build1. Qed.

(* ================================================================== *)
(* 2. casts                                                             *)

Definition cast_item (c : pytype * castfn) : res (pyval * pyval) :=
  match assoc_ty (fst c) (map (fun x => (snd x, fst x)) (sx_cast_dtype X)) with
  | None => Err KeyError
  | Some from_name =>
      match filter (fun e => match e with (_, _, f) => match f, snd c with
                               | CastStrBool, CastStrBool | CastStrInt, CastStrInt => true | _, _ => false end end) (sx_cast_lookup X) with
      | (_, to_t, _) :: _ =>
          match assoc_ty to_t (map (fun x => (snd x, fst x)) (sx_cast_dtype X)) with
          | Some to_name => Ok (VStr from_name, VStr to_name)
          | None => Err KeyError
          end
      | [] => Err KeyError
      end
  end.

Lemma cast_to_json_given casts :
  cast_to_json X casts true = let* items := mapM cast_item casts in Ok (VDict items).
Proof. reflexivity. Qed.

Definition parse_item (kv : pyval * pyval) : res (pytype * castfn) :=
  let* from_t := match fst kv with
                 | VStr s => match assoc_str s (sx_cast_dtype X) with Some t => Ok t | None => Err MalformedRule end
                 | _ => Err MalformedRule
                 end in
  let* to_t := match snd kv with
               | VStr s => match assoc_str s (sx_cast_dtype X) with Some t => Ok t | None => Err MalformedRule end
               | v => if py_hashable v then Err MalformedRule else Err TypeError
               end in
  match filter (fun e => match e with (a, b, _) => pytype_eqb a from_t && pytype_eqb b to_t end) (sx_cast_lookup X) with
  | (_, _, f) :: _ => Ok (from_t, f)
  | [] => Err MalformedRule
  end.

Lemma parse_casts_dict d : parse_casts X (Some (VDict d)) = let* l := mapM parse_item d in Ok (l, true).
Proof. reflexivity. Qed.

(* the cast entries a rule can carry through JSON: (from-type, function) pairs of CAST_LOOKUP *)
Definition cast_entry_ok (c : pytype * castfn) : bool :=
  existsb (fun e => match e with (a, _, f) => pytype_eqb a (fst c) && castfn_eqb f (snd c) end) (sx_cast_lookup X).

Definition casts_in_c13 (casts : list (pytype * castfn)) : bool := forallb cast_entry_ok casts.

Example casts_in_c13_ex : casts_in_c13 [(TStr, CastStrInt)] = true /\ casts_in_c13 [(TStr, CastStrBool)] = true
  /\ casts_in_c13 [] = true.
Proof. vm_compute. auto. Qed.

(* the written names of an entry *)
Definition type_name (t : pytype) : string :=
  match assoc_ty t (map (fun x => (snd x, fst x)) (sx_cast_dtype X)) with Some n => n | None => "" end.
Definition cast_target (f : castfn) : pytype :=
  match filter (fun e => match e with (_, _, f') => castfn_eqb f' f end) (sx_cast_lookup X) with
  | (_, to_t, _) :: _ => to_t | [] => TNone end.
Definition cast_pair (c : pytype * castfn) : pyval * pyval :=
  (VStr (type_name (fst c)), VStr (type_name (cast_target (snd c)))).

Lemma cast_item_ok c : cast_entry_ok c = true -> cast_item c = Ok (cast_pair c).
Proof. destruct c as [t f]; destruct t, f; intros H; try discriminate H; vm_compute; reflexivity. Qed.

Lemma parse_item_names c : cast_entry_ok c = true -> parse_item (cast_pair c) = Ok c.
Proof. destruct c as [t f]; destruct t, f; intros H; try discriminate H; vm_compute; reflexivity. Qed.

Lemma mapM_cast_item casts : casts_in_c13 casts = true -> mapM cast_item casts = Ok (map cast_pair casts).
Proof.
  unfold casts_in_c13. induction casts as [|c l IH]; cbn [forallb mapM map]; [reflexivity|].
  intros H. apply andb_true_iff in H as [Hc Hl]. rewrite (cast_item_ok c Hc), (IH Hl). reflexivity.
Qed.

Lemma mapM_parse_item casts : casts_in_c13 casts = true -> mapM parse_item (map cast_pair casts) = Ok casts.
Proof.
  unfold casts_in_c13. induction casts as [|c l IH]; cbn [forallb mapM map]; [reflexivity|].
  intros H. apply andb_true_iff in H as [Hc Hl]. rewrite (parse_item_names c Hc), (IH Hl). reflexivity.
Qed.

Definition casts_json (casts : list (pytype * castfn)) : pyval := VDict (map cast_pair casts).

Lemma json_pure_casts casts : json_pure (casts_json casts) = true.
Proof. unfold casts_json. induction casts as [|c l IH]; [reflexivity|]. cbn [map cast_pair json_pure andb]. exact IH. Qed.

(* (2) the cast block round-trips: what is written is a pure {"<from>": "<to>"} mapping and it is
   read back as the same list of (type, function) entries, flagged as given *)
Theorem C13_casts : forall casts, casts_in_c13 casts = true ->
  cast_to_json X casts true = Ok (casts_json casts) /\ json_pure (casts_json casts) = true /\
  parse_casts X (Some (casts_json casts)) = Ok (casts, true).
Proof.
  intros casts H. split; [|split].
  - rewrite cast_to_json_given, (mapM_cast_item casts H). reflexivity.
  - apply json_pure_casts.
  - unfold casts_json. rewrite parse_casts_dict, (mapM_parse_item casts H). reflexivity.
Qed.

(* cast=None: `null` is written, and an absent / null block reads as "no casts, not given" *)
Theorem C13_casts_absent : forall casts,
  cast_to_json X casts false = Ok VNone /\ json_pure VNone = true /\
  parse_casts X (Some VNone) = Ok ([], false) /\ parse_casts X None = Ok ([], false).
Proof. intros casts. repeat split; reflexivity. Qed.

(* the other direction: names -> functions -> names.  Whatever block from_spec accepts holds
   only table entries, and is written back as the same mapping *)
Lemma assoc_str_In {Y} k (l : list (string * Y)) y : assoc_str k l = Some y -> In (k, y) l.
Proof.
  induction l as [|[a x] l IH]; cbn [assoc_str]; [discriminate|].
  destruct (String.eqb_spec a k) as [->|_]; intros H; [injection H as ->; left; reflexivity|right; exact (IH H)].
Qed.

Lemma parse_item_inv kv c : parse_item kv = Ok c -> cast_entry_ok c = true /\ cast_pair c = kv.
Proof.
  destruct kv as [k v]. unfold parse_item. cbn [fst snd]. intros H.
  apply bind_ok in H as [ft [Hf H]]. apply bind_ok in H as [tt' [Ht H]].
  destruct k as [| | | |s1| | | | |]; try discriminate Hf.
  destruct (assoc_str s1 (sx_cast_dtype X)) as [t1|] eqn:E1; [|discriminate Hf]. injection Hf as <-.
  destruct v as [| | | |s2| | | | |]; try (destruct (py_hashable _); discriminate Ht); try discriminate Ht.
  destruct (assoc_str s2 (sx_cast_dtype X)) as [t2|] eqn:E2; [|discriminate Ht]. injection Ht as <-.
  apply assoc_str_In in E1. apply assoc_str_In in E2.
  cbn in E1, E2.
  destruct E1 as [E1|[E1|[E1|[]]]]; injection E1 as <- <-;
  destruct E2 as [E2|[E2|[E2|[]]]]; injection E2 as <- <-; vm_compute in H; try discriminate H;
  injection H as <-; split; reflexivity.
Qed.

Theorem C13_casts_names : forall d casts,
  parse_casts X (Some (VDict d)) = Ok (casts, true) ->
  casts_in_c13 casts = true /\ cast_to_json X casts true = Ok (VDict d).
Proof.
  intros d casts. rewrite parse_casts_dict. intros H. apply bind_ok in H as [l [Hl H]]. injection H as <-.
  assert (G : casts_in_c13 l = true /\ map cast_pair l = d).
  { revert l Hl. induction d as [|kv d IH]; cbn [mapM]; intros l Hl.
    - injection Hl as <-. split; reflexivity.
    - apply bind_ok in Hl as [c [Hc Hl]]. apply bind_ok in Hl as [l' [Hl' Hl]]. injection Hl as <-.
      destruct (parse_item_inv _ _ Hc) as [H1 H2]. destruct (IH _ Hl') as [H3 H4].
      split; [unfold casts_in_c13; cbn [forallb]; rewrite H1; exact H3|cbn [map]; rewrite H2, H4; reflexivity]. }
  destruct G as [G1 G2]. split; [exact G1|].
  destruct (C13_casts l G1) as [H _]. rewrite H. unfold casts_json. rewrite G2. reflexivity.
Qed.

(* every entry of the generated tables, both ways (closed checks on CAST_LOOKUP / CAST_DTYPE_LOOKUP) *)
Example C13_cast_table_forward :
  forallb (fun e => match e with (a, b, f) =>
     match cast_to_json X [(a, f)] true with
     | Ok j => match parse_casts X (Some j) with
               | Ok ([(a', f')], true) => pytype_eqb a a' && castfn_eqb f f' && json_pure j
               | _ => false end
     | Err _ => false end end) (sx_cast_lookup X) = true.
Proof. vm_compute. reflexivity. Qed.

Example C13_cast_table_backward :
  forallb (fun n1 => forallb (fun n2 =>
     match parse_casts X (Some (VDict [(VStr (fst n1), VStr (fst n2))])) with
     | Ok (l, g) => g && match cast_to_json X l true with
                         | Ok j => py_eq j (VDict [(VStr (fst n1), VStr (fst n2))]) | Err _ => false end
     | Err e => match e with MalformedRule => true | _ => false end
     end) (sx_cast_dtype X)) (sx_cast_dtype X) = true.
Proof. vm_compute. reflexivity. Qed.

Example C13_casts_written :
  cast_to_json X [(TStr, CastStrInt)] true = Ok (VDict [(VStr "str", VStr "int")]) /\
  cast_to_json X [(TStr, CastStrBool)] true = Ok (VDict [(VStr "str", VStr "bool")]) /\
  cast_to_json X [] true = Ok (VDict []) /\ parse_casts X (Some (VDict [])) = Ok ([], true).
Proof. vm_compute. auto. Qed.

(* outside the table the block does not round-trip *)
Example C13_counterexample_cast_not_in_lookup :
  casts_in_c13 [(TBool, CastStrInt)] = false /\
  cast_to_json X [(TBool, CastStrInt)] true = Ok (VDict [(VStr "bool", VStr "int")]) /\
  parse_casts X (Some (VDict [(VStr "bool", VStr "int")])) = Err MalformedRule.
Proof. vm_compute. auto. Qed.

Example C13_counterexample_cast_unnamed_type :
  casts_in_c13 [(TFloat, CastStrInt)] = false /\ cast_to_json X [(TFloat, CastStrInt)] true = Err KeyError.
Proof. vm_compute. auto. Qed.

(* ================================================================== *)
(* 3. the path part: a parameter of the rule theorem                    *)

(* The hypothesis about the rule's path (proved in general by the path round trip, C12):
   the built path is written as a list of pure JSON part specs, these parse back to a path term,
   and that term builds the identical path object. *)
Definition path_roundtrips (t : pathterm pyval) : Prop :=
  forall p, mk_path T idlit t = Ok p ->
  exists specs t',
    path_to_part_specs T X p = Ok (VList specs) /\ json_pure (VList specs) = true /\
    from_part_specs T X specs = Ok t' /\ mk_path T idlit t' = Ok p.

(* ---- non-vacuity: the simple paths ---- *)

(* primitive parts (str / int / bool / float) and MapValue() / ListValue() / MapOrListValue()
   without conditions, bare or with a label (any pure JSON value: MapValue(label="x"));
   no modifier, no source data (a rule's path is written by to_part_specs,
   which refuses both: see C13_modified_path_refused at the end) *)
Definition label_ok (l : option pyval) : bool := match l with None => true | Some v => json_pure v && wf_val v end.
Definition label_item (l : option pyval) : list (pyval * pyval) :=
  match l with Some v => [(VStr "label", v)] | None => [] end.

Definition simple_pterm (t : pterm pyval) : bool :=
  match t with
  | PtPrim (VStr _) | PtPrim (VInt _) | PtPrim (VBool _) | PtPrim (VFloat _ _ _) => true
  | PtMap None None None l | PtList None None None l => label_ok l
  | PtMol None None None None None None l => label_ok l
  | _ => false
  end.

Definition simple_path (t : pathterm pyval) : bool :=
  forallb simple_pterm (pt_parts t)
  && match pt_mods t with [] => true | _ => false end
  && match pt_src t with None => true | Some _ => false end.

Example simple_path_ex :
  simple_path {| pt_parts := [PtPrim (VStr "a"); PtPrim (VInt 1); PtMap None None None None;
                              PtList None None None (Some (VStr "items")); PtMol None None None None None None (Some (VInt 3))];
                 pt_mods := []; pt_src := None |} = true.
Proof. vm_compute. reflexivity. Qed.

Definition sp_expl (t : pterm pyval) : bool := match t with PtPrim _ => false | _ => true end.
Definition sp_part (t : pterm pyval) : part pyval :=
  match mk_part T idlit t with Ok (p, _) => p | Err _ => PMap CNull None end.
Definition sp_simple (t : pterm pyval) : option pyval := match t with PtPrim v => Some v | _ => None end.
Definition sp_spec (t : pterm pyval) : pyval :=
  match t with
  | PtPrim v => v
  | PtMap _ _ _ l => VDict ((VStr "type", VStr "map_value") :: label_item l)
  | PtList _ _ _ l => VDict ((VStr "type", VStr "list_value") :: label_item l)
  | PtMol _ _ _ _ _ _ l => VDict ((VStr "type", VStr "map_or_list_value") :: label_item l)
  end.
Definition sp_back (t : pterm pyval) : pterm pyval :=
  match t with
  | PtPrim v => t
  | PtMap _ _ _ l => PtMap None None (Some (KCond DNull)) l
  | PtList _ _ _ l => PtList None None (Some (KCond DNull)) l
  | PtMol _ _ _ _ _ _ l => PtMol None None None (Some (KCond DNull)) (Some (KCond DNull)) (Some (KCond DNull)) l
  end.

Ltac sp_cases t H :=
  destruct t as [v|k v c l|k v c l|k i v lc mc c l]; cbn [simple_pterm] in H;
  [ destruct v; try discriminate H
  | destruct k; try discriminate H; destruct v; try discriminate H; destruct c; try discriminate H; destruct l as [lv|]; cbn [label_ok] in H; [apply andb_true_iff in H as [H Hwf]|]
  | destruct k; try discriminate H; destruct v; try discriminate H; destruct c; try discriminate H; destruct l as [lv|]; cbn [label_ok] in H; [apply andb_true_iff in H as [H Hwf]|]
  | destruct k; try discriminate H; destruct i; try discriminate H; destruct v; try discriminate H;
    destruct lc; try discriminate H; destruct mc; try discriminate H; destruct c; try discriminate H; destruct l as [lv|]; cbn [label_ok] in H; [apply andb_true_iff in H as [H Hwf]|] ].

Lemma sp_mk_part t : simple_pterm t = true -> mk_part T idlit t = Ok (sp_part t, sp_expl t).
Proof. intros H. sp_cases t H; vm_compute; reflexivity. Qed.

Lemma sp_mk_back t : simple_pterm t = true -> mk_part T idlit (sp_back t) = Ok (sp_part t, sp_expl t).
Proof. intros H. sp_cases t H; vm_compute; reflexivity. Qed.

Lemma sp_simple_of t : simple_pterm t = true -> simple_of (sp_part t) = Ok (sp_simple t).
Proof.
  intros H. sp_cases t H; try (vm_compute; reflexivity);
    cbv -[py_eq]; rewrite py_eq_refl_wf by reflexivity; reflexivity.
Qed.

Lemma sp_to_spec t : simple_pterm t = true ->
  match sp_simple t with Some v => Ok v | None => part_to_spec T X (sp_part t) end = Ok (sp_spec t).
Proof. intros H. sp_cases t H; vm_compute; reflexivity. Qed.

Lemma sp_spec_pure t : simple_pterm t = true -> json_pure (sp_spec t) = true.
Proof. intros H. sp_cases t H; try reflexivity; cbn [sp_spec label_item json_pure andb]; rewrite H; reflexivity. Qed.

Definition not_dict (s : pyval) : bool := match s with VDict _ => false | _ => true end.

Lemma sp_spec_dict t : simple_pterm t = true -> not_dict (sp_spec t) = negb (sp_expl t).
Proof. intros H. sp_cases t H; reflexivity. Qed.

Notation cond0_40 := (cond0_from_spec T X spec_fuel).

Lemma sp_parse t r : simple_pterm t = true ->
  parts_from_specs T X cond0_40 (sp_spec t :: r) =
  let* ps := parts_from_specs T X cond0_40 r in Ok (sp_back t :: ps).
Proof.
  intros H. sp_cases t H; cbn [sp_spec sp_back parts_from_specs]; reflexivity.
Qed.

Definition sp_conc (ts : list (pterm pyval)) : bool := forallb (fun t => negb (sp_expl t)) ts.

Lemma sp_mk_parts ts : forallb simple_pterm ts = true -> mk_parts T idlit ts = Ok (map sp_part ts, sp_conc ts).
Proof.
  induction ts as [|t r IH]; cbn [forallb mk_parts map]; [reflexivity|].
  intros H. apply andb_true_iff in H as [Ht Hr]. rewrite (sp_mk_part t Ht), (IH Hr). reflexivity.
Qed.

Lemma sp_mk_parts_back ts : forallb simple_pterm ts = true ->
  mk_parts T idlit (map sp_back ts) = Ok (map sp_part ts, sp_conc ts).
Proof.
  induction ts as [|t r IH]; cbn [forallb mk_parts map]; [reflexivity|].
  intros H. apply andb_true_iff in H as [Ht Hr]. rewrite (sp_mk_back t Ht), (IH Hr). reflexivity.
Qed.

Lemma sp_simples ts : forallb simple_pterm ts = true -> mapM simple_of (map sp_part ts) = Ok (map sp_simple ts).
Proof.
  induction ts as [|t r IH]; cbn [forallb mapM map]; [reflexivity|].
  intros H. apply andb_true_iff in H as [Ht Hr]. rewrite (sp_simple_of t Ht), (IH Hr). reflexivity.
Qed.

Definition spec_item (ps : part pyval * option pyval) : res pyval :=
  match snd ps with Some v => Ok v | None => part_to_spec T X (fst ps) end.

Lemma sp_specs ts : forallb simple_pterm ts = true ->
  mapM spec_item (combine (map sp_part ts) (map sp_simple ts)) = Ok (map sp_spec ts).
Proof.
  induction ts as [|t r IH]; cbn [forallb mapM map combine]; [reflexivity|].
  intros H. apply andb_true_iff in H as [Ht Hr]. unfold spec_item at 1. cbn [fst snd].
  rewrite (sp_to_spec t Ht), (IH Hr). reflexivity.
Qed.

Lemma sp_not_dicts ts : forallb simple_pterm ts = true -> forallb not_dict (map sp_spec ts) = sp_conc ts.
Proof.
  induction ts as [|t r IH]; cbn [forallb map sp_conc]; [reflexivity|].
  intros H. apply andb_true_iff in H as [Ht Hr]. rewrite (sp_spec_dict t Ht). fold (sp_conc r). rewrite (IH Hr). reflexivity.
Qed.

Lemma sp_pure ts : forallb simple_pterm ts = true -> forallb json_pure (map sp_spec ts) = true.
Proof.
  induction ts as [|t r IH]; cbn [forallb map]; [reflexivity|].
  intros H. apply andb_true_iff in H as [Ht Hr]. rewrite (sp_spec_pure t Ht), (IH Hr). reflexivity.
Qed.

Lemma sp_parse_all ts : forallb simple_pterm ts = true ->
  parts_from_specs T X cond0_40 (map sp_spec ts) = Ok (map sp_back ts).
Proof.
  induction ts as [|t r IH]; cbn [forallb map]; [reflexivity|].
  intros H. apply andb_true_iff in H as [Ht Hr]. rewrite (sp_parse t _ Ht), (IH Hr). reflexivity.
Qed.

(* DataPath.to_part_specs() writes only a path without modifier and without source data *)
Definition path_plain (p : dpath pyval) : bool :=
  match p_dt p, p_mt p, p_src p with DtNone, MtNone, None => true | _, _, _ => false end.

Lemma path_to_part_specs_unfold (p : dpath pyval) : path_plain p = true ->
  path_to_part_specs T X p =
  let* simples := mapM simple_of (p_parts p) in
  let* specs := mapM spec_item (combine (p_parts p) simples) in
  if negb (p_concrete p) && forallb not_dict specs then
    match p_parts p, specs with
    | p0 :: _, _ :: rest => let* s0 := part_to_spec T X p0 in Ok (VList (s0 :: rest))
    | _, _ => Err IndexError
    end
  else Ok (VList specs).
Proof.
  unfold path_plain, path_to_part_specs, path_part_specs_inner.
  destruct (p_dt p), (p_mt p), (p_src p); intros H; try discriminate H; reflexivity.
Qed.

(* ... and refuses every other path (the repaired behaviour: nothing is dropped silently) *)
Lemma path_to_part_specs_refuses (p : dpath pyval) : path_plain p = false ->
  path_to_part_specs T X p = Err ValueError.
Proof.
  unfold path_plain, path_to_part_specs, path_part_specs_inner.
  destruct (p_dt p), (p_mt p), (p_src p); intros H; try discriminate H; reflexivity.
Qed.

Theorem simple_path_roundtrips t : simple_path t = true -> path_roundtrips t.
Proof.
  destruct t as [ts mods src]. unfold simple_path. cbn [pt_parts pt_mods pt_src]. intros H.
  apply andb_true_iff in H as [H Hs]. apply andb_true_iff in H as [Hts Hm].
  destruct mods; [|discriminate Hm]. destruct src; [discriminate Hs|].
  intros p Hp. unfold mk_path in Hp. cbn [pt_parts pt_mods pt_src] in Hp.
  rewrite (sp_mk_parts ts Hts) in Hp. cbn [bind apply_mods] in Hp. injection Hp as <-.
  exists (map sp_spec ts), {| pt_parts := map sp_back ts; pt_mods := []; pt_src := None |}.
  split; [|split; [|split]].
  - rewrite path_to_part_specs_unfold by reflexivity. cbn [p_parts p_concrete].
    rewrite (sp_simples ts Hts). cbn [bind]. rewrite (sp_specs ts Hts). cbn [bind].
    rewrite (sp_not_dicts ts Hts). destruct (sp_conc ts); reflexivity.
  - cbn [json_pure]. exact (sp_pure ts Hts).
  - unfold from_part_specs, path_from_part_specs. fold spec_fuel. rewrite (sp_parse_all ts Hts). cbn [bind].
    unfold mk_path. cbn [pt_parts pt_mods pt_src].
    change Spec.id0 with idlit. rewrite (sp_mk_parts_back ts Hts). reflexivity.
  - unfold mk_path. cbn [pt_parts pt_mods pt_src]. rewrite (sp_mk_parts_back ts Hts). reflexivity.
Qed.

(* ================================================================== *)
(* 4. rules                                                             *)

Lemma tree_in_c11_qtree_ok t : tree_in_c11 t = true -> qtree_ok t = true.
Proof.
  intros H. destruct (tree_in_c11_inv t H) as [Hl _]. revert Hl. unfold leaves_c11, qtree_ok.
  induction (qleaves t) as [|[c q] l IH]; cbn [forallb fst snd]; [reflexivity|].
  intros H'. apply andb_true_iff in H' as [H1 H2]. rewrite (IH H2), andb_true_r.
  destruct (leaf_in_c11_inv c q H1) as [Hc [_ [_ [Hw _]]]]. unfold class_ok in Hc. unfold q_wf in Hw.
  rewrite Hc, Hw. reflexivity.
Qed.

(* the condition a DSL tree of the fragment builds *)
Lemma build1_c11 q : tree_in_c11 q = true ->
  build1 T (dslc_map ALit (qterm q)) = Ok (cmapL (cond_of (qnorm q))).
Proof.
  intros H. rewrite build1_lit, (build_qterm q (tree_in_c11_qtree_ok q H)), (tree_in_c11_builds q H). reflexivity.
Qed.

Lemma get_path a b c : get_item (VDict [(VStr "condition", a); (VStr "cast", b); (VStr "path", c)]) "path" = Ok c.
Proof. reflexivity. Qed.
Lemma get_condition a b c : get_item (VDict [(VStr "condition", a); (VStr "cast", b); (VStr "path", c)]) "condition" = Ok a.
Proof. reflexivity. Qed.
Lemma get_cast a b c : get_opt (VDict [(VStr "condition", a); (VStr "cast", b); (VStr "path", c)]) "cast" = Some b.
Proof. reflexivity. Qed.
Lemma get_doc a b c : get_opt (VDict [(VStr "condition", a); (VStr "cast", b); (VStr "path", c)]) "doc" = None.
Proof. reflexivity. Qed.

Lemma json_pure_rule a b c :
  json_pure (VDict [(VStr "condition", a); (VStr "cast", b); (VStr "path", c)]) = json_pure a && (json_pure b && (json_pure c && true)).
Proof. reflexivity. Qed.

(* what Rule.to_json_like writes for the cast attribute *)
Definition cast_block (casts : list (pytype * castfn)) (given : bool) : pyval :=
  if given then casts_json casts else VNone.

(* `cast=None` carries no casts (the model keeps the list and the flag apart) *)
Definition flag_ok (casts : list (pytype * castfn)) (given : bool) : Prop := given = false -> casts = [].

Lemma cast_block_ok casts g : casts_in_c13 casts = true -> flag_ok casts g ->
  cast_to_json X casts g = Ok (cast_block casts g) /\ json_pure (cast_block casts g) = true /\
  parse_casts X (Some (cast_block casts g)) = Ok (casts, g).
Proof.
  intros Hc Hg. destruct g; cbn [cast_block].
  - exact (C13_casts casts Hc).
  - rewrite (Hg eq_refl). repeat split; reflexivity.
Qed.

(* the rule term: path term, DSL tree with literal arguments, casts *)
Definition c13_term (pt : pathterm pyval) (q : qtree) (casts : list (pytype * castfn)) : ruleterm :=
  {| rt_path_t := pt; rt_cond_t := dslc_map ALit (qterm q); rt_cast_t := casts |}.

(* the hypothesis on the rule's condition, in the same style as path_roundtrips: written as pure
   JSON data that parses back to the identical condition.  C11 proves it for the DSL trees of its
   fragment (c11_cond_roundtrips). *)
Definition cond_roundtrips (c : cond arg1) : Prop :=
  exists J tm, cond1_to_json T X c = Ok J /\ json_pure J = true /\ cond1_from_spec T X J = Ok (tm, c).

Lemma c11_cond_roundtrips q : tree_in_c11 q = true -> cond_roundtrips (cmapL (cond_of (qnorm q))).
Proof.
  intros Hq. destruct (C11_roundtrip_eq q _ Hq (tree_in_c11_builds q Hq)) as [Hj [Hjp [[tm Hs] _]]]. cbv zeta in Hj, Hs.
  exists (tree_json (qnorm q)), tm. auto.
Qed.

(* (1), general form: ANY rule term that builds, whose path and condition round-trip and whose
   casts are table entries.  What to_json_like writes is pure JSON data (so json.loads(json.dumps(.))
   returns it unchanged: json_pure_norm); from_spec reads it; the term it returns builds THE SAME
   rule object (path, condition and casts identical); the cast block is reported as given exactly
   when it was; doc is not written. *)
Theorem C13_rule_roundtrip_gen : forall rt g r,
  mk_rule T rt = Ok r ->
  path_roundtrips (rt_path_t rt) -> cond_roundtrips (r_cond r) ->
  casts_in_c13 (rt_cast_t rt) = true -> flag_ok (rt_cast_t rt) g ->
  exists j rt' ex,
    rule_to_json T X (r_path r) (r_cond r) (r_cast r) g = Ok j /\ json_pure j = true /\
    rule_from_spec T X j = Ok (rt', ex) /\
    mk_rule T rt' = Ok r /\ rx_cast_given ex = g /\ rx_doc ex = VNone.
Proof.
  intros [pt ct casts] g r Hr Hp Hcr Hc Hg. cbn [rt_path_t rt_cast_t] in Hp, Hc, Hg.
  unfold mk_rule in Hr. cbn [rt_path_t rt_cond_t rt_cast_t] in Hr.
  apply bind_ok in Hr as [p [Hmk Hr]]. apply bind_ok in Hr as [c [Hb Hr]]. injection Hr as <-.
  cbn [r_path r_cond r_cast] in *.
  destruct Hcr as [J [tm [Hj [Hjp Hs]]]].
  destruct (Hp p Hmk) as [specs [t' [Hps [Hpp [Hfs Hmk']]]]].
  destruct (cast_block_ok casts g Hc Hg) as [Hk [Hkp Hkr]].
  exists (VDict [(VStr "condition", J); (VStr "cast", cast_block casts g); (VStr "path", VList specs)]).
  exists {| rt_path_t := t'; rt_cond_t := tm; rt_cast_t := casts |}, {| rx_doc := VNone; rx_cast_given := g |}.
  split; [|split; [|split; [|split; [|split]]]]; try reflexivity.
  - unfold rule_to_json. rewrite Hj. cbn [bind]. rewrite Hk. cbn [bind]. rewrite Hps. reflexivity.
  - rewrite json_pure_rule, Hjp, Hkp, Hpp. reflexivity.
  - unfold rule_from_spec. rewrite get_path. cbn [bind py_iter]. rewrite Hfs. cbn [bind].
    rewrite get_condition. cbn [bind]. rewrite Hs. cbn [bind]. rewrite get_doc. cbn [norm_doc bind].
    rewrite get_cast, Hkr. reflexivity.
  - unfold mk_rule. cbn [rt_path_t rt_cond_t rt_cast_t]. change Rule.id0 with idlit. rewrite Hmk'. cbn [bind].
    rewrite (cond1_from_spec_build1 _ _ _ Hs). reflexivity.
Qed.

Lemma c13_term_cond pt q casts r : tree_in_c11 q = true ->
  mk_rule T (c13_term pt q casts) = Ok r -> r_cond r = cmapL (cond_of (qnorm q)) /\ r_cast r = casts.
Proof.
  intros Hq Hr. unfold mk_rule, c13_term in Hr. cbn [rt_path_t rt_cond_t rt_cast_t] in Hr.
  apply bind_ok in Hr as [p [_ Hr]]. rewrite (build1_c11 q Hq) in Hr. cbn [bind] in Hr. injection Hr as <-.
  split; reflexivity.
Qed.

(* (1) A rule of the fragment: condition a DSL tree of the C11 fragment with literal arguments *)
Theorem C13_rule_roundtrip : forall pt q casts g r,
  path_roundtrips pt -> tree_in_c11 q = true -> casts_in_c13 casts = true -> flag_ok casts g ->
  mk_rule T (c13_term pt q casts) = Ok r ->
  exists j rt' ex,
    rule_to_json T X (r_path r) (r_cond r) (r_cast r) g = Ok j /\ json_pure j = true /\
    rule_from_spec T X j = Ok (rt', ex) /\
    mk_rule T rt' = Ok r /\ rx_cast_given ex = g /\ rx_doc ex = VNone.
Proof.
  intros pt q casts g r Hp Hq Hc Hg Hr.
  apply (C13_rule_roundtrip_gen (c13_term pt q casts) g r Hr Hp); [|exact Hc|exact Hg].
  destruct (c13_term_cond pt q casts r Hq Hr) as [-> _]. exact (c11_cond_roundtrips q Hq).
Qed.

(* hence: whatever rule the read-back term builds, it is the original, and it tests every
   document identically (verdict, failures, the document judged on, the cast data) *)
Corollary C13_rule_same_behaviour : forall pt q casts g r,
  path_roundtrips pt -> tree_in_c11 q = true -> casts_in_c13 casts = true -> flag_ok casts g ->
  mk_rule T (c13_term pt q casts) = Ok r ->
  exists j rt' ex r',
    rule_to_json T X (r_path r) (r_cond r) (r_cast r) g = Ok j /\ json_pure j = true /\
    rule_from_spec T X j = Ok (rt', ex) /\ mk_rule T rt' = Ok r' /\ r' = r /\ rx_cast_given ex = g /\
    forall doc copy, rule_test T r' doc copy = rule_test T r doc copy.
Proof.
  intros pt q casts g r Hp Hq Hc Hg Hr.
  destruct (C13_rule_roundtrip pt q casts g r Hp Hq Hc Hg Hr) as [j [rt' [ex [H1 [H2 [H3 [H4 [H5 _]]]]]]]].
  exists j, rt', ex, r. repeat split; auto.
Qed.

(* `==`: the rebuilt rule compares equal to the original, the `cast` attribute included.
   Reflexivity of == on the path is C14's (C14_path_refl : path_ok WF p -> path_eqb p p = true;
   simple_path_eqb_refl below for the simple paths); the from-types of the casts must be distinct
   (they are the keys of a Python dict: casts_wf). *)
Lemma c13_rule_eqb_refl pt q casts g r :
  tree_in_c11 q = true -> mk_rule T (c13_term pt q casts) = Ok r ->
  path_eqb (r_path r) (r_path r) = true -> casts_wf casts -> rule_eqb T r r g g = true.
Proof.
  intros Hq Hr Hpe Hcw.
  unfold mk_rule, c13_term in Hr. cbn [rt_path_t rt_cond_t rt_cast_t] in Hr.
  apply bind_ok in Hr as [p [Hmk Hr]]. rewrite (build1_c11 q Hq) in Hr. cbn [bind] in Hr. injection Hr as <-.
  cbn [r_path] in Hpe. unfold rule_eqb. cbn [r_path r_cond r_cast]. rewrite Hpe.
  destruct (C11_roundtrip_eq q _ Hq (tree_in_c11_builds q Hq)) as [_ [_ [_ He]]]. cbv zeta in He. rewrite He.
  rewrite (casts_eqb_refl casts Hcw), Bool.eqb_reflx. reflexivity.
Qed.

Corollary C13_rule_eq : forall pt q casts g r,
  path_roundtrips pt -> tree_in_c11 q = true -> casts_in_c13 casts = true -> flag_ok casts g ->
  mk_rule T (c13_term pt q casts) = Ok r ->
  path_eqb (r_path r) (r_path r) = true -> casts_wf casts ->
  exists j rt' ex r',
    rule_to_json T X (r_path r) (r_cond r) (r_cast r) g = Ok j /\ json_pure j = true /\
    rule_from_spec T X j = Ok (rt', ex) /\ mk_rule T rt' = Ok r' /\
    rule_eqb T r' r (rx_cast_given ex) g = true.
Proof.
  intros pt q casts g r Hp Hq Hc Hg Hr Hpe Hcw.
  destruct (C13_rule_roundtrip pt q casts g r Hp Hq Hc Hg Hr) as [j [rt' [ex [H1 [H2 [H3 [H4 [H5 _]]]]]]]].
  exists j, rt', ex, r. repeat split; auto. rewrite H5.
  exact (c13_rule_eqb_refl pt q casts g r Hq Hr Hpe Hcw).
Qed.

(* == is reflexive on the simple paths *)
Lemma sp_part_eqb t : simple_pterm t = true -> part_eqb (sp_part t) (sp_part t) = true.
Proof.
  intros H. sp_cases t H; try (vm_compute; reflexivity);
    cbv -[py_eq wf_val]; rewrite !py_eq_refl_wf by (reflexivity || exact Hwf); reflexivity.
Qed.

Lemma simple_path_eqb_refl t p : simple_path t = true -> mk_path T idlit t = Ok p -> path_eqb p p = true.
Proof.
  destruct t as [ts mods src]. unfold simple_path. cbn [pt_parts pt_mods pt_src]. intros H.
  apply andb_true_iff in H as [H Hs]. apply andb_true_iff in H as [Hts Hm].
  destruct mods; [|discriminate Hm]. destruct src; [discriminate Hs|].
  intros Hp. unfold mk_path in Hp. cbn [pt_parts pt_mods pt_src] in Hp.
  rewrite (sp_mk_parts ts Hts) in Hp. cbn [bind apply_mods] in Hp. injection Hp as <-.
  unfold path_eqb. cbn [p_parts p_concrete p_dt p_mt p_src datum_type_eqb multi_type_eqb osrc_eqb].
  rewrite Bool.eqb_reflx, !andb_true_r.
  induction ts as [|t r IH]; cbn [map list_eqb]; [reflexivity|].
  cbn [forallb] in Hts. apply andb_true_iff in Hts as [Ht Hr]. rewrite (sp_part_eqb t Ht), (IH Hr). reflexivity.
Qed.

(* ================================================================== *)
(* 5. schemas: lists of rules, element-wise                             *)

(* a Rule object of the model: the rule and whether its `cast` attribute is a mapping (not None) *)
Definition rule_obj : Type := (rule * bool)%type.

(* Schema.to_json_like(): [rule.to_json_like() for rule in rules] *)
Definition schema_to_json (s : list rule_obj) : res pyval :=
  let* js := mapM (fun rg : rule_obj => rule_to_json T X (r_path (fst rg)) (r_cond (fst rg)) (r_cast (fst rg)) (snd rg)) s in
  Ok (VList js).

(* Schema.from_json_like(): [Rule.from_json_like(i) for i in json_like] *)
Definition rule_from_json (j : pyval) : res rule_obj :=
  let* (rt, ex) := rule_from_spec T X j in
  let* r := mk_rule T rt in Ok (r, rx_cast_given ex).
Definition schema_from_json (j : pyval) : res (list rule_obj) :=
  let* items := py_iter j in mapM rule_from_json items.

(* how the rules of the fragment are written with the API *)
Record c13_rule := { cr_path : pathterm pyval; cr_tree : qtree; cr_casts : list (pytype * castfn); cr_given : bool }.

Definition rule_in_c13 (x : c13_rule) : Prop :=
  path_roundtrips (cr_path x) /\ tree_in_c11 (cr_tree x) = true /\ casts_in_c13 (cr_casts x) = true
  /\ flag_ok (cr_casts x) (cr_given x).

Definition mk_rule_obj (x : c13_rule) : res rule_obj :=
  let* r := mk_rule T (c13_term (cr_path x) (cr_tree x) (cr_casts x)) in Ok (r, cr_given x).

Lemma rule_obj_roundtrip x ro : rule_in_c13 x -> mk_rule_obj x = Ok ro ->
  exists j, rule_to_json T X (r_path (fst ro)) (r_cond (fst ro)) (r_cast (fst ro)) (snd ro) = Ok j /\
            json_pure j = true /\ rule_from_json j = Ok ro.
Proof.
  intros [Hp [Hq [Hc Hg]]] H. unfold mk_rule_obj in H. apply bind_ok in H as [r [Hr H]]. injection H as <-.
  destruct (C13_rule_roundtrip _ _ _ _ r Hp Hq Hc Hg Hr) as [j [rt' [ex [H1 [H2 [H3 [H4 [H5 _]]]]]]]].
  exists j. cbn [fst snd]. split; [exact H1|]. split; [exact H2|].
  unfold rule_from_json. rewrite H3. cbn [bind]. rewrite H4. cbn [bind]. rewrite H5. reflexivity.
Qed.

(* (3) A schema of the fragment is written as a pure JSON list and read back as THE SAME list of
   rule objects *)
Theorem C13_schema_roundtrip : forall xs s,
  Forall rule_in_c13 xs -> mapM mk_rule_obj xs = Ok s ->
  exists j, schema_to_json s = Ok j /\ json_pure j = true /\ schema_from_json j = Ok s.
Proof.
  intros xs s Hin Hs.
  assert (G : exists js,
    mapM (fun rg : rule_obj => rule_to_json T X (r_path (fst rg)) (r_cond (fst rg)) (r_cast (fst rg)) (snd rg)) s = Ok js
    /\ forallb json_pure js = true /\ mapM rule_from_json js = Ok s).
  { revert s Hs. induction Hin as [|x xs Hx _ IH]; cbn [mapM]; intros s Hs.
    - injection Hs as <-. exists []. repeat split; reflexivity.
    - apply bind_ok in Hs as [ro [Hro Hs]]. apply bind_ok in Hs as [s' [Hs' Hs]]. injection Hs as <-.
      destruct (rule_obj_roundtrip x ro Hx Hro) as [j [H1 [H2 H3]]].
      destruct (IH s' Hs') as [js [G1 [G2 G3]]].
      exists (j :: js). cbn [mapM forallb]. rewrite H1, G1, H2, G2, H3, G3. repeat split; reflexivity. }
  destruct G as [js [G1 [G2 G3]]]. exists (VList js). unfold schema_to_json, schema_from_json.
  rewrite G1. cbn [bind py_iter json_pure]. repeat split; [exact G2|exact G3].
Qed.

(* hence the rebuilt schema validates every document exactly like the original: verdict, number of
   failures, number of rules tested, every rule test with its failures, and the cast data *)
Corollary C13_schema_same_behaviour : forall xs s,
  Forall rule_in_c13 xs -> mapM mk_rule_obj xs = Ok s ->
  exists j s', schema_to_json s = Ok j /\ json_pure j = true /\ schema_from_json j = Ok s' /\ s' = s /\
    forall doc, validate T (map fst s') doc = validate T (map fst s) doc.
Proof.
  intros xs s Hin Hs. destruct (C13_schema_roundtrip xs s Hin Hs) as [j [H1 [H2 H3]]].
  exists j, s. repeat split; auto.
Qed.

(* `==` on the schemas (rule by rule, C14Proof.schema_eqb), under the side conditions of the
   reflexivity of == : paths equal to themselves (C14_path_refl), cast from-types distinct *)
Corollary C13_schema_eq : forall xs s,
  Forall rule_in_c13 xs -> mapM mk_rule_obj xs = Ok s ->
  Forall (fun ro : rule_obj => path_eqb (r_path (fst ro)) (r_path (fst ro)) = true /\ casts_wf (r_cast (fst ro))) s ->
  exists j s', schema_to_json s = Ok j /\ json_pure j = true /\ schema_from_json j = Ok s' /\
    schema_eqb T s' s = true.
Proof.
  intros xs s Hin Hs Hok. destruct (C13_schema_roundtrip xs s Hin Hs) as [j [H1 [H2 H3]]].
  exists j, s. repeat split; auto. clear H1 H2 H3 j.
  revert s Hs Hok. induction Hin as [|x xs Hx _ IH]; cbn [mapM]; intros s Hs Hok.
  - injection Hs as <-. reflexivity.
  - apply bind_ok in Hs as [ro [Hro Hs]]. apply bind_ok in Hs as [s' [Hs' Hs]]. injection Hs as <-.
    inversion Hok as [|ro' s'' [Hpe Hcw] Hok']; subst.
    unfold schema_eqb. cbn [list_eqb]. fold (schema_eqb T s' s'). rewrite (IH s' Hs' Hok'), andb_true_r.
    destruct Hx as [_ [Hq _]]. unfold mk_rule_obj in Hro. apply bind_ok in Hro as [r [Hr Hro]]. injection Hro as <-.
    cbn [fst snd] in *.
    apply (c13_rule_eqb_refl _ _ _ _ r Hq Hr Hpe).
    unfold mk_rule, c13_term in Hr. cbn [rt_path_t rt_cond_t rt_cast_t] in Hr.
    apply bind_ok in Hr as [p [_ Hr]]. apply bind_ok in Hr as [c [_ Hr]]. injection Hr as <-. exact Hcw.
Qed.

(* ================================================================== *)
(* 6. non-vacuity: the statements evaluated on concrete rules           *)

Definition ex13_path : pathterm pyval :=
  {| pt_parts := [PtPrim (VStr "a"); PtMap None None None None; PtPrim (VInt 0)]; pt_mods := []; pt_src := None |}.
Definition ex13_tree : qtree :=
  QBin BoOr (QLeaf SValue (Q_equal_to (VInt 1)))
            (QBin BoAnd QNull (QLeaf SValueDataType (Q_in (VList [VType TStr; VType TFloat])))).
Definition ex13_rule : c13_rule :=
  {| cr_path := ex13_path; cr_tree := ex13_tree; cr_casts := [(TStr, CastStrInt)]; cr_given := true |}.
Definition ex13_rule2 : c13_rule :=
  {| cr_path := {| pt_parts := [PtPrim (VStr "b")]; pt_mods := []; pt_src := None |};
     cr_tree := QLeaf SValue (Q_items_contain [("k", VList [VInt 1; VNone])]); cr_casts := []; cr_given := false |}.

Example ex13_in : rule_in_c13 ex13_rule /\ rule_in_c13 ex13_rule2.
Proof.
  split; (split; [apply simple_path_roundtrips; vm_compute; reflexivity|]);
    (split; [vm_compute; reflexivity|]); (split; [vm_compute; reflexivity|]); intros H; try discriminate H; reflexivity.
Qed.

(* the whole round trip computed by the model, independently of the proofs:
   (JSON written, pure, rebuilt == original, tests of the original and of the rebuilt rule) *)
Definition obs_test (t : res (rtest * pyval)) : res (bool * bool * nat * pyval) :=
  rmap (fun t => (rt_valid (fst t), rt_tested (fst t), List.length (rt_failures (fst t)), snd t)) t.
Definition rtrip (rt : ruleterm) (g : bool) (doc : pyval) :=
  let* r := mk_rule T rt in
  let* j := rule_to_json T X (r_path r) (r_cond r) (r_cast r) g in
  let* (rt', ex) := rule_from_spec T X j in
  let* r' := mk_rule T rt' in
  Ok (j, json_pure j, rule_eqb T r' r (rx_cast_given ex) g,
      obs_test (rule_test T r doc None), obs_test (rule_test T r' doc None)).

Definition ex13_doc : pyval := VDict [(VStr "a", VDict [(VStr "x", VList [VStr "1"; VInt 2]); (VStr "y", VList [VInt 7])])].

Example ex13_roundtrip :
  rtrip (c13_term ex13_path ex13_tree [(TStr, CastStrInt)]) true ex13_doc =
  Ok (VDict [(VStr "condition",
               VDict [(VStr "or", VList [VDict [(VStr "value.equal_to", VInt 1)];
                                         VDict [(VStr "value.dtype.in_", VList [VStr "str"; VStr "float"])]])]);
             (VStr "cast", VDict [(VStr "str", VStr "int")]);
             (VStr "path", VList [VStr "a"; VDict [(VStr "type", VStr "map_value")]; VInt 0])],
      true, true,
      Ok (false, true, 1%nat, VDict [(VStr "a", VDict [(VStr "x", VList [VInt 1; VInt 2]); (VStr "y", VList [VInt 7])])]),
      Ok (false, true, 1%nat, VDict [(VStr "a", VDict [(VStr "x", VList [VInt 1; VInt 2]); (VStr "y", VList [VInt 7])])])).
Proof. vm_compute. reflexivity. Qed.

(* a labelled part: Rule(DataPath("a", ListValue(label="items")), Value.equal_to(1)) *)
Example ex13_roundtrip_label :
  rmap (fun x => match x with (j, pure, eq, _, _) => (j, pure, eq) end)
    (rtrip {| rt_path_t := {| pt_parts := [PtPrim (VStr "a"); PtList None None None (Some (VStr "items"))]; pt_mods := []; pt_src := None |};
              rt_cond_t := dslc_map ALit (qterm (QLeaf SValue (Q_equal_to (VInt 1)))); rt_cast_t := [] |} false ex13_doc) =
  Ok (VDict [(VStr "condition", VDict [(VStr "value.equal_to", VInt 1)]); (VStr "cast", VNone);
             (VStr "path", VList [VStr "a"; VDict [(VStr "type", VStr "list_value"); (VStr "label", VStr "items")]])],
      true, true).
Proof. vm_compute. reflexivity. Qed.

Example ex13_schema :
  (let* s := mapM mk_rule_obj [ex13_rule; ex13_rule2] in
   let* j := schema_to_json s in
   let* s' := schema_from_json j in
   Ok (json_pure j, schema_eqb T s' s,
       rmap (fun v => (v_valid v, v_num_failures v, v_num_tested v, v_cast_data v)) (validate T (map fst s) ex13_doc),
       rmap (fun v => (v_valid v, v_num_failures v, v_num_tested v, v_cast_data v)) (validate T (map fst s') ex13_doc)))
  = Ok (true, true,
        Ok (false, 1%nat, 1%nat, VDict [(VStr "a", VDict [(VStr "x", VList [VInt 1; VInt 2]); (VStr "y", VList [VInt 7])])]),
        Ok (false, 1%nat, 1%nat, VDict [(VStr "a", VDict [(VStr "x", VList [VInt 1; VInt 2]); (VStr "y", VList [VInt 7])])])).
Proof. vm_compute. reflexivity. Qed.

(* ================================================================== *)
(* 7. outside the fragment the statement fails: closed counterexamples  *)

Definition cx_cond : dslc arg1 := dslc_map ALit (qterm (QLeaf SValue (Q_equal_to (VInt 1)))).
Definition cx_path (mods : list string) (src : option pyval) : pathterm pyval :=
  {| pt_parts := [PtPrim (VStr "a")]; pt_mods := mods; pt_src := src |}.

(* (a), (b): REPAIRED DEFECTS.  A modifier (.length(), .first() ...) or source data bound to the
   rule's path cannot be written in part specs.  Rule.to_json_like used to drop them silently
   (Rule(DataPath("a").length(), Value.equal_to(1)) came back as Rule(DataPath("a"), ...): not ==,
   and {"a": [5]} valid for the original, invalid for the rebuilt rule); now DataPath.to_part_specs
   raises ValueError and so does Rule.to_json_like.  Such paths remain outside path_roundtrips
   (C13_modified_path_not_roundtrips): nothing is written, so there is nothing to read back. *)

Definition path_modified (t : pathterm pyval) : bool :=
  match pt_mods t, pt_src t with [], None => false | _, _ => true end.

Lemma apply_mod_sets (p p' : dpath pyval) m : apply_mod p m = Ok p' ->
  p_src p' = p_src p /\ match p_dt p', p_mt p' with DtNone, MtNone => False | _, _ => True end.
Proof.
  unfold apply_mod. destruct (dt_of_name m) as [dt|] eqn:Ed.
  - destruct (p_dt p); try discriminate. intros H. injection H as <-. cbn [p_src p_dt p_mt]. split; [reflexivity|].
    unfold dt_of_name in Ed.
    repeat match type of Ed with (if ?c then _ else _) = _ => destruct c end; try discriminate Ed;
      injection Ed as <-; exact I.
  - destruct (mt_of_name m) as [mt|] eqn:Em; [|discriminate].
    destruct (p_mt p); try discriminate. destruct (p_concrete p); [discriminate|].
    intros H. injection H as <-. cbn [p_src p_dt p_mt]. split; [reflexivity|].
    unfold mt_of_name in Em.
    repeat match type of Em with (if ?c then _ else _) = _ => destruct c end; try discriminate Em;
      injection Em as <-; destruct (p_dt p); exact I.
Qed.

Lemma apply_mod_keeps (p p' : dpath pyval) m : apply_mod p m = Ok p' ->
  path_plain p = false -> path_plain p' = false.
Proof.
  intros H Hp. destruct (apply_mod_sets p p' m H) as [Hs Hm]. unfold path_plain.
  destruct (p_dt p'), (p_mt p'); try reflexivity. destruct Hm.
Qed.

Lemma apply_mods_keeps ms : forall (p p' : dpath pyval), apply_mods p ms = Ok p' ->
  path_plain p = false -> path_plain p' = false.
Proof.
  induction ms as [|m r IH]; intros p p' H Hp; cbn [apply_mods] in H.
  - injection H as <-. exact Hp.
  - apply bind_ok in H as [p1 [H1 H]]. exact (IH p1 p' H (apply_mod_keeps p p1 m H1 Hp)).
Qed.

(* a path built with a modifier or with source data is not plain *)
Lemma mk_path_modified t p : mk_path T idlit t = Ok p -> path_modified t = true -> path_plain p = false.
Proof.
  unfold mk_path, path_modified. intros H Hm. apply bind_ok in H as [[ps conc] [_ H]].
  destruct (pt_mods t) as [|m r].
  - destruct (pt_src t); [|discriminate Hm]. cbn [apply_mods] in H. injection H as <-. reflexivity.
  - cbn [apply_mods] in H. apply bind_ok in H as [p1 [H1 H]].
    apply (apply_mods_keeps r p1 p H). destruct (apply_mod_sets _ _ _ H1) as [_ Hs]. unfold path_plain.
    destruct (p_dt p1), (p_mt p1); try reflexivity. destruct Hs.
Qed.

(* so its part specs are refused *)
Theorem C13_modified_path_refused : forall t p, mk_path T idlit t = Ok p -> path_modified t = true ->
  path_to_part_specs T X p = Err ValueError.
Proof. intros t p H Hm. exact (path_to_part_specs_refuses p (mk_path_modified t p H Hm)). Qed.

(* Rule.to_json_like refuses every rule whose path is not plain: it never returns, and when the
   condition and the cast block can be written (they are evaluated first) the error is ValueError *)
Theorem C13_rule_path_refused : forall p c casts g, path_plain p = false ->
  (forall j, rule_to_json T X p c casts g <> Ok j) /\
  (forall cj kj, cond1_to_json T X c = Ok cj -> cast_to_json X casts g = Ok kj ->
     rule_to_json T X p c casts g = Err ValueError).
Proof.
  intros p c casts g Hp. unfold rule_to_json. rewrite (path_to_part_specs_refuses p Hp). split.
  - intros j. destruct (cond1_to_json T X c); cbn [bind]; [|discriminate].
    destruct (cast_to_json X casts g); cbn [bind]; discriminate.
  - intros cj kj -> ->. reflexivity.
Qed.

(* the same on rule terms: every rule built from a path term with a modifier or source data *)
Corollary C13_modified_rule_refused : forall rt g r, mk_rule T rt = Ok r -> path_modified (rt_path_t rt) = true ->
  (forall j, rule_to_json T X (r_path r) (r_cond r) (r_cast r) g <> Ok j) /\
  (forall cj kj, cond1_to_json T X (r_cond r) = Ok cj -> cast_to_json X (r_cast r) g = Ok kj ->
     rule_to_json T X (r_path r) (r_cond r) (r_cast r) g = Err ValueError).
Proof.
  intros rt g r Hr Hm. apply C13_rule_path_refused.
  unfold mk_rule in Hr. apply bind_ok in Hr as [p [Hp Hr]]. apply bind_ok in Hr as [c [_ Hr]]. injection Hr as <-.
  cbn [r_path]. change Rule.id0 with idlit in Hp. exact (mk_path_modified _ p Hp Hm).
Qed.

(* in the rule fragment of C13 (condition and casts are written): exactly ValueError *)
Corollary C13_modified_rule_ValueError : forall pt q casts g r,
  path_modified pt = true -> tree_in_c11 q = true -> casts_in_c13 casts = true -> flag_ok casts g ->
  mk_rule T (c13_term pt q casts) = Ok r ->
  rule_to_json T X (r_path r) (r_cond r) (r_cast r) g = Err ValueError.
Proof.
  intros pt q casts g r Hm Hq Hc Hg Hr.
  destruct (C13_modified_rule_refused _ g r Hr Hm) as [_ H].
  destruct (c13_term_cond pt q casts r Hq Hr) as [Ec Ek].
  destruct (c11_cond_roundtrips q Hq) as [J [tm [Hj _]]]. rewrite <- Ec in Hj.
  destruct (cast_block_ok casts g Hc Hg) as [Hk _]. rewrite <- Ek in Hk.
  exact (H _ _ Hj Hk).
Qed.

(* path_roundtrips excludes every path term with a modifier or source data (that builds) *)
Theorem C13_modified_path_not_roundtrips : forall t p, mk_path T idlit t = Ok p -> path_modified t = true ->
  ~ path_roundtrips t.
Proof.
  intros t p Hp Hm H. destruct (H p Hp) as [specs [t' [Hs _]]].
  rewrite (C13_modified_path_refused t p Hp Hm) in Hs. discriminate Hs.
Qed.

(* closed instances: the two former counterexamples
   Rule(DataPath("a").length(), Value.equal_to(1)).to_json_like()                -> ValueError
   Rule(DataPath("a", source_data={"a": 1}), Value.equal_to(1)).to_json_like()   -> ValueError *)
Definition rjson (rt : ruleterm) (g : bool) : res pyval :=
  let* r := mk_rule T rt in rule_to_json T X (r_path r) (r_cond r) (r_cast r) g.

Example C13_repaired_path_modifier :
  rjson {| rt_path_t := cx_path ["length"] None; rt_cond_t := cx_cond; rt_cast_t := [] |} false = Err ValueError /\
  rjson {| rt_path_t := {| pt_parts := [PtMap None None None None]; pt_mods := ["first"]; pt_src := None |};
           rt_cond_t := cx_cond; rt_cast_t := [(TStr, CastStrInt)] |} true = Err ValueError /\
  (* the unmodified rule is still written *)
  rjson {| rt_path_t := cx_path [] None; rt_cond_t := cx_cond; rt_cast_t := [] |} false =
    Ok (VDict [(VStr "condition", VDict [(VStr "value.equal_to", VInt 1)]); (VStr "cast", VNone); (VStr "path", VList [VStr "a"])]).
Proof. vm_compute. auto. Qed.

Example C13_repaired_path_source :
  rjson {| rt_path_t := cx_path [] (Some (VDict [(VStr "a", VInt 1)])); rt_cond_t := cx_cond; rt_cast_t := [] |} false
  = Err ValueError.
Proof. vm_compute. reflexivity. Qed.

Example C13_modified_path_not_roundtrips_ex :
  ~ path_roundtrips (cx_path ["length"] None) /\ ~ path_roundtrips (cx_path [] (Some (VDict [(VStr "a", VInt 1)]))).
Proof.
  split; (eapply C13_modified_path_not_roundtrips; [vm_compute; reflexivity|reflexivity]).
Qed.

(* (c) a cast outside CAST_LOOKUP is written but cannot be read:
   Rule(DataPath("a"), Value.equal_to(1), cast={bool: int}) -> {"cast": {"bool": "int"}} -> MalformedRuleSpec.
   Hence casts_in_c13. *)
Example C13_counterexample_rule_cast :
  (let* r := mk_rule T {| rt_path_t := cx_path [] None; rt_cond_t := cx_cond; rt_cast_t := [(TBool, CastStrInt)] |} in
   let* j := rule_to_json T X (r_path r) (r_cond r) (r_cast r) true in
   Ok (j, rmap (fun _ => tt) (rule_from_spec T X j))) =
  Ok (VDict [(VStr "condition", VDict [(VStr "value.equal_to", VInt 1)]); (VStr "cast", VDict [(VStr "bool", VStr "int")]);
             (VStr "path", VList [VStr "a"])], Err MalformedRule).
Proof. vm_compute. reflexivity. Qed.

(* (d) model only: the flag and the list are separate in the model; `cast=None` with a non-empty
   list (no Python object is like that) is written as null and comes back without casts.
   Hence flag_ok. *)
Example C13_counterexample_flag :
  rtrip {| rt_path_t := cx_path [] None; rt_cond_t := cx_cond; rt_cast_t := [(TStr, CastStrInt)] |} false
        (VDict [(VStr "a", VStr "1")]) =
  Ok (VDict [(VStr "condition", VDict [(VStr "value.equal_to", VInt 1)]); (VStr "cast", VNone); (VStr "path", VList [VStr "a"])],
      true, false,
      Ok (true, true, 0%nat, VDict [(VStr "a", VInt 1)]),
      Ok (false, true, 1%nat, VDict [(VStr "a", VStr "1")])).
Proof. vm_compute. reflexivity. Qed.

(* (e) model only: two casts from the same type (not a Python dict) round-trip as a list (theorem
   (1) holds) but are not == to themselves.  Hence casts_wf in C13_rule_eq / C13_schema_eq. *)
Example C13_counterexample_duplicate_cast_keys :
  rtrip {| rt_path_t := cx_path [] None; rt_cond_t := cx_cond; rt_cast_t := [(TStr, CastStrBool); (TStr, CastStrInt)] |} true
        (VDict [(VStr "a", VStr "1")]) =
  Ok (VDict [(VStr "condition", VDict [(VStr "value.equal_to", VInt 1)]);
             (VStr "cast", VDict [(VStr "str", VStr "bool"); (VStr "str", VStr "int")]); (VStr "path", VList [VStr "a"])],
      true, false,
      Ok (true, true, 0%nat, VDict [(VStr "a", VInt 1)]),
      Ok (true, true, 0%nat, VDict [(VStr "a", VInt 1)])).
Proof. vm_compute. reflexivity. Qed.

Print Assumptions json_pure_norm.
Print Assumptions cond1_from_spec_build1.
Print Assumptions C13_casts.
Print Assumptions C13_casts_absent.
Print Assumptions C13_casts_names.
Print Assumptions simple_path_roundtrips.
Print Assumptions C13_rule_roundtrip_gen.
Print Assumptions C13_rule_roundtrip.
Print Assumptions C13_rule_same_behaviour.
Print Assumptions C13_rule_eq.
Print Assumptions C13_schema_roundtrip.
Print Assumptions C13_schema_same_behaviour.
Print Assumptions C13_schema_eq.
Print Assumptions C13_modified_path_refused.
Print Assumptions C13_rule_path_refused.
Print Assumptions C13_modified_rule_refused.
Print Assumptions C13_modified_rule_ValueError.
Print Assumptions C13_modified_path_not_roundtrips.
