(* C17: a data-path argument of a condition may be replaced by the value it selects in the
   validated document without changing the rule's verdict on that document; an argument that
   cannot be resolved makes the item fail with a callable error instead of aborting. *)
From Coq Require Import ZArith NArith List Bool String.
From Valida Require Import Py Lang Defs Cond Dsl Path Cast RuleDefs Rule Inst C17Defs.
Import ListNotations.
Local Open Scope list_scope.

(* ------------------------------------------------------------------ *)
(* 0. generic facts about mapM / resolve_kw                             *)

Lemma mapM_ext_all {A B} (f g : A -> res B) (l : list A) :
  (forall x, f x = g x) -> mapM f l = mapM g l.
Proof.
  intros Hfg. induction l as [ | x r IH]; [reflexivity | ].
  cbn [mapM]. rewrite Hfg, IH. reflexivity.
Qed.

Lemma mapM_map {A B C} (f : B -> res C) (g : A -> B) (l : list A) :
  mapM f (map g l) = mapM (fun x => f (g x)) l.
Proof.
  induction l as [ | x r IH]; [reflexivity | ].
  cbn [map mapM]. rewrite IH. reflexivity.
Qed.

Lemma resolve_kw_map {A} (f : A -> res pyval) (g : A -> A) (kw : list (string * A)) :
  (forall a, f (g a) = f a) ->
  resolve_kw A f (map (fun ka => (fst ka, g (snd ka))) kw) = resolve_kw A f kw.
Proof.
  intros Hfg. induction kw as [ | [k a] r IH]; [reflexivity | ].
  cbn [map resolve_kw fst snd]. rewrite Hfg, IH. reflexivity.
Qed.

(* the first failing element determines the error *)
Lemma mapM_first_err {A B} (f : A -> res B) (pre post : list A) (a : A) (vs : list B) (e : exc) :
  mapM f pre = Ok vs -> f a = Err e -> mapM f (pre ++ a :: post) = Err e.
Proof.
  revert vs. induction pre as [ | x r IH]; intros vs Hpre Ha.
  - cbn [app mapM]. rewrite Ha. reflexivity.
  - cbn [app mapM] in *. destruct (f x) as [y | ex]; cbn [bind] in *; [ | discriminate Hpre].
    destruct (mapM f r) as [ys | er] eqn:Er; cbn [bind] in *; [ | discriminate Hpre].
    rewrite (IH ys eq_refl Ha). reflexivity.
Qed.

Lemma resolve_kw_first_err {A} (f : A -> res pyval) (pre post : list (string * A)) (k : string) (a : A)
      (vs : list (string * pyval)) (e : exc) :
  resolve_kw A f pre = Ok vs -> f a = Err e -> resolve_kw A f (pre ++ (k, a) :: post) = Err e.
Proof.
  revert vs. induction pre as [ | [kx x] r IH]; intros vs Hpre Ha.
  - cbn [app resolve_kw]. rewrite Ha. reflexivity.
  - cbn [app resolve_kw] in *. destruct (f x) as [y | ex]; cbn [bind] in *; [ | discriminate Hpre].
    destruct (resolve_kw A f r) as [ys | er] eqn:Er; cbn [bind] in *; [ | discriminate Hpre].
    rewrite (IH ys eq_refl Ha). reflexivity.
Qed.

(* a failing element makes the whole resolution fail, with the error of some failing element *)
Lemma mapM_some_err {A B} (f : A -> res B) (l : list A) (a : A) (e : exc) :
  In a l -> f a = Err e ->
  exists a' e', In a' l /\ f a' = Err e' /\ mapM f l = Err e'.
Proof.
  induction l as [ | x r IH]; intros Hin Ha; [destruct Hin | ].
  cbn [mapM]. destruct (f x) as [y | ex] eqn:Ex; cbn [bind].
  - destruct Hin as [Hx | Hin]; [subst x; rewrite Ha in Ex; discriminate Ex | ].
    destruct (IH Hin Ha) as [a' [e' [Hin' [Ha' Hm]]]].
    exists a', e'. split; [right; exact Hin' | ]. split; [exact Ha' | ].
    rewrite Hm. reflexivity.
  - exists x, ex. split; [left; reflexivity | ]. split; [exact Ex | reflexivity].
Qed.

Lemma resolve_kw_some_err {A} (f : A -> res pyval) (kw : list (string * A)) (a : A) (e : exc) :
  In a (map snd kw) -> f a = Err e ->
  exists a' e', In a' (map snd kw) /\ f a' = Err e' /\ resolve_kw A f kw = Err e'.
Proof.
  induction kw as [ | [k x] r IH]; intros Hin Ha; [destruct Hin | ].
  cbn [resolve_kw map snd] in *. destruct (f x) as [y | ex] eqn:Ex; cbn [bind].
  - destruct Hin as [Hx | Hin]; [subst x; rewrite Ha in Ex; discriminate Ex | ].
    destruct (IH Hin Ha) as [a' [e' [Hin' [Ha' Hm]]]].
    exists a', e'. split; [right; exact Hin' | ]. split; [exact Ha' | ].
    rewrite Hm. reflexivity.
  - exists x, ex. split; [left; reflexivity | ]. split; [exact Ex | reflexivity].
Qed.

(* ------------------------------------------------------------------ *)
(* 1. substitution does not change what an argument resolves to        *)

Lemma resolve1_subst (doc : pyval) (a : arg1) :
  resolve1 T (Some doc) (subst_arg1 doc a) = resolve1 T (Some doc) a.
Proof.
  destruct a as [v | tag p].
  - reflexivity.
  - unfold subst_arg1.
    destruct (resolve1 T (Some doc) (APath tag p)) as [v | e] eqn:E.
    + reflexivity.
    + exact E.
Qed.

Lemma mapM_resolve1_subst (doc : pyval) (l : list arg1) :
  mapM (resolve1 T (Some doc)) (map (subst_arg1 doc) l) = mapM (resolve1 T (Some doc)) l.
Proof.
  rewrite mapM_map. apply mapM_ext_all. intros a. apply resolve1_subst.
Qed.

Lemma resolve_kw_resolve1_subst (doc : pyval) (kw : list (string * arg1)) :
  resolve_kw arg1 (resolve1 T (Some doc)) (map (fun ka => (fst ka, subst_arg1 doc (snd ka))) kw)
  = resolve_kw arg1 (resolve1 T (Some doc)) kw.
Proof.
  apply (resolve_kw_map (resolve1 T (Some doc)) (subst_arg1 doc)). intros a. apply resolve1_subst.
Qed.

Lemma call_leaf_subst (doc : pyval) (l : leaf arg1) (v : pyval) :
  call_leaf T (resolve1 T (Some doc)) (subst_leaf doc l) v = call_leaf T (resolve1 T (Some doc)) l v.
Proof.
  unfold call_leaf.
  change (l_args (subst_leaf doc l)) with (map (subst_arg1 doc) (l_args l)).
  change (l_kwargs (subst_leaf doc l)) with (map (fun ka => (fst ka, subst_arg1 doc (snd ka))) (l_kwargs l)).
  change (l_call (subst_leaf doc l)) with (l_call l).
  rewrite mapM_resolve1_subst, resolve_kw_resolve1_subst. reflexivity.
Qed.

Lemma eval_item_subst (doc : pyval) (l : leaf arg1) (datum : pyval) :
  eval_item T (resolve1 T (Some doc)) (subst_leaf doc l) datum = eval_item T (resolve1 T (Some doc)) l datum.
Proof.
  unfold eval_item.
  change (l_pre (subst_leaf doc l)) with (l_pre l).
  destruct (pre_apply (l_pre l) datum) as [v | e]; [ | reflexivity].
  rewrite call_leaf_subst. reflexivity.
Qed.

Lemma filter_leaf_subst (doc : pyval) (l : leaf arg1) (d : data) :
  filter_leaf T (resolve1 T (Some doc)) (subst_leaf doc l) d = filter_leaf T (resolve1 T (Some doc)) l d.
Proof.
  unfold filter_leaf.
  change (l_kind (subst_leaf doc l)) with (l_kind l).
  rewrite (mapM_ext_all (eval_item T (resolve1 T (Some doc)) (subst_leaf doc l))
                        (eval_item T (resolve1 T (Some doc)) l)); [reflexivity | ].
  intros datum. apply eval_item_subst.
Qed.

Theorem C17_subst_filter : forall doc (c : cond arg1) d,
  filter_tree T (resolve1 T (Some doc)) (subst_cond doc c) d = filter_tree T (resolve1 T (Some doc)) c d.
Proof.
  intros doc c d. induction c as [l | o a IHa b IHb].
  - cbn [subst_cond filter_tree]. apply filter_leaf_subst.
  - cbn [subst_cond filter_tree]. rewrite IHa, IHb. reflexivity.
Qed.

(* ------------------------------------------------------------------ *)
(* 2. the verdict of the rule                                           *)

Lemma has_non_value_leaf_subst (doc : pyval) (c : cond arg1) :
  has_non_value_leaf (subst_cond doc c) = has_non_value_leaf c.
Proof.
  induction c as [l | o a IHa b IHb].
  - reflexivity.
  - cbn [subst_cond has_non_value_leaf]. rewrite IHa, IHb. reflexivity.
Qed.

(* the general form: substitution with the document the rule is judged on *)
Theorem C17_subst_judge : forall r doc, judge T (subst_rule doc r) doc = judge T r doc.
Proof.
  intros r doc. unfold judge.
  change (r_path (subst_rule doc r)) with (r_path r).
  change (r_cond (subst_rule doc r)) with (subst_cond doc (r_cond r)).
  destruct (selection T (r_path r) doc) as [sel | e]; [ | reflexivity].
  cbn [bind]. destruct sel as [ | s sel']; [reflexivity | ].
  rewrite has_non_value_leaf_subst, C17_subst_filter.
  destruct (r_cond r) as [l | o a b]; reflexivity.
Qed.

Theorem C17_subst_rule_test_nocast : forall r doc,
  r_cast r = [] -> rule_test T (subst_rule doc r) doc None = rule_test T r doc None.
Proof.
  intros r doc Hcast. unfold rule_test.
  change (r_cast (subst_rule doc r)) with (r_cast r).
  rewrite Hcast, C17_subst_judge. reflexivity.
Qed.

(* With casts the rule is judged on the cast copy: substituting with THAT document preserves the
   verdict (substituting with the uncast document is not claimed). *)
Theorem C17_subst_rule_test_cast : forall r doc copy sel cp1,
  r_cast r <> [] ->
  selection T (r_path r) doc = Ok sel ->
  cast_loop (r_cast r) sel (match copy with Some c => c | None => doc end) = Ok cp1 ->
  rule_test T (subst_rule cp1 r) doc copy = rule_test T r doc copy.
Proof.
  intros r doc copy sel cp1 Hcast Hsel Hloop. unfold rule_test.
  change (r_cast (subst_rule cp1 r)) with (r_cast r).
  change (r_path (subst_rule cp1 r)) with (r_path r).
  destruct (mk_data doc) as [d | e]; [ | reflexivity].
  cbn [bind]. destruct (r_cast r) as [ | cf casts] eqn:Ec; [contradiction Hcast; reflexivity | ].
  rewrite Hsel. cbn [bind]. rewrite Hloop. cbn [bind].
  rewrite C17_subst_judge. reflexivity.
Qed.

(* ------------------------------------------------------------------ *)
(* 4. an argument that cannot be resolved is a callable error, not an abort *)

Section Unresolvable.
  Variable A : Type.
  Variable resolve : A -> res pyval.

  Lemma eval_item_args_err (l : leaf A) (datum v : pyval) (e : exc) :
    pre_apply (l_pre l) datum = Ok v ->
    mapM resolve (l_args l) = Err e ->
    eval_item T resolve l datum = if catches (t_caught_call T) e then Ok (false, true, false) else Err e.
  Proof.
    intros Hpre Hm. unfold eval_item, call_leaf. rewrite Hpre, Hm. reflexivity.
  Qed.

  Lemma eval_item_kwargs_err (l : leaf A) (datum v : pyval) (args : list pyval) (e : exc) :
    pre_apply (l_pre l) datum = Ok v ->
    mapM resolve (l_args l) = Ok args ->
    resolve_kw A resolve (l_kwargs l) = Err e ->
    eval_item T resolve l datum = if catches (t_caught_call T) e then Ok (false, true, false) else Err e.
  Proof.
    intros Hpre Hm Hk. unfold eval_item, call_leaf. rewrite Hpre, Hm. cbn [bind]. rewrite Hk. reflexivity.
  Qed.
End Unresolvable.

Theorem C17_unresolvable : forall doc (l : leaf arg1) datum v e,
  pre_apply (l_pre l) datum = Ok v ->
  catches (t_caught_call T) e = true ->
  ( mapM (resolve1 T (Some doc)) (l_args l) = Err e
    \/ (exists args, mapM (resolve1 T (Some doc)) (l_args l) = Ok args
                     /\ resolve_kw arg1 (resolve1 T (Some doc)) (l_kwargs l) = Err e) ) ->
  eval_item T (resolve1 T (Some doc)) l datum = Ok (false, true, false).
Proof.
  intros doc l datum v e Hpre Hc [Hm | [args [Hm Hk]]].
  - rewrite (eval_item_args_err arg1 _ l datum v e Hpre Hm), Hc. reflexivity.
  - rewrite (eval_item_kwargs_err arg1 _ l datum v args e Hpre Hm Hk), Hc. reflexivity.
Qed.

(* the first failing positional argument *)
Corollary C17_unresolvable_first_arg : forall doc (l : leaf arg1) datum v pre a post vs e,
  pre_apply (l_pre l) datum = Ok v ->
  l_args l = pre ++ a :: post ->
  mapM (resolve1 T (Some doc)) pre = Ok vs ->
  resolve1 T (Some doc) a = Err e ->
  catches (t_caught_call T) e = true ->
  eval_item T (resolve1 T (Some doc)) l datum = Ok (false, true, false).
Proof.
  intros doc l datum v pre a post vs e Hpre Hargs Hok Ha Hc.
  apply (C17_unresolvable doc l datum v e Hpre Hc). left.
  rewrite Hargs. exact (mapM_first_err _ pre post a vs e Hok Ha).
Qed.

(* the first failing keyword argument, all positional arguments being resolvable *)
Corollary C17_unresolvable_first_kwarg : forall doc (l : leaf arg1) datum v args pre k a post vs e,
  pre_apply (l_pre l) datum = Ok v ->
  mapM (resolve1 T (Some doc)) (l_args l) = Ok args ->
  l_kwargs l = pre ++ (k, a) :: post ->
  resolve_kw arg1 (resolve1 T (Some doc)) pre = Ok vs ->
  resolve1 T (Some doc) a = Err e ->
  catches (t_caught_call T) e = true ->
  eval_item T (resolve1 T (Some doc)) l datum = Ok (false, true, false).
Proof.
  intros doc l datum v args pre k a post vs e Hpre Hm Hkw Hok Ha Hc.
  apply (C17_unresolvable doc l datum v e Hpre Hc). right. exists args. split; [exact Hm | ].
  rewrite Hkw. exact (resolve_kw_first_err _ pre post k a vs e Hok Ha).
Qed.

(* the readable form: some argument (positional or keyword) cannot be resolved, and every
   resolution error of an argument of this leaf is one the except clause catches *)
Corollary C17_unresolvable_some_arg : forall doc (l : leaf arg1) datum v a e,
  pre_apply (l_pre l) datum = Ok v ->
  In a (l_args l ++ map snd (l_kwargs l)) ->
  resolve1 T (Some doc) a = Err e ->
  (forall a' e', In a' (l_args l ++ map snd (l_kwargs l)) ->
                 resolve1 T (Some doc) a' = Err e' -> catches (t_caught_call T) e' = true) ->
  eval_item T (resolve1 T (Some doc)) l datum = Ok (false, true, false).
Proof.
  intros doc l datum v a e Hpre Hin Ha Hall.
  destruct (mapM (resolve1 T (Some doc)) (l_args l)) as [args | e0] eqn:Em.
  - (* all positional arguments resolve: the failing one is a keyword argument *)
    apply in_app_or in Hin. destruct Hin as [Hin | Hin].
    + destruct (mapM_some_err _ _ a e Hin Ha) as [a' [e' [_ [_ Hm]]]].
      rewrite Hm in Em. discriminate Em.
    + destruct (resolve_kw_some_err _ _ a e Hin Ha) as [a' [e' [Hin' [Ha' Hk]]]].
      apply (C17_unresolvable doc l datum v e' Hpre).
      * apply (Hall a' e'); [apply in_or_app; right; exact Hin' | exact Ha'].
      * right. exists args. split; [exact Em | exact Hk].
  - (* some positional argument fails: the error is that of a failing positional argument *)
    assert (Hex : exists a' e', In a' (l_args l) /\ resolve1 T (Some doc) a' = Err e'
                                /\ mapM (resolve1 T (Some doc)) (l_args l) = Err e').
    { clear Hin Ha Hall Hpre. revert e0 Em.
      induction (l_args l) as [ | x r IH]; intros e0 Em; [discriminate Em | ].
      cbn [mapM] in *. destruct (resolve1 T (Some doc) x) as [y | ex] eqn:Ex; cbn [bind] in *.
      - destruct (mapM (resolve1 T (Some doc)) r) as [ys | er] eqn:Er; cbn [bind] in *; [discriminate Em | ].
        destruct (IH er eq_refl) as [a' [e' [Hin' [Ha' Hm]]]].
        exists a', e'. split; [right; exact Hin' | ]. split; [exact Ha' | ].
        injection Hm as Hm. subst e'. reflexivity.
      - exists x, ex. split; [left; reflexivity | ]. split; [exact Ex | reflexivity]. }
    destruct Hex as [a' [e' [Hin' [Ha' Hm]]]].
    apply (C17_unresolvable doc l datum v e' Hpre).
    + apply (Hall a' e'); [apply in_or_app; left; exact Hin' | exact Ha'].
    + left. exact Hm.
Qed.

(* ------------------------------------------------------------------ *)
(* 5. the generated except clause catches the listed resolution errors  *)

Theorem C17_resolution_errors_caught : forall e,
  In e [TypeError; AttributeError; ValueError; IndexError; KeyError; ZeroDivisionError; OverflowError] ->
  catches (t_caught_call T) e = true.
Proof.
  intros e Hin. cbn [In] in Hin.
  repeat (destruct Hin as [He | Hin]; [subst e; vm_compute; reflexivity | ]).
  destruct Hin.
Qed.

Print Assumptions C17_subst_filter.
Print Assumptions C17_subst_judge.
Print Assumptions C17_subst_rule_test_nocast.
Print Assumptions C17_subst_rule_test_cast.
Print Assumptions C17_unresolvable.
Print Assumptions C17_unresolvable_first_arg.
Print Assumptions C17_unresolvable_first_kwarg.
Print Assumptions C17_unresolvable_some_arg.
Print Assumptions C17_resolution_errors_caught.
