(* C13 extended to rules whose condition has DATA-PATH arguments.
   C13Proof / C13Glue prove the JSON round trip of rules (and schemas) whose condition is a DSL tree with LITERAL
   arguments (C11Proof.tree_in_c11).  C11PathProof has since extended the condition round trip to conditions whose
   arguments may be data paths -- Rule(path, Value.less_than(DataPath("limit"))), the main use of such arguments.
   Here the rule theorems are composed again with C11PathProof.C11P_roundtrip_eq in place of the C11 lemma.

   What changes with respect to C13: the condition read back holds the path TERMS read back from the written specs
   (C11PathProof.backs), not the terms the user wrote.  They build the same path OBJECTS (C11PathProof.path_good), so the
   rebuilt rule r' is not the record r but
        r' = {| r_path := r_path r; r_cond := cond_back sts t; r_cast := r_cast r |}          (rule_back)
   which is == to r, tests every document exactly as r does (verdict, failures, document judged, cast data) and is
   serialised to the same JSON data again.

   Main theorems: C13P_rule_roundtrip (all clauses), C13P_rule_same_behaviour, C13P_rule_eq, C13P_schema.
   No new counterexample: outside the fragment the statements fail exactly where C13 and C11P fail (their
   counterexamples are recalled at the end as closed examples on rules). *)
From Coq Require Import ZArith NArith List Bool String Ascii Lia.
From Valida Require Import Py Lang Defs Cond Dsl Check DocSem Path PathSpec Cast Str SpecDefs RuleDefs RuleTerms
  Spec SpecIO SpecSpell Eq Inst RunSpec Rule.
From Valida.Proofs Require Import PyFacts Tie C01Proof C02Proof RuleProof C09Proof C11Proof C11EscProof C12Proof C14Proof
  C13Proof C13Glue C11PathProof.
Import ListNotations.
Local Open Scope string_scope.
Local Open Scope list_scope.

Notation cmapS pts := (cond_map pyval arg1 (sub pts)).

(* ================================================================== *)
(* 1. the rules of the fragment                                         *)

(* the rule term: path term, DSL tree whose arguments are literals or (placeholders of) the data paths [sts], casts:
   Rule(path, <t with DataPath arguments>, cast=casts) *)
Definition c13p_term (pt : pathterm pyval) (sts : list spathterm) (t : qtree) (casts : list (pytype * castfn)) : ruleterm :=
  {| rt_path_t := pt; rt_cond_t := dslc_map (sub (pterms sts)) (qterm t); rt_cast_t := casts |}.

(* the condition read back: the same tree over the path terms read back from their specs *)
Definition cond_back (sts : list spathterm) (t : qtree) : cond arg1 :=
  cmapS (backs (pterms sts)) (cond_of (qnorm t)).

(* the rule read back *)
Definition rule_back (sts : list spathterm) (t : qtree) (r : rule) : rule :=
  {| r_path := r_path r; r_cond := cond_back sts t; r_cast := r_cast r |}.

(* the literal rules of C13 are the special case without paths *)
Lemma c13p_term_lit pt t casts : tree_in_c11e t = true -> c13p_term pt [] t casts = c13_term pt t casts.
Proof.
  intros H. unfold c13p_term, c13_term. f_equal.
  destruct (tree_in_c11e_inv t H) as [Hl _]. unfold leaves_c11e in Hl.
  assert (G : forall c q, In (c, q) (qleaves t) -> existsb is_ph (q_args q) = false).
  { intros c q Hin. rewrite forallb_forall in Hl. exact (leaf_c11e_no_ph c q (Hl (c, q) Hin)). }
  clear Hl H. induction t as [c q| |o a IHa b IHb]; cbn [qterm dslc_map].
  - specialize (G c q (or_introl eq_refl)). unfold q_term.
    destruct (q_call q) as [[m pos] kw] eqn:Eq. cbn [dslc_map].
    assert (Hv : existsb is_ph (pos ++ map snd kw) = false).
    { unfold q_args in G. rewrite Eq in G. exact G. }
    rewrite existsb_app in Hv. apply orb_false_iff in Hv as [Hp Hk].
    rewrite (map_sub_lit _ pos Hp). f_equal.
    pose proof (kmap_sub_lit (pterms []) kw Hk) as E. unfold kmap in E. exact E.
  - reflexivity.
  - rewrite IHa, IHb; [reflexivity| |]; intros c q Hin; apply (G c q); cbn [qleaves]; apply in_or_app; auto.
Qed.

(* ================================================================== *)
(* 2. arguments that resolve alike: the condition read back judges every document identically *)

(* against a document, a path argument is resolved through the path OBJECT it builds: the tag of APath and the term do
   not matter beyond that (the tag is looked at only when there is no source document, which Rule.test never does) *)
Lemma resolve1_path doc tag tag' t t' :
  mk_path T idlit t' = mk_path T idlit t ->
  resolve1 T (Some doc) (APath tag' t') = resolve1 T (Some doc) (APath tag t).
Proof. intros H. cbn [resolve1]. change Rule.id0 with idlit. rewrite H. reflexivity. Qed.

Lemma resolve1_sub_back pts doc v : Forall path_good pts ->
  resolve1 T (Some doc) (sub (backs pts) v) = resolve1 T (Some doc) (sub pts v).
Proof.
  intros Hg. destruct v as [| | | | | | | | |k]; try reflexivity. cbn [sub]. unfold backs.
  destruct (nth_error pts (N.to_nat k)) as [t|] eqn:E.
  - rewrite (map_nth_error path_back _ _ E). apply resolve1_path.
    rewrite Forall_forall in Hg. destruct (Hg t (nth_error_In _ _ E)) as [p [d [Hp [_ [_ [_ [_ [Hb _]]]]]]]].
    rewrite Hb, Hp. reflexivity.
  - assert (E' : nth_error (map path_back pts) (N.to_nat k) = None).
    { apply nth_error_None. rewrite map_length. apply nth_error_None. exact E. }
    rewrite E'. reflexivity.
Qed.

(* the general lemma: two substitutions of the arguments that resolve alike against every document give conditions
   that filter alike, hence rules that are judged alike *)
Section ResolveAlike.
  Variables f g : pyval -> arg1.
  Hypothesis Hfg : forall doc v, resolve1 T (Some doc) (f v) = resolve1 T (Some doc) (g v).

  Lemma filter_tree_alike doc (c : cond pyval) d :
    filter_tree T (resolve1 T (Some doc)) (cond_map pyval arg1 f c) d =
    filter_tree T (resolve1 T (Some doc)) (cond_map pyval arg1 g c) d.
  Proof.
    rewrite (filter_tree_map pyval arg1 f T (fun v => resolve1 T (Some doc) (g v)) (resolve1 T (Some doc)) (Hfg doc)).
    rewrite (filter_tree_map pyval arg1 g T (fun v => resolve1 T (Some doc) (g v)) (resolve1 T (Some doc)) (fun v => eq_refl)).
    reflexivity.
  Qed.

  Lemma judge_alike p (c : cond pyval) casts doc :
    judge T {| r_path := p; r_cond := cond_map pyval arg1 f c; r_cast := casts |} doc =
    judge T {| r_path := p; r_cond := cond_map pyval arg1 g c; r_cast := casts |} doc.
  Proof.
    unfold judge. cbn [r_path r_cond].
    destruct (selection T p doc) as [sel|e]; cbn [bind]; [|reflexivity].
    destruct sel as [|x sel]; [reflexivity|].
    rewrite !has_non_value_leaf_map, (filter_tree_alike doc c).
    destruct c as [l|o a b]; cbn [cond_map leaf_map l_kind]; reflexivity.
  Qed.

  Lemma rule_test_alike p (c : cond pyval) casts doc copy :
    rule_test T {| r_path := p; r_cond := cond_map pyval arg1 f c; r_cast := casts |} doc copy =
    rule_test T {| r_path := p; r_cond := cond_map pyval arg1 g c; r_cast := casts |} doc copy.
  Proof.
    unfold rule_test. cbn [r_path r_cast].
    destruct (mk_data doc) as [u|e]; cbn [bind]; [|reflexivity].
    destruct casts as [|c0 cs].
    - rewrite judge_alike. reflexivity.
    - destruct (selection T p doc) as [sel|e]; cbn [bind]; [|reflexivity].
      destruct (cast_loop _ sel _) as [cp1|e]; cbn [bind]; [|reflexivity].
      rewrite judge_alike. reflexivity.
  Qed.
End ResolveAlike.

(* the rule read back tests every document as the rule written *)
Lemma rule_back_same_test sts t p casts doc copy : Forall path_good (pterms sts) ->
  rule_test T {| r_path := p; r_cond := cond_back sts t; r_cast := casts |} doc copy =
  rule_test T {| r_path := p; r_cond := cond_p sts t; r_cast := casts |} doc copy.
Proof.
  intros Hg. unfold cond_back, cond_p.
  exact (rule_test_alike _ _ (fun d v => resolve1_sub_back (pterms sts) d v Hg) p _ casts doc copy).
Qed.

(* ================================================================== *)
(* 3. the rule round trip                                               *)

Lemma tree_in_c11p_paths sts t : tree_in_c11p sts t = true -> Forall path_good (pterms sts).
Proof.
  unfold tree_in_c11p. intros H.
  apply andb_true_iff in H as [H _]. apply andb_true_iff in H as [H _]. apply andb_true_iff in H as [H _].
  exact (path_args_good sts H).
Qed.

(* what mk_rule builds from a term of the fragment *)
Lemma c13p_term_rule pt sts t casts r : tree_in_c11p sts t = true ->
  mk_rule T (c13p_term pt sts t casts) = Ok r ->
  exists p, mk_path T idlit pt = Ok p /\ r = {| r_path := p; r_cond := cond_p sts t; r_cast := casts |}.
Proof.
  intros Ht Hr. unfold mk_rule, c13p_term in Hr. cbn [rt_path_t rt_cond_t rt_cast_t] in Hr.
  apply bind_ok in Hr as [p [Hp Hr]]. rewrite (C11P_cond_is_built sts t Ht) in Hr. cbn [bind] in Hr. injection Hr as <-.
  exists p. split; [exact Hp|reflexivity].
Qed.

(* General form: ANY path term that round-trips (C13Proof.path_roundtrips).  Every clause of the property:
   what to_json_like writes is pure JSON data; from_spec reads it; the term read builds the rule [rule_back sts t r]
   (same path object, same casts, the condition over the path terms read back); the cast block is reported as given
   exactly when it was; doc is not written; the rebuilt rule is == to the original (under the side conditions of the
   reflexivity of == on the path and the casts, as in C13_rule_eq); it tests every document identically; and it is
   written as the same data again. *)
Theorem C13P_rule_roundtrip_gen : forall pt sts t casts g r,
  path_roundtrips pt -> tree_in_c11p sts t = true -> casts_in_c13 casts = true -> flag_ok casts g ->
  mk_rule T (c13p_term pt sts t casts) = Ok r ->
  exists j rt' ex r',
    rule_to_json T X (r_path r) (r_cond r) (r_cast r) g = Ok j /\ json_pure j = true /\
    rule_from_spec T X j = Ok (rt', ex) /\ mk_rule T rt' = Ok r' /\ rx_cast_given ex = g /\ rx_doc ex = VNone /\
    r' = rule_back sts t r /\
    (path_eqb (r_path r) (r_path r) = true -> casts_wf casts -> rule_eqb T r' r g g = true) /\
    (forall doc copy, rule_test T r' doc copy = rule_test T r doc copy) /\
    rule_to_json T X (r_path r') (r_cond r') (r_cast r') g = Ok j.
Proof.
  intros pt sts t casts g r Hp Ht Hc Hg Hr.
  destruct (c13p_term_rule pt sts t casts r Ht Hr) as [p [Hmk ->]].
  cbn [r_path r_cond r_cast].
  destruct (C11P_roundtrip_eq sts t Ht) as [Hj [Hjp [[tm Hs] [He Hj2]]]]. cbv zeta in Hj, Hjp, Hs, He, Hj2.
  fold (cond_back sts t) in Hs, He, Hj2.
  destruct (Hp p Hmk) as [specs [t' [Hps [Hpp [Hfs Hmk']]]]].
  destruct (cast_block_ok casts g Hc Hg) as [Hk [Hkp Hkr]].
  set (J := tree_js (pterms sts) (qnorm t)) in *.
  exists (VDict [(VStr "condition", J); (VStr "cast", cast_block casts g); (VStr "path", VList specs)]).
  exists {| rt_path_t := t'; rt_cond_t := tm; rt_cast_t := casts |}, {| rx_doc := VNone; rx_cast_given := g |}.
  exists {| r_path := p; r_cond := cond_back sts t; r_cast := casts |}.
  split; [|split; [|split; [|split; [|split; [|split; [|split; [|split; [|split]]]]]]]]; try reflexivity.
  - unfold rule_to_json. rewrite Hj. cbn [bind]. rewrite Hk. cbn [bind]. rewrite Hps. reflexivity.
  - rewrite json_pure_rule, Hjp, Hkp, Hpp. reflexivity.
  - unfold rule_from_spec. rewrite get_path. cbn [bind py_iter]. rewrite Hfs. cbn [bind].
    rewrite get_condition. cbn [bind]. rewrite Hs. cbn [bind]. rewrite get_doc. cbn [norm_doc bind].
    rewrite get_cast, Hkr. reflexivity.
  - unfold mk_rule. cbn [rt_path_t rt_cond_t rt_cast_t]. change Rule.id0 with idlit. rewrite Hmk'. cbn [bind].
    rewrite (cond1_from_spec_build1 _ _ _ Hs). reflexivity.
  - intros Hpe Hcw. unfold rule_eqb. cbn [r_path r_cond r_cast]. rewrite Hpe, He, (casts_eqb_refl casts Hcw), Bool.eqb_reflx.
    reflexivity.
  - intros doc copy. exact (rule_back_same_test sts t p casts doc copy (tree_in_c11p_paths sts t Ht)).
  - cbn [r_path r_cond r_cast]. unfold rule_to_json. rewrite Hj2. cbn [bind]. rewrite Hk. cbn [bind]. rewrite Hps. reflexivity.
Qed.

(* the target: the rule's path in the C12 fragment, without modifier and source data (as in C13_rule).
   The == clause carries the side conditions of the reflexivity of == (as in C13_rule_eq): the path is == to itself
   (the computable test C11PathProof.path_self_eq; in the model it fails only for ill-formed values, e.g. a label
   mapping with a repeated key, which is not a Python object: C13P_counterexample_self_eq) and the from-types of the casts are
   distinct (they are the keys of a Python dict: the model keeps a list). *)
Theorem C13P_rule_roundtrip : forall st sts t casts g r,
  path_in_c12 st = true -> st_mods st = [] -> st_src st = None ->
  tree_in_c11p sts t = true -> casts_in_c13 casts = true -> flag_ok casts g ->
  mk_rule T (c13p_term (spathterm_term st) sts t casts) = Ok r ->
  exists j rt' ex r',
    rule_to_json T X (r_path r) (r_cond r) (r_cast r) g = Ok j /\ json_pure j = true /\
    rule_from_spec T X j = Ok (rt', ex) /\ mk_rule T rt' = Ok r' /\ rx_cast_given ex = g /\ rx_doc ex = VNone /\
    r' = rule_back sts t r /\
    (path_self_eq (spathterm_term st) = true -> casts_wf casts -> rule_eqb T r' r g g = true) /\
    (forall doc copy, rule_test T r' doc copy = rule_test T r doc copy) /\
    rule_to_json T X (r_path r') (r_cond r') (r_cast r') g = Ok j.
Proof.
  intros st sts t casts g r Hin Hm Hs Ht Hc Hg Hr.
  destruct (C13P_rule_roundtrip_gen _ sts t casts g r (c12_path_roundtrips st Hin Hm Hs) Ht Hc Hg Hr)
    as [j [rt' [ex [r' [H1 [H2 [H3 [H4 [H5 [H6 [H7 [H8 [H9 H10]]]]]]]]]]]]].
  exists j, rt', ex, r'. repeat split; try assumption.
  intros Hse Hcw. apply H8; [|exact Hcw].
  destruct (c13p_term_rule _ sts t casts r Ht Hr) as [p [Hmk ->]]. cbn [r_path].
  unfold path_self_eq in Hse. rewrite Hmk in Hse. exact Hse.
Qed.

(* the condition of the rule is the one C11P is about; the rule is the one the API builds from the path arguments *)
Theorem C13P_rule_is_built : forall pt sts t casts r,
  tree_in_c11p sts t = true -> mk_rule T (c13p_term pt sts t casts) = Ok r ->
  r_cond r = cond_p sts t /\ r_cast r = casts /\ mk_path T idlit pt = Ok (r_path r).
Proof.
  intros pt sts t casts r Ht Hr. destruct (c13p_term_rule pt sts t casts r Ht Hr) as [p [Hmk ->]]. repeat split. exact Hmk.
Qed.

(* validates identically: the statement in the style of C13_rule_behaviour *)
Corollary C13P_rule_same_behaviour : forall pt sts t casts g r,
  path_roundtrips pt -> tree_in_c11p sts t = true -> casts_in_c13 casts = true -> flag_ok casts g ->
  mk_rule T (c13p_term pt sts t casts) = Ok r ->
  exists j rt' ex r',
    rule_to_json T X (r_path r) (r_cond r) (r_cast r) g = Ok j /\ json_pure j = true /\
    rule_from_spec T X j = Ok (rt', ex) /\ mk_rule T rt' = Ok r' /\ r' = rule_back sts t r /\ rx_cast_given ex = g /\
    forall doc copy, rule_test T r' doc copy = rule_test T r doc copy.
Proof.
  intros pt sts t casts g r Hp Ht Hc Hg Hr.
  destruct (C13P_rule_roundtrip_gen pt sts t casts g r Hp Ht Hc Hg Hr)
    as [j [rt' [ex [r' [H1 [H2 [H3 [H4 [H5 [H6 [H7 [H8 [H9 H10]]]]]]]]]]]]].
  exists j, rt', ex, r'. repeat split; assumption.
Qed.

(* == : the statement in the style of C13_rule_eq *)
Corollary C13P_rule_eq : forall pt sts t casts g r,
  path_roundtrips pt -> tree_in_c11p sts t = true -> casts_in_c13 casts = true -> flag_ok casts g ->
  mk_rule T (c13p_term pt sts t casts) = Ok r ->
  path_eqb (r_path r) (r_path r) = true -> casts_wf casts ->
  exists j rt' ex r',
    rule_to_json T X (r_path r) (r_cond r) (r_cast r) g = Ok j /\ json_pure j = true /\
    rule_from_spec T X j = Ok (rt', ex) /\ mk_rule T rt' = Ok r' /\
    rule_eqb T r' r (rx_cast_given ex) g = true.
Proof.
  intros pt sts t casts g r Hp Ht Hc Hg Hr Hpe Hcw.
  destruct (C13P_rule_roundtrip_gen pt sts t casts g r Hp Ht Hc Hg Hr)
    as [j [rt' [ex [r' [H1 [H2 [H3 [H4 [H5 [H6 [H7 [H8 [H9 H10]]]]]]]]]]]]].
  exists j, rt', ex, r'. repeat split; try assumption. rewrite H5. exact (H8 Hpe Hcw).
Qed.

(* a rule without path arguments (the literal fragment of C11 with escaped mappings, which contains tree_in_c11):
   the term is the term of C13, nothing is read back differently, so r' = r as in C13_rule *)
Corollary C13P_includes_literal : forall pt t casts r,
  tree_in_c11e t = true -> mk_rule T (c13p_term pt [] t casts) = Ok r ->
  tree_in_c11p [] t = true /\ c13p_term pt [] t casts = c13_term pt t casts /\ rule_back [] t r = r.
Proof.
  intros pt t casts r H Hr. destruct (C11P_includes_c11e t H) as [Hp _].
  split; [exact Hp|]. split; [exact (c13p_term_lit pt t casts H)|].
  destruct (c13p_term_rule pt [] t casts r Hp Hr) as [p [_ ->]]. reflexivity.
Qed.

(* ================================================================== *)
(* 4. schemas: lists of rules, element-wise                             *)

(* rules that agree on path, casts and on every test *)
Definition rule_alike (r' r : rule) : Prop :=
  r_path r' = r_path r /\ r_cast r' = r_cast r /\ forall doc copy, rule_test T r' doc copy = rule_test T r doc copy.

Lemma insert_by_len_alike r' r l' l : rule_alike r' r -> Forall2 rule_alike l' l ->
  Forall2 rule_alike (insert_by_len r' l') (insert_by_len r l).
Proof.
  intros Hr Hl. induction Hl as [|x' x l' l Hx Hl IH]; cbn [insert_by_len].
  - constructor; [exact Hr|constructor].
  - destruct Hr as [Hp Hrest]. destruct Hx as [Hxp Hxrest]. rewrite Hp, Hxp.
    destruct (List.length (p_parts (r_path x)) <? List.length (p_parts (r_path r)))%nat.
    + constructor; [split; assumption|exact IH].
    + constructor; [split; assumption|]. constructor; [split; assumption|exact Hl].
Qed.

Lemma sort_rules_alike rs' rs : Forall2 rule_alike rs' rs -> Forall2 rule_alike (sort_rules rs') (sort_rules rs).
Proof.
  unfold sort_rules. induction 1 as [|r' r l' l Hr Hl IH]; cbn [fold_right]; [constructor|].
  exact (insert_by_len_alike r' r _ _ Hr IH).
Qed.

Lemma run_rules_alike rs' rs : Forall2 rule_alike rs' rs ->
  forall doc copy, run_rules T rs' doc copy = run_rules T rs doc copy.
Proof.
  induction 1 as [|r' r l' l Hr Hl IH]; intros doc copy; cbn [run_rules]; [reflexivity|].
  destruct Hr as [_ [_ Ht]]. rewrite Ht.
  destruct (rule_test T r doc (Some copy)) as [[t copy']|e]; cbn [bind]; [|reflexivity].
  rewrite IH. reflexivity.
Qed.

Lemma refresh_tests_alike final rs' rs : Forall2 rule_alike rs' rs ->
  forall ts, refresh_tests final rs' ts = refresh_tests final rs ts.
Proof.
  induction 1 as [|r' r l' l Hr Hl IH]; intros ts; cbn [refresh_tests]; [reflexivity|].
  destruct ts as [|t ts]; [reflexivity|]. rewrite IH. destruct Hr as [_ [Hc _]].
  unfold refresh_test. rewrite Hc. reflexivity.
Qed.

(* Schema.validate depends on the rules only through their paths (the order), casts and tests *)
Lemma validate_alike rs' rs doc : Forall2 rule_alike rs' rs -> validate T rs' doc = validate T rs doc.
Proof.
  intros H. unfold validate. pose proof (sort_rules_alike rs' rs H) as Hs.
  destruct (mk_data doc) as [u|e]; cbn [bind]; [|reflexivity].
  rewrite (run_rules_alike _ _ Hs doc doc).
  destruct (run_rules T (sort_rules rs) doc doc) as [[ts0 copy]|e]; cbn [bind]; [|reflexivity].
  rewrite (refresh_tests_alike copy _ _ Hs ts0). reflexivity.
Qed.

(* how the rules of the fragment are written with the API *)
Record c13p_rule := {
  pr_path : pathterm pyval;                    (* the rule's path *)
  pr_args : list spathterm;                    (* the data paths used as arguments of the condition *)
  pr_tree : qtree;                             (* the condition; VObj n stands for the n-th of them *)
  pr_casts : list (pytype * castfn);
  pr_given : bool
}.

Definition rule_in_c13p (x : c13p_rule) : Prop :=
  path_roundtrips (pr_path x) /\ tree_in_c11p (pr_args x) (pr_tree x) = true /\ casts_in_c13 (pr_casts x) = true
  /\ flag_ok (pr_casts x) (pr_given x).

Definition mk_rule_obj_p (x : c13p_rule) : res rule_obj :=
  let* r := mk_rule T (c13p_term (pr_path x) (pr_args x) (pr_tree x) (pr_casts x)) in Ok (r, pr_given x).

(* the schema read back, rule by rule *)
Definition obj_back (x : c13p_rule) (ro : rule_obj) : rule_obj := (rule_back (pr_args x) (pr_tree x) (fst ro), snd ro).
Fixpoint schema_back (xs : list c13p_rule) (s : list rule_obj) : list rule_obj :=
  match xs, s with x :: xs', ro :: s' => obj_back x ro :: schema_back xs' s' | _, _ => [] end.

Definition obj_json (ro : rule_obj) : res pyval :=
  rule_to_json T X (r_path (fst ro)) (r_cond (fst ro)) (r_cast (fst ro)) (snd ro).
Definition obj_self_eq (ro : rule_obj) : Prop :=
  path_eqb (r_path (fst ro)) (r_path (fst ro)) = true /\ casts_wf (r_cast (fst ro)).

Lemma rule_obj_roundtrip_p x ro : rule_in_c13p x -> mk_rule_obj_p x = Ok ro ->
  exists j, obj_json ro = Ok j /\ json_pure j = true /\ rule_from_json j = Ok (obj_back x ro) /\
            obj_json (obj_back x ro) = Ok j /\ rule_alike (fst (obj_back x ro)) (fst ro) /\
            (obj_self_eq ro -> rule_eqb T (fst (obj_back x ro)) (fst ro) (snd (obj_back x ro)) (snd ro) = true).
Proof.
  intros [Hp [Ht [Hc Hg]]] H. unfold mk_rule_obj_p in H. apply bind_ok in H as [r [Hr H]]. injection H as <-.
  destruct (C13P_rule_roundtrip_gen _ _ _ _ _ r Hp Ht Hc Hg Hr)
    as [j [rt' [ex [r' [H1 [H2 [H3 [H4 [H5 [H6 [H7 [H8 [H9 H10]]]]]]]]]]]]].
  destruct (C13P_rule_is_built _ _ _ _ r Ht Hr) as [_ [Hcast _]].
  exists j. unfold obj_json, obj_back. cbn [fst snd]. subst r'.
  split; [exact H1|]. split; [exact H2|]. split; [|split; [exact H10|split]].
  - unfold rule_from_json. rewrite H3. cbn [bind]. rewrite H4. cbn [bind]. rewrite H5. reflexivity.
  - split; [reflexivity|]. split; [reflexivity|]. exact H9.
  - intros [Hpe Hcw]. cbn [fst] in Hpe, Hcw. rewrite Hcast in Hcw. exact (H8 Hpe Hcw).
Qed.

(* A schema of the fragment is written as a pure JSON list and read back as the list of the rules read back
   (schema_back: same paths, same casts, conditions over the path terms read back); the rebuilt schema validates every
   document exactly like the original (verdict, number of failures, number of rules tested, every rule test with its
   failures, the cast data), is written as the same data again, and is == to the original under the side conditions
   of the reflexivity of == (as in C13_schema_eq). *)
Theorem C13P_schema : forall xs s,
  Forall rule_in_c13p xs -> mapM mk_rule_obj_p xs = Ok s ->
  exists j s', schema_to_json s = Ok j /\ json_pure j = true /\ schema_from_json j = Ok s' /\ s' = schema_back xs s /\
    (forall doc, validate T (map fst s') doc = validate T (map fst s) doc) /\
    schema_to_json s' = Ok j /\
    (Forall obj_self_eq s -> schema_eqb T s' s = true).
Proof.
  intros xs s Hin Hs.
  assert (G : exists js,
    mapM obj_json s = Ok js /\ forallb json_pure js = true /\ mapM rule_from_json js = Ok (schema_back xs s) /\
    mapM obj_json (schema_back xs s) = Ok js /\
    Forall2 rule_alike (map fst (schema_back xs s)) (map fst s) /\
    (Forall obj_self_eq s -> schema_eqb T (schema_back xs s) s = true)).
  { revert s Hs. induction Hin as [|x xs Hx _ IH]; cbn [mapM]; intros s Hs.
    - injection Hs as <-. exists []. repeat split; try reflexivity. constructor.
    - apply bind_ok in Hs as [ro [Hro Hs]]. apply bind_ok in Hs as [s' [Hs' Hs]]. injection Hs as <-.
      destruct (rule_obj_roundtrip_p x ro Hx Hro) as [j [H1 [H2 [H3 [H4 [H5 H6]]]]]].
      destruct (IH s' Hs') as [js [G1 [G2 [G3 [G4 [G5 G6]]]]]].
      exists (j :: js). cbn [mapM forallb schema_back map]. rewrite H1, G1, H2, G2, H3, G3, H4, G4.
      repeat split; try reflexivity.
      + constructor; [exact H5|exact G5].
      + intros Hok. inversion Hok as [|ro' s'' Hro' Hok']; subst.
        unfold schema_eqb. cbn [list_eqb]. fold (schema_eqb T (schema_back xs s') s').
        rewrite (H6 Hro'), (G6 Hok'). reflexivity. }
  destruct G as [js [G1 [G2 [G3 [G4 [G5 G6]]]]]]. exists (VList js), (schema_back xs s).
  unfold schema_to_json, schema_from_json. fold obj_json. rewrite G1, G4. cbn [bind py_iter json_pure].
  repeat split; try assumption.
  intros doc. exact (validate_alike _ _ doc G5).
Qed.

(* the schemas over paths of the C12 fragment *)
Lemma rule_in_c13p_c12 st sts t casts g :
  path_in_c12 st = true -> st_mods st = [] -> st_src st = None ->
  tree_in_c11p sts t = true -> casts_in_c13 casts = true -> flag_ok casts g ->
  rule_in_c13p {| pr_path := spathterm_term st; pr_args := sts; pr_tree := t; pr_casts := casts; pr_given := g |}.
Proof.
  intros Hin Hm Hs Ht Hc Hg. split; [exact (c12_path_roundtrips st Hin Hm Hs)|]. repeat split; assumption.
Qed.

(* ================================================================== *)
(* 5. non-vacuity: the statements evaluated on concrete rules           *)

(* Rule(["items", ListValue()], Value.less_than(DataPath("limit")), cast={str: int}) *)
Definition exp_path : spathterm :=
  {| st_parts := [SPrim (VStr "items"); STList None None None None]; st_mods := []; st_src := None |}.
Definition exp_limit : spathterm := {| st_parts := [SPrim (VStr "limit")]; st_mods := []; st_src := None |}.
(* DataPath("limits", ListValue()).first() *)
Definition exp_limits : spathterm :=
  {| st_parts := [SPrim (VStr "limits"); STList None None None None]; st_mods := ["first"]; st_src := None |}.
Definition exp_args : list spathterm := [exp_limit; exp_limits].
Definition exp_tree : qtree := QLeaf SValue (Q_less_than (VObj 0)).
(* Value.less_than(DataPath("limit")) & Value.greater_than(DataPath("limits", ListValue()).first()) *)
Definition exp_tree2 : qtree :=
  QBin BoAnd (QLeaf SValue (Q_less_than (VObj 0))) (QLeaf SValue (Q_greater_than (VObj 1))).

Definition exp_rule : c13p_rule :=
  {| pr_path := spathterm_term exp_path; pr_args := exp_args; pr_tree := exp_tree;
     pr_casts := [(TStr, CastStrInt)]; pr_given := true |}.
Definition exp_rule2 : c13p_rule :=
  {| pr_path := spathterm_term exp_path; pr_args := exp_args; pr_tree := exp_tree2;
     pr_casts := [(TStr, CastStrInt)]; pr_given := true |}.
(* a literal rule next to them: Rule(["limit"], Value.dtype.equal_to(int)) *)
Definition exp_rule3 : c13p_rule :=
  {| pr_path := spathterm_term exp_limit; pr_args := []; pr_tree := QLeaf SValueDataType (Q_equal_to (VType TInt));
     pr_casts := []; pr_given := false |}.

Example exp_in_fragment :
  path_in_c12 exp_path = true /\ st_mods exp_path = [] /\ st_src exp_path = None /\
  tree_in_c11p exp_args exp_tree = true /\ tree_in_c11p exp_args exp_tree2 = true /\
  casts_in_c13 [(TStr, CastStrInt)] = true /\ path_self_eq (spathterm_term exp_path) = true.
Proof. vm_compute. repeat split. Qed.

Example exp_in : rule_in_c13p exp_rule /\ rule_in_c13p exp_rule2 /\ rule_in_c13p exp_rule3.
Proof.
  split; [|split]; (apply rule_in_c13p_c12; [vm_compute; reflexivity|reflexivity|reflexivity|vm_compute; reflexivity
                                              |vm_compute; reflexivity|intros H; try discriminate H; reflexivity]).
Qed.

Definition exp_doc : pyval :=
  VDict [(VStr "limit", VInt 5); (VStr "limits", VList [VInt 1; VInt 9]); (VStr "items", VList [VStr "3"; VInt 7])].

(* the whole round trip computed by the model, independently of the proofs (C13Proof.rtrip):
   (JSON written, pure, rebuilt == original, test of the original, test of the rebuilt rule);
   "3" is cast to 3 < 5, 7 fails *)
Example exp_roundtrip :
  rtrip (c13p_term (spathterm_term exp_path) exp_args exp_tree [(TStr, CastStrInt)]) true exp_doc =
  Ok (VDict [(VStr "condition", VDict [(VStr "value.less_than", VDict [(VStr "path", VList [VStr "limit"])])]);
             (VStr "cast", VDict [(VStr "str", VStr "int")]);
             (VStr "path", VList [VStr "items"; VDict [(VStr "type", VStr "list_value")]])],
      true, true,
      Ok (false, true, 1%nat, VDict [(VStr "limit", VInt 5); (VStr "limits", VList [VInt 1; VInt 9]); (VStr "items", VList [VInt 3; VInt 7])]),
      Ok (false, true, 1%nat, VDict [(VStr "limit", VInt 5); (VStr "limits", VList [VInt 1; VInt 9]); (VStr "items", VList [VInt 3; VInt 7])])).
Proof. vm_compute. reflexivity. Qed.

(* two path arguments, one with a generic part and a modifier (replayed on the Python source: same data, ==, same verdicts) *)
Example exp_roundtrip2 :
  rtrip (c13p_term (spathterm_term exp_path) exp_args exp_tree2 [(TStr, CastStrInt)]) true exp_doc =
  Ok (VDict [(VStr "condition",
               VDict [(VStr "and", VList [
                 VDict [(VStr "value.less_than", VDict [(VStr "path", VList [VStr "limit"])])];
                 VDict [(VStr "value.greater_than",
                         VDict [(VStr "path.first", VList [VStr "limits"; VDict [(VStr "type", VStr "list_value")]])])]])]);
             (VStr "cast", VDict [(VStr "str", VStr "int")]);
             (VStr "path", VList [VStr "items"; VDict [(VStr "type", VStr "list_value")]])],
      true, true,
      Ok (false, true, 1%nat, VDict [(VStr "limit", VInt 5); (VStr "limits", VList [VInt 1; VInt 9]); (VStr "items", VList [VInt 3; VInt 7])]),
      Ok (false, true, 1%nat, VDict [(VStr "limit", VInt 5); (VStr "limits", VList [VInt 1; VInt 9]); (VStr "items", VList [VInt 3; VInt 7])])).
Proof. vm_compute. reflexivity. Qed.

(* the rebuilt rule is NOT the record that was serialised: the path term read back spells ListValue() with the null
   condition from_spec puts there (it builds the same path object) *)
Example exp_rule_back_differs :
  match mk_rule T (c13p_term (spathterm_term exp_path) exp_args exp_tree2 [(TStr, CastStrInt)]) with
  | Ok r =>
      r_cond (rule_back exp_args exp_tree2 r) <> r_cond r /\
      r_cond (rule_back exp_args exp_tree2 r) =
        CBin BoAnd
          (CLeaf {| l_cls := "Value"; l_kind := DValue; l_pre := PNone; l_call := "less_than"; l_args := [];
                    l_kwargs := [("value", APath 0%N {| pt_parts := [PtPrim (VStr "limit")]; pt_mods := []; pt_src := None |})] |})
          (CLeaf {| l_cls := "Value"; l_kind := DValue; l_pre := PNone; l_call := "greater_than"; l_args := [];
                    l_kwargs := [("value", APath 0%N {| pt_parts := [PtPrim (VStr "limits"); PtList None None (Some (KCond DNull)) None];
                                                        pt_mods := ["first"]; pt_src := None |})] |})
  | Err _ => False
  end.
Proof. vm_compute. split; [intros H; discriminate H|reflexivity]. Qed.

Example exp_schema :
  (let* s := mapM mk_rule_obj_p [exp_rule; exp_rule2; exp_rule3] in
   let* j := schema_to_json s in
   let* s' := schema_from_json j in
   let* j' := schema_to_json s' in
   Ok (json_pure j, py_eq j' j, schema_eqb T s' s,
       rmap (fun v => (v_valid v, v_num_failures v, v_num_tested v, v_cast_data v)) (validate T (map fst s) exp_doc),
       rmap (fun v => (v_valid v, v_num_failures v, v_num_tested v, v_cast_data v)) (validate T (map fst s') exp_doc)))
  = Ok (true, true, true,
        Ok (false, 2%nat, 3%nat, VDict [(VStr "limit", VInt 5); (VStr "limits", VList [VInt 1; VInt 9]); (VStr "items", VList [VInt 3; VInt 7])]),
        Ok (false, 2%nat, 3%nat, VDict [(VStr "limit", VInt 5); (VStr "limits", VList [VInt 1; VInt 9]); (VStr "items", VList [VInt 3; VInt 7])])).
Proof. vm_compute. reflexivity. Qed.

(* ================================================================== *)
(* 6. outside the fragment (the counterexamples of C11P and C13, on rules) *)

(* a path argument under a type conversion: Rule(["a"], Value.dtype.equal_to(DataPath("b").dtype())) is written, but
   from_json_like raises TypeError on what was written (the defect recorded with C11P_counterexample_dtype_path).
   Hence tree_in_c11p excludes path arguments under `dtype` classes and (keys_)is_instance. *)
Example C13P_counterexample_dtype_path :
  let sts := [{| st_parts := [SPrim (VStr "b")]; st_mods := ["dtype"]; st_src := None |}] in
  let t := QLeaf SValueDataType (Q_equal_to (VObj 0)) in
  tree_in_c11p sts t = false /\
  (let* r := mk_rule T (c13p_term (spathterm_term {| st_parts := [SPrim (VStr "a")]; st_mods := []; st_src := None |}) sts t []) in
   let* j := rule_to_json T X (r_path r) (r_cond r) (r_cast r) false in
   Ok (j, rmap (fun _ => tt) (rule_from_spec T X j))) =
  Ok (VDict [(VStr "condition", VDict [(VStr "value.dtype.equal_to", VDict [(VStr "path.dtype", VList [VStr "b"])])]);
             (VStr "cast", VNone); (VStr "path", VList [VStr "a"])], Err TypeError).
Proof. vm_compute. split; reflexivity. Qed.

(* a modifier on the RULE's path is refused (ValueError), as in C13; on an ARGUMENT path it is written (path.first above) *)
Example C13P_modified_rule_path_refused :
  rjson (c13p_term {| pt_parts := [PtPrim (VStr "items")]; pt_mods := ["length"]; pt_src := None |} exp_args exp_tree []) false
  = Err ValueError.
Proof. vm_compute. reflexivity. Qed.

(* (model only) why the == clause has the side condition path_self_eq: a label that is a mapping with a repeated key (no
   Python dict is like that) is in path_in_c12, every other clause holds, but the path -- hence the rule -- is not ==
   to itself.  The side condition casts_wf is C13's (C13_counterexample_duplicate_cast_keys). *)
Example C13P_counterexample_self_eq :
  let st := {| st_parts := [SPrim (VStr "items"); STList None None None (Some (VDict [(VStr "a", VInt 1); (VStr "a", VInt 2)]))];
               st_mods := []; st_src := None |} in
  path_in_c12 st = true /\ path_self_eq (spathterm_term st) = false /\
  rmap (fun x => match x with (_, pure, eq, t1, t2) => (pure, eq, t1, t2) end)
       (rtrip (c13p_term (spathterm_term st) exp_args exp_tree [(TStr, CastStrInt)]) true exp_doc) =
  Ok (true, false,
      Ok (false, true, 1%nat, VDict [(VStr "limit", VInt 5); (VStr "limits", VList [VInt 1; VInt 9]); (VStr "items", VList [VInt 3; VInt 7])]),
      Ok (false, true, 1%nat, VDict [(VStr "limit", VInt 5); (VStr "limits", VList [VInt 1; VInt 9]); (VStr "items", VList [VInt 3; VInt 7])])).
Proof. vm_compute. repeat split. Qed.

Print Assumptions C13P_rule_roundtrip_gen.
Print Assumptions C13P_rule_roundtrip.
Print Assumptions C13P_rule_is_built.
Print Assumptions C13P_rule_same_behaviour.
Print Assumptions C13P_rule_eq.
Print Assumptions C13P_includes_literal.
Print Assumptions C13P_schema.
