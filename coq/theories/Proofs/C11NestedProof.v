(* C11 extended to ONE-parameter callables whose argument is a list with data paths among its items, or a mapping with
   data paths among its values (NestedArgs.narg: NItems false / NDict), e.g. Value.in_([DataPath("a", 0), 1, {"path": 2}]),
   Value.equal_to({"k": DataPath("b").length(), "j": [1]}).
   Model: NestedIO.v (parser instance condn_from_spec with nested paths kept as markers; serialiser narg_to_json).
   The round trip of the paths themselves enters through C11PathProof.path_good, as in C11PathProof. *)
From Coq Require Import ZArith NArith List Bool String Ascii Lia.
From Valida Require Import Py Lang Defs Cond Dsl Check DocSem Path PathSpec Cast Str SpecDefs RuleDefs RuleTerms
  Spec SpecIO SpecSpell Eq Inst RunSpec Rule NestedArgs NestedIO.
From Valida.Proofs Require Import PyFacts Tie C01Proof C02Proof RuleProof C09Proof C11Proof C11EscProof C12Proof C11PathProof.
From Valida Require Import Rule SpecSpell NestedIO.
Import ListNotations.
Local Open Scope string_scope.
Local Open Scope list_scope.

(* ================================================================== *)
(* 0. the parser instance, one level at a time (cf. C09Proof section 0)  *)

Notation selfn f := (cond_from_spec T X narg lit_n mkpath_n inert_n (path_from_spec T X) f).
Notation stepn s := (cond_from_spec_step T X narg lit_n mkpath_n inert_n (path_from_spec T X) s).
Notation pleafn := (parse_leaf T X narg lit_n mkpath_n inert_n (path_from_spec T X)).
Notation dispatchn := (dispatch narg lit_n mkpath_n inert_n).
Notation cvaln := (coerced_val narg lit_n mkpath_n inert_n).

Lemma selfn_S f spec : selfn (S f) spec = stepn (selfn f) spec.
Proof. reflexivity. Qed.

Lemma condn_unfold spec : condn_from_spec spec = selfn 40 spec.
Proof. reflexivity. Qed.

Lemma stepn_leaf s k v :
  assoc_str k (sx_binops X) = None -> stepn s (VDict [(VStr k, v)]) = pleafn k v.
Proof.
  intros H. unfold cond_from_spec_step. cbn [py_truthy negb]. rewrite H. reflexivity.
Qed.

Lemma stepn_null s : stepn s (VDict []) = Ok (DNull, CNull).
Proof. reflexivity. Qed.

Definition leaf_tail_n (k : cclass) (call : string) (ct : ctor) (v2 : pyval) : res (dslc narg * cond narg) :=
  let* cv := coerce pfs v2 in
  let* (pos, kw) := dispatchn ct cv (is_none v2) in
  let* l := build_leaf T lit_n (k_name k) call pos kw in
  Ok (DLeaf (k_name k) call pos kw, CLeaf l).

Definition run_head_n (h : head) (v : pyval) : res (dslc narg * cond narg) :=
  match h with
  | HBad => Err MalformedCond
  | HBad1 c1 e => let* _ := conv c1 v in Err e
  | HBad2 c1 c2 => let* v1 := conv c1 v in let* _ := conv c2 v1 in Err MalformedCond
  | HGood k c1 call c2 ct => let* v1 := conv c1 v in let* v2 := conv c2 v1 in leaf_tail_n k call ct v2
  end.

Lemma parse_leaf_head_n key v : pleafn key v = run_head_n (head_of (lower_tokens key)) v.
Proof.
  unfold parse_leaf, head_of. generalize (lower_tokens key) as toks. intros toks.
  cbv zeta.
  destruct (assoc_str (hd "" toks) (sx_datum_types X)) as [cls_name|]; [|reflexivity].
  match goal with |- (if ?c then _ else _) = _ => destruct c end; [reflexivity|].
  destruct (find_class (t_classes T) cls_name) as [k0|]; [|reflexivity].
  fold (look (sx_preproc_lookup X) (nth 1 toks "")).
  fold (look (sx_callable_lookup X) (last toks "")).
  set (pre := look (sx_preproc_lookup X) (nth 1 toks "")).
  set (call0 := look (sx_callable_lookup X) (last toks "")).
  set (call := match assoc_str call0 (dsl_names T) with Some c => c | None => "" end).
  set (c2 := String.eqb call "is_instance" || String.eqb call "keys_is_instance").
  destruct (List.length toks =? 3)%nat; cbn [andb].
  - destruct (class_pre T k0 pre) as [k|e].
    + destruct (find_ctor T k call) as [ct|] eqn:Ec; destruct (String.eqb pre "dtype"); destruct c2;
        cbn [run_head_n conv bind]; rewrite ?Ec; try reflexivity;
        repeat (match goal with |- context [convert_types X ?a] => destruct (convert_types X a) end;
                cbn [bind]; rewrite ?Ec);
        reflexivity.
    + destruct (String.eqb pre "dtype"); cbn [run_head_n conv bind]; try reflexivity;
        destruct (convert_types X v) as [v1|e1]; reflexivity.
  - cbn [bind].
    destruct (find_ctor T k0 call) as [ct|]; destruct c2; cbn [run_head_n conv bind]; try reflexivity;
      destruct (convert_types X v) as [v1|e1]; reflexivity.
Qed.

(* ================================================================== *)
(* 1. items of a list argument / values of a mapping argument            *)

(* a literal item: the item fragment of C11EscProof / C11PathProof.parg_ok *)
Definition lit_item_ok (v : pyval) : bool := json_pure v && item3 v && wf_val v.

Definition item_ok1 (a : arg1) : Prop :=
  match a with ALit v => lit_item_ok v = true | APath _ t => path_good t end.

(* what is written for an item, how from_spec reads it, the item read back *)
Definition wj1 (a : arg1) : pyval := match a with ALit v => wr_item v | APath _ t => path_json t end.
Definition x1 (a : arg1) : pathterm pyval + pyval := match a with ALit v => inr v | APath _ t => inl (path_back t) end.
Definition back1 (a : arg1) : arg1 := match a with ALit _ => a | APath _ t => APath 0%N (path_back t) end.
(* the Python object from_spec puts into the list / mapping value *)
Definition yv (a : arg1) : pyval := item_val inert_n (x1 a).

Lemma lit_item_inv v : lit_item_ok v = true -> json_pure v = true /\ item3 v = true /\ wf_val v = true.
Proof.
  unfold lit_item_ok. intros H. apply andb_true_iff in H as [H H3]. apply andb_true_iff in H as [H1 H2].
  repeat split; assumption.
Qed.

Lemma a2i_wj1 a : item_ok1 a -> a2i false a = Ok (wj1 a).
Proof.
  destruct a as [v|n t]; cbn [item_ok1 wj1]; intros H.
  - destruct (lit_item_inv v H) as [Hj _]. rewrite a2i_lit. exact (item_to_json_wr v Hj).
  - exact (a2j_path false t H).
Qed.

Lemma a2i_back1 a : item_ok1 a -> a2i false (back1 a) = Ok (wj1 a).
Proof.
  destruct a as [v|n t]; cbn [item_ok1 wj1 back1]; intros H.
  - destruct (lit_item_inv v H) as [Hj _]. rewrite a2i_lit. exact (item_to_json_wr v Hj).
  - exact (a2j_path_back false t H).
Qed.

Lemma json_pure_wj1 a : item_ok1 a -> json_pure (wj1 a) = true.
Proof.
  destruct a as [v|n t]; cbn [item_ok1 wj1]; intros H.
  - destruct (lit_item_inv v H) as [Hj _]. exact (json_pure_wr_item v Hj).
  - exact (path_json_pure t H).
Qed.

Lemma try_path_wj1 a : item_ok1 a -> try_path pfs (wj1 a) = Ok (x1 a).
Proof.
  destruct a as [v|n t]; cbn [item_ok1 wj1 x1]; intros H.
  - destruct (lit_item_inv v H) as [_ [Hi Hw]]. exact (try_path_wr_item v Hi Hw).
  - exact (try_path_path t H).
Qed.

Lemma arg1_eqb_back1 a : item_ok1 a -> arg1_eqb T (back1 a) a = true.
Proof.
  destruct a as [v|n t]; cbn [item_ok1 back1]; intros H.
  - destruct (lit_item_inv v H) as [_ [_ Hw]]. cbn [arg1_eqb]. exact (py_eq_refl_wf v Hw).
  - exact (arg1_eqb_back t H).
Qed.

Lemma not_marker_pure v : json_pure v = true -> dec_marker v = None.
Proof. destruct v; try reflexivity. discriminate. Qed.

Lemma item_of_yv a : item_ok1 a -> item_of (yv a) = back1 a /\ has_marker (yv a) = negb (is_lit1 a).
Proof.
  destruct a as [v|n t]; cbn [item_ok1 yv x1 item_val back1 is_lit1 negb]; intros H.
  - destruct (lit_item_inv v H) as [Hj _]. unfold item_of, has_marker. rewrite (not_marker_pure v Hj). split; reflexivity.
  - unfold item_of, has_marker. rewrite dec_marker_inert. split; reflexivity.
Qed.

Lemma yv_lit a : is_lit1 a = true -> yv a = raw1 a.
Proof. destruct a; [reflexivity|discriminate]. Qed.

Lemma back1_lit a : is_lit1 a = true -> back1 a = a.
Proof. destruct a; [reflexivity|discriminate]. Qed.

Lemma is_lit1_back1 a : is_lit1 (back1 a) = is_lit1 a.
Proof. destruct a; reflexivity. Qed.

(* ---- lists of items ---- *)

Lemma mapM_a2i_wj1 items : Forall item_ok1 items -> mapM (a2i false) items = Ok (map wj1 items).
Proof.
  induction 1 as [|a l Ha Hl IH]; cbn [mapM map]; [reflexivity|].
  rewrite (a2i_wj1 a Ha). cbn [bind]. rewrite IH. reflexivity.
Qed.

Lemma mapM_a2i_back1 items : Forall item_ok1 items -> mapM (a2i false) (map back1 items) = Ok (map wj1 items).
Proof.
  induction 1 as [|a l Ha Hl IH]; cbn [mapM map]; [reflexivity|].
  rewrite (a2i_back1 a Ha). cbn [bind]. rewrite IH. reflexivity.
Qed.

Lemma json_pure_map_wj1 items : Forall item_ok1 items -> forallb json_pure (map wj1 items) = true.
Proof.
  induction 1 as [|a l Ha Hl IH]; cbn [forallb map]; [reflexivity|]. rewrite (json_pure_wj1 a Ha). exact IH.
Qed.

Lemma coerce_items_wj1 items : Forall item_ok1 items -> coerce_items pfs (map wj1 items) = Ok (map x1 items).
Proof.
  induction 1 as [|a l Ha Hl IH]; cbn [coerce_items map]; [reflexivity|].
  rewrite (try_path_wj1 a Ha). cbn [bind]. rewrite IH. reflexivity.
Qed.

Lemma map_item_of_yv items : Forall item_ok1 items ->
  map item_of (map yv items) = map back1 items /\ existsb has_marker (map yv items) = negb (forallb is_lit1 items).
Proof.
  induction 1 as [|a l Ha Hl [IH1 IH2]]; cbn [map existsb forallb]; [split; reflexivity|].
  destruct (item_of_yv a Ha) as [H1 H2]. rewrite H1, H2, IH1, IH2. split; [reflexivity|].
  destruct (is_lit1 a); reflexivity.
Qed.

Lemma map_yv_lit items : forallb is_lit1 items = true -> map yv items = map raw1 items.
Proof.
  induction items as [|a l IH]; cbn [forallb map]; [reflexivity|].
  intros H. apply andb_true_iff in H as [Ha Hl]. rewrite (yv_lit a Ha), (IH Hl). reflexivity.
Qed.

Lemma map_back1_lit items : forallb is_lit1 items = true -> map back1 items = items.
Proof.
  induction items as [|a l IH]; cbn [forallb map]; [reflexivity|].
  intros H. apply andb_true_iff in H as [Ha Hl]. rewrite (back1_lit a Ha), (IH Hl). reflexivity.
Qed.

Lemma forallb_is_lit1_back items : forallb is_lit1 (map back1 items) = forallb is_lit1 items.
Proof. induction items as [|a l IH]; cbn [forallb map]; [reflexivity|]. rewrite is_lit1_back1, IH. reflexivity. Qed.

Lemma wf_raw1_items items : Forall item_ok1 items -> forallb is_lit1 items = true -> forallb wf_val (map raw1 items) = true.
Proof.
  induction 1 as [|a l Ha Hl IH]; cbn [forallb map]; [reflexivity|].
  intros H. apply andb_true_iff in H as [Hla Hll]. rewrite (IH Hll), andb_true_r.
  destruct a as [v|]; [|discriminate Hla]. cbn [item_ok1 raw1] in *. exact (proj2 (proj2 (lit_item_inv v Ha))).
Qed.

Lemma list_eqb_back1 items : Forall item_ok1 items -> list_eqb (arg1_eqb T) (map back1 items) items = true.
Proof.
  induction 1 as [|a l Ha Hl IH]; cbn [list_eqb map]; [reflexivity|]. rewrite (arg1_eqb_back1 a Ha), IH. reflexivity.
Qed.

Lemma wj1_lit_raw a : item_ok1 a -> is_lit1 a = true -> item_to_json X false (raw1 a) = Ok (wj1 a).
Proof.
  destruct a as [v|]; [|discriminate]. cbn [item_ok1 raw1 wj1]. intros H _.
  exact (item_to_json_wr v (proj1 (lit_item_inv v H))).
Qed.

Lemma mapM_item_raw items : Forall item_ok1 items -> forallb is_lit1 items = true ->
  mapM (item_to_json X false) (map raw1 items) = Ok (map wj1 items).
Proof.
  induction 1 as [|a l Ha Hl IH]; cbn [forallb mapM map]; [reflexivity|].
  intros H. apply andb_true_iff in H as [Hla Hll]. rewrite (wj1_lit_raw a Ha Hla). cbn [bind]. rewrite (IH Hll). reflexivity.
Qed.

(* ================================================================== *)
(* 2. mapping arguments                                                 *)

(* okkeys (C11Proof) looks at the keys only *)
Lemma forallb_keys (g : pyval -> bool) : forall (d1 d2 : list (pyval * pyval)),
  map fst d1 = map fst d2 -> forallb (fun kv => g (fst kv)) d1 = forallb (fun kv => g (fst kv)) d2.
Proof.
  induction d1 as [|[k1 v1] r1 IH]; intros [|[k2 v2] r2] H; cbn [map fst] in H; try discriminate H; [reflexivity|].
  injection H as -> Hr. cbn [forallb fst]. rewrite (IH r2 Hr). reflexivity.
Qed.

Lemma single_path_keys (d1 d2 : list (pyval * pyval)) :
  map fst d1 = map fst d2 -> single_path_key (unskv d1) = single_path_key (unskv d2).
Proof.
  destruct d1 as [|[k1 v1] [|[k1' v1'] r1]]; destruct d2 as [|[k2 v2] [|[k2' v2'] r2]]; cbn [map fst]; intros H;
    try discriminate H; try reflexivity.
  injection H as ->. reflexivity.
Qed.

Lemma okkeys_keys d1 d2 : map fst d1 = map fst d2 -> okkeys d1 = okkeys d2.
Proof.
  intros H. unfold okkeys. rewrite (single_path_keys d1 d2 H). f_equal. f_equal.
  - unfold str_keys. exact (forallb_keys (fun k => match k with VStr _ => true | _ => false end) d1 d2 H).
  - unfold unskv. rewrite !forallb_map.
    exact (forallb_keys (fun k => negb (str_contains "path" (match k with VStr s => s | _ => "" end))) d1 d2 H).
Qed.

(* the keys of a mapping argument: strings, none containing "path", not a single key reading `path[.m[.m]]` in some
   letter case (C11Proof.okkeys), pairwise distinct (a dict display) *)
Definition dkeys_ok (kvs : list (pyval * arg1)) : bool :=
  okkeys (map (fun kv => (fst kv, VNone)) kvs) && keys_distinct (map fst kvs).

Definition vmap (f : arg1 -> pyval) (kvs : list (pyval * arg1)) : list (pyval * pyval) :=
  map (fun kv => (fst kv, f (snd kv))) kvs.
Definition amap (f : arg1 -> arg1) (kvs : list (pyval * arg1)) : list (pyval * arg1) :=
  map (fun kv => (fst kv, f (snd kv))) kvs.

Lemma map_fst_vmap f kvs : map fst (vmap f kvs) = map fst kvs.
Proof. unfold vmap. rewrite map_map. reflexivity. Qed.

Lemma okkeys_vmap f kvs : dkeys_ok kvs = true -> okkeys (vmap f kvs) = true.
Proof.
  unfold dkeys_ok. intros H. apply andb_true_iff in H as [H _]. rewrite <- H. apply okkeys_keys.
  change (map (fun kv : pyval * arg1 => (fst kv, VNone)) kvs) with (vmap (fun _ => VNone) kvs).
  rewrite !map_fst_vmap. reflexivity.
Qed.

Lemma str_keys_vmap f kvs : dkeys_ok kvs = true -> str_keys (vmap f kvs) = true.
Proof. intros H. exact (proj1 (okkeys_inv _ (okkeys_vmap f kvs H))). Qed.

Lemma no_path_key_vmap f kvs : dkeys_ok kvs = true -> has_path_key (vmap f kvs) = false.
Proof.
  intros H. destruct (okkeys_inv _ (okkeys_vmap f kvs H)) as [H1 [H2 _]]. exact (no_path_key _ H1 H2).
Qed.

Lemma mapM_kv_wj1 kvs : Forall item_ok1 (map snd kvs) ->
  mapM (fun kv : pyval * arg1 => let* x := a2i false (snd kv) in Ok (fst kv, x)) kvs = Ok (vmap wj1 kvs).
Proof.
  unfold vmap. induction kvs as [|[k a] r IH]; cbn [map snd]; intros H; [reflexivity|].
  inversion H as [|? ? Ha Hr]; subst. cbn [mapM map fst snd]. rewrite (a2i_wj1 a Ha). cbn [bind].
  rewrite (IH Hr). reflexivity.
Qed.

Lemma mapM_kv_back1 kvs : Forall item_ok1 (map snd kvs) ->
  mapM (fun kv : pyval * arg1 => let* x := a2i false (snd kv) in Ok (fst kv, x)) (amap back1 kvs) = Ok (vmap wj1 kvs).
Proof.
  unfold vmap, amap. induction kvs as [|[k a] r IH]; cbn [map snd]; intros H; [reflexivity|].
  inversion H as [|? ? Ha Hr]; subst. cbn [mapM map fst snd]. rewrite (a2i_back1 a Ha). cbn [bind].
  rewrite (IH Hr). reflexivity.
Qed.

Lemma coerce_kvs_wj1 kvs : Forall item_ok1 (map snd kvs) ->
  coerce_kvs pfs (vmap wj1 kvs) = Ok (map (fun kv => (fst kv, x1 (snd kv))) kvs).
Proof.
  unfold vmap. induction kvs as [|[k a] r IH]; cbn [map snd]; intros H; [reflexivity|].
  inversion H as [|? ? Ha Hr]; subst. cbn [coerce_kvs map fst snd]. rewrite (try_path_wj1 a Ha). cbn [bind].
  rewrite (IH Hr). reflexivity.
Qed.

Lemma jp_ents_vmap kvs : str_keys (vmap wj1 kvs) = true -> Forall item_ok1 (map snd kvs) -> jp_ents (vmap wj1 kvs) = true.
Proof.
  unfold vmap, str_keys. induction kvs as [|[k a] r IH]; cbn [map snd fst forallb]; intros Hk H; [reflexivity|].
  inversion H as [|? ? Ha Hr]; subst. apply andb_true_iff in Hk as [Hk Hkr].
  destruct k; try discriminate Hk. cbn [jp_ents]. fold jp_ents. rewrite (json_pure_wj1 a Ha). exact (IH Hkr Hr).
Qed.

Lemma vmap_items kvs : Forall item_ok1 (map snd kvs) ->
  map (fun kv : pyval * pyval => (fst kv, item_of (snd kv))) (vmap yv kvs) = amap back1 kvs /\
  existsb (fun kv : pyval * pyval => has_marker (snd kv)) (vmap yv kvs) = negb (forallb (fun kv => is_lit1 (snd kv)) kvs).
Proof.
  unfold vmap, amap. induction kvs as [|[k a] r IH]; cbn [map snd]; intros H; [split; reflexivity|].
  inversion H as [|? ? Ha Hr]; subst. destruct (IH Hr) as [IH1 IH2].
  cbn [map existsb forallb fst snd]. destruct (item_of_yv a Ha) as [H1 H2]. rewrite H1, H2, IH1, IH2.
  split; [reflexivity|]. destruct (is_lit1 a); reflexivity.
Qed.

Lemma vmap_yv_lit kvs : forallb (fun kv => is_lit1 (snd kv)) kvs = true -> vmap yv kvs = vmap raw1 kvs.
Proof.
  unfold vmap. induction kvs as [|[k a] r IH]; cbn [forallb map fst snd]; [reflexivity|].
  intros H. apply andb_true_iff in H as [Ha Hr]. rewrite (yv_lit a Ha), (IH Hr). reflexivity.
Qed.

Lemma forallb_is_lit1_amap kvs :
  forallb (fun kv => is_lit1 (snd kv)) (amap back1 kvs) = forallb (fun kv => is_lit1 (snd kv)) kvs.
Proof.
  unfold amap. induction kvs as [|[k a] r IH]; cbn [forallb map fst snd]; [reflexivity|]. rewrite is_lit1_back1, IH. reflexivity.
Qed.

Lemma mapM_kv_raw kvs : Forall item_ok1 (map snd kvs) -> forallb (fun kv => is_lit1 (snd kv)) kvs = true ->
  mapM (fun kv : pyval * pyval => let* x := item_to_json X false (snd kv) in Ok (fst kv, x)) (vmap raw1 kvs) = Ok (vmap wj1 kvs).
Proof.
  unfold vmap. induction kvs as [|[k a] r IH]; cbn [map snd forallb]; intros H Hl; [reflexivity|].
  inversion H as [|? ? Ha Hr]; subst. apply andb_true_iff in Hl as [Hla Hlr].
  cbn [mapM map fst snd]. rewrite (wj1_lit_raw a Ha Hla). cbn [bind]. rewrite (IH Hr Hlr). reflexivity.
Qed.

(* ---- == on mapping arguments ---- *)

Lemma nd_look_in : forall (d : list (pyval * arg1)) k a,
  keys_distinct (map fst d) = true -> In (k, a) d -> py_eq k k = true -> nd_look k d = Some a.
Proof.
  induction d as [|[k2 a2] r IH]; intros k a Hd Hin Hk; [destruct Hin|].
  cbn [map fst keys_distinct] in Hd. apply andb_true_iff in Hd as [Hd Hr]. apply andb_true_iff in Hd as [_ Hd2].
  apply negb_true_iff in Hd2. cbn [nd_look].
  destruct Hin as [[= -> ->]|Hin].
  - rewrite Hk. reflexivity.
  - assert (Hne : py_eq k k2 = false).
    { apply (existsb_false_in (fun k' => py_eq k' k2) (map fst r) k Hd2). apply in_map_iff. exists (k, a). split; [reflexivity|exact Hin]. }
    rewrite Hne. exact (IH k a Hr Hin Hk).
Qed.

Lemma wf_ents_raw kvs : str_keys (vmap raw1 kvs) = true -> Forall item_ok1 (map snd kvs) ->
  forallb (fun kv => is_lit1 (snd kv)) kvs = true -> wf_ents (vmap raw1 kvs) = true.
Proof.
  unfold vmap, str_keys. induction kvs as [|[k a] r IH]; cbn [map snd fst forallb]; intros Hk H Hl; [reflexivity|].
  inversion H as [|? ? Ha Hr]; subst. apply andb_true_iff in Hk as [Hk Hkr]. apply andb_true_iff in Hl as [Hla Hlr].
  destruct k; try discriminate Hk. destruct a as [v|]; [|discriminate Hla].
  cbn [wf_ents]. fold wf_ents. cbn [item_ok1 raw1] in *. rewrite (proj2 (proj2 (lit_item_inv v Ha))).
  cbn [wf_val py_hashable andb]. exact (IH Hkr Hr Hlr).
Qed.

(* ================================================================== *)
(* 3. the argument of a one-parameter callable                          *)

(* THE FRAGMENT, on the argument:
   - a data path (path_good: C11PathProof; C12 discharges it for the C12 fragment, c12_path_good);
   - a LIST display whose items are data paths (path_good) or literals of the item fragment of C11EscProof
     (lit_item_ok: JSON-pure, well-formed; a mapping item is escaped -- some key contains "path" -- or taken literally
     by from_spec (okkeys));
   - a MAPPING display with keys dkeys_ok (strings, none containing "path", not a lone `path[.m[.m]]` key in some letter
     case, pairwise distinct) and values as the items above.
   A plain literal argument NA (ALit v) is C11EscProof's; a tuple display comes back as a list (ex_tuple_not_equal). *)
Definition narg_ok (n : narg) : Prop :=
  match n with
  | NA (ALit _) => False
  | NA (APath _ t) => path_good t
  | NItems tup items => tup = false /\ Forall item_ok1 items
  | NDict kvs => dkeys_ok kvs = true /\ Forall item_ok1 (map snd kvs)
  end.

(* what is written *)
Definition wjn (n : narg) : pyval :=
  match n with
  | NA (ALit v) => wr v
  | NA (APath _ t) => path_json t
  | NItems _ items => VList (map wj1 items)
  | NDict kvs => VDict (vmap wj1 kvs)
  end.

(* what is read back: data paths as the terms from_spec builds (path_back, as in C11PathProof); a display without any
   data path as the literal container it denotes *)
Definition back_n (n : narg) : narg :=
  match n with
  | NA (ALit _) => n
  | NA (APath _ t) => NA (APath 0%N (path_back t))
  | NItems tup items =>
      if forallb is_lit1 items then NA (ALit ((if tup then VTuple else VList) (map raw1 items)))
      else NItems tup (map back1 items)
  | NDict kvs =>
      if forallb (fun kv => is_lit1 (snd kv)) kvs then NA (ALit (VDict (vmap raw1 kvs)))
      else NDict (amap back1 kvs)
  end.

Lemma narg_to_json_ok n : narg_ok n -> narg_to_json false n = Ok (wjn n).
Proof.
  destruct n as [[v|tag t]|tup items|kvs]; cbn [narg_ok wjn]; intros H.
  - destruct H.
  - exact (a2j_path false t H).
  - destruct H as [_ H]. cbn [narg_to_json]. rewrite (mapM_a2i_wj1 items H). reflexivity.
  - destruct H as [Hk H]. cbn [narg_to_json].
    change (map (fun kv : pyval * arg1 => (fst kv, VNone)) kvs) with (vmap (fun _ => VNone) kvs).
    rewrite (no_path_key_vmap _ kvs Hk), (mapM_kv_wj1 kvs H). reflexivity.
Qed.

Lemma wjn_pure n : narg_ok n -> json_pure (wjn n) = true.
Proof.
  destruct n as [[v|tag t]|tup items|kvs]; cbn [narg_ok wjn]; intros H.
  - destruct H.
  - exact (path_json_pure t H).
  - destruct H as [_ H]. rewrite json_pure_list. exact (json_pure_map_wj1 items H).
  - destruct H as [Hk H]. rewrite C11EscProof.json_pure_dict. exact (jp_ents_vmap kvs (str_keys_vmap wj1 kvs Hk) H).
Qed.

(* from_spec on what was written: the argument value the callable receives *)
Lemma coerce_wjn n : narg_ok n -> exists cv, coerce pfs (wjn n) = Ok cv /\ cvaln cv = back_n n.
Proof.
  destruct n as [[v|tag t]|tup items|kvs]; cbn [narg_ok wjn]; intros H.
  - destruct H.
  - exists (CPath (path_back t)). split; [exact (coerce_path t H)|reflexivity].
  - destruct H as [-> H]. exists (CSeq false (map x1 items)). split.
    + cbn [coerce]. rewrite (coerce_items_wj1 items H). reflexivity.
    + cbn [coerced_val back_n]. rewrite map_map. fold yv. change (map (fun x => item_val inert_n (x1 x)) items) with (map yv items).
      destruct (map_item_of_yv items H) as [H1 H2]. cbn [lit_n]. rewrite H2, H1.
      destruct (forallb is_lit1 items) eqn:E; cbn [negb]; [|reflexivity].
      rewrite (map_yv_lit items E). reflexivity.
  - destruct H as [Hk H]. exists (CDict (map (fun kv => (fst kv, x1 (snd kv))) kvs)). split.
    + unfold coerce. rewrite (pfs_okmap _ (okkeys_vmap wj1 kvs Hk)), (coerce_kvs_wj1 kvs H). reflexivity.
    + cbn [coerced_val back_n]. rewrite map_map. cbn [fst snd].
      change (map (fun x : pyval * arg1 => (fst x, item_val inert_n (x1 (snd x)))) kvs) with (vmap yv kvs).
      destruct (vmap_items kvs H) as [H1 H2]. cbn [lit_n]. rewrite H2, H1.
      destruct (forallb (fun kv => is_lit1 (snd kv)) kvs) eqn:E; cbn [negb]; [|reflexivity].
      rewrite (vmap_yv_lit kvs E). reflexivity.
Qed.

(* the argument read back is == to the argument written *)
Lemma narg_eqb_back n : narg_ok n -> narg_eqb (back_n n) n = true.
Proof.
  destruct n as [[v|tag t]|tup items|kvs]; cbn [narg_ok back_n]; intros H.
  - destruct H.
  - unfold narg_eqb. cbn [norm_n]. exact (arg1_eqb_back t H).
  - destruct H as [-> H]. unfold narg_eqb.
    destruct (forallb is_lit1 items) eqn:E.
    + cbn [norm_n]. rewrite E. cbn [arg1_eqb]. apply py_eq_refl_wf. cbn [wf_val]. exact (wf_raw1_items items H E).
    + cbn [norm_n]. rewrite forallb_is_lit1_back, E. cbn [Bool.eqb andb]. exact (list_eqb_back1 items H).
  - destruct H as [Hk H]. unfold narg_eqb.
    pose proof Hk as Hk'. unfold dkeys_ok in Hk'. apply andb_true_iff in Hk' as [_ Hd].
    destruct (forallb (fun kv => is_lit1 (snd kv)) kvs) eqn:E.
    + cbn [norm_n]. rewrite E. cbn [arg1_eqb]. apply py_eq_refl_wf. rewrite C11Proof.wf_val_dict.
      change (map (fun kv : pyval * arg1 => (fst kv, raw1 (snd kv))) kvs) with (vmap raw1 kvs).
      rewrite (wf_ents_raw kvs (str_keys_vmap raw1 kvs Hk) H E), map_fst_vmap. exact Hd.
    + cbn [norm_n]. rewrite forallb_is_lit1_amap, E. unfold amap at 1. rewrite map_length, Nat.eqb_refl. cbn [andb].
      apply forallb_forall. intros kv Hin. unfold amap in Hin. apply in_map_iff in Hin as [[k a] [<- Hin]]. cbn [fst snd].
      assert (Hkk : py_eq k k = true).
      { pose proof (str_keys_vmap raw1 kvs Hk) as Hs. unfold str_keys in Hs. rewrite forallb_forall in Hs.
        specialize (Hs (k, raw1 a)). cbn [fst] in Hs.
        assert (Hi : In (k, raw1 a) (vmap raw1 kvs)) by (unfold vmap; apply in_map_iff; exists (k, a); split; [reflexivity|exact Hin]).
        specialize (Hs Hi). destruct k; try discriminate Hs. apply py_eq_refl_wf. reflexivity. }
      rewrite (nd_look_in kvs k a Hd Hin Hkk). apply arg1_eqb_back1.
      rewrite Forall_forall in H. apply H. apply in_map_iff. exists (k, a). split; [reflexivity|exact Hin].
Qed.

(* the argument read back is written as the same data again *)
Lemma narg_to_json_back n : narg_ok n -> narg_to_json false (back_n n) = Ok (wjn n).
Proof.
  destruct n as [[v|tag t]|tup items|kvs]; cbn [narg_ok back_n wjn]; intros H.
  - destruct H.
  - exact (a2j_path_back false t H).
  - destruct H as [-> H]. destruct (forallb is_lit1 items) eqn:E.
    + cbn [narg_to_json arg1_to_json val_to_json]. rewrite (mapM_item_raw items H E). reflexivity.
    + cbn [narg_to_json]. rewrite (mapM_a2i_back1 items H). reflexivity.
  - destruct H as [Hk H]. destruct (forallb (fun kv => is_lit1 (snd kv)) kvs) eqn:E.
    + cbn [narg_to_json arg1_to_json val_to_json]. rewrite (no_path_key_vmap raw1 kvs Hk), (mapM_kv_raw kvs H E). reflexivity.
    + cbn [narg_to_json].
      assert (Hn : has_path_key (map (fun kv : pyval * arg1 => (fst kv, VNone)) (amap back1 kvs)) = false).
      { unfold amap. rewrite map_map. cbn [fst]. exact (no_path_key_vmap (fun _ => VNone) kvs Hk). }
      rewrite Hn, (mapM_kv_back1 kvs H). reflexivity.
Qed.

(* ================================================================== *)
(* 4. leaves of one-parameter callables                                 *)

(* As in C11PathProof: a leaf is a typed DSL leaf (Tie.expected_leaf c q) in which the argument position holding the
   placeholder object [VObj k] stands for the k-th argument of a list [nas] of nargs. *)
Definition subn (nas : list narg) (v : pyval) : narg :=
  match v with
  | VObj k => match nth_error nas (N.to_nat k) with Some n => n | None => lit_n v end
  | _ => lit_n v
  end.

Definition nleaf (nas : list narg) (c : scls) (q : dsl) : leaf narg := leaf_map pyval narg (subn nas) (expected_leaf c q).
Definition backs_n (nas : list narg) : list narg := map back_n nas.

Lemma subn_plain_default nas d : (match d with VObj _ => false | _ => true end) = true -> lit_n d = subn nas d.
Proof. destruct d; try reflexivity. discriminate. Qed.

Lemma subn_backs nas k n : nth_error nas (N.to_nat k) = Some n -> subn (backs_n nas) (VObj k) = back_n n.
Proof. intros E. cbn [subn]. unfold backs_n. rewrite (map_nth_error back_n _ _ E). reflexivity. Qed.

Lemma subn_at nas k n : nth_error nas (N.to_nat k) = Some n -> subn nas (VObj k) = n.
Proof. intros E. cbn [subn]. rewrite E. reflexivity. Qed.

(* the one-parameter constructors *)
Lemma q_one_inv q v : q_form q = FOne v ->
  q_shape q = (1, false, false)%nat /\ q_call q = (q_method q, [v], []) /\ q_nodup q = true.
Proof. destruct q; cbn [q_form]; intros H; try discriminate H; injection H as <-; repeat split; reflexivity. Qed.

(* ---- the serialiser ---- *)

Lemma leafn_to_json_eq1 (l : leaf narg) k fd a rest :
  is_null_leaf l = false ->
  find_class (t_classes T) (l_cls l) = Some k -> find_def (t_defs T) (l_call l) = Some fd ->
  sig_shape fd = (1, false, false)%nat -> l_args l ++ map snd (l_kwargs l) = a :: rest ->
  leafn_to_json l = let key := (k_label k ++ "." ++ l_call l)%string in
                    let* v := narg_to_json (key_casts key) a in Ok (VDict [(VStr key, v)]).
Proof.
  intros Hn Hk Hd Hs Hl. unfold leafn_to_json, leaf_to_json. rewrite Hn, Hk, Hd. cbv zeta.
  unfold sig_shape in Hs. injection Hs as H1 H2 H3. rewrite H1, H2, H3. cbn [Nat.eqb negb andb]. rewrite Hl. reflexivity.
Qed.

Lemma leaf_vals_map (f : pyval -> narg) l :
  l_args (leaf_map pyval narg f l) ++ map snd (l_kwargs (leaf_map pyval narg f l)) = map f (leaf_vals l).
Proof. unfold leaf_vals, leaf_map, kmap. cbn [l_args l_kwargs]. rewrite map_app, !map_map. reflexivity. Qed.

Lemma leafn_to_json_one f c q v : q_form q = FOne v ->
  leafn_to_json (leaf_map pyval narg f (expected_leaf c q)) =
  let* j := narg_to_json (casts c q) (f v) in Ok (VDict [(VStr (leaf_key c q), j)]).
Proof.
  intros Hq. destruct (q_one_inv q v Hq) as [Hs _].
  rewrite (leafn_to_json_eq1 _ (scls_class c) (q_def q) (f v) []).
  - cbv zeta. cbn [leaf_map l_call]. rewrite expected_call, scls_class_label. fold (leaf_key c q).
    rewrite key_casts_leaf. reflexivity.
  - unfold is_null_leaf. cbn [leaf_map l_cls]. rewrite expected_cls. destruct c; reflexivity.
  - cbn [leaf_map l_cls]. rewrite expected_cls. apply find_scls_class.
  - cbn [leaf_map l_call]. rewrite expected_call. apply find_q_def.
  - rewrite q_def_shape. exact Hs.
  - rewrite leaf_vals_map, expected_vals, q_args_form, Hq. reflexivity.
Qed.

(* ---- the parser ---- *)

Lemma leaf_parse_one nas c q v0 f jv cv :
  class_ok c q = true -> casts c q = false -> q_form q = FOne v0 ->
  coerce pfs jv = Ok cv -> cvaln cv = subn nas v0 ->
  exists tm, selfn (S f) (VDict [(VStr (leaf_key c q), jv)]) = Ok (tm, CLeaf (nleaf nas c q)).
Proof.
  intros Hcls Hc Hq Hco Hv. destruct (casts_false c q Hc) as [Ht Hi]. destruct (q_one_inv q v0 Hq) as [Hs [Hcall _]].
  rewrite selfn_S, (stepn_leaf _ _ _ (leaf_key_not_binop c q)), parse_leaf_head_n, (head_leaf c q Hcls).
  cbn [run_head_n]. rewrite Ht, Hi. cbn [conv bind].
  unfold leaf_tail_n. rewrite Hco. cbn [bind].
  pose proof (q_ctor_shape c q Hcls) as Hsh. rewrite Hs in Hsh. unfold ctor_shape in Hsh. injection Hsh as H1 H2 H3.
  unfold dispatch. cbv zeta. rewrite H1, H2, H3. cbn [Nat.eqb negb andb bind]. rewrite Hv, scls_class_name.
  rewrite (build_leaf_ext narg lit_n (subn nas) _ _ _ _ (subn_plain_default nas)).
  change [subn nas v0] with (map (subn nas) [v0]).
  change (@nil (string * narg)) with (kmap pyval narg (subn nas) []).
  rewrite (build_leaf_map pyval narg (subn nas) idlit (subn nas) (fun v => eq_refl) T (scls_name c) (q_method q) [v0] []).
  pose proof (tie_build c q Hcls) as Hb. unfold built in Hb. rewrite Hcall in Hb. rewrite Hb. eexists. reflexivity.
Qed.

(* ---- == ---- *)

Lemma leafn_eqb_sub (f g : pyval -> narg) c q v : q_form q = FOne v ->
  narg_eqb (f v) (g v) = true ->
  leafn_eqb (leaf_map pyval narg f (expected_leaf c q)) (leaf_map pyval narg g (expected_leaf c q)) = true.
Proof.
  intros Hq He. destruct (q_one_inv q v Hq) as [_ [_ Hnd]].
  assert (Hv : forall x, In x (leaf_vals (expected_leaf c q)) -> narg_eqb (f x) (g x) = true).
  { rewrite expected_vals, q_args_form, Hq. cbn [form_args]. intros x [<-|[]]. exact He. }
  unfold leaf_vals in Hv.
  unfold leafn_eqb, leaf_eqb. cbn [leaf_map l_cls l_call l_args l_kwargs]. rewrite !String.eqb_refl. cbn [andb].
  rewrite list_eqb_map2, kw_eqb_map2; [reflexivity| | |].
  - apply str_nodup_NoDup. exact (expected_nodup c q Hnd).
  - intros kv Hin. apply Hv. apply in_or_app. right. apply in_map. exact Hin.
  - intros x Hin. apply Hv. apply in_or_app. left. exact Hin.
Qed.

(* ---- what the tree-level proofs need of a leaf ---- *)

(* the leaf fragment: a one-parameter callable (equal_to, not_equal_to, less_than, ..., in_, not_in, factor_of, has_factor,
   keys_contain, keys_contain_at_least_one_of, keys_contain_at_most_one_of) of any of the classes on which it exists, not
   under a type conversion, whose argument is the k-th narg, in the fragment narg_ok *)
Definition leaf_in_c11n (nas : list narg) (c : scls) (q : dsl) : Prop :=
  class_ok c q = true /\ casts c q = false /\
  exists k n, q_form q = FOne (VObj k) /\ nth_error nas (N.to_nat k) = Some n /\ narg_ok n.

Definition leaf_js_n (nas : list narg) (c : scls) (q : dsl) : pyval :=
  VDict [(VStr (leaf_key c q), match q_form q with FOne v => wjn (subn nas v) | _ => VNone end)].

Definition leaf_rt_n (nas : list narg) (c : scls) (q : dsl) : Prop :=
  leafn_to_json (nleaf nas c q) = Ok (leaf_js_n nas c q) /\ json_pure (leaf_js_n nas c q) = true /\
  (forall f, exists tm, selfn (S f) (leaf_js_n nas c q) = Ok (tm, CLeaf (nleaf (backs_n nas) c q))) /\
  leafn_to_json (nleaf (backs_n nas) c q) = Ok (leaf_js_n nas c q) /\
  leafn_eqb (nleaf (backs_n nas) c q) (nleaf nas c q) = true.

Lemma leaf_in_c11n_rt nas c q : leaf_in_c11n nas c q -> leaf_rt_n nas c q.
Proof.
  intros [Hcls [Hc [k [n [Hq [Hk Hn]]]]]]. unfold leaf_rt_n, leaf_js_n, nleaf. rewrite Hq, (subn_at nas k n Hk).
  split; [|split; [|split; [|split]]].
  - rewrite (leafn_to_json_one _ c q _ Hq), Hc, (subn_at nas k n Hk), (narg_to_json_ok n Hn). reflexivity.
  - rewrite json_pure_single. exact (wjn_pure n Hn).
  - intros f. destruct (coerce_wjn n Hn) as [cv [Hco Hv]].
    apply (leaf_parse_one (backs_n nas) c q (VObj k) f (wjn n) cv Hcls Hc Hq Hco).
    rewrite Hv, (subn_backs nas k n Hk). reflexivity.
  - rewrite (leafn_to_json_one _ c q _ Hq), Hc, (subn_backs nas k n Hk), (narg_to_json_back n Hn). reflexivity.
  - apply (leafn_eqb_sub _ _ c q (VObj k) Hq). rewrite (subn_backs nas k n Hk), (subn_at nas k n Hk).
    exact (narg_eqb_back n Hn).
Qed.

(* THE LEAF THEOREM: to_json_like() writes pure JSON data on which from_spec rebuilds a condition == to the original
   (the paths come back as path_back, exactly as in C11PathProof), and that condition is written as the same data again *)
Theorem C11N_leaf_roundtrip : forall nas c q,
  leaf_in_c11n nas c q ->
  let l := nleaf nas c q in
  let l' := nleaf (backs_n nas) c q in
  let j := leaf_js_n nas c q in
  leafn_to_json l = Ok j /\ json_pure j = true /\
  (exists tm, condn_from_spec j = Ok (tm, CLeaf l')) /\
  leafn_eqb l' l = true /\ leafn_to_json l' = Ok j.
Proof.
  intros nas c q H. destruct (leaf_in_c11n_rt nas c q H) as [H1 [H2 [H3 [H4 H5]]]]. cbv zeta.
  split; [exact H1|]. split; [exact H2|]. split; [|split; [exact H5|exact H4]].
  rewrite condn_unfold. exact (H3 39).
Qed.

(* ================================================================== *)
(* 5. and / or / xor trees (cf. C11PathProof section 6)                 *)

Notation cmapN nas := (cond_map pyval narg (subn nas)).

Lemma stepn_bin s o x y :
  stepn s (VDict [(VStr (bop_name o), VList [x; y])]) =
  let* (ta, ca) := s x in
  let* c1 := mk_bin o CNull ca in
  let* (tb, cb) := s y in
  let* c2 := mk_bin o c1 cb in
  Ok (DBin o (DBin o DNull ta) tb, c2).
Proof.
  unfold cond_from_spec_step. cbn [py_truthy negb]. rewrite binop_lookup.
  destruct (s x) as [[ta ca]|e]; cbn [bind fst snd]; [|reflexivity].
  destruct (mk_bin o CNull ca) as [c1|e]; cbn [bind fst snd]; [|reflexivity].
  destruct (s y) as [[tb cb]|e]; cbn [bind fst snd]; [|reflexivity].
  destruct (mk_bin o c1 cb) as [c2|e]; cbn [bind fst snd]; reflexivity.
Qed.

Fixpoint tree_js_n (nas : list narg) (t : qtree) : pyval :=
  match t with
  | QLeaf c q => leaf_js_n nas c q
  | QNull => VDict []
  | QBin o a b => VDict [(VStr (bop_name o), VList [tree_js_n nas a; tree_js_n nas b])]
  end.

(* every leaf round-trips (leaf_rt_n; leaf_in_c11n_rt provides it for the fragment of section 4) *)
Definition leaves_rt_n (nas : list narg) (t : qtree) : Prop :=
  Forall (fun cq => leaf_rt_n nas (fst cq) (snd cq)) (qleaves t).

Lemma leaves_rt_n_bin nas o a b : leaves_rt_n nas (QBin o a b) -> leaves_rt_n nas a /\ leaves_rt_n nas b.
Proof. unfold leaves_rt_n. cbn [qleaves]. rewrite Forall_app. exact (fun H => H). Qed.

Lemma leaves_rt_n_leaf nas c q : leaves_rt_n nas (QLeaf c q) -> leaf_rt_n nas c q.
Proof. unfold leaves_rt_n. cbn [qleaves]. intros H. inversion H; subst. assumption. Qed.

Lemma leaves_rt_n_qnorm nas t : leaves_rt_n nas t -> leaves_rt_n nas (qnorm t).
Proof. unfold leaves_rt_n. rewrite qleaves_qnorm. exact (fun H => H). Qed.

Section TreesN.
  Variable nas : list narg.

  Lemma condn_to_json_tree n : leaves_rt_n nas n ->
    condn_to_json (cmapN nas (cond_of n)) = Ok (tree_js_n nas n) /\
    condn_to_json (cmapN (backs_n nas) (cond_of n)) = Ok (tree_js_n nas n).
  Proof.
    unfold condn_to_json. induction n as [c q| |o a IHa b IHb]; intros H.
    - cbn [cond_of cond_map cond_to_json tree_js_n].
      destruct (leaves_rt_n_leaf nas c q H) as [H1 [_ [_ [H4 _]]]]. split; assumption.
    - split; reflexivity.
    - apply leaves_rt_n_bin in H as [Ha Hb]. destruct (IHa Ha) as [A1 A2]. destruct (IHb Hb) as [B1 B2].
      cbn [cond_of cond_map cond_to_json tree_js_n]. rewrite A1, A2, B1, B2. cbn [bind].
      rewrite bop_symbol_name. split; reflexivity.
  Qed.

  Lemma tree_js_n_pure n : leaves_rt_n nas n -> json_pure (tree_js_n nas n) = true.
  Proof.
    induction n as [c q| |o a IHa b IHb]; intros H.
    - destruct (leaves_rt_n_leaf nas c q H) as [_ [H2 _]]. exact H2.
    - reflexivity.
    - apply leaves_rt_n_bin in H as [Ha Hb]. cbn [tree_js_n]. rewrite json_pure_single, json_pure_list.
      cbn [forallb]. rewrite (IHa Ha), (IHb Hb). reflexivity.
  Qed.

  Lemma mk_bin_null_l_n o ps n : mk_bin o (@CNull narg) (cmapN ps (cond_of n)) = Ok (cmapN ps (cond_of n)).
  Proof.
    change (@CNull narg) with (cmapN ps (cond_of QNull)).
    rewrite mk_bin_map, mk_bin_cond_of. cbn [q_is_null].
    destruct (q_is_null n) eqn:E; [|reflexivity].
    apply q_is_null_eq in E. subst n. reflexivity.
  Qed.

  Lemma tree_js_n_parse t : forall f,
    tree_depth t <= f -> leaves_rt_n nas t ->
    if qmixed (qnorm t) then selfn f (tree_js_n nas t) = Err TypeError
    else exists tm, selfn f (tree_js_n nas t) = Ok (tm, cmapN (backs_n nas) (cond_of (qnorm t))).
  Proof.
    induction t as [c q| |o a IHa b IHb]; intros f Hd Hin.
    - cbn [tree_depth] in Hd. destruct f as [|f]; [lia|].
      cbn [qnorm tree_js_n]. rewrite qmixed_leaf.
      destruct (leaves_rt_n_leaf nas c q Hin) as [_ [_ [H3 _]]]. exact (H3 f).
    - cbn [tree_depth] in Hd. destruct f as [|f]; [lia|].
      cbn [qnorm tree_js_n]. rewrite qmixed_null, selfn_S, stepn_null. eexists. reflexivity.
    - cbn [tree_depth] in Hd. destruct f as [|f]; [lia|].
      apply leaves_rt_n_bin in Hin as [Hina Hinb].
      assert (Hda : tree_depth a <= f) by lia. assert (Hdb : tree_depth b <= f) by lia.
      specialize (IHa f Hda Hina). specialize (IHb f Hdb Hinb).
      cbn [tree_js_n]. rewrite selfn_S, stepn_bin.
      destruct (qmixed (qnorm a)) eqn:Ma.
      { rewrite (qmixed_qnorm_bin_l o a b Ma), IHa. reflexivity. }
      destruct IHa as [ta Ea]. rewrite Ea. cbn [bind]. rewrite mk_bin_null_l_n. cbn [bind].
      destruct (qmixed (qnorm b)) eqn:Mb.
      { rewrite (qmixed_qnorm_bin_r o a b Mb), IHb. reflexivity. }
      destruct IHb as [tb Eb]. rewrite Eb. cbn [bind]. rewrite mk_bin_map, mk_bin_cond_of.
      cbn [qnorm].
      destruct (q_is_null (qnorm b)); [rewrite Ma; eexists; reflexivity|].
      destruct (q_is_null (qnorm a)); [rewrite Mb; eexists; reflexivity|].
      destruct (qmixed (QBin o (qnorm a) (qnorm b))); [reflexivity|eexists; reflexivity].
  Qed.

  Lemma condn_eqb_tree n : leaves_rt_n nas n ->
    condn_eqb (cmapN (backs_n nas) (cond_of n)) (cmapN nas (cond_of n)) = true.
  Proof.
    unfold condn_eqb. induction n as [c q| |o a IHa b IHb]; intros H.
    - cbn [cond_of cond_map cond_eqb].
      destruct (leaves_rt_n_leaf nas c q H) as [_ [_ [_ [_ H5]]]]. exact H5.
    - reflexivity.
    - apply leaves_rt_n_bin in H as [Ha Hb].
      cbn [cond_of cond_map cond_eqb]. rewrite bop_eqb_refl, (IHa Ha), (IHb Hb). reflexivity.
  Qed.

  (* THE TREE THEOREM (modular in the leaves): and / or / xor trees, null operands, depth within the fuel of from_spec, no
     Key / Index mix *)
  Theorem C11N_roundtrip_modular : forall t,
    leaves_rt_n nas t -> tree_depth t <= 40 -> qmixed (qnorm t) = false ->
    let c := cmapN nas (cond_of (qnorm t)) in
    let c2 := cmapN (backs_n nas) (cond_of (qnorm t)) in
    let j := tree_js_n nas (qnorm t) in
    condn_to_json c = Ok j /\ json_pure j = true /\
    (exists tm, condn_from_spec j = Ok (tm, c2)) /\
    condn_eqb c2 c = true /\ condn_to_json c2 = Ok j.
  Proof.
    intros t Hl Hd Hm. cbv zeta.
    pose proof (leaves_rt_n_qnorm nas t Hl) as Hln.
    destruct (condn_to_json_tree _ Hln) as [J1 J2].
    split; [exact J1|]. split; [exact (tree_js_n_pure _ Hln)|].
    split; [|split; [exact (condn_eqb_tree _ Hln)|exact J2]].
    rewrite condn_unfold.
    assert (Hdn : tree_depth (qnorm t) <= 40) by (pose proof (depth_qnorm t); lia).
    pose proof (tree_js_n_parse (qnorm t) 40 Hdn Hln) as H. rewrite qnorm_idem, Hm in H. exact H.
  Qed.
End TreesN.

(* trees all of whose leaves are one-parameter callables with path / list / mapping arguments of the fragment *)
Definition tree_in_c11n (nas : list narg) (t : qtree) : Prop :=
  Forall (fun cq => leaf_in_c11n nas (fst cq) (snd cq)) (qleaves t) /\ tree_depth t <= 40 /\ qmixed (qnorm t) = false.

Theorem C11N_roundtrip_partial : forall nas t,
  tree_in_c11n nas t ->
  exists j tm c2,
    condn_to_json (cmapN nas (cond_of (qnorm t))) = Ok j /\ json_pure j = true /\
    condn_from_spec j = Ok (tm, c2) /\ condn_eqb c2 (cmapN nas (cond_of (qnorm t))) = true /\
    condn_to_json c2 = Ok j.
Proof.
  intros nas t [Hl [Hd Hm]].
  assert (Hrt : leaves_rt_n nas t).
  { unfold leaves_rt_n. revert Hl. apply Forall_impl. intros [c q]. apply leaf_in_c11n_rt. }
  destruct (C11N_roundtrip_modular nas t Hrt Hd Hm) as [H1 [H2 [[tm H3] [H4 H5]]]].
  exists (tree_js_n nas (qnorm t)), tm, (cmapN (backs_n nas) (cond_of (qnorm t))). repeat split; assumption.
Qed.
(* _partial: the leaves of the tree are restricted to the fragment of section 4 (one-parameter callables whose argument is a
   data path or a list / mapping display).  MISSING: leaves with plain literal arguments (C11EscProof.leaf_in_c11e) and
   leaves of multi-parameter / *args / **kwargs callables (C11PathProof.leaf_path_ok) inside the SAME tree: they need
   leaf_rt_n for the narg instance of the parser, i.e. narg versions of C11PathProof.tail_kw_p / tail_star_p and of
   C11EscProof.coerce_wr (C11N_roundtrip_modular accepts any leaf for which leaf_rt_n is proved). *)

(* ================================================================== *)
(* 6. the two cases spelled out; refusal                                *)

(* Value.in_([DataPath(..), 1, ..]) etc.: a LIST argument *)
Theorem C11N_list_roundtrip : forall c q items,
  class_ok c q = true -> casts c q = false -> q_form q = FOne (VObj 0%N) ->
  Forall item_ok1 items ->
  let l := nleaf [NItems false items] c q in
  let l' := nleaf [back_n (NItems false items)] c q in
  let j := VDict [(VStr (leaf_key c q), VList (map wj1 items))] in
  leafn_to_json l = Ok j /\ json_pure j = true /\
  (exists tm, condn_from_spec j = Ok (tm, CLeaf l')) /\
  leafn_eqb l' l = true /\ leafn_to_json l' = Ok j.
Proof.
  intros c q items Hcls Hc Hq Hi.
  assert (H : leaf_in_c11n [NItems false items] c q).
  { split; [exact Hcls|]. split; [exact Hc|]. exists 0%N, (NItems false items).
    split; [exact Hq|]. split; [reflexivity|]. split; [reflexivity|exact Hi]. }
  pose proof (C11N_leaf_roundtrip _ c q H) as R. cbv zeta in R. unfold leaf_js_n in R. rewrite Hq in R. exact R.
Qed.

(* Value.equal_to({"k": DataPath(..), ..}) etc.: a MAPPING argument without "path" in its keys *)
Theorem C11N_dict_roundtrip : forall c q kvs,
  class_ok c q = true -> casts c q = false -> q_form q = FOne (VObj 0%N) ->
  dkeys_ok kvs = true -> Forall item_ok1 (map snd kvs) ->
  let l := nleaf [NDict kvs] c q in
  let l' := nleaf [back_n (NDict kvs)] c q in
  let j := VDict [(VStr (leaf_key c q), VDict (vmap wj1 kvs))] in
  leafn_to_json l = Ok j /\ json_pure j = true /\
  (exists tm, condn_from_spec j = Ok (tm, CLeaf l')) /\
  leafn_eqb l' l = true /\ leafn_to_json l' = Ok j.
Proof.
  intros c q kvs Hcls Hc Hq Hk Hi.
  assert (H : leaf_in_c11n [NDict kvs] c q).
  { split; [exact Hcls|]. split; [exact Hc|]. exists 0%N, (NDict kvs).
    split; [exact Hq|]. split; [reflexivity|]. split; [exact Hk|exact Hi]. }
  pose proof (C11N_leaf_roundtrip _ c q H) as R. cbv zeta in R. unfold leaf_js_n in R. rewrite Hq in R. exact R.
Qed.

(* a mapping argument WITH "path" in a key is written as one escaped literal: a data path among its values is refused *)
Lemma narg_dict_path_key_refused cast kvs k tag t :
  has_path_key (map (fun kv : pyval * arg1 => (fst kv, VNone)) kvs) = true -> In (k, APath tag t) kvs ->
  narg_to_json cast (NDict kvs) = Err TypeError.
Proof.
  intros Hp Hin. cbn [narg_to_json]. rewrite Hp.
  destruct (forallb (fun kv => plain1 (snd kv)) kvs) eqn:E; [|reflexivity].
  rewrite forallb_forall in E. specialize (E _ Hin). discriminate E.
Qed.

Theorem C11N_dict_path_key_refused : forall c q kvs k tag t,
  q_form q = FOne (VObj 0%N) ->
  has_path_key (map (fun kv : pyval * arg1 => (fst kv, VNone)) kvs) = true -> In (k, APath tag t) kvs ->
  leafn_to_json (nleaf [NDict kvs] c q) = Err TypeError.
Proof.
  intros c q kvs k tag t Hq Hp Hin. unfold nleaf. rewrite (leafn_to_json_one _ c q _ Hq). cbn [subn N.to_nat nth_error].
  rewrite (narg_dict_path_key_refused _ kvs k tag t Hp Hin). reflexivity.
Qed.

(* ================================================================== *)
(* 7. non-vacuity                                                       *)

Definition p_a0 : pathterm pyval := spathterm_term st_a0.       (* DataPath("a", 0) *)
Definition p_blen : pathterm pyval :=                            (* DataPath("b").length() *)
  spathterm_term {| st_parts := [SPrim (VStr "b")]; st_mods := ["length"]; st_src := None |}.

Lemma p_a0_good : path_good p_a0.
Proof. apply c12_path_good; vm_compute; reflexivity. Qed.
Lemma p_blen_good : path_good p_blen.
Proof. apply c12_path_good; vm_compute; reflexivity. Qed.

(* Value.in_([DataPath("a", 0), 1, {"path": 2}]) *)
Definition ex_in_arg : narg := NItems false [APath 5%N p_a0; ALit (VInt 1); ALit (VDict [(VStr "path", VInt 2)])].
Lemma ex_in_arg_ok : narg_ok ex_in_arg.
Proof. split; [reflexivity|]. repeat constructor; cbn [item_ok1]; try exact p_a0_good; vm_compute; reflexivity. Qed.
Example ex_in_ok : leaf_in_c11n [ex_in_arg] SValue (Q_in (VObj 0)).
Proof.
  split; [reflexivity|]. split; [reflexivity|]. exists 0%N, ex_in_arg. split; [reflexivity|]. split; [reflexivity|].
  exact ex_in_arg_ok.
Qed.
Example ex_in_rt :
  nested_roundtrip (CLeaf (nleaf [ex_in_arg] SValue (Q_in (VObj 0)))) =
  Ok (VTuple [VDict [(VStr "value.in_", VList [VDict [(VStr "path", VList [VStr "a"; VInt 0])]; VInt 1;
                                              VDict [(VStr "\path", VInt 2)]])];
              VBool true; VBool true]).
Proof. vm_compute. reflexivity. Qed.
(* what from_spec rebuilds: the list display again, path term and literal mapping (un-escaped) in place *)
Example ex_in_back :
  back_n ex_in_arg = NItems false [APath 0%N p_a0; ALit (VInt 1); ALit (VDict [(VStr "path", VInt 2)])].
Proof. vm_compute. reflexivity. Qed.

(* Value.equal_to({"k": DataPath("b").length(), "j": [1]}) *)
Definition ex_eq_arg : narg := NDict [(VStr "k", APath 7%N p_blen); (VStr "j", ALit (VList [VInt 1]))].
Lemma ex_eq_arg_ok : narg_ok ex_eq_arg.
Proof.
  split; [vm_compute; reflexivity|]. repeat constructor; cbn [item_ok1]; try exact p_blen_good; vm_compute; reflexivity.
Qed.
Example ex_eq_ok : leaf_in_c11n [ex_eq_arg] SValue (Q_equal_to (VObj 0)).
Proof.
  split; [reflexivity|]. split; [reflexivity|]. exists 0%N, ex_eq_arg. split; [reflexivity|]. split; [reflexivity|].
  exact ex_eq_arg_ok.
Qed.
Example ex_eq_rt :
  nested_roundtrip (CLeaf (nleaf [ex_eq_arg] SValue (Q_equal_to (VObj 0)))) =
  Ok (VTuple [VDict [(VStr "value.equal_to", VDict [(VStr "k", VDict [(VStr "path.length", VList [VStr "b"])]);
                                                    (VStr "j", VList [VInt 1])])];
              VBool true; VBool true]).
Proof. vm_compute. reflexivity. Qed.

(* a tree: Value.in_([DataPath("a", 0), 1, {"path": 2}]) & (Value.equal_to({"k": ..., "j": [1]}) | Value.less_than(DataPath("a", 0))) *)
Definition ex_nas : list narg := [ex_in_arg; ex_eq_arg; NA (APath 9%N p_a0)].
Definition ex_ntree : qtree :=
  QBin BoAnd (QLeaf SValue (Q_in (VObj 0)))
             (QBin BoOr (QLeaf SValue (Q_equal_to (VObj 1))) (QLeaf SValue (Q_less_than (VObj 2)))).
Example ex_ntree_in : tree_in_c11n ex_nas ex_ntree.
Proof.
  split; [|split; [vm_compute; lia|reflexivity]].
  cbn [qleaves ex_ntree app]. repeat constructor; cbn [fst snd].
  - exists 0%N, ex_in_arg. split; [reflexivity|]. split; [reflexivity|]. exact ex_in_arg_ok.
  - exists 1%N, ex_eq_arg. split; [reflexivity|]. split; [reflexivity|]. exact ex_eq_arg_ok.
  - exists 2%N, (NA (APath 9%N p_a0)). split; [reflexivity|]. split; [reflexivity|]. exact p_a0_good.
Qed.

Example ex_ntree_rt :
  match nested_roundtrip (cmapN ex_nas (cond_of (qnorm ex_ntree))) with
  | Ok (VTuple [_; VBool true; VBool true]) => True | _ => False end.
Proof. vm_compute. exact I. Qed.

(* the same conditions written with the API (NestedArgs.build_n): the entry point for a harness *)
Example ex_run_in :
  run_nested_roundtrip (DLeaf "Value" "in_" [ex_in_arg] []) =
  nested_roundtrip (CLeaf (nleaf [ex_in_arg] SValue (Q_in (VObj 0)))).
Proof. vm_compute. reflexivity. Qed.

(* ================================================================== *)
(* 8. outside the fragment                                              *)

(* a TUPLE display is written as a list and comes back as a list: pure JSON, but not == (a tuple is never equal to a list):
   Value.in_((DataPath("a", 0), 1)) *)
Example ex_tuple_not_equal :
  nested_roundtrip (CLeaf (nleaf [NItems true [APath 5%N p_a0; ALit (VInt 1)]] SValue (Q_in (VObj 0)))) =
  Ok (VTuple [VDict [(VStr "value.in_", VList [VDict [(VStr "path", VList [VStr "a"; VInt 0])]; VInt 1])];
              VBool true; VBool false]).
Proof. vm_compute. reflexivity. Qed.

(* a mapping with "path" in a key and a data path among its values: refused by the serialiser (TypeError);
   Value.equal_to({"mypath": DataPath("a", 0)}) *)
Example ex_dict_path_key_refused :
  nested_roundtrip (CLeaf (nleaf [NDict [(VStr "mypath", APath 5%N p_a0)]] SValue (Q_equal_to (VObj 0)))) = Err TypeError.
Proof. vm_compute. reflexivity. Qed.

(* a lone key reading `path` in another letter case is NOT escaped ("path" is not in "PATH") but from_spec lower-cases key
   tokens: {"PATH": DataPath("a", 0)} is written as {"PATH": {"path": ["a", 0]}} and read back as a path spec (the path
   whose parts are the KEYS of the inner mapping: DataPath("path")), so the condition rebuilt is not == to the original
   -- hence the `single_path_key` clause of dkeys_ok *)
Example ex_upper_path_key :
  dkeys_ok [(VStr "PATH", APath 5%N p_a0)] = false /\
  nested_roundtrip (CLeaf (nleaf [NDict [(VStr "PATH", APath 5%N p_a0)]] SValue (Q_equal_to (VObj 0)))) =
  Ok (VTuple [VDict [(VStr "value.equal_to", VDict [(VStr "PATH", VDict [(VStr "path", VList [VStr "a"; VInt 0])])])];
              VBool true; VBool false]).
Proof. vm_compute. split; reflexivity. Qed.

Print Assumptions C11N_leaf_roundtrip.
Print Assumptions C11N_list_roundtrip.
Print Assumptions C11N_dict_roundtrip.
Print Assumptions C11N_roundtrip_modular.
Print Assumptions C11N_roundtrip_partial.
Print Assumptions C11N_dict_path_key_refused.
