(* C09: condition specs mean exactly what the equivalent DSL expression means.
   The model of ConditionLike.from_spec (Spec.v), run on the canonical spec spelling of a typed
   DSL leaf / tree (SpecSpell.v), yields the very condition the DSL constructors build
   (Tie.v / C02Proof.v), with every argument a literal.  Letter case and the documented
   aliases of the key tokens are immaterial.
   Facts about the generated tables T / X are closed by computation. *)
From Coq Require Import ZArith NArith List Bool String Ascii Lia.
From Valida Require Import Py Lang Defs Cond Dsl Check DocSem Path Cast Str SpecDefs RuleDefs RuleTerms
  Spec SpecSpell Inst RunSpec.
From Valida.Proofs Require Import PyFacts Tie C01Proof C02Proof RuleProof.
Import ListNotations.
Local Open Scope string_scope.
Local Open Scope list_scope.

(* ================================================================== *)
(* 0. the parser, one level at a time                                   *)

Notation pfs := (path_from_spec T X).
Notation self1 f := (cond_from_spec T X arg1 ALit (APath 0%N) inert0 (path_from_spec T X) f).
Notation step1 s := (cond_from_spec_step T X arg1 ALit (APath 0%N) inert0 (path_from_spec T X) s).
Notation pleaf := (parse_leaf T X arg1 ALit (APath 0%N) inert0 (path_from_spec T X)).
Notation dispatch1 := (dispatch arg1 ALit (APath 0%N) inert0).
Notation cmapL := (cond_map pyval arg1 ALit).
Notation lmapL := (leaf_map pyval arg1 ALit).
Notation kmapL := (kmap pyval arg1 ALit).

Lemma self1_S f spec : self1 (S f) spec = step1 (self1 f) spec.
Proof. reflexivity. Qed.

Lemma cond1_unfold spec : cond1_from_spec T X spec = self1 40 spec.
Proof. reflexivity. Qed.

Lemma step1_leaf s k v :
  assoc_str k (sx_binops X) = None -> step1 s (VDict [(VStr k, v)]) = pleaf k v.
Proof.
  intros H. unfold cond_from_spec_step. cbn [py_truthy negb]. rewrite H. reflexivity.
Qed.

Lemma step1_null s : step1 s (VDict []) = Ok (DNull, CNull).
Proof. reflexivity. Qed.

(* ------------------------------------------------------------------ *)
(* parse_leaf = a closed computation on the key tokens, then the part that looks at the value *)

Definition look (l : list (string * string)) (p : string) : string :=
  match assoc_str p l with Some q => q | None => p end.

Definition conv (b : bool) (v : pyval) : res pyval := if b then convert_types X v else Ok v.

Definition is_none (v : pyval) : bool := match v with VNone => true | _ => false end.

(* the part of parse_leaf after the class, the callable and the constructor are known *)
Definition leaf_tail (k : cclass) (call : string) (ct : ctor) (v2 : pyval) : res (dslc arg1 * cond arg1) :=
  let* cv := coerce pfs v2 in
  let* (pos, kw) := dispatch1 ct cv (is_none v2) in
  let* l := build_leaf T ALit (k_name k) call pos kw in
  Ok (DLeaf (k_name k) call pos kw, CLeaf l).

Inductive head :=
| HBad                                            (* malformed before the value is looked at *)
| HBad1 (conv1 : bool) (e : exc)                  (* no such pre-processor on the class *)
| HBad2 (conv1 conv2 : bool)                      (* no such constructor on the class *)
| HGood (k : cclass) (conv1 : bool) (call : string) (conv2 : bool) (ct : ctor).

Definition head_of (toks : list string) : head :=
  let n := List.length toks in
  let t0 := hd "" toks in
  let tl := last toks "" in
  match assoc_str t0 (sx_datum_types X) with
  | None => HBad
  | Some cls_name =>
      if negb ((n =? 2)%nat || (n =? 3)%nat)
         || ((n =? 2)%nat && existsb (fun p => String.eqb (fst p) tl) (sx_preproc_lookup X))
      then HBad
      else
        match find_class (t_classes T) cls_name with
        | None => HBad
        | Some k0 =>
            let pre := look (sx_preproc_lookup X) (nth 1 toks "") in
            let conv1 := (n =? 3)%nat && String.eqb pre "dtype" in
            match (if (n =? 3)%nat then class_pre T k0 pre else Ok k0) with
            | Err e => HBad1 conv1 e
            | Ok k =>
                let call0 := look (sx_callable_lookup X) tl in
                let call := match assoc_str call0 (dsl_names T) with Some c => c | None => "" end in
                let conv2 := String.eqb call "is_instance" || String.eqb call "keys_is_instance" in
                match find_ctor T k call with
                | None => HBad2 conv1 conv2
                | Some ct => HGood k conv1 call conv2 ct
                end
            end
        end
  end.

Definition run_head (h : head) (v : pyval) : res (dslc arg1 * cond arg1) :=
  match h with
  | HBad => Err MalformedCond
  | HBad1 c1 e => let* _ := conv c1 v in Err e
  | HBad2 c1 c2 => let* v1 := conv c1 v in let* _ := conv c2 v1 in Err MalformedCond
  | HGood k c1 call c2 ct => let* v1 := conv c1 v in let* v2 := conv c2 v1 in leaf_tail k call ct v2
  end.

Lemma parse_leaf_head key v : pleaf key v = run_head (head_of (lower_tokens key)) v.
Proof.
  unfold parse_leaf, head_of. generalize (lower_tokens key) as toks. intros toks.
  cbv zeta.
  destruct (assoc_str (hd "" toks) (sx_datum_types X)) as [cls_name|]; [|reflexivity].
  match goal with |- (if ?c then _ else _) = _ => destruct c end; [reflexivity|].
  destruct (find_class (t_classes T) cls_name) as [k0|]; [|reflexivity].
  fold (look (sx_preproc_lookup X) (nth 1 toks "")).
  fold (look (sx_callable_lookup X) (last toks "")).
  set (pre := look (sx_preproc_lookup X) (nth 1 toks "")).
  set (call0 := look (sx_callable_lookup X) (last toks "")).
  set (call := match assoc_str call0 (dsl_names T) with Some c => c | None => "" end).
  set (c2 := String.eqb call "is_instance" || String.eqb call "keys_is_instance").
  destruct (List.length toks =? 3)%nat; cbn [andb].
  - destruct (class_pre T k0 pre) as [k|e].
    + destruct (find_ctor T k call) as [ct|] eqn:Ec; destruct (String.eqb pre "dtype"); destruct c2;
        cbn [run_head conv bind]; rewrite ?Ec; try reflexivity;
        repeat (match goal with |- context [convert_types X ?a] => destruct (convert_types X a) end;
                cbn [bind]; rewrite ?Ec);
        reflexivity.
    + destruct (String.eqb pre "dtype"); cbn [run_head conv bind]; try reflexivity;
        destruct (convert_types X v) as [v1|e1]; reflexivity.
  - cbn [bind].
    destruct (find_ctor T k0 call) as [ct|]; destruct c2; cbn [run_head conv bind]; try reflexivity;
      destruct (convert_types X v) as [v1|e1]; reflexivity.
Qed.

(* a one-key mapping whose key is not an operator is a leaf spec *)
Lemma cond1_leaf k v :
  assoc_str k (sx_binops X) = None ->
  cond1_from_spec T X (VDict [(VStr k, v)]) = run_head (head_of (lower_tokens k)) v.
Proof.
  intros H. rewrite cond1_unfold, (self1_S 39), step1_leaf by exact H. apply parse_leaf_head.
Qed.

(* ================================================================== *)
(* 3. letter case, aliases, type names (ARBITRARY argument values)      *)

Theorem C09_case : forall k k' v,
  lower_tokens k = lower_tokens k' ->
  assoc_str k (sx_binops X) = None -> assoc_str k' (sx_binops X) = None ->
  cond1_from_spec T X (VDict [(VStr k, v)]) = cond1_from_spec T X (VDict [(VStr k', v)]).
Proof.
  intros k k' v Ht Hk Hk'. rewrite !cond1_leaf by assumption. rewrite Ht. reflexivity.
Qed.

(* the key tokens with the two alias tables applied; keys of the wrong length are all alike *)
Definition canon_tokens (toks : list string) : list string :=
  match toks with
  | [d; m] => [d; look (sx_callable_lookup X) m]
  | [d; p; m] => [d; look (sx_preproc_lookup X) p; look (sx_callable_lookup X) m]
  | _ => []
  end.

Lemma assoc_str_In {Y} k (l : list (string * Y)) q : assoc_str k l = Some q -> In (k, q) l.
Proof.
  induction l as [|[a x] l IH]; cbn [assoc_str]; [discriminate|].
  destruct (String.eqb a k) eqn:E.
  - apply String.eqb_eq in E. subst a. intros [= ->]. left. reflexivity.
  - intros H. right. exact (IH H).
Qed.

Lemma look_idem l :
  forallb (fun kv => String.eqb (look l (snd kv)) (snd kv)) l = true ->
  forall p, look l (look l p) = look l p.
Proof.
  intros H p. unfold look at 2 3. destruct (assoc_str p l) as [q|] eqn:E.
  - apply assoc_str_In in E. rewrite forallb_forall in H. specialize (H _ E).
    cbn [snd] in H. apply String.eqb_eq in H. exact H.
  - unfold look. rewrite E. reflexivity.
Qed.

Lemma look_pre_idem p : look (sx_preproc_lookup X) (look (sx_preproc_lookup X) p) = look (sx_preproc_lookup X) p.
Proof. apply look_idem. vm_compute. reflexivity. Qed.

Lemma look_call_idem p : look (sx_callable_lookup X) (look (sx_callable_lookup X) p) = look (sx_callable_lookup X) p.
Proof. apply look_idem. vm_compute. reflexivity. Qed.

Definition is_pre_token (m : string) : bool := existsb (fun p => String.eqb (fst p) m) (sx_preproc_lookup X).

Lemma is_pre_token_look m : is_pre_token (look (sx_callable_lookup X) m) = is_pre_token m.
Proof.
  unfold look. destruct (assoc_str m (sx_callable_lookup X)) as [q|] eqn:E; [|reflexivity].
  apply assoc_str_In in E.
  assert (H : forallb (fun kv => Bool.eqb (is_pre_token (snd kv)) (is_pre_token (fst kv))) (sx_callable_lookup X) = true)
    by (vm_compute; reflexivity).
  rewrite forallb_forall in H. specialize (H _ E). cbn [fst snd] in H. apply Bool.eqb_prop in H. exact H.
Qed.

Lemma head_of_nil : head_of [] = HBad.
Proof. vm_compute. reflexivity. Qed.

Lemma head_of_canon toks : head_of toks = head_of (canon_tokens toks).
Proof.
  destruct toks as [|d [|m [|m2 [|x r]]]]; cbn [canon_tokens]; try reflexivity.
  - rewrite head_of_nil. unfold head_of. cbn [List.length hd Nat.eqb negb orb].
    destruct (assoc_str d (sx_datum_types X)); reflexivity.
  - unfold head_of. cbn [List.length hd last nth Nat.eqb negb orb andb].
    fold (is_pre_token m). fold (is_pre_token (look (sx_callable_lookup X) m)).
    rewrite is_pre_token_look, look_call_idem. reflexivity.
  - unfold head_of. cbn [List.length hd last nth Nat.eqb negb orb andb].
    rewrite look_pre_idem, look_call_idem. reflexivity.
  - rewrite head_of_nil. unfold head_of. cbn [List.length hd Nat.eqb negb orb].
    destruct (assoc_str d (sx_datum_types X)); reflexivity.
Qed.

(* parse_leaf depends on the key only through its canonical tokens *)
Theorem C09_aliases : forall k k' v,
  canon_tokens (lower_tokens k) = canon_tokens (lower_tokens k') ->
  assoc_str k (sx_binops X) = None -> assoc_str k' (sx_binops X) = None ->
  cond1_from_spec T X (VDict [(VStr k, v)]) = cond1_from_spec T X (VDict [(VStr k', v)]).
Proof.
  intros k k' v Ht Hk Hk'. rewrite !cond1_leaf by assumption.
  rewrite (head_of_canon (lower_tokens k)), (head_of_canon (lower_tokens k')), Ht. reflexivity.
Qed.

(* str.split on a string with a separator in it *)
Lemma str_split_aux_app sep a b : forall cur,
  str_split_aux sep (a ++ String sep b) cur = str_split_aux sep a cur ++ str_split_aux sep b "".
Proof.
  induction a as [|c r IH]; intros cur; cbn [append str_split_aux].
  - rewrite Ascii.eqb_refl. reflexivity.
  - destruct (Ascii.eqb c sep); [rewrite IH; reflexivity|apply IH].
Qed.

Lemma str_split_aux_nonnil sep s : forall cur, str_split_aux sep s cur <> [].
Proof.
  induction s as [|c r IH]; intros cur; cbn [str_split_aux]; [discriminate|].
  destruct (Ascii.eqb c sep); [discriminate|apply IH].
Qed.

Lemma lower_tokens_app a b : lower_tokens (a ++ String "."%char b) = lower_tokens a ++ lower_tokens b.
Proof. unfold lower_tokens, str_split. rewrite str_split_aux_app, map_app. reflexivity. Qed.

Lemma lower_tokens_nonnil s : lower_tokens s <> [].
Proof.
  unfold lower_tokens, str_split. pose proof (str_split_aux_nonnil "."%char s "") as H.
  destruct (str_split_aux "."%char s ""); [contradiction|discriminate].
Qed.

Definition datum_token (d : string) : Prop := d = "value" \/ d = "key" \/ d = "index".

Lemma datum_not_binop d p m : datum_token d -> assoc_str (d ++ String "."%char (p ++ String "."%char m)) (sx_binops X) = None.
Proof. intros [-> | [-> | ->]]; reflexivity. Qed.

Lemma alias_pre d p p' m v :
  datum_token d -> look (sx_preproc_lookup X) (str_lower p) = look (sx_preproc_lookup X) (str_lower p') ->
  lower_tokens p = [str_lower p] -> lower_tokens p' = [str_lower p'] ->
  cond1_from_spec T X (VDict [(VStr (d ++ String "."%char (p ++ String "."%char m)), v)]) =
  cond1_from_spec T X (VDict [(VStr (d ++ String "."%char (p' ++ String "."%char m)), v)]).
Proof.
  intros Hd Hp Tp Tp'. apply C09_aliases; try (apply datum_not_binop; exact Hd).
  rewrite !lower_tokens_app, Tp, Tp'.
  assert (Td : lower_tokens d = [d]) by (destruct Hd as [-> | [-> | ->]]; reflexivity).
  rewrite Td. cbn [app].
  pose proof (lower_tokens_nonnil m) as Hm.
  destruct (lower_tokens m) as [|x [|y r]]; [contradiction| |reflexivity].
  cbn [canon_tokens]. rewrite Hp. reflexivity.
Qed.

(* "type" / "dtype" and "len" / "length" are the same pre-processor, whatever follows *)
Theorem C09_alias_type : forall d m v, datum_token d ->
  cond1_from_spec T X (VDict [(VStr (d ++ ".type." ++ m), v)]) =
  cond1_from_spec T X (VDict [(VStr (d ++ ".dtype." ++ m), v)]).
Proof. intros d m v Hd. exact (alias_pre d "type" "dtype" m v Hd eq_refl eq_refl eq_refl). Qed.

Theorem C09_alias_len : forall d m v, datum_token d ->
  cond1_from_spec T X (VDict [(VStr (d ++ ".len." ++ m), v)]) =
  cond1_from_spec T X (VDict [(VStr (d ++ ".length." ++ m), v)]).
Proof. intros d m v Hd. exact (alias_pre d "len" "length" m v Hd eq_refl eq_refl eq_refl). Qed.

(* "in" / "in_" are the same callable on every class *)
Theorem C09_alias_in : forall c v,
  cond1_from_spec T X (VDict [(VStr (scls_label c ++ ".in"), v)]) =
  cond1_from_spec T X (VDict [(VStr (scls_label c ++ ".in_"), v)]).
Proof.
  intros c v. apply C09_aliases; destruct c; reflexivity.
Qed.

(* type names in any letter case, and type objects, convert to the same type *)
Theorem C09_type_names : forall n t,
  assoc_str (str_lower n) (sx_dtype_names X) = Some t -> to_type X (VStr n) = Ok (VType t).
Proof. intros n t H. unfold to_type. rewrite H. reflexivity. Qed.

Lemma to_type_known v : is_known_type v = true -> to_type X v = Ok v.
Proof.
  destruct v as [| | | | | | | |t|]; try discriminate. destruct t; try discriminate; reflexivity.
Qed.

Theorem C09_type_objects : forall t, is_known_type (VType t) = true -> to_type X (VType t) = Ok (VType t).
Proof. intros t H. exact (to_type_known _ H). Qed.

Theorem C09_type_name_or_object : forall n t,
  is_known_type (VType t) = true -> assoc_str (str_lower n) (sx_dtype_names X) = Some t ->
  to_type X (VStr n) = to_type X (VType t).
Proof. intros n t Hk Hn. rewrite (C09_type_names n t Hn), (C09_type_objects t Hk). reflexivity. Qed.

(* every known type has a name, e.g. its own *)
Example type_name_cases :
  map (to_type X) [VStr "INT"; VStr "Float"; VStr "str"; VStr "List"; VStr "MAP"; VStr "dict"; VStr "Bool"; VStr "path"]
  = map (fun t => Ok (VType t)) [TInt; TFloat; TStr; TList; TDict; TDict; TBool; TPath].
Proof. vm_compute. reflexivity. Qed.

(* ================================================================== *)
(* 1. leaves                                                            *)

(* ---- closed facts about the key of a canonical leaf spec ---- *)

Definition typed (c : scls) : bool := match scls_pre c with PType => true | _ => false end.
Definition q_is_inst (q : dsl) : bool :=
  match q with Q_is_instance _ | Q_keys_is_instance _ => true | _ => false end.

Definition dummy_class : cclass :=
  {| k_name := ""; k_kind := DValue; k_pre := PNone; k_general := false; k_map := false; k_label := "";
     k_length := None; k_dtype := None |}.
Definition dummy_ctor : ctor :=
  {| c_name := ""; c_params := []; c_vararg := None; c_kwarg := None; c_target := ""; c_store := [] |}.

Definition scls_class (c : scls) : cclass :=
  match find_class (t_classes T) (scls_name c) with Some k => k | None => dummy_class end.
Definition q_ctor (c : scls) (q : dsl) : ctor :=
  match find_ctor T (scls_class c) (q_method q) with Some ct => ct | None => dummy_ctor end.

Definition leaf_key (c : scls) (q : dsl) : string := scls_label c ++ "." ++ q_method q.

Lemma leaf_key_not_binop c q : assoc_str (leaf_key c q) (sx_binops X) = None.
Proof. destruct c; reflexivity. Qed.

Lemma scls_class_name c : k_name (scls_class c) = scls_name c.
Proof. destruct c; reflexivity. Qed.

(* the key of the canonical spelling selects the class, the callable and the constructor of the
   DSL call, and asks for a type conversion exactly under `dtype` / for `(keys_)is_instance` *)
Lemma head_leaf c q : class_ok c q = true ->
  head_of (lower_tokens (leaf_key c q)) = HGood (scls_class c) (typed c) (q_method q) (q_is_inst q) (q_ctor c q).
Proof.
  intros H. destruct c; destruct q; try discriminate H; vm_compute; reflexivity.
Qed.

(* which of the five argument shapes: (number of named parameters, *args, **kwargs) *)
Definition ctor_shape (ct : ctor) : nat * bool * bool :=
  (List.length (c_params ct),
   match c_vararg ct with Some _ => true | None => false end,
   match c_kwarg ct with Some _ => true | None => false end).

Definition dispatch_by (sh : nat * bool * bool) (v : coerced) : res (list arg1 * list (string * arg1)) :=
  let '(npk, va, kw) := sh in
  if (npk =? 0)%nat && negb va && negb kw then Ok ([], [])
  else if (npk =? 1)%nat && negb va && negb kw then Ok ([coerced_val arg1 ALit (APath 0%N) inert0 v], [])
  else if (1 <? npk)%nat && negb va && negb kw then
    match v with
    | CDict items => let* k := kw_of arg1 ALit (APath 0%N) items in Ok ([], k)
    | CSeq _ items => Ok (map (item_arg arg1 ALit (APath 0%N)) items, [])
    | _ => Err MalformedCond
    end
  else if va && (npk =? 0)%nat && negb kw then
    match v with
    | CSeq false items => Ok (map (item_arg arg1 ALit (APath 0%N)) items, [])
    | _ => Err MalformedCond
    end
  else if kw && negb va then
    match v with
    | CDict items => let* k := kw_of arg1 ALit (APath 0%N) items in Ok ([], k)
    | _ => Err MalformedCond
    end
  else Err MalformedCond.

Lemma dispatch_shape ct cv raw : dispatch1 ct cv raw = dispatch_by (ctor_shape ct) cv.
Proof. reflexivity. Qed.

Definition q_shape (q : dsl) : nat * bool * bool :=
  match q with
  | Q_truthy | Q_falsy | Q_null => (0, false, false)
  | Q_equal_to _ | Q_not_equal_to _ | Q_less_than _ | Q_greater_than _ | Q_less_than_or_equal_to _
  | Q_greater_than_or_equal_to _ | Q_in _ | Q_not_in _ | Q_factor_of _ | Q_has_factor _ | Q_keys_contain _
  | Q_keys_contain_at_least_one_of _ | Q_keys_contain_at_most_one_of _ => (1, false, false)
  | Q_in_range _ _ | Q_not_in_range _ _ | Q_equal_to_approx _ _ | Q_keys_contain_N_of _ _
  | Q_keys_contain_at_least_N_of _ _ | Q_keys_contain_at_most_N_of _ _ => (2, false, false)
  | Q_items_contain _ => (0, false, true)
  | _ => (0, true, false)
  end%nat.

Lemma q_ctor_shape c q : class_ok c q = true -> ctor_shape (q_ctor c q) = q_shape q.
Proof.
  intros H. destruct c; destruct q; try discriminate H; vm_compute; reflexivity.
Qed.

(* ---- type conversion is the identity on the known types ---- *)

Lemma mapM_to_type_known l : forallb is_known_type l = true -> mapM (to_type X) l = Ok l.
Proof.
  induction l as [|v l IH]; cbn [forallb mapM]; [reflexivity|].
  intros H. apply andb_true_iff in H as [Hv Hl]. rewrite (to_type_known v Hv), (IH Hl). reflexivity.
Qed.

Lemma convert_types_list l : forallb is_known_type l = true -> convert_types X (VList l) = Ok (VList l).
Proof. intros H. unfold convert_types. rewrite (mapM_to_type_known l H). reflexivity. Qed.

Lemma convert_types_ok v : types_only v = true -> convert_types X v = Ok v.
Proof.
  destruct v; try discriminate; intros H.
  - apply convert_types_list. exact H.
  - exact (to_type_known _ H).
Qed.

Lemma conv_ok c q : q_types_ok c q = true ->
  conv (typed c) (q_spec_val q) = Ok (q_spec_val q) /\ conv (q_is_inst q) (q_spec_val q) = Ok (q_spec_val q).
Proof.
  unfold q_types_ok. fold (typed c). intros H.
  destruct q; cbn [q_spec_val q_is_inst conv]; destruct (typed c); cbn [conv negb] in *;
    try discriminate H; split; try reflexivity;
    try (apply convert_types_ok; exact H); apply convert_types_list; exact H.
Qed.

(* ---- coercion of plain values: nothing is taken for a path ---- *)

Lemma pfs_nondict v : plain_item v = true -> pfs v = Err MalformedPath.
Proof. destruct v; try discriminate; reflexivity. Qed.

Lemma plain_plain_item v : plain v = true -> plain_item v = true.
Proof. destruct v; try discriminate; reflexivity. Qed.

Lemma forallb_plain_item l : forallb plain l = true -> forallb plain_item l = true.
Proof.
  induction l as [|v l IH]; cbn [forallb]; [reflexivity|].
  intros H. apply andb_true_iff in H as [Hv Hl]. rewrite (plain_plain_item v Hv), (IH Hl). reflexivity.
Qed.

Lemma try_path_plain v : plain_item v = true -> try_path pfs v = Ok (inr v).
Proof. intros H. unfold try_path. rewrite (pfs_nondict v H). reflexivity. Qed.

Lemma coerce_items_plain l : forallb plain_item l = true -> coerce_items pfs l = Ok (map inr l).
Proof.
  induction l as [|v l IH]; cbn [forallb coerce_items map]; [reflexivity|].
  intros H. apply andb_true_iff in H as [Hv Hl]. rewrite (try_path_plain v Hv), (IH Hl). reflexivity.
Qed.

Lemma no_inl_inr (l : list pyval) :
  existsb (fun x : pathterm pyval + pyval => match x with inl _ => true | inr _ => false end) (map inr l) = false.
Proof. induction l as [|v l IH]; cbn [map existsb orb]; [reflexivity|exact IH]. Qed.

Lemma item_val_inr (l : list pyval) : map (item_val inert0) (map inr l) = l.
Proof. rewrite map_map. cbn [item_val]. apply map_id. Qed.

Lemma item_arg_inr (l : list pyval) : map (item_arg arg1 ALit (APath 0%N)) (map inr l) = map ALit l.
Proof. rewrite map_map. reflexivity. Qed.

Notation cval := (coerced_val arg1 ALit (APath 0%N) inert0).

Lemma coerce_plain v : plain v = true -> exists cv, coerce pfs v = Ok cv /\ cval cv = ALit v.
Proof.
  intros H. destruct v; try discriminate H; try (eexists; split; reflexivity).
  - cbn [plain] in H. exists (CSeq false (map inr l)). split.
    + cbn [coerce]. rewrite (coerce_items_plain l H). reflexivity.
    + cbn [coerced_val]. rewrite item_val_inr. reflexivity.
  - cbn [plain] in H. exists (CSeq true (map inr l)). split.
    + cbn [coerce]. rewrite (coerce_items_plain l H). cbn [bind]. rewrite no_inl_inr. reflexivity.
    + cbn [coerced_val]. rewrite item_val_inr. reflexivity.
Qed.

Lemma coerce_plain_list l : forallb plain l = true -> coerce pfs (VList l) = Ok (CSeq false (map inr l)).
Proof. intros H. cbn [coerce]. rewrite (coerce_items_plain l (forallb_plain_item l H)). reflexivity. Qed.

(* ---- keyword mappings: taken literally unless they look like (escaped) path specs ---- *)

Definition key_clean (s : string) : bool := negb (str_contains esc_code s).

(* the only key of the mapping reads `path`, `path.<m>` or `path.<m>.<m>` in some letter case *)
Definition single_path_key (items : list (string * pyval)) : bool :=
  match items with
  | [(k, _)] =>
      let toks := lower_tokens k in
      let n := List.length toks in
      String.eqb (hd "" toks) "path" && ((1 <=? n)%nat && (n <=? 3)%nat)
  | _ => false
  end.

Definition items_ok (items : list (string * pyval)) : bool :=
  forallb (fun kv => key_clean (fst kv)) items && negb (single_path_key items).

Definition skv (kv : string * pyval) : pyval * pyval := (VStr (fst kv), snd kv).

Lemma unescape_clean items : forall keep moved found,
  forallb (fun kv => key_clean (fst kv)) items = true ->
  unescape_keys (map skv items) keep moved found = Ok ((keep ++ map skv items) ++ moved, found).
Proof.
  induction items as [|[k v] r IH]; intros keep moved found H; cbn [map skv fst snd unescape_keys].
  - rewrite app_nil_r. reflexivity.
  - cbn [forallb fst] in H. apply andb_true_iff in H as [Hk Hr]. unfold key_clean in Hk.
    apply negb_true_iff in Hk. rewrite Hk. fold (skv (k, v)).
    change ((VStr k, v)) with (skv (k, v)).
    rewrite (IH _ moved found Hr). rewrite <- app_assoc. reflexivity.
Qed.

Lemma pfs_kwd items : items_ok items = true -> pfs (VDict (map skv items)) = Err MalformedPath.
Proof.
  unfold items_ok. intros H. apply andb_true_iff in H as [Hc Hs]. apply negb_true_iff in Hs.
  destruct items as [|[k v] r]; [reflexivity|].
  unfold path_from_spec, path_from_spec0. cbn [map].
  change (skv (k, v) :: map skv r) with (map skv ((k, v) :: r)).
  cbn [skv fst snd]. change ((VStr k, v) :: map skv r) with (map skv ((k, v) :: r)).
  rewrite (unescape_clean ((k, v) :: r) [] [] false Hc). cbn [bind].
  destruct r as [|kv2 r2]; [|reflexivity].
  cbn [map]. cbn [single_path_key] in Hs.
  destruct (String.eqb (hd "" (lower_tokens k)) "path"); cbn [negb orb andb] in *; [|reflexivity].
  rewrite Hs. reflexivity.
Qed.

Lemma coerce_kvs_plain items : forallb plain (map snd items) = true ->
  coerce_kvs pfs (map skv items) = Ok (map (fun kv => (VStr (fst kv), inr (snd kv))) items).
Proof.
  induction items as [|[k v] r IH]; cbn [map forallb coerce_kvs skv fst snd]; [reflexivity|].
  intros H. apply andb_true_iff in H as [Hv Hr].
  rewrite (try_path_plain v (plain_plain_item v Hv)). cbn [bind].
  change (map (fun kv : string * pyval => (VStr (fst kv), snd kv)) r) with (map skv r).
  rewrite (IH Hr). reflexivity.
Qed.

Lemma kw_of_lit (items : list (string * pyval)) :
  kw_of arg1 ALit (APath 0%N) (map (fun kv => (VStr (fst kv), inr (snd kv))) items) = Ok (kmapL items).
Proof.
  induction items as [|[k v] r IH]; cbn [map kw_of fst snd]; [reflexivity|].
  rewrite IH. reflexivity.
Qed.

Lemma coerce_kwd items : items_ok items = true -> forallb plain (map snd items) = true ->
  coerce pfs (kwd items) = Ok (CDict (map (fun kv => (VStr (fst kv), inr (snd kv))) items)).
Proof.
  intros Hok Hpl. unfold kwd. change (fun kv : string * pyval => (VStr (fst kv), snd kv)) with skv.
  unfold coerce. rewrite (pfs_kwd items Hok), (coerce_kvs_plain items Hpl). reflexivity.
Qed.
